import Proofs.C14Codec
/-! C14 helper lemmas: UTF-16 and UTF-8 round trips (core Lean only). -/
namespace Proofs.C14
open FqModel FqModel.Codec

theorem char_valid (c : Char) : c.toNat < 0xD800 ∨ (0xDFFF < c.toNat ∧ c.toNat < 0x110000) := c.valid

theorem u8_toNat_ofNat (n : Nat) (h : n < 256) : (UInt8.ofNat n).toNat = n := by
  simp [UInt8.toNat_ofNat']; omega

/-! ### UTF-16 -/

theorem unitsOfBytes_unitBytes (le : Bool) (us : List Nat) (h : ∀ u ∈ us, u < 65536) :
    unitsOfBytes le (us.flatMap (unitBytes le)) = (us, false) := by
  induction us with
  | nil => rfl
  | cons u us ih =>
    have hu : u < 65536 := h u (List.mem_cons_self ..)
    have ih' := ih (fun x hx => h x (List.mem_cons_of_mem _ hx))
    cases le <;>
      simp only [List.flatMap_cons, unitBytes, List.cons_append, List.nil_append, unitsOfBytes, ih',
        Bool.false_eq_true, if_false, if_true] <;>
      rw [u8_toNat_ofNat _ (by omega), u8_toNat_ofNat _ (by omega)] <;>
      congr 2 <;> omega

theorem utf16Units_small (c : Char) (h : c.toNat < 0x10000) : utf16Units c = [c.toNat] := by
  simp only [utf16Units, h, if_true]

theorem utf16Units_big (c : Char) (h : ¬ c.toNat < 0x10000) :
    utf16Units c = [0xD800 + (c.toNat - 0x10000) / 1024, 0xDC00 + (c.toNat - 0x10000) % 1024] := by
  simp only [utf16Units, h, if_false]

theorem utf16Units_lt (c : Char) : ∀ u ∈ utf16Units c, u < 65536 := by
  have hv := char_valid c
  intro u hu
  by_cases h : c.toNat < 0x10000
  · rw [utf16Units_small c h] at hu
    simp only [List.mem_cons, List.mem_nil_iff, or_false] at hu
    omega
  · rw [utf16Units_big c h] at hu
    simp only [List.mem_cons, List.mem_nil_iff, or_false] at hu
    rcases hu with h1 | h1 <;> omega

theorem fromUtf16Units_units (s : List Char) : fromUtf16Units (s.flatMap utf16Units) = s := by
  induction s with
  | nil => simp [fromUtf16Units]
  | cons c cs ih =>
    have hv := char_valid c
    simp only [List.flatMap_cons]
    by_cases hlt : c.toNat < 0x10000
    · rw [utf16Units_small c hlt]
      have hs : isSurr c.toNat = false := by
        simp only [isSurr, Bool.and_eq_false_iff, decide_eq_false_iff_not]; omega
      simp only [List.cons_append, List.nil_append]
      rw [fromUtf16Units.eq_def]
      simp only [hs, Bool.false_eq_true, if_false, Char.ofNat_toNat, ih]
    · rw [utf16Units_big c hlt]
      have hx : isSurr (0xD800 + (c.toNat - 0x10000) / 1024) = true := by
        simp only [isSurr, Bool.and_eq_true, decide_eq_true_eq]; omega
      have hy : isTrail (0xDC00 + (c.toNat - 0x10000) % 1024) = true := by
        simp only [isTrail, Bool.and_eq_true, decide_eq_true_eq]; omega
      have hlead : 0xD800 + (c.toNat - 0x10000) / 1024 ≤ 0xDBFF := by omega
      have hval : 0x10000 + (0xD800 + (c.toNat - 0x10000) / 1024 - 0xD800) * 1024
          + (0xDC00 + (c.toNat - 0x10000) % 1024 - 0xDC00) = c.toNat := by omega
      simp only [List.cons_append, List.nil_append]
      rw [fromUtf16Units.eq_def]
      simp only [hx, hy, hlead, if_true, hval, Char.ofNat_toNat, ih]

theorem fromUtf16_body (le : Bool) (s : List Char) :
    (let (us, trailing) := unitsOfBytes le (utf16Body le s)
     fromUtf16Units us ++ (if trailing then [repl] else [])) = s := by
  unfold utf16Body
  rw [unitsOfBytes_unitBytes le _ (by
    intro u hu
    simp only [List.mem_flatMap] at hu
    obtain ⟨c, _, hc⟩ := hu
    exact utf16Units_lt c u hc)]
  simp [fromUtf16Units_units]

theorem utf16_rt_nobom (le : Bool) (s : List Char) : fromUtf16 le false (toUtf16 le false s) = s := by
  unfold fromUtf16 toUtf16
  simp only [Bool.false_and, Bool.false_eq_true, if_false]
  exact fromUtf16_body le s
theorem utf16_rt_bom (s : List Char) : fromUtf16 true true (toUtf16 true true s) = s := by
  cases s with
  | nil => simp [fromUtf16, toUtf16, utf16Body, unitsOfBytes, fromUtf16Units]
  | cons c cs =>
    have hb : unitBytes true 0xFEFF = [0xFF, 0xFE] := by decide
    unfold fromUtf16 toUtf16
    simp only [Bool.true_and, List.isEmpty_cons, Bool.not_false, if_true, hb, List.cons_append, List.nil_append]
    exact fromUtf16_body true (c :: cs)
/-! ### UTF-8 -/

theorem utf8First_2 (n : Nat) (h : 0xC2 ≤ n ∧ n ≤ 0xDF) : utf8First n = (2, 0x80, 0xBF) := by
  unfold utf8First
  rw [if_neg (by omega), if_pos (by omega)]

theorem utf8First_E0 : utf8First 0xE0 = (3, 0xA0, 0xBF) := by decide
theorem utf8First_ED : utf8First 0xED = (3, 0x80, 0x9F) := by decide
theorem utf8First_3 (n : Nat) (h : 0xE1 ≤ n ∧ n ≤ 0xEF ∧ n ≠ 0xED) : utf8First n = (3, 0x80, 0xBF) := by
  unfold utf8First
  rw [if_neg (by omega), if_neg (by omega), if_neg (by omega), if_neg (by omega), if_pos (by omega)]
theorem utf8First_F0 : utf8First 0xF0 = (4, 0x90, 0xBF) := by decide
theorem utf8First_F4 : utf8First 0xF4 = (4, 0x80, 0x8F) := by decide
theorem utf8First_4 (n : Nat) (h : 0xF1 ≤ n ∧ n ≤ 0xF3) : utf8First n = (4, 0x80, 0xBF) := by
  unfold utf8First
  rw [if_neg (by omega), if_neg (by omega), if_neg (by omega), if_neg (by omega), if_neg (by omega),
    if_neg (by omega), if_pos (by omega)]

theorem fromUtf8_step1 (c : Char) (h : c.toNat < 0x80) (rest : Bytes) :
    fromUtf8 (utf8EncodeChar c ++ rest) = c :: fromUtf8 rest := by
  have he : utf8EncodeChar c = [UInt8.ofNat c.toNat] := by simp only [utf8EncodeChar, h, if_true]
  rw [he, List.singleton_append, fromUtf8.eq_def]
  simp only [u8_toNat_ofNat _ (show c.toNat < 256 by omega), h, if_true, Char.ofNat_toNat]

theorem fromUtf8_step2 (c : Char) (h1 : ¬ c.toNat < 0x80) (h2 : c.toNat < 0x800) (rest : Bytes) :
    fromUtf8 (utf8EncodeChar c ++ rest) = c :: fromUtf8 rest := by
  have he : utf8EncodeChar c = [UInt8.ofNat (0xC0 + c.toNat / 64), UInt8.ofNat (0x80 + c.toNat % 64)] := by
    simp only [utf8EncodeChar, h1, h2, if_true, if_false]
  have b0 := u8_toNat_ofNat (0xC0 + c.toNat / 64) (by omega)
  have b1 := u8_toNat_ofNat (0x80 + c.toNat % 64) (by omega)
  have hf := utf8First_2 (0xC0 + c.toNat / 64) (by omega)
  have hv : (0xC0 + c.toNat / 64 - 0xC0) * 64 + (0x80 + c.toNat % 64 - 0x80) = c.toNat := by omega
  rw [he, List.cons_append, List.cons_append, List.nil_append, fromUtf8.eq_def]
  simp only [b0, b1, hf, hv, Char.ofNat_toNat]
  rw [if_neg (by omega)]
  simp only [Nat.reduceBEq, Bool.or_eq_true, decide_eq_true_eq]
  rw [if_neg (by omega)]
  simp

theorem utf8First_lead3 (v : Nat) (h1 : 0x800 ≤ v) (h2 : v < 0x10000) (hs : v < 0xD800 ∨ 0xDFFF < v) :
    ∃ lo hi, utf8First (0xE0 + v / 4096) = (3, lo, hi) ∧ lo ≤ 0x80 + v / 64 % 64 ∧ 0x80 + v / 64 % 64 ≤ hi := by
  by_cases hE0 : v / 4096 = 0
  · refine ⟨0xA0, 0xBF, ?_, ?_, ?_⟩
    · rw [hE0]; exact utf8First_E0
    · omega
    · omega
  · by_cases hED : v / 4096 = 13
    · refine ⟨0x80, 0x9F, ?_, ?_, ?_⟩
      · rw [hED]; exact utf8First_ED
      · omega
      · omega
    · exact ⟨0x80, 0xBF, utf8First_3 _ (by omega), by omega, by omega⟩

theorem utf8First_lead4 (v : Nat) (h1 : 0x10000 ≤ v) (h2 : v < 0x110000) :
    ∃ lo hi, utf8First (0xF0 + v / 262144) = (4, lo, hi) ∧ lo ≤ 0x80 + v / 4096 % 64 ∧ 0x80 + v / 4096 % 64 ≤ hi := by
  by_cases hF0 : v / 262144 = 0
  · refine ⟨0x90, 0xBF, ?_, ?_, ?_⟩
    · rw [hF0]; exact utf8First_F0
    · omega
    · omega
  · by_cases hF4 : v / 262144 = 4
    · refine ⟨0x80, 0x8F, ?_, ?_, ?_⟩
      · rw [hF4]; exact utf8First_F4
      · omega
      · omega
    · exact ⟨0x80, 0xBF, utf8First_4 _ (by omega), by omega, by omega⟩

theorem isCB_cont (x : Nat) : isCB (0x80 + x % 64) = true := by
  simp only [isCB, Bool.and_eq_true, decide_eq_true_eq]; omega

theorem fromUtf8_step3 (c : Char) (h1 : ¬ c.toNat < 0x800) (h2 : c.toNat < 0x10000) (rest : Bytes) :
    fromUtf8 (utf8EncodeChar c ++ rest) = c :: fromUtf8 rest := by
  have hval := char_valid c
  have he : utf8EncodeChar c = [UInt8.ofNat (0xE0 + c.toNat / 4096), UInt8.ofNat (0x80 + c.toNat / 64 % 64),
      UInt8.ofNat (0x80 + c.toNat % 64)] := by
    simp only [utf8EncodeChar, show ¬ c.toNat < 0x80 by omega, h1, h2, if_true, if_false]
  have b0 := u8_toNat_ofNat (0xE0 + c.toNat / 4096) (by omega)
  have b1 := u8_toNat_ofNat (0x80 + c.toNat / 64 % 64) (by omega)
  have b2 := u8_toNat_ofNat (0x80 + c.toNat % 64) (by omega)
  obtain ⟨lo, hi, hf, hlo, hhi⟩ := utf8First_lead3 c.toNat (by omega) h2 (by omega)
  have hv : (0xE0 + c.toNat / 4096 - 0xE0) * 4096 + (0x80 + c.toNat / 64 % 64 - 0x80) * 64
      + (0x80 + c.toNat % 64 - 0x80) = c.toNat := by omega
  rw [he]
  simp only [List.cons_append, List.nil_append]
  rw [fromUtf8.eq_def]
  simp only [b0, b1, b2, hf, hv, Char.ofNat_toNat, isCB_cont]
  rw [if_neg (by omega)]
  simp only [Nat.reduceBEq, Bool.or_eq_true, decide_eq_true_eq]
  rw [if_neg (by omega)]
  simp

theorem fromUtf8_step4 (c : Char) (h1 : ¬ c.toNat < 0x10000) (rest : Bytes) :
    fromUtf8 (utf8EncodeChar c ++ rest) = c :: fromUtf8 rest := by
  have hval := char_valid c
  have he : utf8EncodeChar c = [UInt8.ofNat (0xF0 + c.toNat / 262144), UInt8.ofNat (0x80 + c.toNat / 4096 % 64),
      UInt8.ofNat (0x80 + c.toNat / 64 % 64), UInt8.ofNat (0x80 + c.toNat % 64)] := by
    simp only [utf8EncodeChar, show ¬ c.toNat < 0x80 by omega, show ¬ c.toNat < 0x800 by omega, h1, if_false]
  have b0 := u8_toNat_ofNat (0xF0 + c.toNat / 262144) (by omega)
  have b1 := u8_toNat_ofNat (0x80 + c.toNat / 4096 % 64) (by omega)
  have b2 := u8_toNat_ofNat (0x80 + c.toNat / 64 % 64) (by omega)
  have b3 := u8_toNat_ofNat (0x80 + c.toNat % 64) (by omega)
  obtain ⟨lo, hi, hf, hlo, hhi⟩ := utf8First_lead4 c.toNat (by omega) (by omega)
  have hv : (0xF0 + c.toNat / 262144 - 0xF0) * 262144 + (0x80 + c.toNat / 4096 % 64 - 0x80) * 4096
      + (0x80 + c.toNat / 64 % 64 - 0x80) * 64 + (0x80 + c.toNat % 64 - 0x80) = c.toNat := by omega
  rw [he]
  simp only [List.cons_append, List.nil_append]
  rw [fromUtf8.eq_def]
  simp only [b0, b1, b2, b3, hf, hv, Char.ofNat_toNat, isCB_cont]
  rw [if_neg (by omega)]
  simp only [Nat.reduceBEq, Bool.or_eq_true, decide_eq_true_eq]
  rw [if_neg (by omega)]
  simp

theorem fromUtf8_toUtf8 (s : List Char) : fromUtf8 (toUtf8 s) = s := by
  induction s with
  | nil => simp [toUtf8, fromUtf8]
  | cons c cs ih =>
    have : toUtf8 (c :: cs) = utf8EncodeChar c ++ toUtf8 cs := by simp [toUtf8]
    rw [this]
    by_cases h1 : c.toNat < 0x80
    · rw [fromUtf8_step1 c h1, ih]
    · by_cases h2 : c.toNat < 0x800
      · rw [fromUtf8_step2 c h1 h2, ih]
      · by_cases h3 : c.toNat < 0x10000
        · rw [fromUtf8_step3 c h2 h3, ih]
        · rw [fromUtf8_step4 c h3, ih]
/-! ### hex decoder soundness -/

/-- ASCII lower-casing of the hex letters A-F -/
def lowerHex (c : UInt8) : UInt8 := if 65 ≤ c.toNat ∧ c.toNat ≤ 70 then UInt8.ofNat (c.toNat + 32) else c

def unhexOK (c : UInt8) : Bool :=
  match unhex c with
  | some a => decide (a < 16) && (hexDig a == lowerHex c)
  | none => true

theorem unhex_sound_nat : ∀ n, n < 256 → unhexOK (UInt8.ofNat n) = true := by decide +kernel

theorem unhex_sound (c : UInt8) (a : Nat) (h : unhex c = some a) : a < 16 ∧ hexDig a = lowerHex c := by
  have := unhex_sound_nat c.toNat (u8_lt c)
  rw [u8_ofNat_toNat] at this
  simp only [unhexOK, h, Bool.and_eq_true, decide_eq_true_eq, beq_iff_eq] at this
  exact this

/-- whatever from_hex accepts is exactly the (case-folded) hex text of the value it returns -/
theorem hexDec_sound (t v : Bytes) (h : hexDec t = some v) : hexEnc v = t.map lowerHex := by
  fun_induction hexDec t generalizing v with
  | case1 => cases h; rfl
  | case2 => cases h
  | case3 p q rest a b hb ha ih =>
    cases hr : hexDec rest with
    | none => simp [hr] at h
    | some w =>
      simp only [hr, Option.map_some, Option.some.injEq] at h
      subst h
      obtain ⟨ha16, hap⟩ := unhex_sound p a ha
      obtain ⟨hb16, hbq⟩ := unhex_sound q b hb
      have hn : (UInt8.ofNat (16 * a + b)).toNat = 16 * a + b := u8_toNat_ofNat _ (by omega)
      simp only [hexEnc, hn, List.map_cons, ih w hr]
      rw [show (16 * a + b) / 16 = a by omega, show (16 * a + b) % 16 = b by omega, hap, hbq]
  | case4 => cases h
end Proofs.C14
