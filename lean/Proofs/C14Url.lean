import Proofs.C14Codec
/-! C14 helper lemmas: URL query strings (to_urlquery / from_urlquery), core Lean only. -/
namespace Proofs.C14
open FqModel FqModel.Codec

/-! ### URL query strings -/

def sepOK (c : UInt8) : Bool := c != 38 && c != 61 && c != 59

theorem escaped_byte_safe_nat : ∀ n, n < 256 →
    (shouldEscape true (UInt8.ofNat n) = false → sepOK (UInt8.ofNat n) = true) ∧
    sepOK (upperhex (n / 16)) = true ∧ sepOK (upperhex (n % 16)) = true := by decide +kernel

theorem urlEscape_safe (s : Bytes) : ∀ c ∈ urlEscape true s, sepOK c = true := by
  induction s with
  | nil => intro c hc; simp [urlEscape] at hc
  | cons b bs ih =>
    have hb := escaped_byte_safe_nat b.toNat (u8_lt b)
    rw [u8_ofNat_toNat] at hb
    intro c hc
    unfold urlEscape at hc
    split at hc
    · simp only [List.mem_cons] at hc
      rcases hc with rfl | hc
      · decide
      · exact ih c hc
    · split at hc
      · simp only [List.mem_cons] at hc
        rcases hc with rfl | rfl | rfl | hc
        · decide
        · exact hb.2.1
        · exact hb.2.2
        · exact ih c hc
      · rename_i h2
        simp only [List.mem_cons] at hc
        rcases hc with rfl | hc
        · exact hb.1 (by simpa using h2)
        · exact ih c hc

theorem cutAt_none (sep : UInt8) (a : Bytes) (h : ∀ c ∈ a, (c == sep) = false) : cutAt sep a = (a, none) := by
  induction a with
  | nil => rfl
  | cons c cs ih =>
    simp only [cutAt, h c (List.mem_cons_self ..), Bool.false_eq_true, if_false,
      ih (fun x hx => h x (List.mem_cons_of_mem _ hx))]

theorem cutAt_some (sep : UInt8) (a b : Bytes) (h : ∀ c ∈ a, (c == sep) = false) :
    cutAt sep (a ++ sep :: b) = (a, some b) := by
  induction a with
  | nil => simp [cutAt]
  | cons c cs ih =>
    simp only [List.cons_append, cutAt, h c (List.mem_cons_self ..), Bool.false_eq_true, if_false,
      ih (fun x hx => h x (List.mem_cons_of_mem _ hx))]

theorem sepOK_ne (c : UInt8) (h : sepOK c = true) : (c == 38) = false ∧ (c == 61) = false ∧ (c == 59) = false := by
  simp only [sepOK, Bool.and_eq_true, bne_iff_ne, ne_eq] at h
  simp [h.1.1, h.1.2, h.2]

/-- one `key=value` piece -/
def pieceOf (k v : Bytes) : Bytes := urlEscape true k ++ 61 :: urlEscape true v

theorem piece_facts (k v : Bytes) :
    (∀ c ∈ pieceOf k v, (c == 38) = false) ∧ (pieceOf k v).contains 59 = false ∧ (pieceOf k v).isEmpty = false ∧
    cutAt 61 (pieceOf k v) = (urlEscape true k, some (urlEscape true v)) := by
  have hk := urlEscape_safe k
  have hv := urlEscape_safe v
  refine ⟨?_, ?_, ?_, ?_⟩
  · intro c hc
    simp only [pieceOf, List.mem_append, List.mem_cons] at hc
    rcases hc with hc | rfl | hc
    · exact (sepOK_ne c (hk c hc)).1
    · decide
    · exact (sepOK_ne c (hv c hc)).1
  · rw [Bool.eq_false_iff]
    intro hcon
    rw [List.contains_iff_mem] at hcon
    simp only [pieceOf, List.mem_append, List.mem_cons] at hcon
    rcases hcon with hc | hc | hc
    · have := (sepOK_ne _ (hk _ hc)).2.2; simp at this
    · simp at hc
    · have := (sepOK_ne _ (hv _ hc)).2.2; simp at this
  · simp [pieceOf]
  · exact cutAt_some 61 _ _ (fun c hc => (sepOK_ne c (hk c hc)).2.1)

theorem encodePairs_cons (k v : Bytes) (rest : List (Bytes × Bytes)) :
    encodePairs ((k, v) :: rest) = if rest = [] then pieceOf k v else pieceOf k v ++ 38 :: encodePairs rest := by
  cases rest with
  | nil => simp [encodePairs, pieceOf]
  | cons p ps => obtain ⟨k', v'⟩ := p; simp [encodePairs, pieceOf]

theorem parseQueryAux_pairs (ps : List (Bytes × Bytes)) : ∀ fuel m, ps.length < fuel →
    parseQueryAux fuel (encodePairs ps) m = some (ps.foldl (fun m p => appendKV p.1 p.2 m) m) := by
  induction ps with
  | nil =>
    intro fuel m h
    obtain ⟨f, rfl⟩ : ∃ f, fuel = f + 1 := ⟨fuel - 1, by simp at h; omega⟩
    simp [encodePairs, parseQueryAux]
  | cons p ps ih =>
    intro fuel m h
    obtain ⟨k, v⟩ := p
    obtain ⟨f, rfl⟩ : ∃ f, fuel = f + 1 := ⟨fuel - 1, by simp at h; omega⟩
    obtain ⟨h38, h59, hne, hcut⟩ := piece_facts k v
    have huk := urlUnescape_urlEscape true k
    have huv := urlUnescape_urlEscape true v
    rw [encodePairs_cons]
    by_cases hr : ps = []
    · subst hr
      simp only [if_true, List.foldl_cons, List.foldl_nil]
      have hf : 0 < f := by simp at h; omega
      obtain ⟨f', rfl⟩ : ∃ f', f = f' + 1 := ⟨f - 1, by omega⟩
      unfold parseQueryAux
      simp only [hne, Bool.false_eq_true, if_false, cutAt_none 38 _ h38, h59, hcut, Option.getD_some, Option.getD_none,
        huk, huv]
      simp [parseQueryAux]
    · simp only [hr, if_false, List.foldl_cons]
      unfold parseQueryAux
      have hne' : (pieceOf k v ++ 38 :: encodePairs ps).isEmpty = false := by simp [pieceOf]
      simp only [hne', Bool.false_eq_true, if_false, cutAt_some 38 _ _ h38, h59, hne, hcut, Option.getD_some, huk, huv]
      exact ih f _ (by simp at h; omega)

theorem ltBytes_irrefl : ∀ a, ltBytes a a = false := by
  intro a; induction a with
  | nil => rfl
  | cons x xs ih => simp [ltBytes, ih]

theorem ltBytes_asymm : ∀ a b, ltBytes a b = true → ltBytes b a = false := by
  intro a
  induction a with
  | nil => intro b h; cases b <;> simp [ltBytes] at h ⊢
  | cons x xs ih =>
    intro b h
    cases b with
    | nil => simp [ltBytes] at h
    | cons y ys =>
      simp only [ltBytes] at h ⊢
      by_cases h1 : x.toNat < y.toNat
      · have : ¬ y.toNat < x.toNat := by omega
        simp [this, h1]
      · by_cases h2 : y.toNat < x.toNat
        · simp [h1, h2] at h
        · simp only [h1, h2, if_false] at h ⊢
          exact ih ys h

theorem ltBytes_ne (a b : Bytes) (h : ltBytes a b = true) : (b == a) = false := by
  rw [beq_eq_false_iff_ne]
  intro e; subst e
  rw [ltBytes_irrefl] at h; cases h

/-- a new, larger key goes to the end -/
theorem appendKV_new (k v : Bytes) (acc : QueryVals) (h : ∀ p ∈ acc, ltBytes p.1 k = true) :
    appendKV k v acc = acc ++ [(k, [v])] := by
  induction acc with
  | nil => rfl
  | cons p ps ih =>
    obtain ⟨k', vs⟩ := p
    have hk : ltBytes k' k = true := h (k', vs) (List.mem_cons_self ..)
    simp only [appendKV, ltBytes_ne _ _ hk, ltBytes_asymm _ _ hk, Bool.false_eq_true, if_false, List.cons_append]
    rw [ih (fun p hp => h p (List.mem_cons_of_mem _ hp))]

/-- a further value of the last key is appended to it -/
theorem appendKV_last (k v : Bytes) (vs : List Bytes) (acc : QueryVals) (h : ∀ p ∈ acc, ltBytes p.1 k = true) :
    appendKV k v (acc ++ [(k, vs)]) = acc ++ [(k, vs ++ [v])] := by
  induction acc with
  | nil => simp [appendKV]
  | cons p ps ih =>
    obtain ⟨k', vs'⟩ := p
    have hk : ltBytes k' k = true := h (k', vs') (List.mem_cons_self ..)
    simp only [List.cons_append, appendKV, ltBytes_ne _ _ hk, ltBytes_asymm _ _ hk, Bool.false_eq_true, if_false]
    rw [ih (fun p hp => h p (List.mem_cons_of_mem _ hp))]

theorem foldl_values (k : Bytes) (acc : QueryVals) (h : ∀ p ∈ acc, ltBytes p.1 k = true) :
    ∀ (vs done : List Bytes), (vs.map (fun v => (k, v))).foldl (fun m p => appendKV p.1 p.2 m) (acc ++ [(k, done)])
      = acc ++ [(k, done ++ vs)] := by
  intro vs
  induction vs with
  | nil => intro done; simp
  | cons v vs ih =>
    intro done
    simp only [List.map_cons, List.foldl_cons]
    rw [appendKV_last k v done acc h, ih (done ++ [v])]
    simp

def QueryWF (q : QueryVals) : Prop :=
  q.Pairwise (fun a b => ltBytes a.1 b.1 = true) ∧ ∀ kv ∈ q, kv.2 ≠ []

theorem foldl_pairs (q acc : QueryVals) (hs : (acc ++ q).Pairwise (fun a b => ltBytes a.1 b.1 = true))
    (hne : ∀ kv ∈ q, kv.2 ≠ []) :
    (queryPairs q).foldl (fun m p => appendKV p.1 p.2 m) acc = acc ++ q := by
  induction q generalizing acc with
  | nil => simp [queryPairs]
  | cons kv r ih =>
    obtain ⟨k, vs⟩ := kv
    have hlt : ∀ p ∈ acc, ltBytes p.1 k = true := by
      intro p hp
      rw [List.pairwise_append] at hs
      exact hs.2.2 p hp (k, vs) (List.mem_cons_self ..)
    have hvs : vs ≠ [] := hne (k, vs) (List.mem_cons_self ..)
    obtain ⟨v, vs', rfl⟩ : ∃ v vs', vs = v :: vs' := by
      cases vs with
      | nil => exact absurd rfl hvs
      | cons v vs' => exact ⟨v, vs', rfl⟩
    simp only [queryPairs, List.flatMap_cons, List.map_cons, List.cons_append, List.foldl_cons, List.foldl_append]
    rw [appendKV_new k v acc hlt, foldl_values k acc hlt vs' [v]]
    have := ih (acc ++ [(k, v :: vs')]) (by simpa using hs) (fun kv hkv => hne kv (List.mem_cons_of_mem _ hkv))
    simp only [queryPairs] at this
    simpa using this

theorem encodePairs_length (ps : List (Bytes × Bytes)) : ps.length ≤ (encodePairs ps).length := by
  induction ps with
  | nil => simp [encodePairs]
  | cons p ps ih =>
    obtain ⟨k, v⟩ := p
    rw [encodePairs_cons]
    split
    · rename_i h; subst h; simp only [pieceOf, List.length_append, List.length_cons, List.length_nil]; omega
    · simp only [pieceOf, List.length_append, List.length_cons] at ih ⊢; omega

theorem parseQuery_encodeQuery (q : QueryVals) (h : QueryWF q) : parseQuery (encodeQuery q) = some q := by
  unfold parseQuery encodeQuery
  rw [parseQueryAux_pairs _ _ _ (by have := encodePairs_length (queryPairs q); omega)]
  rw [foldl_pairs q [] (by simpa using h.1) h.2]
  simp
end Proofs.C14
