import FqModel.C14Xml
import Proofs.C14Json
/-! C14 helper lemmas: XML array form round trip and the #seq ordering rule (core Lean only). -/
namespace Proofs.C14X
open FqModel.Json FqModel.Xml Proofs.C14J

/-! ### the #seq ordering rule -/

section seq
variable {α : Type}

def tag (p : (List Char × α) × Nat) : Nat × List Char × α := (p.2, p.1.1, p.1.2)

theorem ungroup_groupInsert (k : List Char) (i : Nat) (a : α) (m : List (List Char × List (Nat × α))) :
    (ungroup (groupInsert k (i, a) m)).Perm ((i, k, a) :: ungroup m) := by
  induction m with
  | nil => simp [groupInsert, ungroup]
  | cons kv rest ih =>
    obtain ⟨k', vs⟩ := kv
    unfold groupInsert
    split
    · rename_i h
      have hk : k = k' := by simpa using h
      subst hk
      simp only [ungroup, List.flatMap_cons, List.map_append, List.map_cons, List.map_nil]
      rw [List.append_assoc]
      refine List.Perm.trans ?_ (List.perm_middle (l₁ := List.map (fun sv => (sv.1, k, sv.2)) vs))
      simp
    · split
      · simp [ungroup]
      · simp only [ungroup, List.flatMap_cons] at ih ⊢
        refine List.Perm.trans (List.Perm.append_left _ ih) ?_
        exact List.perm_middle

theorem ungroup_foldl (l : List ((List Char × α) × Nat)) (m : List (List Char × List (Nat × α))) :
    (ungroup (l.foldl (fun m p => groupInsert p.1.1 (p.2, p.1.2) m) m)).Perm (l.map tag ++ ungroup m) := by
  induction l generalizing m with
  | nil => simp
  | cons p ps ih =>
    simp only [List.foldl_cons, List.map_cons, List.cons_append]
    refine (ih _).trans ?_
    refine (List.Perm.append_left _ (ungroup_groupInsert p.1.1 p.2 p.1.2 m)).trans ?_
    exact List.perm_middle

theorem tagged_pairwise (cs : List (List Char × α)) (k : Nat) :
    ((cs.zipIdx k).map tag).Pairwise (fun a b => a.1 < b.1) ∧ ∀ t ∈ (cs.zipIdx k).map tag, k ≤ t.1 := by
  induction cs generalizing k with
  | nil => simp
  | cons c cs ih =>
    obtain ⟨hp, hge⟩ := ih (k + 1)
    simp only [List.zipIdx_cons, List.map_cons, List.pairwise_cons, List.mem_cons]
    refine ⟨⟨?_, hp⟩, ?_⟩
    · intro t ht
      have := hge t ht
      simp only [tag]; omega
    · intro t ht
      rcases ht with rfl | ht
      · simp [tag]
      · have := hge t ht; omega

theorem eq_of_idx_eq (l : List (Nat × List Char × α)) (h : l.Pairwise (fun a b => a.1 < b.1))
    (a b : Nat × List Char × α) (ha : a ∈ l) (hb : b ∈ l) (e : a.1 = b.1) : a = b := by
  induction l with
  | nil => cases ha
  | cons x xs ih =>
    simp only [List.pairwise_cons] at h
    simp only [List.mem_cons] at ha hb
    rcases ha with rfl | ha <;> rcases hb with rfl | hb
    · rfl
    · have := h.1 b hb; omega
    · have := h.1 a ha; omega
    · exact ih h.2 ha hb

/-- from_xml({seq:true}) | to_xml restores the document order of the children of an element,
    whatever their names — repeated, interleaved, any number -/
theorem seqRoundTrip_id (cs : List (List Char × α)) : seqRoundTrip cs = cs := by
  unfold seqRoundTrip sortBySeq groupChildren
  let T := (cs.zipIdx).map tag
  have hperm : (ungroup ((cs.zipIdx).foldl (fun m p => groupInsert p.1.1 (p.2, p.1.2) m) [])).Perm T := by
    have := ungroup_foldl (α := α) cs.zipIdx []
    simpa [ungroup] using this
  obtain ⟨hpw, _⟩ := tagged_pairwise cs 0
  have hT : T.Pairwise (fun a b => decide (a.1 ≤ b.1) = true) :=
    hpw.imp (fun h => by simp; omega)
  have hsorted := List.pairwise_mergeSort (le := fun (a b : Nat × List Char × α) => decide (a.1 ≤ b.1))
    (fun a b c h1 h2 => by simp at *; omega) (fun a b => by simp; omega)
    (ungroup ((cs.zipIdx).foldl (fun m p => groupInsert p.1.1 (p.2, p.1.2) m) []))
  have hp2 := (List.mergeSort_perm (ungroup ((cs.zipIdx).foldl (fun m p => groupInsert p.1.1 (p.2, p.1.2) m) []))
    (fun a b => decide (a.1 ≤ b.1))).trans hperm
  have heq := List.Perm.eq_of_pairwise (le := fun (a b : Nat × List Char × α) => decide (a.1 ≤ b.1) = true)
    (fun a b ha hb h1 h2 => by
      have ha' : a ∈ T := hp2.subset ha
      exact eq_of_idx_eq T hpw a b ha' hb (by simp at h1 h2; omega))
    hsorted hT hp2
  rw [heq]
  simp only [T, List.map_map]
  have : ((fun t : Nat × List Char × α => (t.2.1, t.2.2)) ∘ tag) = Prod.fst := by
    funext p; rfl
  rw [this, List.zipIdx_map_fst]

end seq

/-! ### array form -/

mutual
  def WFNode : XNode → Prop
    | .mk n a _ cs => n ≠ [] ∧ a.Pairwise (fun x y => ltKey x.1 y.1 = true) ∧
        (∀ kv ∈ a, kv.1 ≠ textKey ∧ kv.1 ≠ commentKey) ∧ WFNodes cs
  def WFNodes : List XNode → Prop
    | [] => True
    | c :: r => WFNode c ∧ WFNodes r
end

theorem ltKey_total : ∀ a b, ltKey a b = false → ltKey b a = false → a = b := by
  intro a
  induction a with
  | nil => intro b h1 h2; cases b <;> simp [ltKey] at h1 h2 ⊢
  | cons x xs ih =>
    intro b h1 h2
    cases b with
    | nil => simp [ltKey] at h2
    | cons y ys =>
      simp only [ltKey] at h1 h2
      by_cases hxy : x.toNat < y.toNat
      · simp [hxy] at h1
      · by_cases hyx : y.toNat < x.toNat
        · simp [hyx] at h2
        · simp only [hxy, hyx, if_false] at h1 h2
          have : x = y := Proofs.C14J.char_eq_of_toNat (by omega)
          rw [this, ih ys h1 h2]

def strAttrs (a : List (List Char × List Char)) : List (List Char × JV) := a.map (fun kv => (kv.1, JV.str kv.2))

theorem attrsOf_strAttrs (a : List (List Char × List Char)) (h : ∀ kv ∈ a, kv.1 ≠ textKey ∧ kv.1 ≠ commentKey) :
    attrsOf (strAttrs a) = a ∧ textOf (strAttrs a) = none := by
  induction a with
  | nil => exact ⟨rfl, rfl⟩
  | cons kv r ih =>
    obtain ⟨k, v⟩ := kv
    obtain ⟨h1, h2⟩ := h (k, v) (List.mem_cons_self ..)
    obtain ⟨i1, i2⟩ := ih (fun x hx => h x (List.mem_cons_of_mem _ hx))
    have e1 : (k == textKey) = false := by simpa using h1
    have e2 : (k == commentKey) = false := by simpa using h2
    simp only [strAttrs, List.map_cons] at i1 i2 ⊢
    simp [attrsOf, textOf, e1, e2, i1, i2, strOrEmpty, scalarStr]

theorem attrs_insert_text (t : List Char) (m : List (List Char × JV)) (h : ∀ kv ∈ m, kv.1 ≠ textKey ∧ kv.1 ≠ commentKey) :
    attrsOf (insertKV textKey (.str t) m) = attrsOf m ∧ textOf (insertKV textKey (.str t) m) = some t := by
  have hne : (textKey == commentKey) = false := by decide
  induction m with
  | nil => simp [insertKV, attrsOf, textOf, hne, strOrEmpty, scalarStr]
  | cons kv r ih =>
    obtain ⟨k, v⟩ := kv
    obtain ⟨h1, h2⟩ := h (k, v) (List.mem_cons_self ..)
    have e1 : (k == textKey) = false := by simpa using h1
    have e2 : (k == commentKey) = false := by simpa using h2
    obtain ⟨i1, i2⟩ := ih (fun x hx => h x (List.mem_cons_of_mem _ hx))
    unfold insertKV
    split
    · simp [attrsOf, textOf, e1, e2, hne, strOrEmpty, scalarStr]
    · split
      · simp [attrsOf, textOf, e1, e2, i1, i2]
      · rename_i hlt1 hlt2
        have := ltKey_total textKey k (by simpa using hlt1) (by simpa using hlt2)
        exact absurd this.symm h1

theorem attrs_roundtrip (a : List (List Char × List Char)) (t : Option (List Char))
    (hs : a.Pairwise (fun x y => ltKey x.1 y.1 = true)) (h : ∀ kv ∈ a, kv.1 ≠ textKey ∧ kv.1 ≠ commentKey) :
    (attrsJV a t = .null ∧ a = [] ∧ t = none) ∨
    (∃ kvs, attrsJV a t = .obj kvs ∧ attrsOf kvs = a ∧ textOf kvs = t) := by
  have hfold : (strAttrs a).foldl (fun acc kv => insertKV kv.1 kv.2 acc) [] = strAttrs a := by
    have := foldl_insert_sorted (strAttrs a) [] (by
      simp only [List.nil_append, strAttrs, List.pairwise_map]
      exact hs)
    simpa using this
  obtain ⟨ha, ht⟩ := attrsOf_strAttrs a h
  unfold attrsJV
  by_cases hn : (a.isEmpty && t.isNone) = true
  · left
    simp only [Bool.and_eq_true, List.isEmpty_iff, Option.isNone_iff_eq_none] at hn
    simp [hn.1, hn.2]
  · right
    simp only [hn, Bool.false_eq_true, if_false]
    have hfold' : (List.map (fun (kv : List Char × List Char) => (kv.1, JV.str kv.2)) a).foldl
        (fun acc kv => insertKV kv.1 kv.2 acc) [] = strAttrs a := hfold
    cases t with
    | none =>
      refine ⟨strAttrs a, ?_, ha, ht⟩
      simp only [hfold']
    | some tt =>
      have hk : ∀ kv ∈ strAttrs a, kv.1 ≠ textKey ∧ kv.1 ≠ commentKey := by
        intro kv hkv
        simp only [strAttrs, List.mem_map] at hkv
        obtain ⟨x, hx, rfl⟩ := hkv
        exact h x hx
      obtain ⟨i1, i2⟩ := attrs_insert_text tt (strAttrs a) hk
      refine ⟨insertKV textKey (.str tt) (strAttrs a), ?_, by rw [i1, ha], i2⟩
      simp only [hfold']

mutual
  theorem fromArr_toArr : ∀ n : XNode, WFNode n → fromArr (toArr n) = some n
    | .mk n a t cs, h => by
      obtain ⟨hn, hs, hk, hcs⟩ := h
      have ihcs := fromArrL_toArrL cs hcs
      have hne : n.isEmpty = false := by cases n <;> simp at hn ⊢
      rcases attrs_roundtrip a t hs hk with ⟨hnull, ha, ht⟩ | ⟨kvs, hobj, ha, ht⟩
      · subst ha; subst ht
        simp only [toArr, hnull, fromArr, scanElems, scalarStr, ihcs]
        simp [hne, attrsOf, textOf]
      · simp only [toArr, hobj, fromArr, scanElems, scalarStr, ihcs]
        simp [hne, ha, ht]
  theorem fromArrL_toArrL : ∀ cs : List XNode, WFNodes cs → fromArrL (toArrL cs) = cs
    | [], _ => by simp [toArrL, fromArrL]
    | c :: r, h => by
      obtain ⟨hc, hr⟩ := h
      simp [toArrL, fromArrL, fromArr_toArr c hc, fromArrL_toArrL r hr]
end
end Proofs.C14X
