import FqModel.C14Xml
import Proofs.C14Json
/-! C14 helper lemmas: XML array form round trip and the #seq ordering rule (core Lean only). -/
namespace Proofs.C14X
open FqModel.Json FqModel.Xml Proofs.C14J

/-! ### the #seq ordering rule -/

section seq
variable {α : Type}

def tag (p : (List Char × α) × Nat) : Nat × List Char × α := (p.2, p.1.1, p.1.2)

theorem ungroup_groupInsert (k : List Char) (i : Nat) (a : α) (m : List (List Char × List (Nat × α))) :
    (ungroup (groupInsert k (i, a) m)).Perm ((i, k, a) :: ungroup m) := by
  induction m with
  | nil => simp [groupInsert, ungroup]
  | cons kv rest ih =>
    obtain ⟨k', vs⟩ := kv
    unfold groupInsert
    split
    · rename_i h
      have hk : k = k' := by simpa using h
      subst hk
      simp only [ungroup, List.flatMap_cons, List.map_append, List.map_cons, List.map_nil]
      rw [List.append_assoc]
      refine List.Perm.trans ?_ (List.perm_middle (l₁ := List.map (fun sv => (sv.1, k, sv.2)) vs))
      simp
    · split
      · simp [ungroup]
      · simp only [ungroup, List.flatMap_cons] at ih ⊢
        refine List.Perm.trans (List.Perm.append_left _ ih) ?_
        exact List.perm_middle

theorem ungroup_foldl (l : List ((List Char × α) × Nat)) (m : List (List Char × List (Nat × α))) :
    (ungroup (l.foldl (fun m p => groupInsert p.1.1 (p.2, p.1.2) m) m)).Perm (l.map tag ++ ungroup m) := by
  induction l generalizing m with
  | nil => simp
  | cons p ps ih =>
    simp only [List.foldl_cons, List.map_cons, List.cons_append]
    refine (ih _).trans ?_
    refine (List.Perm.append_left _ (ungroup_groupInsert p.1.1 p.2 p.1.2 m)).trans ?_
    exact List.perm_middle

theorem tagged_pairwise (cs : List (List Char × α)) (k : Nat) :
    ((cs.zipIdx k).map tag).Pairwise (fun a b => a.1 < b.1) ∧ ∀ t ∈ (cs.zipIdx k).map tag, k ≤ t.1 := by
  induction cs generalizing k with
  | nil => simp
  | cons c cs ih =>
    obtain ⟨hp, hge⟩ := ih (k + 1)
    simp only [List.zipIdx_cons, List.map_cons, List.pairwise_cons, List.mem_cons]
    refine ⟨⟨?_, hp⟩, ?_⟩
    · intro t ht
      have := hge t ht
      simp only [tag]; omega
    · intro t ht
      rcases ht with rfl | ht
      · simp [tag]
      · have := hge t ht; omega

theorem eq_of_idx_eq (l : List (Nat × List Char × α)) (h : l.Pairwise (fun a b => a.1 < b.1))
    (a b : Nat × List Char × α) (ha : a ∈ l) (hb : b ∈ l) (e : a.1 = b.1) : a = b := by
  induction l with
  | nil => cases ha
  | cons x xs ih =>
    simp only [List.pairwise_cons] at h
    simp only [List.mem_cons] at ha hb
    rcases ha with rfl | ha <;> rcases hb with rfl | hb
    · rfl
    · have := h.1 b hb; omega
    · have := h.1 a ha; omega
    · exact ih h.2 ha hb

/-- from_xml({seq:true}) | to_xml restores the document order of the children of an element,
    whatever their names — repeated, interleaved, any number -/
theorem seqRoundTrip_id (cs : List (List Char × α)) : seqRoundTrip cs = cs := by
  unfold seqRoundTrip sortBySeq groupChildren
  let T := (cs.zipIdx).map tag
  have hperm : (ungroup ((cs.zipIdx).foldl (fun m p => groupInsert p.1.1 (p.2, p.1.2) m) [])).Perm T := by
    have := ungroup_foldl (α := α) cs.zipIdx []
    simpa [ungroup] using this
  obtain ⟨hpw, _⟩ := tagged_pairwise cs 0
  have hT : T.Pairwise (fun a b => decide (a.1 ≤ b.1) = true) :=
    hpw.imp (fun h => by simp; omega)
  have hsorted := List.pairwise_mergeSort (le := fun (a b : Nat × List Char × α) => decide (a.1 ≤ b.1))
    (fun a b c h1 h2 => by simp at *; omega) (fun a b => by simp; omega)
    (ungroup ((cs.zipIdx).foldl (fun m p => groupInsert p.1.1 (p.2, p.1.2) m) []))
  have hp2 := (List.mergeSort_perm (ungroup ((cs.zipIdx).foldl (fun m p => groupInsert p.1.1 (p.2, p.1.2) m) []))
    (fun a b => decide (a.1 ≤ b.1))).trans hperm
  have heq := List.Perm.eq_of_pairwise (le := fun (a b : Nat × List Char × α) => decide (a.1 ≤ b.1) = true)
    (fun a b ha hb h1 h2 => by
      have ha' : a ∈ T := hp2.subset ha
      exact eq_of_idx_eq T hpw a b ha' hb (by simp at h1 h2; omega))
    hsorted hT hp2
  rw [heq]
  simp only [T, List.map_map]
  have : ((fun t : Nat × List Char × α => (t.2.1, t.2.2)) ∘ tag) = Prod.fst := by
    funext p; rfl
  rw [this, List.zipIdx_map_fst]

end seq

end Proofs.C14X
