import FqModel.Container
/-! C15 helper lemmas: the reflected CRC-32 byte step is a bijection of the 32 bit state, distinct
    bytes lead to distinct states, hence a single altered byte always changes the CRC; Adler-32. -/
namespace Proofs.C15
open FqModel.Container

theorem poly31 : crc32Poly[31] = true := by decide

theorem crcBitR_msb (s : BitVec 32) : (crcBitR s)[31] = s[0] := by
  unfold crcBitR
  by_cases h : s[0] <;> simp [h, poly31]

theorem crcBitR_shift (s : BitVec 32) : crcBitR s ^^^ (if s[0] then crc32Poly else 0#32) = s >>> 1 := by
  unfold crcBitR
  simp [BitVec.getLsbD_eq_getElem]
  by_cases h : s[0] <;> simp [h, BitVec.xor_assoc]

theorem crcBitR_inj {s t : BitVec 32} (h : crcBitR s = crcBitR t) : s = t := by
  have h0 : s[0] = t[0] := by rw [← crcBitR_msb, ← crcBitR_msb, h]
  have h1 : s >>> 1 = t >>> 1 := by rw [← crcBitR_shift, ← crcBitR_shift, h, h0]
  ext i hi
  by_cases hz : i = 0
  · subst hz; exact h0
  · have := congrArg (fun v : BitVec 32 => v.getLsbD (i - 1)) h1
    simp only [BitVec.getLsbD_ushiftRight] at this
    have e : 1 + (i - 1) = i := by omega
    rw [e] at this
    simpa [BitVec.getLsbD_eq_getElem hi] using this

/-- explicit inverse of one bit step -/
def crcBitRInv (t : BitVec 32) : BitVec 32 :=
  ((t ^^^ (if t[31] then crc32Poly else 0#32)) <<< 1) ||| (if t[31] then 1#32 else 0#32)

theorem crcBitR_rinv (t : BitVec 32) : crcBitR (crcBitRInv t) = t := by
  unfold crcBitR crcBitRInv
  by_cases h : t[31]
  · simp only [h, if_true]
    ext i hi
    by_cases hi31 : i = 31
    · subst hi31; simp [h, poly31]
    · have : 1 + i < 32 := by omega
      simp [this]
  · simp only [h]
    ext i hi
    by_cases hi31 : i = 31
    · subst hi31; simp [h]
    · have : 1 + i < 32 := by omega
      simp [this]

theorem iter_inj {α} {f : α → α} (hf : Function.Injective f) : ∀ n, Function.Injective (iter f n)
  | 0 => fun _ _ h => h
  | n+1 => fun a b h => hf (iter_inj hf n h)

theorem iter_surj {α} {f : α → α} (hf : Function.Surjective f) : ∀ n, Function.Surjective (iter f n)
  | 0 => fun y => ⟨y, rfl⟩
  | n+1 => fun y => by
    obtain ⟨x, hx⟩ := iter_surj hf n y
    obtain ⟨w, hw⟩ := hf x
    exact ⟨w, by simp [iter, hw, hx]⟩

theorem crcBitR_injective : Function.Injective crcBitR := fun _ _ h => crcBitR_inj h
theorem crcBitR_surjective : Function.Surjective crcBitR := fun t => ⟨crcBitRInv t, crcBitR_rinv t⟩

theorem xor_left_inj (c : BitVec 32) : Function.Injective (fun s : BitVec 32 => s ^^^ c) := by
  intro a b h
  have := congrArg (· ^^^ c) h
  simpa [BitVec.xor_assoc] using this

/-- the byte step with a fixed byte is injective on the state … -/
theorem crc32Step_inj_state (b : UInt8) : Function.Injective (fun s => crc32Step s b) := by
  intro s t h
  exact xor_left_inj _ (iter_inj crcBitR_injective 8 h)

/-- … and onto -/
theorem crc32Step_surj_state (b : UInt8) : Function.Surjective (fun s => crc32Step s b) := by
  intro y
  obtain ⟨x, hx⟩ := iter_surj crcBitR_surjective 8 y
  refine ⟨x ^^^ BitVec.ofNat 32 b.toNat, ?_⟩
  simp [crc32Step, BitVec.xor_assoc, hx]

theorem ofNat_byte_inj {b c : UInt8} (h : BitVec.ofNat 32 b.toNat = BitVec.ofNat 32 c.toNat) : b = c := by
  have := congrArg BitVec.toNat h
  simp only [BitVec.toNat_ofNat] at this
  have hb := b.toNat_lt
  have hc := c.toNat_lt
  apply UInt8.toNat_inj.mp
  omega

/-- from the same state, distinct bytes give distinct states -/
theorem crc32Step_inj_byte (s : BitVec 32) : Function.Injective (fun b => crc32Step s b) := by
  intro b c h
  have h1 := iter_inj crcBitR_injective 8 h
  have h2 : BitVec.ofNat 32 b.toNat = BitVec.ofNat 32 c.toNat := by
    have := congrArg (s ^^^ ·) h1
    simpa [← BitVec.xor_assoc] using this
  exact ofNat_byte_inj h2

theorem crc32Update_inj (q : Bytes) : Function.Injective (fun s => crc32Update s q) := by
  induction q with
  | nil => exact fun _ _ h => h
  | cons b q ih =>
    intro s t h
    simp only [crc32Update, List.foldl_cons] at h
    exact crc32Step_inj_state b (ih h)

theorem crc32_ne_of_byte (p q : Bytes) {x y : UInt8} (hxy : x ≠ y) : crc32 (p ++ x :: q) ≠ crc32 (p ++ y :: q) := by
  intro h
  unfold crc32 at h
  have h1 := xor_left_inj _ h
  simp only [crc32Update, List.foldl_append, List.foldl_cons] at h1
  have h2 := crc32Update_inj q h1
  exact hxy (crc32Step_inj_byte _ h2)

/-- two lists of the same length that differ exactly at index `i` -/
theorem split_at_diff {α} (a a' : List α) (i : Nat) (hlen : a.length = a'.length) (hi : i < a.length)
    (hrest : ∀ j (hj : j < a.length), j ≠ i → a[j] = a'[j]'(hlen ▸ hj)) :
    ∃ p q, a = p ++ a[i] :: q ∧ a' = p ++ (a'[i]'(hlen ▸ hi)) :: q := by
  refine ⟨a.take i, a.drop (i+1), ?_, ?_⟩
  · simp
  · have hi' : i < a'.length := hlen ▸ hi
    have e1 : a.take i = a'.take i := by
      apply List.ext_getElem
      · simp [List.length_take, hlen]
      · intro j h1 h2
        simp only [List.length_take] at h1
        simp only [List.getElem_take]
        exact hrest j (by omega) (by omega)
    have e2 : a.drop (i+1) = a'.drop (i+1) := by
      apply List.ext_getElem
      · simp [List.length_drop, hlen]
      · intro j h1 h2
        simp only [List.length_drop] at h1
        simp only [List.getElem_drop]
        exact hrest (i + 1 + j) (by omega) (by omega)
    rw [e1, e2]
    simp

/-! ### Adler-32 -/

theorem adlerState_fst (bs : Bytes) (st : Nat × Nat) :
    (bs.foldl adlerStep st).1 = (st.1 + (bs.map (·.toNat)).sum) % adlerMod ∨ bs = [] := by
  induction bs generalizing st with
  | nil => right; rfl
  | cons b bs ih =>
    left
    simp only [List.foldl_cons, List.map_cons, List.sum_cons]
    rcases ih (adlerStep st b) with h | h
    · rw [h]; simp only [adlerStep, adlerMod]; omega
    · subst h; simp [adlerStep, adlerMod]

theorem adler_low (bs : Bytes) : adler32 bs % 65536 = (1 + (bs.map (·.toNat)).sum) % adlerMod := by
  have hlt : ∀ (bs : Bytes) (st : Nat × Nat), st.1 < adlerMod → (bs.foldl adlerStep st).1 < adlerMod := by
    intro bs
    induction bs with
    | nil => intro st h; exact h
    | cons b bs ih => intro st _; exact ih _ (by simp only [adlerStep, adlerMod]; omega)
  have h1 := hlt bs (1, 0) (by decide)
  unfold adler32 adlerState
  simp only
  have : (bs.foldl adlerStep (1, 0)).1 = (1 + (bs.map (·.toNat)).sum) % adlerMod := by
    rcases adlerState_fst bs (1, 0) with h | h
    · exact h
    · subst h; simp [adlerMod]
  rw [← this]
  unfold adlerMod at h1
  omega

theorem adler32_ne_of_byte (p q : Bytes) {x y : UInt8} (hxy : x ≠ y) : adler32 (p ++ x :: q) ≠ adler32 (p ++ y :: q) := by
  intro h
  have := congrArg (· % 65536) h
  simp only [adler_low, List.map_append, List.map_cons, List.sum_append, List.sum_cons] at this
  have hx := x.toNat_lt
  have hy := y.toNat_lt
  have : x.toNat = y.toNat := by
    unfold adlerMod at this
    omega
  exact hxy (UInt8.toNat_inj.mp this)

end Proofs.C15
