import FqModel.Container
import Proofs.C15Crc
/-! C15 helper lemmas: fq's table driven 32 bit CRC step (`(*CRC).Write`, msb first) equals eight
    bit-by-bit steps, by GF(2)-linearity of the bit step. -/
namespace Proofs.C15
open FqModel FqModel.Container

def P32 : BitVec 32 := 0x04C11DB7#32
def g (s : BitVec 32) : BitVec 32 := (s <<< 1) ^^^ (if s.msb then P32 else 0#32)

theorem xor4 (x y p : BitVec 32) : (x ^^^ p) ^^^ (y ^^^ p) = x ^^^ y := by
  ext i hi; simp; cases x[i] <;> cases y[i] <;> cases p[i] <;> rfl
theorem xor3a (x y p : BitVec 32) : (x ^^^ y) ^^^ p = (x ^^^ p) ^^^ y := by
  ext i hi; simp; cases x[i] <;> cases y[i] <;> cases p[i] <;> rfl
theorem xor3b (x y p : BitVec 32) : (x ^^^ y) ^^^ p = x ^^^ (y ^^^ p) := BitVec.xor_assoc x y p

theorem shl_xor (a b : BitVec 32) (k : Nat) : (a ^^^ b) <<< k = (a <<< k) ^^^ (b <<< k) := by
  ext i hi
  simp only [BitVec.getElem_shiftLeft, BitVec.getElem_xor]
  by_cases h : i < k <;> simp [h]

theorem g_linear (a b : BitVec 32) : g (a ^^^ b) = g a ^^^ g b := by
  unfold g
  rw [BitVec.msb_xor, shl_xor]
  cases a.msb <;> cases b.msb
  · simp
  · simp [xor3b]
  · simp [xor3a]
  · simp [xor4]

theorem iter_linear (n : Nat) (a b : BitVec 32) : iter g n (a ^^^ b) = iter g n a ^^^ iter g n b := by
  induction n generalizing a b with
  | zero => rfl
  | succ n ih => simp only [iter, g_linear, ih]

theorem iter_low (k : Nat) : ∀ (lo : BitVec 32) (j : Nat), j + k ≤ 8 → (∀ i, 24 + j ≤ i → lo.getLsbD i = false) → iter g k lo = lo <<< k := by
  induction k with
  | zero => intro lo j _ _; simp [iter]
  | succ k ih =>
    intro lo j hj h
    have hm : lo.msb = false := by
      rw [BitVec.msb_eq_getLsbD_last]; exact h 31 (by omega)
    simp only [iter, g, hm]
    simp only [Bool.false_eq_true, if_false, BitVec.xor_zero]
    rw [ih (lo <<< 1) (j + 1) (by omega) (by
      intro i hi
      simp only [BitVec.getLsbD_shiftLeft]
      have : lo.getLsbD (i - 1) = false := h (i - 1) (by omega)
      simp [this])]
    rw [← BitVec.shiftLeft_add, Nat.add_comm]

/-- eight steps = shift by a byte, xor the eight steps of the top byte alone -/
theorem iter8_split (x : BitVec 32) : iter g 8 x = (x <<< 8) ^^^ iter g 8 (x &&& 0xFF000000#32) := by
  have hx : x = (x &&& 0xFF000000#32) ^^^ (x &&& 0x00FFFFFF#32) := by
    ext i hi
    simp only [BitVec.getElem_xor, BitVec.getElem_and]
    have : (0xFF000000#32)[i] = !(0x00FFFFFF#32)[i] := by
      have hA : ∀ i : Fin 32, (0xFF000000#32).getLsbD i.val = !(0x00FFFFFF#32).getLsbD i.val := by decide
      have := hA ⟨i, hi⟩
      simpa [BitVec.getLsbD_eq_getElem hi] using this
    rw [this]
    cases x[i] <;> cases (0x00FFFFFF#32)[i] <;> rfl
  have hlo := iter_low 8 (x &&& 0x00FFFFFF#32) 0 (by decide) (by
    intro i hi
    simp only [BitVec.getLsbD_and]
    have : (0x00FFFFFF#32).getLsbD i = false := by
      by_cases h32 : i < 32
      · have : ∀ i : Fin 32, 24 ≤ i.val → (0x00FFFFFF#32).getLsbD i.val = false := by decide
        exact this ⟨i, h32⟩ (by simpa using hi)
      · exact BitVec.getLsbD_of_ge _ _ (by omega)
    simp [this])
  have hsh : x <<< 8 = (x &&& 0x00FFFFFF#32) <<< 8 := by
    ext i hi
    simp only [BitVec.getElem_shiftLeft, BitVec.getLsbD_and]
    by_cases h8 : i < 8
    · simp [h8]
    · simp only [h8, decide_false, Bool.not_false, Bool.true_and]
      have hlt : i - 8 < 32 := by omega
      have : (0x00FFFFFF#32).getLsbD (i - 8) = true := by
        have : ∀ i : Fin 32, i.val < 24 → (0x00FFFFFF#32).getLsbD i.val = true := by decide
        exact this ⟨i - 8, hlt⟩ (by simp; omega)
      simp [this]
  conv => lhs; rw [hx]
  rw [iter_linear, hlo, ← hsh, BitVec.xor_comm]

theorem msbBit_eq (s : Nat) (hs : s < 2 ^ 32) : crcMsbBit 0x04C11DB7 32 s = (g (BitVec.ofNat 32 s)).toNat := by
  unfold crcMsbBit g
  have hm : (BitVec.ofNat 32 s).msb = s.testBit 31 := by
    rw [BitVec.msb_eq_getLsbD_last, BitVec.getLsbD_ofNat]; simp
  have hsh : ((BitVec.ofNat 32 s) <<< 1).toNat = (s <<< 1) % 2 ^ 32 := by
    simp [BitVec.toNat_shiftLeft, Nat.mod_eq_of_lt hs]
  rw [hm]
  by_cases h : s.testBit 31
  · simp only [h, if_true, BitVec.toNat_xor, hsh]
    rw [Nat.xor_mod_two_pow]
    rfl
  · simp only [h, Bool.false_eq_true, if_false, BitVec.xor_zero, hsh]

theorem msbIter_eq (n s : Nat) (hs : s < 2 ^ 32) : iter (crcMsbBit 0x04C11DB7 32) n s = (iter g n (BitVec.ofNat 32 s)).toNat := by
  induction n generalizing s with
  | zero => simp [iter, Nat.mod_eq_of_lt hs]
  | succ n ih =>
    simp only [iter]
    rw [msbBit_eq s hs, ih _ (BitVec.isLt _)]
    simp

theorem and_bit31 (crc : Nat) : (crc &&& 2 ^ 31 != 0) = crc.testBit 31 := by
  by_cases h : crc.testBit 31
  · have : (crc &&& 2 ^ 31).testBit 31 = true := by rw [Nat.testBit_and, h, Nat.testBit_two_pow_self]; rfl
    have hne : crc &&& 2 ^ 31 ≠ 0 := by
      intro e; rw [e] at this; simp at this
    simp [h, hne]
  · have : crc &&& 2 ^ 31 = 0 := by
      apply Nat.eq_of_testBit_eq
      intro i
      simp only [Nat.testBit_and, Nat.zero_testBit, Nat.testBit_two_pow]
      by_cases hi : 31 = i
      · subst hi; simp [h]
      · simp [hi]
    simp [h, this]

theorem tableStep_eq (crc : Nat) :
    (if crc &&& (1 <<< (32 - 1)) != 0 then ((crc <<< 1) ^^^ 0x04c11db7) &&& ((1 <<< 32) - 1) else (crc <<< 1) &&& ((1 <<< 32) - 1)) =
      crcMsbBit 0x04C11DB7 32 crc := by
  unfold crcMsbBit
  have e1 : (1 <<< (32 - 1) : Nat) = 2 ^ 31 := by decide
  have e2 : ((1 <<< 32) - 1 : Nat) = 2 ^ 32 - 1 := by decide
  rw [e1, e2, and_bit31]
  simp only [Nat.and_two_pow_sub_one_eq_mod]

theorem makeTableEntry_eq (i : Nat) : makeTableEntry 0x04c11db7 32 i = iter (crcMsbBit 0x04C11DB7 32) 8 (i <<< 24) := by
  unfold makeTableEntry
  have : (fun crc : Nat => if crc &&& (1 <<< (32 - 1)) != 0 then ((crc <<< 1) ^^^ 0x04c11db7) &&& ((1 <<< 32) - 1) else (crc <<< 1) &&& ((1 <<< 32) - 1)) =
      crcMsbBit 0x04C11DB7 32 := funext tableStep_eq
  simp only [this]

theorem maskHi_bit (i : Nat) (hi : i < 32) : (0xFF000000#32)[i] = decide (24 ≤ i) := by
  have h : ∀ i : Fin 32, (0xFF000000#32).getLsbD i.val = decide (24 ≤ i.val) := by decide
  have := h ⟨i, hi⟩
  simpa [BitVec.getLsbD_eq_getElem hi] using this

theorem maskHi_testBit (i : Nat) (hi : i < 32) : Nat.testBit 4278190080 i = decide (24 ≤ i) := by
  have h : ∀ i : Fin 32, Nat.testBit 4278190080 i.val = decide (24 ≤ i.val) := by decide
  exact h ⟨i, hi⟩

theorem getElem_ofNat32 (x i : Nat) (hi : i < 32) : (BitVec.ofNat 32 x)[i] = x.testBit i := by
  rw [← BitVec.getLsbD_eq_getElem hi, BitVec.getLsbD_ofNat]; simp [hi]

theorem F1 (cur b : Nat) :
    BitVec.ofNat 32 (cur ^^^ (b <<< 24)) &&& 0xFF000000#32 = BitVec.ofNat 32 (((cur >>> 24) ^^^ b) <<< 24) := by
  ext i hi
  simp only [BitVec.getElem_and, getElem_ofNat32 _ _ hi, BitVec.ofNat_xor, BitVec.getElem_xor, maskHi_testBit i hi, Nat.testBit_xor, Nat.testBit_shiftLeft, Nat.testBit_shiftRight]
  by_cases h : 24 ≤ i
  · have e : 24 + (i - 24) = i := by omega
    simp [h, e]
  · simp [h]

theorem F2 (cur b : Nat) : BitVec.ofNat 32 (cur ^^^ (b <<< 24)) <<< 8 = BitVec.ofNat 32 cur <<< 8 := by
  ext i hi
  simp only [BitVec.getElem_shiftLeft]
  by_cases h : i < 8
  · simp [h]
  · have : ¬ (24 ≤ i - 8) := by omega
    have h8 : i - 8 < 32 := by omega
    simp [h, this, getElem_ofNat32 _ _ h8, Nat.testBit_xor, Nat.testBit_shiftLeft]

theorem write32_eq_bitwise (cur : Nat) (hc : cur < 2 ^ 32) (b : UInt8) (T : Nat)
    (hT : T = makeTableEntry 0x04c11db7 32 ((cur >>> 24) ^^^ b.toNat)) :
    ((cur <<< 8) ^^^ T) &&& 0xffffffff = crcMsbStep 0x04C11DB7 32 cur b := by
  have hb : b.toNat < 2 ^ 8 := b.toNat_lt
  have hidx : (cur >>> 24) ^^^ b.toNat < 2 ^ 8 := Nat.xor_lt_two_pow (by rw [Nat.shiftRight_eq_div_pow]; omega) hb
  have hidx32 : ((cur >>> 24) ^^^ b.toNat) <<< 24 < 2 ^ 32 := by
    rw [Nat.shiftLeft_eq]; omega
  have hx : cur ^^^ (b.toNat <<< (32 - 8)) < 2 ^ 32 := Nat.xor_lt_two_pow hc (by rw [Nat.shiftLeft_eq]; omega)
  unfold crcMsbStep
  rw [msbIter_eq 8 _ hx, iter8_split]
  have e24 : (32 - 8 : Nat) = 24 := rfl
  rw [e24, F1, F2, hT, makeTableEntry_eq, msbIter_eq 8 _ hidx32]
  have e : (0xffffffff : Nat) = 2 ^ 32 - 1 := by decide
  rw [e, Nat.and_two_pow_sub_one_eq_mod]
  simp only [BitVec.toNat_xor, BitVec.toNat_shiftLeft, BitVec.toNat_ofNat]
  rw [Nat.xor_mod_two_pow, Nat.mod_eq_of_lt hc]
  congr 1
  exact (Nat.mod_eq_of_lt (BitVec.isLt _))

theorem crcMsbStep_lt (cur : Nat) (hc : cur < 2 ^ 32) (b : UInt8) : crcMsbStep 0x04C11DB7 32 cur b < 2 ^ 32 := by
  have hb : b.toNat < 2 ^ 8 := b.toNat_lt
  have hx : cur ^^^ (b.toNat <<< (32 - 8)) < 2 ^ 32 := Nat.xor_lt_two_pow hc (by rw [Nat.shiftLeft_eq]; omega)
  unfold crcMsbStep
  rw [msbIter_eq 8 _ hx]
  exact BitVec.isLt _

/-! ### the msb-first step is injective: single altered bytes are always detected -/

theorem p32_bit0 : P32[0] = true := by decide

theorem g_bit0 (s : BitVec 32) : (g s)[0] = s.msb := by
  unfold g
  cases h : s.msb <;> simp [p32_bit0]

theorem g_shift (s : BitVec 32) : g s ^^^ (if s.msb then P32 else 0#32) = s <<< 1 := by
  unfold g
  cases h : s.msb <;> simp [BitVec.xor_assoc]

theorem g_inj {s t : BitVec 32} (h : g s = g t) : s = t := by
  have h0 : s.msb = t.msb := by rw [← g_bit0, ← g_bit0, h]
  have h1 : s <<< 1 = t <<< 1 := by rw [← g_shift, ← g_shift, h, h0]
  ext i hi
  by_cases h31 : i = 31
  · subst h31
    have := h0
    rw [BitVec.msb_eq_getLsbD_last, BitVec.msb_eq_getLsbD_last] at this
    simpa [BitVec.getLsbD_eq_getElem] using this
  · have hi1 : i + 1 < 32 := by omega
    have := congrArg (fun v : BitVec 32 => v[i + 1]'hi1) h1
    simpa [BitVec.getElem_shiftLeft] using this

theorem ofNat_xor_shift (cur b : Nat) :
    BitVec.ofNat 32 (cur ^^^ (b <<< 24)) = BitVec.ofNat 32 cur ^^^ (BitVec.ofNat 32 b <<< 24) := by
  ext i hi
  simp only [BitVec.ofNat_xor, BitVec.getElem_xor, getElem_ofNat32 _ _ hi, BitVec.getElem_shiftLeft, Nat.testBit_shiftLeft]
  by_cases h : 24 ≤ i
  · have h2 : ¬ i < 24 := by omega
    have h3 : i - 24 < 32 := by omega
    simp [h, h2, getElem_ofNat32 _ _ h3]
  · have h2 : i < 24 := by omega
    simp [h, h2]

theorem msbStep_bv (cur : Nat) (hc : cur < 2 ^ 32) (b : UInt8) :
    crcMsbStep 0x04C11DB7 32 cur b = (iter g 8 (BitVec.ofNat 32 cur ^^^ (BitVec.ofNat 32 b.toNat <<< 24))).toNat := by
  have hb : b.toNat < 2 ^ 8 := b.toNat_lt
  have hx : cur ^^^ (b.toNat <<< 24) < 2 ^ 32 := Nat.xor_lt_two_pow hc (by rw [Nat.shiftLeft_eq]; omega)
  have e24 : (32 - 8 : Nat) = 24 := rfl
  unfold crcMsbStep
  rw [e24, msbIter_eq 8 _ hx, ofNat_xor_shift]

theorem g_injective : Function.Injective g := fun _ _ h => g_inj h

theorem ofNat32_inj {a b : Nat} (ha : a < 2 ^ 32) (hb : b < 2 ^ 32) (h : BitVec.ofNat 32 a = BitVec.ofNat 32 b) : a = b := by
  have := congrArg BitVec.toNat h
  simp only [BitVec.toNat_ofNat] at this
  rw [Nat.mod_eq_of_lt ha, Nat.mod_eq_of_lt hb] at this
  exact this

theorem shl24_byte_inj {x y : UInt8} (h : BitVec.ofNat 32 x.toNat <<< 24 = BitVec.ofNat 32 y.toNat <<< 24) : x = y := by
  have hx : x.toNat < 2 ^ 8 := x.toNat_lt
  have hy : y.toNat < 2 ^ 8 := y.toNat_lt
  have := congrArg BitVec.toNat h
  simp only [BitVec.toNat_shiftLeft, BitVec.toNat_ofNat] at this
  rw [Nat.mod_eq_of_lt (by omega : x.toNat < 2 ^ 32), Nat.mod_eq_of_lt (by omega : y.toNat < 2 ^ 32),
    Nat.shiftLeft_eq, Nat.shiftLeft_eq, Nat.mod_eq_of_lt (by omega), Nat.mod_eq_of_lt (by omega)] at this
  apply UInt8.toNat_inj.mp
  omega

/-- the msb-first byte step: injective in the state (fixed byte) and in the byte (fixed state) -/
theorem msbStep_inj_state (b : UInt8) {s t : Nat} (hs : s < 2 ^ 32) (ht : t < 2 ^ 32)
    (h : crcMsbStep 0x04C11DB7 32 s b = crcMsbStep 0x04C11DB7 32 t b) : s = t := by
  rw [msbStep_bv s hs, msbStep_bv t ht] at h
  have h1 := iter_inj g_injective 8 (BitVec.eq_of_toNat_eq h)
  have h2 := xor_left_inj _ h1
  exact ofNat32_inj hs ht h2

theorem msbStep_inj_byte (s : Nat) (hs : s < 2 ^ 32) {x y : UInt8}
    (h : crcMsbStep 0x04C11DB7 32 s x = crcMsbStep 0x04C11DB7 32 s y) : x = y := by
  rw [msbStep_bv s hs, msbStep_bv s hs] at h
  have h1 := iter_inj g_injective 8 (BitVec.eq_of_toNat_eq h)
  have h2 : BitVec.ofNat 32 x.toNat <<< 24 = BitVec.ofNat 32 y.toNat <<< 24 := by
    have := congrArg (BitVec.ofNat 32 s ^^^ ·) h1
    simpa [← BitVec.xor_assoc] using this
  exact shl24_byte_inj h2

theorem crcMsb_lt (bs : Bytes) : ∀ s, s < 2 ^ 32 → crcMsb 0x04C11DB7 32 s bs < 2 ^ 32 := by
  induction bs with
  | nil => intro s h; exact h
  | cons b bs ih => intro s h; exact ih _ (crcMsbStep_lt s h b)

theorem crcMsb_inj (q : Bytes) : ∀ {s t : Nat}, s < 2 ^ 32 → t < 2 ^ 32 →
    crcMsb 0x04C11DB7 32 s q = crcMsb 0x04C11DB7 32 t q → s = t := by
  induction q with
  | nil => intro s t _ _ h; exact h
  | cons b q ih =>
    intro s t hs ht h
    simp only [crcMsb, List.foldl_cons] at h
    exact msbStep_inj_state b hs ht (ih (crcMsbStep_lt s hs b) (crcMsbStep_lt t ht b) h)

theorem crcMsb_ne_of_byte (init : Nat) (hi : init < 2 ^ 32) (p q : Bytes) {x y : UInt8} (hxy : x ≠ y) :
    crcMsb 0x04C11DB7 32 init (p ++ x :: q) ≠ crcMsb 0x04C11DB7 32 init (p ++ y :: q) := by
  intro h
  simp only [crcMsb, List.foldl_append, List.foldl_cons] at h
  have hp := crcMsb_lt p init hi
  simp only [crcMsb] at hp
  have h2 := crcMsb_inj q (crcMsbStep_lt _ hp x) (crcMsbStep_lt _ hp y) h
  exact hxy (msbStep_inj_byte _ hp h2)

end Proofs.C15
