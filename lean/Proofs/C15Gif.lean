import FqModel.Gif
import Proofs.C15Struct
/-! C15 helper lemmas: GIF writer (in the decoder's field order) and parser are inverse. -/
namespace Proofs.C15
open FqModel FqModel.Container

/-- a sub-block chain the decoder can follow: at least one sub-block, every sub-block non-empty (<= 255 bytes),
    only the last one followed by the zero terminator -/
def SubsOk : List GifSub → Prop
  | [] => False
  | [s] => s.count = s.data.length ∧ 1 ≤ s.count ∧ s.count ≤ 255 ∧ s.term = some 0
  | s :: s' :: r => s.count = s.data.length ∧ 1 ≤ s.count ∧ s.count ≤ 255 ∧ s.term = none ∧ SubsOk (s' :: r)

theorem ofNat_toNat_u8 (n : Nat) (h : n ≤ 255) : (UInt8.ofNat n).toNat = n := by
  simp [UInt8.toNat_ofNat']; omega

theorem ofNat_ne_zero_u8 (n : Nat) (h1 : 1 ≤ n) (h2 : n ≤ 255) : UInt8.ofNat n ≠ 0 := by
  intro e
  have := congrArg UInt8.toNat e
  rw [ofNat_toNat_u8 n h2] at this
  simp at this; omega

theorem subs_rt (subs : List GifSub) : ∀ (fuel : Nat) (rest : Bytes), SubsOk subs → subs.length ≤ fuel →
    gifSubs fuel (writeGifSubs subs ++ rest) = some (subs, rest) := by
  induction subs with
  | nil => intro _ _ h; exact absurd h (by simp [SubsOk])
  | cons s subs ih =>
    intro fuel rest hok hf
    cases fuel with
    | zero => simp at hf
    | succ fuel =>
      cases subs with
      | nil =>
        obtain ⟨hc, h1, h2, ht⟩ := hok
        obtain ⟨c, d, t⟩ := s
        simp only at hc h1 h2 ht
        subst ht hc
        simp only [writeGifSubs, writeGifSub, termBytes, List.flatMap_cons, List.flatMap_nil, List.append_nil, List.cons_append, List.append_assoc, gifSubs,
          ofNat_toNat_u8 _ h2]
        rw [takeN_append d _ _ rfl]
        simp
      | cons s' r =>
        obtain ⟨hc, h1, h2, ht, hrest⟩ := hok
        obtain ⟨c, d, t⟩ := s
        simp only at hc h1 h2 ht
        subst ht hc
        have ih' := ih fuel rest hrest (by simp at hf ⊢; omega)
        have hs' : SubsOk (s' :: r) := hrest
        have hc' : 1 ≤ s'.count ∧ s'.count ≤ 255 := by
          cases r with
          | nil => exact ⟨hs'.2.1, hs'.2.2.1⟩
          | cons a b => exact ⟨hs'.2.1, hs'.2.2.1⟩
        have hw : writeGifSubs (⟨d.length, d, none⟩ :: s' :: r) ++ rest =
            UInt8.ofNat d.length :: (d ++ (UInt8.ofNat s'.count :: (s'.data ++ termBytes s'.term ++ (writeGifSubs r ++ rest)))) := by
          simp [writeGifSubs, writeGifSub, termBytes, List.append_assoc]
        have hw2 : writeGifSubs (s' :: r) ++ rest =
            UInt8.ofNat s'.count :: (s'.data ++ termBytes s'.term ++ (writeGifSubs r ++ rest)) := by
          simp [writeGifSubs, writeGifSub, termBytes, List.append_assoc]
        rw [hw, gifSubs]
        simp only [ofNat_toNat_u8 _ h2]
        rw [takeN_append d _ _ rfl]
        simp only [ofNat_ne_zero_u8 _ hc'.1 hc'.2, if_false]
        rw [← hw2, ih']

theorem subs_len (subs : List GifSub) (h : SubsOk subs) : subs.length ≤ (writeGifSubs subs).length := by
  induction subs with
  | nil => simp
  | cons s subs ih =>
    cases subs with
    | nil => simp [writeGifSubs, writeGifSub]
    | cons s' r =>
      have := ih h.2.2.2.2
      simp only [writeGifSubs, List.flatMap_cons, List.length_append, List.length_cons, writeGifSub] at this ⊢
      omega

/-- a chain: no sub-blocks at all (lone terminator), or a well formed sequence of non-empty sub-blocks -/
def ChainOk (subs : List GifSub) : Prop := subs = [] ∨ SubsOk subs

theorem chain_rt (subs : List GifSub) (h : ChainOk subs) (rest : Bytes) :
    gifChain (writeGifChain subs ++ rest) = some (subs, rest) := by
  rcases h with h | h
  · subst h; simp [writeGifChain, gifChain]
  · cases subs with
    | nil => exact absurd h (by simp [SubsOk])
    | cons s tl =>
      have hc : 1 ≤ s.count ∧ s.count ≤ 255 := by
        cases tl with
        | nil => exact ⟨h.2.1, h.2.2.1⟩
        | cons a b => exact ⟨h.2.1, h.2.2.1⟩
      have hlen := subs_len (s :: tl) h
      have hw : writeGifChain (s :: tl) ++ rest = UInt8.ofNat s.count :: (s.data ++ termBytes s.term ++ (writeGifSubs tl ++ rest)) := by
        simp [writeGifChain, writeGifSubs, writeGifSub, List.append_assoc]
      have hw2 : writeGifSubs (s :: tl) ++ rest = UInt8.ofNat s.count :: (s.data ++ termBytes s.term ++ (writeGifSubs tl ++ rest)) := by
        simp [writeGifSubs, writeGifSub, List.append_assoc]
      rw [hw, gifChain]
      simp only [ofNat_ne_zero_u8 _ hc.1 hc.2, if_false]
      rw [← hw2]
      exact subs_rt (s :: tl) _ rest h (by simp only [List.length_append]; omega)

def BlockOk : GifBlock → Prop
  | .ext intro code subs => intro = 0x21 ∧ code ≤ 255 ∧ ChainOk subs
  | .image sep l t w h lcm _ zero bd cs lmap subs =>
    sep = 0x2c ∧ l < 2 ^ 16 ∧ t < 2 ^ 16 ∧ w < 2 ^ 16 ∧ h < 2 ^ 16 ∧ zero < 8 ∧ 1 ≤ bd ∧ bd ≤ 8 ∧ cs ≤ 255 ∧
    (lcm = true → ∃ m, lmap = some m ∧ m.length = 3 * 2 ^ bd) ∧ (lcm = false → lmap = none) ∧ ChainOk subs

theorem packed_image (lcm il : Bool) (zero bd : Nat) (hz : zero < 8) (h1 : 1 ≤ bd) (h8 : bd ≤ 8) :
    let f := (UInt8.ofNat (128 * b2 lcm + 64 * b2 il + 8 * zero + (bd - 1))).toNat
    f.testBit 7 = lcm ∧ f.testBit 6 = il ∧ f / 8 % 8 = zero ∧ f % 8 + 1 = bd := by
  have hb : bd = 1 ∨ bd = 2 ∨ bd = 3 ∨ bd = 4 ∨ bd = 5 ∨ bd = 6 ∨ bd = 7 ∨ bd = 8 := by omega
  have hzz : zero = 0 ∨ zero = 1 ∨ zero = 2 ∨ zero = 3 ∨ zero = 4 ∨ zero = 5 ∨ zero = 6 ∨ zero = 7 := by omega
  rcases hb with h | h | h | h | h | h | h | h <;> subst h <;>
  rcases hzz with h | h | h | h | h | h | h | h <;> subst h <;> cases lcm <;> cases il <;> decide

theorem le2' (n : Nat) (h : n < 2 ^ 16) : leNat (toLE 2 n) = n := by rw [leNat_toLE]; exact Nat.mod_eq_of_lt (by simpa using h)

theorem block_rt (b : GifBlock) (ok : BlockOk b) (rest : Bytes) :
    gifBlock (writeGifBlockAsIs b ++ rest) = some (b, rest) := by
  cases b with
  | ext intro code subs =>
    obtain ⟨hi, hc, hs⟩ := ok
    subst hi
    simp only [writeGifBlockAsIs, List.cons_append, List.nil_append, gifBlock]
    have e : (UInt8.ofNat 33 : UInt8) = 0x21 := by decide
    simp only [e, if_true]
    rw [chain_rt subs hs rest]
    rw [ofNat_toNat_u8 _ hc]
  | image sep l t w h lcm il zero bd cs lmap subs =>
    obtain ⟨hsep, hl, ht, hw, hh, hz, hb1, hb8, hcs, hlm1, hlm0, hs⟩ := ok
    subst hsep
    obtain ⟨p7, p6, pz, pb⟩ := packed_image lcm il zero bd hz hb1 hb8
    have e : (UInt8.ofNat 44 : UInt8) = 0x2c := by decide
    have ne : ¬ ((0x2c : UInt8) = 0x21) := by decide
    have t2 : ∀ (n : Nat) (r : Bytes), takeN 2 (toLE 2 n ++ r) = some (toLE 2 n, r) := fun n r => takeN_append _ _ 2 (toLE_length _ _)
    have t1 : ∀ (a : UInt8) (r : Bytes), takeN 1 (a :: r) = some ([a], r) := fun a r => by simp [takeN]
    simp only [writeGifBlockAsIs, List.cons_append, List.nil_append, List.append_assoc, gifBlock, e, ne, if_false, if_true,
      t2, t1, Option.bind_eq_bind, Option.bind_some, leNat, Nat.mul_zero, Nat.add_zero, le2' _ hl, le2' _ ht, le2' _ hw, le2' _ hh,
      p7, p6, pz, pb, ofNat_toNat_u8 _ hcs]
    cases lcm with
    | false =>
      have := hlm0 rfl
      subst this
      simp only [Bool.false_eq_true, if_false, optBytes, List.nil_append, Option.bind_some]
      rw [chain_rt subs hs rest]
      simp
    | true =>
      obtain ⟨m, hm, hml⟩ := hlm1 rfl
      subst hm
      simp only [if_true, optBytes]
      rw [takeN_append m _ _ hml]
      simp only [Option.map_some, Option.bind_some]
      rw [chain_rt subs hs rest]
      simp

theorem block_first (b : GifBlock) (ok : BlockOk b) (rest : Bytes) :
    ∃ c r, writeGifBlockAsIs b ++ rest = c :: r ∧ c ≠ 0x3b := by
  cases b with
  | ext intro code subs =>
    exact ⟨UInt8.ofNat intro, UInt8.ofNat code :: (writeGifChain subs ++ rest), by simp [writeGifBlockAsIs], by rw [ok.1]; decide⟩
  | image sep l t w h lcm il zero bd cs lmap subs =>
    exact ⟨UInt8.ofNat sep, toLE 2 l ++ (toLE 2 t ++ (toLE 2 w ++ (toLE 2 h ++
      (UInt8.ofNat (128 * b2 lcm + 64 * b2 il + 8 * zero + (bd - 1)) :: UInt8.ofNat cs :: (optBytes lmap ++ (writeGifChain subs ++ rest)))))),
      by simp only [writeGifBlockAsIs, List.cons_append, List.nil_append, List.append_assoc], by rw [ok.1]; decide⟩

theorem blocks_rt (bs : List GifBlock) (hok : ∀ b ∈ bs, BlockOk b) : ∀ (fuel : Nat) (rest : Bytes), bs.length < fuel →
    gifBlocks fuel (bs.flatMap writeGifBlockAsIs ++ (0x3b :: rest)) = some (bs, 0x3b :: rest) := by
  induction bs with
  | nil =>
    intro fuel rest hf
    cases fuel with
    | zero => simp at hf
    | succ fuel => simp [gifBlocks]
  | cons b bs ih =>
    intro fuel rest hf
    cases fuel with
    | zero => simp at hf
    | succ fuel =>
      have okb := hok b (by simp)
      obtain ⟨c, r, hcr, hne⟩ := block_first b okb (bs.flatMap writeGifBlockAsIs ++ (0x3b :: rest))
      simp only [List.flatMap_cons, List.append_assoc]
      rw [hcr, gifBlocks]
      simp only [hne, if_false]
      rw [← hcr, block_rt b okb]
      simp only
      rw [ih (fun x hx => hok x (by simp [hx])) fuel rest (by simp at hf; omega)]

theorem block_len (b : GifBlock) (ok : BlockOk b) : 1 ≤ (writeGifBlockAsIs b).length := by
  cases b <;> simp [writeGifBlockAsIs]

structure GifOk (g : GifFile) : Prop where
  header : g.header = gif87a ∨ g.header = gif89a
  w : g.width < 2 ^ 16
  h : g.height < 2 ^ 16
  cres : 1 ≤ g.cres ∧ g.cres ≤ 8
  zero : g.zero < 2
  bd : 1 ≤ g.bd ∧ g.bd ≤ 8
  black : g.black ≤ 255
  par : g.par ≤ 255
  gcmT : g.gcp = true → ∃ m, g.gcm = some m ∧ m.length = 3 * 2 ^ g.bd
  gcmF : g.gcp = false → g.gcm = none
  blocks : ∀ b ∈ g.blocks, BlockOk b
  term : g.term = 0x3b

theorem packed_lsd (gcp : Bool) (cres zero bd : Nat) (hc : 1 ≤ cres ∧ cres ≤ 8) (hz : zero < 2) (hb : 1 ≤ bd ∧ bd ≤ 8) :
    let f := (UInt8.ofNat (128 * b2 gcp + 16 * (cres - 1) + 8 * zero + (bd - 1))).toNat
    f.testBit 7 = gcp ∧ f / 16 % 8 + 1 = cres ∧ f / 8 % 2 = zero ∧ f % 8 + 1 = bd := by
  have h1 : bd = 1 ∨ bd = 2 ∨ bd = 3 ∨ bd = 4 ∨ bd = 5 ∨ bd = 6 ∨ bd = 7 ∨ bd = 8 := by omega
  have h2 : cres = 1 ∨ cres = 2 ∨ cres = 3 ∨ cres = 4 ∨ cres = 5 ∨ cres = 6 ∨ cres = 7 ∨ cres = 8 := by omega
  have h3 : zero = 0 ∨ zero = 1 := by omega
  rcases h1 with h | h | h | h | h | h | h | h <;> subst h <;>
  rcases h2 with h | h | h | h | h | h | h | h <;> subst h <;>
  rcases h3 with h | h <;> subst h <;> cases gcp <;> decide

theorem blocks_len (bs : List GifBlock) (hok : ∀ b ∈ bs, BlockOk b) : bs.length ≤ (bs.flatMap writeGifBlockAsIs).length := by
  induction bs with
  | nil => simp
  | cons b bs ih =>
    have := ih (fun x hx => hok x (by simp [hx]))
    have hb := block_len b (hok b (by simp))
    simp only [List.flatMap_cons, List.length_append, List.length_cons]
    omega

theorem gif_rt (g : GifFile) (ok : GifOk g) (rest : Bytes) : parseGif (writeGifAsIs g ++ rest) = some (g, rest) := by
  obtain ⟨hdr, w, h, gcp, cres, zero, bd, black, par, gcm, blocks, term⟩ := g
  obtain ⟨hh, hw, hht, hc, hz, hb, hbl, hp, hgT, hgF, hbs, ht⟩ := ok
  simp only at hh hw hht hc hz hb hbl hp hgT hgF hbs ht
  subst ht
  obtain ⟨p7, pc, pz, pb⟩ := packed_lsd gcp cres zero bd hc hz hb
  have hlen6 : hdr.length = 6 := by rcases hh with e | e <;> rw [e] <;> decide
  have hhdr : ¬ (hdr ≠ gif87a ∧ hdr ≠ gif89a) := by
    rcases hh with e | e <;> simp [e]
  have t2 : ∀ (n : Nat) (r : Bytes), takeN 2 (toLE 2 n ++ r) = some (toLE 2 n, r) := fun n r => takeN_append _ _ 2 (toLE_length _ _)
  have t1 : ∀ (a : UInt8) (r : Bytes), takeN 1 (a :: r) = some ([a], r) := fun a r => by simp [takeN]
  have hblen := blocks_len blocks hbs
  have e3b : (UInt8.ofNat 59 : UInt8) = 0x3b := by decide
  unfold parseGif writeGifAsIs
  simp only [List.append_assoc, List.cons_append, List.nil_append]
  rw [takeN_append hdr _ 6 hlen6]
  simp only [Option.bind_eq_bind, Option.bind_some, hhdr, if_false, t2, t1, leNat, Nat.mul_zero, Nat.add_zero,
    le2' _ hw, le2' _ hht, p7, pc, pz, pb, ofNat_toNat_u8 _ hbl, ofNat_toNat_u8 _ hp]
  cases gcp with
  | false =>
    have := hgF rfl
    subst this
    simp only [Bool.false_eq_true, if_false, optBytes, List.nil_append, Option.bind_some, e3b]
    rw [blocks_rt blocks hbs _ rest (by simp only [List.length_append, List.length_cons]; omega)]
    simp [takeN]
    decide
  | true =>
    obtain ⟨m, hm, hml⟩ := hgT rfl
    subst hm
    simp only [if_true, optBytes, e3b]
    rw [takeN_append m _ _ hml]
    simp only [Option.map_some, Option.bind_some]
    rw [blocks_rt blocks hbs _ rest (by simp only [List.length_append, List.length_cons]; omega)]
    simp [takeN]
    decide

/-- the bytes a specification-conforming writer emits for an image are the bytes of the decoder-order writer for the
    SHIFTED view: that is exactly what the decoder then reports -/
theorem image_spec_asis (l t w h : Nat) (il : Bool) (bd : Nat) (table : Option Bytes) (cs : Nat) (subs : List GifSub) :
    writeGifImageSpec l t w h il bd table cs subs = writeGifBlockAsIs (gifImageView l t w h il bd table cs subs) := by
  cases table with
  | none => simp [writeGifImageSpec, writeGifBlockAsIs, gifImageView, optBytes, b2]
  | some tb =>
    cases tb with
    | nil => simp [writeGifImageSpec, writeGifBlockAsIs, gifImageView, optBytes, b2]
    | cons c0 tl =>
      have : UInt8.ofNat c0.toNat = c0 := by simp
      simp [writeGifImageSpec, writeGifBlockAsIs, gifImageView, optBytes, b2, this]
end Proofs.C15
