import FqModel.ContainerGz
import Proofs.C15Struct
/-! C15 — gzip: trailer in general (any stored crc / isize bytes), the member loop -/
namespace Proofs.C15
open FqModel FqModel.Container

/-- trailer with ANY stored crc and ANY four ISIZE bytes: crc shown valid iff it is the payload's, ISIZE shown as stored -/
theorem gz_body_gen (inflate : Bytes → Option (Nat × Bytes)) (z data rest : Bytes) (c : Nat) (hc : c < 2 ^ 32) (i4 : Bytes) (hi : i4.length = 4)
    (hinf : inflate (z ++ (toLE 4 c ++ (i4 ++ rest))) = some (z.length, data)) :
    parseGzBody inflate 8 (z ++ (toLE 4 c ++ (i4 ++ rest))) =
      some ({ clen := z.length, crc := c, crcDesc := if c = (crc32 data).toNat then "valid" else "invalid", isize := leNat i4, data := data }, rest) := by
  have hcc : (crc32 data).toNat < 2 ^ 32 := (crc32 data).isLt
  have e1 : leNat (toLE 4 c) = c := by rw [leNat_toLE]; exact Nat.mod_eq_of_lt (by simpa using hc)
  have e3 : beNat (toBE 4 (crc32 data).toNat) = (crc32 data).toNat := by
    rw [beNat_toBE]; exact Nat.mod_eq_of_lt (by simpa using hcc)
  have e4 : uintAssertBytes c (toBE 4 (crc32 data).toNat) = some (if c = (crc32 data).toNat then "valid" else "invalid") := by
    simp [uintAssertBytes, toBE_length, e3]
  unfold parseGzBody
  simp only [ne_eq, not_true_eq_false, if_false, Option.bind_eq_bind]
  rw [hinf]
  simp only [Option.bind_some]
  rw [takeN_append z _ _ rfl]
  simp only [Option.bind_some]
  rw [takeN_append _ _ 4 (toLE_length _ _)]
  simp only [Option.bind_some, e1, e4]
  rw [takeN_append _ _ 4 hi]
  simp

theorem writeGzMember_length (m : GzMemberW) : 18 ≤ (writeGzMember m).length := by
  simp [writeGzMember, writeGzHeaderAsIs, writeGzTrailer, toLE_length]
  omega

theorem writeGzMember_nonempty (m : GzMemberW) (rest : Bytes) : (writeGzMember m ++ rest).isEmpty = false := by
  simp [writeGzMember, writeGzHeaderAsIs]

theorem writeGzip_length (ms : List GzMemberW) : 18 * ms.length ≤ (writeGzip ms).length := by
  induction ms with
  | nil => simp [writeGzip]
  | cons m ms ih =>
    have := writeGzMember_length m
    simp only [writeGzip, List.flatMap_cons, List.length_append, List.length_cons] at ih ⊢
    omega

theorem gz_members_rt (inflate : Bytes → Option (Nat × Bytes)) (ms : List GzMemberW) (hok : ∀ m ∈ ms, GzOk m.h) (hinf : InflOk inflate ms) :
    ∀ (fuel : Nat) (acc : List (GzHeader × GzBody)), ms.length < fuel →
      parseGzMembers inflate fuel (writeGzip ms) acc = some (acc.reverse ++ ms.map GzMemberW.view) := by
  induction ms with
  | nil =>
    intro fuel acc hf
    cases fuel with
    | zero => simp at hf
    | succ fuel => simp [writeGzip, parseGzMembers]
  | cons m ms ih =>
    intro fuel acc hf
    cases fuel with
    | zero => simp at hf
    | succ fuel =>
      obtain ⟨h1, h2⟩ := hinf
      have e : writeGzip (m :: ms) = writeGzHeaderAsIs m.h ++ (m.z ++ (writeGzTrailer m.data ++ writeGzip ms)) := by
        simp [writeGzip, writeGzMember]
      have ne : (writeGzip (m :: ms)).isEmpty = false := by
        simp only [writeGzip, List.flatMap_cons]; exact writeGzMember_nonempty m _
      rw [parseGzMembers]
      simp only [ne, Bool.false_eq_true, if_false]
      rw [e, gz_roundtrip m.h (hok m (by simp))]
      have hcm : m.h.header.cm = 8 := rfl
      simp only [hcm]
      rw [gz_body_rt inflate m.z m.data (writeGzip ms) h1]
      simp only
      rw [ih (fun x hx => hok x (by simp [hx])) h2 fuel _ (by simp at hf; omega)]
      simp [GzMemberW.view]

theorem gzip_rt (inflate : Bytes → Option (Nat × Bytes)) (ms : List GzMemberW) (hne : ms ≠ []) (hok : ∀ m ∈ ms, GzOk m.h)
    (hinf : InflOk inflate ms) :
    parseGzip inflate (writeGzip ms) = some (ms.map GzMemberW.view, ms.flatMap (·.data)) := by
  unfold parseGzip
  have hl := writeGzip_length ms
  rw [gz_members_rt inflate ms hok hinf _ [] (by omega)]
  cases ms with
  | nil => exact absurd rfl hne
  | cons m ms =>
    simp only [List.reverse_nil, List.nil_append, List.map_cons, List.isEmpty_cons, Bool.false_eq_true, if_false]
    congr 2
    simp [List.flatMap_map, GzMemberW.view]

theorem gzWithHcrc_ok (h : GzFields) (ok : GzOk h) : GzOk (gzWithHcrc h) :=
  ⟨ok.mtime, ok.xfl, ok.os, ok.extra, ok.name, ok.comment, by
    intro c hc
    simp only [gzWithHcrc, Option.some.injEq] at hc
    subst hc
    exact toLE_length _ _⟩

end Proofs.C15
