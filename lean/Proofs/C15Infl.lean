import FqModel.ContainerInfl
import Proofs.C15Gz
/-! C15 helper lemmas: the payload step of a deflated zip member reports the inflater's output, for every output. -/
namespace Proofs.C15
open FqModel FqModel.Container

theorem takeN_app (a b : Bytes) : takeN a.length (a ++ b) = some (a, b) := takeN_append a b _ rfl

/-- sizes in the local header (csize = |z| ≠ 0): the window is exactly `z` -/
theorem zipBody_hdr (inflate : Nat → Bytes → Option (Nat × Bytes)) (off used : Nat) (z data tail : Bytes) (hz : z ≠ [])
    (hinf : inflate off z = some (used, data)) :
    zipBody inflate off 8 z.length (z ++ tail) = some (some data, some z.length, z.length) := by
  have hl : z.length ≠ 0 := fun h => hz (List.eq_nil_of_length_eq_zero h)
  unfold zipBody
  simp only [show (8 : Nat) ≠ 0 by decide, if_false, if_true, hl, takeN_app, hinf, Option.map_some]

/-- streamed member (csize = 0 in the header): the window is everything left, the consumed length is the `compressed` length -/
theorem zipBody_streamed (inflate : Nat → Bytes → Option (Nat × Bytes)) (off : Nat) (z data tail : Bytes)
    (hinf : inflate off (z ++ tail) = some (z.length, data)) :
    zipBody inflate off 8 0 (z ++ tail) = some (some data, some z.length, z.length) := by
  have h0 : takeN (z ++ tail).length (z ++ tail) = some (z ++ tail, []) := by
    have := takeN_app (z ++ tail) []
    simpa using this
  unfold zipBody
  simp only [show (8 : Nat) ≠ 0 by decide, if_false, if_true, h0, hinf, takeN_app, Option.map_some]

theorem limitRead_length (n : Nat) (out : Bytes) : (limitRead n out).length = min n out.length := by
  simp [limitRead, List.length_take]

theorem limitInflate_short (ratio : Nat) (u : Nat → Nat) (inflate : Bytes → Option (Nat × Bytes)) (win : Bytes) (used : Nat) (data : Bytes)
    (hinf : inflate win = some (used, data)) (hbig : ratio * win.length < data.length) :
    ∃ used' data', limitInflate ratio u inflate win = some (used', data') ∧ data'.length = ratio * win.length := by
  refine ⟨u used, limitRead (ratio * win.length) data, ?_, ?_⟩
  · simp [limitInflate, hinf, Nat.not_le.mpr hbig]
  · rw [limitRead_length]; omega

end Proofs.C15
