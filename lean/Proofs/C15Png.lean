import FqModel.ContainerPng
import Proofs.C15Struct
/-! C15 — lemmas for zlib framing, png chunk bodies and the IDAT stream -/
namespace Proofs.C15
open FqModel FqModel.Container

/-! ### Adler-32 fits 32 bits -/

theorem adlerFold_lt (bs : Bytes) : ∀ st : Nat × Nat, st.1 < adlerMod → st.2 < adlerMod →
    (bs.foldl adlerStep st).1 < adlerMod ∧ (bs.foldl adlerStep st).2 < adlerMod := by
  induction bs with
  | nil => intro st h1 h2; exact ⟨h1, h2⟩
  | cons b bs ih =>
    intro st _ _
    simp only [List.foldl_cons]
    apply ih
    · exact Nat.mod_lt _ (by decide)
    · exact Nat.mod_lt _ (by decide)

theorem adler32_lt (bs : Bytes) : adler32 bs < 2 ^ 32 := by
  obtain ⟨h1, h2⟩ := adlerFold_lt bs (1, 0) (by decide) (by decide)
  unfold adler32
  show (adlerState bs).2 * 65536 + (adlerState bs).1 < 2 ^ 32
  unfold adlerState
  simp only [adlerMod] at h1 h2
  omega

theorem beNat_adler (bs : Bytes) : beNat (toBE 4 (adler32 bs)) = adler32 bs := by
  rw [beNat_toBE]; exact Nat.mod_eq_of_lt (by simpa using adler32_lt bs)

/-! ### zlib header: every (CINFO, FLEVEL, FDICT) a writer can choose -/

theorem zlib_hdr_rt : ∀ (c : Fin 8) (l : Fin 4) (d : Bool),
    zlibHdr2 (UInt8.ofNat (zlibCmf c)) (UInt8.ofNat (zlibFlgHi l d + zlibFcheck (zlibCmf c) (zlibFlgHi l d))) =
      .ok { cm := 8, cinfo := c, fcheck := zlibFcheck (zlibCmf c) (zlibFlgHi l d), fdict := d, flevel := l } := by
  decide

theorem zlib_hdr_rt' (cinfo flevel : Nat) (hc : cinfo ≤ 7) (hl : flevel ≤ 3) (d : Bool) :
    zlibHdr2 (UInt8.ofNat (zlibCmf cinfo)) (UInt8.ofNat (zlibFlgHi flevel d + zlibFcheck (zlibCmf cinfo) (zlibFlgHi flevel d))) =
      .ok { cm := 8, cinfo := cinfo, fcheck := zlibFcheck (zlibCmf cinfo) (zlibFlgHi flevel d), fdict := d, flevel := flevel } :=
  zlib_hdr_rt ⟨cinfo, by omega⟩ ⟨flevel, by omega⟩ d

/-- the part of `parseZlib` after the header: deflate bytes, then the trailer -/
theorem zlib_tail (inflate : Bytes → Option (Nat × Bytes)) (z data rest : Bytes) (stored : Nat) (hs : stored < 2 ^ 32)
    (hinf : inflate (z ++ (toBE 4 stored ++ rest)) = some (z.length, data)) (h : ZlibHdr) (dictid : Option Nat) :
    (match inflate (z ++ (toBE 4 stored ++ rest)) with
      | none => (.error .inflate : ZRes (ZlibOk × Bytes))
      | some (clen, data) =>
        match takeN clen (z ++ (toBE 4 stored ++ rest)) with
        | none => .error .inflate
        | some (_, bs) =>
          match takeN 4 bs with
          | none => .error .eof
          | some (a, rest) =>
            if beNat a ≠ adler32 data then .error .checksum
            else .ok ({ hdr := h, dictid, clen, data, adler := beNat a }, rest)) =
      if stored ≠ adler32 data then .error .checksum
      else .ok ({ hdr := h, dictid, clen := z.length, data, adler := stored }, rest) := by
  have e : beNat (toBE 4 stored) = stored := by
    rw [beNat_toBE]; exact Nat.mod_eq_of_lt (by simpa using hs)
  rw [hinf]
  simp only
  rw [takeN_append z _ _ rfl]
  simp only
  rw [takeN_append _ _ 4 (toBE_length _ _)]
  simp only [e]

theorem zlib_rt_gen (inflate : Bytes → Option (Nat × Bytes)) (cinfo flevel : Nat) (hc : cinfo ≤ 7) (hl : flevel ≤ 3)
    (z data rest : Bytes) (stored : Nat) (hs : stored < 2 ^ 32)
    (hinf : inflate (z ++ (toBE 4 stored ++ rest)) = some (z.length, data)) :
    parseZlib inflate (writeZlibHeader cinfo flevel none ++ (z ++ (toBE 4 stored ++ rest))) =
      if stored ≠ adler32 data then .error .checksum
      else .ok ({ hdr := { cm := 8, cinfo, fcheck := zlibFcheck (zlibCmf cinfo) (zlibFlgHi flevel false), fdict := false, flevel },
                  dictid := none, clen := z.length, data, adler := stored }, rest) := by
  unfold writeZlibHeader parseZlib
  simp only [Option.isSome_none, List.cons_append, List.nil_append, List.append_nil, zlib_hdr_rt' cinfo flevel hc hl false]
  simp only [Bool.false_eq_true, if_false]
  exact zlib_tail inflate z data rest stored hs hinf _ none

theorem zlib_rt_dict (inflate : Bytes → Option (Nat × Bytes)) (cinfo flevel : Nat) (hc : cinfo ≤ 7) (hl : flevel ≤ 3)
    (id : Nat) (hid : id < 2 ^ 32) (z data rest : Bytes) (stored : Nat) (hs : stored < 2 ^ 32)
    (hinf : inflate (z ++ (toBE 4 stored ++ rest)) = some (z.length, data)) :
    parseZlib inflate (writeZlibHeader cinfo flevel (some id) ++ (z ++ (toBE 4 stored ++ rest))) =
      if id ≠ 1 then .error .dict
      else if stored ≠ adler32 data then .error .checksum
      else .ok ({ hdr := { cm := 8, cinfo, fcheck := zlibFcheck (zlibCmf cinfo) (zlibFlgHi flevel true), fdict := true, flevel },
                  dictid := some 1, clen := z.length, data, adler := stored }, rest) := by
  have e : beNat (toBE 4 id) = id := by
    rw [beNat_toBE]; exact Nat.mod_eq_of_lt (by simpa using hid)
  have a0 : adler32 [] = 1 := by decide
  unfold writeZlibHeader parseZlib
  simp only [Option.isSome_some, List.cons_append, List.nil_append, zlib_hdr_rt' cinfo flevel hc hl true]
  simp only [if_true, List.append_assoc]
  rw [takeN_append _ _ 4 (toBE_length _ _)]
  simp only [e, a0]
  by_cases h1 : id = 1
  · subst h1
    simp only [ne_eq, not_true_eq_false, if_false]
    exact zlib_tail inflate z data rest stored hs hinf _ (some 1)
  · simp [h1]

/-! ### png bodies -/

theorem u8_of (n : Nat) (h : n < 256) : (UInt8.ofNat n).toNat = n := by
  simp [UInt8.toNat_ofNat']; omega

theorem beNat_single (b : UInt8) : beNat [b] = b.toNat := by simp [beNat]

theorem ihdr_rt (i : Ihdr) (hw : i.width < 2 ^ 32) (hh : i.height < 2 ^ 32) (hb : i.bitDepth < 256) (hc : i.colorType < 256)
    (hm : i.compression < 256) (hf : i.filter < 256) (hi : i.interlace < 256) : parseIHDR (writeIHDR i) = some i := by
  obtain ⟨w, h, bd, ct, cm, fm, im⟩ := i
  simp only at hw hh hb hc hm hf hi
  have ew : beNat (toBE 4 w) = w := by rw [beNat_toBE]; exact Nat.mod_eq_of_lt (by simpa using hw)
  have eh : beNat (toBE 4 h) = h := by rw [beNat_toBE]; exact Nat.mod_eq_of_lt (by simpa using hh)
  have t1 : ∀ (a : UInt8) (r : Bytes), takeN 1 (a :: r) = some ([a], r) := fun a r => by simp [takeN]
  unfold parseIHDR writeIHDR
  simp only [List.append_assoc]
  rw [takeN_append _ _ 4 (toBE_length _ _)]
  simp only [Option.bind_eq_bind, Option.bind_some]
  rw [takeN_append _ _ 4 (toBE_length _ _)]
  simp only [Option.bind_some, List.cons_append, List.nil_append, t1, beNat_single, u8_of _ hb, u8_of _ hc, u8_of _ hm, u8_of _ hf,
    u8_of _ hi, ew, eh]
  rfl

theorem writeIHDR_length (i : Ihdr) : (writeIHDR i).length = 13 := by
  simp [writeIHDR, toBE_length]

theorem plte_rt (cols : List (UInt8 × UInt8 × UInt8)) : parsePlte (writePlte cols) = some cols := by
  induction cols with
  | nil => rfl
  | cons c cs ih =>
    obtain ⟨r, g, b⟩ := c
    show parsePlte (r :: g :: b :: writePlte cs) = _
    simp only [parsePlte, ih, Option.map_some]

theorem writePlte_length (cols : List (UInt8 × UInt8 × UInt8)) : (writePlte cols).length = 3 * cols.length := by
  induction cols with
  | nil => rfl
  | cons c cs ih =>
    show ([c.1, c.2.1, c.2.2] ++ writePlte cs).length = _
    simp only [List.length_append, ih, List.length_cons, List.length_nil]; omega

/-- a palette whose size is not a multiple of three is a decode error -/
theorem plte_bad_size : ∀ (n : Nat) (d : Bytes), d.length ≤ n → d.length % 3 ≠ 0 → parsePlte d = none := by
  intro n
  induction n with
  | zero => intro d h hm; cases d <;> simp_all
  | succ n ih =>
    intro d h hm
    match d with
    | [] => simp at hm
    | [_] => rfl
    | [_, _] => rfl
    | r :: g :: b :: rest =>
      have : parsePlte rest = none := ih rest (by simp at h; omega) (by simp at hm; omega)
      simp [parsePlte, this]

/-! ### bodies of a chunk sequence -/

theorem pngBody_idat (ct : Nat) (d : Bytes) : pngBody ct tIDAT d = some (.raw d) := by
  unfold pngBody
  simp only [show tIDAT ≠ tIHDR by decide, show tIDAT ≠ tPLTE by decide, show tIDAT ≠ tTRNS by decide, show tIDAT ≠ tIEND by decide,
    show pngSwitchTypes.contains tIDAT = false by decide, if_false, Bool.false_eq_true]

theorem pngBodies_idats (ct : Nat) (parts : List Bytes) (tail : List PngChunk) :
    pngBodies ct (parts.map (fun p => pngChunkOf tIDAT p) ++ tail) = (pngBodies ct tail).map (parts.map PngBody.raw ++ ·) := by
  induction parts with
  | nil => simp
  | cons p ps ih =>
    simp only [List.map_cons, List.cons_append, pngBodies, pngChunkOf_typ]
    have : (pngChunkOf tIDAT p).data = p := rfl
    rw [this, pngBody_idat]
    simp only [ih]
    cases pngBodies ct tail <;> simp

theorem idatStream_append (a b : List PngChunk) : idatStream (a ++ b) = idatStream a ++ idatStream b := by
  simp [idatStream, List.filter_append, List.flatMap_append]

theorem idatStream_idats (parts : List Bytes) : idatStream (parts.map (fun p => pngChunkOf tIDAT p)) = parts.flatten := by
  induction parts with
  | nil => rfl
  | cons p ps ih =>
    have e : idatStream (pngChunkOf tIDAT p :: ps.map (fun p => pngChunkOf tIDAT p)) =
        p ++ idatStream (ps.map (fun p => pngChunkOf tIDAT p)) := by
      simp [idatStream, pngChunkOf]
    simp only [List.map_cons, e, ih, List.flatten_cons]

theorem idatStream_none (cs : List (Bytes × Bytes)) (h : ∀ c ∈ cs, c.1 ≠ tIDAT) : idatStream (cs.map ch) = [] := by
  induction cs with
  | nil => rfl
  | cons c cs ih =>
    have hc := h c (by simp)
    have := ih (fun x hx => h x (by simp [hx]))
    simp only [idatStream, List.map_cons, List.filter_cons, ch, pngChunkOf_typ, hc, decide_false, Bool.false_eq_true, if_false] at this ⊢
    exact this

end Proofs.C15
