import FqModel.Riff
import Proofs.C15Struct
/-! C15 helper lemmas: RIFF/WAVE writer and parser are inverse (leaves, LIST, file; fmt chunk). -/
namespace Proofs.C15
open FqModel FqModel.Container

/-- a chunk the round trip covers: four byte id that is neither RIFF nor LIST after trimming, payload shorter than
    2^32 - 1 (0xffffffff means "rest of file"), and a payload its chunk type can decode -/
structure LeafOk (id4 payload : Bytes) : Prop where
  idLen : id4.length = 4
  len : payload.length < 2 ^ 32 - 1
  notRiff : trimWs id4 ≠ idRIFF
  notList : trimWs id4 ≠ idLIST
  body : (wavLeafBody (trimWs id4) payload).isSome

def padLen (n : Nat) : Nat := if n % 2 = 1 then 1 else 0

def leafEv (id4 payload : Bytes) : List WavEv :=
  WavEv.opn (trimWs id4) payload.length :: ((wavLeafBody (trimWs id4) payload).getD []) ++
    [WavEv.close (if payload.length % 2 = 1 then some 1 else none)]

theorem writeRiffChunk_length (id4 p : Bytes) (h : id4.length = 4) : (writeRiffChunk id4 p).length = 8 + p.length + padLen p.length := by
  unfold writeRiffChunk padLen
  by_cases hp : p.length % 2 = 1 <;> simp [hp, h, toLE_length] <;> omega

theorem leaf_chunk_rt (id4 payload : Bytes) (ok : LeafOk id4 payload) (fuel pos : Nat) (hpos : pos % 2 = 0) (rest : Bytes) :
    riffChunk (fuel + 1) pos (writeRiffChunk id4 payload ++ rest) =
      some (leafEv id4 payload, pos + 8 + payload.length + padLen payload.length, rest) := by
  obtain ⟨h4, hl, hr, hli, hb⟩ := ok
  have e1 : leNat (toLE 4 payload.length) = payload.length := by
    rw [leNat_toLE]; exact Nat.mod_eq_of_lt (by omega)
  have hne : ¬ payload.length = 0xffffffff := by omega
  obtain ⟨b, hb'⟩ := Option.isSome_iff_exists.mp hb
  unfold writeRiffChunk
  rw [riffChunk]
  simp only [List.append_assoc]
  rw [takeN_append id4 _ 4 h4]
  simp only
  rw [takeN_append _ _ 4 (toLE_length _ _)]
  simp only [e1, hne, if_false]
  rw [takeN_append payload _ _ rfl]
  simp only [hr, hli, if_false, hb']
  unfold leafEv padLen
  by_cases hp : payload.length % 2 = 1
  · have : (pos + 8 + payload.length) % 2 = 1 := by omega
    simp [hp, this, takeN, hb']
  · have : ¬ (pos + 8 + payload.length) % 2 = 1 := by omega
    simp [hp, this, hb']

theorem padLen_even (pos n : Nat) (h : pos % 2 = 0) : (pos + 8 + n + padLen n) % 2 = 0 := by
  unfold padLen; split <;> omega

theorem writeRiffChunk_nonempty (id4 p rest : Bytes) (h : id4.length = 4) : (writeRiffChunk id4 p ++ rest).isEmpty = false := by
  have := writeRiffChunk_length id4 p h
  cases hh : writeRiffChunk id4 p with
  | nil => rw [hh] at this; simp at this; omega
  | cons a l => rfl

def wrLeaf (l : Bytes × Bytes) : Bytes := writeRiffChunk l.1 l.2

/-- a frame that holds exactly a sequence of leaves -/
theorem leaves_rt (ls : List (Bytes × Bytes)) (hok : ∀ l ∈ ls, LeafOk l.1 l.2) :
    ∀ (fuel pos : Nat), ls.length < fuel → pos % 2 = 0 →
      riffChildren fuel pos (ls.flatMap wrLeaf) = some (ls.flatMap (fun l => leafEv l.1 l.2)) := by
  induction ls with
  | nil =>
    intro fuel pos hf _
    cases fuel with
    | zero => simp at hf
    | succ fuel => simp [riffChildren]
  | cons l ls ih =>
    intro fuel pos hf hpos
    cases fuel with
    | zero => simp at hf
    | succ fuel =>
      have okl := hok l (by simp)
      cases fuel with
      | zero => simp at hf
      | succ fuel =>
        simp only [List.flatMap_cons]
        show riffChildren (fuel + 1 + 1) pos (writeRiffChunk l.1 l.2 ++ _) = _
        rw [riffChildren]
        simp only [writeRiffChunk_nonempty _ _ _ okl.idLen, Bool.false_eq_true, if_false]
        rw [leaf_chunk_rt l.1 l.2 okl fuel pos hpos]
        simp only
        rw [ih (fun x hx => hok x (by simp [hx])) (fuel + 1) _ (by simp at hf; omega) (padLen_even pos _ hpos)]
        simp

/-- payload of a LIST chunk -/
def listPayload (t : Bytes) (ls : List (Bytes × Bytes)) : Bytes := t ++ ls.flatMap wrLeaf

structure ListOk (t : Bytes) (ls : List (Bytes × Bytes)) : Prop where
  typ4 : t.length = 4
  leaves : ∀ l ∈ ls, LeafOk l.1 l.2
  len : (listPayload t ls).length < 2 ^ 32 - 1

def listEv (t : Bytes) (ls : List (Bytes × Bytes)) : List WavEv :=
  WavEv.opn idLIST (listPayload t ls).length :: WavEv.list t :: ls.flatMap (fun l => leafEv l.1 l.2) ++ [WavEv.close none]

theorem flatMap_wrLeaf_even (ls : List (Bytes × Bytes)) (hok : ∀ l ∈ ls, LeafOk l.1 l.2) : (ls.flatMap wrLeaf).length % 2 = 0 := by
  induction ls with
  | nil => rfl
  | cons l ls ih =>
    have := ih (fun x hx => hok x (by simp [hx]))
    have hl := writeRiffChunk_length l.1 l.2 (hok l (by simp)).idLen
    simp only [List.flatMap_cons, List.length_append, wrLeaf, hl]
    unfold padLen
    split <;> omega

theorem flatMap_wrLeaf_len (ls : List (Bytes × Bytes)) (hok : ∀ l ∈ ls, LeafOk l.1 l.2) : 8 * ls.length ≤ (ls.flatMap wrLeaf).length := by
  induction ls with
  | nil => simp
  | cons l ls ih =>
    have := ih (fun x hx => hok x (by simp [hx]))
    have hl := writeRiffChunk_length l.1 l.2 (hok l (by simp)).idLen
    simp only [List.flatMap_cons, List.length_append, List.length_cons, wrLeaf, hl]
    omega

theorem trimWs_LIST : trimWs idLIST = idLIST := by decide
theorem trimWs_RIFF : trimWs idRIFF = idRIFF := by decide
theorem LIST_ne_RIFF : idLIST ≠ idRIFF := by decide

theorem list_chunk_rt (t : Bytes) (ls : List (Bytes × Bytes)) (ok : ListOk t ls) (fuel pos : Nat) (hf : ls.length < fuel)
    (hpos : pos % 2 = 0) (rest : Bytes) :
    riffChunk (fuel + 1) pos (writeRiffChunk idLIST (listPayload t ls) ++ rest) =
      some (listEv t ls, pos + 8 + (listPayload t ls).length, rest) := by
  obtain ⟨h4, hls, hl⟩ := ok
  have e1 : leNat (toLE 4 (listPayload t ls).length) = (listPayload t ls).length := by
    rw [leNat_toLE]; exact Nat.mod_eq_of_lt (by omega)
  have hne : ¬ (listPayload t ls).length = 0xffffffff := by omega
  have heven : (listPayload t ls).length % 2 = 0 := by
    have := flatMap_wrLeaf_even ls hls
    simp only [listPayload, List.length_append, h4]; omega
  have hpad : ¬ (listPayload t ls).length % 2 = 1 := by omega
  unfold writeRiffChunk
  rw [riffChunk]
  simp only [List.append_assoc, hpad, if_false, List.nil_append]
  rw [takeN_append idLIST _ 4 (by decide)]
  simp only
  rw [takeN_append _ _ 4 (toLE_length _ _)]
  simp only [e1, hne, if_false]
  rw [takeN_append (listPayload t ls) _ _ rfl]
  simp only [trimWs_LIST, LIST_ne_RIFF, if_false, if_true]
  have ht : takeN 4 (listPayload t ls) = some (t, ls.flatMap wrLeaf) := takeN_append t _ 4 h4
  rw [ht]
  simp only
  rw [leaves_rt ls hls fuel (pos + 12) hf (by omega)]
  have : ¬ (pos + 8 + (listPayload t ls).length) % 2 = 1 := by omega
  simp [this, listEv]

def TopOk : WavTop → Prop
  | .leaf id p => LeafOk id p
  | .list t ls => ListOk t ls

def topEv : WavTop → List WavEv
  | .leaf id p => leafEv id p
  | .list t ls => listEv t ls

def topCost : WavTop → Nat
  | .leaf _ _ => 1
  | .list _ ls => ls.length + 2

def topsCost (tops : List WavTop) : Nat := (tops.map topCost).sum

theorem writeWavTop_length (t : WavTop) (ok : TopOk t) : (writeWavTop t).length % 2 = 0 ∧ 8 * topCost t ≤ 8 + (writeWavTop t).length ∧ 8 ≤ (writeWavTop t).length := by
  cases t with
  | leaf id p =>
    have := writeRiffChunk_length id p ok.idLen
    simp only [writeWavTop, topCost, this]
    unfold padLen; split <;> omega
  | list ty ls =>
    obtain ⟨h4, hls, hl⟩ := ok
    have h1 := flatMap_wrLeaf_even ls hls
    have h2 := flatMap_wrLeaf_len ls hls
    have := writeRiffChunk_length idLIST (ty ++ ls.flatMap (fun l => writeRiffChunk l.1 l.2)) (by decide)
    have e : ls.flatMap (fun l => writeRiffChunk l.1 l.2) = ls.flatMap wrLeaf := rfl
    rw [e] at this
    have hlp : (ty ++ ls.flatMap wrLeaf).length = 4 + (ls.flatMap wrLeaf).length := by simp [h4]
    have hp0 : padLen (ty ++ ls.flatMap wrLeaf).length = 0 := by
      unfold padLen; rw [hlp]; split <;> omega
    rw [hp0, hlp] at this
    simp only [writeWavTop, topCost, e, this]
    omega

theorem top_chunk_rt (t : WavTop) (ok : TopOk t) (fuel pos : Nat) (hf : topCost t ≤ fuel + 1) (hpos : pos % 2 = 0) (rest : Bytes) :
    riffChunk (fuel + 1) pos (writeWavTop t ++ rest) = some (topEv t, pos + (writeWavTop t).length, rest) := by
  cases t with
  | leaf id p =>
    have := leaf_chunk_rt id p ok fuel pos hpos rest
    simp only [writeWavTop, topEv, this, writeRiffChunk_length id p ok.idLen]
    congr 3; omega
  | list ty ls =>
    have hlen := writeRiffChunk_length idLIST (listPayload ty ls) (by decide)
    have heven : (listPayload ty ls).length % 2 = 0 := by
      have := flatMap_wrLeaf_even ls ok.leaves
      simp only [listPayload, List.length_append, ok.typ4]; omega
    have hp0 : padLen (listPayload ty ls).length = 0 := by unfold padLen; split <;> omega
    have := list_chunk_rt ty ls ok fuel pos (by simp only [topCost] at hf; omega) hpos rest
    show riffChunk (fuel + 1) pos (writeRiffChunk idLIST (listPayload ty ls) ++ rest) = _
    rw [this]
    show _ = some (listEv ty ls, pos + (writeRiffChunk idLIST (listPayload ty ls)).length, rest)
    rw [hlen, hp0]
    congr 3; omega

theorem writeWavTop_nonempty (t : WavTop) (ok : TopOk t) (rest : Bytes) : (writeWavTop t ++ rest).isEmpty = false := by
  have := (writeWavTop_length t ok).2.2
  cases h : writeWavTop t with
  | nil => rw [h] at this; simp at this
  | cons a l => rfl

theorem tops_rt (tops : List WavTop) (hok : ∀ t ∈ tops, TopOk t) :
    ∀ (fuel pos : Nat), topsCost tops < fuel → pos % 2 = 0 →
      riffChildren fuel pos (tops.flatMap writeWavTop) = some (tops.flatMap topEv) := by
  induction tops with
  | nil =>
    intro fuel pos hf _
    cases fuel with
    | zero => simp at hf
    | succ fuel => simp [riffChildren]
  | cons t tops ih =>
    intro fuel pos hf hpos
    have okt := hok t (by simp)
    have hc : topsCost (t :: tops) = topCost t + topsCost tops := by simp [topsCost]
    have hc1 : 1 ≤ topCost t := by cases t <;> simp [topCost]
    cases fuel with
    | zero => simp at hf
    | succ fuel =>
      cases fuel with
      | zero => omega
      | succ fuel =>
        simp only [List.flatMap_cons]
        rw [riffChildren]
        simp only [writeWavTop_nonempty t okt, Bool.false_eq_true, if_false]
        rw [top_chunk_rt t okt fuel pos (by omega) hpos]
        simp only
        rw [ih (fun x hx => hok x (by simp [hx])) (fuel + 1) _ (by omega) (by have := (writeWavTop_length t okt).1; omega)]
        simp

structure WavOk (tops : List WavTop) : Prop where
  topsOk : ∀ t ∈ tops, TopOk t
  len : (wavBody tops).length < 2 ^ 32 - 1

def wavEv (tops : List WavTop) : List WavEv :=
  WavEv.opn idRIFF (wavBody tops).length :: WavEv.riff idWAVE :: tops.flatMap topEv ++ [WavEv.close none]

theorem tops_len (tops : List WavTop) (hok : ∀ t ∈ tops, TopOk t) :
    (tops.flatMap writeWavTop).length % 2 = 0 ∧ 8 * topsCost tops ≤ 8 * tops.length + (tops.flatMap writeWavTop).length ∧ 8 * tops.length ≤ (tops.flatMap writeWavTop).length := by
  induction tops with
  | nil => simp [topsCost]
  | cons t tops ih =>
    have := ih (fun x hx => hok x (by simp [hx]))
    have ht := writeWavTop_length t (hok t (by simp))
    simp only [List.flatMap_cons, List.length_append, List.length_cons, topsCost, List.map_cons, List.sum_cons] at this ⊢
    omega

theorem wav_rt (tops : List WavTop) (ok : WavOk tops) : parseWav (writeWav tops) = some (wavEv tops) := by
  obtain ⟨hok, hl⟩ := ok
  have hlen := tops_len tops hok
  have hbl : (wavBody tops).length = 4 + (tops.flatMap writeWavTop).length := by
    simp [wavBody, List.length_append]; decide
  have heven : (wavBody tops).length % 2 = 0 := by omega
  have hpad : ¬ (wavBody tops).length % 2 = 1 := by omega
  have e1 : leNat (toLE 4 (wavBody tops).length) = (wavBody tops).length := by
    rw [leNat_toLE]; exact Nat.mod_eq_of_lt (by omega)
  have hne : ¬ (wavBody tops).length = 0xffffffff := by omega
  unfold parseWav writeWav
  have hfile : (writeRiffChunk idRIFF (wavBody tops)).length = 8 + (wavBody tops).length := by
    rw [writeRiffChunk_length _ _ (by decide)]; unfold padLen; simp [hpad]
  have key : riffChunk ((writeRiffChunk idRIFF (wavBody tops)).length + 2) 0 (writeRiffChunk idRIFF (wavBody tops)) =
      some (wavEv tops, 8 + (wavBody tops).length, []) := by
    rw [hfile]
    unfold writeRiffChunk
    rw [riffChunk]
    simp only [hpad, if_false, List.append_nil, List.append_assoc]
    rw [takeN_append idRIFF _ 4 (by decide)]
    simp only
    rw [takeN_append _ _ 4 (toLE_length _ _)]
    simp only [e1, hne, if_false]
    have : takeN (wavBody tops).length (wavBody tops) = some (wavBody tops, []) := by
      have := takeN_append (wavBody tops) [] _ rfl
      simpa using this
    rw [this]
    simp only [trimWs_RIFF, if_true]
    have ht : takeN 4 (wavBody tops) = some (idWAVE, tops.flatMap writeWavTop) := takeN_append idWAVE _ 4 (by decide)
    rw [ht]
    simp only [if_true]
    rw [tops_rt tops hok _ 12 (by omega) (by decide)]
    have : ¬ (0 + 8 + (wavBody tops).length) % 2 = 1 := by omega
    simp [this, wavEv]
  rw [key]
  rfl

/-- the three shapes of a `fmt` chunk -/
inductive FmtShape : WavFmt → Prop
  | plain (af ch rate brate al bits : Nat) : FmtShape ⟨af, ch, rate, brate, al, bits, none, none, none, none, none, none⟩
  | cb (af ch rate brate al bits : Nat) (u : Bytes) (h : af % 2 ^ 16 ≠ 0xfffe) (hu : u.length < 2 ^ 16) :
      FmtShape ⟨af, ch, rate, brate, al, bits, some u.length, some u, none, none, none, none⟩
  | ext (ch rate brate al bits es vb mask : Nat) (sub : Bytes) (hs : sub.length = 16) (h1 : es < 2 ^ 16) (h2 : vb < 2 ^ 16) (h3 : mask < 2 ^ 32) :
      FmtShape ⟨0xfffe, ch, rate, brate, al, bits, none, none, some es, some vb, some mask, some sub⟩

structure FmtFits (f : WavFmt) : Prop where
  af : f.audioFormat < 2 ^ 16
  ch : f.numChannels < 2 ^ 16
  rate : f.sampleRate < 2 ^ 32
  brate : f.byteRate < 2 ^ 32
  al : f.blockAlign < 2 ^ 16
  bits : f.bitsPerSample < 2 ^ 16

theorem le2 (n : Nat) (h : n < 2 ^ 16) : leNat (toLE 2 n) = n := by rw [leNat_toLE]; exact Nat.mod_eq_of_lt (by simpa using h)
theorem le4 (n : Nat) (h : n < 2 ^ 32) : leNat (toLE 4 n) = n := by rw [leNat_toLE]; exact Nat.mod_eq_of_lt (by simpa using h)

theorem wav_fmt_rt (f : WavFmt) (hs : FmtShape f) (hf : FmtFits f) : parseWavFmt (writeWavFmt f) = some f := by
  have t2 : ∀ (n : Nat) (r : Bytes), takeN 2 (toLE 2 n ++ r) = some (toLE 2 n, r) := fun n r => takeN_append _ _ 2 (toLE_length _ _)
  have t4 : ∀ (n : Nat) (r : Bytes), takeN 4 (toLE 4 n ++ r) = some (toLE 4 n, r) := fun n r => takeN_append _ _ 4 (toLE_length _ _)
  have t2e : ∀ (n : Nat), takeN 2 (toLE 2 n) = some (toLE 2 n, []) := fun n => by
    have := t2 n []; simpa using this
  obtain ⟨h1, h2, h3, h4, h5, h6⟩ := hf
  cases hs with
  | plain af ch rate brate al bits =>
    simp only at h1 h2 h3 h4 h5 h6
    simp only [parseWavFmt, writeWavFmt, List.append_assoc, t2, t4, t2e, Option.bind_eq_bind, Option.bind_some, List.append_nil,
      le2 _ h1, le2 _ h2, le4 _ h3, le4 _ h4, le2 _ h5, le2 _ h6]
    simp
  | cb af ch rate brate al bits u hne hu =>
    simp only at h1 h2 h3 h4 h5 h6
    have hne' : ¬ af = 0xfffe := by
      intro e; apply hne; rw [e]
    have hnil : (toLE 2 u.length ++ u).isEmpty = false := by
      have := toLE_length 2 u.length
      cases h : toLE 2 u.length with
      | nil => rw [h] at this; simp at this
      | cons a l => rfl
    have tu : takeN u.length u = some (u, []) := by
      have := takeN_append u [] _ rfl
      simpa using this
    simp only [parseWavFmt, writeWavFmt, List.append_assoc, t2, t4, Option.bind_eq_bind, Option.bind_some,
      le2 _ h1, le2 _ h2, le4 _ h3, le4 _ h4, le2 _ h5, le2 _ h6, hnil, hne', Bool.false_eq_true, if_false, le2 _ hu, tu]
    rfl
  | ext ch rate brate al bits es vb mask sub hsub e1 e2 e3 =>
    simp only at h2 h3 h4 h5 h6
    have hnil : (toLE 2 es ++ (toLE 2 vb ++ (toLE 4 mask ++ sub))).isEmpty = false := by
      have := toLE_length 2 es
      cases h : toLE 2 es with
      | nil => rw [h] at this; simp at this
      | cons a l => rfl
    have ts : takeN 16 sub = some (sub, []) := by
      have := takeN_append sub [] 16 hsub
      simpa using this
    have haf : leNat (toLE 2 0xfffe) = 0xfffe := le2 _ (by decide)
    simp only [parseWavFmt, writeWavFmt, List.append_assoc, t2, t4, Option.bind_eq_bind, Option.bind_some,
      haf, le2 _ h2, le4 _ h3, le4 _ h4, le2 _ h5, le2 _ h6, hnil, Bool.false_eq_true, if_false, if_true, le2 _ e1, le2 _ e2, le4 _ e3, ts]
    rfl
end Proofs.C15
