import FqModel.Container
/-! C15 helper lemmas: writers and parsers of the container structures are inverse
    (gzip header as the decoder has it, tar, png chunks). -/
namespace Proofs.C15
open FqModel FqModel.Container

/-! ### gzip header -/

theorem takeN_append (xs ys : Bytes) (n : Nat) (h : xs.length = n) : takeN n (xs ++ ys) = some (xs, ys) := by
  subst h
  simp [takeN]

theorem toLE_length (w n : Nat) : (toLE w n).length = w := by
  induction w generalizing n with
  | zero => rfl
  | succ w ih => simp [toLE, ih]

theorem leNat_toLE (w n : Nat) : leNat (toLE w n) = n % 256 ^ w := by
  induction w generalizing n with
  | zero => simp [toLE, leNat, Nat.mod_one]
  | succ w ih =>
    simp only [toLE, leNat, ih]
    have : (UInt8.ofNat (n % 256)).toNat = n % 256 := by
      simp [UInt8.toNat_ofNat']
    rw [this, Nat.pow_succ, Nat.mul_comm (256 ^ w) 256, Nat.mod_mul]

theorem takeCStr_append (s rest : Bytes) (h : ∀ b ∈ s, b ≠ 0) : takeCStr (s ++ 0 :: rest) = some (s, rest) := by
  induction s with
  | nil => simp [takeCStr]
  | cons b s ih =>
    have hb : b ≠ 0 := h b (by simp)
    have := ih (fun x hx => h x (by simp [hx]))
    simp [takeCStr, hb, this]

theorem flg_asis (t h e n c : Bool) :
    let f := (UInt8.ofNat (128 * b2n t + 64 * b2n h + 32 * b2n e + 16 * b2n n + 8 * b2n c)).toNat
    f.testBit 7 = t ∧ f.testBit 6 = h ∧ f.testBit 5 = e ∧ f.testBit 4 = n ∧ f.testBit 3 = c ∧ f % 8 = 0 := by
  cases t <;> cases h <;> cases e <;> cases n <;> cases c <;> decide

structure GzOk (h : GzFields) : Prop where
  mtime : h.mtime < 2 ^ 32
  xfl : h.xfl < 256
  os : h.os < 256
  extra : ∀ e, h.extra = some e → e.length < 2 ^ 16
  name : ∀ s, h.name = some s → ∀ b ∈ s, b ≠ 0
  comment : ∀ s, h.comment = some s → ∀ b ∈ s, b ≠ 0
  hcrc : ∀ c, h.hcrc = some c → c.length = 2


theorem optExtra_rt (e : Option Bytes) (rest : Bytes) (h : ∀ x, e = some x → x.length < 2 ^ 16) :
    gzOptExtra e.isSome (encExtra e ++ rest) = some (e.map (·.length), e, rest) := by
  cases e with
  | none => simp [gzOptExtra, encExtra]
  | some x =>
    have hx := h x rfl
    have h2 : takeN 2 (toLE 2 x.length ++ (x ++ rest)) = some (toLE 2 x.length, x ++ rest) := takeN_append _ _ _ (toLE_length _ _)
    have h3 : leNat (toLE 2 x.length) = x.length := by rw [leNat_toLE]; exact Nat.mod_eq_of_lt (by simpa using hx)
    simp [gzOptExtra, encExtra, List.append_assoc, h2, h3, takeN_append]

theorem optStr_rt (e : Option Bytes) (rest : Bytes) (h : ∀ x, e = some x → ∀ b ∈ x, b ≠ 0) :
    gzOptStr e.isSome (encCStr e ++ rest) = some (e, rest) := by
  cases e with
  | none => simp [gzOptStr, encCStr]
  | some x => simp [gzOptStr, encCStr, List.append_assoc, takeCStr_append x rest (h x rfl)]

theorem optRaw2_rt (e : Option Bytes) (rest : Bytes) (h : ∀ x, e = some x → x.length = 2) :
    gzOptRaw2 e.isSome (encRaw e ++ rest) = some (e, rest) := by
  cases e with
  | none => simp [gzOptRaw2, encRaw]
  | some x => simp [gzOptRaw2, encRaw, takeN_append x rest 2 (h x rfl)]

theorem gz_roundtrip (h : GzFields) (ok : GzOk h) (rest : Bytes) :
    parseGzHeader (writeGzHeaderAsIs h ++ rest) = some (h.header, rest) := by
  obtain ⟨text, mtime, xfl, os, extra, name, comment, hcrc⟩ := h
  have hf := flg_asis text hcrc.isSome extra.isSome name.isSome comment.isSome
  simp only at hf
  obtain ⟨f7, f6, f5, f4, f3, f0⟩ := hf
  have hm := ok.mtime
  have hx := ok.xfl
  have ho := ok.os
  simp only at hm hx ho
  have t2 : ∀ (a b : UInt8) (r : Bytes), takeN 2 (a :: b :: r) = some ([a, b], r) := fun a b r => by simp [takeN]
  have t1 : ∀ (a : UInt8) (r : Bytes), takeN 1 (a :: r) = some ([a], r) := fun a r => by simp [takeN]
  have t4 : ∀ r : Bytes, takeN 4 (toLE 4 mtime ++ r) = some (toLE 4 mtime, r) := fun r => takeN_append _ _ _ (toLE_length _ _)
  have e1 := optExtra_rt extra
  have e2 := optStr_rt name
  have e3 := optStr_rt comment
  have e4 := optRaw2_rt hcrc
  have hmt : leNat (toLE 4 mtime) = mtime := by rw [leNat_toLE]; exact Nat.mod_eq_of_lt (by simpa using hm)
  have hxf : (UInt8.ofNat xfl).toNat = xfl := by simp [UInt8.toNat_ofNat']; omega
  have hos : (UInt8.ofNat os).toNat = os := by simp [UInt8.toNat_ofNat']; omega
  unfold parseGzHeader writeGzHeaderAsIs gzTail
  simp only [List.cons_append, List.nil_append, List.append_assoc]
  simp only [t2, t1, t4, Option.bind_eq_bind, Option.bind_some, ne_eq, not_true_eq_false, if_false, leNat, Nat.mul_zero, Nat.add_zero,
    f7, f6, f5, f4, f3, f0, e1 _ ok.extra, e2 _ ok.name, e3 _ ok.comment, e4 _ ok.hcrc, hmt, hxf, hos]
  rfl

/-! ### tar -/


theorem toOct_length (k n : Nat) : (toOct k n).length = k := by
  induction k with
  | zero => rfl
  | succ k ih => simp [toOct, ih]

theorem padNul_length (w : Nat) (s : Bytes) (h : s.length ≤ w) : (padNul w s).length = w := by
  simp [padNul]; omega

theorem octField_length (w n : Nat) (h : 0 < w) : (octField w n).length = w := by
  simp [octField, toOct_length]; omega

theorem toOct_digit (k n : Nat) : ∀ b ∈ toOct k n, 48 ≤ b.toNat ∧ b.toNat ≤ 55 := by
  induction k with
  | zero => simp [toOct]
  | succ k ih =>
    intro b hb
    simp only [toOct, List.mem_cons] at hb
    rcases hb with h | h
    · subst h
      have : n / 8 ^ k % 8 < 8 := Nat.mod_lt _ (by decide)
      simp [UInt8.toNat_ofNat']
      omega
    · exact ih b h

theorem octAcc_toOct (k n acc : Nat) : octAcc acc (toOct k n) = some (acc * 8 ^ k + n % 8 ^ k) := by
  induction k generalizing acc with
  | zero => simp [toOct, octAcc, Nat.mod_one]
  | succ k ih =>
    have hd : n / 8 ^ k % 8 < 8 := Nat.mod_lt _ (by decide)
    have hb : (UInt8.ofNat (48 + n / 8 ^ k % 8)).toNat = 48 + n / 8 ^ k % 8 := by
      simp [UInt8.toNat_ofNat']; omega
    simp only [toOct, octAcc, hb]
    rw [if_pos (by omega), ih]
    congr 1
    rw [Nat.mod_pow_succ, Nat.pow_succ]
    have : 48 + n / 8 ^ k % 8 - 48 = n / 8 ^ k % 8 := by omega
    rw [this, Nat.add_mul, Nat.mul_assoc, Nat.mul_comm 8 (8 ^ k)]
    rw [Nat.mul_comm (n / 8 ^ k % 8) (8 ^ k)]
    omega

theorem cstr_digits (ds r : Bytes) (h : ∀ b ∈ ds, b ≠ 0) : cstr (ds ++ 0 :: r) = ds := by
  induction ds with
  | nil => simp [cstr]
  | cons d ds ih =>
    have hd : d ≠ 0 := h d (by simp)
    have := ih (fun b hb => h b (by simp [hb]))
    simp only [cstr] at this ⊢
    simp [List.takeWhile_cons, hd, this]

theorem dropWhile_none {α} (p : α → Bool) (l : List α) (h : ∀ x, l.head? = some x → p x = false) : l.dropWhile p = l := by
  cases l with
  | nil => rfl
  | cons a l => simp [List.dropWhile_cons, h a rfl]

theorem trimWs_digits (ds : Bytes) (h : ∀ b ∈ ds, 48 ≤ b.toNat ∧ b.toNat ≤ 55) : trimWs ds = ds := by
  have nows : ∀ b ∈ ds, isWs b = false := by
    intro b hb
    have := h b hb
    simp only [isWs, Bool.or_eq_false_iff, Bool.and_eq_false_iff, beq_eq_false_iff_ne, ne_eq, decide_eq_false_iff_not]
    constructor
    · intro e; subst e; simp at this
    · right
      intro hle
      have : b.toNat ≤ 13 := by simpa using UInt8.le_iff_toNat_le.mp hle
      omega
  unfold trimWs
  rw [dropWhile_none _ ds (fun x hx => nows x (List.mem_of_mem_head? hx))]
  rw [dropWhile_none _ ds.reverse (fun x hx => nows x (by
    have := List.mem_of_mem_head? hx
    simpa using this))]
  simp

theorem parseOct_field (w n : Nat) (hw : 2 ≤ w) (hn : n < 8 ^ (w - 1)) (h64 : n < 2 ^ 64) : parseOct (cstr (octField w n)) = some n := by
  have hd := toOct_digit (w - 1) n
  have h0 : ∀ b ∈ toOct (w - 1) n, b ≠ 0 := by
    intro b hb e; subst e; have := hd _ hb; simp at this
  unfold octField
  rw [cstr_digits _ [] h0]
  unfold parseOct
  rw [trimWs_digits _ hd]
  have hne : (toOct (w - 1) n).isEmpty = false := by
    have := toOct_length (w - 1) n
    cases hh : toOct (w - 1) n with
    | nil => rw [hh] at this; simp at this; omega
    | cons a l => rfl
  simp only [hne, octAcc_toOct, Nat.zero_mul, Nat.zero_add, Nat.mod_eq_of_lt hn]
  simp [h64]

/-- a text field value: no cut byte (space, NUL) at either end -/
def Clean (s : Bytes) : Prop := (∀ x, s.head? = some x → isCut x = false) ∧ (∀ x, s.getLast? = some x → isCut x = false)

theorem dropWhile_zeros (k : Nat) (l : Bytes) : (List.replicate k (0 : UInt8) ++ l).dropWhile isCut = l.dropWhile isCut := by
  induction k with
  | zero => rfl
  | succ k ih => simp [List.replicate_succ, List.dropWhile_cons, isCut, ih]

theorem trimCut_padNul (w : Nat) (s : Bytes) (h : Clean s) : trimCut (padNul w s) = s := by
  unfold trimCut padNul
  cases s with
  | nil =>
    simp only [List.nil_append]
    have := dropWhile_zeros (w - ([] : Bytes).length) []
    simp only [List.append_nil, List.dropWhile_nil] at this
    rw [this]
    rfl
  | cons a s =>
    have h1 : ((a :: s) ++ List.replicate (w - (a :: s).length) 0).dropWhile isCut = (a :: s) ++ List.replicate (w - (a :: s).length) 0 := by
      simp [List.dropWhile_cons, h.1 a rfl]
    rw [h1]
    simp only [List.reverse_append, List.reverse_replicate]
    rw [dropWhile_zeros]
    rw [dropWhile_none _ _ (fun x hx => h.2 x (by rw [List.head?_reverse] at hx; exact hx))]
    simp

theorem trimCut_ustar : trimCut (padNul 6 ustar) = ustar := by decide

structure TarOk (m : TarMember) : Prop where
  name : m.name.length ≤ 100 ∧ Clean m.name
  linkname : m.linkname.length ≤ 100 ∧ Clean m.linkname
  uname : m.uname.length ≤ 32 ∧ Clean m.uname
  gname : m.gname.length ≤ 32 ∧ Clean m.gname
  pfx : m.pfx.length ≤ 155 ∧ Clean m.pfx
  mode : m.mode < 8 ^ 7
  uid : m.uid < 8 ^ 7
  gid : m.gid < 8 ^ 7
  size : if m.b256 then m.data.length < 2 ^ 63 else m.data.length < 8 ^ 11
  mtime : m.mtime < 8 ^ 11
  chksum : m.chksum < 8 ^ 7
  version : m.version < 8
  devmajor : m.devmajor < 8 ^ 7
  devminor : m.devminor < 8 ^ 7

theorem takeN_padNul (w : Nat) (s r : Bytes) (h : s.length ≤ w) : takeN w (padNul w s ++ r) = some (padNul w s, r) :=
  takeN_append _ _ _ (padNul_length w s h)
theorem takeN_octField (w n : Nat) (r : Bytes) (h : 0 < w) : takeN w (octField w n ++ r) = some (octField w n, r) :=
  takeN_append _ _ _ (octField_length w n h)

theorem toBE_length (w n : Nat) : (toBE w n).length = w := by
  induction w with
  | zero => rfl
  | succ w ih => simp [toBE, ih]

theorem beFold_toBE (w n acc : Nat) :
    (toBE w n).foldl (fun acc b => 256 * acc + b.toNat) acc = acc * 256 ^ w + n % 256 ^ w := by
  induction w generalizing acc with
  | zero => simp [toBE, Nat.mod_one]
  | succ w ih =>
    have hb : (UInt8.ofNat (n / 256 ^ w % 256)).toNat = n / 256 ^ w % 256 := by
      simp [UInt8.toNat_ofNat']
    simp only [toBE, List.foldl_cons, hb, ih]
    rw [Nat.mod_pow_succ, Nat.pow_succ, Nat.add_mul, Nat.mul_comm 256 acc, Nat.mul_assoc, Nat.mul_comm 256 (256 ^ w)]
    rw [Nat.mul_comm (n / 256 ^ w % 256) (256 ^ w)]
    omega

theorem beNat_toBE (w n : Nat) : beNat (toBE w n) = n % 256 ^ w := by
  unfold beNat
  rw [beFold_toBE]
  simp

theorem tarNum_oct (f : Bytes) (h : ∀ b, f.head? = some b → b.toNat < 128) : tarNum f = parseOct (cstr f) := by
  cases f with
  | nil => rfl
  | cons b r => simp [tarNum, h b rfl]

theorem octField_head (w n : Nat) (hw : 2 ≤ w) : ∀ b, (octField w n).head? = some b → b.toNat < 128 := by
  obtain ⟨k, rfl⟩ : ∃ k, w = k + 2 := ⟨w - 2, by omega⟩
  intro b hb
  have hd := toOct_digit (k + 1) n
  have e : octField (k + 2) n = UInt8.ofNat (48 + n / 8 ^ k % 8) :: (toOct k n ++ [0]) := rfl
  rw [e] at hb
  simp only [List.head?_cons, Option.some.injEq] at hb
  have := hd b (by rw [← hb]; simp [toOct])
  omega

theorem tarNum_field (w n : Nat) (hw : 2 ≤ w) (hn : n < 8 ^ (w - 1)) (h64 : n < 2 ^ 64) : tarNum (octField w n) = some n := by
  rw [tarNum_oct _ (octField_head w n hw), parseOct_field w n hw hn h64]

theorem b256Field_length (n : Nat) : (b256Field n).length = 12 := by simp [b256Field, toBE_length]

theorem tarNum_b256 (n : Nat) (h : n < 2 ^ 63) : tarNum (b256Field n) = some n := by
  have h8 : n / 256 ^ 8 = 0 := Nat.div_eq_of_lt (Nat.lt_of_lt_of_le h (by decide))
  have h9 : n / 256 ^ 9 = 0 := Nat.div_eq_of_lt (Nat.lt_of_lt_of_le h (by decide))
  have h10 : n / 256 ^ 10 = 0 := Nat.div_eq_of_lt (Nat.lt_of_lt_of_le h (by decide))
  have e : toBE 11 n = [0, 0, 0] ++ toBE 8 n := by
    simp [toBE, h8, h9, h10]
  have hl : (toBE 8 n).length = 8 := toBE_length 8 n
  have hv : beNat (toBE 8 n) = n := by
    rw [beNat_toBE]; exact Nat.mod_eq_of_lt (Nat.lt_of_lt_of_le h (by decide))
  simp only [tarNum, b256Field, e]
  simp [hl, hv, h]

theorem tarSizeField_length (m : TarMember) : (tarSizeField m).length = 12 := by
  unfold tarSizeField
  split
  · exact b256Field_length _
  · exact octField_length 12 _ (by decide)

theorem tarNum_sizeField (m : TarMember) (h : if m.b256 then m.data.length < 2 ^ 63 else m.data.length < 8 ^ 11) :
    tarNum (tarSizeField m) = some m.data.length := by
  unfold tarSizeField
  split <;> rename_i hb
  · simp only [hb, if_true] at h; exact tarNum_b256 _ h
  · simp only [hb] at h
    exact tarNum_field 12 _ (by decide) h (Nat.lt_of_lt_of_le h (by decide))

theorem blockPad_aligned (pos : Nat) (h : pos % 512 = 0) : blockPad (pos + 500) = 12 := by
  unfold blockPad; omega

theorem blockPad_data (pos size : Nat) (h : pos % 512 = 0) : blockPad (pos + 500 + 12 + size) = blockPad size := by
  unfold blockPad; omega

theorem tar_entry_rt (m : TarMember) (ok : TarOk m) (pos : Nat) (hpos : pos % 512 = 0) (rest : Bytes) :
    parseTarEntry pos (writeTarMember m ++ rest) = some (m.entry, rest) := by
  obtain ⟨hname, hlink, hun, hgn, hpf, hmode, huid, hgid, hsize, hmtime, hchk, hver, hmaj, hmin⟩ := ok
  have p8 : (0 : Nat) < 8 := by decide
  have p12 : (0 : Nat) < 12 := by decide
  have p2 : (0 : Nat) < 2 := by decide
  have t1 : ∀ (a : UInt8) (r : Bytes), takeN 1 (a :: r) = some ([a], r) := fun a r => by simp [takeN]
  have t12 : ∀ r : Bytes, takeN 12 (List.replicate 12 (0 : UInt8) ++ r) = some (List.replicate 12 0, r) :=
    fun r => takeN_append _ _ _ (by simp)
  have tdata : ∀ r : Bytes, takeN m.data.length (m.data ++ r) = some (m.data, r) := fun r => takeN_append _ _ _ rfl
  have tpad : ∀ r : Bytes, takeN (blockPad m.data.length) (List.replicate (blockPad m.data.length) (0 : UInt8) ++ r) = some (List.replicate (blockPad m.data.length) 0, r) :=
    fun r => takeN_append _ _ _ (by simp)
  have hu6 : ustar.length ≤ 6 := by decide
  have osz : tarNum (tarSizeField m) = some m.data.length := tarNum_sizeField m hsize
  have tsz : ∀ r : Bytes, takeN 12 (tarSizeField m ++ r) = some (tarSizeField m, r) := fun r => takeN_append _ _ _ (tarSizeField_length m)
  unfold parseTarEntry writeTarMember writeTarHeader
  simp only [List.append_assoc, List.cons_append, List.nil_append,
    takeN_padNul _ _ _ hname.1, takeN_padNul _ _ _ hlink.1, takeN_padNul _ _ _ hun.1, takeN_padNul _ _ _ hgn.1,
    takeN_padNul _ _ _ hpf.1, takeN_padNul _ _ _ hu6, takeN_octField _ _ _ p8, takeN_octField _ _ _ p12, takeN_octField _ _ _ p2,
    t1, tsz, Option.bind_eq_bind, Option.bind_some, osz, trimCut_ustar, ne_eq, not_true_eq_false, if_false,
    blockPad_aligned pos hpos, t12, tdata, blockPad_data pos _ hpos, tpad]
  have b64 : ∀ n, n < 8 ^ 7 → n < 2 ^ 64 := fun n h => Nat.lt_of_lt_of_le h (by decide)
  have c64 : ∀ n, n < 8 ^ 11 → n < 2 ^ 64 := fun n h => Nat.lt_of_lt_of_le h (by decide)
  rw [tarNum_field 8 m.mode (by decide) hmode (b64 _ hmode), tarNum_field 8 m.uid (by decide) huid (b64 _ huid),
    tarNum_field 8 m.gid (by decide) hgid (b64 _ hgid), tarNum_field 12 m.mtime (by decide) hmtime (c64 _ hmtime),
    parseOct_field 8 m.chksum (by decide) hchk (b64 _ hchk), parseOct_field 2 m.version (by decide) hver (Nat.lt_of_lt_of_le hver (by decide)),
    tarNum_field 8 m.devmajor (by decide) hmaj (b64 _ hmaj), tarNum_field 8 m.devminor (by decide) hmin (b64 _ hmin),
    trimCut_padNul _ _ hname.2, trimCut_padNul _ _ hlink.2, trimCut_padNul _ _ hun.2, trimCut_padNul _ _ hgn.2, trimCut_padNul _ _ hpf.2]
  rfl

theorem writeTarMember_length (m : TarMember) (ok : TarOk m) : (writeTarMember m).length = 512 + m.data.length + blockPad m.data.length := by
  obtain ⟨hname, hlink, hun, hgn, hpf, _⟩ := ok
  simp only [writeTarMember, writeTarHeader, List.length_append, List.length_replicate, List.length_cons, List.length_nil,
    padNul_length _ _ hname.1, padNul_length _ _ hlink.1, padNul_length _ _ hun.1, padNul_length _ _ hgn.1, padNul_length _ _ hpf.1,
    padNul_length 6 ustar (by decide), octField_length 8 _ (by decide), octField_length 12 _ (by decide), octField_length 2 _ (by decide),
    tarSizeField_length]

/-- a member's first 1024 bytes are not all zero (the magic is there): it is never taken for the end marker -/
theorem member_not_zero (m : TarMember) (ok : TarOk m) (rest : Bytes) : allZero ((writeTarMember m ++ rest).take 1024) = false := by
  obtain ⟨hname, hlink, hun, hgn, hpf, _⟩ := ok
  have hmem : (0x75 : UInt8) ∈ (writeTarMember m ++ rest).take 1024 := by
    have e : writeTarMember m ++ rest =
        (padNul 100 m.name ++ octField 8 m.mode ++ octField 8 m.uid ++ octField 8 m.gid ++ tarSizeField m ++
          octField 12 m.mtime ++ octField 8 m.chksum ++ [m.typeflag] ++ padNul 100 m.linkname) ++ (0x75 :: ([0x73, 0x74, 0x61, 0x72, 0] ++
          octField 2 m.version ++ padNul 32 m.uname ++ padNul 32 m.gname ++ octField 8 m.devmajor ++ octField 8 m.devminor ++
          padNul 155 m.pfx ++ List.replicate 12 0 ++ m.data ++ List.replicate (blockPad m.data.length) 0 ++ rest)) := by
      simp [writeTarMember, writeTarHeader, padNul, ustar, List.append_assoc]
    rw [e, List.take_append]
    apply List.mem_append_right
    have hA : (padNul 100 m.name ++ octField 8 m.mode ++ octField 8 m.uid ++ octField 8 m.gid ++ tarSizeField m ++
          octField 12 m.mtime ++ octField 8 m.chksum ++ [m.typeflag] ++ padNul 100 m.linkname).length = 257 := by
      simp only [List.length_append, List.length_cons, List.length_nil, padNul_length _ _ hname.1, padNul_length _ _ hlink.1,
        octField_length 8 _ (by decide), octField_length 12 _ (by decide), tarSizeField_length]
    rw [hA]
    simp
  unfold allZero
  rw [List.all_eq_false]
  exact ⟨0x75, hmem, by decide⟩

theorem allZero_replicate (k : Nat) : allZero (List.replicate k (0 : UInt8)) = true := by
  induction k with
  | zero => rfl
  | succ k ih => simp only [allZero, List.replicate_succ, List.all_cons] at ih ⊢; simp [ih]

theorem end_marker (k : Nat) (hk : k = 1024) :
    ((List.replicate k (0 : UInt8)).length ≥ 1024 ∧ allZero ((List.replicate k (0 : UInt8)).take 1024) = true) ∧
    zeroBlocks ((List.replicate k (0 : UInt8)).length / 512) ((List.replicate k (0 : UInt8)).drop 1024) = 0 := by
  refine ⟨⟨by rw [List.length_replicate]; omega, ?_⟩, ?_⟩
  · rw [List.take_replicate]; exact allZero_replicate _
  · rw [List.drop_replicate, List.length_replicate]
    have e1 : k / 512 = 2 := by omega
    have e2 : k - 1024 = 0 := by omega
    rw [e1, e2]
    rfl

theorem blockPad_total (n : Nat) : (512 + n + blockPad n) % 512 = 0 := by unfold blockPad; omega

theorem tar_loop_rt (ms : List TarMember) (hok : ∀ m ∈ ms, TarOk m) :
    ∀ (fuel pos : Nat) (acc : List TarEntry), ms ≠ [] → ms.length ≤ fuel → pos % 512 = 0 →
      parseTarLoop fuel pos (ms.flatMap writeTarMember ++ List.replicate 1024 0) acc =
        ⟨acc.reverse ++ ms.map TarMember.entry, some 1024, false⟩ := by
  induction ms with
  | nil => intro _ _ _ h; exact absurd rfl h
  | cons m ms ih =>
    intro fuel pos acc _ hfuel hpos
    have okm := hok m (by simp)
    cases fuel with
    | zero => simp at hfuel
    | succ fuel =>
      have hlen := writeTarMember_length m okm
      have hne : ((m :: ms).flatMap writeTarMember ++ List.replicate 1024 0).isEmpty = false := by
        simp only [List.flatMap_cons, List.append_assoc]
        cases h : writeTarMember m with
        | nil => rw [h] at hlen; simp at hlen; omega
        | cons a l => rfl
      rw [parseTarLoop]
      simp only [hne, Bool.false_eq_true, if_false]
      simp only [List.flatMap_cons, List.append_assoc]
      rw [tar_entry_rt m okm pos hpos]
      simp only
      cases ms with
      | nil =>
        obtain ⟨h1, h2⟩ := end_marker 1024 rfl
        simp only [List.flatMap_nil, List.nil_append]
        rw [if_pos h1, h2]
        simp
      | cons m2 ms2 =>
        have hnz := member_not_zero m2 (hok m2 (by simp)) (ms2.flatMap writeTarMember ++ List.replicate 1024 0)
        simp only [List.flatMap_cons, List.append_assoc] at hnz ⊢
        simp only [hnz, Bool.false_eq_true, and_false, if_false]
        have := ih (fun x hx => hok x (by simp [hx])) fuel
          (pos + ((writeTarMember m ++ (writeTarMember m2 ++ (ms2.flatMap writeTarMember ++ List.replicate 1024 0))).length -
            (writeTarMember m2 ++ (ms2.flatMap writeTarMember ++ List.replicate 1024 0)).length)) (m.entry :: acc) (by simp)
          (by simp at hfuel ⊢; omega)
          (by
            have := blockPad_total m.data.length
            simp only [List.length_append, hlen]
            omega)
        simp only [List.flatMap_cons, List.append_assoc] at this
        rw [this]
        simp

theorem tar_roundtrip (ms : List TarMember) (hne : ms ≠ []) (hok : ∀ m ∈ ms, TarOk m) :
    parseTar (writeTar ms) = ⟨ms.map TarMember.entry, some 1024, false⟩ := by
  unfold parseTar writeTar
  have hfuel : ms.length ≤ (ms.flatMap writeTarMember ++ List.replicate 1024 0).length / 500 + 1 := by
    have : ∀ l : List TarMember, (∀ m ∈ l, TarOk m) → 512 * l.length ≤ (l.flatMap writeTarMember).length := by
      intro l
      induction l with
      | nil => intro _; simp
      | cons a l ih =>
        intro h
        have := ih (fun x hx => h x (by simp [hx]))
        have hl := writeTarMember_length a (h a (by simp))
        simp only [List.flatMap_cons, List.length_append, List.length_cons, hl]
        omega
    have := this ms hok
    simp only [List.length_append, List.length_replicate]
    omega
  rw [tar_loop_rt ms hok _ 0 [] hne hfuel rfl]
  cases ms with
  | nil => exact absurd rfl hne
  | cons m ms => simp

/-! ### png -/


theorem assert_valid (v : Nat) (h : v < 2 ^ 32) : uintAssertBytes v (toBE 4 v) = some "valid" := by
  unfold uintAssertBytes
  have : beNat (toBE 4 v) = v := by rw [beNat_toBE]; exact Nat.mod_eq_of_lt (by simpa using h)
  simp [toBE_length, this]

structure PngOk (typ data : Bytes) : Prop where
  typ4 : typ.length = 4
  len : data.length < 2 ^ 32
  ihdr : typ = tIHDR → 13 ≤ data.length

theorem parseIHDR_some (d : Bytes) (h : 13 ≤ d.length) : (parseIHDR d).isSome = true := by
  unfold parseIHDR
  have t : ∀ (n : Nat) (l : Bytes), n ≤ l.length → takeN n l = some (l.take n, l.drop n) := by
    intro n l hl; simp [takeN]; omega
  rw [t 4 d (by omega)]
  simp only [Option.bind_eq_bind, Option.bind_some]
  rw [t 4 _ (by simp; omega)]
  simp only [Option.bind_some]
  rw [t 1 _ (by simp; omega)]
  simp only [Option.bind_some]
  rw [t 1 _ (by simp; omega)]
  simp only [Option.bind_some]
  rw [t 1 _ (by simp; omega)]
  simp only [Option.bind_some]
  rw [t 1 _ (by simp; omega)]
  simp only [Option.bind_some]
  rw [t 1 _ (by simp; omega)]
  simp

theorem png_chunk_rt (typ data : Bytes) (ok : PngOk typ data) (rest : Bytes) :
    parsePngChunk (writePngChunk typ data ++ rest) = some (pngChunkOf typ data, rest) := by
  obtain ⟨h4, hl, hi⟩ := ok
  have hc : (crc32 (typ ++ data)).toNat < 2 ^ 32 := (crc32 (typ ++ data)).isLt
  have e1 : beNat (toBE 4 data.length) = data.length := by rw [beNat_toBE]; exact Nat.mod_eq_of_lt (by simpa using hl)
  have e2 : beNat (toBE 4 (crc32 (typ ++ data)).toNat) = (crc32 (typ ++ data)).toNat := by
    rw [beNat_toBE]; exact Nat.mod_eq_of_lt (by simpa using hc)
  unfold parsePngChunk writePngChunk
  simp only [List.append_assoc]
  rw [takeN_append _ _ 4 (toBE_length _ _)]
  simp only [Option.bind_eq_bind, Option.bind_some]
  rw [takeN_append _ _ 4 h4]
  simp only [Option.bind_some, e1]
  rw [takeN_append _ _ _ rfl]
  simp only [Option.bind_some]
  have hih : pngIhdr typ data = some (if typ = tIHDR then parseIHDR data else none) := by
    unfold pngIhdr
    by_cases ht : typ = tIHDR
    · have := parseIHDR_some data (hi ht)
      simp only [ht, if_true]
      cases h : parseIHDR data with
      | none => rw [h] at this; cases this
      | some v => rfl
    · simp [ht]
  rw [hih]
  simp only [Option.bind_some]
  rw [takeN_append _ _ 4 (toBE_length _ _)]
  simp only [Option.bind_some, e2, assert_valid _ hc]
  match typ, h4 with
  | [a, b, c, d], _ => simp [pngChunkOf]

theorem writePngChunk_length (typ data : Bytes) (h4 : typ.length = 4) : (writePngChunk typ data).length = 12 + data.length := by
  simp only [writePngChunk, List.length_append, toBE_length, h4]; omega

theorem writePngChunk_nonempty (typ data rest : Bytes) : (writePngChunk typ data ++ rest).isEmpty = false := by
  have : (writePngChunk typ data).length ≥ 4 := by
    simp only [writePngChunk, List.length_append, toBE_length]; omega
  cases h : writePngChunk typ data with
  | nil => rw [h] at this; simp at this
  | cons a l => rfl

def wr (c : Bytes × Bytes) : Bytes := writePngChunk c.1 c.2
def ch (c : Bytes × Bytes) : PngChunk := pngChunkOf c.1 c.2

theorem pngChunkOf_typ (t d : Bytes) : (pngChunkOf t d).typ = t := rfl

theorem png_loop_rt (cs : List (Bytes × Bytes)) (hok : ∀ c ∈ cs, PngOk c.1 c.2) (hnoend : ∀ c ∈ cs, c.1 ≠ tIEND)
    (d rest : Bytes) (hd : PngOk tIEND d) :
    ∀ (fuel : Nat) (acc : List PngChunk), cs.length < fuel →
      parsePngLoop fuel (cs.flatMap wr ++ (writePngChunk tIEND d ++ rest)) acc =
        ⟨acc.reverse ++ cs.map ch ++ [pngChunkOf tIEND d], false⟩ := by
  induction cs with
  | nil =>
    intro fuel acc hf
    cases fuel with
    | zero => simp at hf
    | succ fuel =>
      simp only [List.flatMap_nil, List.nil_append, List.map_nil, List.append_nil]
      rw [parsePngLoop]
      simp only [writePngChunk_nonempty, Bool.false_eq_true, if_false, png_chunk_rt tIEND d hd rest, pngChunkOf_typ, if_true]
      simp
  | cons c cs ih =>
    intro fuel acc hf
    cases fuel with
    | zero => simp at hf
    | succ fuel =>
      have okc := hok c (by simp)
      have ne := hnoend c (by simp)
      simp only [List.flatMap_cons, List.append_assoc]
      show parsePngLoop (fuel + 1) (writePngChunk c.1 c.2 ++ _) acc = _
      rw [parsePngLoop]
      simp only [writePngChunk_nonempty, Bool.false_eq_true, if_false, png_chunk_rt c.1 c.2 okc, pngChunkOf_typ, ne]
      have := ih (fun x hx => hok x (by simp [hx])) (fun x hx => hnoend x (by simp [hx])) fuel (pngChunkOf c.1 c.2 :: acc) (by simp at hf; omega)
      rw [this]
      simp [ch]

theorem flatMap_wr_length (cs : List (Bytes × Bytes)) (hok : ∀ c ∈ cs, PngOk c.1 c.2) : 12 * cs.length ≤ (cs.flatMap wr).length := by
  induction cs with
  | nil => simp
  | cons c cs ih =>
    have := ih (fun x hx => hok x (by simp [hx]))
    have hl := writePngChunk_length c.1 c.2 (hok c (by simp)).typ4
    simp only [List.flatMap_cons, List.length_append, List.length_cons, wr, hl] at this ⊢
    omega

theorem png_roundtrip (cs : List (Bytes × Bytes)) (hok : ∀ c ∈ cs, PngOk c.1 c.2) (hnoend : ∀ c ∈ cs, c.1 ≠ tIEND)
    (d rest : Bytes) (hd : PngOk tIEND d) :
    parsePng (writePng (cs ++ [(tIEND, d)]) ++ rest) = some ⟨cs.map ch ++ [pngChunkOf tIEND d], false⟩ := by
  unfold parsePng writePng
  simp only [List.append_assoc]
  rw [takeN_append pngSig _ 8 (by decide)]
  simp only [if_true]
  have e : List.flatMap (fun c => writePngChunk c.1 c.2) (cs ++ [(tIEND, d)]) ++ rest = cs.flatMap wr ++ (writePngChunk tIEND d ++ rest) := by
    simp only [List.flatMap_append, List.flatMap_cons, List.flatMap_nil, List.append_nil, List.append_assoc]
    rfl
  rw [e]
  have hl := flatMap_wr_length cs hok
  rw [png_loop_rt cs hok hnoend d rest hd _ [] (by
    simp only [List.length_append]
    have : pngSig.length = 8 := by decide
    omega)]
  simp

/-! ### gzip body -/

theorem gz_body_rt (inflate : Bytes → Option (Nat × Bytes)) (z data rest : Bytes)
    (hinf : inflate (z ++ (writeGzTrailer data ++ rest)) = some (z.length, data)) :
    parseGzBody inflate 8 (z ++ (writeGzTrailer data ++ rest)) =
      some ({ clen := z.length, crc := (crc32 data).toNat, crcDesc := "valid", isize := data.length % 2 ^ 32, data := data }, rest) := by
  have hc : (crc32 data).toNat < 2 ^ 32 := (crc32 data).isLt
  have e1 : leNat (toLE 4 (crc32 data).toNat) = (crc32 data).toNat := by
    rw [leNat_toLE]; exact Nat.mod_eq_of_lt (by simpa using hc)
  have e2 : leNat (toLE 4 (data.length % 2 ^ 32)) = data.length % 2 ^ 32 := by
    rw [leNat_toLE]; exact Nat.mod_eq_of_lt (by simpa using Nat.mod_lt data.length (by decide : 0 < 2 ^ 32))
  unfold parseGzBody
  unfold writeGzTrailer at *
  simp only [List.append_assoc] at hinf
  simp only [ne_eq, not_true_eq_false, if_false, Option.bind_eq_bind, List.append_assoc]
  rw [hinf]
  simp only [Option.bind_some]
  rw [takeN_append z _ _ rfl]
  simp only [Option.bind_some]
  rw [takeN_append _ _ 4 (toLE_length _ _)]
  simp only [Option.bind_some, e1, assert_valid _ hc]
  rw [takeN_append _ _ 4 (toLE_length _ _)]
  simp [e2]

end Proofs.C15
