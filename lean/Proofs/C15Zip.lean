import FqModel.Zip
import Proofs.C15Struct
/-! C15 helper lemmas: ZIP writer (stored members, no data descriptor) and parser are inverse. -/
namespace Proofs.C15
open FqModel FqModel.Container

def offs (fs : List (Nat × Nat)) (i : Nat) : Nat := ((fs.take i).map (·.1)).sum

theorem encLE_length (fs : List (Nat × Nat)) : (encLE fs).length = (fs.map (·.1)).sum := by
  induction fs with
  | nil => rfl
  | cons f fs ih => simp [encLE, toLE_length] at ih ⊢

/-- field `i` of a header is where its offset says -/
theorem encLE_slice (fs : List (Nat × Nat)) (i : Nat) (h : i < fs.length) (rest : Bytes) :
    ((encLE fs ++ rest).drop (offs fs i)).take fs[i].1 = toLE fs[i].1 fs[i].2 := by
  induction fs generalizing i with
  | nil => simp at h
  | cons f fs ih =>
    cases i with
    | zero =>
      simp only [offs, List.take_zero, List.map_nil, List.sum_nil, List.drop_zero, List.getElem_cons_zero, encLE, List.flatMap_cons,
        List.append_assoc]
      rw [List.take_append_of_le_length (by simp [toLE_length])]
      rw [List.take_of_length_le (by simp [toLE_length])]
    | succ i =>
      have hi : i < fs.length := by simpa using h
      have := ih i hi
      simp only [offs, List.take_succ_cons, List.map_cons, List.sum_cons, List.getElem_cons_succ, encLE, List.flatMap_cons, List.append_assoc] at this ⊢
      rw [List.drop_append]
      simp only [toLE_length]
      have e : f.1 + ((fs.take i).map (·.1)).sum - f.1 = ((fs.take i).map (·.1)).sum := by omega
      rw [List.drop_eq_nil_of_le (by simp [toLE_length]), e, List.nil_append]
      exact this

/-- the value read back from field `i` -/
theorem field_value (fs : List (Nat × Nat)) (i : Nat) (h : i < fs.length) (rest : Bytes) (o n : Nat)
    (ho : o = offs fs i) (hn : n = fs[i].1) (hv : fs[i].2 < 256 ^ fs[i].1) :
    leNat (((encLE fs ++ rest).drop o).take n) = fs[i].2 := by
  subst ho hn
  rw [encLE_slice fs i h rest, leNat_toLE]
  exact Nat.mod_eq_of_lt hv

theorem field_value0 (fs : List (Nat × Nat)) (i : Nat) (h : i < fs.length) (o n : Nat)
    (ho : o = offs fs i) (hn : n = fs[i].1) (hv : fs[i].2 < 256 ^ fs[i].1) :
    leNat (((encLE fs).drop o).take n) = fs[i].2 := by
  have := field_value fs i h [] o n ho hn hv
  simpa using this

structure MemberOk (m : ZipMember) : Prop where
  name : m.name.length < 2 ^ 16
  comment : m.comment.length < 2 ^ 16
  data : m.data.length < 2 ^ 32
  ftime : m.ftime < 2 ^ 16
  fdate : m.fdate < 2 ^ 16
  ext : m.ext < 2 ^ 32

theorem flag1_lt (b : Bool) : zipFlag1 b < 256 := by cases b <;> decide
theorem flag1_bit (b : Bool) : (zipFlag1 b).testBit 3 = b := by cases b <;> decide

theorem cd_rt (m : ZipMember) (ok : MemberOk m) (off : Nat) (hoff : off < 2 ^ 32) (rest : Bytes) :
    zipCD (writeZipCD m off ++ rest) = .ok (m.cd off, rest) := by
  obtain ⟨hn, hc, hd, hft, hfd, hext⟩ := ok
  have hcrc : (crc32 m.data).toNat < 2 ^ 32 := (crc32 m.data).isLt
  unfold zipCD writeZipCD
  simp only [List.append_assoc]
  generalize hfs : [(4, 0x02014b50), (2, 20), (2, 20), (1, 0), (1, zipFlag1 m.lang), (2, 0), (2, m.ftime), (2, m.fdate),
         (4, (crc32 m.data).toNat), (4, m.data.length), (4, m.data.length), (2, m.name.length), (2, 0), (2, m.comment.length),
         (2, 0), (2, 0), (4, m.ext), (4, off)] = fs
  have hlen : (encLE fs).length = 46 := by rw [encLE_length, ← hfs]; simp
  rw [takeN_append (encLE fs) _ 46 hlen]
  simp only
  have fl := flag1_lt m.lang
  have e4 : toLE 4 0x02014b50 = sigCD := by decide
  have sig : (encLE fs).take 4 = sigCD := by
    have := encLE_slice fs 0 (by rw [← hfs]; simp) []
    subst hfs
    simpa [offs, e4] using this
  have f8 : leNat (((encLE fs).drop 8).take 1) = 0 := by
    subst hfs
    exact field_value0 _ 3 (by simp) 8 1 (by simp [offs]) (by simp) (by simp)
  have f9 : leNat (((encLE fs).drop 9).take 1) = zipFlag1 m.lang := by
    subst hfs
    exact field_value0 _ 4 (by simp) 9 1 (by simp [offs]) (by simp) (by simp <;> omega)
  have f10 : leNat (((encLE fs).drop 10).take 2) = 0 := by
    subst hfs
    exact field_value0 _ 5 (by simp) 10 2 (by simp [offs]) (by simp) (by simp)
  have f12 : leNat (((encLE fs).drop 12).take 2) = m.ftime := by
    subst hfs
    exact field_value0 _ 6 (by simp) 12 2 (by simp [offs]) (by simp) (by simp <;> omega)
  have f14 : leNat (((encLE fs).drop 14).take 2) = m.fdate := by
    subst hfs
    exact field_value0 _ 7 (by simp) 14 2 (by simp [offs]) (by simp) (by simp <;> omega)
  have f16 : leNat (((encLE fs).drop 16).take 4) = (crc32 m.data).toNat := by
    subst hfs
    exact field_value0 _ 8 (by simp) 16 4 (by simp [offs]) (by simp) (by simp <;> omega)
  have f20 : leNat (((encLE fs).drop 20).take 4) = m.data.length := by
    subst hfs
    exact field_value0 _ 9 (by simp) 20 4 (by simp [offs]) (by simp) (by simp <;> omega)
  have f24 : leNat (((encLE fs).drop 24).take 4) = m.data.length := by
    subst hfs
    exact field_value0 _ 10 (by simp) 24 4 (by simp [offs]) (by simp) (by simp <;> omega)
  have f28 : leNat (((encLE fs).drop 28).take 2) = m.name.length := by
    subst hfs
    exact field_value0 _ 11 (by simp) 28 2 (by simp [offs]) (by simp) (by simp <;> omega)
  have f30 : leNat (((encLE fs).drop 30).take 2) = 0 := by
    subst hfs
    exact field_value0 _ 12 (by simp) 30 2 (by simp [offs]) (by simp) (by simp)
  have f32 : leNat (((encLE fs).drop 32).take 2) = m.comment.length := by
    subst hfs
    exact field_value0 _ 13 (by simp) 32 2 (by simp [offs]) (by simp) (by simp <;> omega)
  have f34 : leNat (((encLE fs).drop 34).take 2) = 0 := by
    subst hfs
    exact field_value0 _ 14 (by simp) 34 2 (by simp [offs]) (by simp) (by simp)
  have f38 : leNat (((encLE fs).drop 38).take 4) = m.ext := by
    subst hfs
    exact field_value0 _ 16 (by simp) 38 4 (by simp [offs]) (by simp) (by simp <;> omega)
  have f42 : leNat (((encLE fs).drop 42).take 4) = off := by
    subst hfs
    exact field_value0 _ 17 (by simp) 42 4 (by simp [offs]) (by simp) (by simp <;> omega)
  simp only [sig, ne_eq, not_true_eq_false, if_false, f8, f9, f10, f12, f14, f16, f20, f24, f28, f30, f32, f34, f38, f42]
  rw [takeN_append m.name _ _ rfl]
  simp only
  have t0 : ∀ r : Bytes, takeN 0 r = some ([], r) := fun r => by simp [takeN]
  rw [t0]
  simp only [List.length_nil, zipExtras, List.isEmpty_nil, if_true]
  rw [takeN_append m.comment _ _ rfl]
  simp only [flag1_bit, ZipMember.cd]
  rfl

theorem local_rt (inflate : Nat → Bytes → Option (Nat × Bytes)) (m : ZipMember) (ok : MemberOk m) (file : Bytes) (off : Nat) (rest : Bytes)
    (hoff : off ≤ file.length) (hfile : file.drop off = writeZipLocal m ++ rest) :
    zipLocal inflate file off = .ok m.local := by
  obtain ⟨hn, hc, hd, hft, hfd, hext⟩ := ok
  have hcrc : (crc32 m.data).toNat < 2 ^ 32 := (crc32 m.data).isLt
  have fl := flag1_lt m.lang
  unfold zipLocal zipBody
  rw [hfile]
  unfold writeZipLocal localHdr
  simp only [List.append_assoc, Nat.not_lt.mpr hoff, if_false]
  generalize hfs : [(4, 0x04034b50), (2, 20), (1, if false = true then 8 else 0), (1, zipFlag1 m.lang), (2, 0), (2, m.ftime), (2, m.fdate),
         (4, (crc32 m.data).toNat), (4, m.data.length), (4, m.data.length), (2, m.name.length), (2, 0)] = fs
  have hlen : (encLE fs).length = 30 := by rw [encLE_length, ← hfs]; simp
  rw [takeN_append (encLE fs) _ 30 hlen]
  simp only
  have e4 : toLE 4 0x04034b50 = sigLocal := by decide
  have sig : (encLE fs).take 4 = sigLocal := by
    have := encLE_slice fs 0 (by rw [← hfs]; simp) []
    subst hfs
    simpa [offs, e4] using this
  have f6 : leNat (((encLE fs).drop 6).take 1) = 0 := by
    subst hfs
    exact field_value0 _ 2 (by simp) 6 1 (by simp [offs]) (by simp) (by simp <;> omega)
  have f7 : leNat (((encLE fs).drop 7).take 1) = zipFlag1 m.lang := by
    subst hfs
    exact field_value0 _ 3 (by simp) 7 1 (by simp [offs]) (by simp) (by simp <;> omega)
  have f8 : leNat (((encLE fs).drop 8).take 2) = 0 := by
    subst hfs
    exact field_value0 _ 4 (by simp) 8 2 (by simp [offs]) (by simp) (by simp <;> omega)
  have f10 : leNat (((encLE fs).drop 10).take 2) = m.ftime := by
    subst hfs
    exact field_value0 _ 5 (by simp) 10 2 (by simp [offs]) (by simp) (by simp <;> omega)
  have f12 : leNat (((encLE fs).drop 12).take 2) = m.fdate := by
    subst hfs
    exact field_value0 _ 6 (by simp) 12 2 (by simp [offs]) (by simp) (by simp <;> omega)
  have f14 : leNat (((encLE fs).drop 14).take 4) = (crc32 m.data).toNat := by
    subst hfs
    exact field_value0 _ 7 (by simp) 14 4 (by simp [offs]) (by simp) (by simp <;> omega)
  have f18 : leNat (((encLE fs).drop 18).take 4) = m.data.length := by
    subst hfs
    exact field_value0 _ 8 (by simp) 18 4 (by simp [offs]) (by simp) (by simp <;> omega)
  have f22 : leNat (((encLE fs).drop 22).take 4) = m.data.length := by
    subst hfs
    exact field_value0 _ 9 (by simp) 22 4 (by simp [offs]) (by simp) (by simp <;> omega)
  have f26 : leNat (((encLE fs).drop 26).take 2) = m.name.length := by
    subst hfs
    exact field_value0 _ 10 (by simp) 26 2 (by simp [offs]) (by simp) (by simp <;> omega)
  have f28 : leNat (((encLE fs).drop 28).take 2) = 0 := by
    subst hfs
    exact field_value0 _ 11 (by simp) 28 2 (by simp [offs]) (by simp) (by simp <;> omega)
  simp only [sig, ne_eq, not_true_eq_false, if_false, f6, f7, f8, f10, f12, f14, f18, f22, f26, f28]
  rw [takeN_append m.name _ _ rfl]
  simp only
  have t0 : ∀ r : Bytes, takeN 0 r = some ([], r) := fun r => by simp [takeN]
  rw [t0]
  simp only [List.length_nil, zipExtras, List.isEmpty_nil, if_true]
  rw [takeN_append m.data _ _ rfl]
  simp only [Option.map_some, flag1_bit, ZipMember.local]
  rfl

theorem writeZipCD_length (m : ZipMember) (off : Nat) : (writeZipCD m off).length = 46 + m.name.length + m.comment.length := by
  simp [writeZipCD, encLE_length]; omega

theorem writeZipLocal_length (m : ZipMember) : (writeZipLocal m).length = 30 + m.name.length + m.data.length := by
  simp [writeZipLocal, localHdr, encLE_length]; omega

def cdBytes (ps : List (ZipMember × Nat)) : Bytes := ps.flatMap (fun p => writeZipCD p.1 p.2)

theorem cds_rt (ps : List (ZipMember × Nat)) (hok : ∀ p ∈ ps, MemberOk p.1 ∧ p.2 < 2 ^ 32) :
    ∀ fuel, ps.length < fuel → zipCDs fuel (cdBytes ps) = .ok (ps.map (fun p => p.1.cd p.2)) := by
  induction ps with
  | nil =>
    intro fuel hf
    cases fuel with
    | zero => simp at hf
    | succ fuel => simp [zipCDs, cdBytes]
  | cons p ps ih =>
    intro fuel hf
    cases fuel with
    | zero => simp at hf
    | succ fuel =>
      have okp := hok p (by simp)
      have hne : (cdBytes (p :: ps)).isEmpty = false := by
        have := writeZipCD_length p.1 p.2
        simp only [cdBytes, List.flatMap_cons]
        cases h : writeZipCD p.1 p.2 with
        | nil => rw [h] at this; simp at this; omega
        | cons a l => rfl
      rw [zipCDs]
      simp only [hne, Bool.false_eq_true, if_false]
      simp only [cdBytes, List.flatMap_cons]
      rw [cd_rt p.1 okp.1 p.2 okp.2]
      simp only
      have := ih (fun x hx => hok x (by simp [hx])) fuel (by simp at hf; omega)
      simp only [cdBytes] at this
      rw [this]
      simp

theorem locals_rt (inflate : Nat → Bytes → Option (Nat × Bytes)) (ms : List ZipMember) (hok : ∀ m ∈ ms, MemberOk m) :
    ∀ (pre tail : Bytes) (file : Bytes), file = pre ++ (zipLocalsBytes ms ++ tail) →
      zipLocals inflate file (zipOffsets pre.length ms) = .ok (ms.map ZipMember.local) := by
  induction ms with
  | nil => intro _ _ _ _; rfl
  | cons m ms ih =>
    intro pre tail file hfile
    simp only [zipOffsets, zipLocals]
    have hdrop : file.drop pre.length = writeZipLocal m ++ (zipLocalsBytes ms ++ tail) := by
      rw [hfile]; simp [zipLocalsBytes, List.append_assoc]
    have hoff : pre.length ≤ file.length := by rw [hfile]; simp
    rw [local_rt inflate m (hok m (by simp)) file pre.length _ hoff hdrop]
    simp only
    have := ih (fun x hx => hok x (by simp [hx])) (pre ++ writeZipLocal m) tail file (by
      rw [hfile]; simp [zipLocalsBytes, List.append_assoc])
    simp only [List.length_append] at this
    rw [this]
    simp

/-- the backwards search finds the record `back` bytes before the end when no window nearer to the end matches -/
theorem findBack_found (sig bs : Bytes) (pos back : Nat) (hb4 : 4 ≤ back) (hb : back ≤ 128) (hpos : back ≤ pos)
    (hit : (bs.drop (pos - back)).take 4 = sig)
    (hmiss : ∀ k, 4 ≤ k → k < back → (bs.drop (pos - k)).take 4 ≠ sig) :
    ∀ (n k : Nat), 4 ≤ k → k ≤ back → back - k < n → findBack sig bs pos n k = .found back := by
  intro n
  induction n with
  | zero => intro k _ _ h; omega
  | succ n ih =>
    intro k h4 hk hn
    rw [findBack]
    have h1 : ¬ k > 128 := by omega
    have h2 : ¬ k > pos := by omega
    simp only [h1, h2, if_false]
    by_cases e : k = back
    · subst e; simp [hit]
    · have := hmiss k h4 (by omega)
      simp only [this, if_false]
      exact ih (k + 1) (by omega) (by omega) (by omega)

theorem zipOffsets_map_lfo (ms : List ZipMember) (o : Nat) :
    (((ms.zip (zipOffsets o ms)).map (fun p => p.1.cd p.2)).filter (fun c => c.diskStart = 0)).map (·.lfo) = zipOffsets o ms := by
  induction ms generalizing o with
  | nil => rfl
  | cons m ms ih =>
    have := ih (o + (writeZipLocal m).length)
    simp only [zipOffsets, List.zip_cons_cons, List.map_cons, ZipMember.cd, List.filter_cons, decide_true, if_true] at this ⊢
    rw [this]

theorem zipOffsets_lt (ms : List ZipMember) (o : Nat) : ∀ x ∈ zipOffsets o ms, x < o + (zipLocalsBytes ms).length + 1 := by
  induction ms generalizing o with
  | nil => simp [zipOffsets]
  | cons m ms ih =>
    intro x hx
    simp only [zipOffsets, List.mem_cons] at hx
    rcases hx with h | h
    · subst h; omega
    · have := ih _ x h
      simp only [zipLocalsBytes, List.flatMap_cons, List.length_append] at this ⊢
      omega

theorem zipOffsets_length (ms : List ZipMember) (o : Nat) : (zipOffsets o ms).length = ms.length := by
  induction ms generalizing o with
  | nil => rfl
  | cons m ms ih => simp [zipOffsets, ih]

structure ZipOk (ms : List ZipMember) (comment : Bytes) : Prop where
  members : ∀ m ∈ ms, MemberOk m
  count : ms.length < 2 ^ 16
  commentLen : comment.length ≤ 106                     -- the record must start within the last 128 bytes
  localsLen : (zipLocalsBytes ms).length < 2 ^ 32
  cdLen : (zipCDBytes ms (zipOffsets 0 ms)).length < 2 ^ 32
  /-- no 4 byte window nearer to the end of the file than the record's own signature equals the signature
      (fields and comment do not spell `PK\x05\x06`) -/
  noLaterSig : ∀ k, 4 ≤ k → k < 22 + comment.length →
    ((writeZip ms comment).drop ((writeZip ms comment).length - k)).take 4 ≠ sigEOCD
  /-- the last 128 bytes do not spell the zip64 locator signature -/
  noLocator : ∀ k, findBack sigLoc64 (writeZip ms comment) (writeZip ms comment).length 128 4 ≠ .found k

def zipView (ms : List ZipMember) (comment : Bytes) : ZipFile :=
  { eocd := ⟨0, 0, ms.length, ms.length, (zipCDBytes ms (zipOffsets 0 ms)).length, (zipLocalsBytes ms).length, comment⟩,
    cds := (ms.zip (zipOffsets 0 ms)).map (fun p => p.1.cd p.2),
    locals := ms.map ZipMember.local }

theorem cdBytes_len (ps : List (ZipMember × Nat)) : ps.length ≤ (cdBytes ps).length := by
  induction ps with
  | nil => simp
  | cons p ps ih =>
    have := writeZipCD_length p.1 p.2
    simp only [cdBytes, List.flatMap_cons, List.length_append, List.length_cons] at ih ⊢
    omega

theorem zip_rt (inflate : Nat → Bytes → Option (Nat × Bytes)) (ms : List ZipMember) (comment : Bytes) (ok : ZipOk ms comment) :
    parseZip inflate (writeZip ms comment) = .ok (zipView ms comment) := by
  obtain ⟨hok, hcount, hcl, hL, hCD, hmiss, hloc⟩ := ok
  generalize hLd : zipLocalsBytes ms = L at *
  generalize hCDd : zipCDBytes ms (zipOffsets 0 ms) = CD at *
  generalize hfs : [(4, 0x06054b50), (2, 0), (2, 0), (2, ms.length), (2, ms.length), (4, CD.length), (4, L.length), (2, comment.length)] = fs
  have hfile : writeZip ms comment = L ++ (CD ++ (encLE fs ++ comment)) := by
    simp only [writeZip, writeZipEOCD, hLd, hCDd, hfs, List.append_assoc]
  have hlenE : (encLE fs).length = 22 := by rw [encLE_length, ← hfs]; simp
  have e4 : toLE 4 0x06054b50 = sigEOCD := by decide
  have sig : (encLE fs).take 4 = sigEOCD := by
    have := encLE_slice fs 0 (by rw [← hfs]; simp) []
    subst hfs
    simpa [offs, e4] using this
  have f4 : leNat (((encLE fs).drop 4).take 2) = 0 := by
    subst hfs
    exact field_value0 _ 1 (by simp) 4 2 (by simp [offs]) (by simp) (by simp <;> omega)
  have f6 : leNat (((encLE fs).drop 6).take 2) = 0 := by
    subst hfs
    exact field_value0 _ 2 (by simp) 6 2 (by simp [offs]) (by simp) (by simp <;> omega)
  have f8 : leNat (((encLE fs).drop 8).take 2) = ms.length := by
    subst hfs
    exact field_value0 _ 3 (by simp) 8 2 (by simp [offs]) (by simp) (by simp <;> omega)
  have f10 : leNat (((encLE fs).drop 10).take 2) = ms.length := by
    subst hfs
    exact field_value0 _ 4 (by simp) 10 2 (by simp [offs]) (by simp) (by simp <;> omega)
  have f12 : leNat (((encLE fs).drop 12).take 4) = CD.length := by
    subst hfs
    exact field_value0 _ 5 (by simp) 12 4 (by simp [offs]) (by simp) (by simp <;> omega)
  have f16 : leNat (((encLE fs).drop 16).take 4) = L.length := by
    subst hfs
    exact field_value0 _ 6 (by simp) 16 4 (by simp [offs]) (by simp) (by simp <;> omega)
  have f20 : leNat (((encLE fs).drop 20).take 2) = comment.length := by
    subst hfs
    exact field_value0 _ 7 (by simp) 20 2 (by simp [offs]) (by simp) (by simp <;> omega)
  rw [hfile] at hmiss hloc ⊢
  generalize hF : L ++ (CD ++ (encLE fs ++ comment)) = file at *
  have hflen : file.length = L.length + (CD.length + (22 + comment.length)) := by
    rw [← hF]; simp only [List.length_append, hlenE]
  have hdropE : file.drop (file.length - (22 + comment.length)) = encLE fs ++ comment := by
    rw [← hF]
    have : (L ++ (CD ++ (encLE fs ++ comment))).length - (22 + comment.length) = (L ++ CD).length := by
      simp only [List.length_append, hlenE]; omega
    rw [this, ← List.append_assoc, List.drop_left]
  have hfind : findBack sigEOCD file file.length 128 4 = .found (22 + comment.length) :=
    findBack_found sigEOCD file file.length (22 + comment.length) (by omega) (by omega) (by omega)
      (by rw [hdropE, List.take_append_of_le_length (by omega)]; exact sig) hmiss 128 4 (by omega) (by omega) (by omega)
  unfold parseZip
  rw [hfind]
  simp only [hdropE]
  rw [takeN_append (encLE fs) _ 22 hlenE]
  simp only [f4, f6, f8, f10, f12, f16, f20]
  have tc : takeN comment.length comment = some (comment, []) := by
    have := takeN_append comment [] _ rfl
    simpa using this
  rw [tc]
  simp only [List.length_nil, Nat.sub_zero]
  have hdropL : file.drop L.length = CD ++ (encLE fs ++ comment) := by rw [← hF, List.drop_left]
  have hcdb : takeN CD.length (file.drop L.length) = some (CD, encLE fs ++ comment) := by
    rw [hdropL]; exact takeN_append CD _ _ rfl
  have hps : ∀ p ∈ ms.zip (zipOffsets 0 ms), MemberOk p.1 ∧ p.2 < 2 ^ 32 := by
    intro p hp
    have h1 := (List.of_mem_zip hp).1
    have h2 := zipOffsets_lt ms 0 p.2 (List.of_mem_zip hp).2
    rw [hLd] at h2
    exact ⟨hok p.1 h1, by omega⟩
  have hcdsB : CD = cdBytes (ms.zip (zipOffsets 0 ms)) := by rw [← hCDd]; rfl
  have hcds : zipCDs (CD.length + 1) CD = .ok ((ms.zip (zipOffsets 0 ms)).map (fun p => p.1.cd p.2)) := by
    rw [hcdsB]
    exact cds_rt _ hps _ (by have := cdBytes_len (ms.zip (zipOffsets 0 ms)); omega)
  have hls := locals_rt inflate ms hok [] (CD ++ (encLE fs ++ comment)) file (by rw [← hF, hLd]; rfl)
  simp only [List.length_nil] at hls
  have hgt : ¬ L.length > file.length := by omega
  simp only [hgt, if_false, hcdb, hcds, zipOffsets_map_lfo, hls, zipView, hLd, hCDd]
end Proofs.C15
