import FqModel.Serial.Bencode
import Proofs.C16Common
/-!
  C16 — bencode: round trip and truncation proofs for the model in FqModel/Serial/Bencode.lean.
-/
namespace Proofs.C16.Bencode
open FqModel.Serial FqModel.Serial.Bencode Proofs.C16

/-! ### bridges -/

theorem encodeL_eq (xs : List W) : encodeL xs = cat encode xs := by
  induction xs with
  | nil => simp [encodeL, cat]
  | cons x xs ih => simp [encodeL, cat_cons, ih]

theorem encodeKV_eq (kvs : List (W × W)) : encodeKV kvs = catKV encode kvs := by
  induction kvs with
  | nil => simp [encodeKV, catKV]
  | cons p kvs ih => obtain ⟨k, v⟩ := p; simp [encodeKV, catKV_cons, ih]

theorem valueL_eq (xs : List W) : valueL xs = xs.map value := by
  induction xs with
  | nil => simp [valueL]
  | cons x xs ih => simp [valueL, ih]

theorem valueKV_eq (kvs : List (W × W)) : valueKV kvs = kvs.map (fun p => (value p.1, value p.2)) := by
  induction kvs with
  | nil => simp [valueKV]
  | cons p kvs ih => obtain ⟨k, v⟩ := p; simp [valueKV, ih]

theorem validL_mem {xs : List W} (h : validL xs = true) : ∀ x ∈ xs, valid x = true := by
  induction xs with
  | nil => simp
  | cons x xs ih =>
    simp [validL] at h
    intro y hy
    simp at hy
    rcases hy with rfl | hy
    · exact h.1
    · exact ih h.2 y hy

theorem validKV_mem {kvs : List (W × W)} (h : validKV kvs = true) :
    ∀ p ∈ kvs, valid p.1 = true ∧ valid p.2 = true := by
  induction kvs with
  | nil => simp
  | cons p kvs ih =>
    obtain ⟨k, v⟩ := p
    simp [validKV] at h
    intro y hy
    simp at hy
    rcases hy with rfl | hy
    · exact ⟨h.1.1.2, h.1.2⟩
    · exact ih h.2 y hy

/-! ### decimal digits -/

def digit (n : Nat) : UInt8 := UInt8.ofNat (0x30 + n)

theorem digit_toNat (n : Nat) (h : n < 10) : (digit n).toNat = 0x30 + n := by
  simp [digit, UInt8.toNat_ofNat']; omega

theorem isDigit_iff (c : UInt8) : isDigit c = true ↔ 0x30 ≤ c.toNat ∧ c.toNat ≤ 0x39 := by
  simp [isDigit, UInt8.le_iff_toNat_le]

theorem isDigit_digit (n : Nat) (h : n < 10) : isDigit (digit n) = true := by
  rw [isDigit_iff, digit_toNat n h]; omega

theorem parseDigits_snoc (ds : Bytes) (c : UInt8) (acc : Nat) :
    parseDigits (ds ++ [c]) acc =
      match parseDigits ds acc with
      | some a => if isDigit c then some (a * 10 + (c.toNat - 0x30)) else none
      | none => none := by
  induction ds generalizing acc with
  | nil => simp [parseDigits]
  | cons d ds ih =>
    simp only [List.cons_append, parseDigits]
    split
    · exact ih _
    · rfl

theorem parseDigits_decRev (f n : Nat) (h : n < f) : parseDigits (decRev f n).reverse 0 = some n := by
  induction f generalizing n with
  | zero => omega
  | succ f ih =>
    simp only [decRev]
    split
    · rename_i h10
      simp [parseDigits, show UInt8.ofNat (0x30 + n) = digit n from rfl, isDigit_digit n h10, digit_toNat n h10]
    · rename_i h10
      rw [List.reverse_cons, parseDigits_snoc, ih (n / 10) (by omega)]
      have hd : n % 10 < 10 := Nat.mod_lt n (by decide)
      simp [show UInt8.ofNat (0x30 + n % 10) = digit (n % 10) from rfl, isDigit_digit _ hd, digit_toNat _ hd]
      omega

theorem parseDigits_decStr (n : Nat) : parseDigits (decStr n) 0 = some n :=
  parseDigits_decRev (n + 1) n (by omega)

theorem decRev_digits (f n : Nat) : ∀ c ∈ decRev f n, isDigit c = true := by
  induction f generalizing n with
  | zero => simp [decRev]
  | succ f ih =>
    simp only [decRev]
    split
    · rename_i h10
      intro c hc
      rw [List.mem_singleton] at hc; subst hc
      exact isDigit_digit n h10
    · intro c hc
      rw [List.mem_cons] at hc
      rcases hc with rfl | hc
      · exact isDigit_digit (n % 10) (Nat.mod_lt n (by decide))
      · exact ih _ c hc

theorem decStr_digits (n : Nat) : ∀ c ∈ decStr n, isDigit c = true := by
  intro c hc
  simp [decStr] at hc
  exact decRev_digits _ _ c hc

theorem decRev_ne_nil (f n : Nat) : decRev (f + 1) n ≠ [] := by
  simp only [decRev]; split <;> simp

theorem decStr_ne_nil (n : Nat) : decStr n ≠ [] := by
  simp [decStr, decRev_ne_nil]

theorem parseDigits_zeros (z : Nat) (r : Bytes) : parseDigits (List.replicate z 0x30 ++ r) 0 = parseDigits r 0 := by
  induction z with
  | zero => simp
  | succ z ih =>
    simp only [List.replicate_succ, List.cons_append, parseDigits]
    have : isDigit 0x30 = true := by decide
    simp [this, ih]

/-- zeros followed by the digits of `n` : all digits, non-empty, parses to `n` -/
theorem lenText_digits (z n : Nat) : ∀ c ∈ lenText z n, isDigit c = true := by
  intro c hc
  simp [lenText] at hc
  rcases hc with ⟨_, rfl⟩ | hc
  · decide
  · exact decStr_digits n c hc

theorem lenText_ne_nil (z n : Nat) : lenText z n ≠ [] := by
  simp [lenText, decStr_ne_nil]

theorem parseDigits_lenText (z n : Nat) : parseDigits (lenText z n) 0 = some n := by
  rw [lenText, parseDigits_zeros, parseDigits_decStr]

theorem parseInt_digits (t : Bytes) (n : Nat) (hne : t ≠ []) (hd : ∀ c ∈ t, isDigit c = true)
    (hp : parseDigits t 0 = some n) (hr : n < 2 ^ 63) : parseInt t = some (n : Int) := by
  cases t with
  | nil => exact absurd rfl hne
  | cons c r =>
    have hc := (isDigit_iff c).mp (hd c (by simp))
    have h1 : ¬ c = 0x2b := by intro h; subst h; simp at hc
    have h2 : ¬ c = 0x2d := by intro h; subst h; simp at hc
    have h3 : ¬ (n ≥ 2 ^ 63) := by omega
    simp [parseInt, h1, h2, hp, h3]

theorem parseInt_plus (t : Bytes) (n : Nat) (hne : t ≠ []) (hp : parseDigits t 0 = some n) (hr : n < 2 ^ 63) :
    parseInt (0x2b :: t) = some (n : Int) := by
  have h3 : ¬ (n ≥ 2 ^ 63) := by omega
  have : t.isEmpty = false := by cases t <;> simp_all
  simp [parseInt, hp, h3, this]

theorem parseInt_minus (t : Bytes) (n : Nat) (hne : t ≠ []) (hp : parseDigits t 0 = some n) (hr : n ≤ 2 ^ 63) :
    parseInt (0x2d :: t) = some (-(n : Int)) := by
  have h3 : ¬ (n > 2 ^ 63) := by omega
  have : t.isEmpty = false := by cases t <;> simp_all
  simp [parseInt, hp, h3, this]

/-! ### searching the terminator -/

theorem findByte_hit (t : UInt8) (l rest : Bytes) (max : Nat) (hn : ∀ c ∈ l, c ≠ t) (hl : l.length < max) :
    findByte t max (l ++ t :: rest) = .ok (some l.length) := by
  induction l generalizing max with
  | nil =>
    cases max with
    | zero => omega
    | succ m => simp [findByte]
  | cons c l ih =>
    cases max with
    | zero => omega
    | succ m =>
      have hc : ¬ c = t := hn c (by simp)
      simp only [List.cons_append, findByte, hc, if_false, List.length_cons]
      rw [ih m (fun d hd => hn d (by simp [hd])) (by simp at hl; omega)]

theorem findByte_eof (t : UInt8) (l : Bytes) (max : Nat) (hn : ∀ c ∈ l, c ≠ t) (hl : l.length < max) :
    findByte t max l = .err .eof := by
  induction l generalizing max with
  | nil =>
    cases max with
    | zero => omega
    | succ m => simp [findByte]
  | cons c l ih =>
    cases max with
    | zero => omega
    | succ m =>
      have hc : ¬ c = t := hn c (by simp)
      simp only [findByte, hc, if_false]
      rw [ih m (fun d hd => hn d (by simp [hd])) (by simp at hl; omega)]

theorem strIntUntil_hit (t : UInt8) (l rest : Bytes) (n : Int) (hn : ∀ c ∈ l, c ≠ t) (hl : l.length ≤ 20)
    (hp : parseInt l = some n) : strIntUntil t (l ++ t :: rest) = .ok (n, t :: rest) := by
  simp [strIntUntil, findByte_hit t l rest 21 hn (by omega), hp]

theorem strIntUntil_eof (t : UInt8) (l : Bytes) (hn : ∀ c ∈ l, c ≠ t) (hl : l.length ≤ 20) :
    strIntUntil t l = .err .eof := by
  simp [strIntUntil, findByte_eof t l 21 hn (by omega)]

theorem digit_ne (c t : UInt8) (hc : isDigit c = true) (ht : isDigit t = false) : c ≠ t := by
  intro h; subst h; simp [hc] at ht

theorem intText_chars (sg : Sign) (z m : Nat) : ∀ c ∈ intText sg z m, c ≠ 0x65 := by
  intro c hc
  simp only [intText, List.mem_append] at hc
  rcases hc with (hc | hc) | hc
  · cases sg <;> simp [signBytes] at hc <;> subst hc <;> decide
  · simp at hc; rw [hc.2]; decide
  · exact digit_ne c _ (decStr_digits m c hc) (by decide)

theorem parseInt_intText (sg : Sign) (z m : Nat)
    (hr : if sg = .minus then m ≤ 2 ^ 63 else m < 2 ^ 63) :
    parseInt (intText sg z m) = some (if sg = .minus then -(m : Int) else m) := by
  have hne := lenText_ne_nil z m
  have hp := parseDigits_lenText z m
  cases sg
  · simp at hr
    simpa [intText, signBytes, lenText] using parseInt_digits (lenText z m) m hne (lenText_digits z m) hp hr
  · simp at hr
    simpa [intText, signBytes, lenText] using parseInt_plus (lenText z m) m hne hp hr
  · simp at hr
    simpa [intText, signBytes, lenText] using parseInt_minus (lenText z m) m hne hp hr


/-! ### leaves -/

theorem decT_nil (f : Nat) : decT (f + 1) [] = .err .eof := rfl

theorem decT_i (f : Nat) (bs : Bytes) :
    decT (f + 1) (0x69 :: bs) =
      match strIntUntil 0x65 bs with
      | .err e => .err e
      | .ok (n, r) => .ok (.int n, r.drop 1) := by
  have h1 : isDigit 0x69 = false := by decide
  simp only [decT, h1]
  simp
  split <;> simp_all

theorem decT_l (f : Nat) (bs : Bytes) :
    decT (f + 1) (0x6c :: bs) =
      match decUntil 0x65 (decT f) f bs with
      | .err e => .err e
      | .ok (vs, r) => .ok (.arr vs, r.drop 1) := by
  have h1 : isDigit 0x6c = false := by decide
  have h2 : ¬ ((0x6c : UInt8) = 0x69) := by decide
  simp only [decT, h1, h2]
  simp
  split <;> simp_all

theorem decT_d (f : Nat) (bs : Bytes) :
    decT (f + 1) (0x64 :: bs) =
      match decPairsUntil 0x65 (decT f) f bs with
      | .err e => .err e
      | .ok (kvs, r) => .ok (.map kvs, r.drop 1) := by
  have h1 : isDigit 0x64 = false := by decide
  have h2 : ¬ ((0x64 : UInt8) = 0x69) := by decide
  have h3 : ¬ ((0x64 : UInt8) = 0x6c) := by decide
  simp only [decT, h1, h2, h3]
  simp
  split <;> simp_all

theorem decT_digit (f : Nat) (b : UInt8) (bs : Bytes) (hb : isDigit b = true) :
    decT (f + 1) (b :: bs) =
      match strIntUntil 0x3a (b :: bs) with
      | .err e => .err e
      | .ok (n, r) =>
        match readN n.toNat (r.drop 1) with
        | .err e => .err e
        | .ok (x, r') => .ok (.str (sanitizeX x), r') := by
  simp only [decT, hb]
  simp
  split
  · simp_all
  · rename_i n r heq
    simp only [heq]
    split <;> simp_all

theorem valid_sanitize {s : Bytes} (h : validUTF8 s = true) : sanitizeX s = s := by
  simpa [validUTF8] using h

theorem lenText_cons (z n : Nat) : ∃ b t, lenText z n = b :: t ∧ isDigit b = true := by
  have hne := lenText_ne_nil z n
  have hd := lenText_digits z n
  cases h : lenText z n with
  | nil => exact absurd h hne
  | cons b t => exact ⟨b, t, rfl, hd b (by rw [h]; simp)⟩

theorem lenText_chars (z n : Nat) : ∀ c ∈ lenText z n, c ≠ 0x3a :=
  fun c hc => digit_ne c _ (lenText_digits z n c hc) (by decide)

theorem rt_int (f : Nat) (sg : Sign) (z m : Nat) (rest : Bytes) (hv : valid (.int sg z m) = true) :
    decT (f + 1) (encode (.int sg z m) ++ rest) = .ok (value (.int sg z m), rest) := by
  simp only [valid, Bool.and_eq_true, decide_eq_true_eq] at hv
  obtain ⟨hlen, hr⟩ := hv
  have hr' : if sg = .minus then m ≤ 2 ^ 63 else m < 2 ^ 63 := by
    cases sg <;> simp_all
  simp only [encode, value, List.cons_append, List.append_assoc, List.nil_append]
  rw [decT_i, strIntUntil_hit 0x65 (intText sg z m) rest _ (intText_chars sg z m) hlen (parseInt_intText sg z m hr')]
  simp

theorem pf_int (f : Nat) (sg : Sign) (z m : Nat) (hv : valid (.int sg z m) = true) (k : Nat)
    (hk : k < (encode (.int sg z m)).length) :
    decT (f + 1) ((encode (.int sg z m)).take k) = .err .eof := by
  simp only [valid, Bool.and_eq_true, decide_eq_true_eq] at hv
  obtain ⟨hlen, _⟩ := hv
  simp only [encode] at hk ⊢
  cases k with
  | zero => rfl
  | succ j =>
    simp at hk
    rw [List.take_succ_cons, List.take_append_of_le_length (by omega), decT_i,
      strIntUntil_eof 0x65 _ (fun c hc => intText_chars sg z m c (List.mem_of_mem_take hc))
        (by simp [List.length_take]; omega)]

theorem rt_str (f : Nat) (z : Nat) (s rest : Bytes) (hv : valid (.str z s) = true) :
    decT (f + 1) (encode (.str z s) ++ rest) = .ok (value (.str z s), rest) := by
  simp only [valid, Bool.and_eq_true, decide_eq_true_eq] at hv
  obtain ⟨⟨hlen, hs63⟩, hu⟩ := hv
  simp only [encode, value, List.append_assoc, List.cons_append]
  obtain ⟨b, t, hbt, hb⟩ := lenText_cons z s.length
  have hp : parseInt (lenText z s.length) = some (s.length : Int) :=
    parseInt_digits _ _ (lenText_ne_nil _ _) (lenText_digits _ _) (parseDigits_lenText _ _) hs63
  have hs := strIntUntil_hit 0x3a (lenText z s.length) (s ++ rest) _ (lenText_chars z s.length) hlen hp
  rw [hbt] at hs ⊢
  simp only [List.cons_append] at hs ⊢
  rw [decT_digit f b _ hb, hs]
  simp [readN_append, valid_sanitize hu]

theorem pf_str (f : Nat) (z : Nat) (s : Bytes) (hv : valid (.str z s) = true) (k : Nat)
    (hk : k < (encode (.str z s)).length) :
    decT (f + 1) ((encode (.str z s)).take k) = .err .eof := by
  simp only [valid, Bool.and_eq_true, decide_eq_true_eq] at hv
  obtain ⟨⟨hlen, hs63⟩, hu⟩ := hv
  simp only [encode] at hk ⊢
  obtain ⟨b, t, hbt, hb⟩ := lenText_cons z s.length
  by_cases hle : k ≤ (lenText z s.length).length
  · rw [List.take_append_of_le_length hle]
    cases k with
    | zero => rfl
    | succ j =>
      have hse := strIntUntil_eof 0x3a ((lenText z s.length).take (j + 1))
        (fun c hc => lenText_chars z s.length c (List.mem_of_mem_take hc)) (by simp [List.length_take]; omega)
      rw [hbt] at hse ⊢
      simp only [List.take_succ_cons] at hse ⊢
      rw [decT_digit f b _ hb, hse]
  · have hp : parseInt (lenText z s.length) = some (s.length : Int) :=
      parseInt_digits _ _ (lenText_ne_nil _ _) (lenText_digits _ _) (parseDigits_lenText _ _) hs63
    rw [take_append_of_le _ _ _ (by omega)]
    obtain ⟨j, hj⟩ : ∃ j, k - (lenText z s.length).length = j + 1 := ⟨k - (lenText z s.length).length - 1, by omega⟩
    rw [hj, List.take_succ_cons]
    have hs := strIntUntil_hit 0x3a (lenText z s.length) (s.take j) _ (lenText_chars z s.length) hlen hp
    rw [hbt] at hs ⊢
    simp only [List.cons_append] at hs ⊢
    rw [decT_digit f b _ hb, hs]
    have : readN s.length (s.take j) = .err .eof := readN_short _ _ (by simp at hk; simp [List.length_take]; omega)
    simp [this]

theorem startsOK_encode (x : W) : StartsOK 0x65 (encode x) := by
  cases x with
  | int sg z m => exact ⟨0x69, _, rfl, by decide⟩
  | str z s =>
    obtain ⟨b, t, hbt, hb⟩ := lenText_cons z s.length
    refine ⟨b, t ++ 0x3a :: s, ?_, digit_ne b _ hb (by decide)⟩
    simp [encode, hbt]
  | list xs => exact ⟨0x6c, _, rfl, by decide⟩
  | dict kvs => exact ⟨0x64, _, rfl, by decide⟩

/-! ### the main induction -/

def RT (f : Nat) (x : W) : Prop := ∀ rest, decT f (encode x ++ rest) = .ok (value x, rest)
def PF (f : Nat) (x : W) : Prop := ∀ k, k < (encode x).length → k < f → decT f ((encode x).take k) = .err .eof

theorem rt_step (f : Nat) (ih : ∀ y, valid y = true → (encode y).length < f → RT f y)
    (x : W) (hv : valid x = true) (hl : (encode x).length < f + 1) : RT (f + 1) x := by
  intro rest
  cases x with
  | int sg z m => exact rt_int f sg z m rest hv
  | str z s => exact rt_str f z s rest hv
  | list xs =>
    simp only [valid] at hv
    have hmem := validL_mem hv
    simp only [encode, List.length_cons, List.length_append, encodeL_eq] at hl
    simp only [encode, value, List.cons_append, List.nil_append, List.append_assoc, encodeL_eq, valueL_eq]
    have helem : ∀ x ∈ xs, ∀ r, decT f (encode x ++ r) = .ok (value x, r) := fun x hx =>
      ih x (hmem x hx) (by have := mem_length_le_cat encode xs x hx; omega)
    have hlen := length_le_cat encode xs (fun x _ => (startsOK_encode x).pos)
    rw [decT_l, decUntil_rt 0x65 (decT f) encode value xs rest f (fun x _ => startsOK_encode x) helem
      (by simp at hl; omega)]
    simp
  | dict kvs =>
    simp only [valid, Bool.and_eq_true] at hv
    have hmem := validKV_mem hv.1
    simp only [encode, List.length_cons, List.length_append, encodeKV_eq] at hl
    simp only [encode, value, List.cons_append, List.nil_append, List.append_assoc, encodeKV_eq, valueKV_eq]
    have helem : ∀ p ∈ kvs, (∀ r, decT f (encode p.1 ++ r) = .ok (value p.1, r)) ∧
        (∀ r, decT f (encode p.2 ++ r) = .ok (value p.2, r)) := fun p hp =>
      have hle := mem_length_le_catKV encode kvs p hp
      ⟨ih p.1 (hmem p hp).1 (by omega), ih p.2 (hmem p hp).2 (by omega)⟩
    have hlen := length_le_catKV encode kvs (fun p _ => (startsOK_encode p.1).pos)
    rw [decT_d, decPairsUntil_rt 0x65 (decT f) encode value kvs rest f (fun p _ => startsOK_encode p.1) helem
      (by simp at hl; omega)]
    simp

theorem pf_step (f : Nat) (ihrt : ∀ y, valid y = true → (encode y).length < f → RT f y)
    (ihpf : ∀ y, valid y = true → PF f y) (x : W) (hv : valid x = true) : PF (f + 1) x := by
  intro k hk hkf
  cases x with
  | int sg z m => exact pf_int f sg z m hv k hk
  | str z s => exact pf_str f z s hv k hk
  | list xs =>
    simp only [valid] at hv
    have hmem := validL_mem hv
    simp only [encode, encodeL_eq] at hk ⊢
    cases k with
    | zero => rfl
    | succ j =>
      rw [List.take_succ_cons, decT_l,
        decUntil_pf 0x65 (decT f) encode value xs j f (fun x _ => startsOK_encode x)
          (fun x hx hle => ihrt x (hmem x hx) (by omega))
          (fun x hx i hi hik => ihpf x (hmem x hx) i hi (by omega))
          (by simp at hk; omega) (by omega)]
  | dict kvs =>
    simp only [valid, Bool.and_eq_true] at hv
    have hmem := validKV_mem hv.1
    simp only [encode, encodeKV_eq] at hk ⊢
    cases k with
    | zero => rfl
    | succ j =>
      rw [List.take_succ_cons, decT_d,
        decPairsUntil_pf 0x65 (decT f) encode value kvs j f (fun p _ => startsOK_encode p.1)
          (fun p hp => ⟨fun hle => ihrt p.1 (hmem p hp).1 (by omega), fun hle => ihrt p.2 (hmem p hp).2 (by omega)⟩)
          (fun p hp => ⟨fun i hi hik => ihpf p.1 (hmem p hp).1 i hi (by omega),
                        fun i hi hik => ihpf p.2 (hmem p hp).2 i hi (by omega)⟩)
          (by simp at hk; omega) (by omega)]

theorem main (f : Nat) :
    (∀ x, valid x = true → (encode x).length < f → RT f x) ∧ (∀ x, valid x = true → PF f x) := by
  induction f with
  | zero => exact ⟨fun x _ h => absurd h (Nat.not_lt_zero _), fun x _ k _ hk => absurd hk (Nat.not_lt_zero _)⟩
  | succ f ih => exact ⟨fun x hv hl => rt_step f ih.1 x hv hl, fun x hv => pf_step f ih.1 ih.2 x hv⟩

/-! ### torepr of a decoded valid tree -/

theorem vkey_value (k : W) (b : Bytes) (h : keyBytes k = some b) : vkey (value k) = some b := by
  cases k <;> simp [keyBytes] at h <;> subst h <;> simp [value, vkey]

mutual
theorem reprOK_value : ∀ x, valid x = true → reprOK (value x) = true
  | .int _ _ _, _ => by simp [value, reprOK]
  | .str _ _, _ => by simp [value, reprOK]
  | .list xs, h => by
    simp only [valid] at h
    simp [value, reprOK, reprOKL_value xs h]
  | .dict kvs, h => by
    simp only [valid, Bool.and_eq_true] at h
    have ⟨h1, h2⟩ := reprOKKV_value kvs h.1
    simp [value, reprOK, h1, h2, h.2]
theorem reprOKL_value : ∀ xs, validL xs = true → reprOKL (valueL xs) = true
  | [], _ => by simp [valueL, reprOKL]
  | x :: xs, h => by
    simp only [validL, Bool.and_eq_true] at h
    simp [valueL, reprOKL, reprOK_value x h.1, reprOKL_value xs h.2]
theorem reprOKKV_value : ∀ kvs, validKV kvs = true →
    reprOKKV (valueKV kvs) = true ∧ vkeys (valueKV kvs) = keysOf kvs
  | [], _ => by simp [valueKV, reprOKKV, vkeys, keysOf]
  | (k, v) :: r, h => by
    simp only [validKV, Bool.and_eq_true] at h
    obtain ⟨⟨⟨hk, _⟩, hv⟩, hr⟩ := h
    obtain ⟨b, hb⟩ := Option.isSome_iff_exists.mp hk
    have hvk := vkey_value k b hb
    have ⟨h1, h2⟩ := reprOKKV_value r hr
    simp [valueKV, reprOKKV, vkeys, keysOf, hvk, hb, reprOK_value v hv, h1, h2]
end


/-! ### every in-domain value has a valid (canonical) wire tree -/

theorem decRev_length (f n d : Nat) (h : n < 10 ^ d) (hd : 0 < d) : (decRev f n).length ≤ d := by
  induction f generalizing n d with
  | zero => simp [decRev]
  | succ f ih =>
    simp only [decRev]
    split
    · simp; omega
    · rename_i h10
      obtain ⟨d', rfl⟩ : ∃ d', d = d' + 1 := ⟨d - 1, by omega⟩
      have hd' : 0 < d' := by
        cases d' with
        | zero => simp at h; omega
        | succ _ => omega
      have := ih (n / 10) d' (by rw [Nat.pow_succ] at h; omega) hd'
      simp; omega

theorem decStr_length_63 (n : Nat) (h : n ≤ 2 ^ 63) : (decStr n).length ≤ 19 := by
  simp only [decStr, List.length_reverse]
  exact decRev_length _ n 19 (by omega) (by omega)

theorem keyBytes_canon (k : V) (h : (vKeyBytes k).isSome = true) : keyBytes (canon k) = vKeyBytes k := by
  cases k <;> simp [vKeyBytes] at h <;> simp [canon, keyBytes, vKeyBytes]

mutual
theorem canon_ok : ∀ v, inDomain v = true → valid (canon v) = true ∧ value (canon v) = v
  | .null, h => by simp [inDomain] at h
  | .bool _, h => by simp [inDomain] at h
  | .float _, h => by simp [inDomain] at h
  | .bytes _, h => by simp [inDomain] at h
  | .int i, h => by
    simp only [inDomain, Bool.and_eq_true, decide_eq_true_eq] at h
    simp only [canon]
    split
    · have hl := decStr_length_63 (-i).toNat (by omega)
      simp [valid, value, intText, signBytes]
      constructor
      · constructor <;> omega
      · omega
    · have hl := decStr_length_63 i.toNat (by omega)
      simp [valid, value, intText, signBytes]
      constructor
      · constructor <;> omega
      · omega
  | .str s, h => by
    simp only [inDomain, Bool.and_eq_true, decide_eq_true_eq] at h
    have hl := decStr_length_63 s.length (by omega)
    have hl' : (lenText 0 s.length).length ≤ 20 := by simp [lenText]; omega
    simp [canon, valid, value, hl', h.1, h.2]
  | .arr xs, h => by
    simp only [inDomain] at h
    have ⟨h1, h2⟩ := canonL_ok xs h
    simp [canon, valid, value, h1, h2]
  | .map kvs, h => by
    simp only [inDomain, Bool.and_eq_true] at h
    have ⟨h1, h2, h4⟩ := canonKV_ok kvs h.1
    simp [canon, valid, value, h1, h2, h4, h.2]
theorem canonL_ok : ∀ xs, inDomainL xs = true → validL (canonL xs) = true ∧ valueL (canonL xs) = xs
  | [], _ => by simp [canonL, validL, valueL]
  | x :: xs, h => by
    simp only [inDomainL, Bool.and_eq_true] at h
    have ⟨a1, a2⟩ := canon_ok x h.1
    have ⟨b1, b2⟩ := canonL_ok xs h.2
    simp [canonL, validL, valueL, a1, a2, b1, b2]
theorem canonKV_ok : ∀ kvs, inDomainKV kvs = true →
    validKV (canonKV kvs) = true ∧ valueKV (canonKV kvs) = kvs ∧ keysOf (canonKV kvs) = vKeysOf kvs
  | [], _ => by simp [canonKV, validKV, valueKV, keysOf, vKeysOf]
  | (k, v) :: r, h => by
    simp only [inDomainKV, Bool.and_eq_true] at h
    obtain ⟨⟨⟨hk, hk2⟩, hv⟩, hr⟩ := h
    have ⟨a1, a2⟩ := canon_ok k hk2
    have ⟨c1, c2⟩ := canon_ok v hv
    have ⟨b1, b2, b4⟩ := canonKV_ok r hr
    simp [canonKV, validKV, valueKV, keysOf, vKeysOf, keyBytes_canon k hk, hk, a1, a2, c1, c2, b1, b2, b4]
end

end Proofs.C16.Bencode
