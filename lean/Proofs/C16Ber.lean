import FqModel.Serial.Ber
import Proofs.C16Common
/-!
  C16 — asn1_ber: round trip and truncation proofs for the model in FqModel/Serial/Ber.lean (code as it is:
  wire trees without zero-length definite forms, see `valid`).
-/
namespace Proofs.C16.Ber
open FqModel.Serial FqModel.Serial.Ber Proofs.C16

/-! ### bridges -/

theorem encodeL_eq (xs : List W) : encodeL xs = cat encode xs := by
  induction xs with
  | nil => simp [encodeL, cat]
  | cons x xs ih => simp [encodeL, cat_cons, ih]

theorem valueL_eq (xs : List W) : valueL xs = xs.map value := by
  induction xs with
  | nil => simp [valueL]
  | cons x xs ih => simp [valueL, ih]

theorem validL_mem {xs : List W} (h : validL xs = true) : ∀ x ∈ xs, valid x = true := by
  induction xs with
  | nil => simp
  | cons x xs ih =>
    simp [validL] at h
    intro y hy
    simp at hy
    rcases hy with rfl | hy
    · exact h.1
    · exact ih h.2 y hy

theorem byte_toNat (n : Nat) (h : n < 256) : (byte n).toNat = n := by
  simp [byte, UInt8.toNat_ofNat', Nat.mod_eq_of_lt h]

theorem take_succ_byte (t : UInt8) (p : Bytes) (j : Nat) : (t :: p).take (j + 1) = t :: p.take j := by
  simp [List.take_succ_cons]

/-! ### length octets -/

theorem encLen_pos (lf : LenForm) (n : Nat) : 0 < (encLen lf n).length := by
  cases lf <;> simp [encLen]

theorem decodeLength_rt (lf : LenForm) (n : Nat) (r : Bytes) (h : lenOk lf n = true) :
    decodeLength (encLen lf n ++ r) = .ok (n, false, r) := by
  cases lf with
  | short =>
    simp only [lenOk, decide_eq_true_eq] at h
    have h1 : ¬ ((byte n).toNat ≥ 128) := by rw [byte_toNat n (by omega)]; omega
    simp [encLen, decodeLength, h1, byte_toNat n (by omega)]
    intro hh; omega
  | long m =>
    simp only [lenOk, Bool.and_eq_true, decide_eq_true_eq] at h
    obtain ⟨⟨h1, h2⟩, h3⟩ := h
    have hb : (byte (0x80 + m)).toNat = 0x80 + m := byte_toNat _ (by omega)
    have hm : (0x80 + m) % 128 = m := by omega
    have e1 : ¬ m = 0 := by omega
    have e2 : ¬ m = 127 := by omega
    have e3 : ¬ m > 8 := by omega
    simp [encLen, decodeLength, hb, hm, e1, e2, e3, readU_toBE m n r h3]

theorem decodeLength_pf (lf : LenForm) (n : Nat) (j : Nat) (h : lenOk lf n = true) (hj : j < (encLen lf n).length) :
    decodeLength ((encLen lf n).take j) = .err .eof := by
  cases lf with
  | short =>
    have : j = 0 := by simp [encLen] at hj; omega
    subst this
    simp [decodeLength]
  | long m =>
    simp only [lenOk, Bool.and_eq_true, decide_eq_true_eq] at h
    obtain ⟨⟨h1, h2⟩, h3⟩ := h
    cases j with
    | zero => simp [decodeLength]
    | succ j =>
      have hb : (byte (0x80 + m)).toNat = 0x80 + m := byte_toNat _ (by omega)
      have hm : (0x80 + m) % 128 = m := by omega
      have e1 : ¬ m = 0 := by omega
      have e2 : ¬ m = 127 := by omega
      have e3 : ¬ m > 8 := by omega
      simp only [encLen, take_succ_byte, decodeLength, hb, hm]
      have : readU m ((toBE m n).take j) = .err .eof :=
        readU_short _ _ (by simp [encLen, toBE_length] at hj; simp [List.length_take, toBE_length]; omega)
      simp [e1, e2, e3, this]

/-! ### the children loop -/

/-- a child encoding: at least two octets, the first not zero (so it is no end-of-contents marker) -/
def ChildOK (e : Bytes) : Prop := ∃ b b2 t, e = b :: b2 :: t ∧ b ≠ 0

theorem ChildOK.len {e : Bytes} (h : ChildOK e) : 2 ≤ e.length := by
  obtain ⟨b, b2, t, rfl, _⟩ := h; simp

section loop
variable (dec : Bytes → Res (V × Bytes))

theorem decChildren_def_rt (xs : List W) (lf : Nat)
    (hc : ∀ x ∈ xs, ChildOK (encode x))
    (h : ∀ x ∈ xs, ∀ r, dec (encode x ++ r) = .ok (value x, r)) (hlf : xs.length < lf) :
    decChildren dec false lf (cat encode xs) = .ok (xs.map value, []) := by
  induction xs generalizing lf with
  | nil =>
    cases lf with
    | zero => omega
    | succ lf => simp [decChildren, cat]
  | cons x xs ih =>
    cases lf with
    | zero => omega
    | succ lf =>
      obtain ⟨b, b2, t, hbt, _⟩ := hc x (by simp)
      have hx := h x (by simp) (cat encode xs)
      have ih' := ih lf (fun y hy => hc y (by simp [hy])) (fun y hy => h y (by simp [hy])) (by simp at hlf; omega)
      rw [cat_cons]
      rw [hbt] at hx ⊢
      simp only [List.cons_append] at hx ⊢
      simp [decChildren, hx, ih']

theorem decChildren_indef_rt (xs : List W) (rest : Bytes) (lf : Nat)
    (hc : ∀ x ∈ xs, ChildOK (encode x))
    (h : ∀ x ∈ xs, ∀ r, dec (encode x ++ r) = .ok (value x, r)) (hlf : xs.length < lf) :
    decChildren dec true lf (cat encode xs ++ 0 :: 0 :: rest) = .ok (xs.map value, 0 :: 0 :: rest) := by
  induction xs generalizing lf with
  | nil =>
    cases lf with
    | zero => omega
    | succ lf => simp [decChildren, cat]
  | cons x xs ih =>
    cases lf with
    | zero => omega
    | succ lf =>
      obtain ⟨b, b2, t, hbt, hb⟩ := hc x (by simp)
      have hx := h x (by simp) (cat encode xs ++ 0 :: 0 :: rest)
      have ih' := ih lf (fun y hy => hc y (by simp [hy])) (fun y hy => h y (by simp [hy])) (by simp at hlf; omega)
      rw [cat_cons, List.append_assoc]
      rw [hbt] at hx ⊢
      simp only [List.cons_append] at hx ⊢
      simp [decChildren, hb, hx, ih']

/-- the loop followed by the end-of-contents read, on a strict prefix of `children ++ 00 00` -/
theorem decChildren_indef_pf (xs : List W) (k lf : Nat)
    (hc : ∀ x ∈ xs, ChildOK (encode x))
    (hrt : ∀ x ∈ xs, (encode x).length ≤ k → ∀ r, dec (encode x ++ r) = .ok (value x, r))
    (hpf : ∀ x ∈ xs, ∀ j, j < (encode x).length → j ≤ k → dec ((encode x).take j) = .err .eof)
    (hk : k < (cat encode xs).length + 2) (hlf : k < lf) :
    (match decChildren dec true lf ((cat encode xs ++ [0, 0]).take k) with
      | .err e => (.err e : Res (Bytes × Bytes))
      | .ok (_, s1) => readN 2 s1) = .err .eof := by
  induction xs generalizing k lf with
  | nil =>
    cases lf with
    | zero => omega
    | succ lf =>
      simp [cat] at hk
      have : k = 0 ∨ k = 1 := by omega
      rcases this with rfl | rfl <;> simp [cat, decChildren, readN]
  | cons x xs ih =>
    cases lf with
    | zero => omega
    | succ lf =>
      obtain ⟨b, b2, t, hbt, hb⟩ := hc x (by simp)
      rw [cat_cons, List.append_assoc]
      by_cases hlt : k < (encode x).length
      · rw [take_append_of_lt _ _ _ hlt]
        have hp := hpf x (by simp) k hlt (Nat.le_refl k)
        rw [hbt] at hp hlt ⊢
        cases k with
        | zero => simp [decChildren, readN]
        | succ k1 =>
          cases k1 with
          | zero => simp [decChildren]
          | succ k2 =>
            simp only [List.take_succ_cons] at hp ⊢
            simp [decChildren, hb, hp]
      · have hle : (encode x).length ≤ k := by omega
        rw [take_append_of_le _ _ _ hle]
        have hx := hrt x (by simp) hle ((cat encode xs ++ [0, 0]).take (k - (encode x).length))
        have hlen : 2 ≤ (encode x).length := (hc x (by simp)).len
        have ih' := ih (k - (encode x).length) lf (fun y hy => hc y (by simp [hy]))
          (fun y hy hl => hrt y (by simp [hy]) (by omega))
          (fun y hy j hj hjk => hpf y (by simp [hy]) j hj (by omega))
          (by rw [cat_cons] at hk; simp at hk; omega) (by omega)
        generalize k - (encode x).length = m at hx ih' ⊢
        rw [hbt] at hx ⊢
        simp only [List.cons_append] at hx ⊢
        simp only [decChildren, if_true, hb, false_and, if_false, hx]
        revert ih'
        split <;> simp_all

end loop


/-! ### identifier octet -/

theorem decV_nil (fix : Bool) (f : Nat) : decV fix (f + 1) [] = .err .eof := rfl

theorem decV_hdr (fix : Bool) (f n : Nat) (r : Bytes) (hn : n < 256) (ht : n % 32 ≠ 31)
    (length : Nat) (isIndef : Bool) (r2 : Bytes) (h : decodeLength r = .ok (length, isIndef, r2)) :
    decV fix (f + 1) (byte n :: r) = decBody fix (decV fix f) (n / 64) (n / 32 % 2) (n % 32) length isIndef r2 := by
  simp only [decV, byte_toNat n hn, readTag, ht, if_false, h]

theorem decV_hdr_err (fix : Bool) (f n : Nat) (r : Bytes) (hn : n < 256) (ht : n % 32 ≠ 31)
    (e : Err) (h : decodeLength r = .err e) : decV fix (f + 1) (byte n :: r) = .err e := by
  simp only [decV, byte_toNat n hn, readTag, ht, if_false, h]

/-! ### two's complement of any width -/

theorem pow256 (n : Nat) : 256 ^ n = 2 ^ (8 * n) := by
  rw [Nat.pow_mul]

theorem signed_rt (n : Nat) (i : Int) (hn : 1 ≤ n) (h1 : -(2 ^ (8 * n - 1) : Int) ≤ i) (h2 : i < 2 ^ (8 * n - 1)) :
    ofSigned (8 * n) i < 256 ^ n ∧ toSigned (8 * n) (ofSigned (8 * n) i) = i := by
  rw [pow256]
  have hp : (2 : Nat) ^ (8 * n) = 2 * 2 ^ (8 * n - 1) := by
    have : 8 * n = (8 * n - 1) + 1 := by omega
    rw [this, Nat.pow_succ]
    simp
    omega
  generalize hP : (2 : Nat) ^ (8 * n - 1) = P at hp
  have hPi : ((2 : Int) ^ (8 * n - 1)) = (P : Int) := by rw [← hP]; simp
  rw [hPi] at h1 h2
  simp only [ofSigned, toSigned, hp]
  constructor
  · split <;> omega
  · rw [hP]
    split <;> split <;> simp_all <;> omega

/-! ### `decBody`, branch by branch -/

section body
variable (fix : Bool) (dec : Bytes → Res (V × Bytes))

theorem body_short (cls form tag length : Nat) (r2 : Bytes) (hl : 1 ≤ length) (e : Err)
    (h1 : readN length r2 = .err e) : decBody fix dec cls form tag length false r2 = .err e := by
  have h0 : ¬ length = 0 := by omega
  cases fix <;> simp [decBody, h0, h1]

theorem body_prim_ok (tag length : Nat) (r2 sub after unread : Bytes) (v : V) (hl : 1 ≤ length)
    (ht : tag ≠ 16 ∧ tag ≠ 17) (h1 : readN length r2 = .ok (sub, after))
    (h2 : decPrimitive tag length sub = .ok (v, unread)) :
    decBody fix dec 0 0 tag length false r2 = .ok (v, unread ++ after) := by
  have h0 : ¬ length = 0 := by omega
  cases fix <;> simp [decBody, h0, ht.1, ht.2, h1, h2]

theorem body_null (r2 : Bytes) : decBody fix dec 0 0 5 0 false r2 = .ok (.null, r2) := by
  cases fix <;> simp [decBody, decPrimitive, readN]

theorem body_cons_def_ok (cls tag length : Nat) (r2 sub after s1 : Bytes) (vs : List V) (hl : 1 ≤ length)
    (hc : ¬ (cls = 0 ∧ tag ≠ 16 ∧ tag ≠ 17)) (h1 : readN length r2 = .ok (sub, after))
    (h2 : decChildren dec false (sub.length + 1) sub = .ok (vs, s1)) :
    decBody fix dec cls 1 tag length false r2 = .ok (.arr vs, s1 ++ after) := by
  have h0 : ¬ length = 0 := by omega
  cases fix <;> simp [decBody, h0, hc, h1, h2]

theorem body_cons_indef_ok (cls tag : Nat) (r2 s1 x s2 : Bytes) (vs : List V)
    (hc : ¬ (cls = 0 ∧ tag ≠ 16 ∧ tag ≠ 17))
    (h2 : decChildren dec true (r2.length + 1) r2 = .ok (vs, s1)) (h3 : readN 2 s1 = .ok (x, s2)) :
    decBody fix dec cls 1 tag 0 true r2 = .ok (.arr vs, s2) := by
  cases fix <;> simp [decBody, hc, h2, h3]

theorem body_cons_indef_err (cls tag : Nat) (r2 : Bytes)
    (h : (match decChildren dec true (r2.length + 1) r2 with
      | .err e => (.err e : Res (Bytes × Bytes))
      | .ok (_, s1) => readN 2 s1) = .err .eof) :
    decBody fix dec cls 1 tag 0 true r2 = .err .eof := by
  cases hd : decChildren dec true (r2.length + 1) r2 with
  | err e =>
    rw [hd] at h
    simp at h
    subst h
    cases fix <;> simp [decBody, hd]
  | ok p =>
    obtain ⟨vs, s1⟩ := p
    rw [hd] at h
    simp at h
    cases fix <;> simp [decBody, hd, h]

end body


/-! ### the main induction -/

def RT (fix : Bool) (f : Nat) (x : W) : Prop := ∀ rest, decV fix f (encode x ++ rest) = .ok (value x, rest)
def PF (fix : Bool) (f : Nat) (x : W) : Prop :=
  ∀ k, k < (encode x).length → k < f → decV fix f ((encode x).take k) = .err .eof

theorem valid_sanitize {s : Bytes} (h : validUTF8 s = true) : sanitizeX s = s := by
  simpa [validUTF8] using h

theorem isStrTag_facts {t : Nat} (h : isStrTag t = true) :
    t < 32 ∧ t ≠ 31 ∧ t ≠ 0 ∧ t ≠ 1 ∧ t ≠ 2 ∧ t ≠ 4 ∧ t ≠ 0x18 ∧ t ≠ 5 ∧ t ≠ 7 ∧ t ≠ 16 ∧ t ≠ 17 := by
  simp only [isStrTag, Bool.or_eq_true, decide_eq_true_eq] at h
  omega

theorem childOK_encode (x : W) (hv : valid x = true) : ChildOK (encode x) := by
  have key : ∀ (n : Nat) (lf : LenForm) (m : Nat) (tail : Bytes), 0 < n → n < 256 →
      ChildOK (byte n :: (encLen lf m ++ tail)) := by
    intro n lf m tail h0 h1
    have hne : byte n ≠ 0 := by
      intro hc
      have := congrArg UInt8.toNat hc
      rw [byte_toNat n h1] at this
      simp at this
      omega
    cases lf with
    | short => exact ⟨_, _, _, rfl, hne⟩
    | long m' => exact ⟨_, _, _, rfl, hne⟩
  have key2 : ∀ (n : Nat) (tail : Bytes), 0 < n → n < 256 → ChildOK (byte n :: byte 0x80 :: tail) := by
    intro n tail h0 h1
    refine ⟨_, _, _, rfl, ?_⟩
    intro hc
    have := congrArg UInt8.toNat hc
    rw [byte_toNat n h1] at this
    simp at this
    omega
  cases x with
  | bool lf raw => exact key 1 lf 1 _ (by omega) (by omega)
  | int lf i n => exact key 2 lf n _ (by omega) (by omega)
  | octets lf b => exact key 4 lf _ _ (by omega) (by omega)
  | null lf => simpa [encode] using key 5 lf 0 [] (by omega) (by omega)
  | str tag lf s =>
    simp only [valid, Bool.and_eq_true] at hv
    have := isStrTag_facts hv.1.1.1
    exact key tag lf _ _ (by omega) (by omega)
  | seq set lf xs => cases set <;> exact key _ lf _ _ (by simp) (by simp)
  | seqI set xs => cases set <;> exact key2 _ _ (by simp) (by simp)
  | tagged cls tag lf xs =>
    simp only [valid, Bool.and_eq_true, decide_eq_true_eq] at hv
    exact key _ lf _ _ (by omega) (by omega)
  | taggedI cls tag xs =>
    simp only [valid, Bool.and_eq_true, decide_eq_true_eq] at hv
    exact key2 _ _ (by omega) (by omega)

/-- a definite-length value: identifier, length octets, `content`; what the body makes of the content -/
theorem def_rt (fix : Bool) (f n : Nat) (lf : LenForm) (content rest : Bytes) (v : V)
    (hn : n < 256) (ht : n % 32 ≠ 31) (hl : lenOk lf content.length = true)
    (hbody : decBody fix (decV fix f) (n / 64) (n / 32 % 2) (n % 32) content.length false (content ++ rest) = .ok (v, rest)) :
    decV fix (f + 1) (byte n :: (encLen lf content.length ++ (content ++ rest))) = .ok (v, rest) := by
  rw [decV_hdr fix f n _ hn ht _ _ _ (decodeLength_rt lf content.length (content ++ rest) hl), hbody]

/-- truncation of a definite-length value with non-empty content -/
theorem def_pf (fix : Bool) (f n : Nat) (lf : LenForm) (content : Bytes)
    (hn : n < 256) (ht : n % 32 ≠ 31) (hl : lenOk lf content.length = true) (hc : 1 ≤ content.length)
    (k : Nat) (hk : k < (byte n :: (encLen lf content.length ++ content)).length) :
    decV fix (f + 1) ((byte n :: (encLen lf content.length ++ content)).take k) = .err .eof := by
  cases k with
  | zero => rfl
  | succ j =>
    rw [take_succ_byte]
    by_cases hlt : j < (encLen lf content.length).length
    · rw [take_append_of_lt _ _ _ hlt]
      exact decV_hdr_err fix f n _ hn ht _ (decodeLength_pf lf _ j hl hlt)
    · rw [take_append_of_le _ _ _ (by omega),
        decV_hdr fix f n _ hn ht _ _ _ (decodeLength_rt lf content.length _ hl)]
      apply body_short fix _ _ _ _ _ _ hc
      apply readN_short
      simp at hk
      simp [List.length_take]; omega

theorem null_pf (fix : Bool) (f : Nat) (lf : LenForm) (hl : lenOk lf 0 = true) (k : Nat)
    (hk : k < (byte 0x05 :: encLen lf 0).length) :
    decV fix (f + 1) ((byte 0x05 :: encLen lf 0).take k) = .err .eof := by
  cases k with
  | zero => rfl
  | succ j =>
    rw [take_succ_byte]
    exact decV_hdr_err fix f 5 _ (by omega) (by omega) _ (decodeLength_pf lf 0 j hl (by simpa using hk))

theorem decodeLength_indef (r : Bytes) : decodeLength (byte 0x80 :: r) = .ok (0, true, r) := by
  simp [decodeLength, byte_toNat 0x80 (by omega)]

theorem mem_length_le_cat' (xs : List W) (x : W) (hx : x ∈ xs) : (encode x).length ≤ (cat encode xs).length :=
  mem_length_le_cat encode xs x hx

theorem rt_step (fix : Bool) (f : Nat) (ih : ∀ y, valid y = true → (encode y).length < f → RT fix f y)
    (x : W) (hv : valid x = true) (hl : (encode x).length < f + 1) : RT fix (f + 1) x := by
  intro rest
  have cons_def : ∀ (n : Nat) (lf : LenForm) (xs : List W), n < 256 → n % 32 ≠ 31 → n / 32 % 2 = 1 →
      ¬ (n / 64 = 0 ∧ n % 32 ≠ 16 ∧ n % 32 ≠ 17) → lenOk lf (encodeL xs).length = true → 1 ≤ (encodeL xs).length →
      validL xs = true → (encodeL xs).length < f →
      decV fix (f + 1) (byte n :: (encLen lf (encodeL xs).length ++ (encodeL xs ++ rest))) = .ok (.arr (valueL xs), rest) := by
    intro n lf xs hn ht hform hcls hlen hpos hvl hlf
    have hmem := validL_mem hvl
    apply def_rt fix f n lf (encodeL xs) rest _ hn ht hlen
    rw [hform]
    have hch := decChildren_def_rt (decV fix f) xs ((encodeL xs).length + 1)
      (fun y hy => childOK_encode y (hmem y hy))
      (fun y hy => ih y (hmem y hy) (by have := mem_length_le_cat' xs y hy; rw [encodeL_eq] at hlf; omega))
      (by
        have := length_le_cat encode xs (fun y hy => by have := (childOK_encode y (hmem y hy)).len; omega)
        rw [encodeL_eq]; omega)
    rw [← encodeL_eq] at hch
    rw [body_cons_def_ok fix _ _ _ _ _ (encodeL xs) rest [] (xs.map value) hpos hcls (readN_append _ _) hch, valueL_eq]
    simp
  have cons_indef : ∀ (n : Nat) (xs : List W), n < 256 → n % 32 ≠ 31 → n / 32 % 2 = 1 →
      ¬ (n / 64 = 0 ∧ n % 32 ≠ 16 ∧ n % 32 ≠ 17) → validL xs = true → (encodeL xs).length + 3 < f + 1 →
      decV fix (f + 1) (byte n :: byte 0x80 :: ((encodeL xs ++ [0, 0]) ++ rest)) = .ok (.arr (valueL xs), rest) := by
    intro n xs hn ht hform hcls hvl hlf
    have hmem := validL_mem hvl
    rw [decV_hdr fix f n _ hn ht _ _ _ (decodeLength_indef _), hform]
    have hch := decChildren_indef_rt (decV fix f) xs rest (((encodeL xs ++ [0, 0]) ++ rest).length + 1)
      (fun y hy => childOK_encode y (hmem y hy))
      (fun y hy => ih y (hmem y hy) (by have := mem_length_le_cat' xs y hy; rw [encodeL_eq] at hlf; omega))
      (by
        have := length_le_cat encode xs (fun y hy => by have := (childOK_encode y (hmem y hy)).len; omega)
        rw [encodeL_eq]; simp; omega)
    rw [← encodeL_eq] at hch
    have heq : (encodeL xs ++ [0, 0]) ++ rest = encodeL xs ++ 0 :: 0 :: rest := by simp
    rw [heq] at hch ⊢
    rw [body_cons_indef_ok fix _ _ _ _ _ [0, 0] rest (xs.map value) hcls hch (readN_append' 2 [0, 0] rest rfl), valueL_eq]
  cases x with
  | bool lf raw =>
    simp only [valid] at hv
    simp only [encode, value, List.cons_append, List.append_assoc]
    have := def_rt fix f 1 lf [raw] rest (.bool (raw.toNat != 0)) (by omega) (by omega) hv
      (by
        have h1 : readN 1 ([raw] ++ rest) = .ok ([raw], rest) := readN_append' 1 [raw] rest rfl
        have h2 : decPrimitive 1 1 [raw] = .ok (.bool (raw.toNat != 0), []) := by
          simp [decPrimitive, readU, readN, beNat]
        simpa using body_prim_ok fix (decV fix f) 1 1 _ _ _ _ _ (by omega) (by omega) h1 h2)
    simpa using this
  | int lf i n =>
    simp only [valid, Bool.and_eq_true, decide_eq_true_eq] at hv
    obtain ⟨⟨⟨hlen, hn1⟩, h1⟩, h2⟩ := hv
    have ⟨hlt, hts⟩ := signed_rt n i hn1 (by exact_mod_cast h1) (by exact_mod_cast h2)
    simp only [encode, value, List.cons_append, List.append_assoc]
    have hcl : (toBE n (ofSigned (8 * n) i)).length = n := toBE_length _ _
    have := def_rt fix f 2 lf (toBE n (ofSigned (8 * n) i)) rest (.int i) (by omega) (by omega) (by rw [hcl]; exact hlen)
      (by
        rw [hcl]
        have h1 : readN n (toBE n (ofSigned (8 * n) i) ++ rest) = .ok (toBE n (ofSigned (8 * n) i), rest) :=
          readN_append' n _ rest hcl
        have h2 : decPrimitive 2 n (toBE n (ofSigned (8 * n) i)) = .ok (.int i, []) := by
          have := readU_toBE n (ofSigned (8 * n) i) [] hlt
          simp only [List.append_nil] at this
          simp [decPrimitive, this, hts]
        simpa using body_prim_ok fix (decV fix f) 2 n _ _ _ _ _ hn1 (by omega) h1 h2)
    rw [hcl] at this
    exact this
  | octets lf b =>
    simp only [valid, Bool.and_eq_true, decide_eq_true_eq] at hv
    simp only [encode, value, List.cons_append, List.append_assoc]
    exact def_rt fix f 4 lf b rest (.str b) (by omega) (by omega) hv.1
      (by
        have h2 : decPrimitive 4 b.length b = .ok (.str b, []) := by
          have := readN_append b []
          simp only [List.append_nil] at this
          simp [decPrimitive, this]
        simpa using body_prim_ok fix (decV fix f) 4 b.length _ _ _ _ _ hv.2 (by omega) (readN_append b rest) h2)
  | null lf =>
    simp only [valid] at hv
    simp only [encode, value, List.cons_append, List.append_assoc]
    rw [decV_hdr fix f 5 _ (by omega) (by omega) _ _ _ (decodeLength_rt lf 0 rest hv)]
    exact body_null fix _ rest
  | str tag lf s =>
    simp only [valid, Bool.and_eq_true, decide_eq_true_eq] at hv
    obtain ⟨⟨⟨htag, hlen⟩, hpos⟩, hu⟩ := hv
    have hf := isStrTag_facts htag
    simp only [encode, value, List.cons_append, List.append_assoc]
    have h64 : tag / 64 = 0 := by omega
    have h32 : tag / 32 % 2 = 0 := by omega
    have hmod : tag % 32 = tag := by omega
    exact def_rt fix f tag lf s rest (.str s) (by omega) (by omega) hlen
      (by
        rw [h64, h32, hmod]
        have h2 : decPrimitive tag s.length s = .ok (.str s, []) := by
          have := readN_append s []
          simp only [List.append_nil] at this
          have e1 : ¬ (tag = 4 ∨ tag = 0x18) := by omega
          simp [decPrimitive, hf.2.2.1, hf.2.2.2.1, hf.2.2.2.2.1, e1, hf.2.2.2.2.2.2.2.1, hf.2.2.2.2.2.2.2.2.1, htag, this,
            valid_sanitize hu]
        simpa using body_prim_ok fix (decV fix f) tag s.length _ _ _ _ _ hpos (by omega) (readN_append s rest) h2)
  | seq set lf xs =>
    simp only [valid, Bool.and_eq_true, decide_eq_true_eq] at hv
    obtain ⟨⟨hlen, hpos⟩, hvl⟩ := hv
    simp only [encode, value, List.cons_append, List.append_assoc]
    have hlf : (encodeL xs).length < f := by
      have := encLen_pos lf (encodeL xs).length
      simp only [encode, List.length_cons, List.length_append] at hl; omega
    cases set
    · exact cons_def 0x30 lf xs (by omega) (by decide) (by decide) (by decide) hlen hpos hvl hlf
    · exact cons_def 0x31 lf xs (by omega) (by decide) (by decide) (by decide) hlen hpos hvl hlf
  | seqI set xs =>
    simp only [valid] at hv
    simp only [encode, value, List.cons_append]
    have hlf : (encodeL xs).length + 3 < f + 1 := by
      simp only [encode, List.length_cons, List.length_append] at hl; simp at hl; omega
    cases set
    · exact cons_indef 0x30 xs (by omega) (by decide) (by decide) (by decide) hv hlf
    · exact cons_indef 0x31 xs (by omega) (by decide) (by decide) (by decide) hv hlf
  | tagged cls tag lf xs =>
    simp only [valid, Bool.and_eq_true, decide_eq_true_eq] at hv
    obtain ⟨⟨⟨⟨⟨hc1, hc3⟩, htag⟩, hlen⟩, hpos⟩, hvl⟩ := hv
    simp only [encode, value, List.cons_append, List.append_assoc]
    have hlf : (encodeL xs).length < f := by
      have := encLen_pos lf (encodeL xs).length
      simp only [encode, List.length_cons, List.length_append] at hl; omega
    exact cons_def (cls * 64 + 32 + tag) lf xs (by omega) (by omega) (by omega) (by omega) hlen hpos hvl hlf
  | taggedI cls tag xs =>
    simp only [valid, Bool.and_eq_true, decide_eq_true_eq] at hv
    obtain ⟨⟨⟨hc1, hc3⟩, htag⟩, hvl⟩ := hv
    simp only [encode, value, List.cons_append]
    have hlf : (encodeL xs).length + 3 < f + 1 := by
      simp only [encode, List.length_cons, List.length_append] at hl; simp at hl; omega
    exact cons_indef (cls * 64 + 32 + tag) xs (by omega) (by omega) (by omega) (by omega) hvl hlf


theorem pf_step (fix : Bool) (f : Nat) (ihrt : ∀ y, valid y = true → (encode y).length < f → RT fix f y)
    (ihpf : ∀ y, valid y = true → PF fix f y) (x : W) (hv : valid x = true) : PF fix (f + 1) x := by
  intro k hk hkf
  have cons_indef : ∀ (n : Nat) (xs : List W), n < 256 → n % 32 ≠ 31 → n / 32 % 2 = 1 → validL xs = true →
      k < (byte n :: byte 0x80 :: (encodeL xs ++ [0, 0])).length →
      decV fix (f + 1) ((byte n :: byte 0x80 :: (encodeL xs ++ [0, 0])).take k) = .err .eof := by
    intro n xs hn ht hform hvl hk'
    have hmem := validL_mem hvl
    cases k with
    | zero => rfl
    | succ k1 =>
      rw [take_succ_byte]
      cases k1 with
      | zero => exact decV_hdr_err fix f n _ hn ht _ (by simp [decodeLength])
      | succ k2 =>
        rw [take_succ_byte, decV_hdr fix f n _ hn ht _ _ _ (decodeLength_indef _), hform]
        apply body_cons_indef_err
        rw [encodeL_eq] at hk' ⊢
        have hk2 : k2 < (cat encode xs).length + 2 := by simp at hk'; omega
        have hlen : ((cat encode xs ++ [0, 0]).take k2).length = k2 := by simp [List.length_take]; omega
        rw [hlen]
        exact decChildren_indef_pf (decV fix f) xs k2 (k2 + 1) (fun y hy => childOK_encode y (hmem y hy))
          (fun y hy hle => ihrt y (hmem y hy) (by omega))
          (fun y hy j hj hjk => ihpf y (hmem y hy) j hj (by omega))
          hk2 (by omega)
  cases x with
  | bool lf raw =>
    simp only [valid] at hv
    simp only [encode] at hk ⊢
    exact def_pf fix f 1 lf [raw] (by omega) (by omega) hv (by simp) k hk
  | int lf i n =>
    simp only [valid, Bool.and_eq_true, decide_eq_true_eq] at hv
    simp only [encode] at hk ⊢
    have hcl : (toBE n (ofSigned (8 * n) i)).length = n := toBE_length _ _
    have := def_pf fix f 2 lf (toBE n (ofSigned (8 * n) i)) (by omega) (by omega) (by rw [hcl]; exact hv.1.1.1)
      (by rw [hcl]; exact hv.1.1.2) k (by rw [hcl]; exact hk)
    rw [hcl] at this
    exact this
  | octets lf b =>
    simp only [valid, Bool.and_eq_true, decide_eq_true_eq] at hv
    simp only [encode] at hk ⊢
    exact def_pf fix f 4 lf b (by omega) (by omega) hv.1 hv.2 k hk
  | null lf =>
    simp only [valid] at hv
    simp only [encode] at hk ⊢
    exact null_pf fix f lf hv k hk
  | str tag lf s =>
    simp only [valid, Bool.and_eq_true, decide_eq_true_eq] at hv
    have hf := isStrTag_facts hv.1.1.1
    simp only [encode] at hk ⊢
    exact def_pf fix f tag lf s (by omega) (by omega) hv.1.1.2 hv.1.2 k hk
  | seq set lf xs =>
    simp only [valid, Bool.and_eq_true, decide_eq_true_eq] at hv
    simp only [encode] at hk ⊢
    cases set
    · exact def_pf fix f 0x30 lf (encodeL xs) (by omega) (by decide) hv.1.1 hv.1.2 k hk
    · exact def_pf fix f 0x31 lf (encodeL xs) (by omega) (by decide) hv.1.1 hv.1.2 k hk
  | seqI set xs =>
    simp only [valid] at hv
    simp only [encode] at hk ⊢
    cases set
    · exact cons_indef 0x30 xs (by omega) (by decide) (by decide) hv hk
    · exact cons_indef 0x31 xs (by omega) (by decide) (by decide) hv hk
  | tagged cls tag lf xs =>
    simp only [valid, Bool.and_eq_true, decide_eq_true_eq] at hv
    obtain ⟨⟨⟨⟨⟨hc1, hc3⟩, htag⟩, hlen⟩, hpos⟩, hvl⟩ := hv
    simp only [encode] at hk ⊢
    exact def_pf fix f (cls * 64 + 32 + tag) lf (encodeL xs) (by omega) (by omega) hlen hpos k hk
  | taggedI cls tag xs =>
    simp only [valid, Bool.and_eq_true, decide_eq_true_eq] at hv
    obtain ⟨⟨⟨hc1, hc3⟩, htag⟩, hvl⟩ := hv
    simp only [encode] at hk ⊢
    exact cons_indef (cls * 64 + 32 + tag) xs (by omega) (by omega) (by omega) hvl hk

theorem main (fix : Bool) (f : Nat) :
    (∀ x, valid x = true → (encode x).length < f → RT fix f x) ∧ (∀ x, valid x = true → PF fix f x) := by
  induction f with
  | zero => exact ⟨fun x _ h => absurd h (Nat.not_lt_zero _), fun x _ k _ hk => absurd hk (Nat.not_lt_zero _)⟩
  | succ f ih => exact ⟨fun x hv hl => rt_step fix f ih.1 x hv hl, fun x hv => pf_step fix f ih.1 ih.2 x hv⟩

/-! ### torepr: values of valid trees are arrays and scalars -/

mutual
theorem reprOK_value : ∀ x, reprOK (value x) = true
  | .bool _ _ => by simp [value, reprOK]
  | .int _ _ _ => by simp [value, reprOK]
  | .octets _ _ => by simp [value, reprOK]
  | .null _ => by simp [value, reprOK]
  | .str _ _ _ => by simp [value, reprOK]
  | .seq _ _ xs => by simp [value, reprOK, reprOKL_value xs]
  | .seqI _ xs => by simp [value, reprOK, reprOKL_value xs]
  | .tagged _ _ _ xs => by simp [value, reprOK, reprOKL_value xs]
  | .taggedI _ _ xs => by simp [value, reprOK, reprOKL_value xs]
theorem reprOKL_value : ∀ xs, reprOKL (valueL xs) = true
  | [] => by simp [valueL, reprOKL]
  | x :: xs => by simp [valueL, reprOKL, reprOK_value x, reprOKL_value xs]
end

end Proofs.C16.Ber
