import FqModel.Serial.Bson
import Proofs.C16Common
/-!
  C16 — bson: round trip and truncation proofs for the model in FqModel/Serial/Bson.lean.
-/
namespace Proofs.C16.Bson
open FqModel.Serial FqModel.Serial.Bson Proofs.C16

/-! ### little-endian readers -/

theorem toLE_length (n x : Nat) : (toLE n x).length = n := by
  induction n generalizing x with
  | zero => rfl
  | succ n ih => simp [toLE, ih]

theorem leNat_toLE (n x : Nat) : leNat (toLE n x) = x % 256 ^ n := by
  induction n generalizing x with
  | zero => simp [toLE, leNat, Nat.mod_one]
  | succ n ih =>
    simp only [toLE, leNat, ih]
    have h : (UInt8.ofNat (x % 256)).toNat = x % 256 := by simp [UInt8.toNat_ofNat']
    rw [h, Nat.pow_succ, Nat.mul_comm (256 ^ n) 256, Nat.mod_mul]

theorem readLE_toLE (n x : Nat) (r : Bytes) (h : x < 256 ^ n) : readLE n (toLE n x ++ r) = .ok (x, r) := by
  simp [readLE, readN_append' n (toLE n x) r (toLE_length n x), leNat_toLE, Nat.mod_eq_of_lt h]

theorem readLE_short (n : Nat) (bs : Bytes) (h : bs.length < n) : readLE n bs = .err .eof := by
  simp [readLE, readN_short n bs h]

theorem ts32 (i : Int) (h1 : -(2 ^ 31) ≤ i) (h2 : i < 2 ^ 31) : toSigned 32 (ofSigned 32 i) = i := by
  simp only [toSigned, ofSigned]; split <;> split <;> simp_all <;> omega
theorem ts64 (i : Int) (h1 : -(2 ^ 63) ≤ i) (h2 : i < 2 ^ 63) : toSigned 64 (ofSigned 64 i) = i := by
  simp only [toSigned, ofSigned]; split <;> split <;> simp_all <;> omega
theorem os32_lt (i : Int) (h1 : -(2 ^ 31) ≤ i) (h2 : i < 2 ^ 31) : ofSigned 32 i < 256 ^ 4 := by
  simp only [ofSigned]; split <;> omega
theorem os64_lt (i : Int) (h1 : -(2 ^ 63) ≤ i) (h2 : i < 2 ^ 63) : ofSigned 64 i < 256 ^ 8 := by
  simp only [ofSigned]; split <;> omega

/-! ### NUL-terminated text -/

theorem noNul_mem {s : Bytes} (h : noNul s = true) : ∀ c ∈ s, c ≠ 0 := by
  intro c hc hz
  subst hz
  simp [noNul] at h
  exact h hc

theorem splitNul_hit (s r : Bytes) (h : noNul s = true) : splitNul (s ++ 0 :: r) = .ok (s, r) := by
  induction s with
  | nil => simp [splitNul]
  | cons c s ih =>
    have hc : ¬ c = 0 := noNul_mem h c (by simp)
    have hs : noNul s = true := by
      simp [noNul] at h ⊢
      exact h.2
    simp [splitNul, hc, ih hs]

theorem cutNul_hit (s r : Bytes) (h : noNul s = true) : cutNul (s ++ 0 :: r) = s := by
  induction s with
  | nil => simp [cutNul]
  | cons c s ih =>
    have hc : ¬ c = 0 := noNul_mem h c (by simp)
    have hs : noNul s = true := by
      simp [noNul] at h ⊢
      exact h.2
    simp [cutNul, hc, ih hs]

theorem valid_sanitize {s : Bytes} (h : validUTF8 s = true) : sanitizeX s = s := by
  simpa [validUTF8] using h

theorem readStr_hit (s r : Bytes) (h : textOk s = true) :
    readStrNulFixed (s.length + 1) (s ++ 0 :: r) = .ok (.str s, r) := by
  simp only [textOk, Bool.and_eq_true] at h
  have : readN (s.length + 1) (s ++ 0 :: r) = .ok (s ++ [0], r) := by
    rw [show s ++ 0 :: r = (s ++ [0]) ++ r by simp]
    exact readN_append' _ _ _ (by simp)
  simp only [readStrNulFixed, this]
  rw [cutNul_hit s [] h.1, valid_sanitize h.2]

/-! ### values -/

def pairs : List (Bytes × W) → List (Bytes × V)
  | [] => []
  | (k, x) :: r => (k, value x) :: pairs r

theorem pairs_map (kvs : List (Bytes × W)) : (pairs kvs).map (fun p => (V.str p.1, p.2)) = valueKV kvs := by
  induction kvs with
  | nil => simp [pairs, valueKV]
  | cons p r ih => obtain ⟨k, x⟩ := p; simp [pairs, valueKV, ih]

theorem pairs_snd (kvs : List (Bytes × W)) : (pairs kvs).map (fun p => p.2) = valueL kvs := by
  induction kvs with
  | nil => simp [pairs, valueL]
  | cons p r ih => obtain ⟨k, x⟩ := p; simp [pairs, valueL, ih]

/-- what the embedded-document decoder must do for the documents inside `x` -/
def DocOK (doc : Bytes → Res (List (Bytes × V) × Bytes)) : W → Prop
  | .doc kvs t => ∀ r, doc (encPayload (.doc kvs t) ++ r) = .ok (pairs kvs, r)
  | .arr xs t => ∀ r, doc (encPayload (.arr xs t) ++ r) = .ok (pairs xs, r)
  | _ => True

theorem pow4 : 256 ^ 4 = 2 ^ 32 := by decide
theorem pow8 : 256 ^ 8 = 2 ^ 64 := by decide

theorem decValue_rt (doc : Bytes → Res (List (Bytes × V) × Bytes)) (x : W) (hv : valid x = true)
    (hd : DocOK doc x) (r : Bytes) :
    decValue doc (typeByte x) (encPayload x ++ r) = .ok (value x, r) := by
  cases x with
  | double b =>
    simp only [valid, decide_eq_true_eq] at hv
    simp [decValue, typeByte, encPayload, value, readLE_toLE 8 b r (by rw [pow8]; exact hv)]
  | str s =>
    simp only [valid, Bool.and_eq_true, decide_eq_true_eq] at hv
    have h1 := readLE_toLE 4 (s.length + 1) (s ++ 0 :: r) (by rw [pow4]; exact hv.2)
    have h2 := readStr_hit s r hv.1
    simp [decValue, typeByte, encPayload, value, h1, h2]
  | doc kvs t =>
    simp only [DocOK] at hd
    simp [decValue, typeByte, value, hd r, pairs_map]
  | arr xs t =>
    simp only [DocOK] at hd
    simp [decValue, typeByte, value, hd r, pairs_snd]
  | bin st b =>
    simp only [valid, decide_eq_true_eq] at hv
    have h1 := readLE_toLE 4 b.length (st :: (b ++ r)) (by rw [pow4]; omega)
    have h2 : readN 1 (st :: (b ++ r)) = .ok ([st], b ++ r) := readN_append' 1 [st] _ rfl
    have h3 : ¬ (toSigned 32 b.length < 0) := by simp [toSigned]; split <;> omega
    simp [decValue, typeByte, encPayload, value, h1, h2, h3, readN_append]
  | undefined => simp [decValue, typeByte, encPayload, value]
  | objectid b =>
    simp only [valid, decide_eq_true_eq] at hv
    simp [decValue, typeByte, encPayload, value, readN_append' 12 b r hv]
  | bool raw =>
    have h0 : readN 1 (raw :: r) = .ok ([raw], r) := readN_append' 1 [raw] r rfl
    have h1 : readLE 1 (raw :: r) = .ok (raw.toNat, r) := by
      simp [readLE, h0, leNat]
    simp [decValue, typeByte, encPayload, value, h1]
  | datetime i =>
    simp only [valid, Bool.and_eq_true, decide_eq_true_eq] at hv
    simp [decValue, typeByte, encPayload, value, readLE_toLE 8 _ r (os64_lt i hv.1 hv.2), ts64 i hv.1 hv.2]
  | null => simp [decValue, typeByte, encPayload, value]
  | regexp v o =>
    simp only [valid, Bool.and_eq_true, textOk] at hv
    have h1 := splitNul_hit v (o ++ [0] ++ r) hv.1.1
    have h2 := splitNul_hit o r hv.2
    simp only [List.append_assoc, List.cons_append, List.nil_append] at h1
    simp [decValue, typeByte, encPayload, value, h1, h2, valid_sanitize hv.1.2]
  | js s =>
    simp only [valid, Bool.and_eq_true, decide_eq_true_eq] at hv
    have h1 := readLE_toLE 4 (s.length + 1) (s ++ 0 :: r) (by rw [pow4]; omega)
    have h2 := readStr_hit s r hv.1
    have h3 : ¬ (toSigned 32 (s.length + 1) < 0) := by simp [toSigned]; split <;> omega
    simp [decValue, typeByte, encPayload, value, h1, h2, h3]
  | int32 i =>
    simp only [valid, Bool.and_eq_true, decide_eq_true_eq] at hv
    simp [decValue, typeByte, encPayload, value, readLE_toLE 4 _ r (os32_lt i hv.1 hv.2), ts32 i hv.1 hv.2]
  | timestamp u =>
    simp only [valid, decide_eq_true_eq] at hv
    simp [decValue, typeByte, encPayload, value, readLE_toLE 8 u r (by rw [pow8]; exact hv)]
  | int64 i =>
    simp only [valid, Bool.and_eq_true, decide_eq_true_eq] at hv
    simp [decValue, typeByte, encPayload, value, readLE_toLE 8 _ r (os64_lt i hv.1 hv.2), ts64 i hv.1 hv.2]
  | decimal128 b =>
    simp only [valid, decide_eq_true_eq] at hv
    simp [decValue, typeByte, encPayload, value, readN_append' 16 b r hv]
  | minkey => simp [decValue, typeByte, encPayload, value]
  | maxkey => simp [decValue, typeByte, encPayload, value]

/-! ### the element loop inside a frame -/

theorem validKV_mem {kvs : List (Bytes × W)} (h : validKV kvs = true) :
    ∀ p ∈ kvs, textOk p.1 = true ∧ valid p.2 = true := by
  induction kvs with
  | nil => simp
  | cons p kvs ih =>
    obtain ⟨k, x⟩ := p
    simp [validKV] at h
    intro y hy
    simp at hy
    rcases hy with rfl | hy
    · exact ⟨h.1.1, h.1.2⟩
    · exact ih h.2 y hy

theorem decElems_rt (doc : Bytes → Res (List (Bytes × V) × Bytes)) (kvs : List (Bytes × W)) (t : UInt8) (lf : Nat)
    (hv : validKV kvs = true) (hd : ∀ p ∈ kvs, DocOK doc p.2) (hlf : kvs.length < lf) :
    decElems doc lf (encElems kvs ++ [t]) = .ok (pairs kvs, [t]) := by
  induction kvs generalizing lf with
  | nil =>
    cases lf with
    | zero => omega
    | succ lf => simp [encElems, Bson.decElems, pairs]
  | cons p kvs ih =>
    obtain ⟨k, x⟩ := p
    cases lf with
    | zero => omega
    | succ lf =>
      simp only [validKV, Bool.and_eq_true] at hv
      obtain ⟨⟨hk, hx⟩, hr⟩ := hv
      have hk' := hk
      simp only [textOk, Bool.and_eq_true] at hk'
      have hsplit := splitNul_hit k (encPayload x ++ (encElems kvs ++ [t])) hk'.1
      have hval := decValue_rt doc x hx (hd (k, x) (by simp)) (encElems kvs ++ [t])
      have ih' := ih lf hr (fun q hq => hd q (by simp [hq])) (by simp at hlf; omega)
      simp only [encElems, List.cons_append, List.append_assoc]
      -- expose the second byte of the element (first byte of the name, or its NUL)
      cases hkk : k ++ 0 :: (encPayload x ++ (encElems kvs ++ [t])) with
      | nil => cases k <;> simp at hkk
      | cons b rest =>
        rw [hkk] at hsplit
        simp [Bson.decElems, hsplit, hval, ih', pairs, valid_sanitize hk'.2]

/-! ### documents -/

theorem encPayload_doc_length (kvs : List (Bytes × W)) (t : UInt8) :
    (encPayload (.doc kvs t)).length = (encElems kvs).length + 5 := by
  simp [encPayload, toLE_length]; omega

theorem encPayload_arr_eq (kvs : List (Bytes × W)) (t : UInt8) : encPayload (.arr kvs t) = encPayload (.doc kvs t) := by
  simp [encPayload]

theorem length_le_encElems (kvs : List (Bytes × W)) : kvs.length ≤ (encElems kvs).length := by
  induction kvs with
  | nil => simp
  | cons p r ih => obtain ⟨k, x⟩ := p; simp [encElems]; omega

theorem mem_length_encElems (kvs : List (Bytes × W)) (p : Bytes × W) (hp : p ∈ kvs) :
    (encPayload p.2).length < (encElems kvs).length := by
  induction kvs with
  | nil => simp at hp
  | cons q r ih =>
    obtain ⟨k, x⟩ := q
    simp at hp
    rcases hp with rfl | hp
    · simp [encElems]; omega
    · have := ih hp; simp [encElems]; omega

def RTdoc (f : Nat) (kvs : List (Bytes × W)) (t : UInt8) : Prop :=
  ∀ rest, decDoc f (encPayload (.doc kvs t) ++ rest) = .ok (pairs kvs, rest)

theorem decDoc_step (f : Nat) (kvs : List (Bytes × W)) (t : UInt8) (hv : validKV kvs = true)
    (hsz : (encElems kvs).length + 5 < 2 ^ 31)
    (hd : ∀ p ∈ kvs, DocOK (decDoc f) p.2) : RTdoc (f + 1) kvs t := by
  intro rest
  have hsize := readLE_toLE 4 ((encElems kvs).length + 5) (encElems kvs ++ t :: rest) (by rw [pow4]; omega)
  have h4 : ¬ (toSigned 32 ((encElems kvs).length + 5) < 4) := by
    simp [toSigned]; split <;> omega
  have hframe : readN ((encElems kvs).length + 1) (encElems kvs ++ t :: rest) = .ok (encElems kvs ++ [t], rest) := by
    rw [show encElems kvs ++ t :: rest = (encElems kvs ++ [t]) ++ rest by simp]
    exact readN_append' _ _ _ (by simp)
  have hel := decElems_rt (decDoc f) kvs t ((encElems kvs).length + 1 + 1) hv hd
    (by have := length_le_encElems kvs; omega)
  simp only [encPayload, List.append_assoc, List.cons_append, List.nil_append]
  simp [decDoc, hsize, h4, hframe, hel]

/-- all documents nested in `x` decode with `decDoc f` -/
theorem main (f : Nat) :
    ∀ kvs t, validKV kvs = true → (encElems kvs).length + 5 < 2 ^ 31 → (encElems kvs).length + 5 < f →
      RTdoc f kvs t := by
  induction f with
  | zero => intro kvs t _ _ h; omega
  | succ f ih =>
    intro kvs t hv hsz hl
    apply decDoc_step f kvs t hv hsz
    intro p hp
    obtain ⟨k, x⟩ := p
    have hx := (validKV_mem hv (k, x) hp).2
    have hlen : (encPayload x).length < (encElems kvs).length := mem_length_encElems kvs (k, x) hp
    cases x with
    | doc kvs' t' =>
      simp only [valid, Bool.and_eq_true, decide_eq_true_eq] at hx
      have hl' := encPayload_doc_length kvs' t'
      exact ih kvs' t' hx.1.1 hx.2 (by omega)
    | arr xs' t' =>
      simp only [valid, Bool.and_eq_true, decide_eq_true_eq] at hx
      have hl' := encPayload_doc_length xs' t'
      intro r
      rw [encPayload_arr_eq]
      rw [encPayload_arr_eq] at hlen
      exact ih xs' t' hx.1 hx.2 (by omega) r
    | _ => trivial

/-- every strict prefix of a document is a decode error: the size header frames the document -/
theorem prefix_fails (f : Nat) (kvs : List (Bytes × W)) (t : UInt8) (hsz : (encElems kvs).length + 5 < 2 ^ 31)
    (k : Nat) (hk : k < (encPayload (.doc kvs t)).length) :
    decDoc (f + 1) ((encPayload (.doc kvs t)).take k) = .err .eof := by
  rw [encPayload_doc_length] at hk
  simp only [encPayload, List.append_assoc]
  by_cases hlt : k < 4
  · have : readLE 4 ((toLE 4 ((encElems kvs).length + 5) ++ (encElems kvs ++ [t])).take k) = .err .eof :=
      readLE_short _ _ (by simp [List.length_take, toLE_length]; omega)
    simp [decDoc, this]
  · have hle : (toLE 4 ((encElems kvs).length + 5)).length ≤ k := by rw [toLE_length]; omega
    rw [take_append_of_le _ _ _ hle, toLE_length]
    have hsize := readLE_toLE 4 ((encElems kvs).length + 5) ((encElems kvs ++ [t]).take (k - 4)) (by rw [pow4]; omega)
    have h4 : ¬ (toSigned 32 ((encElems kvs).length + 5) < 4) := by
      simp [toSigned]; split <;> omega
    have hframe : readN ((encElems kvs).length + 1) ((encElems kvs ++ [t]).take (k - 4)) = .err .eof :=
      readN_short _ _ (by simp [List.length_take]; omega)
    simp [decDoc, hsize, h4, hframe]

/-! ### torepr of a decoded valid document -/

mutual
theorem reprOK_value : ∀ x, valid x = true → reprOK (value x) = true
  | .double _, _ => by simp [value, reprOK]
  | .str _, _ => by simp [value, reprOK]
  | .bin _ _, _ => by simp [value, reprOK]
  | .undefined, _ => by simp [value, reprOK]
  | .objectid _, _ => by simp [value, reprOK]
  | .bool _, _ => by simp [value, reprOK]
  | .datetime _, _ => by simp [value, reprOK]
  | .null, _ => by simp [value, reprOK]
  | .regexp _ _, _ => by simp [value, reprOK]
  | .js _, _ => by simp [value, reprOK]
  | .int32 _, _ => by simp [value, reprOK]
  | .timestamp _, _ => by simp [value, reprOK]
  | .int64 _, _ => by simp [value, reprOK]
  | .decimal128 _, _ => by simp [value, reprOK]
  | .minkey, _ => by simp [value, reprOK]
  | .maxkey, _ => by simp [value, reprOK]
  | .doc kvs _, h => by
    simp only [valid, Bool.and_eq_true] at h
    have ⟨h1, h2⟩ := reprOKKV_value kvs h.1.1
    simp [value, reprOK, h1, h2, h.1.2]
  | .arr xs _, h => by
    simp only [valid, Bool.and_eq_true] at h
    simp [value, reprOK, reprOKL_value xs h.1]
theorem reprOKKV_value : ∀ kvs, validKV kvs = true →
    reprOKKV (valueKV kvs) = true ∧ vkeys (valueKV kvs) = keysOfB kvs
  | [], _ => by simp [valueKV, reprOKKV, vkeys, keysOfB]
  | (k, x) :: r, h => by
    simp only [validKV, Bool.and_eq_true] at h
    have ⟨h1, h2⟩ := reprOKKV_value r h.2
    simp [valueKV, reprOKKV, vkeys, keysOfB, vkey, reprOK_value x h.1.2, h1, h2]
theorem reprOKL_value : ∀ kvs, validKV kvs = true → reprOKL (valueL kvs) = true
  | [], _ => by simp [valueL, reprOKL]
  | (k, x) :: r, h => by
    simp only [validKV, Bool.and_eq_true] at h
    simp [valueL, reprOKL, reprOK_value x h.1.2, reprOKL_value r h.2]
end

end Proofs.C16.Bson
