import FqModel.Serial.Cbor
import Proofs.C16Common
/-!
  C16 — cbor: round trip and truncation proofs for the model in FqModel/Serial/Cbor.lean, for the code as it
  is (`fix = false`, wire trees without indefinite-length strings) and for the repaired variant
  (`fix = true`, all wire trees).
-/
namespace Proofs.C16.Cbor
open FqModel.Serial FqModel.Serial.Cbor Proofs.C16

/-! ### bridges -/

theorem encodeL_eq (xs : List W) : encodeL xs = cat encode xs := by
  induction xs with
  | nil => simp [encodeL, cat]
  | cons x xs ih => simp [encodeL, cat_cons, ih]

theorem encodeKV_eq (kvs : List (W × W)) : encodeKV kvs = catKV encode kvs := by
  induction kvs with
  | nil => simp [encodeKV, catKV]
  | cons p kvs ih => obtain ⟨k, v⟩ := p; simp [encodeKV, catKV_cons, ih]

theorem valueL_eq (xs : List W) : valueL xs = xs.map value := by
  induction xs with
  | nil => simp [valueL]
  | cons x xs ih => simp [valueL, ih]

theorem valueKV_eq (kvs : List (W × W)) : valueKV kvs = kvs.map (fun p => (value p.1, value p.2)) := by
  induction kvs with
  | nil => simp [valueKV]
  | cons p kvs ih => obtain ⟨k, v⟩ := p; simp [valueKV, ih]

theorem validL_mem {xs : List W} (h : validL xs = true) : ∀ x ∈ xs, valid x = true := by
  induction xs with
  | nil => simp
  | cons x xs ih =>
    simp [validL] at h
    intro y hy
    simp at hy
    rcases hy with rfl | hy
    · exact h.1
    · exact ih h.2 y hy

theorem validKV_mem {kvs : List (W × W)} (h : validKV kvs = true) :
    ∀ p ∈ kvs, valid p.1 = true ∧ valid p.2 = true := by
  induction kvs with
  | nil => simp
  | cons p kvs ih =>
    obtain ⟨k, v⟩ := p
    simp [validKV] at h
    intro y hy
    simp at hy
    rcases hy with rfl | hy
    · exact ⟨h.1.1.2, h.1.2⟩
    · exact ih h.2 y hy

theorem noIndefStrL_mem {xs : List W} (h : noIndefStrL xs = true) : ∀ x ∈ xs, noIndefStr x = true := by
  induction xs with
  | nil => simp
  | cons x xs ih =>
    simp [noIndefStrL] at h
    intro y hy
    simp at hy
    rcases hy with rfl | hy
    · exact h.1
    · exact ih h.2 y hy

theorem noIndefStrKV_mem {kvs : List (W × W)} (h : noIndefStrKV kvs = true) :
    ∀ p ∈ kvs, noIndefStr p.1 = true ∧ noIndefStr p.2 = true := by
  induction kvs with
  | nil => simp
  | cons p kvs ih =>
    obtain ⟨k, v⟩ := p
    simp [noIndefStrKV] at h
    intro y hy
    simp at hy
    rcases hy with rfl | hy
    · exact ⟨h.1.1, h.1.2⟩
    · exact ih h.2 y hy

/-! ### the initial byte and its argument -/

theorem byte_toNat (n : Nat) (h : n < 256) : (byte n).toNat = n := by
  simp [byte, UInt8.toNat_ofNat', Nat.mod_eq_of_lt h]

theorem byte_ne_break (n : Nat) (h : n < 255) : byte n ≠ breakMarker := by
  intro hc
  have := congrArg UInt8.toNat hc
  rw [byte_toNat n (by omega)] at this
  simp [breakMarker] at this
  omega

/-- the short count an argument form puts into the initial byte -/
def scOf : Head → Nat → Nat
  | .direct, n => n
  | .h8, _ => 24
  | .h16, _ => 25
  | .h32, _ => 26
  | .h64, _ => 27

theorem scOf_ne_31 (h : Head) (n : Nat) (hok : headOk h n = true) : scOf h n ≠ 31 := by
  cases h <;> simp [headOk] at hok <;> simp [scOf] <;> omega

theorem scOf_lt (h : Head) (n : Nat) (hok : headOk h n = true) : scOf h n < 28 := by
  cases h <;> simp [headOk] at hok <;> simp [scOf] <;> omega

theorem decT_nil (fix : Bool) (f : Nat) : decT fix (f + 1) [] = .err .eof := rfl

theorem decT_byte (fix : Bool) (f typ sc : Nat) (bs : Bytes) (ht : typ < 8) (hs : sc < 32) :
    decT fix (f + 1) (byte (typ * 32 + sc) :: bs) =
      match readCount typ sc bs with
      | .err e => .err e
      | .ok (count, bs1) => runMajor fix (decT fix f) f typ sc count bs1 := by
  have h1 : (typ * 32 + sc) / 32 = typ := by omega
  have h2 : (typ * 32 + sc) % 32 = sc := by omega
  simp only [decT, byte_toNat (typ * 32 + sc) (by omega), h1, h2]
  split <;> simp_all

theorem pow1 : 256 ^ 1 = 2 ^ 8 := by decide
theorem pow2 : 256 ^ 2 = 2 ^ 16 := by decide
theorem pow4 : 256 ^ 4 = 2 ^ 32 := by decide
theorem pow8 : 256 ^ 8 = 2 ^ 64 := by decide

/-- decoding a head (major type < 7) followed by anything -/
theorem decT_head (fix : Bool) (f major : Nat) (h : Head) (n : Nat) (rest : Bytes)
    (hm : major < 7) (hok : headOk h n = true) :
    decT fix (f + 1) (encHead major h n ++ rest) = runMajor fix (decT fix f) f major (scOf h n) n rest := by
  have h7 : ¬ (major = 7) := by omega
  cases h <;> simp [headOk] at hok <;> simp only [encHead, scOf, List.cons_append, List.nil_append]
  · rw [decT_byte fix f major n _ (by omega) (by omega)]
    have : readCount major n rest = .ok (n, rest) := by
      have e1 : ¬ n = 24 := by omega
      have e2 : ¬ n = 25 := by omega
      have e3 : ¬ n = 26 := by omega
      have e4 : ¬ n = 27 := by omega
      have e5 : ¬ n = 28 := by omega
      have e6 : ¬ n = 29 := by omega
      have e7 : ¬ n = 30 := by omega
      simp [readCount, majorTypeSpecialFloat, h7, shortCountVariable8Bit, shortCountVariable16Bit, shortCountVariable32Bit,
        shortCountVariable64Bit, e1, e2, e3, e4, e5, e6, e7]
    rw [this]
  · rw [decT_byte fix f major 24 _ (by omega) (by omega)]
    have : readCount major 24 (toBE 1 n ++ rest) = .ok (n, rest) := by
      simp [readCount, majorTypeSpecialFloat, h7, shortCountVariable8Bit, readU_toBE 1 n rest (by rw [pow1]; exact hok)]
    rw [this]
  · rw [decT_byte fix f major 25 _ (by omega) (by omega)]
    have : readCount major 25 (toBE 2 n ++ rest) = .ok (n, rest) := by
      simp [readCount, majorTypeSpecialFloat, h7, shortCountVariable8Bit, shortCountVariable16Bit,
        readU_toBE 2 n rest (by rw [pow2]; exact hok)]
    rw [this]
  · rw [decT_byte fix f major 26 _ (by omega) (by omega)]
    have : readCount major 26 (toBE 4 n ++ rest) = .ok (n, rest) := by
      simp [readCount, majorTypeSpecialFloat, h7, shortCountVariable8Bit, shortCountVariable16Bit, shortCountVariable32Bit,
        readU_toBE 4 n rest (by rw [pow4]; exact hok)]
    rw [this]
  · rw [decT_byte fix f major 27 _ (by omega) (by omega)]
    have : readCount major 27 (toBE 8 n ++ rest) = .ok (n, rest) := by
      simp [readCount, majorTypeSpecialFloat, h7, shortCountVariable8Bit, shortCountVariable16Bit, shortCountVariable32Bit,
        shortCountVariable64Bit, readU_toBE 8 n rest (by rw [pow8]; exact hok)]
    rw [this]

theorem take_succ_byte (t : UInt8) (p : Bytes) (j : Nat) : (t :: p).take (j + 1) = t :: p.take j := by
  simp [List.take_succ_cons]

/-- a strict prefix of a head is a decode error -/
theorem decT_head_pf (fix : Bool) (f major : Nat) (h : Head) (n : Nat) (j : Nat)
    (hm : major < 7) (hj : j < (encHead major h n).length) :
    decT fix (f + 1) ((encHead major h n).take j) = .err .eof := by
  have h7 : ¬ (major = 7) := by omega
  cases j with
  | zero => rfl
  | succ j =>
    cases h <;> simp only [encHead] at hj ⊢
    · simp at hj
    · rw [take_succ_byte, decT_byte fix f major 24 _ (by omega) (by omega)]
      have : readCount major 24 ((toBE 1 n).take j) = .err .eof := by
        simp [readCount, majorTypeSpecialFloat, h7, shortCountVariable8Bit]
        apply readU_short; simp [toBE_length] at hj; simp [List.length_take, toBE_length]; omega
      rw [this]
    · rw [take_succ_byte, decT_byte fix f major 25 _ (by omega) (by omega)]
      have : readCount major 25 ((toBE 2 n).take j) = .err .eof := by
        simp [readCount, majorTypeSpecialFloat, h7, shortCountVariable8Bit, shortCountVariable16Bit]
        apply readU_short; simp [toBE_length] at hj; simp [List.length_take, toBE_length]; omega
      rw [this]
    · rw [take_succ_byte, decT_byte fix f major 26 _ (by omega) (by omega)]
      have : readCount major 26 ((toBE 4 n).take j) = .err .eof := by
        simp [readCount, majorTypeSpecialFloat, h7, shortCountVariable8Bit, shortCountVariable16Bit, shortCountVariable32Bit]
        apply readU_short; simp [toBE_length] at hj; simp [List.length_take, toBE_length]; omega
      rw [this]
    · rw [take_succ_byte, decT_byte fix f major 27 _ (by omega) (by omega)]
      have : readCount major 27 ((toBE 8 n).take j) = .err .eof := by
        simp [readCount, majorTypeSpecialFloat, h7, shortCountVariable8Bit, shortCountVariable16Bit, shortCountVariable32Bit,
          shortCountVariable64Bit]
        apply readU_short; simp [toBE_length] at hj; simp [List.length_take, toBE_length]; omega
      rw [this]

theorem encHead_pos (major : Nat) (h : Head) (n : Nat) : 0 < (encHead major h n).length := by
  cases h <;> simp [encHead]

theorem encHead_starts (major : Nat) (h : Head) (n : Nat) (hm : major < 7) (hok : headOk h n = true) (tail : Bytes) :
    StartsOK breakMarker (encHead major h n ++ tail) := by
  cases h <;> simp [headOk] at hok <;> simp only [encHead, List.cons_append, List.nil_append]
  · exact ⟨_, _, rfl, byte_ne_break _ (by omega)⟩
  · exact ⟨_, _, rfl, byte_ne_break _ (by omega)⟩
  · exact ⟨_, _, rfl, byte_ne_break _ (by omega)⟩
  · exact ⟨_, _, rfl, byte_ne_break _ (by omega)⟩
  · exact ⟨_, _, rfl, byte_ne_break _ (by omega)⟩

/-- head ++ payload, truncated inside the payload: the head is decoded, the payload is cut -/
theorem decT_head_take (fix : Bool) (f major : Nat) (h : Head) (n : Nat) (payload : Bytes) (j : Nat)
    (hm : major < 7) (hok : headOk h n = true) (hj : (encHead major h n).length ≤ j) :
    decT fix (f + 1) ((encHead major h n ++ payload).take j)
      = runMajor fix (decT fix f) f major (scOf h n) n (payload.take (j - (encHead major h n).length)) := by
  rw [take_append_of_le _ _ _ hj, decT_head fix f major h n _ hm hok]


/-! ### the chunk loop of indefinite-length strings -/

section chunks
variable (dec : Bytes → Res (V × Bool × Bytes)) (wantStr : Bool)
variable (encC : Head × Bytes → Bytes) (valC : Head × Bytes → V)

def catC (cs : List (Head × Bytes)) : Bytes := (cs.map encC).flatten

theorem catC_cons (c : Head × Bytes) (cs : List (Head × Bytes)) : catC encC (c :: cs) = encC c ++ catC encC cs := by
  simp [catC]

theorem decChunks_rt (cs : List (Head × Bytes)) (rest : Bytes) (lf : Nat)
    (hv : ∀ c ∈ cs, chunkOf wantStr (valC c) = some c.2)
    (hs : ∀ c ∈ cs, StartsOK breakMarker (encC c))
    (h : ∀ c ∈ cs, ∀ r, dec (encC c ++ r) = .ok (valC c, true, r))
    (hlf : cs.length < lf) :
    decChunks dec wantStr lf (catC encC cs ++ breakMarker :: rest) = .ok (cs.map (·.2), breakMarker :: rest) := by
  induction cs generalizing lf with
  | nil =>
    cases lf with
    | zero => omega
    | succ lf => simp [decChunks, catC]
  | cons c cs ih =>
    cases lf with
    | zero => omega
    | succ lf =>
      obtain ⟨b, t, hbt, hb⟩ := hs c (by simp)
      have hx := h c (by simp) (catC encC cs ++ breakMarker :: rest)
      have ih' := ih lf (fun y hy => hv y (by simp [hy])) (fun y hy => hs y (by simp [hy]))
        (fun y hy => h y (by simp [hy])) (by simp at hlf; omega)
      rw [catC_cons, List.append_assoc]
      rw [hbt] at hx ⊢
      simp only [List.cons_append] at hx ⊢
      simp [decChunks, hb, hx, hv c (by simp), ih']

theorem decChunks_pf (cs : List (Head × Bytes)) (k lf : Nat)
    (hv : ∀ c ∈ cs, chunkOf wantStr (valC c) = some c.2)
    (hs : ∀ c ∈ cs, StartsOK breakMarker (encC c))
    (hrt : ∀ c ∈ cs, ∀ r, dec (encC c ++ r) = .ok (valC c, true, r))
    (hpf : ∀ c ∈ cs, ∀ j, j < (encC c).length → dec ((encC c).take j) = .err .eof)
    (hk : k ≤ (catC encC cs).length) (hlf : k < lf) :
    decChunks dec wantStr lf ((catC encC cs ++ [breakMarker]).take k) = .err .eof := by
  induction cs generalizing k lf with
  | nil =>
    cases lf with
    | zero => omega
    | succ lf =>
      simp [catC] at hk
      subst hk
      simp [decChunks, catC]
  | cons c cs ih =>
    cases lf with
    | zero => omega
    | succ lf =>
      obtain ⟨b, t, hbt, hb⟩ := hs c (by simp)
      rw [catC_cons, List.append_assoc]
      by_cases hk0 : k = 0
      · subst hk0; simp [decChunks]
      by_cases hlt : k < (encC c).length
      · rw [take_append_of_lt _ _ _ hlt]
        have hp := hpf c (by simp) k hlt
        rw [hbt] at hp ⊢
        obtain ⟨k', rfl⟩ : ∃ k', k = k' + 1 := ⟨k - 1, by omega⟩
        simp only [List.take_succ_cons] at hp ⊢
        simp [decChunks, hb, hp]
      · have hle : (encC c).length ≤ k := by omega
        rw [take_append_of_le _ _ _ hle]
        have hx := hrt c (by simp) ((catC encC cs ++ [breakMarker]).take (k - (encC c).length))
        have hpos : 0 < (encC c).length := by rw [hbt]; simp
        have ih' := ih (k - (encC c).length) lf (fun y hy => hv y (by simp [hy])) (fun y hy => hs y (by simp [hy]))
          (fun y hy => hrt y (by simp [hy])) (fun y hy => hpf y (by simp [hy]))
          (by rw [catC_cons] at hk; simp at hk; omega) (by omega)
        generalize k - (encC c).length = m at hx ih' ⊢
        rw [hbt] at hx ⊢
        simp only [List.cons_append] at hx ⊢
        simp [decChunks, hb, hx, hv c (by simp), ih']

end chunks

theorem encChunks_eq (major : Nat) (cs : List (Head × Bytes)) :
    encChunks major cs = catC (fun c => encHead major c.1 c.2.length ++ c.2) cs := by
  induction cs with
  | nil => simp [encChunks, catC]
  | cons c cs ih => obtain ⟨h, b⟩ := c; simp [encChunks, catC_cons, ih]

theorem catChunks_eq (cs : List (Head × Bytes)) : catChunks cs = (cs.map (·.2)).flatten := by
  induction cs with
  | nil => simp [catChunks]
  | cons c cs ih => obtain ⟨h, b⟩ := c; simp [catChunks, ih]

theorem length_le_catC (encC : Head × Bytes → Bytes) (cs : List (Head × Bytes))
    (hne : ∀ c ∈ cs, 0 < (encC c).length) : cs.length ≤ (catC encC cs).length := by
  induction cs with
  | nil => simp
  | cons x xs ih =>
    have h1 := hne x (by simp)
    have h2 := ih (fun y hy => hne y (by simp [hy]))
    simp [catC_cons]; omega

/-! ### `runMajor`, branch by branch -/

section run
variable (fix : Bool) (dec : Bytes → Res (V × Bool × Bytes)) (lf : Nat)

theorem run_pos (sc n : Nat) (bs : Bytes) : runMajor fix dec lf 0 sc n bs = .ok (.int n, false, bs) := by
  simp [runMajor, majorTypePositiveInt]

theorem run_neg (sc n : Nat) (bs : Bytes) : runMajor fix dec lf 1 sc n bs = .ok (.int (-1 - (n : Int)), false, bs) := by
  simp [runMajor, majorTypePositiveInt, majorTypeNegativeInt]

theorem run_bytes (sc n : Nat) (bs : Bytes) (hsc : sc ≠ 31) (hn : n < 2 ^ 60) :
    runMajor fix dec lf 2 sc n bs =
      match readN n bs with
      | .err e => .err e
      | .ok (x, r) => .ok (.bytes x, true, r) := by
  have : ¬ (n ≥ 2 ^ 60) := by omega
  simp [runMajor, majorTypePositiveInt, majorTypeNegativeInt, majorTypeBytes, shortCountIndefinite, hsc, this]
  split <;> simp_all

theorem run_str (sc n : Nat) (bs : Bytes) (hsc : sc ≠ 31) (hn : n < 2 ^ 60) :
    runMajor fix dec lf 3 sc n bs =
      match readN n bs with
      | .err e => .err e
      | .ok (x, r) => .ok (.str (sanitizeX x), true, r) := by
  have : ¬ (n ≥ 2 ^ 60) := by omega
  simp [runMajor, majorTypePositiveInt, majorTypeNegativeInt, majorTypeBytes, majorTypeUTF8, shortCountIndefinite, hsc, this]
  split <;> simp_all

theorem run_bytesI (n : Nat) (bs : Bytes) :
    runMajor fix dec lf 2 31 n bs =
      match decChunks dec false lf bs with
      | .err e => .err e
      | .ok (cs, r) => .ok (.bytes cs.flatten, false, if fix then r.drop 1 else r) := by
  simp [runMajor, majorTypePositiveInt, majorTypeNegativeInt, majorTypeBytes, shortCountIndefinite]
  split <;> simp_all

theorem run_strI (n : Nat) (bs : Bytes) :
    runMajor fix dec lf 3 31 n bs =
      match decChunks dec true lf bs with
      | .err e => .err e
      | .ok (cs, r) => .ok (.str cs.flatten, false, if fix then r.drop 1 else r) := by
  simp [runMajor, majorTypePositiveInt, majorTypeNegativeInt, majorTypeBytes, majorTypeUTF8, shortCountIndefinite]
  split <;> simp_all

theorem run_arr (sc n : Nat) (bs : Bytes) (hsc : sc ≠ 31) :
    runMajor fix dec lf 4 sc n bs =
      match decElems (fun x => dropRet (dec x)) n bs with
      | .err e => .err e
      | .ok (vs, r) => .ok (.arr vs, false, r) := by
  simp [runMajor, majorTypePositiveInt, majorTypeNegativeInt, majorTypeBytes, majorTypeUTF8, majorTypeArray,
    shortCountIndefinite, hsc]
  split <;> simp_all

theorem run_arrI (n : Nat) (bs : Bytes) :
    runMajor fix dec lf 4 31 n bs =
      match decUntil breakMarker (fun x => dropRet (dec x)) lf bs with
      | .err e => .err e
      | .ok (vs, r) => .ok (.arr vs, false, r.drop 1) := by
  simp [runMajor, majorTypePositiveInt, majorTypeNegativeInt, majorTypeBytes, majorTypeUTF8, majorTypeArray,
    shortCountIndefinite]
  split <;> simp_all

theorem run_map (sc n : Nat) (bs : Bytes) (hsc : sc ≠ 31) :
    runMajor fix dec lf 5 sc n bs =
      match decPairs (fun x => dropRet (dec x)) n bs with
      | .err e => .err e
      | .ok (kvs, r) => .ok (.map kvs, false, r) := by
  simp [runMajor, majorTypePositiveInt, majorTypeNegativeInt, majorTypeBytes, majorTypeUTF8, majorTypeArray,
    majorTypeMap, shortCountIndefinite, hsc]
  split <;> simp_all

theorem run_mapI (n : Nat) (bs : Bytes) :
    runMajor fix dec lf 5 31 n bs =
      match decPairsUntil breakMarker (fun x => dropRet (dec x)) lf bs with
      | .err e => .err e
      | .ok (kvs, r) => .ok (.map kvs, false, r.drop 1) := by
  simp [runMajor, majorTypePositiveInt, majorTypeNegativeInt, majorTypeBytes, majorTypeUTF8, majorTypeArray,
    majorTypeMap, shortCountIndefinite]
  split <;> simp_all

theorem run_tag (sc n : Nat) (bs : Bytes) :
    runMajor fix dec lf 6 sc n bs =
      match dropRet (dec bs) with
      | .err e => .err e
      | .ok (v, r) => .ok (.tagged n v, false, r) := by
  simp [runMajor, majorTypePositiveInt, majorTypeNegativeInt, majorTypeBytes, majorTypeUTF8, majorTypeArray,
    majorTypeMap, majorTypeSematic]
  split <;> simp_all

end run


section special
variable (fix : Bool) (dec : Bytes → Res (V × Bool × Bytes)) (lf : Nat)

theorem run_false (n : Nat) (bs : Bytes) : runMajor fix dec lf 7 20 n bs = .ok (.bool false, false, bs) := by
  simp [runMajor, majorTypePositiveInt, majorTypeNegativeInt, majorTypeBytes, majorTypeUTF8, majorTypeArray,
    majorTypeMap, majorTypeSematic, shortCountSpecialFalse]
theorem run_true (n : Nat) (bs : Bytes) : runMajor fix dec lf 7 21 n bs = .ok (.bool true, false, bs) := by
  simp [runMajor, majorTypePositiveInt, majorTypeNegativeInt, majorTypeBytes, majorTypeUTF8, majorTypeArray,
    majorTypeMap, majorTypeSematic, shortCountSpecialFalse, shortCountSpecialTrue]
theorem run_null (n : Nat) (bs : Bytes) : runMajor fix dec lf 7 22 n bs = .ok (.null, false, bs) := by
  simp [runMajor, majorTypePositiveInt, majorTypeNegativeInt, majorTypeBytes, majorTypeUTF8, majorTypeArray,
    majorTypeMap, majorTypeSematic, shortCountSpecialFalse, shortCountSpecialTrue, shortCountSpecialFloat16Bit,
    shortCountSpecialFloat32Bit, shortCountSpecialFloat64Bit]
theorem run_f16 (n : Nat) (bs : Bytes) :
    runMajor fix dec lf 7 25 n bs =
      match readU 2 bs with
      | .err e => .err e
      | .ok (p, r) => .ok (.float (widen16 p), false, r) := by
  simp [runMajor, majorTypePositiveInt, majorTypeNegativeInt, majorTypeBytes, majorTypeUTF8, majorTypeArray,
    majorTypeMap, majorTypeSematic, shortCountSpecialFalse, shortCountSpecialTrue, shortCountSpecialFloat16Bit]
  split <;> simp_all
theorem run_f32 (n : Nat) (bs : Bytes) :
    runMajor fix dec lf 7 26 n bs =
      match readU 4 bs with
      | .err e => .err e
      | .ok (p, r) => .ok (.float (widen32 p), false, r) := by
  simp [runMajor, majorTypePositiveInt, majorTypeNegativeInt, majorTypeBytes, majorTypeUTF8, majorTypeArray,
    majorTypeMap, majorTypeSematic, shortCountSpecialFalse, shortCountSpecialTrue, shortCountSpecialFloat16Bit,
    shortCountSpecialFloat32Bit]
  split <;> simp_all
theorem run_f64 (n : Nat) (bs : Bytes) :
    runMajor fix dec lf 7 27 n bs =
      match readU 8 bs with
      | .err e => .err e
      | .ok (p, r) => .ok (.float p, false, r) := by
  simp [runMajor, majorTypePositiveInt, majorTypeNegativeInt, majorTypeBytes, majorTypeUTF8, majorTypeArray,
    majorTypeMap, majorTypeSematic, shortCountSpecialFalse, shortCountSpecialTrue, shortCountSpecialFloat16Bit,
    shortCountSpecialFloat32Bit, shortCountSpecialFloat64Bit]
  split <;> simp_all

theorem run_other (sc n : Nat) (bs : Bytes) (h : sc < 20 ∨ sc = 23) :
    runMajor fix dec lf 7 sc n bs = .ok (.null, false, bs) := by
  have e1 : ¬ sc = 20 := by omega
  have e2 : ¬ sc = 21 := by omega
  have e3 : ¬ sc = 25 := by omega
  have e4 : ¬ sc = 26 := by omega
  have e5 : ¬ sc = 27 := by omega
  simp [runMajor, majorTypePositiveInt, majorTypeNegativeInt, majorTypeBytes, majorTypeUTF8, majorTypeArray,
    majorTypeMap, majorTypeSematic, shortCountSpecialFalse, shortCountSpecialTrue, shortCountSpecialFloat16Bit,
    shortCountSpecialFloat32Bit, shortCountSpecialFloat64Bit, e1, e2, e3, e4, e5]

end special

theorem decT_special (fix : Bool) (f sc : Nat) (bs : Bytes) (hs : sc < 32) :
    decT fix (f + 1) (byte (7 * 32 + sc) :: bs) = runMajor fix (decT fix f) f 7 sc sc bs := by
  rw [decT_byte fix f 7 sc bs (by omega) hs]
  simp [readCount, majorTypeSpecialFloat]

theorem decT_indef (fix : Bool) (f typ : Nat) (bs : Bytes) (ht : typ < 7) :
    decT fix (f + 1) (byte (typ * 32 + 31) :: bs) = runMajor fix (decT fix f) f typ 31 31 bs := by
  rw [decT_byte fix f typ 31 bs (by omega) (by omega)]
  have : ¬ typ = 7 := by omega
  simp [readCount, majorTypeSpecialFloat, this, shortCountVariable8Bit, shortCountVariable16Bit,
    shortCountVariable32Bit, shortCountVariable64Bit]

/-! ### leaves -/

def retOf : W → Bool
  | .bytes _ _ => true
  | .str _ _ => true
  | _ => false

def RT (fix : Bool) (f : Nat) (x : W) : Prop :=
  ∀ rest, decT fix f (encode x ++ rest) = .ok (value x, retOf x, rest)
def PF (fix : Bool) (f : Nat) (x : W) : Prop :=
  ∀ k, k < (encode x).length → k < f → decT fix f ((encode x).take k) = .err .eof

theorem valid_sanitize {s : Bytes} (h : validUTF8 s = true) : sanitizeX s = s := by
  simpa [validUTF8] using h

theorem rt_bytes (fix : Bool) (f : Nat) (h : Head) (b rest : Bytes) (hok : headOk h b.length = true)
    (hl : b.length < 2 ^ 60) :
    decT fix (f + 1) (encHead 2 h b.length ++ (b ++ rest)) = .ok (.bytes b, true, rest) := by
  rw [decT_head fix f 2 h b.length _ (by omega) hok, run_bytes fix _ _ _ _ _ (scOf_ne_31 h _ hok) hl, readN_append]

theorem rt_str (fix : Bool) (f : Nat) (h : Head) (s rest : Bytes) (hok : headOk h s.length = true)
    (hl : s.length < 2 ^ 60) (hu : validUTF8 s = true) :
    decT fix (f + 1) (encHead 3 h s.length ++ (s ++ rest)) = .ok (.str s, true, rest) := by
  rw [decT_head fix f 3 h s.length _ (by omega) hok, run_str fix _ _ _ _ _ (scOf_ne_31 h _ hok) hl, readN_append]
  simp [valid_sanitize hu]

theorem pf_strlike (fix : Bool) (f major : Nat) (hmaj : major = 2 ∨ major = 3) (h : Head) (b : Bytes)
    (hok : headOk h b.length = true) (hl : b.length < 2 ^ 60) (k : Nat)
    (hk : k < (encHead major h b.length ++ b).length) :
    decT fix (f + 1) ((encHead major h b.length ++ b).take k) = .err .eof := by
  by_cases hlt : k < (encHead major h b.length).length
  · rw [take_append_of_lt _ _ _ hlt]
    exact decT_head_pf fix f major h _ k (by omega) hlt
  · rw [decT_head_take fix f major h _ b k (by omega) hok (by omega)]
    have hshort : (b.take (k - (encHead major h b.length).length)).length < b.length := by
      simp at hk; simp [List.length_take]; omega
    rcases hmaj with rfl | rfl
    · rw [run_bytes fix _ _ _ _ _ (scOf_ne_31 h _ hok) hl, readN_short _ _ hshort]
    · rw [run_str fix _ _ _ _ _ (scOf_ne_31 h _ hok) hl, readN_short _ _ hshort]

theorem rt_int (fix : Bool) (f : Nat) (h : Head) (i : Int) (rest : Bytes)
    (hv : valid (.int h i) = true) :
    decT fix (f + 1) (encode (.int h i) ++ rest) = .ok (.int i, false, rest) := by
  simp only [valid, Bool.and_eq_true, decide_eq_true_eq] at hv
  obtain ⟨⟨h1, h2⟩, hok⟩ := hv
  simp only [encode]
  by_cases hneg : i < 0
  · simp only [hneg, if_true] at hok ⊢
    rw [decT_head fix f 1 h _ rest (by omega) hok, run_neg]
    have : (-1 - (((-1 - i).toNat : Nat) : Int)) = i := by omega
    rw [this]
  · simp only [hneg, if_false] at hok ⊢
    rw [decT_head fix f 0 h _ rest (by omega) hok, run_pos]
    have : ((i.toNat : Nat) : Int) = i := by omega
    rw [this]

theorem pf_int (fix : Bool) (f : Nat) (h : Head) (i : Int) (k : Nat) (hk : k < (encode (.int h i)).length) :
    decT fix (f + 1) ((encode (.int h i)).take k) = .err .eof := by
  simp only [encode] at hk ⊢
  by_cases hneg : i < 0
  · simp only [hneg, if_true] at hk ⊢
    exact decT_head_pf fix f 1 h _ k (by omega) hk
  · simp only [hneg, if_false] at hk ⊢
    exact decT_head_pf fix f 0 h _ k (by omega) hk

theorem float_rt (fix : Bool) (f sc n : Nat) (mk : Nat → V) (p : Nat) (rest : Bytes) (hs : sc < 32)
    (hrun : ∀ bs, runMajor fix (decT fix f) f 7 sc sc bs =
      match readU n bs with
      | .err e => .err e
      | .ok (p, r) => .ok (mk p, false, r))
    (hp : p < 256 ^ n) :
    decT fix (f + 1) (byte (7 * 32 + sc) :: (toBE n p ++ rest)) = .ok (mk p, false, rest) := by
  rw [decT_special fix f sc _ hs, hrun, readU_toBE n p rest hp]

theorem float_pf (fix : Bool) (f sc n : Nat) (mk : Nat → V) (p : Nat) (hs : sc < 32)
    (hrun : ∀ bs, runMajor fix (decT fix f) f 7 sc sc bs =
      match readU n bs with
      | .err e => .err e
      | .ok (p, r) => .ok (mk p, false, r))
    (k : Nat) (hk : k < (byte (7 * 32 + sc) :: toBE n p).length) :
    decT fix (f + 1) ((byte (7 * 32 + sc) :: toBE n p).take k) = .err .eof := by
  cases k with
  | zero => rfl
  | succ j =>
    rw [take_succ_byte, decT_special fix f sc _ hs, hrun, readU_short]
    simp [toBE_length] at hk
    simp [List.length_take, toBE_length]; omega


/-! ### the main induction -/

theorem chunksOk_mem {u : Bool} {cs : List (Head × Bytes)} (h : chunksOk u cs = true) :
    ∀ c ∈ cs, headOk c.1 c.2.length = true ∧ c.2.length < 2 ^ 60 ∧ (u = true → validUTF8 c.2 = true) := by
  induction cs with
  | nil => simp
  | cons c cs ih =>
    obtain ⟨hd, b⟩ := c
    simp [chunksOk] at h
    intro y hy
    simp at hy
    rcases hy with rfl | hy
    · exact ⟨h.1.1.1, h.1.1.2, fun hu => by cases u <;> simp_all⟩
    · exact ih h.2 y hy

theorem startsOK_encode (x : W) (hv : valid x = true) : StartsOK breakMarker (encode x) := by
  cases x with
  | int h i =>
    simp only [valid, Bool.and_eq_true, decide_eq_true_eq] at hv
    simp only [encode]
    by_cases hneg : i < 0
    · simp only [hneg, if_true] at hv ⊢
      simpa using encHead_starts 1 h _ (by omega) hv.2 []
    · simp only [hneg, if_false] at hv ⊢
      simpa using encHead_starts 0 h _ (by omega) hv.2 []
  | bytes h b =>
    simp only [valid, Bool.and_eq_true] at hv
    exact encHead_starts 2 h _ (by omega) hv.1 b
  | str h s =>
    simp only [valid, Bool.and_eq_true] at hv
    exact encHead_starts 3 h _ (by omega) hv.1.1 s
  | arr h xs =>
    simp only [valid, Bool.and_eq_true] at hv
    exact encHead_starts 4 h _ (by omega) hv.1 _
  | map h kvs =>
    simp only [valid, Bool.and_eq_true] at hv
    exact encHead_starts 5 h _ (by omega) hv.1.1 _
  | bytesI cs => exact ⟨_, _, rfl, byte_ne_break _ (by omega)⟩
  | strI cs => exact ⟨_, _, rfl, byte_ne_break _ (by omega)⟩
  | arrI xs => exact ⟨_, _, rfl, byte_ne_break _ (by omega)⟩
  | mapI kvs => exact ⟨_, _, rfl, byte_ne_break _ (by omega)⟩
  | bool b => cases b <;> exact ⟨_, _, rfl, byte_ne_break _ (by decide)⟩
  | null => exact ⟨_, _, rfl, byte_ne_break _ (by omega)⟩
  | f16 p => exact ⟨_, _, rfl, byte_ne_break _ (by omega)⟩
  | f32 p => exact ⟨_, _, rfl, byte_ne_break _ (by omega)⟩
  | f64 p => exact ⟨_, _, rfl, byte_ne_break _ (by omega)⟩
  | undefined => exact ⟨_, _, rfl, byte_ne_break _ (by omega)⟩
  | simple n =>
    simp only [valid, decide_eq_true_eq] at hv
    exact ⟨_, _, rfl, byte_ne_break _ (by omega)⟩
  | tag h t x =>
    simp only [valid, Bool.and_eq_true] at hv
    exact encHead_starts 6 h _ (by omega) hv.1 _

theorem dropRet_ok (v : V) (b : Bool) (r : Bytes) : dropRet (.ok (v, b, r)) = .ok (v, r) := rfl
theorem dropRet_err (e : Err) : dropRet (.err e) = .err e := rfl

/-- which wire trees the variant `fix` handles -/
def Handles (fix : Bool) (x : W) : Prop := fix = true ∨ noIndefStr x = true

theorem rt_step (fix : Bool) (f : Nat)
    (ih : ∀ y, valid y = true → Handles fix y → (encode y).length < f → RT fix f y)
    (x : W) (hv : valid x = true) (hfx : Handles fix x) (hl : (encode x).length < f + 1) : RT fix (f + 1) x := by
  intro rest
  cases x with
  | int h i => exact rt_int fix f h i rest hv
  | bytes h b =>
    simp only [valid, Bool.and_eq_true, decide_eq_true_eq] at hv
    simp only [encode, value, retOf, List.append_assoc]
    exact rt_bytes fix f h b rest hv.1 hv.2
  | str h s =>
    simp only [valid, Bool.and_eq_true, decide_eq_true_eq] at hv
    simp only [encode, value, retOf, List.append_assoc]
    exact rt_str fix f h s rest hv.1.1 hv.1.2 hv.2
  | bool b =>
    cases b
    · exact (decT_special fix f 20 rest (by omega)).trans (run_false fix _ _ _ _)
    · exact (decT_special fix f 21 rest (by omega)).trans (run_true fix _ _ _ _)
  | null => exact (decT_special fix f 22 rest (by omega)).trans (run_null fix _ _ _ _)
  | f16 p =>
    simp only [valid, decide_eq_true_eq] at hv
    exact float_rt fix f 25 2 (fun p => .float (widen16 p)) p rest (by omega) (run_f16 fix _ _ _) (by rw [pow2]; exact hv)
  | f32 p =>
    simp only [valid, decide_eq_true_eq] at hv
    exact float_rt fix f 26 4 (fun p => .float (widen32 p)) p rest (by omega) (run_f32 fix _ _ _) (by rw [pow4]; exact hv)
  | f64 p =>
    simp only [valid, decide_eq_true_eq] at hv
    exact float_rt fix f 27 8 .float p rest (by omega) (run_f64 fix _ _ _) (by rw [pow8]; exact hv)
  | tag h t x =>
    simp only [valid, Bool.and_eq_true] at hv
    have hpos := encHead_pos 6 h t
    have hx := ih x hv.2 (hfx.imp id (fun hn => by simpa [noIndefStr] using hn))
      (by simp only [encode, List.length_append] at hl; omega) rest
    simp only [encode, value, retOf, List.append_assoc]
    rw [decT_head fix f 6 h t _ (by omega) hv.1, run_tag, hx, dropRet_ok]
  | undefined => exact (decT_special fix f 23 rest (by omega)).trans (run_other fix _ _ _ _ _ (Or.inr rfl))
  | simple n =>
    simp only [valid, decide_eq_true_eq] at hv
    simp only [encode, value, retOf, List.cons_append, List.nil_append]
    rw [show 0xe0 + n = 7 * 32 + n by omega, decT_special fix f n rest (by omega), run_other fix _ _ _ _ _ (Or.inl hv)]
  | bytesI cs =>
    have hfix : fix = true := by
      rcases hfx with h | h
      · exact h
      · simp [noIndefStr] at h
    subst hfix
    simp only [valid] at hv
    have hcs := chunksOk_mem hv
    simp only [encode, value, retOf, List.cons_append, List.nil_append, List.append_assoc, encChunks_eq, catChunks_eq] at hl ⊢
    obtain ⟨f', rfl⟩ : ∃ f', f = f' + 1 := ⟨f - 1, by simp at hl; omega⟩
    rw [show byte 0x5f = byte (2 * 32 + 31) from rfl, decT_indef true (f' + 1) 2 _ (by omega), run_bytesI]
    have hlen := length_le_catC (fun c => encHead 2 c.1 c.2.length ++ c.2) cs
      (fun c _ => by have := encHead_pos 2 c.1 c.2.length; simp; omega)
    rw [decChunks_rt (decT true (f' + 1)) false (fun c => encHead 2 c.1 c.2.length ++ c.2) (fun c => .bytes c.2) cs rest
      (f' + 1) (fun c _ => by simp [chunkOf])
      (fun c hc => encHead_starts 2 c.1 _ (by omega) (hcs c hc).1 c.2)
      (fun c hc r => by
        simp only [List.append_assoc]
        exact rt_bytes true f' c.1 c.2 r (hcs c hc).1 (hcs c hc).2.1)
      (by simp at hl; omega)]
    simp
  | strI cs =>
    have hfix : fix = true := by
      rcases hfx with h | h
      · exact h
      · simp [noIndefStr] at h
    subst hfix
    simp only [valid] at hv
    have hcs := chunksOk_mem hv
    simp only [encode, value, retOf, List.cons_append, List.nil_append, List.append_assoc, encChunks_eq, catChunks_eq] at hl ⊢
    obtain ⟨f', rfl⟩ : ∃ f', f = f' + 1 := ⟨f - 1, by simp at hl; omega⟩
    rw [show byte 0x7f = byte (3 * 32 + 31) from rfl, decT_indef true (f' + 1) 3 _ (by omega), run_strI]
    have hlen := length_le_catC (fun c => encHead 3 c.1 c.2.length ++ c.2) cs
      (fun c _ => by have := encHead_pos 3 c.1 c.2.length; simp; omega)
    rw [decChunks_rt (decT true (f' + 1)) true (fun c => encHead 3 c.1 c.2.length ++ c.2) (fun c => .str c.2) cs rest
      (f' + 1) (fun c _ => by simp [chunkOf])
      (fun c hc => encHead_starts 3 c.1 _ (by omega) (hcs c hc).1 c.2)
      (fun c hc r => by
        simp only [List.append_assoc]
        exact rt_str true f' c.1 c.2 r (hcs c hc).1 (hcs c hc).2.1 ((hcs c hc).2.2 rfl))
      (by simp at hl; omega)]
    simp
  | arr h xs =>
    simp only [valid, Bool.and_eq_true] at hv
    obtain ⟨hok, hvl⟩ := hv
    have hmem := validL_mem hvl
    have hhm : ∀ x ∈ xs, Handles fix x := fun x hx => hfx.imp id (fun hn => noIndefStrL_mem (by simpa [noIndefStr] using hn) x hx)
    simp only [encode, List.length_append, encodeL_eq] at hl
    simp only [encode, value, retOf, List.append_assoc, encodeL_eq, valueL_eq]
    have hpos := encHead_pos 4 h xs.length
    have helem : ∀ x ∈ xs, ∀ r, dropRet (decT fix f (encode x ++ r)) = .ok (value x, r) := fun x hx r => by
      rw [ih x (hmem x hx) (hhm x hx) (by have := mem_length_le_cat encode xs x hx; omega) r, dropRet_ok]
    rw [decT_head fix f 4 h _ _ (by omega) hok, run_arr fix _ _ _ _ _ (scOf_ne_31 h _ hok),
      decElems_rt (fun x => dropRet (decT fix f x)) encode value xs rest helem]
  | arrI xs =>
    simp only [valid] at hv
    have hmem := validL_mem hv
    have hhm : ∀ x ∈ xs, Handles fix x := fun x hx => hfx.imp id (fun hn => noIndefStrL_mem (by simpa [noIndefStr] using hn) x hx)
    simp only [encode, List.length_cons, List.length_append, encodeL_eq] at hl
    simp only [encode, value, retOf, List.cons_append, List.nil_append, List.append_assoc, encodeL_eq, valueL_eq]
    have helem : ∀ x ∈ xs, ∀ r, dropRet (decT fix f (encode x ++ r)) = .ok (value x, r) := fun x hx r => by
      rw [ih x (hmem x hx) (hhm x hx) (by have := mem_length_le_cat encode xs x hx; omega) r, dropRet_ok]
    have hlen := length_le_cat encode xs (fun x hx => (startsOK_encode x (hmem x hx)).pos)
    rw [show byte 0x9f = byte (4 * 32 + 31) from rfl, decT_indef fix f 4 _ (by omega), run_arrI,
      decUntil_rt breakMarker (fun x => dropRet (decT fix f x)) encode value xs rest f
        (fun x hx => startsOK_encode x (hmem x hx)) helem (by simp at hl; omega)]
    simp
  | map h kvs =>
    simp only [valid, Bool.and_eq_true] at hv
    obtain ⟨⟨hok, hvl⟩, _⟩ := hv
    have hmem := validKV_mem hvl
    have hhm : ∀ p ∈ kvs, Handles fix p.1 ∧ Handles fix p.2 := fun p hp =>
      ⟨hfx.imp id (fun hn => (noIndefStrKV_mem (by simpa [noIndefStr] using hn) p hp).1),
       hfx.imp id (fun hn => (noIndefStrKV_mem (by simpa [noIndefStr] using hn) p hp).2)⟩
    simp only [encode, List.length_append, encodeKV_eq] at hl
    simp only [encode, value, retOf, List.append_assoc, encodeKV_eq, valueKV_eq]
    have hpos := encHead_pos 5 h kvs.length
    have helem : ∀ p ∈ kvs, (∀ r, dropRet (decT fix f (encode p.1 ++ r)) = .ok (value p.1, r)) ∧
        (∀ r, dropRet (decT fix f (encode p.2 ++ r)) = .ok (value p.2, r)) := fun p hp => by
      have hle := mem_length_le_catKV encode kvs p hp
      exact ⟨fun r => by rw [ih p.1 (hmem p hp).1 (hhm p hp).1 (by omega) r, dropRet_ok],
             fun r => by rw [ih p.2 (hmem p hp).2 (hhm p hp).2 (by omega) r, dropRet_ok]⟩
    rw [decT_head fix f 5 h _ _ (by omega) hok, run_map fix _ _ _ _ _ (scOf_ne_31 h _ hok),
      decPairs_rt (fun x => dropRet (decT fix f x)) encode value kvs rest helem]
  | mapI kvs =>
    simp only [valid, Bool.and_eq_true] at hv
    obtain ⟨hvl, _⟩ := hv
    have hmem := validKV_mem hvl
    have hhm : ∀ p ∈ kvs, Handles fix p.1 ∧ Handles fix p.2 := fun p hp =>
      ⟨hfx.imp id (fun hn => (noIndefStrKV_mem (by simpa [noIndefStr] using hn) p hp).1),
       hfx.imp id (fun hn => (noIndefStrKV_mem (by simpa [noIndefStr] using hn) p hp).2)⟩
    simp only [encode, List.length_cons, List.length_append, encodeKV_eq] at hl
    simp only [encode, value, retOf, List.cons_append, List.nil_append, List.append_assoc, encodeKV_eq, valueKV_eq]
    have helem : ∀ p ∈ kvs, (∀ r, dropRet (decT fix f (encode p.1 ++ r)) = .ok (value p.1, r)) ∧
        (∀ r, dropRet (decT fix f (encode p.2 ++ r)) = .ok (value p.2, r)) := fun p hp => by
      have hle := mem_length_le_catKV encode kvs p hp
      exact ⟨fun r => by rw [ih p.1 (hmem p hp).1 (hhm p hp).1 (by omega) r, dropRet_ok],
             fun r => by rw [ih p.2 (hmem p hp).2 (hhm p hp).2 (by omega) r, dropRet_ok]⟩
    have hlen := length_le_catKV encode kvs (fun p hp => (startsOK_encode p.1 (hmem p hp).1).pos)
    rw [show byte 0xbf = byte (5 * 32 + 31) from rfl, decT_indef fix f 5 _ (by omega), run_mapI,
      decPairsUntil_rt breakMarker (fun x => dropRet (decT fix f x)) encode value kvs rest f
        (fun p hp => startsOK_encode p.1 (hmem p hp).1) helem (by simp at hl; omega)]
    simp


theorem pf_step (fix : Bool) (f : Nat)
    (ihrt : ∀ y, valid y = true → Handles fix y → (encode y).length < f → RT fix f y)
    (ihpf : ∀ y, valid y = true → Handles fix y → PF fix f y)
    (x : W) (hv : valid x = true) (hfx : Handles fix x) : PF fix (f + 1) x := by
  intro k hk hkf
  cases x with
  | int h i => exact pf_int fix f h i k hk
  | bytes h b =>
    simp only [valid, Bool.and_eq_true, decide_eq_true_eq] at hv
    simp only [encode] at hk ⊢
    exact pf_strlike fix f 2 (Or.inl rfl) h b hv.1 hv.2 k hk
  | str h s =>
    simp only [valid, Bool.and_eq_true, decide_eq_true_eq] at hv
    simp only [encode] at hk ⊢
    exact pf_strlike fix f 3 (Or.inr rfl) h s hv.1.1 hv.1.2 k hk
  | bool b => simp [encode] at hk; subst hk; rfl
  | null => simp [encode] at hk; subst hk; rfl
  | tag h t x =>
    simp only [valid, Bool.and_eq_true] at hv
    simp only [encode] at hk ⊢
    have hpos := encHead_pos 6 h t
    by_cases hlt : k < (encHead 6 h t).length
    · rw [take_append_of_lt _ _ _ hlt]
      exact decT_head_pf fix f 6 h _ k (by omega) hlt
    · rw [decT_head_take fix f 6 h _ _ k (by omega) hv.1 (by omega), run_tag,
        ihpf x hv.2 (hfx.imp id (fun hn => by simpa [noIndefStr] using hn)) (k - (encHead 6 h t).length)
          (by simp at hk; omega) (by omega), dropRet_err]
  | undefined => simp [encode] at hk; subst hk; rfl
  | simple n => simp [encode] at hk; subst hk; rfl
  | f16 p => exact float_pf fix f 25 2 (fun p => .float (widen16 p)) p (by omega) (run_f16 fix _ _ _) k hk
  | f32 p => exact float_pf fix f 26 4 (fun p => .float (widen32 p)) p (by omega) (run_f32 fix _ _ _) k hk
  | f64 p => exact float_pf fix f 27 8 .float p (by omega) (run_f64 fix _ _ _) k hk
  | bytesI cs =>
    simp only [valid] at hv
    have hcs := chunksOk_mem hv
    simp only [encode, encChunks_eq] at hk ⊢
    cases k with
    | zero => rfl
    | succ j =>
      obtain ⟨f', rfl⟩ : ∃ f', f = f' + 1 := ⟨f - 1, by omega⟩
      rw [take_succ_byte, show byte 0x5f = byte (2 * 32 + 31) from rfl, decT_indef fix (f' + 1) 2 _ (by omega),
        run_bytesI,
        decChunks_pf (decT fix (f' + 1)) false (fun c => encHead 2 c.1 c.2.length ++ c.2) (fun c => .bytes c.2) cs j
          (f' + 1) (fun c _ => by simp [chunkOf])
          (fun c hc => encHead_starts 2 c.1 _ (by omega) (hcs c hc).1 c.2)
          (fun c hc r => by
            simp only [List.append_assoc]
            exact rt_bytes fix f' c.1 c.2 r (hcs c hc).1 (hcs c hc).2.1)
          (fun c hc i hi => pf_strlike fix f' 2 (Or.inl rfl) c.1 c.2 (hcs c hc).1 (hcs c hc).2.1 i hi)
          (by simp at hk; omega) (by omega)]
  | strI cs =>
    simp only [valid] at hv
    have hcs := chunksOk_mem hv
    simp only [encode, encChunks_eq] at hk ⊢
    cases k with
    | zero => rfl
    | succ j =>
      obtain ⟨f', rfl⟩ : ∃ f', f = f' + 1 := ⟨f - 1, by omega⟩
      rw [take_succ_byte, show byte 0x7f = byte (3 * 32 + 31) from rfl, decT_indef fix (f' + 1) 3 _ (by omega),
        run_strI,
        decChunks_pf (decT fix (f' + 1)) true (fun c => encHead 3 c.1 c.2.length ++ c.2) (fun c => .str c.2) cs j
          (f' + 1) (fun c _ => by simp [chunkOf])
          (fun c hc => encHead_starts 3 c.1 _ (by omega) (hcs c hc).1 c.2)
          (fun c hc r => by
            simp only [List.append_assoc]
            exact rt_str fix f' c.1 c.2 r (hcs c hc).1 (hcs c hc).2.1 ((hcs c hc).2.2 rfl))
          (fun c hc i hi => pf_strlike fix f' 3 (Or.inr rfl) c.1 c.2 (hcs c hc).1 (hcs c hc).2.1 i hi)
          (by simp at hk; omega) (by omega)]
  | arr h xs =>
    simp only [valid, Bool.and_eq_true] at hv
    obtain ⟨hok, hvl⟩ := hv
    have hmem := validL_mem hvl
    have hhm : ∀ x ∈ xs, Handles fix x := fun x hx => hfx.imp id (fun hn => noIndefStrL_mem (by simpa [noIndefStr] using hn) x hx)
    simp only [encode, encodeL_eq] at hk ⊢
    have hpos := encHead_pos 4 h xs.length
    by_cases hlt : k < (encHead 4 h xs.length).length
    · rw [take_append_of_lt _ _ _ hlt]
      exact decT_head_pf fix f 4 h _ k (by omega) hlt
    · rw [decT_head_take fix f 4 h _ _ k (by omega) hok (by omega), run_arr fix _ _ _ _ _ (scOf_ne_31 h _ hok),
        decElems_pf (fun x => dropRet (decT fix f x)) encode value xs (k - (encHead 4 h xs.length).length)
          (fun x hx hle r => by rw [ihrt x (hmem x hx) (hhm x hx) (by omega) r, dropRet_ok])
          (fun x hx i hi hik => by rw [ihpf x (hmem x hx) (hhm x hx) i hi (by omega), dropRet_err])
          (by simp at hk; omega)]
  | arrI xs =>
    simp only [valid] at hv
    have hmem := validL_mem hv
    have hhm : ∀ x ∈ xs, Handles fix x := fun x hx => hfx.imp id (fun hn => noIndefStrL_mem (by simpa [noIndefStr] using hn) x hx)
    simp only [encode, encodeL_eq] at hk ⊢
    cases k with
    | zero => rfl
    | succ j =>
      rw [take_succ_byte, show byte 0x9f = byte (4 * 32 + 31) from rfl, decT_indef fix f 4 _ (by omega), run_arrI,
        decUntil_pf breakMarker (fun x => dropRet (decT fix f x)) encode value xs j f
          (fun x hx => startsOK_encode x (hmem x hx))
          (fun x hx hle r => by rw [ihrt x (hmem x hx) (hhm x hx) (by omega) r, dropRet_ok])
          (fun x hx i hi hik => by rw [ihpf x (hmem x hx) (hhm x hx) i hi (by omega), dropRet_err])
          (by simp at hk; omega) (by omega)]
  | map h kvs =>
    simp only [valid, Bool.and_eq_true] at hv
    obtain ⟨⟨hok, hvl⟩, _⟩ := hv
    have hmem := validKV_mem hvl
    have hhm : ∀ p ∈ kvs, Handles fix p.1 ∧ Handles fix p.2 := fun p hp =>
      ⟨hfx.imp id (fun hn => (noIndefStrKV_mem (by simpa [noIndefStr] using hn) p hp).1),
       hfx.imp id (fun hn => (noIndefStrKV_mem (by simpa [noIndefStr] using hn) p hp).2)⟩
    simp only [encode, encodeKV_eq] at hk ⊢
    have hpos := encHead_pos 5 h kvs.length
    by_cases hlt : k < (encHead 5 h kvs.length).length
    · rw [take_append_of_lt _ _ _ hlt]
      exact decT_head_pf fix f 5 h _ k (by omega) hlt
    · rw [decT_head_take fix f 5 h _ _ k (by omega) hok (by omega), run_map fix _ _ _ _ _ (scOf_ne_31 h _ hok),
        decPairs_pf (fun x => dropRet (decT fix f x)) encode value kvs (k - (encHead 5 h kvs.length).length)
          (fun p hp => ⟨fun hle r => by rw [ihrt p.1 (hmem p hp).1 (hhm p hp).1 (by omega) r, dropRet_ok],
                        fun hle r => by rw [ihrt p.2 (hmem p hp).2 (hhm p hp).2 (by omega) r, dropRet_ok]⟩)
          (fun p hp => ⟨fun i hi hik => by rw [ihpf p.1 (hmem p hp).1 (hhm p hp).1 i hi (by omega), dropRet_err],
                        fun i hi hik => by rw [ihpf p.2 (hmem p hp).2 (hhm p hp).2 i hi (by omega), dropRet_err]⟩)
          (by simp at hk; omega)]
  | mapI kvs =>
    simp only [valid, Bool.and_eq_true] at hv
    obtain ⟨hvl, _⟩ := hv
    have hmem := validKV_mem hvl
    have hhm : ∀ p ∈ kvs, Handles fix p.1 ∧ Handles fix p.2 := fun p hp =>
      ⟨hfx.imp id (fun hn => (noIndefStrKV_mem (by simpa [noIndefStr] using hn) p hp).1),
       hfx.imp id (fun hn => (noIndefStrKV_mem (by simpa [noIndefStr] using hn) p hp).2)⟩
    simp only [encode, encodeKV_eq] at hk ⊢
    cases k with
    | zero => rfl
    | succ j =>
      rw [take_succ_byte, show byte 0xbf = byte (5 * 32 + 31) from rfl, decT_indef fix f 5 _ (by omega), run_mapI,
        decPairsUntil_pf breakMarker (fun x => dropRet (decT fix f x)) encode value kvs j f
          (fun p hp => startsOK_encode p.1 (hmem p hp).1)
          (fun p hp => ⟨fun hle r => by rw [ihrt p.1 (hmem p hp).1 (hhm p hp).1 (by omega) r, dropRet_ok],
                        fun hle r => by rw [ihrt p.2 (hmem p hp).2 (hhm p hp).2 (by omega) r, dropRet_ok]⟩)
          (fun p hp => ⟨fun i hi hik => by rw [ihpf p.1 (hmem p hp).1 (hhm p hp).1 i hi (by omega), dropRet_err],
                        fun i hi hik => by rw [ihpf p.2 (hmem p hp).2 (hhm p hp).2 i hi (by omega), dropRet_err]⟩)
          (by simp at hk; omega) (by omega)]

theorem main (fix : Bool) (f : Nat) :
    (∀ x, valid x = true → Handles fix x → (encode x).length < f → RT fix f x) ∧
    (∀ x, valid x = true → Handles fix x → PF fix f x) := by
  induction f with
  | zero => exact ⟨fun x _ _ h => absurd h (Nat.not_lt_zero _), fun x _ _ k _ hk => absurd hk (Nat.not_lt_zero _)⟩
  | succ f ih =>
    exact ⟨fun x hv hh hl => rt_step fix f ih.1 x hv hh hl, fun x hv hh => pf_step fix f ih.1 ih.2 x hv hh⟩

/-! ### torepr of a decoded valid tree -/

theorem vkey_value (k : W) (b : Bytes) (h : keyBytes k = some b) : vkey (value k) = some b := by
  cases k <;> simp [keyBytes] at h <;> subst h <;> simp [value, vkey]

mutual
theorem reprOK_value : ∀ x, valid x = true → noTag x = true → reprOK (value x) = true
  | .int _ _, _, _ => by simp [value, reprOK]
  | .bytes _ _, _, _ => by simp [value, reprOK]
  | .bytesI _, _, _ => by simp [value, reprOK]
  | .str _ _, _, _ => by simp [value, reprOK]
  | .strI _, _, _ => by simp [value, reprOK]
  | .bool _, _, _ => by simp [value, reprOK]
  | .null, _, _ => by simp [value, reprOK]
  | .f16 _, _, _ => by simp [value, reprOK]
  | .f32 _, _, _ => by simp [value, reprOK]
  | .f64 _, _, _ => by simp [value, reprOK]
  | .undefined, _, _ => by simp [value, reprOK]
  | .simple _, _, _ => by simp [value, reprOK]
  | .tag _ _ _, _, hn => by simp [noTag] at hn
  | .arr _ xs, h, hn => by
    simp only [valid, Bool.and_eq_true] at h
    simp only [noTag] at hn
    simp [value, reprOK, reprOKL_value xs h.2 hn]
  | .arrI xs, h, hn => by
    simp only [valid] at h
    simp only [noTag] at hn
    simp [value, reprOK, reprOKL_value xs h hn]
  | .map _ kvs, h, hn => by
    simp only [valid, Bool.and_eq_true] at h
    simp only [noTag] at hn
    have ⟨h1, h2⟩ := reprOKKV_value kvs h.1.2 hn
    simp [value, reprOK, h1, h2, h.2]
  | .mapI kvs, h, hn => by
    simp only [valid, Bool.and_eq_true] at h
    simp only [noTag] at hn
    have ⟨h1, h2⟩ := reprOKKV_value kvs h.1 hn
    simp [value, reprOK, h1, h2, h.2]
theorem reprOKL_value : ∀ xs, validL xs = true → noTagL xs = true → reprOKL (valueL xs) = true
  | [], _, _ => by simp [valueL, reprOKL]
  | x :: xs, h, hn => by
    simp only [validL, Bool.and_eq_true] at h
    simp only [noTagL, Bool.and_eq_true] at hn
    simp [valueL, reprOKL, reprOK_value x h.1 hn.1, reprOKL_value xs h.2 hn.2]
theorem reprOKKV_value : ∀ kvs, validKV kvs = true → noTagKV kvs = true →
    reprOKKV (valueKV kvs) = true ∧ vkeys (valueKV kvs) = keysOf kvs
  | [], _, _ => by simp [valueKV, reprOKKV, vkeys, keysOf]
  | (k, v) :: r, h, hn => by
    simp only [validKV, Bool.and_eq_true] at h
    simp only [noTagKV, Bool.and_eq_true] at hn
    obtain ⟨⟨⟨hk, _⟩, hv⟩, hr⟩ := h
    obtain ⟨b, hb⟩ := Option.isSome_iff_exists.mp hk
    have hvk := vkey_value k b hb
    have ⟨h1, h2⟩ := reprOKKV_value r hr hn.2
    simp [valueKV, reprOKKV, vkeys, keysOf, hvk, hb, reprOK_value v hv hn.1.2, h1, h2]
end

/-! ### every in-domain value has a valid (definite-length, smallest-head) wire tree -/

theorem headOk_smallest (n : Nat) (h : n < 2 ^ 64) : headOk (smallestHead n) n = true := by
  unfold smallestHead
  split
  · simp [headOk]; omega
  · split
    · simp [headOk]; omega
    · split
      · simp [headOk]; omega
      · split
        · simp [headOk]; omega
        · simp [headOk]; omega

theorem keyBytes_canon (k : V) : keyBytes (canon k) = vKeyBytes k := by
  cases k <;> simp [canon, keyBytes, vKeyBytes]

mutual
theorem canon_ok : ∀ v, inDomain v = true →
    valid (canon v) = true ∧ value (canon v) = v ∧ noIndefStr (canon v) = true ∧ noTag (canon v) = true
  | .null, _ => by simp [canon, valid, value, noIndefStr, noTag]
  | .bool _, _ => by simp [canon, valid, value, noIndefStr, noTag]
  | .int i, h => by
    simp only [inDomain, Bool.and_eq_true, decide_eq_true_eq] at h
    have := headOk_smallest (if i < 0 then (-1 - i).toNat else i.toNat) (by split <;> omega)
    simp [canon, valid, value, noIndefStr, noTag, this]
    omega
  | .float b, h => by
    simp only [inDomain, decide_eq_true_eq] at h
    simp [canon, valid, value, noIndefStr, noTag, h]
  | .str s, h => by
    simp only [inDomain, Bool.and_eq_true, decide_eq_true_eq] at h
    simp [canon, valid, value, noIndefStr, noTag, headOk_smallest s.length (by omega), h.1, h.2]
  | .bytes b, h => by
    simp only [inDomain, decide_eq_true_eq] at h
    simp [canon, valid, value, noIndefStr, noTag, headOk_smallest b.length (by omega), h]
  | .arr xs, h => by
    simp only [inDomain, Bool.and_eq_true, decide_eq_true_eq] at h
    have ⟨h1, h2, h3, h4, h5⟩ := canonL_ok xs h.2
    simp [canon, valid, value, noIndefStr, noTag, h1, h2, h3, h4, h5, headOk_smallest xs.length h.1]
  | .map kvs, h => by
    simp only [inDomain, Bool.and_eq_true, decide_eq_true_eq] at h
    have ⟨h1, h2, h3, h4, h5, h6⟩ := canonKV_ok kvs h.1.2
    simp [canon, valid, value, noIndefStr, noTag, h1, h2, h3, h4, h5, h6, h.2, headOk_smallest kvs.length h.1.1]
theorem canonL_ok : ∀ xs, inDomainL xs = true →
    validL (canonL xs) = true ∧ valueL (canonL xs) = xs ∧ (canonL xs).length = xs.length ∧
      noIndefStrL (canonL xs) = true ∧ noTagL (canonL xs) = true
  | [], _ => by simp [canonL, validL, valueL, noIndefStrL, noTagL]
  | x :: xs, h => by
    simp only [inDomainL, Bool.and_eq_true] at h
    have ⟨a1, a2, a3, a4⟩ := canon_ok x h.1
    have ⟨b1, b2, b3, b4, b5⟩ := canonL_ok xs h.2
    simp [canonL, validL, valueL, noIndefStrL, noTagL, a1, a2, a3, a4, b1, b2, b3, b4, b5]
theorem canonKV_ok : ∀ kvs, inDomainKV kvs = true →
    validKV (canonKV kvs) = true ∧ valueKV (canonKV kvs) = kvs ∧ (canonKV kvs).length = kvs.length ∧
      keysOf (canonKV kvs) = vKeysOf kvs ∧ noIndefStrKV (canonKV kvs) = true ∧ noTagKV (canonKV kvs) = true
  | [], _ => by simp [canonKV, validKV, valueKV, keysOf, vKeysOf, noIndefStrKV, noTagKV]
  | (k, v) :: r, h => by
    simp only [inDomainKV, Bool.and_eq_true] at h
    obtain ⟨⟨⟨hk, hk2⟩, hv⟩, hr⟩ := h
    have ⟨a1, a2, a3, a4⟩ := canon_ok k hk2
    have ⟨c1, c2, c3, c4⟩ := canon_ok v hv
    have ⟨b1, b2, b3, b4, b5, b6⟩ := canonKV_ok r hr
    simp [canonKV, validKV, valueKV, keysOf, vKeysOf, noIndefStrKV, noTagKV, keyBytes_canon, hk, a1, a2, a3, a4, c1, c2,
      c3, c4, b1, b2, b3, b4, b5, b6]
end

end Proofs.C16.Cbor
