import FqModel.Serial.Common
/-!
  C16 — lemmas shared by the msgpack / cbor / bencode round-trip proofs:
  big-endian readers, the element loops (`decElems`, `decPairs`, `decUntil`, `decPairsUntil`) on a
  concatenation of encodings (round trip) and on a strict prefix of it (truncation), and `torepr`.
-/
namespace Proofs.C16
open FqModel.Serial

/-! ### readers -/

theorem toBE_length (n x : Nat) : (toBE n x).length = n := by
  induction n generalizing x with
  | zero => rfl
  | succ n ih => simp [toBE, ih]

theorem beNat_append_one (bs : Bytes) (b : UInt8) : beNat (bs ++ [b]) = beNat bs * 256 + b.toNat := by
  simp [beNat, List.foldl_append]

theorem beNat_toBE (n x : Nat) : beNat (toBE n x) = x % 256 ^ n := by
  induction n generalizing x with
  | zero => simp [toBE, beNat, Nat.mod_one]
  | succ n ih =>
    rw [toBE, beNat_append_one, ih]
    have h : (UInt8.ofNat (x % 256)).toNat = x % 256 := by
      simp [UInt8.toNat_ofNat']
    rw [h, Nat.pow_succ]
    have := Nat.div_add_mod x 256
    have h2 : x / 256 % 256 ^ n * 256 + x % 256 = x % (256 ^ n * 256) := by
      rw [Nat.mul_comm (256 ^ n) 256, Nat.mod_mul, Nat.mul_comm]
      omega
    exact h2

theorem beNat_toBE_of_lt (n x : Nat) (h : x < 256 ^ n) : beNat (toBE n x) = x := by
  rw [beNat_toBE, Nat.mod_eq_of_lt h]

theorem readN_append (x r : Bytes) : readN x.length (x ++ r) = .ok (x, r) := by
  simp [readN]

theorem readN_append' (n : Nat) (x r : Bytes) (h : x.length = n) : readN n (x ++ r) = .ok (x, r) := by
  subst h; exact readN_append x r

theorem readN_short (n : Nat) (bs : Bytes) (h : bs.length < n) : readN n bs = .err .eof := by
  simp [readN, List.length_take]; omega

theorem readU_toBE (n x : Nat) (r : Bytes) (h : x < 256 ^ n) : readU n (toBE n x ++ r) = .ok (x, r) := by
  simp [readU, readN_append' n (toBE n x) r (toBE_length n x), beNat_toBE_of_lt n x h]

theorem readU_short (n : Nat) (bs : Bytes) (h : bs.length < n) : readU n bs = .err .eof := by
  simp [readU, readN_short n bs h]

theorem take_append_of_le {α} (a b : List α) (k : Nat) (h : a.length ≤ k) :
    (a ++ b).take k = a ++ b.take (k - a.length) := by
  rw [List.take_append]
  simp [List.take_of_length_le h]

theorem take_append_of_lt {α} (a b : List α) (k : Nat) (h : k < a.length) :
    (a ++ b).take k = a.take k := by
  rw [List.take_append]
  have : k - a.length = 0 := by omega
  simp [this]

/-! ### element loops on a concatenation of encodings -/

section loops
variable {α : Type} (dec : Bytes → Res (V × Bytes)) (enc : α → Bytes) (val : α → V)

def cat (xs : List α) : Bytes := (xs.map enc).flatten

theorem cat_cons (x : α) (xs : List α) : cat enc (x :: xs) = enc x ++ cat enc xs := by simp [cat]
theorem cat_nil : cat enc ([] : List α) = [] := rfl

theorem length_le_cat (xs : List α) (hne : ∀ x ∈ xs, 0 < (enc x).length) : xs.length ≤ (cat enc xs).length := by
  induction xs with
  | nil => simp
  | cons x xs ih =>
    have h1 := hne x (by simp)
    have h2 := ih (fun y hy => hne y (by simp [hy]))
    simp [cat_cons]; omega

theorem mem_length_le_cat (xs : List α) (x : α) (hx : x ∈ xs) : (enc x).length ≤ (cat enc xs).length := by
  induction xs with
  | nil => simp at hx
  | cons y ys ih =>
    rw [cat_cons]
    simp at hx
    rcases hx with rfl | hx
    · simp
    · have := ih hx; simp; omega

theorem decElems_rt (xs : List α) (rest : Bytes)
    (h : ∀ x ∈ xs, ∀ r, dec (enc x ++ r) = .ok (val x, r)) :
    decElems dec xs.length (cat enc xs ++ rest) = .ok (xs.map val, rest) := by
  induction xs with
  | nil => simp [decElems, cat]
  | cons x xs ih =>
    have hx := h x (by simp) (cat enc xs ++ rest)
    have ih' := ih (fun y hy => h y (by simp [hy]))
    simp [decElems, cat_cons, List.append_assoc, hx, ih']

theorem decElems_pf (xs : List α) (k : Nat)
    (hrt : ∀ x ∈ xs, (enc x).length ≤ k → ∀ r, dec (enc x ++ r) = .ok (val x, r))
    (hpf : ∀ x ∈ xs, ∀ j, j < (enc x).length → j ≤ k → dec ((enc x).take j) = .err .eof)
    (hk : k < (cat enc xs).length) :
    decElems dec xs.length ((cat enc xs).take k) = .err .eof := by
  induction xs generalizing k with
  | nil => simp [cat] at hk
  | cons x xs ih =>
    rw [cat_cons] at hk ⊢
    by_cases hlt : k < (enc x).length
    · rw [take_append_of_lt _ _ _ hlt]
      simp [decElems, hpf x (by simp) k hlt (Nat.le_refl k)]
    · have hle : (enc x).length ≤ k := by omega
      rw [take_append_of_le _ _ _ hle]
      have hx := hrt x (by simp) hle ((cat enc xs).take (k - (enc x).length))
      have ih' := ih (k - (enc x).length)
        (fun y hy hl => hrt y (by simp [hy]) (by omega))
        (fun y hy j hj hjk => hpf y (by simp [hy]) j hj (by omega))
        (by simp at hk; omega)
      simp [decElems, hx, ih']

end loops

section pairs
variable {α : Type} (dec : Bytes → Res (V × Bytes)) (enc : α → Bytes) (val : α → V)

def catKV (kvs : List (α × α)) : Bytes := (kvs.map (fun p => enc p.1 ++ enc p.2)).flatten

theorem catKV_cons (p : α × α) (kvs : List (α × α)) :
    catKV enc (p :: kvs) = enc p.1 ++ (enc p.2 ++ catKV enc kvs) := by simp [catKV]

theorem length_le_catKV (kvs : List (α × α)) (hne : ∀ p ∈ kvs, 0 < (enc p.1).length) :
    kvs.length ≤ (catKV enc kvs).length := by
  induction kvs with
  | nil => simp
  | cons p kvs ih =>
    have h1 := hne p (by simp)
    have h2 := ih (fun y hy => hne y (by simp [hy]))
    simp [catKV_cons]; omega

theorem mem_length_le_catKV (kvs : List (α × α)) (p : α × α) (hp : p ∈ kvs) :
    (enc p.1).length + (enc p.2).length ≤ (catKV enc kvs).length := by
  induction kvs with
  | nil => simp at hp
  | cons y ys ih =>
    rw [catKV_cons]
    simp at hp
    rcases hp with rfl | hp
    · simp
    · have := ih hp; simp; omega

theorem decPairs_rt (kvs : List (α × α)) (rest : Bytes)
    (h : ∀ p ∈ kvs, (∀ r, dec (enc p.1 ++ r) = .ok (val p.1, r)) ∧ (∀ r, dec (enc p.2 ++ r) = .ok (val p.2, r))) :
    decPairs dec kvs.length (catKV enc kvs ++ rest) = .ok (kvs.map (fun p => (val p.1, val p.2)), rest) := by
  induction kvs with
  | nil => simp [decPairs, catKV]
  | cons p kvs ih =>
    have ⟨h1, h2⟩ := h p (by simp)
    have ih' := ih (fun y hy => h y (by simp [hy]))
    simp [decPairs, catKV_cons, List.append_assoc, h1, h2, ih']

theorem decPairs_pf (kvs : List (α × α)) (k : Nat)
    (hrt : ∀ p ∈ kvs, ((enc p.1).length ≤ k → ∀ r, dec (enc p.1 ++ r) = .ok (val p.1, r)) ∧
                       ((enc p.2).length ≤ k → ∀ r, dec (enc p.2 ++ r) = .ok (val p.2, r)))
    (hpf : ∀ p ∈ kvs, (∀ j, j < (enc p.1).length → j ≤ k → dec ((enc p.1).take j) = .err .eof) ∧
                       (∀ j, j < (enc p.2).length → j ≤ k → dec ((enc p.2).take j) = .err .eof))
    (hk : k < (catKV enc kvs).length) :
    decPairs dec kvs.length ((catKV enc kvs).take k) = .err .eof := by
  induction kvs generalizing k with
  | nil => simp [catKV] at hk
  | cons p kvs ih =>
    rw [catKV_cons] at hk ⊢
    have ⟨r1, r2⟩ := hrt p (by simp)
    have ⟨p1, p2⟩ := hpf p (by simp)
    by_cases hlt : k < (enc p.1).length
    · rw [take_append_of_lt _ _ _ hlt]
      simp [decPairs, p1 k hlt (Nat.le_refl k)]
    · have hle : (enc p.1).length ≤ k := by omega
      rw [take_append_of_le _ _ _ hle]
      by_cases hlt2 : k - (enc p.1).length < (enc p.2).length
      · rw [take_append_of_lt _ _ _ hlt2]
        simp [decPairs, r1 hle, p2 _ hlt2 (by omega)]
      · have hle2 : (enc p.2).length ≤ k - (enc p.1).length := by omega
        rw [take_append_of_le _ _ _ hle2]
        have ih' := ih (k - (enc p.1).length - (enc p.2).length)
          (fun y hy => ⟨fun hl => (hrt y (by simp [hy])).1 (by omega), fun hl => (hrt y (by simp [hy])).2 (by omega)⟩)
          (fun y hy => ⟨fun j hj hjk => (hpf y (by simp [hy])).1 j hj (by omega),
                        fun j hj hjk => (hpf y (by simp [hy])).2 j hj (by omega)⟩)
          (by simp at hk; omega)
        simp [decPairs, r1 hle, r2 (by omega), ih']

end pairs

/-! ### loops that run until a stop byte -/

section untilLoops
variable {α : Type} (stop : UInt8) (dec : Bytes → Res (V × Bytes)) (enc : α → Bytes) (val : α → V)

/-- an encoding is non-empty and does not start with the stop byte -/
def StartsOK (e : Bytes) : Prop := ∃ b t, e = b :: t ∧ b ≠ stop

theorem StartsOK.pos {stop : UInt8} {e : Bytes} (h : StartsOK stop e) : 0 < e.length := by
  obtain ⟨b, t, rfl, _⟩ := h; simp

theorem decUntil_rt (xs : List α) (rest : Bytes) (lf : Nat)
    (hs : ∀ x ∈ xs, StartsOK stop (enc x))
    (h : ∀ x ∈ xs, ∀ r, dec (enc x ++ r) = .ok (val x, r))
    (hlf : xs.length < lf) :
    decUntil stop dec lf (cat enc xs ++ stop :: rest) = .ok (xs.map val, stop :: rest) := by
  induction xs generalizing lf with
  | nil =>
    cases lf with
    | zero => omega
    | succ lf => simp [decUntil, cat]
  | cons x xs ih =>
    cases lf with
    | zero => omega
    | succ lf =>
      obtain ⟨b, t, hbt, hb⟩ := hs x (by simp)
      have hx := h x (by simp) (cat enc xs ++ stop :: rest)
      have ih' := ih lf (fun y hy => hs y (by simp [hy])) (fun y hy => h y (by simp [hy])) (by simp at hlf; omega)
      rw [cat_cons, List.append_assoc]
      rw [hbt] at hx ⊢
      simp only [List.cons_append] at hx ⊢
      simp [decUntil, hb, hx, ih']

theorem decUntil_pf (xs : List α) (k lf : Nat)
    (hs : ∀ x ∈ xs, StartsOK stop (enc x))
    (hrt : ∀ x ∈ xs, (enc x).length ≤ k → ∀ r, dec (enc x ++ r) = .ok (val x, r))
    (hpf : ∀ x ∈ xs, ∀ j, j < (enc x).length → j ≤ k → dec ((enc x).take j) = .err .eof)
    (hk : k ≤ (cat enc xs).length) (hlf : k < lf) :
    decUntil stop dec lf ((cat enc xs ++ [stop]).take k) = .err .eof := by
  induction xs generalizing k lf with
  | nil =>
    cases lf with
    | zero => omega
    | succ lf =>
      simp [cat] at hk
      subst hk
      simp [decUntil, cat]
  | cons x xs ih =>
    cases lf with
    | zero => omega
    | succ lf =>
      obtain ⟨b, t, hbt, hb⟩ := hs x (by simp)
      rw [cat_cons, List.append_assoc]
      by_cases hk0 : k = 0
      · subst hk0; simp [decUntil]
      by_cases hlt : k < (enc x).length
      · rw [take_append_of_lt _ _ _ hlt]
        have hp := hpf x (by simp) k hlt (Nat.le_refl k)
        rw [hbt] at hp ⊢
        obtain ⟨k', rfl⟩ : ∃ k', k = k' + 1 := ⟨k - 1, by omega⟩
        simp only [List.take_succ_cons] at hp ⊢
        simp [decUntil, hb, hp]
      · have hle : (enc x).length ≤ k := by omega
        rw [take_append_of_le _ _ _ hle]
        have hx := hrt x (by simp) hle ((cat enc xs ++ [stop]).take (k - (enc x).length))
        have hpos : 0 < (enc x).length := by rw [hbt]; simp
        have ih' := ih (k - (enc x).length) lf (fun y hy => hs y (by simp [hy]))
          (fun y hy hl => hrt y (by simp [hy]) (by omega))
          (fun y hy j hj hjk => hpf y (by simp [hy]) j hj (by omega))
          (by rw [cat_cons] at hk; simp at hk; omega) (by omega)
        generalize k - (enc x).length = m at hx ih' ⊢
        rw [hbt] at hx ⊢
        simp only [List.cons_append] at hx ⊢
        simp [decUntil, hb, hx, ih']

theorem decPairsUntil_rt (kvs : List (α × α)) (rest : Bytes) (lf : Nat)
    (hs : ∀ p ∈ kvs, StartsOK stop (enc p.1))
    (h : ∀ p ∈ kvs, (∀ r, dec (enc p.1 ++ r) = .ok (val p.1, r)) ∧ (∀ r, dec (enc p.2 ++ r) = .ok (val p.2, r)))
    (hlf : kvs.length < lf) :
    decPairsUntil stop dec lf (catKV enc kvs ++ stop :: rest)
      = .ok (kvs.map (fun p => (val p.1, val p.2)), stop :: rest) := by
  induction kvs generalizing lf with
  | nil =>
    cases lf with
    | zero => omega
    | succ lf => simp [decPairsUntil, catKV]
  | cons p kvs ih =>
    cases lf with
    | zero => omega
    | succ lf =>
      obtain ⟨b, t, hbt, hb⟩ := hs p (by simp)
      have ⟨h1, h2⟩ := h p (by simp)
      have ih' := ih lf (fun y hy => hs y (by simp [hy])) (fun y hy => h y (by simp [hy])) (by simp at hlf; omega)
      rw [catKV_cons, List.append_assoc, List.append_assoc]
      have h1' := h1 (enc p.2 ++ (catKV enc kvs ++ stop :: rest))
      rw [hbt] at h1' ⊢
      simp only [List.cons_append] at h1' ⊢
      simp [decPairsUntil, hb, h1', h2, ih']

theorem decPairsUntil_pf (kvs : List (α × α)) (k lf : Nat)
    (hs : ∀ p ∈ kvs, StartsOK stop (enc p.1))
    (hrt : ∀ p ∈ kvs, ((enc p.1).length ≤ k → ∀ r, dec (enc p.1 ++ r) = .ok (val p.1, r)) ∧
                       ((enc p.2).length ≤ k → ∀ r, dec (enc p.2 ++ r) = .ok (val p.2, r)))
    (hpf : ∀ p ∈ kvs, (∀ j, j < (enc p.1).length → j ≤ k → dec ((enc p.1).take j) = .err .eof) ∧
                       (∀ j, j < (enc p.2).length → j ≤ k → dec ((enc p.2).take j) = .err .eof))
    (hk : k ≤ (catKV enc kvs).length) (hlf : k < lf) :
    decPairsUntil stop dec lf ((catKV enc kvs ++ [stop]).take k) = .err .eof := by
  induction kvs generalizing k lf with
  | nil =>
    cases lf with
    | zero => omega
    | succ lf =>
      simp [catKV] at hk
      subst hk
      simp [decPairsUntil, catKV]
  | cons p kvs ih =>
    cases lf with
    | zero => omega
    | succ lf =>
      obtain ⟨b, t, hbt, hb⟩ := hs p (by simp)
      have ⟨r1, r2⟩ := hrt p (by simp)
      have ⟨p1, p2⟩ := hpf p (by simp)
      rw [catKV_cons, List.append_assoc, List.append_assoc]
      by_cases hk0 : k = 0
      · subst hk0; simp [decPairsUntil]
      by_cases hlt : k < (enc p.1).length
      · rw [take_append_of_lt _ _ _ hlt]
        have hp := p1 k hlt (Nat.le_refl k)
        rw [hbt] at hp ⊢
        obtain ⟨k', rfl⟩ : ∃ k', k = k' + 1 := ⟨k - 1, by omega⟩
        simp only [List.take_succ_cons] at hp ⊢
        simp [decPairsUntil, hb, hp]
      · have hle : (enc p.1).length ≤ k := by omega
        rw [take_append_of_le _ _ _ hle]
        have hpos : 0 < (enc p.1).length := by rw [hbt]; simp
        by_cases hlt2 : k - (enc p.1).length < (enc p.2).length
        · rw [take_append_of_lt _ _ _ hlt2]
          have hx := r1 hle ((enc p.2).take (k - (enc p.1).length))
          have hp2 := p2 _ hlt2 (by omega)
          generalize k - (enc p.1).length = m at hx hp2 ⊢
          rw [hbt] at hx ⊢
          simp only [List.cons_append] at hx ⊢
          simp [decPairsUntil, hb, hx, hp2]
        · have hle2 : (enc p.2).length ≤ k - (enc p.1).length := by omega
          rw [take_append_of_le _ _ _ hle2]
          have hx := r1 hle (enc p.2 ++ (catKV enc kvs ++ [stop]).take (k - (enc p.1).length - (enc p.2).length))
          have hx2 := r2 (by omega) ((catKV enc kvs ++ [stop]).take (k - (enc p.1).length - (enc p.2).length))
          have ih' := ih (k - (enc p.1).length - (enc p.2).length) lf (fun y hy => hs y (by simp [hy]))
            (fun y hy => ⟨fun hl => (hrt y (by simp [hy])).1 (by omega), fun hl => (hrt y (by simp [hy])).2 (by omega)⟩)
            (fun y hy => ⟨fun j hj hjk => (hpf y (by simp [hy])).1 j hj (by omega),
                          fun j hj hjk => (hpf y (by simp [hy])).2 j hj (by omega)⟩)
            (by rw [catKV_cons] at hk; simp at hk; omega) (by omega)
          generalize k - (enc p.1).length - (enc p.2).length = m at hx hx2 ih' ⊢
          rw [hbt] at hx ⊢
          simp only [List.cons_append] at hx ⊢
          simp [decPairsUntil, hb, hx, hx2, ih']

end untilLoops


/-! ### the jq reducer on values whose map keys are (byte) strings, duplicate-free as strings -/

def vkey : V → Option Bytes
  | .str s => some s
  | .bytes b => some (sanitizeG b)
  | _ => none

mutual
def reprOK : V → Bool
  | .arr xs => reprOKL xs
  | .map kvs => reprOKKV kvs && nodupB (vkeys kvs)
  | .tagged _ _ => false
  | _ => true
def reprOKL : List V → Bool
  | [] => true
  | x :: xs => reprOK x && reprOKL xs
def reprOKKV : List (V × V) → Bool
  | [] => true
  | (k, v) :: r => (vkey k).isSome && reprOK v && reprOKKV r
def vkeys : List (V × V) → List Bytes
  | [] => []
  | (k, _) :: r => (match vkey k with | some b => b | none => []) :: vkeys r
end

theorem vkey_norm (k : V) (b : Bytes) (h : vkey k = some b) : norm k = .str b ∧ torepr k = .ok (.str b) := by
  cases k <;> simp [vkey] at h <;> subst h <;> simp [norm, torepr]

theorem hasKey_normKV (a : Bytes) (kvs : List (V × V)) (hk : reprOKKV kvs = true) :
    hasKey (.str a) (normKV kvs) = (vkeys kvs).contains a := by
  induction kvs with
  | nil => simp [normKV, hasKey, vkeys]
  | cons p r ih =>
    obtain ⟨k, v⟩ := p
    simp only [reprOKKV, Bool.and_eq_true] at hk
    obtain ⟨⟨hk1, _⟩, hk3⟩ := hk
    obtain ⟨b, hb⟩ := Option.isSome_iff_exists.mp hk1
    have hn := (vkey_norm k b hb).1
    simp only [normKV, hasKey, vkeys, hn, hb, ih hk3, List.contains_cons]

theorem lastWins_normKV (kvs : List (V × V)) (hk : reprOKKV kvs = true) (hnd : nodupB (vkeys kvs) = true) :
    lastWins (normKV kvs) = normKV kvs := by
  induction kvs with
  | nil => simp [normKV, lastWins]
  | cons p r ih =>
    obtain ⟨k, v⟩ := p
    have hk' := hk
    simp only [reprOKKV, Bool.and_eq_true] at hk
    obtain ⟨⟨hk1, _⟩, hk3⟩ := hk
    obtain ⟨b, hb⟩ := Option.isSome_iff_exists.mp hk1
    have hn := (vkey_norm k b hb).1
    simp only [vkeys, hb, nodupB, Bool.and_eq_true, Bool.not_eq_true'] at hnd
    simp only [normKV, lastWins, hn, hasKey_normKV b r hk3, hnd.1, ih hk3 hnd.2]
    simp

mutual
theorem torepr_ok : ∀ v, reprOK v = true → torepr v = .ok (norm v)
  | .null, _ => by simp [torepr, norm]
  | .bool _, _ => by simp [torepr, norm]
  | .int _, _ => by simp [torepr, norm]
  | .float _, _ => by simp [torepr, norm]
  | .str _, _ => by simp [torepr, norm]
  | .bytes _, _ => by simp [torepr, norm]
  | .tagged _ _, h => by simp [reprOK] at h
  | .arr xs, h => by
    simp only [reprOK] at h
    simp [torepr, norm, toreprL_ok xs h]
  | .map kvs, h => by
    simp only [reprOK, Bool.and_eq_true] at h
    simp [torepr, norm, toreprKV_ok kvs h.1, lastWins_normKV kvs h.1 h.2]
theorem toreprL_ok : ∀ xs, reprOKL xs = true → toreprL xs = .ok (normL xs)
  | [], _ => by simp [toreprL, normL]
  | x :: xs, h => by
    simp only [reprOKL, Bool.and_eq_true] at h
    simp [toreprL, normL, torepr_ok x h.1, toreprL_ok xs h.2]
theorem toreprKV_ok : ∀ kvs, reprOKKV kvs = true → toreprKV kvs = .ok (normKV kvs)
  | [], _ => by simp [toreprKV, normKV]
  | (k, v) :: r, h => by
    simp only [reprOKKV, Bool.and_eq_true] at h
    obtain ⟨⟨hk1, hv⟩, hr⟩ := h
    obtain ⟨b, hb⟩ := Option.isSome_iff_exists.mp hk1
    have ⟨hn, ht⟩ := vkey_norm k b hb
    simp [toreprKV, normKV, ht, hn, torepr_ok v hv, toreprKV_ok r hr]
end

theorem withRepr_ok (t : V) (rest : Bytes) (h : reprOK t = true) :
    withRepr (.ok (t, rest)) = .ok (norm t, rest) := by
  simp [withRepr, torepr_ok t h]


/-! ### soundness of the executable equality -/

mutual
theorem veq_sound : ∀ a b, veq a b = true → a = b
  | .null, b, h => by cases b <;> simp_all [veq]
  | .bool _, b, h => by cases b <;> simp_all [veq]
  | .int _, b, h => by cases b <;> simp_all [veq]
  | .float _, b, h => by cases b <;> simp_all [veq]
  | .str _, b, h => by cases b <;> simp_all [veq]
  | .bytes _, b, h => by cases b <;> simp_all [veq]
  | .arr xs, b, h => by
    cases b <;> simp [veq] at h
    rw [veqL_sound xs _ h]
  | .map xs, b, h => by
    cases b <;> simp [veq] at h
    rw [veqKV_sound xs _ h]
  | .tagged t x, b, h => by
    cases b <;> simp [veq] at h
    rw [h.1, veq_sound x _ h.2]
theorem veqL_sound : ∀ a b, veqL a b = true → a = b
  | [], b, h => by cases b <;> simp_all [veqL]
  | x :: xs, b, h => by
    cases b with
    | nil => simp [veqL] at h
    | cons y ys =>
      simp only [veqL, Bool.and_eq_true] at h
      rw [veq_sound x y h.1, veqL_sound xs ys h.2]
theorem veqKV_sound : ∀ a b, veqKV a b = true → a = b
  | [], b, h => by cases b <;> simp_all [veqKV]
  | (k, v) :: xs, b, h => by
    cases b with
    | nil => simp [veqKV] at h
    | cons p ys =>
      obtain ⟨k', v'⟩ := p
      simp only [veqKV, Bool.and_eq_true] at h
      rw [veq_sound k k' h.1.1, veq_sound v v' h.1.2, veqKV_sound xs ys h.2]
end

theorem resEq_sound (a b : Res (V × Bytes)) (h : resEq a b = true) : a = b := by
  cases a with
  | ok p =>
    obtain ⟨v, r⟩ := p
    cases b with
    | ok q =>
      obtain ⟨v', r'⟩ := q
      simp only [resEq, Bool.and_eq_true, beq_iff_eq] at h
      rw [veq_sound v v' h.1, h.2]
    | err e => simp [resEq] at h
  | err e =>
    cases b with
    | ok q => simp [resEq] at h
    | err e' => simp only [resEq, beq_iff_eq] at h; rw [h]

end Proofs.C16
