import FqModel.Serial.Json
import Proofs.C16Common
import Proofs.C16Bencode
/-!
  C16 — json: round trip, trailing-data and truncation proofs for the modelled fragment
  (FqModel/Serial/Json.lean).
-/
namespace Proofs.C16.Json
open FqModel.Serial FqModel.Serial.Json Proofs.C16

/-! ### white space and literals -/

theorem wsOk_mem {sp : Bytes} (h : wsOk sp = true) : ∀ c ∈ sp, isWs c = true := by
  simpa [wsOk, List.all_eq_true] using h

theorem skipWs_ws (sp r : Bytes) (h : wsOk sp = true) : skipWs (sp ++ r) = skipWs r := by
  induction sp with
  | nil => rfl
  | cons c sp ih =>
    have hc : isWs c = true := wsOk_mem h c (by simp)
    have hs : wsOk sp = true := by simp [wsOk] at h ⊢; exact h.2
    simp [skipWs, hc, ih hs]

theorem skipWs_nonws (c : UInt8) (r : Bytes) (h : isWs c = false) : skipWs (c :: r) = c :: r := by
  simp [skipWs, h]

theorem skipWs_take_ws (sp : Bytes) (k : Nat) (h : wsOk sp = true) : skipWs (sp.take k) = [] := by
  have : wsOk (sp.take k) = true := by
    simp only [wsOk, List.all_eq_true] at h ⊢
    exact fun c hc => h c (List.mem_of_mem_take hc)
  simpa [skipWs] using skipWs_ws (sp.take k) [] this

theorem expectLit_hit (l r : Bytes) : expectLit l (l ++ r) = .ok r := by
  induction l with
  | nil => rfl
  | cons c l ih => simp [expectLit, ih]

theorem expectLit_prefix (l : Bytes) (j : Nat) (hj : j < l.length) : expectLit l (l.take j) = .err .eof := by
  induction l generalizing j with
  | nil => simp at hj
  | cons c l ih =>
    cases j with
    | zero => rfl
    | succ j => simp [expectLit, ih j (by simp at hj; omega)]

/-! ### strings -/

theorem hexVal_hexDigit : ∀ n, n < 16 → hexVal (hexDigit n) = some n := by decide

theorem utf8enc_ascii (n : Nat) (h : n < 0x80) : utf8enc n = [UInt8.ofNat n] := by
  simp [utf8enc, h]

theorem ofNat_toNat (c : UInt8) : UInt8.ofNat c.toNat = c := by
  simp

/-- one escaped character followed by anything: the body parser emits the character and goes on -/
theorem parseStrBody_step (f : Nat) (c : UInt8) (r : Bytes) :
    parseStrBody (f + 1) (escByte c ++ r) =
      match parseStrBody f r with
      | .ok (s, r2) => .ok (c :: s, r2)
      | .err x => .err x := by
  by_cases h22 : c = 0x22
  · subst h22; simp [escByte, parseStrBody]; split <;> simp_all
  by_cases h5c : c = 0x5c
  · subst h5c; simp [escByte, parseStrBody]; split <;> simp_all
  by_cases hlt : c < 0x20
  · have hn : c.toNat < 32 := by simpa [UInt8.lt_iff_toNat_lt] using hlt
    have h1 := hexVal_hexDigit (c.toNat / 16) (by omega)
    have h2 := hexVal_hexDigit (c.toNat % 16) (by omega)
    have h0 : hexVal 0x30 = some 0 := by decide
    have hsum' : c.toNat / 16 * 16 + c.toNat % 16 = c.toNat := by omega
    have hc : ¬ (55296 ≤ c.toNat) := by omega
    have hns : ¬ (0xd800 ≤ c.toNat ∧ c.toNat < 0xdc00) := by omega
    simp only [escByte, h22, h5c, hlt, if_true, if_false, List.cons_append, List.nil_append]
    simp only [parseStrBody]
    simp [getu4, h0, h1, h2]
    simp only [hsum']
    split
    · rename_i heq
      rw [if_neg (fun h => hc h.1)] at heq
      cases heq
    · simp [utf8enc_ascii c.toNat (by omega)]
      split <;> simp_all
  · have hesc : escByte c = [c] := by simp [escByte, h22, h5c, hlt]
    simp only [hesc, List.cons_append, List.nil_append, parseStrBody]
    simp [h22, h5c, hlt]
    split <;> simp_all

theorem encStrBody_length_pos (s : Bytes) : s.length ≤ (encStrBody s).length := by
  induction s with
  | nil => simp [encStrBody]
  | cons c s ih =>
    have : 1 ≤ (escByte c).length := by
      simp only [escByte]; split <;> (try split) <;> (try split) <;> simp
    simp [encStrBody]; omega

theorem parseStrBody_rt (s r : Bytes) (f : Nat) (hf : s.length < f) :
    parseStrBody f (encStrBody s ++ 0x22 :: r) = .ok (s, r) := by
  induction s generalizing f with
  | nil =>
    cases f with
    | zero => omega
    | succ f => simp [encStrBody, parseStrBody]
  | cons c s ih =>
    cases f with
    | zero => omega
    | succ f =>
      simp only [encStrBody, List.append_assoc]
      rw [parseStrBody_step f c, ih f (by simp at hf; omega)]

theorem parseStr_rt (s r : Bytes) (h : textOk s = true) : parseStr (encStrBody s ++ 0x22 :: r) = .ok (s, r) := by
  have hs : sanitizeG s = s := by simpa [textOk] using h
  have := parseStrBody_rt s r ((encStrBody s ++ 0x22 :: r).length + 1)
    (by have := encStrBody_length_pos s; simp; omega)
  unfold parseStr
  rw [this]
  simp [hs]


/-! ### numbers -/

open Proofs.C16.Bencode in
theorem takeDigits_append (ds r : Bytes) (hd : ∀ c ∈ ds, Json.isDigit c = true)
    (hr : ∀ c t, r = c :: t → Json.isDigit c = false) : takeDigits (ds ++ r) = (ds, r) := by
  induction ds with
  | nil =>
    cases r with
    | nil => rfl
    | cons c t => simp [takeDigits, hr c t rfl]
  | cons d ds ih =>
    have h1 := hd d (by simp)
    simp [takeDigits, h1, ih (fun c hc => hd c (by simp [hc]))]

theorem isDigit_eq (c : UInt8) : Json.isDigit c = Bencode.isDigit c := rfl

theorem decRev_last (f n : Nat) (h : n < f) (hn : 0 < n) :
    ∀ d, (Bencode.decRev f n).getLast? = some d → d ≠ 0x30 := by
  induction f generalizing n with
  | zero => omega
  | succ f ih =>
    intro d hd
    simp only [Bencode.decRev] at hd
    split at hd
    · rename_i h10
      simp at hd
      subst hd
      intro hc
      have := congrArg UInt8.toNat hc
      simp [UInt8.toNat_ofNat'] at this
      omega
    · rename_i h10
      have hne : Bencode.decRev f (n / 10) ≠ [] := by
        cases f with
        | zero => omega
        | succ f => exact Proofs.C16.Bencode.decRev_ne_nil f _
      rw [List.getLast?_cons_of_ne_nil hne] at hd
      exact ih (n / 10) (by omega) (by omega) d hd

/-- the decimal string of `n`: digits only, non-empty, no leading zero unless it is "0" -/
theorem decStr_shape (n : Nat) : ∃ d ds, Bencode.decStr n = d :: ds ∧ ¬ (d = 0x30 ∧ ds ≠ []) := by
  have hne := Proofs.C16.Bencode.decStr_ne_nil n
  cases hds : Bencode.decStr n with
  | nil => exact absurd hds hne
  | cons d ds =>
    refine ⟨d, ds, rfl, ?_⟩
    rintro ⟨hd, hds'⟩
    by_cases hn : n = 0
    · subst hn
      have : Bencode.decStr 0 = [0x30] := by decide
      rw [this] at hds
      simp at hds
      exact hds' hds.2
    · have hh : (Bencode.decStr n).head? = some d := by rw [hds]; rfl
      simp only [Bencode.decStr, List.head?_reverse] at hh
      exact decRev_last (n + 1) n (by omega) (by omega) d hh hd

/-- what may follow a number literal without changing it -/
def NumFollow (r : Bytes) : Prop :=
  ∀ c t, r = c :: t → Json.isDigit c = false ∧ c ≠ 0x2e ∧ c ≠ 0x65 ∧ c ≠ 0x45

theorem parseNumber_nat (neg : Bool) (n : Nat) (r : Bytes) (hr : NumFollow r) :
    parseNumberBody neg (Bencode.decStr n ++ r) = .ok (.int (if neg then -(n : Int) else n), r) := by
  obtain ⟨d, ds, hds, hz⟩ := decStr_shape n
  have htd := takeDigits_append (Bencode.decStr n) r
    (fun c hc => by rw [isDigit_eq]; exact Proofs.C16.Bencode.decStr_digits n c hc) (fun c t h => (hr c t h).1)
  have hp := Proofs.C16.Bencode.parseDigits_decStr n
  unfold parseNumberBody
  rw [htd]
  rw [hds] at hp ⊢
  simp only [hz, if_false]
  cases r with
  | nil => simp [hp]
  | cons c t =>
    have ⟨_, h1, h2, h3⟩ := hr c t rfl
    simp [h1, h2, h3, hp]

theorem decStr_head_ne_minus (n : Nat) : ∀ d ds, Bencode.decStr n = d :: ds → d ≠ 0x2d := by
  intro d ds h hd
  have := Proofs.C16.Bencode.decStr_digits n d (by rw [h]; simp)
  subst hd
  simp [Bencode.isDigit] at this

theorem parseNumber_rt (i : Int) (r : Bytes) (hr : NumFollow r) : parseNumber (encInt i ++ r) = .ok (.int i, r) := by
  by_cases hneg : i < 0
  · have := parseNumber_nat true (-i).toNat r hr
    simp only [encInt, hneg, if_true, List.cons_append, parseNumber]
    rw [this]
    have h2 : (-(((-i).toNat : Nat) : Int)) = i := by omega
    simp only [if_true, h2]
  · obtain ⟨d, ds, hds, _⟩ := decStr_shape i.toNat
    have hm := decStr_head_ne_minus i.toNat d ds hds
    have := parseNumber_nat false i.toNat r hr
    simp only [encInt, hneg, if_false]
    rw [hds] at this ⊢
    simp only [List.cons_append] at this ⊢
    have hpn : parseNumber (d :: (ds ++ r)) = parseNumberBody false (d :: (ds ++ r)) := by
      unfold parseNumber
      split
      · rename_i heq; simp at heq; exact absurd heq.1 hm
      · rfl
    rw [hpn, this]
    have h2 : ((i.toNat : Nat) : Int) = i := by omega
    simp only [Bool.false_eq_true, if_false, h2]


/-! ### values -/

/-- what may follow a value inside a document: white space, `,`, `]`, `}` or the end -/
def Delim (r : Bytes) : Prop := ∀ c t, r = c :: t → (isWs c = true ∨ c = 0x2c ∨ c = 0x5d ∨ c = 0x7d)

theorem Delim.numFollow {r : Bytes} (h : Delim r) : NumFollow r := by
  intro c t hr
  rcases h c t hr with h | h | h | h
  · simp only [isWs, Bool.or_eq_true, decide_eq_true_eq] at h
    rcases h with ((h | h) | h) | h <;> subst h <;> decide
  · subst h; decide
  · subst h; decide
  · subst h; decide

theorem delim_nil : Delim [] := by intro c t h; cases h
theorem delim_cons (c : UInt8) (t : Bytes) (h : isWs c = true ∨ c = 0x2c ∨ c = 0x5d ∨ c = 0x7d) : Delim (c :: t) := by
  intro c' t' heq; cases heq; exact h
theorem delim_sp (sp t : Bytes) (hsp : wsOk sp = true) (ht : Delim t) : Delim (sp ++ t) := by
  cases sp with
  | nil => simpa using ht
  | cons c sp => exact delim_cons c _ (Or.inl (wsOk_mem hsp c (by simp)))

/-- the first byte of an encoded value -/
def Starter (c : UInt8) : Prop :=
  isWs c = false ∧ c ≠ 0x5d ∧ c ≠ 0x7d ∧ c ≠ 0x2c ∧ c ≠ 0x3a

instance (c : UInt8) : Decidable (Starter c) := by unfold Starter; infer_instance

theorem decStr_starter (n : Nat) : ∃ d ds, Bencode.decStr n = d :: ds ∧ Starter d ∧ Json.isDigit d = true := by
  obtain ⟨d, ds, hds, _⟩ := decStr_shape n
  have hd := Proofs.C16.Bencode.decStr_digits n d (by rw [hds]; simp)
  refine ⟨d, ds, hds, ?_, hd⟩
  have h := (Proofs.C16.Bencode.isDigit_iff d).mp hd
  refine ⟨?_, ?_, ?_, ?_, ?_⟩
  · simp only [isWs, Bool.or_eq_false_iff, decide_eq_false_iff_not]
    refine ⟨⟨⟨?_, ?_⟩, ?_⟩, ?_⟩ <;> (intro hc; subst hc; simp at h)
  all_goals (intro hc; subst hc; simp at h)

theorem encode_starter (sp : Bytes) (x : J) : ∃ c t, encode sp x = c :: t ∧ Starter c := by
  cases x with
  | null => exact ⟨0x6e, _, rfl, by decide⟩
  | bool b =>
    cases b
    · exact ⟨0x66, _, rfl, by decide⟩
    · exact ⟨0x74, _, rfl, by decide⟩
  | int i =>
    by_cases hneg : i < 0
    · exact ⟨0x2d, Bencode.decStr (-i).toNat, by simp [encode, encInt, hneg], by decide⟩
    · obtain ⟨d, ds, hds, hst, _⟩ := decStr_starter i.toNat
      exact ⟨d, ds, by simp [encode, encInt, hneg, hds], hst⟩
  | str s => exact ⟨0x22, _, rfl, by decide⟩
  | arr xs => cases xs <;> exact ⟨0x5b, _, rfl, by decide⟩
  | obj kvs => cases kvs <;> exact ⟨0x7b, _, rfl, by decide⟩

theorem skipWs_starter (pre : Bytes) (c : UInt8) (t : Bytes) (hp : wsOk pre = true) (hc : isWs c = false) :
    skipWs (pre ++ c :: t) = c :: t := by
  rw [skipWs_ws pre _ hp, skipWs_nonws c t hc]

theorem skipWs_idem (bs : Bytes) : skipWs (skipWs bs) = skipWs bs := by
  induction bs with
  | nil => rfl
  | cons c r ih =>
    by_cases h : isWs c = true
    · simp [skipWs, h, ih]
    · simp [skipWs, h]

theorem parseValue_skip (f : Nat) (bs : Bytes) : parseValue f (skipWs bs) = parseValue f bs := by
  cases f with
  | zero => rfl
  | succ f => simp only [parseValue, skipWs_idem]

theorem parseElems_skip (f lf : Nat) (bs : Bytes) :
    parseElems (parseValue f) lf (skipWs bs) = parseElems (parseValue f) lf bs := by
  cases lf with
  | zero => rfl
  | succ lf => simp only [parseElems, parseValue_skip]

theorem parseMembers_skip (pv : Bytes → Res (V × Bytes)) (lf : Nat) (bs : Bytes) :
    parseMembers pv lf (skipWs bs) = parseMembers pv lf bs := by
  cases lf with
  | zero => rfl
  | succ lf => simp only [parseMembers, skipWs_idem]

/-! ### loops -/

theorem validL_mem {xs : List J} (h : validL xs = true) : ∀ x ∈ xs, valid x = true := by
  induction xs with
  | nil => simp
  | cons x xs ih =>
    simp [validL] at h
    intro y hy
    simp at hy
    rcases hy with rfl | hy
    · exact h.1
    · exact ih h.2 y hy

theorem validKV_mem {kvs : List (Bytes × J)} (h : validKV kvs = true) :
    ∀ p ∈ kvs, textOk p.1 = true ∧ valid p.2 = true := by
  induction kvs with
  | nil => simp
  | cons p kvs ih =>
    obtain ⟨k, x⟩ := p
    simp [validKV] at h
    intro y hy
    simp at hy
    rcases hy with rfl | hy
    · exact ⟨h.1.1, h.1.2⟩
    · exact ih h.2 y hy

/-- `pv` decodes every element of the list wherever it stands -/
def ElemOK (pv : Bytes → Res (V × Bytes)) (sp : Bytes) (x : J) : Prop :=
  ∀ pre r, wsOk pre = true → NumFollow r → pv (pre ++ encode sp x ++ r) = .ok (value x, r)

theorem parseElems_rt (pv : Bytes → Res (V × Bytes)) (sp : Bytes) (hsp : wsOk sp = true) (x : J) (xs : List J)
    (r : Bytes) (lf : Nat) (h : ∀ y ∈ x :: xs, ElemOK pv sp y) (hlf : xs.length < lf) :
    parseElems pv lf (encodeL sp (x :: xs) ++ r) = .ok (valueL (x :: xs), r) := by
  induction xs generalizing x lf with
  | nil =>
    cases lf with
    | zero => omega
    | succ lf =>
      have hx := h x (by simp) sp (sp ++ 0x5d :: r) hsp (delim_sp sp _ hsp (delim_cons _ _ (Or.inr (Or.inr (Or.inl rfl))))).numFollow
      simp only [encodeL, List.append_assoc, List.cons_append, List.nil_append] at hx ⊢
      have hsk : skipWs (sp ++ 0x5d :: r) = 0x5d :: r := skipWs_starter sp 0x5d r hsp (by decide)
      simp [parseElems, hx, hsk, valueL]
  | cons y ys ih =>
    cases lf with
    | zero => omega
    | succ lf =>
      have hx := h x (by simp) sp (sp ++ 0x2c :: (encodeL sp (y :: ys) ++ r)) hsp
        (delim_sp sp _ hsp (delim_cons _ _ (Or.inr (Or.inl rfl)))).numFollow
      have ih' := ih y lf (fun z hz => h z (by simp [hz])) (by simp at hlf; omega)
      simp only [encodeL, List.append_assoc, List.cons_append] at hx ⊢
      have hsk : skipWs (sp ++ 0x2c :: (encodeL sp (y :: ys) ++ r)) = 0x2c :: (encodeL sp (y :: ys) ++ r) :=
        skipWs_starter sp 0x2c _ hsp (by decide)
      simp [parseElems, hx, hsk, ih', valueL]

theorem parseMembers_rt (pv : Bytes → Res (V × Bytes)) (sp : Bytes) (hsp : wsOk sp = true) (p : Bytes × J)
    (kvs : List (Bytes × J)) (r : Bytes) (lf : Nat)
    (h : ∀ q ∈ p :: kvs, textOk q.1 = true ∧ ElemOK pv sp q.2) (hlf : kvs.length < lf) :
    parseMembers pv lf (encodeKV sp (p :: kvs) ++ r) = .ok (valueKV (p :: kvs), r) := by
  induction kvs generalizing p lf with
  | nil =>
    obtain ⟨k, x⟩ := p
    cases lf with
    | zero => omega
    | succ lf =>
      have ⟨hk, hxo⟩ := h (k, x) (by simp)
      have hx := hxo sp (sp ++ 0x7d :: r) hsp (delim_sp sp _ hsp (delim_cons _ _ (Or.inr (Or.inr (Or.inr rfl))))).numFollow
      have hstr := parseStr_rt k (sp ++ 0x3a :: (sp ++ encode sp x ++ (sp ++ 0x7d :: r))) hk
      simp only [encodeKV, encStr, List.append_assoc, List.cons_append, List.nil_append] at hx hstr ⊢
      have hs1 : skipWs (sp ++ 0x22 :: (encStrBody k ++ 0x22 :: (sp ++ 0x3a :: (sp ++ (encode sp x ++ (sp ++ 0x7d :: r))))))
          = 0x22 :: (encStrBody k ++ 0x22 :: (sp ++ 0x3a :: (sp ++ (encode sp x ++ (sp ++ 0x7d :: r))))) :=
        skipWs_starter sp 0x22 _ hsp (by decide)
      have hs2 : skipWs (sp ++ 0x3a :: (sp ++ (encode sp x ++ (sp ++ 0x7d :: r))))
          = 0x3a :: (sp ++ (encode sp x ++ (sp ++ 0x7d :: r))) := by
        rw [skipWs_ws sp _ hsp, skipWs_nonws]; decide
      have hs3 : skipWs (sp ++ 0x7d :: r) = 0x7d :: r := by rw [skipWs_ws sp _ hsp, skipWs_nonws]; decide
      simp [parseMembers, hs1, hstr, hs2, hx, hs3, valueKV]
  | cons q qs ih =>
    obtain ⟨k, x⟩ := p
    cases lf with
    | zero => omega
    | succ lf =>
      have ⟨hk, hxo⟩ := h (k, x) (by simp)
      have ih' := ih q lf (fun z hz => h z (by simp [hz])) (by simp at hlf; omega)
      have hx := hxo sp (sp ++ 0x2c :: (encodeKV sp (q :: qs) ++ r)) hsp
        (delim_sp sp _ hsp (delim_cons _ _ (Or.inr (Or.inl rfl)))).numFollow
      have hstr := parseStr_rt k (sp ++ 0x3a :: (sp ++ encode sp x ++ (sp ++ 0x2c :: (encodeKV sp (q :: qs) ++ r)))) hk
      simp only [encodeKV, encStr, List.append_assoc, List.cons_append, List.nil_append] at hx hstr ⊢
      have hs1 : skipWs (sp ++ 0x22 :: (encStrBody k ++ 0x22 :: (sp ++ 0x3a :: (sp ++ (encode sp x ++ (sp ++ 0x2c :: (encodeKV sp (q :: qs) ++ r)))))))
          = 0x22 :: (encStrBody k ++ 0x22 :: (sp ++ 0x3a :: (sp ++ (encode sp x ++ (sp ++ 0x2c :: (encodeKV sp (q :: qs) ++ r)))))) :=
        skipWs_starter sp 0x22 _ hsp (by decide)
      have hs2 : skipWs (sp ++ 0x3a :: (sp ++ (encode sp x ++ (sp ++ 0x2c :: (encodeKV sp (q :: qs) ++ r)))))
          = 0x3a :: (sp ++ (encode sp x ++ (sp ++ 0x2c :: (encodeKV sp (q :: qs) ++ r)))) := by
        rw [skipWs_ws sp _ hsp, skipWs_nonws]; decide
      have hs3 : skipWs (sp ++ 0x2c :: (encodeKV sp (q :: qs) ++ r)) = 0x2c :: (encodeKV sp (q :: qs) ++ r) := by
        rw [skipWs_ws sp _ hsp, skipWs_nonws]; decide
      simp [parseMembers, hs1, hstr, hs2, hx, hs3, ih', valueKV]


/-! ### objects: duplicate-free keys -/

theorem hasKey_valueKV (a : Bytes) (kvs : List (Bytes × J)) :
    hasKey (.str a) (valueKV kvs) = (keysOfJ kvs).contains a := by
  induction kvs with
  | nil => simp [valueKV, hasKey, keysOfJ]
  | cons p r ih =>
    obtain ⟨k, x⟩ := p
    by_cases hak : a = k <;> simp [valueKV, hasKey, keysOfJ, ih, hak]

theorem lastWins_valueKV (kvs : List (Bytes × J)) (h : nodupB (keysOfJ kvs) = true) :
    lastWins (valueKV kvs) = valueKV kvs := by
  induction kvs with
  | nil => simp [valueKV, lastWins]
  | cons p r ih =>
    obtain ⟨k, x⟩ := p
    simp only [keysOfJ, nodupB, Bool.and_eq_true, Bool.not_eq_true'] at h
    have hk : ¬ k ∈ keysOfJ r := by simpa using h.1
    simp [valueKV, lastWins, hasKey_valueKV, hk, ih h.2]

/-! ### the main induction -/

theorem encodeL_shape (sp : Bytes) (x : J) (xs : List J) : ∃ tail, encodeL sp (x :: xs) = sp ++ (encode sp x ++ tail) := by
  cases xs with
  | nil => exact ⟨sp ++ [0x5d], by simp [encodeL]⟩
  | cons y ys => exact ⟨sp ++ 0x2c :: encodeL sp (y :: ys), by simp [encodeL]⟩

theorem encodeKV_shape (sp : Bytes) (p : Bytes × J) (kvs : List (Bytes × J)) :
    ∃ tail, encodeKV sp (p :: kvs) = sp ++ 0x22 :: tail := by
  obtain ⟨k, x⟩ := p
  cases kvs with
  | nil => exact ⟨_, by simp [encodeKV, encStr]; rfl⟩
  | cons q qs => exact ⟨_, by simp [encodeKV, encStr]; rfl⟩

theorem mem_length_encodeL (sp : Bytes) (xs : List J) (y : J) (hy : y ∈ xs) :
    (encode sp y).length < (encodeL sp xs).length := by
  induction xs with
  | nil => simp at hy
  | cons x xs ih =>
    simp at hy
    cases xs with
    | nil =>
      rcases hy with rfl | hy
      · simp [encodeL]; omega
      · simp at hy
    | cons z zs =>
      rcases hy with rfl | hy
      · simp [encodeL]; omega
      · have := ih (by simpa using hy); simp only [encodeL, List.length_append, List.length_cons] at this ⊢; omega

theorem mem_length_encodeKV (sp : Bytes) (kvs : List (Bytes × J)) (p : Bytes × J) (hp : p ∈ kvs) :
    (encode sp p.2).length < (encodeKV sp kvs).length := by
  induction kvs with
  | nil => simp at hp
  | cons q qs ih =>
    obtain ⟨k, x⟩ := q
    simp at hp
    cases qs with
    | nil =>
      rcases hp with rfl | hp
      · simp [encodeKV]; omega
      · simp at hp
    | cons z zs =>
      rcases hp with rfl | hp
      · simp [encodeKV]; omega
      · have := ih (by simpa using hp); simp only [encodeKV, List.length_append, List.length_cons] at this ⊢; omega

theorem length_le_encodeL (sp : Bytes) (xs : List J) : xs.length ≤ (encodeL sp xs).length := by
  induction xs with
  | nil => simp [encodeL]
  | cons x xs ih =>
    cases xs with
    | nil => simp [encodeL]; omega
    | cons y ys => simp only [encodeL, List.length_append, List.length_cons] at ih ⊢; omega

theorem length_le_encodeKV (sp : Bytes) (kvs : List (Bytes × J)) : kvs.length ≤ (encodeKV sp kvs).length := by
  induction kvs with
  | nil => simp [encodeKV]
  | cons p kvs ih =>
    obtain ⟨k, x⟩ := p
    cases kvs with
    | nil => simp [encodeKV]; omega
    | cons y ys => simp only [encodeKV, List.length_append, List.length_cons] at ih ⊢; omega

theorem digit_not_struct (c : UInt8) (h : Json.isDigit c = true) :
    c ≠ 0x6e ∧ c ≠ 0x74 ∧ c ≠ 0x66 ∧ c ≠ 0x22 ∧ c ≠ 0x5b ∧ c ≠ 0x7b := by
  have h' := (Proofs.C16.Bencode.isDigit_iff c).mp h
  refine ⟨?_, ?_, ?_, ?_, ?_, ?_⟩ <;> (intro hc; subst hc; simp at h')

theorem rt_step (sp : Bytes) (hsp : wsOk sp = true) (f : Nat)
    (ih : ∀ y, valid y = true → (encode sp y).length < f → ElemOK (parseValue f) sp y)
    (x : J) (hv : valid x = true) (hl : (encode sp x).length < f + 1) : ElemOK (parseValue (f + 1)) sp x := by
  intro pre r hpre hr
  rw [List.append_assoc]
  cases x with
  | null =>
    have hsk : skipWs (pre ++ (encode sp .null ++ r)) = 0x6e :: ([0x75, 0x6c, 0x6c] ++ r) := by
      simp only [encode, List.append_assoc, List.cons_append, List.nil_append]
      exact skipWs_starter pre _ _ hpre (by decide)
    simp [parseValue, hsk, lit, expectLit, value]
  | bool b =>
    cases b
    · have hsk : skipWs (pre ++ (encode sp (.bool false) ++ r)) = 0x66 :: ([0x61, 0x6c, 0x73, 0x65] ++ r) := by
        simp only [encode, List.append_assoc, List.cons_append, List.nil_append]
        exact skipWs_starter pre _ _ hpre (by decide)
      simp [parseValue, hsk, lit, expectLit, value]
    · have hsk : skipWs (pre ++ (encode sp (.bool true) ++ r)) = 0x74 :: ([0x72, 0x75, 0x65] ++ r) := by
        simp only [encode, List.append_assoc, List.cons_append, List.nil_append]
        exact skipWs_starter pre _ _ hpre (by decide)
      simp [parseValue, hsk, lit, expectLit, value]
  | int i =>
    have hnum := parseNumber_rt i r hr
    by_cases hneg : i < 0
    · have henc : encInt i = 0x2d :: Bencode.decStr (-i).toNat := by simp [encInt, hneg]
      have hsk : skipWs (pre ++ (encode sp (.int i) ++ r)) = 0x2d :: (Bencode.decStr (-i).toNat ++ r) := by
        simp only [encode, henc, List.append_assoc, List.cons_append]
        exact skipWs_starter pre _ _ hpre (by decide)
      rw [henc] at hnum
      simp only [List.cons_append] at hnum
      simp [parseValue, hsk, hnum, value]
    · obtain ⟨d, ds, hds, hst, hdig⟩ := decStr_starter i.toNat
      have henc : encInt i = d :: ds := by simp [encInt, hneg, hds]
      have hsk : skipWs (pre ++ (encode sp (.int i) ++ r)) = d :: (ds ++ r) := by
        simp only [encode, henc, List.append_assoc, List.cons_append]
        exact skipWs_starter pre _ _ hpre hst.1
      rw [henc] at hnum
      simp only [List.cons_append] at hnum
      have ⟨h1, h2, h3, h4, h5, h6⟩ := digit_not_struct d hdig
      simp [parseValue, hsk, hnum, value, h1, h2, h3, h4, h5, h6, hdig]
  | str s =>
    simp only [valid] at hv
    have hsk : skipWs (pre ++ (encode sp (.str s) ++ r)) = 0x22 :: (encStrBody s ++ 0x22 :: r) := by
      simp only [encode, encStr, List.append_assoc, List.cons_append, List.nil_append]
      exact skipWs_starter pre _ _ hpre (by decide)
    simp [parseValue, hsk, parseStr_rt s r hv, value]
  | arr xs =>
    cases xs with
    | nil =>
      have hsk : skipWs (pre ++ (encode sp (.arr []) ++ r)) = 0x5b :: (sp ++ 0x5d :: r) := by
        simp only [encode, List.append_assoc, List.cons_append, List.nil_append]
        exact skipWs_starter pre _ _ hpre (by decide)
      have hsk2 : skipWs (sp ++ 0x5d :: r) = 0x5d :: r := skipWs_starter sp _ _ hsp (by decide)
      simp [parseValue, hsk, hsk2, value, valueL]
    | cons y ys =>
      simp only [valid] at hv
      have hmem := validL_mem hv
      obtain ⟨tail, htail⟩ := encodeL_shape sp y ys
      obtain ⟨c, t, hct, hst⟩ := encode_starter sp y
      have hsk : skipWs (pre ++ (encode sp (.arr (y :: ys)) ++ r)) = 0x5b :: (encodeL sp (y :: ys) ++ r) := by
        simp only [encode, List.append_assoc, List.cons_append]
        exact skipWs_starter pre _ _ hpre (by decide)
      have hsk2 : skipWs (encodeL sp (y :: ys) ++ r) = c :: (t ++ (tail ++ r)) := by
        rw [htail, hct]
        simp only [List.append_assoc, List.cons_append]
        exact skipWs_starter sp _ _ hsp hst.1
      have hl' : (encodeL sp (y :: ys)).length < f := by
        simp only [encode, List.length_cons] at hl; omega
      have hel := parseElems_rt (parseValue f) sp hsp y ys r ((encodeL sp (y :: ys)).length + r.length + 1)
        (fun z hz => ih z (hmem z hz) (by have := mem_length_encodeL sp (y :: ys) z hz; omega))
        (by have := length_le_encodeL sp (y :: ys); simp at this ⊢; omega)
      rw [← parseElems_skip, hsk2] at hel
      simp only [parseValue, hsk, hsk2]
      simp [hst.2.1, hel, value]
  | obj kvs =>
    cases kvs with
    | nil =>
      have hsk : skipWs (pre ++ (encode sp (.obj []) ++ r)) = 0x7b :: (sp ++ 0x7d :: r) := by
        simp only [encode, List.append_assoc, List.cons_append, List.nil_append]
        exact skipWs_starter pre _ _ hpre (by decide)
      have hsk2 : skipWs (sp ++ 0x7d :: r) = 0x7d :: r := skipWs_starter sp _ _ hsp (by decide)
      simp [parseValue, hsk, hsk2, value, valueKV]
    | cons p ps =>
      simp only [valid, Bool.and_eq_true] at hv
      have hmem := validKV_mem hv.1
      obtain ⟨tail, htail⟩ := encodeKV_shape sp p ps
      have hsk : skipWs (pre ++ (encode sp (.obj (p :: ps)) ++ r)) = 0x7b :: (encodeKV sp (p :: ps) ++ r) := by
        simp only [encode, List.append_assoc, List.cons_append]
        exact skipWs_starter pre _ _ hpre (by decide)
      have hsk2 : skipWs (encodeKV sp (p :: ps) ++ r) = 0x22 :: (tail ++ r) := by
        rw [htail]
        simp only [List.append_assoc, List.cons_append]
        exact skipWs_starter sp _ _ hsp (by decide)
      have hl' : (encodeKV sp (p :: ps)).length < f := by
        simp only [encode, List.length_cons] at hl; omega
      have hel := parseMembers_rt (parseValue f) sp hsp p ps r ((encodeKV sp (p :: ps)).length + r.length + 1)
        (fun z hz => ⟨(hmem z hz).1, ih z.2 (hmem z hz).2 (by have := mem_length_encodeKV sp (p :: ps) z hz; omega)⟩)
        (by have := length_le_encodeKV sp (p :: ps); simp at this ⊢; omega)
      rw [← parseMembers_skip, hsk2] at hel
      simp only [parseValue, hsk, hsk2]
      simp [hel, value, lastWins_valueKV (p :: ps) hv.2]

theorem main (sp : Bytes) (hsp : wsOk sp = true) (f : Nat) :
    ∀ x, valid x = true → (encode sp x).length < f → ElemOK (parseValue f) sp x := by
  induction f with
  | zero => intro x _ h; omega
  | succ f ih => exact fun x hv hl => rt_step sp hsp f ih x hv hl


/-! ## truncation -/

theorem escByte_length_pos (c : UInt8) : 0 < (escByte c).length := by
  simp only [escByte]; split <;> (try split) <;> (try split) <;> simp

theorem parseStrBody_partial (f : Nat) (c : UInt8) (j : Nat) (hj : j < (escByte c).length) :
    parseStrBody (f + 1) ((escByte c).take j) = .err .eof := by
  by_cases h22 : c = 0x22
  · subst h22
    have : j = 0 ∨ j = 1 := by simp [escByte] at hj; omega
    rcases this with rfl | rfl <;> simp [escByte, parseStrBody]
  by_cases h5c : c = 0x5c
  · subst h5c
    have : j = 0 ∨ j = 1 := by simp [escByte] at hj; omega
    rcases this with rfl | rfl <;> simp [escByte, parseStrBody]
  by_cases hlt : c < 0x20
  · have hl : (escByte c).length = 6 := by simp [escByte, h22, h5c, hlt]
    have hesc : escByte c = [0x5c, 0x75, 0x30, 0x30, hexDigit (c.toNat / 16), hexDigit (c.toNat % 16)] := by
      simp [escByte, h22, h5c, hlt]
    rw [hesc]
    have : j = 0 ∨ j = 1 ∨ j = 2 ∨ j = 3 ∨ j = 4 ∨ j = 5 := by omega
    rcases this with rfl | rfl | rfl | rfl | rfl | rfl <;> simp [parseStrBody, getu4]
  · have hesc : escByte c = [c] := by simp [escByte, h22, h5c, hlt]
    rw [hesc] at hj ⊢
    have : j = 0 := by simpa using hj
    subst this
    simp [parseStrBody]

theorem parseStrBody_pf (s : Bytes) (j f : Nat) (hj : j ≤ (encStrBody s).length) (hf : j < f) :
    parseStrBody f ((encStrBody s).take j) = .err .eof := by
  induction s generalizing j f with
  | nil =>
    cases f with
    | zero => omega
    | succ f => simp [encStrBody, parseStrBody]
  | cons c s ih =>
    cases f with
    | zero => omega
    | succ f =>
      simp only [encStrBody] at hj ⊢
      by_cases hlt : j < (escByte c).length
      · rw [take_append_of_lt _ _ _ hlt]
        exact parseStrBody_partial f c j hlt
      · have hpos := escByte_length_pos c
        rw [take_append_of_le _ _ _ (by omega), parseStrBody_step f c,
          ih (j - (escByte c).length) f (by simp at hj; omega) (by omega)]

theorem parseStr_pf (s : Bytes) (j : Nat) (hj : j ≤ (encStrBody s).length) :
    parseStr ((encStrBody s).take j) = .err .eof := by
  unfold parseStr
  rw [parseStrBody_pf s j _ hj (by simp [List.length_take]; omega)]

theorem parseDigits_all (ds : Bytes) (acc : Nat) (h : ∀ c ∈ ds, Bencode.isDigit c = true) :
    ∃ n, Bencode.parseDigits ds acc = some n := by
  induction ds generalizing acc with
  | nil => exact ⟨acc, rfl⟩
  | cons d ds ih =>
    simp only [Bencode.parseDigits, h d (by simp), if_true]
    exact ih _ (fun c hc => h c (by simp [hc]))

theorem takeDigits_all (ds : Bytes) (h : ∀ c ∈ ds, Json.isDigit c = true) : takeDigits ds = (ds, []) := by
  simpa using takeDigits_append ds [] h (by intro c t h; cases h)

/-- a strict, non-empty prefix of a number literal is either just `-` (error) or a shorter number -/
theorem parseNumber_prefix (i : Int) (k : Nat) (hk : k < (encInt i).length) (hk0 : 0 < k) :
    parseNumber ((encInt i).take k) = .err .eof ∨ ∃ v, parseNumber ((encInt i).take k) = .ok (v, []) := by
  have key : ∀ (neg : Bool) (n j : Nat), 0 < j → j < (Bencode.decStr n).length →
      ∃ v, parseNumberBody neg ((Bencode.decStr n).take j) = .ok (v, []) := by
    intro neg n j hj0 hj
    obtain ⟨d, ds, hds, hz⟩ := decStr_shape n
    have hdig : ∀ c ∈ (Bencode.decStr n).take j, Bencode.isDigit c = true :=
      fun c hc => Proofs.C16.Bencode.decStr_digits n c (List.mem_of_mem_take hc)
    obtain ⟨m, hm⟩ := parseDigits_all _ 0 hdig
    have htd := takeDigits_all _ (fun c hc => by rw [isDigit_eq]; exact hdig c hc)
    obtain ⟨j', rfl⟩ : ∃ j', j = j' + 1 := ⟨j - 1, by omega⟩
    rw [hds] at hm htd hj ⊢
    simp only [List.take_succ_cons] at hm htd ⊢
    have hd0 : ¬ (d = 0x30 ∧ ds.take j' ≠ []) := by
      rintro ⟨h0, hne⟩
      have : ds ≠ [] := by intro h; rw [h] at hne; simp at hne
      exact hz ⟨h0, this⟩
    refine ⟨.int (if neg then -(m : Int) else m), ?_⟩
    simp only [parseNumberBody, htd]
    rw [if_neg hd0]
    simp [hm]
  by_cases hneg : i < 0
  · have henc : encInt i = 0x2d :: Bencode.decStr (-i).toNat := by simp [encInt, hneg]
    rw [henc] at hk ⊢
    obtain ⟨k', rfl⟩ : ∃ k', k = k' + 1 := ⟨k - 1, by omega⟩
    simp only [List.take_succ_cons, parseNumber]
    by_cases hk' : k' = 0
    · subst hk'
      left
      simp [parseNumberBody, takeDigits]
    · right
      exact key true _ k' (by omega) (by simpa using hk)
  · have henc : encInt i = Bencode.decStr i.toNat := by simp [encInt, hneg]
    rw [henc] at hk ⊢
    right
    obtain ⟨d, ds, hds, _⟩ := decStr_shape i.toNat
    have hm := decStr_head_ne_minus i.toNat d ds hds
    obtain ⟨v, hv⟩ := key false i.toNat k hk0 hk
    refine ⟨v, ?_⟩
    obtain ⟨k', rfl⟩ : ∃ k', k = k' + 1 := ⟨k - 1, by omega⟩
    rw [hds] at hv ⊢
    simp only [List.take_succ_cons] at hv ⊢
    have hpn : parseNumber (d :: ds.take k') = parseNumberBody false (d :: ds.take k') := by
      unfold parseNumber
      split
      · rename_i heq; simp at heq; exact absurd heq.1 hm
      · rfl
    rw [hpn, hv]


/-! ### truncation of compact documents (`sp = []`) -/

abbrev enc0 (x : J) : Bytes := encode [] x

/-- a cut inside the element: the parser fails with "unexpected end", or (bare numbers) returns a shorter
    number and nothing after it -/
def CutOK (pv : Bytes → Res (V × Bytes)) (x : J) (j : Nat) : Prop :=
  ∀ k, k < (enc0 x).length → k ≤ j →
    pv ((enc0 x).take k) = .err .eof ∨ ∃ v, pv ((enc0 x).take k) = .ok (v, [])

def FullOK (pv : Bytes → Res (V × Bytes)) (x : J) : Prop :=
  ∀ r, NumFollow r → pv (enc0 x ++ r) = .ok (value x, r)

theorem numFollow_nil : NumFollow [] := by intro c t h; cases h
theorem numFollow_comma (t : Bytes) : NumFollow (0x2c :: t) := (delim_cons _ _ (Or.inr (Or.inl rfl))).numFollow
theorem numFollow_rbracket (t : Bytes) : NumFollow (0x5d :: t) := (delim_cons _ _ (Or.inr (Or.inr (Or.inl rfl)))).numFollow
theorem numFollow_rbrace (t : Bytes) : NumFollow (0x7d :: t) := (delim_cons _ _ (Or.inr (Or.inr (Or.inr rfl)))).numFollow

theorem encodeL0_cons (x : J) (xs : List J) :
    encodeL [] (x :: xs) = enc0 x ++ (match xs with | [] => [0x5d] | y :: ys => 0x2c :: encodeL [] (y :: ys)) := by
  cases xs <;> simp [encodeL, enc0]

theorem parseElems_pf0 (pv : Bytes → Res (V × Bytes)) (x : J) (xs : List J) (j lf : Nat)
    (hj : j < (encodeL [] (x :: xs)).length) (hlf : j < lf)
    (hrt : ∀ y ∈ x :: xs, (enc0 y).length ≤ j → FullOK pv y)
    (hcut : ∀ y ∈ x :: xs, CutOK pv y j) :
    parseElems pv lf ((encodeL [] (x :: xs)).take j) = .err .eof := by
  induction xs generalizing x j lf with
  | nil =>
    cases lf with
    | zero => omega
    | succ lf =>
      simp only [encodeL0_cons] at hj ⊢
      by_cases hlt : j < (enc0 x).length
      · rw [take_append_of_lt _ _ _ hlt]
        rcases hcut x (by simp) j hlt (Nat.le_refl j) with h | ⟨v, h⟩ <;> simp [parseElems, h, skipWs]
      · have hje : j = (enc0 x).length := by simp at hj; omega
        have hx := hrt x (by simp) (by omega) [] numFollow_nil
        simp only [List.append_nil] at hx
        rw [take_append_of_le _ _ _ (by omega), hje]
        simp only [Nat.sub_self, List.take_zero]
        simp [parseElems, hx, skipWs]
  | cons y ys ih =>
    cases lf with
    | zero => omega
    | succ lf =>
      rw [encodeL0_cons] at hj ⊢
      simp only at hj ⊢
      by_cases hlt : j < (enc0 x).length
      · rw [take_append_of_lt _ _ _ hlt]
        rcases hcut x (by simp) j hlt (Nat.le_refl j) with h | ⟨v, h⟩ <;> simp [parseElems, h, skipWs]
      · rw [take_append_of_le _ _ _ (by omega)]
        by_cases hje : j = (enc0 x).length
        · have hx := hrt x (by simp) (by omega) [] numFollow_nil
          simp only [List.append_nil] at hx
          rw [hje]
          simp only [Nat.sub_self, List.take_zero]
          simp [parseElems, hx, skipWs]
        · obtain ⟨m, hm⟩ : ∃ m, j - (enc0 x).length = m + 1 := ⟨j - (enc0 x).length - 1, by omega⟩
          have hx := hrt x (by simp) (by omega) (0x2c :: (encodeL [] (y :: ys)).take m) (numFollow_comma _)
          have ih' := ih y m lf (by simp at hj; omega) (by omega)
            (fun z hz hl => hrt z (by simp [hz]) (by omega))
            (fun z hz k hk hkm => hcut z (by simp [hz]) k hk (by omega))
          rw [hm, List.take_succ_cons]
          have hsk : skipWs (0x2c :: (encodeL [] (y :: ys)).take m) = 0x2c :: (encodeL [] (y :: ys)).take m :=
            skipWs_nonws _ _ (by decide)
          simp [parseElems, hx, hsk, ih']

theorem encodeKV0_cons (k : Bytes) (x : J) (kvs : List (Bytes × J)) :
    encodeKV [] ((k, x) :: kvs) = 0x22 :: (encStrBody k ++ 0x22 :: 0x3a :: (enc0 x ++
      (match kvs with | [] => [0x7d] | q :: qs => 0x2c :: encodeKV [] (q :: qs)))) := by
  cases kvs <;> simp [encodeKV, encStr, enc0]

theorem parseMembers_pf0 (pv : Bytes → Res (V × Bytes)) (p : Bytes × J) (kvs : List (Bytes × J)) (j lf : Nat)
    (hj : j < (encodeKV [] (p :: kvs)).length) (hlf : j < lf)
    (hk : ∀ q ∈ p :: kvs, textOk q.1 = true)
    (hrt : ∀ q ∈ p :: kvs, (enc0 q.2).length ≤ j → FullOK pv q.2)
    (hcut : ∀ q ∈ p :: kvs, CutOK pv q.2 j) :
    parseMembers pv lf ((encodeKV [] (p :: kvs)).take j) = .err .eof := by
  induction kvs generalizing p j lf with
  | nil =>
    obtain ⟨k, x⟩ := p
    cases lf with
    | zero => omega
    | succ lf =>
      rw [encodeKV0_cons] at hj ⊢
      simp only at hj ⊢
      cases j with
      | zero => simp [parseMembers, skipWs]
      | succ j1 =>
        rw [List.take_succ_cons]
        have hq : skipWs (0x22 :: ((encStrBody k ++ 0x22 :: 0x3a :: (enc0 x ++ [0x7d])).take j1))
            = 0x22 :: ((encStrBody k ++ 0x22 :: 0x3a :: (enc0 x ++ [0x7d])).take j1) := skipWs_nonws _ _ (by decide)
        simp only [parseMembers, hq]
        by_cases hin : j1 ≤ (encStrBody k).length
        · rw [List.take_append_of_le_length hin, parseStr_pf k j1 hin]
          simp
        · rw [take_append_of_le _ _ _ (by omega)]
          obtain ⟨j2, hj2⟩ : ∃ j2, j1 - (encStrBody k).length = j2 + 1 := ⟨j1 - (encStrBody k).length - 1, by omega⟩
          rw [hj2, List.take_succ_cons, parseStr_rt k _ (hk (k, x) (by simp))]
          cases j2 with
          | zero => simp [skipWs]
          | succ j3 =>
            rw [List.take_succ_cons]
            have hc : skipWs (0x3a :: (enc0 x ++ [0x7d]).take j3) = 0x3a :: (enc0 x ++ [0x7d]).take j3 :=
              skipWs_nonws _ _ (by decide)
            simp only [hc]
            have hj3 : j3 ≤ (enc0 x).length := by simp at hj; omega
            by_cases hlt : j3 < (enc0 x).length
            · rw [take_append_of_lt _ _ _ hlt]
              rcases hcut (k, x) (by simp) j3 hlt (by omega) with h | ⟨v, h⟩ <;> simp [h, skipWs]
            · have hje : j3 = (enc0 x).length := by omega
              have hx := hrt (k, x) (by simp) (by simp only []; omega) [] numFollow_nil
              simp only [List.append_nil] at hx
              rw [take_append_of_le _ _ _ (by omega), hje]
              simp only [Nat.sub_self, List.take_zero]
              simp [hx, skipWs]
  | cons q qs ih =>
    obtain ⟨k, x⟩ := p
    cases lf with
    | zero => omega
    | succ lf =>
      rw [encodeKV0_cons] at hj ⊢
      simp only at hj ⊢
      cases j with
      | zero => simp [parseMembers, skipWs]
      | succ j1 =>
        rw [List.take_succ_cons]
        have hq : skipWs (0x22 :: ((encStrBody k ++ 0x22 :: 0x3a :: (enc0 x ++ 0x2c :: encodeKV [] (q :: qs))).take j1))
            = 0x22 :: ((encStrBody k ++ 0x22 :: 0x3a :: (enc0 x ++ 0x2c :: encodeKV [] (q :: qs))).take j1) :=
          skipWs_nonws _ _ (by decide)
        simp only [parseMembers, hq]
        by_cases hin : j1 ≤ (encStrBody k).length
        · rw [List.take_append_of_le_length hin, parseStr_pf k j1 hin]
          simp
        · rw [take_append_of_le _ _ _ (by omega)]
          obtain ⟨j2, hj2⟩ : ∃ j2, j1 - (encStrBody k).length = j2 + 1 := ⟨j1 - (encStrBody k).length - 1, by omega⟩
          rw [hj2, List.take_succ_cons, parseStr_rt k _ (hk (k, x) (by simp))]
          cases j2 with
          | zero => simp [skipWs]
          | succ j3 =>
            rw [List.take_succ_cons]
            have hc : skipWs (0x3a :: (enc0 x ++ 0x2c :: encodeKV [] (q :: qs)).take j3)
                = 0x3a :: (enc0 x ++ 0x2c :: encodeKV [] (q :: qs)).take j3 := skipWs_nonws _ _ (by decide)
            simp only [hc]
            by_cases hlt : j3 < (enc0 x).length
            · rw [take_append_of_lt _ _ _ hlt]
              rcases hcut (k, x) (by simp) j3 hlt (by omega) with h | ⟨v, h⟩ <;> simp [h, skipWs]
            · rw [take_append_of_le _ _ _ (by omega)]
              by_cases hje : j3 = (enc0 x).length
              · have hx := hrt (k, x) (by simp) (by simp only []; omega) [] numFollow_nil
                simp only [List.append_nil] at hx
                rw [hje]
                simp only [Nat.sub_self, List.take_zero]
                simp [hx, skipWs]
              · obtain ⟨m, hm⟩ : ∃ m, j3 - (enc0 x).length = m + 1 := ⟨j3 - (enc0 x).length - 1, by omega⟩
                have hx := hrt (k, x) (by simp) (by simp only []; omega) (0x2c :: (encodeKV [] (q :: qs)).take m)
                  (numFollow_comma _)
                have ih' := ih q m lf (by simp at hj; omega) (by omega)
                  (fun z hz => hk z (by simp [hz]))
                  (fun z hz hl => hrt z (by simp [hz]) (by omega))
                  (fun z hz i hi him => hcut z (by simp [hz]) i hi (by omega))
                rw [hm, List.take_succ_cons]
                have hsk : skipWs (0x2c :: (encodeKV [] (q :: qs)).take m) = 0x2c :: (encodeKV [] (q :: qs)).take m :=
                  skipWs_nonws _ _ (by decide)
                simp [hx, hsk, ih']


/-- truncated compact document: error, or (bare number) a shorter number -/
def PF0 (f : Nat) (x : J) : Prop :=
  ∀ k, k < (enc0 x).length → k < f →
    parseValue f ((enc0 x).take k) = .err .eof ∨
      (selfDelimiting x = false ∧ ∃ v, parseValue f ((enc0 x).take k) = .ok (v, []))

theorem wsOk_nil : wsOk [] = true := rfl

theorem pf_step0 (f : Nat)
    (ihrt : ∀ y, valid y = true → (enc0 y).length < f → ElemOK (parseValue f) [] y)
    (ihpf : ∀ y, valid y = true → PF0 f y) (x : J) (hv : valid x = true) : PF0 (f + 1) x := by
  intro k hk hkf
  cases k with
  | zero => left; simp [parseValue, skipWs]
  | succ k' =>
    cases x with
    | null =>
      left
      have hk3 : k' < 3 := by simp [enc0, encode] at hk; omega
      simp only [enc0, encode, List.take_succ_cons]
      have := expectLit_prefix [0x75, 0x6c, 0x6c] k' (by simpa using hk3)
      simp [parseValue, skipWs, isWs, lit, this]
    | bool b =>
      left
      cases b
      · have hk4 : k' < 4 := by simp [enc0, encode] at hk; omega
        simp only [enc0, encode, List.take_succ_cons]
        have := expectLit_prefix [0x61, 0x6c, 0x73, 0x65] k' (by simpa using hk4)
        simp [parseValue, skipWs, isWs, lit, this]
      · have hk3 : k' < 3 := by simp [enc0, encode] at hk; omega
        simp only [enc0, encode, List.take_succ_cons]
        have := expectLit_prefix [0x72, 0x75, 0x65] k' (by simpa using hk3)
        simp [parseValue, skipWs, isWs, lit, this]
    | int i =>
      have hpre := parseNumber_prefix i (k' + 1) (by simpa [enc0, encode] using hk) (by omega)
      have hval : parseValue (f + 1) ((enc0 (.int i)).take (k' + 1)) = parseNumber ((encInt i).take (k' + 1)) := by
        simp only [enc0, encode]
        by_cases hneg : i < 0
        · have henc : encInt i = 0x2d :: Bencode.decStr (-i).toNat := by simp [encInt, hneg]
          rw [henc, List.take_succ_cons]
          simp [parseValue, skipWs, isWs]
        · obtain ⟨d, ds, hds, hst, hdig⟩ := decStr_starter i.toNat
          have henc : encInt i = d :: ds := by simp [encInt, hneg, hds]
          have ⟨h1, h2, h3, h4, h5, h6⟩ := digit_not_struct d hdig
          rw [henc, List.take_succ_cons]
          simp [parseValue, skipWs, hst.1, h1, h2, h3, h4, h5, h6, hdig]
      rw [hval]
      rcases hpre with h | ⟨v, h⟩
      · exact Or.inl h
      · exact Or.inr ⟨rfl, v, h⟩
    | str s =>
      left
      have hk2 : k' ≤ (encStrBody s).length := by simp [enc0, encode, encStr] at hk; omega
      simp only [enc0, encode, encStr, List.take_succ_cons, List.take_append_of_le_length hk2]
      simp [parseValue, skipWs, isWs, parseStr_pf s k' hk2]
    | arr xs =>
      left
      cases xs with
      | nil =>
        have : k' = 0 := by simp [enc0, encode] at hk; omega
        subst this
        simp [enc0, encode, parseValue, skipWs, isWs]
      | cons y ys =>
        simp only [valid] at hv
        have hmem := validL_mem hv
        have hk2 : k' < (encodeL [] (y :: ys)).length := by simp [enc0, encode] at hk; omega
        simp only [enc0, encode, List.take_succ_cons]
        cases k' with
        | zero => simp [parseValue, skipWs, isWs]
        | succ k2 =>
          obtain ⟨c, t, hct, hst⟩ := encode_starter [] y
          obtain ⟨tail, htail⟩ := encodeL_shape [] y ys
          have hE : encodeL [] (y :: ys) = c :: (t ++ tail) := by rw [htail, hct]; simp
          have hpf := parseElems_pf0 (parseValue f) y ys (k2 + 1) (((encodeL [] (y :: ys)).take (k2 + 1)).length + 1) hk2
            (by simp [List.length_take]; omega)
            (fun z hz hl r hr => by
              have := ihrt z (hmem z hz) (by simp only [enc0] at hl ⊢; omega) [] r wsOk_nil hr
              simpa using this)
            (fun z hz i hi hik => by
              rcases ihpf z (hmem z hz) i hi (by omega) with h | ⟨_, v, h⟩
              · exact Or.inl h
              · exact Or.inr ⟨v, h⟩)
          rw [hE] at hpf ⊢
          simp only [List.take_succ_cons] at hpf ⊢
          simp only [List.length_cons, List.length_take, List.length_append] at hpf
          have hws := hst.1
          simp only [isWs, Bool.or_eq_false_iff, decide_eq_false_iff_not] at hws
          simp only [parseValue]
          simp [skipWs, isWs, hws, hst.2.1, hpf]
    | obj kvs =>
      left
      cases kvs with
      | nil =>
        have : k' = 0 := by simp [enc0, encode] at hk; omega
        subst this
        simp [enc0, encode, parseValue, skipWs, isWs]
      | cons p ps =>
        simp only [valid, Bool.and_eq_true] at hv
        have hmem := validKV_mem hv.1
        have hk2 : k' < (encodeKV [] (p :: ps)).length := by simp [enc0, encode] at hk; omega
        simp only [enc0, encode, List.take_succ_cons]
        cases k' with
        | zero => simp [parseValue, skipWs, isWs]
        | succ k2 =>
          obtain ⟨tail, htail⟩ := encodeKV_shape [] p ps
          have hE : encodeKV [] (p :: ps) = 0x22 :: tail := by rw [htail]; simp
          have hpf := parseMembers_pf0 (parseValue f) p ps (k2 + 1) (((encodeKV [] (p :: ps)).take (k2 + 1)).length + 1) hk2
            (by simp [List.length_take]; omega)
            (fun z hz => (hmem z hz).1)
            (fun z hz hl r hr => by
              have := ihrt z.2 (hmem z hz).2 (by simp only [enc0] at hl ⊢; omega) [] r wsOk_nil hr
              simpa using this)
            (fun z hz i hi hik => by
              rcases ihpf z.2 (hmem z hz).2 i hi (by omega) with h | ⟨_, v, h⟩
              · exact Or.inl h
              · exact Or.inr ⟨v, h⟩)
          rw [hE] at hpf ⊢
          simp only [List.take_succ_cons] at hpf ⊢
          simp only [List.length_cons, List.length_take] at hpf
          simp only [parseValue]
          simp [skipWs, isWs, hpf]

theorem main_pf0 (f : Nat) : ∀ x, valid x = true → PF0 f x := by
  induction f with
  | zero => intro x _ k _ hk; omega
  | succ f ih =>
    exact fun x hv => pf_step0 f (fun y hy hl => main [] wsOk_nil f y hy hl) ih x hv

end Proofs.C16.Json
