import FqModel.Serial.Msgpack
import Proofs.C16Common
/-!
  C16 — msgpack: round trip and truncation proofs for the model in FqModel/Serial/Msgpack.lean.
-/
namespace Proofs.C16.Msgpack
open FqModel.Serial FqModel.Serial.Msgpack Proofs.C16

/-! ### bridges between the mutual list functions and `List.map` -/

theorem encodeL_eq (xs : List W) : encodeL xs = cat encode xs := by
  induction xs with
  | nil => simp [encodeL, cat]
  | cons x xs ih => simp [encodeL, cat_cons, ih]

theorem encodeKV_eq (kvs : List (W × W)) : encodeKV kvs = catKV encode kvs := by
  induction kvs with
  | nil => simp [encodeKV, catKV]
  | cons p kvs ih => obtain ⟨k, v⟩ := p; simp [encodeKV, catKV_cons, ih]

theorem valueL_eq (xs : List W) : valueL xs = xs.map value := by
  induction xs with
  | nil => simp [valueL]
  | cons x xs ih => simp [valueL, ih]

theorem valueKV_eq (kvs : List (W × W)) : valueKV kvs = kvs.map (fun p => (value p.1, value p.2)) := by
  induction kvs with
  | nil => simp [valueKV]
  | cons p kvs ih => obtain ⟨k, v⟩ := p; simp [valueKV, ih]

theorem validL_mem {xs : List W} (h : validL xs = true) : ∀ x ∈ xs, valid x = true := by
  induction xs with
  | nil => simp
  | cons x xs ih =>
    simp [validL] at h
    intro y hy
    simp at hy
    rcases hy with rfl | hy
    · exact h.1
    · exact ih h.2 y hy

theorem validKV_mem {kvs : List (W × W)} (h : validKV kvs = true) :
    ∀ p ∈ kvs, valid p.1 = true ∧ valid p.2 = true := by
  induction kvs with
  | nil => simp
  | cons p kvs ih =>
    obtain ⟨k, v⟩ := p
    simp [validKV] at h
    intro y hy
    simp at hy
    rcases hy with rfl | hy
    · exact ⟨h.1.1.2, h.1.2⟩
    · exact ih h.2 y hy

/-! ### the type table, evaluated -/

theorem kindOf_posfix : ∀ n, n < 128 → kindOf n = some .posfix := by decide +kernel
theorem kindOf_negfix : ∀ n, n < 256 → 224 ≤ n → kindOf n = some .negfix := by decide +kernel
theorem kindOf_fixmap : ∀ n, n < 16 → kindOf (0x80 + n) = some .fixmap := by decide +kernel
theorem kindOf_fixarr : ∀ n, n < 16 → kindOf (0x90 + n) = some .fixarr := by decide +kernel
theorem kindOf_fixstr : ∀ n, n < 32 → kindOf (0xa0 + n) = some .fixstr := by decide +kernel

theorem byte_toNat (n : Nat) (h : n < 256) : (byte n).toNat = n := by
  simp [byte, UInt8.toNat_ofNat', Nat.mod_eq_of_lt h]

theorem decT_byte (f t : Nat) (bs : Bytes) (k : Kind) (ht : t < 256) (hk : kindOf t = some k) :
    decT (f + 1) (byte t :: bs) = runKind (decT f) t bs k := by
  simp [decT, byte_toNat t ht, hk]

theorem decT_nil (f : Nat) : decT (f + 1) [] = .err .eof := rfl

/-! ### helpers about the row functions -/

theorem scalar_rt (n : Nat) (mk : Nat → V) (x : Nat) (r : Bytes) (h : x < 256 ^ n) :
    scalar n mk (toBE n x ++ r) = .ok (mk x, r) := by
  simp [scalar, readU_toBE n x r h]

theorem scalar_pf (n : Nat) (mk : Nat → V) (bs : Bytes) (h : bs.length < n) : scalar n mk bs = .err .eof := by
  simp [scalar, readU_short n bs h]

theorem lenThen_ok (mk : Bytes → V) (s r : Bytes) : lenThen mk (.ok (s.length, s ++ r)) = .ok (mk s, r) := by
  simp [lenThen, readN_append]

theorem lenThen_ok_short (mk : Bytes → V) (n : Nat) (bs : Bytes) (h : bs.length < n) :
    lenThen mk (.ok (n, bs)) = .err .eof := by
  simp [lenThen, readN_short n bs h]

theorem lenThen_rt (mk : Bytes → V) (n : Nat) (s r : Bytes) (h : s.length < 256 ^ n) :
    lenThen mk (readU n (toBE n s.length ++ (s ++ r))) = .ok (mk s, r) := by
  rw [readU_toBE n s.length _ h, lenThen_ok]

theorem lenThen_pf (mk : Bytes → V) (n : Nat) (s : Bytes) (j : Nat) (h : s.length < 256 ^ n)
    (hj : j < n + s.length) :
    lenThen mk (readU n ((toBE n s.length ++ s).take j)) = .err .eof := by
  by_cases hlt : j < n
  · rw [readU_short]
    · rfl
    · simp [List.length_take, toBE_length]; omega
  · have hle : (toBE n s.length).length ≤ j := by rw [toBE_length]; omega
    rw [take_append_of_le _ _ _ hle, readU_toBE n s.length _ h, toBE_length]
    apply lenThen_ok_short
    simp [List.length_take]; omega

section containers
variable (dec : Bytes → Res (V × Bytes))

theorem arrayFn_ok (xs : List W) (r : Bytes)
    (h : ∀ x ∈ xs, ∀ r, dec (encode x ++ r) = .ok (value x, r)) :
    arrayFn dec (.ok (xs.length, cat encode xs ++ r)) = .ok (.arr (xs.map value), r) := by
  simp [arrayFn, decElems_rt dec encode value xs r h]

theorem arrayFn_ok_pf (xs : List W) (k : Nat)
    (hrt : ∀ x ∈ xs, (encode x).length ≤ k → ∀ r, dec (encode x ++ r) = .ok (value x, r))
    (hpf : ∀ x ∈ xs, ∀ j, j < (encode x).length → j ≤ k → dec ((encode x).take j) = .err .eof)
    (hk : k < (cat encode xs).length) :
    arrayFn dec (.ok (xs.length, (cat encode xs).take k)) = .err .eof := by
  simp [arrayFn, decElems_pf dec encode value xs k hrt hpf hk]

theorem mapFn_ok (kvs : List (W × W)) (r : Bytes)
    (h : ∀ p ∈ kvs, (∀ r, dec (encode p.1 ++ r) = .ok (value p.1, r)) ∧ (∀ r, dec (encode p.2 ++ r) = .ok (value p.2, r))) :
    mapFn dec (.ok (kvs.length, catKV encode kvs ++ r)) = .ok (.map (kvs.map (fun p => (value p.1, value p.2))), r) := by
  simp [mapFn, decPairs_rt dec encode value kvs r h]

theorem mapFn_ok_pf (kvs : List (W × W)) (k : Nat)
    (hrt : ∀ p ∈ kvs, ((encode p.1).length ≤ k → ∀ r, dec (encode p.1 ++ r) = .ok (value p.1, r)) ∧
                       ((encode p.2).length ≤ k → ∀ r, dec (encode p.2 ++ r) = .ok (value p.2, r)))
    (hpf : ∀ p ∈ kvs, (∀ j, j < (encode p.1).length → j ≤ k → dec ((encode p.1).take j) = .err .eof) ∧
                       (∀ j, j < (encode p.2).length → j ≤ k → dec ((encode p.2).take j) = .err .eof))
    (hk : k < (catKV encode kvs).length) :
    mapFn dec (.ok (kvs.length, (catKV encode kvs).take k)) = .err .eof := by
  simp [mapFn, decPairs_pf dec encode value kvs k hrt hpf hk]

/-- array/map with an n-byte length: truncation anywhere in `length ++ elements` -/
theorem arrayFn_pf (n : Nat) (xs : List W) (j : Nat) (h : xs.length < 256 ^ n)
    (hrt : ∀ x ∈ xs, (encode x).length + n ≤ j → ∀ r, dec (encode x ++ r) = .ok (value x, r))
    (hpf : ∀ x ∈ xs, ∀ i, i < (encode x).length → i + n ≤ j → dec ((encode x).take i) = .err .eof)
    (hj : j < n + (cat encode xs).length) :
    arrayFn dec (readU n ((toBE n xs.length ++ cat encode xs).take j)) = .err .eof := by
  by_cases hlt : j < n
  · rw [readU_short]
    · rfl
    · simp [List.length_take, toBE_length]; omega
  · have hle : (toBE n xs.length).length ≤ j := by rw [toBE_length]; omega
    rw [take_append_of_le _ _ _ hle, readU_toBE n xs.length _ h, toBE_length]
    exact arrayFn_ok_pf dec xs (j - n) (fun x hx hl => hrt x hx (by omega))
      (fun x hx i hi hij => hpf x hx i hi (by omega)) (by omega)

theorem mapFn_pf (n : Nat) (kvs : List (W × W)) (j : Nat) (h : kvs.length < 256 ^ n)
    (hrt : ∀ p ∈ kvs, ((encode p.1).length + n ≤ j → ∀ r, dec (encode p.1 ++ r) = .ok (value p.1, r)) ∧
                       ((encode p.2).length + n ≤ j → ∀ r, dec (encode p.2 ++ r) = .ok (value p.2, r)))
    (hpf : ∀ p ∈ kvs, (∀ i, i < (encode p.1).length → i + n ≤ j → dec ((encode p.1).take i) = .err .eof) ∧
                       (∀ i, i < (encode p.2).length → i + n ≤ j → dec ((encode p.2).take i) = .err .eof))
    (hj : j < n + (catKV encode kvs).length) :
    mapFn dec (readU n ((toBE n kvs.length ++ catKV encode kvs).take j)) = .err .eof := by
  by_cases hlt : j < n
  · rw [readU_short]
    · rfl
    · simp [List.length_take, toBE_length]; omega
  · have hle : (toBE n kvs.length).length ≤ j := by rw [toBE_length]; omega
    rw [take_append_of_le _ _ _ hle, readU_toBE n kvs.length _ h, toBE_length]
    exact mapFn_ok_pf dec kvs (j - n)
      (fun p hp => ⟨fun hl => (hrt p hp).1 (by omega), fun hl => (hrt p hp).2 (by omega)⟩)
      (fun p hp => ⟨fun i hi hij => (hpf p hp).1 i hi (by omega), fun i hi hij => (hpf p hp).2 i hi (by omega)⟩)
      (by omega)

end containers


/-! ### a type byte followed by a fixed-width scalar -/

theorem take_succ_byte (t : UInt8) (p : Bytes) (j : Nat) : (t :: p).take (j + 1) = t :: p.take j := by
  simp [List.take_succ_cons]

theorem tagged_scalar_rt (f t n : Nat) (k : Kind) (mk : Nat → V) (x : Nat) (rest : Bytes)
    (ht : t < 256) (hk : kindOf t = some k) (hrun : ∀ bs, runKind (decT f) t bs k = scalar n mk bs)
    (hx : x < 256 ^ n) :
    decT (f + 1) (byte t :: toBE n x ++ rest) = .ok (mk x, rest) := by
  rw [List.cons_append, decT_byte f t _ k ht hk, hrun, scalar_rt n mk x rest hx]

theorem tagged_scalar_pf (f t n : Nat) (k : Kind) (mk : Nat → V) (x : Nat)
    (ht : t < 256) (hk : kindOf t = some k) (hrun : ∀ bs, runKind (decT f) t bs k = scalar n mk bs)
    (j : Nat) (hj : j < (byte t :: toBE n x).length) :
    decT (f + 1) ((byte t :: toBE n x).take j) = .err .eof := by
  cases j with
  | zero => rfl
  | succ j =>
    rw [take_succ_byte, decT_byte f t _ k ht hk, hrun]
    apply scalar_pf
    simp [toBE_length] at hj
    simp [List.length_take, toBE_length]; omega

/-! ### integers -/

theorem ts8 (i : Int) (h1 : -128 ≤ i) (h2 : i < 128) : toSigned (8 * 1) (ofSigned 8 i) = i := by
  simp only [toSigned, ofSigned]; split <;> split <;> simp_all <;> omega
theorem ts16 (i : Int) (h1 : -32768 ≤ i) (h2 : i < 32768) : toSigned (8 * 2) (ofSigned 16 i) = i := by
  simp only [toSigned, ofSigned]; split <;> split <;> simp_all <;> omega
theorem ts32 (i : Int) (h1 : -2147483648 ≤ i) (h2 : i < 2147483648) : toSigned (8 * 4) (ofSigned 32 i) = i := by
  simp only [toSigned, ofSigned]; split <;> split <;> simp_all <;> omega
theorem ts64 (i : Int) (h1 : -9223372036854775808 ≤ i) (h2 : i < 9223372036854775808) :
    toSigned (8 * 8) (ofSigned 64 i) = i := by
  simp only [toSigned, ofSigned]; split <;> split <;> simp_all <;> omega

theorem rt_int (f : Nat) (fm : IntForm) (i : Int) (hv : intOk fm i = true) (rest : Bytes) :
    decT (f + 1) (encInt fm i ++ rest) = .ok (.int i, rest) := by
  cases fm <;> simp [intOk] at hv
  case fix =>
    by_cases hneg : i < 0
    · have ht : (i + 256).toNat < 256 := by omega
      have h2 : 224 ≤ (i + 256).toNat := by omega
      simp only [encInt, ofSigned, hneg, if_true, List.cons_append, List.nil_append]
      rw [show ((2 : Nat) ^ 8 : Nat) = 256 from rfl, show (((256 : Nat) : Int)) = 256 from rfl]
      rw [decT_byte f _ rest .negfix ht (kindOf_negfix _ ht h2)]
      simp [runKind, toSigned]
      omega
    · have ht : i.toNat < 128 := by omega
      simp only [encInt, ofSigned, hneg, if_false, List.cons_append, List.nil_append]
      rw [decT_byte f _ rest .posfix (by omega) (kindOf_posfix _ ht)]
      simp [runKind]
      omega
  case u8 =>
    have := tagged_scalar_rt f 0xcc 1 (.uint 1) (fun u => .int u) i.toNat rest (by decide) (by decide) (fun _ => rfl) (by omega)
    simp only [encInt]
    rw [this, Int.toNat_of_nonneg hv.1]
  case u16 =>
    have := tagged_scalar_rt f 0xcd 2 (.uint 2) (fun u => .int u) i.toNat rest (by decide) (by decide) (fun _ => rfl) (by omega)
    simp only [encInt]
    rw [this, Int.toNat_of_nonneg hv.1]
  case u32 =>
    have := tagged_scalar_rt f 0xce 4 (.uint 4) (fun u => .int u) i.toNat rest (by decide) (by decide) (fun _ => rfl) (by omega)
    simp only [encInt]
    rw [this, Int.toNat_of_nonneg hv.1]
  case u64 =>
    have := tagged_scalar_rt f 0xcf 8 (.uint 8) (fun u => .int u) i.toNat rest (by decide) (by decide) (fun _ => rfl) (by omega)
    simp only [encInt]
    rw [this, Int.toNat_of_nonneg hv.1]
  case i8 =>
    have := tagged_scalar_rt f 0xd0 1 (.sint 1) (fun u => .int (toSigned (8 * 1) u)) (ofSigned 8 i) rest (by decide) (by decide)
      (fun _ => rfl) (by simp [ofSigned]; split <;> omega)
    simp only [encInt]
    rw [this, ts8 i hv.1 hv.2]
  case i16 =>
    have := tagged_scalar_rt f 0xd1 2 (.sint 2) (fun u => .int (toSigned (8 * 2) u)) (ofSigned 16 i) rest (by decide) (by decide)
      (fun _ => rfl) (by simp [ofSigned]; split <;> omega)
    simp only [encInt]
    rw [this, ts16 i hv.1 hv.2]
  case i32 =>
    have := tagged_scalar_rt f 0xd2 4 (.sint 4) (fun u => .int (toSigned (8 * 4) u)) (ofSigned 32 i) rest (by decide) (by decide)
      (fun _ => rfl) (by simp [ofSigned]; split <;> omega)
    simp only [encInt]
    rw [this, ts32 i hv.1 hv.2]
  case i64 =>
    have := tagged_scalar_rt f 0xd3 8 (.sint 8) (fun u => .int (toSigned (8 * 8) u)) (ofSigned 64 i) rest (by decide) (by decide)
      (fun _ => rfl) (by simp [ofSigned]; split <;> omega)
    simp only [encInt]
    rw [this, ts64 i hv.1 hv.2]

theorem pf_int (f : Nat) (fm : IntForm) (i : Int) (j : Nat) (hj : j < (encInt fm i).length) :
    decT (f + 1) ((encInt fm i).take j) = .err .eof := by
  cases fm
  case fix =>
    simp [encInt] at hj
    subst hj
    rfl
  case u8 => exact tagged_scalar_pf f 0xcc 1 (.uint 1) (fun u => .int u) _ (by decide) (by decide) (fun _ => rfl) j hj
  case u16 => exact tagged_scalar_pf f 0xcd 2 (.uint 2) (fun u => .int u) _ (by decide) (by decide) (fun _ => rfl) j hj
  case u32 => exact tagged_scalar_pf f 0xce 4 (.uint 4) (fun u => .int u) _ (by decide) (by decide) (fun _ => rfl) j hj
  case u64 => exact tagged_scalar_pf f 0xcf 8 (.uint 8) (fun u => .int u) _ (by decide) (by decide) (fun _ => rfl) j hj
  case i8 => exact tagged_scalar_pf f 0xd0 1 (.sint 1) (fun u => .int (toSigned (8 * 1) u)) _ (by decide) (by decide) (fun _ => rfl) j hj
  case i16 => exact tagged_scalar_pf f 0xd1 2 (.sint 2) (fun u => .int (toSigned (8 * 2) u)) _ (by decide) (by decide) (fun _ => rfl) j hj
  case i32 => exact tagged_scalar_pf f 0xd2 4 (.sint 4) (fun u => .int (toSigned (8 * 4) u)) _ (by decide) (by decide) (fun _ => rfl) j hj
  case i64 => exact tagged_scalar_pf f 0xd3 8 (.sint 8) (fun u => .int (toSigned (8 * 8) u)) _ (by decide) (by decide) (fun _ => rfl) j hj


/-! ### length-prefixed strings and byte strings -/

theorem str_like_rt (f t n : Nat) (k : Kind) (mk : Bytes → V) (s rest : Bytes)
    (ht : t < 256) (hk : kindOf t = some k)
    (hrun : ∀ bs, runKind (decT f) t bs k = lenThen mk (readU n bs)) (h : s.length < 256 ^ n) :
    decT (f + 1) (byte t :: (toBE n s.length ++ (s ++ rest))) = .ok (mk s, rest) := by
  rw [decT_byte f t _ k ht hk, hrun, lenThen_rt mk n s rest h]

theorem str_like_pf (f t n : Nat) (k : Kind) (mk : Bytes → V) (s : Bytes)
    (ht : t < 256) (hk : kindOf t = some k)
    (hrun : ∀ bs, runKind (decT f) t bs k = lenThen mk (readU n bs)) (h : s.length < 256 ^ n)
    (j : Nat) (hj : j < (byte t :: (toBE n s.length ++ s)).length) :
    decT (f + 1) ((byte t :: (toBE n s.length ++ s)).take j) = .err .eof := by
  cases j with
  | zero => rfl
  | succ j =>
    rw [take_succ_byte, decT_byte f t _ k ht hk, hrun]
    apply lenThen_pf mk n s j h
    simp [toBE_length] at hj
    omega

theorem fixstr_rt (f : Nat) (s rest : Bytes) (h : s.length ≤ 31) :
    decT (f + 1) (byte (0xa0 + s.length) :: (s ++ rest)) = .ok (.str (sanitizeX s), rest) := by
  rw [decT_byte f _ _ .fixstr (by omega) (kindOf_fixstr _ (by omega))]
  have : (0xa0 + s.length) % 32 = s.length := by omega
  simp only [runKind, this]
  exact lenThen_ok _ s rest

theorem fixstr_pf (f : Nat) (s : Bytes) (h : s.length ≤ 31) (j : Nat) (hj : j < (byte (0xa0 + s.length) :: s).length) :
    decT (f + 1) ((byte (0xa0 + s.length) :: s).take j) = .err .eof := by
  cases j with
  | zero => rfl
  | succ j =>
    rw [take_succ_byte, decT_byte f _ _ .fixstr (by omega) (kindOf_fixstr _ (by omega))]
    have : (0xa0 + s.length) % 32 = s.length := by omega
    simp only [runKind, this]
    apply lenThen_ok_short
    simp at hj
    simp [List.length_take]; omega

theorem valid_sanitize {s : Bytes} (h : validUTF8 s = true) : sanitizeX s = s := by
  simpa [validUTF8] using h

/-! ### ext types (as they are) -/

theorem ext_rt (f t n : Nat) (ty : UInt8) (b rest : Bytes) (ht : t < 256) (hk : kindOf t = some (.ext n))
    (h : b.length < 256 ^ n) :
    decT (f + 1) (byte t :: (toBE n b.length ++ (ty :: (b ++ rest)))) = .ok (.str b, rest) := by
  rw [decT_byte f t _ (.ext n) ht hk]
  have h1 := readU_toBE n b.length (ty :: (b ++ rest)) h
  have h2 : readN 1 (ty :: (b ++ rest)) = .ok ([ty], b ++ rest) := readN_append' 1 [ty] _ rfl
  simp [runKind, extFn, h1, h2, readN_append]

theorem ext_pf (f t n : Nat) (ty : UInt8) (b : Bytes) (ht : t < 256) (hk : kindOf t = some (.ext n))
    (h : b.length < 256 ^ n) (j : Nat) (hj : j < (byte t :: (toBE n b.length ++ ty :: b)).length) :
    decT (f + 1) ((byte t :: (toBE n b.length ++ ty :: b)).take j) = .err .eof := by
  cases j with
  | zero => rfl
  | succ j =>
    rw [take_succ_byte, decT_byte f t _ (.ext n) ht hk]
    simp only [runKind, extFn]
    simp [toBE_length] at hj
    by_cases h0 : j < n
    · rw [readU_short]
      simp [List.length_take, toBE_length]; omega
    · rw [take_append_of_le _ _ _ (by rw [toBE_length]; omega), readU_toBE n b.length _ h, toBE_length]
      cases hj1 : j - n with
      | zero => simp [readN]
      | succ m =>
        have h2 : readN 1 (ty :: b.take m) = .ok ([ty], b.take m) := readN_append' 1 [ty] _ rfl
        simp only [List.take_succ_cons, h2]
        rw [readN_short]
        simp [List.length_take]; omega

theorem kindOf_fixext (n : Nat) (h : n = 1 ∨ n = 2 ∨ n = 4 ∨ n = 8 ∨ n = 16) :
    fixextType n < 256 ∧ kindOf (fixextType n) = some (.fixext n) := by
  rcases h with rfl | rfl | rfl | rfl | rfl <;> decide

theorem fixext_rt (f : Nat) (ty : UInt8) (b rest : Bytes)
    (h : b.length = 1 ∨ b.length = 2 ∨ b.length = 4 ∨ b.length = 8 ∨ b.length = 16) :
    decT (f + 1) (byte (fixextType b.length) :: (ty :: (b ++ rest))) = .ok (.str b, rest) := by
  have ⟨h1, h2⟩ := kindOf_fixext b.length h
  rw [decT_byte f _ _ _ h1 h2]
  have h3 : readN 1 (ty :: (b ++ rest)) = .ok ([ty], b ++ rest) := readN_append' 1 [ty] _ rfl
  simp [runKind, fixextFn, h3, readN_append]

theorem fixext_pf (f : Nat) (ty : UInt8) (b : Bytes)
    (h : b.length = 1 ∨ b.length = 2 ∨ b.length = 4 ∨ b.length = 8 ∨ b.length = 16) (j : Nat)
    (hj : j < (byte (fixextType b.length) :: ty :: b).length) :
    decT (f + 1) ((byte (fixextType b.length) :: ty :: b).take j) = .err .eof := by
  have ⟨h1, h2⟩ := kindOf_fixext b.length h
  cases j with
  | zero => rfl
  | succ j =>
    rw [take_succ_byte, decT_byte f _ _ _ h1 h2]
    simp only [runKind, fixextFn]
    cases j with
    | zero => simp [readN]
    | succ m =>
      have h3 : readN 1 (ty :: b.take m) = .ok ([ty], b.take m) := readN_append' 1 [ty] _ rfl
      simp only [List.take_succ_cons, h3]
      rw [readN_short]
      simp at hj
      simp [List.length_take]; omega

/-! ### the main induction -/

def RT (f : Nat) (x : W) : Prop := ∀ rest, decT f (encode x ++ rest) = .ok (value x, rest)
def PF (f : Nat) (x : W) : Prop := ∀ k, k < (encode x).length → k < f → decT f ((encode x).take k) = .err .eof

theorem pow1 : 256 ^ 1 = 2 ^ 8 := by decide
theorem pow2 : 256 ^ 2 = 2 ^ 16 := by decide
theorem pow4 : 256 ^ 4 = 2 ^ 32 := by decide
theorem pow8 : 256 ^ 8 = 2 ^ 64 := by decide

theorem rt_step (f : Nat) (ih : ∀ y, valid y = true → (encode y).length < f → RT f y)
    (x : W) (hv : valid x = true) (hl : (encode x).length < f + 1) : RT (f + 1) x := by
  intro rest
  cases x with
  | nil => exact decT_byte f 0xc0 rest .nil (by decide) (by decide)
  | bool b =>
    cases b
    · exact decT_byte f 0xc2 rest (.bool false) (by decide) (by decide)
    · exact decT_byte f 0xc3 rest (.bool true) (by decide) (by decide)
  | int fm i => exact rt_int f fm i (by simpa [valid] using hv) rest
  | f32 p =>
    simp [valid] at hv
    exact tagged_scalar_rt f 0xca 4 .f32 (fun p => .float (widen32 p)) p rest (by decide) (by decide) (fun _ => rfl)
      (by rw [pow4]; exact hv)
  | f64 b =>
    simp [valid] at hv
    exact tagged_scalar_rt f 0xcb 8 .f64 .float b rest (by decide) (by decide) (fun _ => rfl) (by rw [pow8]; exact hv)
  | str fm s =>
    simp only [valid, Bool.and_eq_true] at hv
    obtain ⟨hlen, hutf⟩ := hv
    simp only [encode, value, List.append_assoc]
    have hs := valid_sanitize hutf
    cases fm <;> simp [lenOk] at hlen <;> simp only [encLen, List.cons_append, List.nil_append]
    · have := fixstr_rt f s rest hlen
      rw [hs] at this; exact this
    · have := str_like_rt f 0xd9 1 (.str 1) (fun x => .str (sanitizeX x)) s rest (by decide) (by decide) (fun _ => rfl)
        (by rw [pow1]; exact hlen)
      rw [hs] at this; exact this
    · have := str_like_rt f 0xda 2 (.str 2) (fun x => .str (sanitizeX x)) s rest (by decide) (by decide) (fun _ => rfl)
        (by rw [pow2]; exact hlen)
      rw [hs] at this; exact this
    · have := str_like_rt f 0xdb 4 (.str 4) (fun x => .str (sanitizeX x)) s rest (by decide) (by decide) (fun _ => rfl)
        (by rw [pow4]; exact hlen)
      rw [hs] at this; exact this
  | bin fm b =>
    simp only [valid] at hv
    simp only [encode, value, List.append_assoc]
    cases fm <;> simp [lenOk] at hv <;> simp only [encLen, List.cons_append, List.nil_append]
    · exact str_like_rt f 0xc4 1 (.bin 1) .bytes b rest (by decide) (by decide) (fun _ => rfl) (by rw [pow1]; exact hv)
    · exact str_like_rt f 0xc5 2 (.bin 2) .bytes b rest (by decide) (by decide) (fun _ => rfl) (by rw [pow2]; exact hv)
    · exact str_like_rt f 0xc6 4 (.bin 4) .bytes b rest (by decide) (by decide) (fun _ => rfl) (by rw [pow4]; exact hv)
  | arr fm xs =>
    simp only [valid, Bool.and_eq_true] at hv
    obtain ⟨hlen, hvl⟩ := hv
    have hmem := validL_mem hvl
    simp only [encode, List.length_append, encodeL_eq] at hl
    simp only [encode, value, List.append_assoc, encodeL_eq, valueL_eq]
    have helem : ∀ x ∈ xs, ∀ r, decT f (encode x ++ r) = .ok (value x, r) := fun x hx =>
      ih x (hmem x hx) (by have := mem_length_le_cat encode xs x hx; cases fm <;> simp [encLen, toBE_length] at hl <;> omega)
    cases fm <;> simp [lenOk] at hlen <;> simp only [encLen, List.cons_append, List.nil_append]
    · rw [decT_byte f _ _ .fixarr (by omega) (kindOf_fixarr _ (by omega))]
      have : (0x90 + xs.length) % 16 = xs.length := by omega
      simp only [runKind, this]
      exact arrayFn_ok (decT f) xs rest helem
    · rw [decT_byte f 0xdc _ (.arr 2) (by decide) (by decide)]
      simp only [runKind]
      rw [readU_toBE 2 xs.length _ (by rw [pow2]; exact hlen)]
      exact arrayFn_ok (decT f) xs rest helem
    · rw [decT_byte f 0xdd _ (.arr 4) (by decide) (by decide)]
      simp only [runKind]
      rw [readU_toBE 4 xs.length _ (by rw [pow4]; exact hlen)]
      exact arrayFn_ok (decT f) xs rest helem
  | map fm kvs =>
    simp only [valid, Bool.and_eq_true] at hv
    obtain ⟨⟨hlen, hvl⟩, _⟩ := hv
    have hmem := validKV_mem hvl
    simp only [encode, List.length_append, encodeKV_eq] at hl
    simp only [encode, value, List.append_assoc, encodeKV_eq, valueKV_eq]
    have helem : ∀ p ∈ kvs, (∀ r, decT f (encode p.1 ++ r) = .ok (value p.1, r)) ∧
        (∀ r, decT f (encode p.2 ++ r) = .ok (value p.2, r)) := fun p hp =>
      have hle := mem_length_le_catKV encode kvs p hp
      ⟨ih p.1 (hmem p hp).1 (by cases fm <;> simp [encLen, toBE_length] at hl <;> omega),
       ih p.2 (hmem p hp).2 (by cases fm <;> simp [encLen, toBE_length] at hl <;> omega)⟩
    cases fm <;> simp [lenOk] at hlen <;> simp only [encLen, List.cons_append, List.nil_append]
    · rw [decT_byte f _ _ .fixmap (by omega) (kindOf_fixmap _ (by omega))]
      have : (0x80 + kvs.length) % 16 = kvs.length := by omega
      simp only [runKind, this]
      exact mapFn_ok (decT f) kvs rest helem
    · rw [decT_byte f 0xde _ (.map 2) (by decide) (by decide)]
      simp only [runKind]
      rw [readU_toBE 2 kvs.length _ (by rw [pow2]; exact hlen)]
      exact mapFn_ok (decT f) kvs rest helem
    · rw [decT_byte f 0xdf _ (.map 4) (by decide) (by decide)]
      simp only [runKind]
      rw [readU_toBE 4 kvs.length _ (by rw [pow4]; exact hlen)]
      exact mapFn_ok (decT f) kvs rest helem

  | ext fm ty b =>
    simp only [valid] at hv
    simp only [encode, value, List.append_assoc]
    cases fm <;> simp [lenOk] at hv <;> simp only [encLen, List.cons_append, List.nil_append]
    · exact ext_rt f 0xc7 1 ty b rest (by decide) (by decide) (by rw [pow1]; exact hv)
    · exact ext_rt f 0xc8 2 ty b rest (by decide) (by decide) (by rw [pow2]; exact hv)
    · exact ext_rt f 0xc9 4 ty b rest (by decide) (by decide) (by rw [pow4]; exact hv)
  | fixext ty b =>
    simp only [valid, decide_eq_true_eq] at hv
    simp only [encode, value, List.cons_append, List.append_assoc]
    exact fixext_rt f ty b rest hv

theorem pf_step (f : Nat) (ihrt : ∀ y, valid y = true → (encode y).length < f → RT f y)
    (ihpf : ∀ y, valid y = true → PF f y) (x : W) (hv : valid x = true) : PF (f + 1) x := by
  intro k hk hkf
  cases x with
  | nil => simp [encode] at hk; subst hk; rfl
  | bool b => simp [encode] at hk; subst hk; rfl
  | int fm i => exact pf_int f fm i k hk
  | f32 p =>
    exact tagged_scalar_pf f 0xca 4 .f32 (fun p => .float (widen32 p)) p (by decide) (by decide) (fun _ => rfl) k hk
  | f64 b =>
    exact tagged_scalar_pf f 0xcb 8 .f64 .float b (by decide) (by decide) (fun _ => rfl) k hk
  | str fm s =>
    simp only [valid, Bool.and_eq_true] at hv
    obtain ⟨hlen, _⟩ := hv
    revert hk
    simp only [encode]
    cases fm <;> simp [lenOk] at hlen <;> simp only [encLen, List.cons_append, List.nil_append] <;> intro hk
    · exact fixstr_pf f s hlen k hk
    · exact str_like_pf f 0xd9 1 (.str 1) (fun x => .str (sanitizeX x)) s (by decide) (by decide) (fun _ => rfl)
        (by rw [pow1]; exact hlen) k hk
    · exact str_like_pf f 0xda 2 (.str 2) (fun x => .str (sanitizeX x)) s (by decide) (by decide) (fun _ => rfl)
        (by rw [pow2]; exact hlen) k hk
    · exact str_like_pf f 0xdb 4 (.str 4) (fun x => .str (sanitizeX x)) s (by decide) (by decide) (fun _ => rfl)
        (by rw [pow4]; exact hlen) k hk
  | bin fm b =>
    simp only [valid] at hv
    revert hk
    simp only [encode]
    cases fm <;> simp [lenOk] at hv <;> simp only [encLen, List.cons_append, List.nil_append] <;> intro hk
    · exact str_like_pf f 0xc4 1 (.bin 1) .bytes b (by decide) (by decide) (fun _ => rfl) (by rw [pow1]; exact hv) k hk
    · exact str_like_pf f 0xc5 2 (.bin 2) .bytes b (by decide) (by decide) (fun _ => rfl) (by rw [pow2]; exact hv) k hk
    · exact str_like_pf f 0xc6 4 (.bin 4) .bytes b (by decide) (by decide) (fun _ => rfl) (by rw [pow4]; exact hv) k hk
  | arr fm xs =>
    simp only [valid, Bool.and_eq_true] at hv
    obtain ⟨hlen, hvl⟩ := hv
    have hmem := validL_mem hvl
    revert hk
    simp only [encode, encodeL_eq]
    cases k with
    | zero => intro _; rfl
    | succ j =>
      have hrt : ∀ x ∈ xs, (encode x).length ≤ j → ∀ r, decT f (encode x ++ r) = .ok (value x, r) :=
        fun x hx hle => ihrt x (hmem x hx) (by omega)
      have hpf : ∀ x ∈ xs, ∀ i, i < (encode x).length → i ≤ j → decT f ((encode x).take i) = .err .eof :=
        fun x hx i hi hij => ihpf x (hmem x hx) i hi (by omega)
      cases fm <;> simp [lenOk] at hlen <;> simp only [encLen, List.cons_append, List.nil_append] <;> intro hk
      · rw [take_succ_byte, decT_byte f _ _ .fixarr (by omega) (kindOf_fixarr _ (by omega))]
        have : (0x90 + xs.length) % 16 = xs.length := by omega
        simp only [runKind, this]
        exact arrayFn_ok_pf (decT f) xs j hrt hpf (by simp at hk; omega)
      · rw [take_succ_byte, decT_byte f 0xdc _ (.arr 2) (by decide) (by decide)]
        simp only [runKind]
        exact arrayFn_pf (decT f) 2 xs j (by rw [pow2]; exact hlen) (fun x hx hle => hrt x hx (by omega))
          (fun x hx i hi hij => hpf x hx i hi (by omega)) (by simp [toBE_length] at hk; omega)
      · rw [take_succ_byte, decT_byte f 0xdd _ (.arr 4) (by decide) (by decide)]
        simp only [runKind]
        exact arrayFn_pf (decT f) 4 xs j (by rw [pow4]; exact hlen) (fun x hx hle => hrt x hx (by omega))
          (fun x hx i hi hij => hpf x hx i hi (by omega)) (by simp [toBE_length] at hk; omega)
  | map fm kvs =>
    simp only [valid, Bool.and_eq_true] at hv
    obtain ⟨⟨hlen, hvl⟩, _⟩ := hv
    have hmem := validKV_mem hvl
    revert hk
    simp only [encode, encodeKV_eq]
    cases k with
    | zero => intro _; rfl
    | succ j =>
      have hrt : ∀ p ∈ kvs, ((encode p.1).length ≤ j → ∀ r, decT f (encode p.1 ++ r) = .ok (value p.1, r)) ∧
          ((encode p.2).length ≤ j → ∀ r, decT f (encode p.2 ++ r) = .ok (value p.2, r)) :=
        fun p hp => ⟨fun hle => ihrt p.1 (hmem p hp).1 (by omega), fun hle => ihrt p.2 (hmem p hp).2 (by omega)⟩
      have hpf : ∀ p ∈ kvs, (∀ i, i < (encode p.1).length → i ≤ j → decT f ((encode p.1).take i) = .err .eof) ∧
          (∀ i, i < (encode p.2).length → i ≤ j → decT f ((encode p.2).take i) = .err .eof) :=
        fun p hp => ⟨fun i hi hij => ihpf p.1 (hmem p hp).1 i hi (by omega),
                     fun i hi hij => ihpf p.2 (hmem p hp).2 i hi (by omega)⟩
      cases fm <;> simp [lenOk] at hlen <;> simp only [encLen, List.cons_append, List.nil_append] <;> intro hk
      · rw [take_succ_byte, decT_byte f _ _ .fixmap (by omega) (kindOf_fixmap _ (by omega))]
        have : (0x80 + kvs.length) % 16 = kvs.length := by omega
        simp only [runKind, this]
        exact mapFn_ok_pf (decT f) kvs j hrt hpf (by simp at hk; omega)
      · rw [take_succ_byte, decT_byte f 0xde _ (.map 2) (by decide) (by decide)]
        simp only [runKind]
        exact mapFn_pf (decT f) 2 kvs j (by rw [pow2]; exact hlen)
          (fun p hp => ⟨fun hle => (hrt p hp).1 (by omega), fun hle => (hrt p hp).2 (by omega)⟩)
          (fun p hp => ⟨fun i hi hij => (hpf p hp).1 i hi (by omega), fun i hi hij => (hpf p hp).2 i hi (by omega)⟩)
          (by simp [toBE_length] at hk; omega)
      · rw [take_succ_byte, decT_byte f 0xdf _ (.map 4) (by decide) (by decide)]
        simp only [runKind]
        exact mapFn_pf (decT f) 4 kvs j (by rw [pow4]; exact hlen)
          (fun p hp => ⟨fun hle => (hrt p hp).1 (by omega), fun hle => (hrt p hp).2 (by omega)⟩)
          (fun p hp => ⟨fun i hi hij => (hpf p hp).1 i hi (by omega), fun i hi hij => (hpf p hp).2 i hi (by omega)⟩)
          (by simp [toBE_length] at hk; omega)
  | ext fm ty b =>
    simp only [valid] at hv
    revert hk
    simp only [encode]
    cases fm <;> simp [lenOk] at hv <;> simp only [encLen, List.cons_append, List.nil_append] <;> intro hk
    · exact ext_pf f 0xc7 1 ty b (by decide) (by decide) (by rw [pow1]; exact hv) k hk
    · exact ext_pf f 0xc8 2 ty b (by decide) (by decide) (by rw [pow2]; exact hv) k hk
    · exact ext_pf f 0xc9 4 ty b (by decide) (by decide) (by rw [pow4]; exact hv) k hk
  | fixext ty b =>
    simp only [valid, decide_eq_true_eq] at hv
    exact fixext_pf f ty b hv k hk

theorem main (f : Nat) :
    (∀ x, valid x = true → (encode x).length < f → RT f x) ∧ (∀ x, valid x = true → PF f x) := by
  induction f with
  | zero => exact ⟨fun x _ h => absurd h (Nat.not_lt_zero _), fun x _ k _ hk => absurd hk (Nat.not_lt_zero _)⟩
  | succ f ih => exact ⟨fun x hv hl => rt_step f ih.1 x hv hl, fun x hv => pf_step f ih.1 ih.2 x hv⟩


/-! ### torepr of a decoded valid tree -/

theorem vkey_value (k : W) (b : Bytes) (h : keyBytes k = some b) : vkey (value k) = some b := by
  cases k <;> simp [keyBytes] at h <;> subst h <;> simp [value, vkey]

mutual
theorem reprOK_value : ∀ x, valid x = true → reprOK (value x) = true
  | .nil, _ => by simp [value, reprOK]
  | .bool _, _ => by simp [value, reprOK]
  | .int _ _, _ => by simp [value, reprOK]
  | .f32 _, _ => by simp [value, reprOK]
  | .f64 _, _ => by simp [value, reprOK]
  | .str _ _, _ => by simp [value, reprOK]
  | .bin _ _, _ => by simp [value, reprOK]
  | .ext _ _ _, _ => by simp [value, reprOK]
  | .fixext _ _, _ => by simp [value, reprOK]
  | .arr _ xs, h => by
    simp only [valid, Bool.and_eq_true] at h
    simp [value, reprOK, reprOKL_value xs h.2]
  | .map _ kvs, h => by
    simp only [valid, Bool.and_eq_true] at h
    have ⟨h1, h2⟩ := reprOKKV_value kvs h.1.2
    simp [value, reprOK, h1, h2, h.2]
theorem reprOKL_value : ∀ xs, validL xs = true → reprOKL (valueL xs) = true
  | [], _ => by simp [valueL, reprOKL]
  | x :: xs, h => by
    simp only [validL, Bool.and_eq_true] at h
    simp [valueL, reprOKL, reprOK_value x h.1, reprOKL_value xs h.2]
theorem reprOKKV_value : ∀ kvs, validKV kvs = true →
    reprOKKV (valueKV kvs) = true ∧ vkeys (valueKV kvs) = keysOf kvs
  | [], _ => by simp [valueKV, reprOKKV, vkeys, keysOf]
  | (k, v) :: r, h => by
    simp only [validKV, Bool.and_eq_true] at h
    obtain ⟨⟨⟨hk, _⟩, hv⟩, hr⟩ := h
    obtain ⟨b, hb⟩ := Option.isSome_iff_exists.mp hk
    have hvk := vkey_value k b hb
    have ⟨h1, h2⟩ := reprOKKV_value r hr
    simp [valueKV, reprOKKV, vkeys, keysOf, hvk, hb, reprOK_value v hv, h1, h2]
end


/-! ### every in-domain value has a valid wire tree (`canon`) -/

theorem intOk_smallest (i : Int) (h1 : -(2 ^ 63) ≤ i) (h2 : i < 2 ^ 64) : intOk (smallestInt i) i = true := by
  unfold smallestInt
  split
  · simp [intOk]; omega
  · split
    · split
      · simp [intOk]; omega
      · split
        · simp [intOk]; omega
        · split
          · simp [intOk]; omega
          · simp [intOk]; omega
    · split
      · simp [intOk]; omega
      · split
        · simp [intOk]; omega
        · split
          · simp [intOk]; omega
          · simp [intOk]; omega

theorem lenOk_smallest (fixMax : Nat) (has8 : Bool) (n : Nat) (h : n < 2 ^ 32) :
    lenOk (some fixMax) has8 (smallestLen fixMax has8 n) n = true := by
  unfold smallestLen
  split
  · simp [lenOk]; omega
  · split
    · rename_i h8; simp at h8; simp [lenOk, h8.1]; omega
    · split
      · simp [lenOk]; omega
      · simp [lenOk]; omega

theorem keyBytes_canon (k : V) : keyBytes (canon k) = vKeyBytes k := by
  cases k <;> simp [canon, keyBytes, vKeyBytes]

mutual
theorem canon_ok : ∀ v, inDomain v = true → valid (canon v) = true ∧ value (canon v) = v
  | .null, _ => by simp [canon, valid, value]
  | .bool _, _ => by simp [canon, valid, value]
  | .int i, h => by
    simp only [inDomain, Bool.and_eq_true, decide_eq_true_eq] at h
    simp [canon, valid, value, intOk_smallest i h.1 h.2]
  | .float b, h => by
    simp only [inDomain, decide_eq_true_eq] at h
    simp [canon, valid, value, h]
  | .str s, h => by
    simp only [inDomain, Bool.and_eq_true, decide_eq_true_eq] at h
    simp [canon, valid, value, lenOk_smallest 31 true s.length h.1, h.2]
  | .bytes b, h => by
    simp only [inDomain, decide_eq_true_eq] at h
    simp only [canon, valid, value, and_true]
    split
    · simp [lenOk]; omega
    · split
      · simp [lenOk]; omega
      · simp [lenOk]; omega
  | .arr xs, h => by
    simp only [inDomain, Bool.and_eq_true, decide_eq_true_eq] at h
    have ⟨h1, h2, h3⟩ := canonL_ok xs h.2
    simp [canon, valid, value, h1, h2, h3, lenOk_smallest 15 false xs.length h.1]
  | .map kvs, h => by
    simp only [inDomain, Bool.and_eq_true, decide_eq_true_eq] at h
    have ⟨h1, h2, h3, h4⟩ := canonKV_ok kvs h.1.2
    simp [canon, valid, value, h1, h2, h3, h4, h.2, lenOk_smallest 15 false kvs.length h.1.1]
theorem canonL_ok : ∀ xs, inDomainL xs = true →
    validL (canonL xs) = true ∧ valueL (canonL xs) = xs ∧ (canonL xs).length = xs.length
  | [], _ => by simp [canonL, validL, valueL]
  | x :: xs, h => by
    simp only [inDomainL, Bool.and_eq_true] at h
    have ⟨a1, a2⟩ := canon_ok x h.1
    have ⟨b1, b2, b3⟩ := canonL_ok xs h.2
    simp [canonL, validL, valueL, a1, a2, b1, b2, b3]
theorem canonKV_ok : ∀ kvs, inDomainKV kvs = true →
    validKV (canonKV kvs) = true ∧ valueKV (canonKV kvs) = kvs ∧ (canonKV kvs).length = kvs.length ∧
      keysOf (canonKV kvs) = vKeysOf kvs
  | [], _ => by simp [canonKV, validKV, valueKV, keysOf, vKeysOf]
  | (k, v) :: r, h => by
    simp only [inDomainKV, Bool.and_eq_true] at h
    obtain ⟨⟨⟨hk, hk2⟩, hv⟩, hr⟩ := h
    have ⟨a1, a2⟩ := canon_ok k hk2
    have ⟨c1, c2⟩ := canon_ok v hv
    have ⟨b1, b2, b3, b4⟩ := canonKV_ok r hr
    simp [canonKV, validKV, valueKV, keysOf, vKeysOf, keyBytes_canon, hk, a1, a2, c1, c2, b1, b2, b3, b4]
end

end Proofs.C16.Msgpack
