import FqModel.Cli
/-!
  C17 — helper lemmas for the input loop model and the raw-input line splitter.
-/
namespace Proofs.C17Loop
open FqModel.Cli

variable {C V Out : Type}

/-- sequential composition of the observable effects of two runs -/
def app (a b : St Out) : St Out :=
  { out := a.out ++ b.out, errs := a.errs ++ b.errs, io := a.io || b.io, dec := a.dec || b.dec,
    expr := a.expr || b.expr }

theorem St.ext' {a b : St Out} (h1 : a.out = b.out) (h2 : a.errs = b.errs) (h3 : a.io = b.io) (h4 : a.dec = b.dec)
    (h5 : a.expr = b.expr) : a = b := by
  cases a; cases b; simp_all

theorem app_empty (a : St Out) : app a {} = a := by
  apply St.ext' <;> simp [app]

theorem empty_app (a : St Out) : app {} a = a := by
  apply St.ext' <;> simp [app]

theorem app_assoc (a b c : St Out) : app (app a b) c = app a (app b c) := by
  apply St.ext' <;> simp [app, Bool.or_assoc]

theorem evalOne_app (env : Env C V Out) (v : V) (st : St Out) :
    evalOne env v st = app st (evalOne env v {}) := by
  apply St.ext' <;> simp [evalOne, app] <;> split <;> simp

/-- the loop only appends to the state it is started with -/
theorem loop_app (env : Env C V Out) :
    ∀ (fs : List Str) (st : St Out), loop env fs st = app st (loop env fs {}) := by
  intro fs
  induction fs with
  | nil => intro st; simp [loop, app_empty]
  | cons h t ih =>
    intro st
    simp only [loop]
    cases hopen : env.openF h with
    | none =>
      simp only []
      rw [ih _, ih { io := true, errs := _ }, ← app_assoc]
      congr 1
      apply St.ext' <;> simp [app]
    | some c =>
      simp only []
      cases hdec : env.decode c with
      | none =>
        simp only []
        rw [ih _, ih { dec := true, errs := _ }, ← app_assoc]
        congr 1
        apply St.ext' <;> simp [app]
      | some v =>
        simp only []
        rw [ih (evalOne env v st), ih (evalOne env v {}), evalOne_app env v st, app_assoc]

theorem runFiles_cons (env : Env C V Out) (f : Str) (t : List Str) :
    runFiles env (f :: t) = app (runFiles env [f]) (runFiles env t) := by
  unfold runFiles
  simp only [loop]
  cases hopen : env.openF f with
  | none => simp only []; rw [loop_app env t _]
  | some c =>
    simp only []
    cases hdec : env.decode c with
    | none => simp only []; rw [loop_app env t _]
    | some v => simp only []; rw [loop_app env t _]

/-! ### exit status of a run -/

/-- distinct positive codes for the remembered classes -/
abbrev LoopWf (c : Codes) : Prop :=
  0 < c.io ∧ 0 < c.decode ∧ 0 < c.expr ∧ c.io ≠ c.decode ∧ c.io ≠ c.expr ∧ c.decode ≠ c.expr

theorem exit_eq_io (c : Codes) (h : LoopWf c) (a b d : Bool) : (finallyExit c a b d = c.io) = (a = true) := by
  obtain ⟨h1, h2, h3, h4, h5, h6⟩ := h
  cases a <;> cases b <;> cases d <;> simp [finallyExit] <;> omega

theorem exit_eq_dec (c : Codes) (h : LoopWf c) (a b d : Bool) :
    (finallyExit c a b d = c.decode) = (a = false ∧ b = true) := by
  obtain ⟨h1, h2, h3, h4, h5, h6⟩ := h
  cases a <;> cases b <;> cases d <;> simp [finallyExit] <;> omega

theorem exit_eq_expr (c : Codes) (h : LoopWf c) (a b d : Bool) :
    (finallyExit c a b d = c.expr) = (a = false ∧ b = false ∧ d = true) := by
  obtain ⟨h1, h2, h3, h4, h5, h6⟩ := h
  cases a <;> cases b <;> cases d <;> simp [finallyExit] <;> omega

/-- the values `collect` gathers do not depend on the error memory it carries -/
theorem collect_vals_indep (env : Env C V Out) :
    ∀ (fs : List Str) (st st' : St Out) (acc : List V), (collect env fs st acc).2 = (collect env fs st' acc).2 := by
  intro fs
  induction fs with
  | nil => intro st st' acc; rfl
  | cons h t ih =>
    intro st st' acc
    simp only [collect]
    cases env.openF h with
    | none => exact ih _ _ _
    | some cnt =>
      simp only []
      cases env.decode cnt with
      | none => exact ih _ _ _
      | some v => exact ih _ _ _

/-! ### raw input lines -/

theorem splitNl_ne_nil (s : Str) : splitNl s ≠ [] := by
  induction s with
  | nil => simp [splitNl]
  | cons c cs ih =>
    simp only [splitNl]
    split
    · simp
    · split <;> simp

/-- joining the lines with newlines gives the text back: the split loses nothing -/
theorem intercalate_splitNl (s : Str) : ['\n'].intercalate (splitNl s) = s := by
  induction s with
  | nil => simp [splitNl, List.intercalate]
  | cons c cs ih =>
    simp only [splitNl]
    split
    · rename_i hc
      subst hc
      have hne := splitNl_ne_nil cs
      cases hs : splitNl cs with
      | nil => exact absurd hs hne
      | cons l ls =>
        rw [hs] at ih
        simp [List.intercalate] at ih ⊢
        simpa using ih
    · cases hs : splitNl cs with
      | nil => exact absurd hs (splitNl_ne_nil cs)
      | cons l ls =>
        rw [hs] at ih
        simp [List.intercalate] at ih ⊢
        cases ls with
        | nil => simpa using ih
        | cons l2 ls2 => simpa using ih

theorem splitNl_no_newline (s : Str) : ∀ l ∈ splitNl s, '\n' ∉ l := by
  induction s with
  | nil => simp [splitNl]
  | cons c cs ih =>
    simp only [splitNl]
    split
    · intro l hl
      simp at hl
      rcases hl with rfl | hl
      · simp
      · exact ih l hl
    · rename_i hc
      cases hs : splitNl cs with
      | nil => exact absurd hs (splitNl_ne_nil cs)
      | cons l0 ls =>
        rw [hs] at ih
        intro l hl
        simp at hl
        rcases hl with rfl | hl
        · have := ih l0 (by simp)
          simp [this]
          exact fun h => hc h.symm
        · exact ih l (by simp [hl])

end Proofs.C17Loop
