import FqModel.Cli
import Proofs.C17Parse
/-! helper lemmas for the option-merge / named-argument theorems of Props/C17.lean -/
namespace Proofs.C17Opts
open FqModel.Cli Proofs.C17Parse

/-- reading a key after a constant write -/
theorem getKey_setKey_const {α} (k k' : Str) (v : α) :
    ∀ (m : List (Str × α)), getKey k (setKey k' (fun _ => v) m) = if k = k' then some v else getKey k m
  | [] => by
    by_cases h : k = k'
    · subst h; simp [setKey, getKey]
    · have h' : ¬ k' = k := fun e => h e.symm
      simp [setKey, getKey, h, h']
  | (k'', x) :: m => by
    have ih := getKey_setKey_const k k' v m
    unfold getKey at ih
    by_cases h1 : k' = k''
    · subst h1
      by_cases h : k = k'
      · subst h; simp [setKey, getKey]
      · have h' : ¬ k' = k := fun e => h e.symm
        simp [setKey, getKey, h, h']
    · by_cases h2 : strLt k' k'' = true
      · by_cases h : k = k'
        · subst h; simp [setKey, getKey, h1, h2]
        · have h' : ¬ k' = k := fun e => h e.symm
          simp [setKey, getKey, h1, h2, h, h']
      · by_cases h : k = k'
        · subst h
          have h1' : ¬ k'' = k := fun e => h1 e.symm
          simp [setKey, getKey, h1, h2, h1'] at ih ⊢
          exact ih
        · by_cases h3 : k'' = k
          · subst h3
            have h' : ¬ k' = k'' := h1
            simp [setKey, getKey, h', h2, h]
          · simp [setKey, getKey, h1, h2, h, h3] at ih ⊢
            exact ih

/-- the later of two constant writes to one key wins -/
theorem setKey_overwrite {α} (a : Str) (x y : α) :
    ∀ (m : List (Str × α)), setKey a (fun _ => y) (setKey a (fun _ => x) m) = setKey a (fun _ => y) m
  | [] => by simp [setKey]
  | (k, v) :: m => by
    by_cases hak : a = k
    · subst hak; simp [setKey]
    · by_cases hal : strLt a k = true
      · simp [setKey, hak, hal]
      · simp [setKey, hak, hal, setKey_overwrite a x y m]

/-- `$obj[$k]` of `a + b`: the LAST entry of `b` for the key, else `a`'s -/
theorem getKey_objAdd (k : Str) : ∀ (b a : JObj),
    getKey k (objAdd a b) = (getKey k b.reverse).or (getKey k a)
  | [], a => by simp [objAdd, getKey]
  | (k', v) :: b, a => by
    have ih := getKey_objAdd k b (setKey k' (fun _ => v) a)
    have e : objAdd a ((k', v) :: b) = objAdd (setKey k' (fun _ => v) a) b := by simp [objAdd]
    rw [e, ih, getKey_setKey_const]
    have hrev : getKey k ((k', v) :: b).reverse = (getKey k b.reverse).or (if k = k' then some v else none) := by
      simp only [getKey, List.reverse_cons, List.find?_append]
      by_cases h : k' = k
      · subst h; cases List.find? (fun kv => decide (kv.1 = k')) b.reverse <;> simp
      · have h' : ¬ k = k' := fun e => h e.symm
        cases List.find? (fun kv => decide (kv.1 = k)) b.reverse <;> simp [h, h']
    rw [hrev]
    cases getKey k b.reverse <;> by_cases h : k = k' <;> simp [h]

/-- `from_entries` of a concatenation: the right part is asked first -/
theorem bindOf_append (l1 l2 : List (Str × Src)) (n : Str) :
    bindOf (l1 ++ l2) n = (bindOf l2 n).or (bindOf l1 n) := by
  simp only [bindOf, List.reverse_append, List.find?_append]
  cases List.find? (fun p => decide (p.1 = n)) l2.reverse <;> simp

end Proofs.C17Opts
