import FqModel.Cli
/-!
  C17 — helper lemmas for the argument parser model: `parseArgs` is the fixpoint of `step`
  (fuel never runs out, the amount of fuel does not matter).
-/
namespace Proofs.C17Parse
open FqModel.Cli

theorem meas_cons (a : Str) (l : List Str) : meas (a :: l) = a.length + 1 + meas l := by
  simp [meas]

theorem meas_nil : meas [] = 0 := rfl

theorem withoutArg_congr {k1 k2 : List Str → R → Res} {args : List Str} (n : Str) (r : R)
    (h : ∀ r', k1 args r' = k2 args r') : withoutArg k1 args n r = withoutArg k2 args n r := by
  simp [withoutArg, h]

theorem withArg_congr {k1 k2 : List Str → R → Res} {args : List Str} (n : Str) (v : Val) (o : Opt) (r : R)
    (h : ∀ r', k1 args r' = k2 args r') : withArg k1 args n v o r = withArg k2 args n v o r := by
  unfold withArg
  simp only [h]

theorem idxEq_le (s : Str) (i : Nat) (h : idxEq s = some i) : i < s.length := by
  induction s generalizing i with
  | nil => simp [idxEq] at h
  | cons c cs ih =>
    simp only [idxEq] at h
    split at h
    · cases h; simp
    · cases hc : idxEq cs with
      | none => simp [hc] at h
      | some j =>
        simp [hc] at h
        have := ih j hc
        subst h
        simp; omega

theorem argOf_length_le (a : Str) : (argOf a).length ≤ a.length := by
  unfold argOf
  split
  · simp [List.length_take]; omega
  · exact Nat.le_refl _

theorem looksLikeFlag_length {a : Str} (h : looksLikeFlag a = true) : 2 ≤ a.length := by
  match a with
  | [] => simp [looksLikeFlag] at h
  | [_] => simp [looksLikeFlag] at h
  | _ :: _ :: _ => simp

/-- every recursive call of `step` is on an argument list of strictly smaller measure -/
theorem step_congr (t : Table) (k1 k2 : List Str → R → Res) (args : List Str) (r : R)
    (h : ∀ args' r', meas args' < meas args → k1 args' r' = k2 args' r') :
    step t k1 args r = step t k2 args r := by
  cases args with
  | nil => rfl
  | cons a0 tl =>
    have htl : ∀ r', k1 tl r' = k2 tl r' := fun r' => h tl r' (by rw [meas_cons]; omega)
    simp only [step]
    split
    · rfl
    · split
      · rename_i hflag
        have hlen : 2 ≤ a0.length := Nat.le_trans (looksLikeFlag_length hflag) (argOf_length_le a0)
        split
        · split
          · split
            · rfl
            · split
              · apply withoutArg_congr
                intro r'
                apply h
                rw [meas_cons, meas_cons]
                simp [List.length_drop]
                omega
              · rfl
          · rfl
        · split
          · split
            · exact withArg_congr _ _ _ _ htl
            · split
              · split
                · exact withoutArg_congr _ _ htl
                · rfl
              · rename_i a1 tl2
                apply withArg_congr
                intro r'
                apply h
                rw [meas_cons, meas_cons]; omega
          · split
            · split
              · rename_i a1 a2 tl3
                apply withArg_congr
                intro r'
                apply h
                rw [meas_cons, meas_cons, meas_cons]; omega
              · rfl
            · split
              · rfl
              · exact withoutArg_congr _ _ htl
      · exact htl _

theorem parseF_indep (t : Table) : ∀ (n m : Nat) (args : List Str) (r : R),
    meas args < n → meas args < m → parseF t n args r = parseF t m args r := by
  intro n
  induction n with
  | zero => intro m args r h; omega
  | succ n ih =>
    intro m args r hn hm
    cases m with
    | zero => omega
    | succ m =>
      simp only [parseF]
      apply step_congr
      intro args' r' hlt
      exact ih m args' r' (by omega) (by omega)

/-- the fixpoint equation: `parseArgs` IS `_parse` -/
theorem parseArgs_eq (t : Table) (args : List Str) (r : R) :
    parseArgs t args r = step t (parseArgs t) args r := by
  show parseF t (meas args + 1) args r = _
  rw [parseF]
  apply step_congr
  intro args' r' hlt
  show parseF t (meas args) args' r' = parseF t (meas args' + 1) args' r'
  exact parseF_indep t _ _ args' r' hlt (by omega)

/-! ### `=` handling and the key order of jq objects -/

theorem idxEq_none_of_not_mem : ∀ (s : Str), '=' ∉ s → idxEq s = none
  | [], _ => rfl
  | c :: cs, h => by
    have hc : c ≠ '=' := fun e => h (by simp [e])
    have := idxEq_none_of_not_mem cs (fun m => h (by simp [m]))
    simp [idxEq, hc, this]

theorem argOf_of_no_eq (s : Str) (h : '=' ∉ s) : argOf s = s := by
  simp [argOf, idxEq_none_of_not_mem s h]

theorem idxEq_append_eq : ∀ (k v : Str), '=' ∉ k → idxEq (k ++ '=' :: v) = some k.length
  | [], v, _ => by simp [idxEq]
  | c :: cs, v, h => by
    have hc : c ≠ '=' := fun e => h (by simp [e])
    have := idxEq_append_eq cs v (fun m => h (by simp [m]))
    simp [idxEq, hc, this]

theorem strLt_irrefl : ∀ (a : Str), strLt a a = false
  | [] => rfl
  | c :: cs => by simp [strLt, strLt_irrefl cs]

theorem strLt_asymm : ∀ (a b : Str), strLt a b = true → strLt b a = false
  | [], [], h => by simp [strLt] at h
  | [], _ :: _, _ => rfl
  | _ :: _, [], h => by simp [strLt] at h
  | a :: as, b :: bs, h => by
    simp only [strLt] at h ⊢
    split at h
    · rename_i hab
      have : ¬ b.toNat < a.toNat := by omega
      have hba : ¬ (b.toNat < a.toNat) := this
      simp [hba, hab]
    · split at h
      · simp at h
      · rename_i h1 h2
        simp [h1, h2, strLt_asymm as bs h]

theorem strLt_total : ∀ (a b : Str), a ≠ b → strLt a b = true ∨ strLt b a = true
  | [], [], h => absurd rfl h
  | [], _ :: _, _ => Or.inl rfl
  | _ :: _, [], _ => Or.inr rfl
  | a :: as, b :: bs, h => by
    simp only [strLt]
    by_cases h1 : a.toNat < b.toNat
    · simp [h1]
    · by_cases h2 : b.toNat < a.toNat
      · simp [h1, h2]
      · have hab : a = b := Char.toNat_inj.mp (by omega)
        subst hab
        have : as ≠ bs := fun e => h (by rw [e])
        simpa [h1] using strLt_total as bs this

theorem strLt_trans : ∀ (a b c : Str), strLt a b = true → strLt b c = true → strLt a c = true
  | [], [], _, h, _ => by simp [strLt] at h
  | [], _ :: _, [], _, h => by simp [strLt] at h
  | [], _ :: _, _ :: _, _, _ => rfl
  | _ :: _, [], _, h, _ => by simp [strLt] at h
  | _ :: _, _ :: _, [], _, h => by simp [strLt] at h
  | a :: as, b :: bs, c :: cs, h1, h2 => by
    simp only [strLt] at h1 h2 ⊢
    by_cases hab : a.toNat < b.toNat
    · by_cases hbc : b.toNat < c.toNat
      · have : a.toNat < c.toNat := by omega
        simp [this]
      · by_cases hcb : c.toNat < b.toNat
        · simp [hbc, hcb] at h2
        · have : a.toNat < c.toNat := by omega
          simp [this]
    · by_cases hba : b.toNat < a.toNat
      · simp [hab, hba] at h1
      · simp only [hab, hba] at h1
        by_cases hbc : b.toNat < c.toNat
        · have : a.toNat < c.toNat := by omega
          simp [this]
        · by_cases hcb : c.toNat < b.toNat
          · simp [hbc, hcb] at h2
          · simp only [hbc, hcb] at h2
            have e1 : ¬ a.toNat < c.toNat := by omega
            have e2 : ¬ c.toNat < a.toNat := by omega
            simp only [e1, e2]
            exact strLt_trans as bs cs (by simpa using h1) (by simpa using h2)

/-- updates of two different keys of a jq object commute -/
theorem setKey_comm {α} (a b : Str) (hab : a ≠ b) (x y : α) :
    ∀ (m : List (Str × α)), setKey a (fun _ => x) (setKey b (fun _ => y) m) = setKey b (fun _ => y) (setKey a (fun _ => x) m)
  | [] => by
    rcases strLt_total a b hab with h | h
    · have h' := strLt_asymm a b h
      simp [setKey, hab, hab.symm, h, h']
    · have h' := strLt_asymm b a h
      simp [setKey, hab, hab.symm, h, h']
  | (k, v) :: m => by
    have ih := setKey_comm a b hab x y m
    by_cases hak : a = k
    · subst hak
      by_cases hlt : strLt b a = true
      · have h' := strLt_asymm b a hlt
        simp [setKey, hab, hab.symm, hlt, h']
      · simp [setKey, hab, hab.symm, hlt]
    · by_cases hbk : b = k
      · subst hbk
        by_cases hlt : strLt a b = true
        · have h' := strLt_asymm a b hlt
          simp [setKey, hab, hab.symm, hlt, h']
        · simp [setKey, hab, hab.symm, hlt]
      · by_cases hal : strLt a k = true
        · by_cases hbl : strLt b k = true
          · rcases strLt_total a b hab with h | h
            · have h' := strLt_asymm a b h
              simp [setKey, hak, hbk, hal, hbl, hab, hab.symm, h, h']
            · have h' := strLt_asymm b a h
              simp [setKey, hak, hbk, hal, hbl, hab, hab.symm, h, h']
          · -- a < k ≤ b
            have hba : strLt b a = false := by
              cases hb : strLt b a with
              | false => rfl
              | true => exact absurd (strLt_trans b a k hb hal) hbl
            simp [setKey, hak, hbk, hal, hbl, hab, hab.symm, hba]
        · by_cases hbl : strLt b k = true
          · have hab' : strLt a b = false := by
              cases ha : strLt a b with
              | false => rfl
              | true => exact absurd (strLt_trans a b k ha hbl) hal
            simp [setKey, hak, hbk, hal, hbl, hab, hab.symm, hab']
          · simp [setKey, hak, hbk, hal, hbl, ih]

theorem setKey_idem {α} (a : Str) (x : α) :
    ∀ (m : List (Str × α)), setKey a (fun _ => x) (setKey a (fun _ => x) m) = setKey a (fun _ => x) m
  | [] => by simp [setKey]
  | (k, v) :: m => by
    by_cases hak : a = k
    · subst hak; simp [setKey]
    · by_cases hal : strLt a k = true
      · simp [setKey, hak, hal]
      · simp [setKey, hak, hal, setKey_idem a x m]

end Proofs.C17Parse
