import FqModel.Cli
/-!
  C17 — helper lemmas for the argument parser model: `parseArgs` is the fixpoint of `step`
  (fuel never runs out, the amount of fuel does not matter).
-/
namespace Proofs.C17Parse
open FqModel.Cli

theorem meas_cons (a : Str) (l : List Str) : meas (a :: l) = a.length + 1 + meas l := by
  simp [meas]

theorem meas_nil : meas [] = 0 := rfl

theorem withoutArg_congr {k1 k2 : List Str → R → Res} {args : List Str} (n : Str) (r : R)
    (h : ∀ r', k1 args r' = k2 args r') : withoutArg k1 args n r = withoutArg k2 args n r := by
  simp [withoutArg, h]

theorem withArg_congr {k1 k2 : List Str → R → Res} {args : List Str} (n : Str) (v : Val) (o : Opt) (r : R)
    (h : ∀ r', k1 args r' = k2 args r') : withArg k1 args n v o r = withArg k2 args n v o r := by
  unfold withArg
  simp only [h]

theorem idxEq_le (s : Str) (i : Nat) (h : idxEq s = some i) : i < s.length := by
  induction s generalizing i with
  | nil => simp [idxEq] at h
  | cons c cs ih =>
    simp only [idxEq] at h
    split at h
    · cases h; simp
    · cases hc : idxEq cs with
      | none => simp [hc] at h
      | some j =>
        simp [hc] at h
        have := ih j hc
        subst h
        simp; omega

theorem argOf_length_le (a : Str) : (argOf a).length ≤ a.length := by
  unfold argOf
  split
  · simp [List.length_take]; omega
  · exact Nat.le_refl _

theorem looksLikeFlag_length {a : Str} (h : looksLikeFlag a = true) : 2 ≤ a.length := by
  match a with
  | [] => simp [looksLikeFlag] at h
  | [_] => simp [looksLikeFlag] at h
  | _ :: _ :: _ => simp

/-- every recursive call of `step` is on an argument list of strictly smaller measure -/
theorem step_congr (t : Table) (k1 k2 : List Str → R → Res) (args : List Str) (r : R)
    (h : ∀ args' r', meas args' < meas args → k1 args' r' = k2 args' r') :
    step t k1 args r = step t k2 args r := by
  cases args with
  | nil => rfl
  | cons a0 tl =>
    have htl : ∀ r', k1 tl r' = k2 tl r' := fun r' => h tl r' (by rw [meas_cons]; omega)
    simp only [step]
    split
    · rfl
    · split
      · rename_i hflag
        have hlen : 2 ≤ a0.length := Nat.le_trans (looksLikeFlag_length hflag) (argOf_length_le a0)
        split
        · split
          · split
            · rfl
            · split
              · apply withoutArg_congr
                intro r'
                apply h
                rw [meas_cons, meas_cons]
                simp [List.length_drop]
                omega
              · rfl
          · rfl
        · split
          · split
            · exact withArg_congr _ _ _ _ htl
            · split
              · split
                · exact withoutArg_congr _ _ htl
                · rfl
              · rename_i a1 tl2
                apply withArg_congr
                intro r'
                apply h
                rw [meas_cons, meas_cons]; omega
          · split
            · split
              · rename_i a1 a2 tl3
                apply withArg_congr
                intro r'
                apply h
                rw [meas_cons, meas_cons, meas_cons]; omega
              · rfl
            · split
              · rfl
              · exact withoutArg_congr _ _ htl
      · exact htl _

theorem parseF_indep (t : Table) : ∀ (n m : Nat) (args : List Str) (r : R),
    meas args < n → meas args < m → parseF t n args r = parseF t m args r := by
  intro n
  induction n with
  | zero => intro m args r h; omega
  | succ n ih =>
    intro m args r hn hm
    cases m with
    | zero => omega
    | succ m =>
      simp only [parseF]
      apply step_congr
      intro args' r' hlt
      exact ih m args' r' (by omega) (by omega)

/-- the fixpoint equation: `parseArgs` IS `_parse` -/
theorem parseArgs_eq (t : Table) (args : List Str) (r : R) :
    parseArgs t args r = step t (parseArgs t) args r := by
  show parseF t (meas args + 1) args r = _
  rw [parseF]
  apply step_congr
  intro args' r' hlt
  show parseF t (meas args) args' r' = parseF t (meas args' + 1) args' r'
  exact parseF_indep t _ _ args' r' hlt (by omega)

end Proofs.C17Parse
