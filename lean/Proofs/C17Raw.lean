import FqModel.Cli
/-!
  C17 — helper lemmas for the raw-input splitter over an arbitrary alphabet (`splitSep`, `rtrimSep`, `rawLinesG`).
-/
namespace Proofs.C17Raw
open FqModel.Cli

variable {α : Type} [DecidableEq α]

theorem splitSep_ne_nil (nl : α) (s : List α) : splitSep nl s ≠ [] := by
  induction s with
  | nil => simp [splitSep]
  | cons c cs ih =>
    simp only [splitSep]
    split
    · simp
    · split <;> simp

/-- joining the pieces with the separator gives the text back: the split loses nothing -/
theorem intercalate_splitSep (nl : α) (s : List α) : [nl].intercalate (splitSep nl s) = s := by
  induction s with
  | nil => simp [splitSep, List.intercalate]
  | cons c cs ih =>
    simp only [splitSep]
    split
    · rename_i hc
      subst hc
      cases hs : splitSep c cs with
      | nil => exact absurd hs (splitSep_ne_nil c cs)
      | cons l ls =>
        rw [hs] at ih
        simp [List.intercalate] at ih ⊢
        simpa using ih
    · cases hs : splitSep nl cs with
      | nil => exact absurd hs (splitSep_ne_nil nl cs)
      | cons l ls =>
        rw [hs] at ih
        simp [List.intercalate] at ih ⊢
        cases ls with
        | nil => simpa using ih
        | cons l2 ls2 => simpa using ih

theorem splitSep_no_sep (nl : α) (s : List α) : ∀ l ∈ splitSep nl s, nl ∉ l := by
  induction s with
  | nil => simp [splitSep]
  | cons c cs ih =>
    simp only [splitSep]
    split
    · intro l hl
      simp at hl
      rcases hl with rfl | hl
      · simp
      · exact ih l hl
    · rename_i hc
      cases hs : splitSep nl cs with
      | nil => exact absurd hs (splitSep_ne_nil nl cs)
      | cons l0 ls =>
        rw [hs] at ih
        intro l hl
        simp at hl
        rcases hl with rfl | hl
        · have := ih l0 (by simp)
          simp [this]
          exact fun h => hc h.symm
        · exact ih l (by simp [hl])

/-- every element other than the separator survives, in order -/
theorem flatten_splitSep (nl : α) (s : List α) : (splitSep nl s).flatten = s.filter (fun c => decide (c ≠ nl)) := by
  induction s with
  | nil => simp [splitSep]
  | cons c cs ih =>
    simp only [splitSep]
    split
    · rename_i hc
      simp [hc, ih]
    · rename_i hc
      cases hs : splitSep nl cs with
      | nil => exact absurd hs (splitSep_ne_nil nl cs)
      | cons l ls =>
        rw [hs] at ih
        simp [hc] at ih ⊢
        exact ih

/-- one piece more than there are separators -/
theorem length_splitSep (nl : α) (s : List α) : (splitSep nl s).length = s.count nl + 1 := by
  induction s with
  | nil => simp [splitSep]
  | cons c cs ih =>
    simp only [splitSep]
    split
    · rename_i hc
      simp [hc, ih]
    · rename_i hc
      cases hs : splitSep nl cs with
      | nil => exact absurd hs (splitSep_ne_nil nl cs)
      | cons l ls =>
        rw [hs] at ih
        have : (c == nl) = false := by simp [hc]
        simp [List.count_cons, this] at ih ⊢
        exact ih

/-- a piece that has no separator is not cut -/
theorem splitSep_of_not_mem (nl : α) (l : List α) (h : nl ∉ l) : splitSep nl l = [l] := by
  induction l with
  | nil => simp [splitSep]
  | cons c cs ih =>
    have hc : c ≠ nl := fun e => h (by simp [e])
    have hcs : nl ∉ cs := fun e => h (by simp [e])
    simp [splitSep, hc, ih hcs]

/-- `splitSep` of `l ++ nl :: rest` when `l` has no separator -/
theorem splitSep_append_sep (nl : α) (l rest : List α) (h : nl ∉ l) :
    splitSep nl (l ++ nl :: rest) = l :: splitSep nl rest := by
  induction l with
  | nil => simp [splitSep]
  | cons c cs ih =>
    have hc : c ≠ nl := fun e => h (by simp [e])
    have hcs : nl ∉ cs := fun e => h (by simp [e])
    simp [splitSep, hc, ih hcs]

/-- the split is the ONLY way to cut a text into separator-free pieces: the inverse of `intercalate` -/
theorem splitSep_intercalate (nl : α) (ls : List (List α)) (hne : ls ≠ []) (h : ∀ l ∈ ls, nl ∉ l) :
    splitSep nl ([nl].intercalate ls) = ls := by
  induction ls with
  | nil => exact absurd rfl hne
  | cons l rest ih =>
    cases rest with
    | nil =>
      simp [List.intercalate]
      exact splitSep_of_not_mem nl l (h l (by simp))
    | cons l2 rest2 =>
      have ih' := ih (by simp) (fun x hx => h x (by simp [hx]))
      have : [nl].intercalate (l :: l2 :: rest2) = l ++ nl :: [nl].intercalate (l2 :: rest2) := by
        simp [List.intercalate]
      rw [this, splitSep_append_sep nl l _ (h l (by simp)), ih']

/-! ### `rtrimSep`, `endsSep` -/

theorem rtrimSep_nil (nl : α) : rtrimSep nl ([] : List α) = [] := by simp [rtrimSep]

theorem rtrimSep_concat (nl c : α) (t : List α) : rtrimSep nl (t ++ [c]) = if c = nl then t else t ++ [c] := by
  simp [rtrimSep]

theorem endsSep_nil (nl : α) : endsSep nl ([] : List α) = false := by simp [endsSep]

theorem endsSep_concat (nl c : α) (t : List α) : endsSep nl (t ++ [c]) = decide (c = nl) := by
  simp [endsSep]

/-- the trimmed text plus the separator that was trimmed is the text -/
theorem rtrimSep_append (nl : α) (s : List α) : rtrimSep nl s ++ (if endsSep nl s then [nl] else []) = s := by
  rcases List.eq_nil_or_concat s with rfl | ⟨t, c, rfl⟩
  · simp [rtrimSep_nil, endsSep_nil]
  · have : t.concat c = t ++ [c] := by simp
    rw [this, rtrimSep_concat, endsSep_concat]
    by_cases hc : c = nl <;> simp [hc]

theorem filter_rtrimSep (nl : α) (s : List α) :
    (rtrimSep nl s).filter (fun c => decide (c ≠ nl)) = s.filter (fun c => decide (c ≠ nl)) := by
  rcases List.eq_nil_or_concat s with rfl | ⟨t, c, rfl⟩
  · simp [rtrimSep_nil]
  · have : t.concat c = t ++ [c] := by simp
    rw [this, rtrimSep_concat]
    by_cases hc : c = nl <;> simp [hc]

theorem count_rtrimSep (nl : α) (s : List α) :
    (rtrimSep nl s).count nl + (if endsSep nl s then 1 else 0) = s.count nl := by
  rcases List.eq_nil_or_concat s with rfl | ⟨t, c, rfl⟩
  · simp [rtrimSep_nil, endsSep_nil]
  · have : t.concat c = t ++ [c] := by simp
    rw [this, rtrimSep_concat, endsSep_concat]
    by_cases hc : c = nl <;> simp [hc, List.count_append]

omit [DecidableEq α] in
theorem isEmpty_false_of_ne {s : List α} (h : s ≠ []) : s.isEmpty = false := by
  cases s <;> simp_all

/-- the `Char` instance is the function `rawLines` is written with -/
theorem splitNl_eq (s : Str) : splitNl s = splitSep '\n' s := by
  induction s with
  | nil => rfl
  | cons c cs ih =>
    simp only [splitNl, splitSep, ih]
    by_cases hc : c = '\n'
    · simp [hc]
    · simp only [hc, if_false]
      cases splitSep '\n' cs <;> rfl

theorem rtrimNl_eq (s : Str) : rtrimNl s = rtrimSep '\n' s := by
  rcases List.eq_nil_or_concat s with rfl | ⟨t, c, rfl⟩
  · rfl
  · have : t.concat c = t ++ [c] := by simp
    rw [this, rtrimSep_concat]
    by_cases hc : c = '\n'
    · subst hc; simp [rtrimNl]
    · simp only [rtrimNl, List.reverse_append, List.reverse_cons, List.reverse_nil, List.nil_append, List.cons_append, hc, if_false]
      split
      · rename_i r heq
        simp at heq
        exact absurd heq.1 hc
      · rfl

end Proofs.C17Raw
