import FqModel.Isolation
/-!
  Helper lemmas for C18 (interleaving model of FqModel/Isolation.lean).  Core Lean only.
-/
namespace Proofs.C18
open FqModel.Isolation
set_option linter.unusedSectionVars false

variable {K V G L : Type} [DecidableEq K]

theorem upd_same {α : Type} (f : Nat → α) (i : Nat) (a : α) : upd f i a i = a := by
  simp [upd]

theorem upd_other {α : Type} (f : Nat → α) (i j : Nat) (a : α) (h : j ≠ i) : upd f i a j = f j := by
  simp [upd, h]

theorem resolve_val (compute : K → V) (cells : K → Option V) (k : K) :
    (resolve compute cells k).2 = cellVal compute cells k := by
  unfold resolve cellVal
  cases cells k <;> rfl

theorem cellVal_resolve (compute : K → V) (cells : K → Option V) (k k' : K) :
    cellVal compute (resolve compute cells k).1 k' = cellVal compute cells k' := by
  unfold resolve
  cases h : cells k with
  | some v => rfl
  | none =>
    simp only [cellVal, setCell]
    by_cases hk : k' = k
    · subst hk; simp [h]
    · simp [hk]

/-- the Once values never change: a step leaves `cellVal` as it was -/
theorem stepJob_cellVal (compute : K → V) (i : Nat) (c : Cfg K V G L) (k : K) :
    cellVal compute (stepJob compute i c).cells k = cellVal compute c.cells k := by
  unfold stepJob
  split
  · rfl
  · exact cellVal_resolve compute c.cells _ k
  · rfl
  · rfl
  · rfl
  · rfl

/-- job-owned state is private: a step of job i does not touch job j -/
theorem stepJob_job_other (compute : K → V) (i j : Nat) (c : Cfg K V G L) (h : j ≠ i) :
    (stepJob compute i c).job j = c.job j := by
  unfold stepJob
  split <;> simp [upd_other, h]

/-- what a step does to the job that takes it is the pure step -/
theorem stepJob_job_self (compute : K → V) (j : Nat) (c : Cfg K V G L) :
    (stepJob compute j c).job j = stepPure (cellVal compute c.cells) c.glob (c.job j) := by
  unfold stepJob stepPure
  split <;> simp [upd_same, resolve_val]

theorem stepJob_glob (compute : K → V) (i : Nat) (c : Cfg K V G L)
    (h : ∀ s ∈ (c.job i).prog, s.isWrite = false) : (stepJob compute i c).glob = c.glob := by
  unfold stepJob
  split
  · rfl
  · rfl
  · rfl
  · rfl
  · rfl
  · rename_i f rest hp
    have := h (.write f) (by simp [hp])
    simp [Step.isWrite] at this

theorem stepPure_prog_sub (cv : K → V) (g : G) (s : JobSt K V G L) :
    ∀ x ∈ (stepPure cv g s).prog, x ∈ s.prog := by
  unfold stepPure
  split <;> rename_i h
  · intro x hx; exact hx
  all_goals (intro x hx; rw [h])
  · exact List.mem_cons_of_mem _ hx
  · exact List.mem_cons_of_mem _ hx
  · exact List.mem_cons_of_mem _ hx
  · simp only at hx
    split at hx
    · exact List.mem_cons_of_mem _ hx
    · cases hx
  · exact List.mem_cons_of_mem _ hx

theorem noWrite_step (compute : K → V) (i : Nat) (c : Cfg K V G L) (h : NoWrite c) :
    NoWrite (stepJob compute i c) := by
  intro j s hs
  by_cases hj : j = i
  · subst hj
    rw [stepJob_job_self] at hs
    exact h j s (stepPure_prog_sub _ _ _ s hs)
  · rw [stepJob_job_other compute i j c hj] at hs
    exact h j s hs

theorem noWrite_interleave (compute : K → V) (sched : List Nat) (c : Cfg K V G L) (h : NoWrite c) :
    NoWrite (interleave compute sched c) := by
  induction sched generalizing c with
  | nil => exact h
  | cons i s ih => exact ih (stepJob compute i c) (noWrite_step compute i c h)

theorem interleave_cons (compute : K → V) (i : Nat) (s : List Nat) (c : Cfg K V G L) :
    interleave compute (i :: s) c = interleave compute s (stepJob compute i c) := rfl

theorem interleave_cellVal (compute : K → V) (sched : List Nat) (c : Cfg K V G L) (k : K) :
    cellVal compute (interleave compute sched c).cells k = cellVal compute c.cells k := by
  induction sched generalizing c with
  | nil => rfl
  | cons i s ih => rw [interleave_cons, ih, stepJob_cellVal]

theorem interleave_glob (compute : K → V) (sched : List Nat) (c : Cfg K V G L) (h : NoWrite c) :
    (interleave compute sched c).glob = c.glob := by
  induction sched generalizing c with
  | nil => rfl
  | cons i s ih =>
    rw [interleave_cons, ih _ (noWrite_step compute i c h), stepJob_glob compute i c (h i)]

theorem cellVal_funext (compute : K → V) (i : Nat) (c : Cfg K V G L) :
    cellVal compute (stepJob compute i c).cells = cellVal compute c.cells :=
  funext (stepJob_cellVal compute i c)

/-- the state of job j after ANY schedule is the pure run of as many of its own steps as the
    schedule gives it -/
theorem interleave_job (compute : K → V) (sched : List Nat) (c : Cfg K V G L) (h : NoWrite c) (j : Nat) :
    (interleave compute sched c).job j
      = runSteps (cellVal compute c.cells) c.glob (sched.count j) (c.job j) := by
  induction sched generalizing c with
  | nil => rfl
  | cons i s ih =>
    rw [interleave_cons, ih _ (noWrite_step compute i c h), cellVal_funext,
      stepJob_glob compute i c (h i)]
    by_cases hj : i = j
    · subst hj
      rw [List.count_cons_self, stepJob_job_self]
      rfl
    · have hj' : j ≠ i := fun e => hj e.symm
      rw [stepJob_job_other compute i j c hj', List.count_cons_of_ne hj]

/-! ### running past the end -/

theorem stepPure_nil (cv : K → V) (g : G) (s : JobSt K V G L) (h : s.prog = []) : stepPure cv g s = s := by
  unfold stepPure; simp [h]

theorem runSteps_nil (cv : K → V) (g : G) (n : Nat) (s : JobSt K V G L) (h : s.prog = []) :
    runSteps cv g n s = s := by
  induction n with
  | zero => rfl
  | succ n ih => rw [runSteps, stepPure_nil cv g s h, ih]

theorem stepPure_length (cv : K → V) (g : G) (s : JobSt K V G L) :
    (stepPure cv g s).prog.length ≤ s.prog.length - 1 := by
  unfold stepPure
  split <;> rename_i h <;> simp [h]
  split <;> simp

/-- after `prog.length` steps the job has finished … -/
theorem runSteps_finished (cv : K → V) (g : G) (n : Nat) (s : JobSt K V G L) (h : s.prog.length ≤ n) :
    (runSteps cv g n s).prog = [] := by
  induction n generalizing s with
  | zero => exact List.length_eq_zero_iff.mp (Nat.le_zero.mp h)
  | succ n ih =>
    rw [runSteps]
    apply ih
    have := stepPure_length cv g s
    omega

theorem runSteps_add (cv : K → V) (g : G) (m n : Nat) (s : JobSt K V G L) :
    runSteps cv g (m + n) s = runSteps cv g n (runSteps cv g m s) := by
  induction m generalizing s with
  | zero => simp [runSteps]
  | succ m ih => rw [Nat.add_right_comm, runSteps, ih]; rfl

/-- … and further steps change nothing -/
theorem runSteps_stable (cv : K → V) (g : G) (n : Nat) (s : JobSt K V G L) (h : s.prog.length ≤ n) :
    runSteps cv g n s = runSteps cv g s.prog.length s := by
  obtain ⟨d, rfl⟩ := Nat.exists_eq_add_of_le h
  rw [runSteps_add, runSteps_nil _ _ _ _ (runSteps_finished cv g _ s (Nat.le_refl _))]

/-- if job j has finished after m of its own steps, m ≥ 1 … the result is the lone run -/
theorem runSteps_of_finished (cv : K → V) (g : G) (n : Nat) (s : JobSt K V G L)
    (h : (runSteps cv g n s).prog = []) : (runSteps cv g n s).loc = runAlone cv g s := by
  unfold runAlone
  by_cases hn : s.prog.length ≤ n
  · rw [runSteps_stable cv g n s hn]
  · have hle : n ≤ s.prog.length := by omega
    obtain ⟨d, hd⟩ := Nat.exists_eq_add_of_le hle
    rw [hd, runSteps_add, runSteps_nil _ _ _ _ h]

/-! ### commutation -/

theorem setCell_comm (cells : K → Option V) (k₁ k₂ : K) (v₁ v₂ : V) (h : k₁ ≠ k₂) :
    setCell (setCell cells k₁ v₁) k₂ v₂ = setCell (setCell cells k₂ v₂) k₁ v₁ := by
  funext k
  simp only [setCell]
  by_cases h1 : k = k₁ <;> by_cases h2 : k = k₂
  · exact absurd (h1.symm.trans h2) h
  · subst h1; simp [h2]
  · subst h2; simp [h1]
  · simp [h1, h2]

theorem upd_comm {α : Type} (f : Nat → α) (i j : Nat) (a b : α) (h : i ≠ j) :
    upd (upd f i a) j b = upd (upd f j b) i a := by
  funext n
  simp only [upd]
  by_cases h1 : n = i <;> by_cases h2 : n = j
  · exact absurd (h1.symm.trans h2) h
  · subst h1; simp [h2]
  · subst h2; simp [h1]
  · simp [h1, h2]

/-- the cell a step initialises (if it is a `once`) -/
def headCell : List (Step K V G L) → Option K
  | .once k _ :: _ => some k
  | _ => none

def cellsAfter (compute : K → V) (cells : K → Option V) : Option K → (K → Option V)
  | some k => (resolve compute cells k).1
  | none => cells

theorem stepJob_cells (compute : K → V) (i : Nat) (c : Cfg K V G L) :
    (stepJob compute i c).cells = cellsAfter compute c.cells (headCell (c.job i).prog) := by
  unfold stepJob
  split <;> rename_i h <;> simp [h, headCell, cellsAfter]

theorem resolve_cells (compute : K → V) (cells : K → Option V) (k : K) :
    (resolve compute cells k).1 = match cells k with
      | some _ => cells
      | none => setCell cells k (compute k) := by
  unfold resolve
  cases cells k <;> rfl

theorem resolve_comm (compute : K → V) (cells : K → Option V) (k₁ k₂ : K) :
    (resolve compute (resolve compute cells k₁).1 k₂).1
      = (resolve compute (resolve compute cells k₂).1 k₁).1 := by
  by_cases hk : k₁ = k₂
  · subst hk; rfl
  · have hk' : k₂ ≠ k₁ := fun e => hk e.symm
    simp only [resolve_cells]
    cases h1 : cells k₁ <;> cases h2 : cells k₂ <;> simp [setCell, h1, h2, hk, hk']
    · exact setCell_comm cells k₁ k₂ _ _ hk

theorem cellsAfter_comm (compute : K → V) (cells : K → Option V) (a b : Option K) :
    cellsAfter compute (cellsAfter compute cells a) b = cellsAfter compute (cellsAfter compute cells b) a := by
  cases a <;> cases b <;> simp [cellsAfter, resolve_comm]

theorem Cfg.ext' {c₁ c₂ : Cfg K V G L} (h1 : c₁.cells = c₂.cells) (h2 : c₁.glob = c₂.glob)
    (h3 : c₁.job = c₂.job) : c₁ = c₂ := by
  cases c₁; cases c₂; simp_all

end Proofs.C18
