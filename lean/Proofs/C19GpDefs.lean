import FqModel.Gopacket
/-! C19 — invariants and specification statements for the transliterated gopacket assembler
    (FqModel/Gopacket.lean).  Definitions and the exact-arithmetic lemmas only; the proofs are in
    Proofs/C19GpOverlap.lean (checkOverlap) and Proofs/C19GpRun.lean (assemble / flush / interface). -/
namespace Proofs.C19Gp
open FqModel.Reasm FqModel.Gopacket

variable {α : Type}

/-- a window of sequence numbers inside which gopacket's `Sequence.Difference` is exact (`t - s`) and `Add` does
    not wrap: no value above 2^32-1, and not both a value in the last and one in the first quarter -/
def NoWrap (lo hi : Int) : Prop :=
  0 ≤ lo ∧ lo ≤ hi ∧ hi < 4294967296 ∧ (hi ≤ 3221225472 ∨ 1073741823 ≤ lo)

theorem seqDifference_exact {lo hi s t : Int} (hw : NoWrap lo hi) (hs : lo ≤ s ∧ s ≤ hi) (ht : lo ≤ t ∧ t ≤ hi) :
    seqDifference s t = t - s := by
  obtain ⟨h0, h1, h2, h3⟩ := hw
  unfold seqDifference uint32Max
  have e1 : (0xFFFFFFFF : Int) - 0xFFFFFFFF / 4 = 3221225472 := by decide
  have e2 : (0xFFFFFFFF : Int) / 4 = 1073741823 := by decide
  rw [e1, e2]
  have c1 : (decide (s > 3221225472) && decide (t < 1073741823)) = false := by
    rw [Bool.and_eq_false_iff, decide_eq_false_iff_not, decide_eq_false_iff_not]; omega
  have c2 : (decide (t > 3221225472) && decide (s < 1073741823)) = false := by
    rw [Bool.and_eq_false_iff, decide_eq_false_iff_not, decide_eq_false_iff_not]; omega
  simp only [c1, c2, Bool.false_eq_true, if_false]

theorem seqAdd_exact {lo hi s : Int} {n : Int} (hw : NoWrap lo hi) (hs : lo ≤ s + n ∧ s + n ≤ hi) :
    seqAdd s n = s + n := by
  obtain ⟨h0, h1, h2, h3⟩ := hw
  unfold seqAdd
  exact Int.emod_eq_of_lt (by omega) (by omega)

/-- first sequence number behind page `p` -/
def pEnd (p : Page α) : Int := p.seq + p.bytes.length

/-- page `p` carries bytes of the stream `sent` whose byte 0 has sequence number `s0`; it is not empty -/
def GoodPage (sent : List α) (s0 : Int) (p : Page α) : Prop :=
  s0 ≤ p.seq ∧ p.bytes ≠ [] ∧ p.seq - s0 + p.bytes.length ≤ sent.length ∧
  p.bytes = (sent.drop (p.seq - s0).toNat).take p.bytes.length

/-- an `end` flag (FIN / RST) sits only at the end of the stream -/
def StopOK (sent : List α) (s0 : Int) (p : Page α) : Prop := p.stop = true → pEnd p = s0 + sent.length

def PagesOK (sent : List α) (s0 : Int) (ps : List (Page α)) : Prop :=
  ∀ p ∈ ps, GoodPage sent s0 p ∧ StopOK sent s0 p

/-- the page list is sorted and its pages do not overlap -/
def SortedPages (ps : List (Page α)) : Prop := ps.Pairwise fun p q => pEnd p ≤ q.seq

/-- sequence number `i` is in some queued page -/
def covP (ps : List (Page α)) (i : Int) : Prop := ∃ p ∈ ps, p.seq ≤ i ∧ i < pEnd p

/-- the live packet carries bytes of `sent` (possibly none) -/
def GoodLive (sent : List α) (s0 : Int) (lp : Live α) : Prop :=
  s0 ≤ lp.seq ∧ lp.seq - s0 + lp.bytes.length ≤ sent.length ∧
  lp.bytes = (sent.drop (lp.seq - s0).toNat).take lp.bytes.length ∧
  (lp.stop = true → lp.seq + lp.bytes.length = s0 + sent.length)

/-- what `checkOverlap` does inside a no-wrap window, on a sorted list of good pages:
      queue = true : the packet's range is added to the covered set;
      queue = false: (pages all start at or behind the packet's start, strictly behind when it has bytes) the packet
                     keeps its bytes and its range is removed from the covered set.
    Sortedness, content and `end` placement are preserved, nothing faults. -/
def CheckOverlapSpec (α : Type) : Prop :=
  ∀ (sent : List α) (s0 lo hi : Int) (h : Half α) (lp : Live α) (queue : Bool),
    NoWrap lo hi → lo ≤ s0 → s0 + sent.length ≤ hi →
    h.fault = false → SortedPages h.pages → PagesOK sent s0 h.pages → GoodLive sent s0 lp →
    (queue = false → ∀ p ∈ h.pages, lp.seq ≤ p.seq ∧ (lp.bytes ≠ [] → lp.seq < p.seq)) →
    (checkOverlap h lp queue).1.fault = false ∧
    (checkOverlap h lp queue).1.nextSeq = h.nextSeq ∧
    (checkOverlap h lp queue).1.closed = h.closed ∧
    SortedPages (checkOverlap h lp queue).1.pages ∧
    PagesOK sent s0 (checkOverlap h lp queue).1.pages ∧
    (checkOverlap h lp queue).2.seq = lp.seq ∧
    (checkOverlap h lp queue).2.start = lp.start ∧
    (checkOverlap h lp queue).2.stop = lp.stop ∧
    (queue = true → ∀ i, covP (checkOverlap h lp queue).1.pages i ↔
        (covP h.pages i ∨ (lp.seq ≤ i ∧ i < lp.seq + lp.bytes.length))) ∧
    (queue = false → (checkOverlap h lp queue).2.bytes = lp.bytes ∧
      ∀ i, covP (checkOverlap h lp queue).1.pages i ↔
        (covP h.pages i ∧ ¬ (lp.seq ≤ i ∧ i < lp.seq + lp.bytes.length)))

end Proofs.C19Gp
