import Proofs.C19GpDefs
import Proofs.C19GpOverlap
import Proofs.C19GpSkip
/-! C19 — specification of `flushHalf` (gopacket's `FlushAll` on one half connection, FqModel/Gopacket.lean) inside a
    no-wrap window: `addContiguous_spec`, `sendToConnection_spec`, one `skipFlush` step (`skipFlush_cons`), the loop
    (`flushLoop_spec`: the calls form a `Flushed` chain), and the consequences `flush_*` / `flush_spec`.
    Own namespace; `addContiguous_spec` / `sendToConnection_spec` are the statements of Proofs/C19GpRun.lean, repeated
    here so that this file depends only on C19GpDefs / C19GpOverlap / C19GpSkip. -/
namespace Proofs.C19GpFlush
open FqModel.Reasm FqModel.Gopacket Proofs.C19Gp
variable {α : Type}

theorem sl_append (sent : List α) (a n m : Nat) :
    (sent.drop a).take n ++ (sent.drop (a+n)).take m = (sent.drop a).take (n+m) := by
  rw [List.take_add, List.drop_drop]

/-- the window hypothesis -/
structure Win (sent : List α) (s0 lo hi : Int) : Prop where
  nw : NoWrap lo hi
  lo_le : lo ≤ s0 - 1
  le_hi : s0 + sent.length + 1 ≤ hi

theorem Win.sd {sent : List α} {s0 lo hi : Int} (w : Win sent s0 lo hi) {x y : Int}
    (hx : s0 - 1 ≤ x ∧ x ≤ s0 + sent.length + 1) (hy : s0 - 1 ≤ y ∧ y ≤ s0 + sent.length + 1) :
    seqDifference x y = y - x :=
  seqDifference_exact w.nw ⟨by have := w.lo_le; omega, by have := w.le_hi; omega⟩
    ⟨by have := w.lo_le; omega, by have := w.le_hi; omega⟩

theorem Win.sa {sent : List α} {s0 lo hi : Int} (w : Win sent s0 lo hi) {x n : Int}
    (hx : s0 - 1 ≤ x + n ∧ x + n ≤ s0 + sent.length + 1) : seqAdd x n = x + n :=
  seqAdd_exact w.nw ⟨by have := w.lo_le; omega, by have := w.le_hi; omega⟩

theorem Win.s0_pos {sent : List α} {s0 lo hi : Int} (w : Win sent s0 lo hi) : 1 ≤ s0 := by
  have := w.lo_le; have := w.nw.1; omega

theorem addContiguous_cons_eq (p : Page α) (rest : List (Page α)) (last : Int)
    (h : seqDifference last p.seq = 0) :
    addContiguous (p :: rest) last =
      (p :: (addContiguous rest (seqAdd last p.bytes.length)).1,
       (addContiguous rest (seqAdd last p.bytes.length)).2.1,
       (addContiguous rest (seqAdd last p.bytes.length)).2.2) := by
  simp [addContiguous, h]

theorem addContiguous_cons_ne (p : Page α) (rest : List (Page α)) (last : Int)
    (h : seqDifference last p.seq ≠ 0) :
    addContiguous (p :: rest) last = ([], p :: rest, last) := by
  simp [addContiguous, h]

theorem addContiguous_spec {sent : List α} {s0 lo hi : Int} (w : Win sent s0 lo hi) :
    ∀ (ps : List (Page α)) (last : Int), SortedPages ps → PagesOK sent s0 ps → s0 ≤ last →
      last ≤ s0 + sent.length → (∀ p ∈ ps, last ≤ p.seq) →
      ps = (addContiguous ps last).1 ++ (addContiguous ps last).2.1 ∧
      last ≤ (addContiguous ps last).2.2 ∧ (addContiguous ps last).2.2 ≤ s0 + sent.length ∧
      ((addContiguous ps last).1.map (·.bytes)).flatten =
        (sent.drop (last - s0).toNat).take ((addContiguous ps last).2.2 - last).toNat ∧
      (∀ p ∈ (addContiguous ps last).2.1, (addContiguous ps last).2.2 < p.seq) ∧
      (∀ p ∈ (addContiguous ps last).1, pEnd p ≤ (addContiguous ps last).2.2) ∧
      (∀ i, last ≤ i → i < (addContiguous ps last).2.2 → covP ps i) ∧
      (∀ p, (addContiguous ps last).1.getLast? = some p → p.stop = true →
        (addContiguous ps last).2.2 = s0 + sent.length) := by
  intro ps
  induction ps with
  | nil =>
    intro last _ _ h1 h2 _
    refine ⟨by simp [addContiguous], by simp [addContiguous], by simpa [addContiguous] using h2,
      by simp [addContiguous], by simp [addContiguous], by simp [addContiguous], ?_, by simp [addContiguous]⟩
    intro i hi1 hi2
    simp only [addContiguous] at hi2
    omega
  | cons p rest ih =>
    intro last hs hok h1 h2 hge
    have hp := hok p (by simp)
    obtain ⟨⟨g1, g2, g3, g4⟩, gstop⟩ := hp
    have hpl := hge p (by simp)
    have hlen : 0 < p.bytes.length := List.length_pos_iff.mpr g2
    have hd : seqDifference last p.seq = p.seq - last := w.sd (by omega) (by omega)
    by_cases he : p.seq = last
    · have h0 : seqDifference last p.seq = 0 := by rw [hd]; omega
      have hadd : seqAdd last p.bytes.length = last + p.bytes.length := w.sa (by omega)
      rw [addContiguous_cons_eq p rest last h0, hadd]
      dsimp only
      rw [he] at g4
      have hs' : SortedPages rest := (List.pairwise_cons.mp hs).2
      have hrel := (List.pairwise_cons.mp hs).1
      have hok' : PagesOK sent s0 rest := fun q hq => hok q (by simp [hq])
      obtain ⟨i1, i2, i3, i4, i5, i6, i7, i8⟩ := ih (last + p.bytes.length) hs' hok' (by omega) (by omega)
        (fun q hq => by have := hrel q hq; unfold pEnd at this; omega)
      refine ⟨?_, by omega, i3, ?_, i5, ?_, ?_, ?_⟩
      · simp only [List.cons_append]; rw [← i1]
      · simp only [List.map_cons, List.flatten_cons]
        rw [i4]
        have e1 : (last + ↑p.bytes.length - s0).toNat = (last - s0).toNat + p.bytes.length := by omega
        have e2 : ((addContiguous rest (last + ↑p.bytes.length)).2.2 - last).toNat =
            p.bytes.length + ((addContiguous rest (last + ↑p.bytes.length)).2.2 - (last + ↑p.bytes.length)).toNat := by
          omega
        rw [e1, e2, ← sl_append]
        congr 1
      · intro q hq
        rcases List.mem_cons.mp hq with rfl | hq
        · unfold pEnd; omega
        · exact i6 q hq
      · intro i hi1 hi2
        by_cases hlt : i < last + p.bytes.length
        · exact ⟨p, by simp, by omega, by unfold pEnd; omega⟩
        · obtain ⟨q, hq, hq1, hq2⟩ := i7 i (by omega) hi2
          exact ⟨q, by simp [hq], hq1, hq2⟩
      · intro q hq hstop
        cases hr : (addContiguous rest (last + ↑p.bytes.length)).1 with
        | nil =>
          rw [hr] at hq
          simp at hq
          subst hq
          have := gstop hstop
          unfold pEnd at this
          omega
        | cons x xs =>
          rw [hr] at hq
          rw [List.getLast?_cons_cons] at hq
          rw [hr] at i8
          exact i8 q hq hstop
    · have h0 : seqDifference last p.seq ≠ 0 := by rw [hd]; omega
      rw [addContiguous_cons_ne p rest last h0]
      dsimp only
      have hrel := (List.pairwise_cons.mp hs).1
      refine ⟨by simp, by omega, h2, by simp, ?_, by simp, ?_, by simp⟩
      · intro q hq
        rcases List.mem_cons.mp hq with rfl | hq
        · omega
        · have := hrel q hq; unfold pEnd at this; omega
      · intro i hi1 hi2; omega

theorem addContiguousTop_eq (ps : List (Page α)) (last : Int) (h : last ≠ -1) :
    addContiguousTop ps last = addContiguous ps last := by
  cases ps with
  | nil => simp [addContiguousTop, addContiguous]
  | cons p rest => simp [addContiguousTop, invalidSequence, h]

structure SendOut (sent : List α) (s0 : Int) (s2c : Bool) (h : Half α) (fSeq : Int) (fLen : Nat)
    (fStart fStop : Bool) (s : Half α × SGCall α × Int) : Prop where
  dir : s.2.1.serverToClient = s2c
  start : s.2.1.start = fStart
  stopNil : h.pages = [] → s.2.1.stop = fStop
  le1 : fSeq + fLen ≤ s.2.2
  le2 : s.2.2 ≤ s0 + sent.length
  data : s.2.1.data = (sent.drop (fSeq - s0).toNat).take (s.2.2 - fSeq).toNat
  skip : s.2.1.skip = if h.nextSeq != invalidSequence then seqDifference h.nextSeq fSeq else -1
  split : ∃ taken, h.pages = taken ++ s.1.pages
  above : ∀ p ∈ s.1.pages, s.2.2 < p.seq
  cov : ∀ i, covP s.1.pages i ↔ covP h.pages i ∧ s.2.2 ≤ i
  filled : ∀ i, fSeq + fLen ≤ i → i < s.2.2 → covP h.pages i
  closed : s.1.closed = (h.closed || s.2.1.stop)
  stop : s.2.1.stop = true → s.2.2 = s0 + sent.length
  fault : s.1.fault = h.fault
  next : s.1.nextSeq = h.nextSeq

theorem sendToConnection_spec {sent : List α} {s0 lo hi : Int} (w : Win sent s0 lo hi) (s2c : Bool) (h : Half α)
    (fSeq : Int) (fBytes : List α) (fStart fStop : Bool)
    (hs : SortedPages h.pages) (hok : PagesOK sent s0 h.pages) (g1 : s0 ≤ fSeq)
    (g2 : fSeq + fBytes.length ≤ s0 + sent.length)
    (g3 : fBytes = (sent.drop (fSeq - s0).toNat).take fBytes.length)
    (g4 : fStop = true → fSeq + fBytes.length = s0 + sent.length)
    (g5 : ∀ p ∈ h.pages, fSeq + fBytes.length ≤ p.seq) :
    SendOut sent s0 s2c h fSeq fBytes.length fStart fStop (sendToConnection s2c h fSeq fBytes fStart fStop) := by
  have hadd : seqAdd fSeq fBytes.length = fSeq + fBytes.length := w.sa (by omega)
  have hne : fSeq + (fBytes.length : Int) ≠ -1 := by have := w.s0_pos; omega
  obtain ⟨a1, a2, a3, a4, a5, a6, a7, a8⟩ :=
    addContiguous_spec w h.pages (fSeq + fBytes.length) hs hok (by omega) g2 g5
  unfold sendToConnection
  simp only [hadd, addContiguousTop_eq _ _ hne]
  refine ⟨rfl, rfl, ?_, a2, a3, ?_, rfl, ⟨_, a1⟩, a5, ?_, a7, rfl, ?_, rfl, rfl⟩
  · intro hnil
    simp [hnil, addContiguous]
  · rw [a4]
    have e1 : (fSeq + ↑fBytes.length - s0).toNat = (fSeq - s0).toNat + fBytes.length := by omega
    have e2 : ((addContiguous h.pages (fSeq + ↑fBytes.length)).2.2 - fSeq).toNat =
        fBytes.length + ((addContiguous h.pages (fSeq + ↑fBytes.length)).2.2 - (fSeq + ↑fBytes.length)).toNat := by
      omega
    rw [e1, e2, ← sl_append, ← g3]
  · intro i
    dsimp only
    constructor
    · rintro ⟨p, hp, hp1, hp2⟩
      have := a5 p hp
      refine ⟨⟨p, ?_, hp1, hp2⟩, by omega⟩
      rw [a1]; simp [hp]
    · rintro ⟨⟨p, hp, hp1, hp2⟩, hi⟩
      rw [a1] at hp
      rcases List.mem_append.mp hp with hp | hp
      · have := a6 p hp; omega
      · exact ⟨p, hp, hp1, hp2⟩
  · dsimp only
    cases hr : (addContiguous h.pages (fSeq + ↑fBytes.length)).1.getLast? with
    | none =>
      dsimp only
      intro hst
      have hnil : (addContiguous h.pages (fSeq + ↑fBytes.length)).1 = [] := by
        simpa using hr
      have := g4 hst
      have hfl := a4
      rw [hnil] at hfl
      omega
    | some p =>
      dsimp only
      intro hst
      exact a8 p hr hst

/-- what one `skipFlush` on the page list `p :: rest` with `nextSeq = n` does: call `c`, new `nextSeq = n'`,
    pages left `left` -/
structure StepOut (sent : List α) (s0 : Int) (s2c : Bool) (n : Int) (p : Page α) (rest : List (Page α))
    (c : SGCall α) (n' : Int) (left : List (Page α)) : Prop where
  dir : c.serverToClient = s2c
  start : c.start = false
  skip : c.skip = if n = -1 then -1 else p.seq - n
  data : c.data = (sent.drop (p.seq - s0).toNat).take (n' - p.seq).toNat
  ge : s0 ≤ p.seq
  lt : p.seq < n'
  le : n' ≤ s0 + sent.length
  cov : ∀ i, covP (p :: rest) i ↔ ((p.seq ≤ i ∧ i < n') ∨ covP left i)
  above : ∀ q ∈ left, n' < q.seq
  stop : c.stop = true → n' = s0 + sent.length

/-- the whole flush, as a chain of steps -/
inductive Flushed (sent : List α) (s0 : Int) (s2c : Bool) : Int → List (Page α) → List (SGCall α) → Prop
  | nil (n : Int) : Flushed sent s0 s2c n [] []
  | step {n : Int} {p : Page α} {rest : List (Page α)} {c : SGCall α} {n' : Int} {left : List (Page α)}
      {cs : List (SGCall α)} (so : StepOut sent s0 s2c n p rest c n' left) (tl : Flushed sent s0 s2c n' left cs) :
      Flushed sent s0 s2c n (p :: rest) (c :: cs)

/-- the invariant on `nextSeq` during the flush -/
def NextOK (sent : List α) (s0 : Int) (n : Int) (ps : List (Page α)) : Prop :=
  n = -1 ∨ (s0 ≤ n ∧ n ≤ s0 + sent.length ∧ ∀ p ∈ ps, n < p.seq)

theorem skipFlush_nil (s2c : Bool) (h : Half α) (hp : h.pages = []) :
    skipFlush s2c h = ({ h with closed := true }, none) := by
  unfold skipFlush; rw [hp]

theorem skipFlush_cons {sent : List α} {s0 lo hi : Int} (w : Win sent s0 lo hi) (s2c : Bool) (h : Half α)
    (p : Page α) (rest : List (Page α)) (hp : h.pages = p :: rest) (hc : h.closed = false)
    (hs : SortedPages h.pages) (hok : PagesOK sent s0 h.pages) (hn : NextOK sent s0 h.nextSeq h.pages) :
    ∃ c, (skipFlush s2c h).2 = some c ∧
      StepOut sent s0 s2c h.nextSeq p rest c (skipFlush s2c h).1.nextSeq (skipFlush s2c h).1.pages ∧
      (skipFlush s2c h).1.pages.length ≤ rest.length ∧
      SortedPages (skipFlush s2c h).1.pages ∧ PagesOK sent s0 (skipFlush s2c h).1.pages ∧
      ((skipFlush s2c h).1.closed = true → (skipFlush s2c h).1.pages = []) := by
  rw [hp] at hs hok hn
  obtain ⟨⟨g1, g2, g3, g4⟩, gstop⟩ := hok p (by simp)
  have hlen : 0 < p.bytes.length := List.length_pos_iff.mpr g2
  have hs' : SortedPages rest := (List.pairwise_cons.mp hs).2
  have hrel := (List.pairwise_cons.mp hs).1
  have hok' : PagesOK sent s0 rest := fun q hq => hok q (by simp [hq])
  have hpos := w.s0_pos
  have so := sendToConnection_spec w s2c { h with pages := rest } p.seq p.bytes false p.stop hs' hok' g1
    (by omega) g4 (fun hst => by have := gstop hst; unfold pEnd at this; omega)
    (fun q hq => by have := hrel q hq; unfold pEnd at this; exact this)
  have e : skipFlush s2c h =
      (let s := sendToConnection s2c { h with pages := rest } p.seq p.bytes false p.stop
       (if s.2.2 != invalidSequence then { s.1 with nextSeq := s.2.2 } else s.1, some s.2.1)) := by
    unfold skipFlush; rw [hp]
  rw [e]
  generalize sendToConnection s2c { h with pages := rest } p.seq p.bytes false p.stop = s at *
  have l1 := so.le1; have l2 := so.le2
  have hne : (s.2.2 != invalidSequence) = true := by simp [invalidSequence]; omega
  dsimp only at so ⊢
  rw [if_pos hne]
  dsimp only
  obtain ⟨tk, htk⟩ := so.split
  dsimp only at htk
  refine ⟨s.2.1, rfl, ⟨so.dir, so.start, ?_, so.data, g1, by omega, l2, ?_, so.above, so.stop⟩, ?_, ?_, ?_, ?_⟩
  · rw [so.skip]
    dsimp only
    by_cases hm : h.nextSeq = -1
    · simp [hm, invalidSequence]
    · have hm' : (h.nextSeq != invalidSequence) = true := by simp [invalidSequence, hm]
      rw [if_pos hm', if_neg hm]
      rcases hn with hn | ⟨n1, n2, _⟩
      · exact absurd hn hm
      · exact w.sd (by omega) (by omega)
  · intro i
    rw [covP_cons, so.cov]
    dsimp only
    constructor
    · rintro (⟨a, b⟩ | hcv)
      · left; unfold pEnd at b; omega
      · by_cases hlt : i < s.2.2
        · left
          obtain ⟨q, hq, hq1, _⟩ := hcv
          have := hrel q hq; unfold pEnd at this
          omega
        · right; exact ⟨hcv, by omega⟩
    · rintro (⟨a, b⟩ | ⟨hcv, _⟩)
      · by_cases hlt : i < pEnd p
        · left; exact ⟨a, hlt⟩
        · right; unfold pEnd at hlt; exact so.filled i (by omega) b
      · right; exact hcv
  · rw [htk]; simp
  · unfold SortedPages at hs' ⊢
    rw [htk] at hs'
    exact (List.pairwise_append.mp hs').2.1
  · intro q hq
    exact hok' q (by rw [htk]; simp [hq])
  · intro hcl
    rw [so.closed] at hcl
    dsimp only at hcl
    rw [hc, Bool.false_or] at hcl
    have e := so.stop hcl
    apply List.eq_nil_iff_forall_not_mem.mpr
    intro q hq
    have := so.above q hq
    have g := (hok' q (by rw [htk]; simp [hq])).1
    have := g.2.2.1
    omega

theorem flushLoop_closed (s2c : Bool) (fuel : Nat) (h : Half α) (hc : h.closed = true) :
    flushLoop s2c fuel h = (h, []) := by
  cases fuel with
  | zero => rfl
  | succ f => simp [flushLoop, hc]

theorem flushLoop_spec {sent : List α} {s0 lo hi : Int} (w : Win sent s0 lo hi) (s2c : Bool) :
    ∀ (fuel : Nat) (h : Half α), h.pages.length + 1 ≤ fuel → h.closed = false → SortedPages h.pages →
      PagesOK sent s0 h.pages → NextOK sent s0 h.nextSeq h.pages →
      (flushLoop s2c fuel h).1.closed = true ∧
      Flushed sent s0 s2c h.nextSeq h.pages (flushLoop s2c fuel h).2 := by
  intro fuel
  induction fuel with
  | zero => intro h hf; omega
  | succ f ih =>
    intro h hf hc hs hok hn
    have e : flushLoop s2c (f + 1) h =
        ((flushLoop s2c f (skipFlush s2c h).1).1,
          (match (skipFlush s2c h).2 with | some c => [c] | none => []) ++ (flushLoop s2c f (skipFlush s2c h).1).2) := by
      rw [flushLoop, if_neg (by simp [hc])]
      generalize skipFlush s2c h = r
      obtain ⟨a, b⟩ := r
      cases b <;> rfl
    rw [e]
    cases hp : h.pages with
    | nil =>
      rw [skipFlush_nil s2c h hp, flushLoop_closed _ _ _ rfl]
      exact ⟨rfl, Flushed.nil _⟩
    | cons p rest =>
      obtain ⟨c, k1, k2, k3, k4, k5, k6⟩ := skipFlush_cons w s2c h p rest hp hc hs hok hn
      rw [k1]
      dsimp only
      rw [hp] at hf
      simp only [List.length_cons] at hf
      cases hcl : (skipFlush s2c h).1.closed with
      | true =>
        rw [flushLoop_closed _ _ _ hcl]
        refine ⟨hcl, ?_⟩
        have hnil := k6 hcl
        rw [hnil] at k2
        exact Flushed.step k2 (Flushed.nil _)
      | false =>
        have hn' : NextOK sent s0 (skipFlush s2c h).1.nextSeq (skipFlush s2c h).1.pages :=
          Or.inr ⟨by have := k2.ge; have := k2.lt; omega, k2.le, k2.above⟩
        obtain ⟨j1, j2⟩ := ih (skipFlush s2c h).1 (by omega) hcl k4 k5 hn'
        exact ⟨j1, Flushed.step k2 j2⟩

/-! ### consequences of `Flushed` -/

theorem StepOut.next {sent : List α} {s0 : Int} {s2c : Bool} {n : Int} {p : Page α} {rest : List (Page α)}
    {c : SGCall α} {n' : Int} {left : List (Page α)} (so : StepOut sent s0 s2c n p rest c n' left) :
    NextOK sent s0 n' left :=
  Or.inr ⟨by have := so.ge; have := so.lt; omega, so.le, so.above⟩

theorem StepOut.len {sent : List α} {s0 : Int} {s2c : Bool} {n : Int} {p : Page α} {rest : List (Page α)}
    {c : SGCall α} {n' : Int} {left : List (Page α)} (so : StepOut sent s0 s2c n p rest c n' left) :
    (c.data.length : Int) = n' - p.seq := by
  have := so.ge; have := so.lt; have := so.le
  rw [so.data, List.length_take, List.length_drop]
  omega

theorem flushed_nil_iff {sent : List α} {s0 : Int} {s2c : Bool} {n : Int} {ps : List (Page α)}
    {cs : List (SGCall α)} (f : Flushed sent s0 s2c n ps cs) : cs = [] ↔ ps = [] := by
  cases f <;> simp

theorem flushed_dir {sent : List α} {s0 : Int} {s2c : Bool} {n : Int} {ps : List (Page α)}
    {cs : List (SGCall α)} (f : Flushed sent s0 s2c n ps cs) :
    ∀ c ∈ cs, c.serverToClient = s2c ∧ c.start = false := by
  induction f with
  | nil => simp
  | step so _ ih =>
    intro c hc
    rcases List.mem_cons.mp hc with rfl | hc
    · exact ⟨so.dir, so.start⟩
    · exact ih c hc

theorem flushed_skip_pos {sent : List α} {s0 : Int} {s2c : Bool} {n : Int} {ps : List (Page α)}
    {cs : List (SGCall α)} (f : Flushed sent s0 s2c n ps cs) (h1 : 1 ≤ s0) (hn : NextOK sent s0 n ps)
    (hne : n ≠ -1) : ∀ c ∈ cs, 0 < c.skip ∧ c.skip ≤ sent.length := by
  induction f with
  | nil => simp
  | step so _ ih =>
    intro c hc
    rcases hn with hn | ⟨a, b, d⟩
    · exact absurd hn hne
    rcases List.mem_cons.mp hc with rfl | hc
    · rw [so.skip, if_neg hne]
      have := d _ (List.mem_cons_self ..)
      have := so.lt; have := so.le
      omega
    · exact ih so.next (by have := so.ge; have := so.lt; omega) c hc

theorem flushed_skip_first {sent : List α} {s0 : Int} {s2c : Bool} {ps : List (Page α)}
    {c0 : SGCall α} {cs : List (SGCall α)} (f : Flushed sent s0 s2c (-1) ps (c0 :: cs)) (h1 : 1 ≤ s0) :
    c0.skip = -1 ∧ ∀ c ∈ cs, 0 < c.skip ∧ c.skip ≤ sent.length := by
  cases f with
  | step so tl =>
    refine ⟨by rw [so.skip, if_pos rfl], ?_⟩
    exact flushed_skip_pos tl h1 so.next (by have := so.ge; have := so.lt; omega)

/-- position (in `sent`) at which the first chunk of the flush starts counting -/
def startPos (s0 : Int) (n : Int) (ps : List (Page α)) : Nat :=
  match ps with
  | [] => 0
  | p :: _ => ((if n = -1 then p.seq else n) - s0).toNat

theorem flushed_delivers {sent : List α} {s0 : Int} {s2c : Bool} {n : Int} {ps : List (Page α)}
    {cs : List (SGCall α)} (f : Flushed sent s0 s2c n ps cs) (h1 : 1 ≤ s0) (hn : NextOK sent s0 n ps) :
    ∀ pos : Nat, (∀ p rest, ps = p :: rest → pos = ((if n = -1 then p.seq else n) - s0).toNat) →
      Delivers sent pos (cs.map fun c => (c.skip, c.data)) := by
  induction f with
  | nil => intro pos _; simp [Delivers]
  | @step n p rest c n' left cs so _ ih =>
    intro pos hpos
    have hpos := hpos p rest rfl
    have g1 := so.ge; have g2 := so.lt; have g3 := so.le
    have hl := so.len
    simp only [List.map_cons, Delivers]
    have hP : (if c.skip > 0 then pos + c.skip.toNat else pos) = (p.seq - s0).toNat := by
      rw [so.skip]
      by_cases hm : n = -1
      · rw [if_pos hm] at hpos ⊢
        simp [hpos]
      · rw [if_neg hm] at hpos ⊢
        rcases hn with hn | ⟨a, b, d⟩
        · exact absurd hn hm
        have := d _ (List.mem_cons_self ..)
        have hgt : p.seq - n > 0 := by omega
        rw [if_pos hgt]
        omega
    rw [hP]
    refine ⟨?_, ?_, by omega, ?_⟩
    · rw [so.skip]
      split
      · omega
      · rcases hn with hn | ⟨a, b, d⟩
        · omega
        · have := d _ (List.mem_cons_self ..); omega
    · have e : c.data.length = (n' - p.seq).toNat := by omega
      rw [e]; exact so.data
    · apply ih so.next
      intro q r _
      have : n' ≠ -1 := by omega
      rw [if_neg this]
      omega

/-- sequence numbers in the chunks' ranges, `pos` running as in `Delivers` (but in sequence numbers) -/
def covC : Int → List (Chunk α) → Int → Prop
  | _, [], _ => False
  | pos, (skip, data) :: rest, i =>
    let p := if skip > 0 then pos + skip else pos
    (p ≤ i ∧ i < p + data.length) ∨ covC (p + data.length) rest i

theorem flushed_cov {sent : List α} {s0 : Int} {s2c : Bool} {n : Int} {ps : List (Page α)}
    {cs : List (SGCall α)} (f : Flushed sent s0 s2c n ps cs) (h1 : 1 ≤ s0) (hn : NextOK sent s0 n ps) :
    ∀ pos : Int, (∀ p rest, ps = p :: rest → pos = if n = -1 then p.seq else n) →
      ∀ i, covP ps i ↔ covC pos (cs.map fun c => (c.skip, c.data)) i := by
  induction f with
  | nil => intro pos _ i; simp [covC, covP]
  | @step n p rest c n' left cs so _ ih =>
    intro pos hpos i
    have hpos := hpos p rest rfl
    have g1 := so.ge; have g2 := so.lt; have g3 := so.le
    have hl := so.len
    simp only [List.map_cons, covC]
    have hP : (if c.skip > 0 then pos + c.skip else pos) = p.seq := by
      rw [so.skip]
      by_cases hm : n = -1
      · rw [if_pos hm] at hpos ⊢
        simp [hpos]
      · rw [if_neg hm] at hpos ⊢
        rcases hn with hn | ⟨a, b, d⟩
        · exact absurd hn hm
        have := d _ (List.mem_cons_self ..)
        have hgt : p.seq - n > 0 := by omega
        rw [if_pos hgt]
        omega
    rw [hP, so.cov i, hl]
    have e : p.seq + (n' - p.seq) = n' := by omega
    rw [e]
    have hne : n' ≠ -1 := by omega
    have := ih so.next n' (fun q r _ => by rw [if_neg hne]) i
    rw [this]

theorem flushed_first {sent : List α} {s0 : Int} {s2c : Bool} {n : Int} {p : Page α} {rest : List (Page α)}
    {cs : List (SGCall α)} (f : Flushed sent s0 s2c n (p :: rest) cs) :
    ∃ c0 cs', cs = c0 :: cs' ∧ 0 < c0.data.length ∧
      c0.data = (sent.drop (p.seq - s0).toNat).take c0.data.length ∧
      (∀ i, p.seq ≤ i → i < p.seq + c0.data.length → covP (p :: rest) i) ∧
      ¬ covP (p :: rest) (p.seq + c0.data.length) := by
  cases f with
  | @step _ _ _ c n' left cs' so tl =>
    have g1 := so.ge; have g2 := so.lt; have g3 := so.le
    have hl := so.len
    refine ⟨c, cs', rfl, by omega, ?_, ?_, ?_⟩
    · have e : c.data.length = (n' - p.seq).toNat := by omega
      rw [e]; exact so.data
    · intro i hi1 hi2
      exact (so.cov i).mpr (Or.inl ⟨hi1, by omega⟩)
    · rw [so.cov]
      rintro (⟨_, b⟩ | ⟨q, hq, hq1, _⟩)
      · omega
      · have := so.above q hq; omega

theorem flushed_sum {sent : List α} {s0 : Int} {s2c : Bool} {n : Int} {ps : List (Page α)}
    {cs : List (SGCall α)} (f : Flushed sent s0 s2c n ps cs) (h1 : 1 ≤ s0) (hn : NextOK sent s0 n ps) :
    ∀ b : Int, b = (if n = -1 then s0 else n) →
      ((((cs.filter (fun c => c.skip > 0)).map (fun c => c.skip.toNat)).sum : Nat) : Int) ≤ s0 + sent.length - b := by
  induction f with
  | nil m =>
    intro b hb
    simp only [List.filter_nil, List.map_nil, List.sum_nil]
    rcases hn with hn | ⟨a, b', _⟩
    · rw [if_pos hn] at hb; omega
    · have : ¬ m = -1 := by omega
      rw [if_neg this] at hb; omega
  | @step n p rest c n' left cs so _ ih =>
    intro b hb
    have g1 := so.ge; have g2 := so.lt; have g3 := so.le
    have hne : n' ≠ -1 := by omega
    have := ih so.next n' (by rw [if_neg hne])
    by_cases hm : n = -1
    · have hs : ¬ c.skip > 0 := by rw [so.skip, if_pos hm]; omega
      rw [if_pos hm] at hb
      rw [List.filter_cons_of_neg (by simpa using hs)]
      omega
    · rcases hn with hn | ⟨a, b', d⟩
      · exact absurd hn hm
      have := d _ (List.mem_cons_self ..)
      have hsk : c.skip = p.seq - n := by rw [so.skip, if_neg hm]
      have hs : c.skip > 0 := by omega
      rw [if_neg hm] at hb
      rw [List.filter_cons_of_pos (by simpa using hs)]
      simp only [List.map_cons, List.sum_cons]
      omega

/-! ### skipped sequence numbers and chunk ends are not covered -/

/-- `i` is skipped before a chunk, or is the first sequence number behind a chunk (`pos` running as in `covC`) -/
def gapsC : Int → List (Chunk α) → Int → Prop
  | _, [], _ => False
  | pos, (skip, data) :: rest, i =>
    let p := if skip > 0 then pos + skip else pos
    (pos ≤ i ∧ i < p) ∨ i = p + data.length ∨ gapsC (p + data.length) rest i

theorem StepOut.startEq {sent : List α} {s0 : Int} {s2c : Bool} {n : Int} {p : Page α} {rest : List (Page α)}
    {c : SGCall α} {n' : Int} {left : List (Page α)} (so : StepOut sent s0 s2c n p rest c n' left)
    (hn : NextOK sent s0 n (p :: rest)) (_h1 : 1 ≤ s0) {pos : Int} (hpos : pos = if n = -1 then p.seq else n) :
    (if c.skip > 0 then pos + c.skip else pos) = p.seq := by
  rw [so.skip]
  by_cases hm : n = -1
  · rw [if_pos hm] at hpos ⊢
    simp [hpos]
  · rw [if_neg hm] at hpos ⊢
    rcases hn with hn | ⟨a, b, d⟩
    · exact absurd hn hm
    have := d _ (List.mem_cons_self ..)
    have hgt : p.seq - n > 0 := by omega
    rw [if_pos hgt]
    omega

theorem flushed_gaps_ge {sent : List α} {s0 : Int} {s2c : Bool} {n : Int} {ps : List (Page α)}
    {cs : List (SGCall α)} (f : Flushed sent s0 s2c n ps cs) (h1 : 1 ≤ s0) (hn : NextOK sent s0 n ps)
    (hne : n ≠ -1) : ∀ i, gapsC n (cs.map fun c => (c.skip, c.data)) i → n ≤ i := by
  induction f with
  | nil => intro i hi; simp [gapsC] at hi
  | @step n p rest c n' left cs so _ ih =>
    intro i hi
    have g1 := so.ge; have g2 := so.lt; have g3 := so.le
    have hl := so.len
    simp only [List.map_cons, gapsC] at hi
    rw [so.startEq hn h1 (by rw [if_neg hne]), hl] at hi
    have e : p.seq + (n' - p.seq) = n' := by omega
    rw [e] at hi
    have hlt : n < p.seq := by
      rcases hn with hn | ⟨_, _, d⟩
      · exact absurd hn hne
      · exact d _ (List.mem_cons_self ..)
    rcases hi with ⟨a, _⟩ | hi | hi
    · exact a
    · omega
    · have := ih so.next (by omega) i hi; omega

theorem flushed_gaps {sent : List α} {s0 : Int} {s2c : Bool} {n : Int} {ps : List (Page α)}
    {cs : List (SGCall α)} (f : Flushed sent s0 s2c n ps cs) (h1 : 1 ≤ s0) (hn : NextOK sent s0 n ps) :
    ∀ pos : Int, (∀ p rest, ps = p :: rest → pos = if n = -1 then p.seq else n) →
      ∀ i, gapsC pos (cs.map fun c => (c.skip, c.data)) i → ¬ covP ps i := by
  induction f with
  | nil => intro pos _ i hi; simp [gapsC] at hi
  | @step n p rest c n' left cs so tl ih =>
    intro pos hpos i hi
    have hpos := hpos p rest rfl
    have g1 := so.ge; have g2 := so.lt; have g3 := so.le
    have hl := so.len
    simp only [List.map_cons, gapsC] at hi
    rw [so.startEq hn h1 hpos, hl] at hi
    have e : p.seq + (n' - p.seq) = n' := by omega
    rw [e] at hi
    have hne : n' ≠ -1 := by omega
    rw [so.cov i]
    have hleft : ∀ j, covP left j → n' < j := by
      rintro j ⟨q, hq, hq1, _⟩
      have := so.above q hq; omega
    rcases hi with ⟨_, b⟩ | hi | hi
    · rintro (⟨a, _⟩ | hcv)
      · omega
      · have := hleft i hcv; omega
    · rintro (⟨_, b⟩ | hcv)
      · omega
      · have := hleft i hcv; omega
    · have hge := flushed_gaps_ge tl h1 so.next hne i hi
      rintro (⟨_, b⟩ | hcv)
      · omega
      · exact ih so.next n' (fun q r _ => by rw [if_neg hne]) i hi hcv

/-! ### the specification of `flushHalf` -/

/-- position in `sent` from which the skip of the first flushed chunk counts: the first queued page when no
    `nextSeq` is known (skip = -1), else `nextSeq` -/
def pos0 (s0 : Int) (h : Half α) : Nat := startPos s0 h.nextSeq h.pages

section spec
variable {sent : List α} {s0 lo hi : Int} (s2c : Bool) (h : Half α)
  (hw : NoWrap lo hi) (hlo : lo ≤ s0 - 1) (hhi : s0 + sent.length + 1 ≤ hi)
  (hc : h.closed = false) (hs : SortedPages h.pages) (hok : PagesOK sent s0 h.pages)
  (hn : h.nextSeq = -1 ∨ (s0 ≤ h.nextSeq ∧ h.nextSeq ≤ s0 + sent.length ∧ ∀ p ∈ h.pages, h.nextSeq < p.seq))
include hw hlo hhi hc hs hok hn

theorem flush_flushed :
    (flushHalf s2c h).1.closed = true ∧ Flushed sent s0 s2c h.nextSeq h.pages (flushHalf s2c h).2 :=
  flushLoop_spec ⟨hw, hlo, hhi⟩ s2c _ h (Nat.le_refl _) hc hs hok hn

/-- 7. the flush closes the half connection -/
theorem flush_closed : (flushHalf s2c h).1.closed = true :=
  (flush_flushed s2c h hw hlo hhi hc hs hok hn).1

/-- 1. calls are made iff pages are queued -/
theorem flush_nil_iff : (flushHalf s2c h).2 = [] ↔ h.pages = [] :=
  flushed_nil_iff (flush_flushed s2c h hw hlo hhi hc hs hok hn).2

/-- 2. direction and `start` of the calls -/
theorem flush_dir : ∀ c ∈ (flushHalf s2c h).2, c.serverToClient = s2c ∧ c.start = false :=
  flushed_dir (flush_flushed s2c h hw hlo hhi hc hs hok hn).2

/-- 3a. with a known `nextSeq` every call has a positive skip -/
theorem flush_skip_pos (hne : h.nextSeq ≠ -1) : ∀ c ∈ (flushHalf s2c h).2, 0 < c.skip := fun c hcm =>
  (flushed_skip_pos (flush_flushed s2c h hw hlo hhi hc hs hok hn).2
    (Win.s0_pos (sent := sent) ⟨hw, hlo, hhi⟩) hn hne c hcm).1

/-- 3b. without `nextSeq` the first call has skip -1, all later ones a positive skip -/
theorem flush_skip_first (he : h.nextSeq = -1) (c0 : SGCall α) (rest : List (SGCall α))
    (hcs : (flushHalf s2c h).2 = c0 :: rest) : c0.skip = -1 ∧ ∀ c ∈ rest, 0 < c.skip := by
  have f := (flush_flushed s2c h hw hlo hhi hc hs hok hn).2
  rw [he, hcs] at f
  have := flushed_skip_first f (Win.s0_pos (sent := sent) ⟨hw, hlo, hhi⟩)
  exact ⟨this.1, fun c hcm => (this.2 c hcm).1⟩

/-- 4. in-order delivery -/
theorem flush_delivers :
    Delivers sent (pos0 s0 h) ((flushHalf s2c h).2.map fun c => (c.skip, c.data)) := by
  apply flushed_delivers (flush_flushed s2c h hw hlo hhi hc hs hok hn).2
    (Win.s0_pos (sent := sent) ⟨hw, hlo, hhi⟩) hn
  intro p rest hp
  simp [pos0, startPos, hp]

/-- 5. exact coverage: the sequence numbers in the chunks' ranges are those of the queued pages -/
theorem flush_cov :
    ∀ i, covP h.pages i ↔ covC (s0 + (pos0 s0 h : Nat)) ((flushHalf s2c h).2.map fun c => (c.skip, c.data)) i := by
  apply flushed_cov (flush_flushed s2c h hw hlo hhi hc hs hok hn).2
    (Win.s0_pos (sent := sent) ⟨hw, hlo, hhi⟩) hn
  intro p rest hp
  have g := (hok p (by simp [hp])).1.1
  simp only [pos0, startPos, hp]
  rcases hn with hn | ⟨a, _, _⟩
  · rw [if_pos hn]; omega
  · have h1 := Win.s0_pos (sent := sent) ⟨hw, hlo, hhi⟩
    have : ¬ h.nextSeq = -1 := by omega
    rw [if_neg this]; omega

/-- 5'. the first chunk: it starts at the first page, its range is covered, its end is not, and nothing between
    `nextSeq` and the first page is covered -/
theorem flush_first (p : Page α) (rest : List (Page α)) (hp : h.pages = p :: rest) :
    ∃ c0 cs', (flushHalf s2c h).2 = c0 :: cs' ∧ 0 < c0.data.length ∧
      c0.data = (sent.drop (p.seq - s0).toNat).take c0.data.length ∧
      (∀ i, p.seq ≤ i → i < p.seq + c0.data.length → covP h.pages i) ∧
      ¬ covP h.pages (p.seq + c0.data.length) ∧
      (∀ i, i < p.seq → ¬ covP h.pages i) := by
  have f := (flush_flushed s2c h hw hlo hhi hc hs hok hn).2
  rw [hp] at f
  obtain ⟨c0, cs', e1, e2, e3, e4, e5⟩ := flushed_first f
  rw [hp]
  refine ⟨c0, cs', e1, e2, e3, e4, e5, ?_⟩
  rw [hp] at hs hok
  intro i hi
  rintro ⟨q, hq, hq1, _⟩
  rcases List.mem_cons.mp hq with rfl | hq
  · omega
  · have := (List.pairwise_cons.mp hs).1 q hq
    have g := (hok p (by simp)).1.2.1
    have : 0 < p.bytes.length := List.length_pos_iff.mpr g
    unfold pEnd at *
    omega

/-- 6a. the positive skips add up to at most the stream length -/
theorem flush_skip_sum :
    (((flushHalf s2c h).2.filter (fun c => c.skip > 0)).map (fun c => c.skip.toNat)).sum ≤ sent.length := by
  have h1 := Win.s0_pos (sent := sent) ⟨hw, hlo, hhi⟩
  have := flushed_sum (flush_flushed s2c h hw hlo hhi hc hs hok hn).2 h1 hn _ rfl
  rcases hn with hn | ⟨a, _, _⟩
  · rw [if_pos hn] at this; omega
  · have hne : ¬ h.nextSeq = -1 := by omega
    rw [if_neg hne] at this; omega

/-- 6b. every skip fits 32 bits -/
theorem flush_skip_lt : ∀ c ∈ (flushHalf s2c h).2, c.skip < 4294967296 := by
  have h1 := Win.s0_pos (sent := sent) ⟨hw, hlo, hhi⟩
  have hlen : (sent.length : Int) < 4294967296 := by have := hw.2.2.1; omega
  have f := (flush_flushed s2c h hw hlo hhi hc hs hok hn).2
  by_cases he : h.nextSeq = -1
  · intro c hcm
    cases hcs : (flushHalf s2c h).2 with
    | nil => rw [hcs] at hcm; simp at hcm
    | cons c0 rest =>
      rw [he, hcs] at f
      have := flushed_skip_first f h1
      rw [hcs] at hcm
      rcases List.mem_cons.mp hcm with rfl | hcm
      · omega
      · have := (this.2 c hcm).2; omega
  · intro c hcm
    have := (flushed_skip_pos f h1 hn he c hcm).2
    omega

end spec

section spec2
variable {sent : List α} {s0 lo hi : Int} (s2c : Bool) (h : Half α)
  (hw : NoWrap lo hi) (hlo : lo ≤ s0 - 1) (hhi : s0 + sent.length + 1 ≤ hi)
  (hc : h.closed = false) (hs : SortedPages h.pages) (hok : PagesOK sent s0 h.pages)
  (hn : h.nextSeq = -1 ∨ (s0 ≤ h.nextSeq ∧ h.nextSeq ≤ s0 + sent.length ∧ ∀ p ∈ h.pages, h.nextSeq < p.seq))
include hw hlo hhi hc hs hok hn

/-- 5''. no skipped sequence number and no chunk end is covered by a queued page -/
theorem flush_gaps :
    ∀ i, gapsC (s0 + (pos0 s0 h : Nat)) ((flushHalf s2c h).2.map fun c => (c.skip, c.data)) i → ¬ covP h.pages i := by
  apply flushed_gaps (flush_flushed s2c h hw hlo hhi hc hs hok hn).2
    (Win.s0_pos (sent := sent) ⟨hw, hlo, hhi⟩) hn
  intro p rest hp
  have g := (hok p (by simp [hp])).1.1
  simp only [pos0, startPos, hp]
  rcases hn with hn | ⟨a, _, _⟩
  · rw [if_pos hn]; omega
  · have h1 := Win.s0_pos (sent := sent) ⟨hw, hlo, hhi⟩
    have : ¬ h.nextSeq = -1 := by omega
    rw [if_neg this]; omega

/-- the specification of `FlushAll` on one half connection, all parts together -/
theorem flush_spec :
    ((flushHalf s2c h).2 = [] ↔ h.pages = []) ∧
    (∀ c ∈ (flushHalf s2c h).2, c.serverToClient = s2c ∧ c.start = false) ∧
    (h.nextSeq ≠ -1 → ∀ c ∈ (flushHalf s2c h).2, 0 < c.skip) ∧
    (h.nextSeq = -1 → ∀ c0 rest, (flushHalf s2c h).2 = c0 :: rest → c0.skip = -1 ∧ ∀ c ∈ rest, 0 < c.skip) ∧
    Delivers sent (pos0 s0 h) ((flushHalf s2c h).2.map fun c => (c.skip, c.data)) ∧
    (∀ i, covP h.pages i ↔ covC (s0 + (pos0 s0 h : Nat)) ((flushHalf s2c h).2.map fun c => (c.skip, c.data)) i) ∧
    (∀ i, gapsC (s0 + (pos0 s0 h : Nat)) ((flushHalf s2c h).2.map fun c => (c.skip, c.data)) i → ¬ covP h.pages i) ∧
    (((flushHalf s2c h).2.filter (fun c => c.skip > 0)).map (fun c => c.skip.toNat)).sum ≤ sent.length ∧
    (∀ c ∈ (flushHalf s2c h).2, c.skip < 4294967296) ∧
    (flushHalf s2c h).1.closed = true :=
  ⟨flush_nil_iff s2c h hw hlo hhi hc hs hok hn, flush_dir s2c h hw hlo hhi hc hs hok hn,
   flush_skip_pos s2c h hw hlo hhi hc hs hok hn, flush_skip_first s2c h hw hlo hhi hc hs hok hn,
   flush_delivers s2c h hw hlo hhi hc hs hok hn, flush_cov s2c h hw hlo hhi hc hs hok hn,
   flush_gaps s2c h hw hlo hhi hc hs hok hn, flush_skip_sum s2c h hw hlo hhi hc hs hok hn,
   flush_skip_lt s2c h hw hlo hhi hc hs hok hn, flush_closed s2c h hw hlo hhi hc hs hok hn⟩

end spec2
end Proofs.C19GpFlush
