import Proofs.C19GpRun
import Proofs.C19GpFlush
import Proofs.C19GpOverlap

/-! C19 — glue: the run theorem (Proofs/C19GpRun.lean) and the flush specification (Proofs/C19GpFlush.lean)
    assembled into the six fields of the interface fq relies on (`Iface` has the fields of
    `Props.C19.GopacketInterface`; repeated here because Props/C19.lean imports this file). -/
namespace Proofs.C19GpIface
open FqModel.Reasm FqModel.Gopacket
variable {α : Type}

structure Iface (sent : List α) (segs : List (Seg α)) (base : Nat) (pre post : List (SGCall α)) : Prop where
  delivers : Delivers sent base ((pre ++ post).map fun c => (c.skip, c.data))
  flushOnly : FlushOnlyAtEnd (pre.map fun c => (c.skip, c.data)) (post.map fun c => (c.skip, c.data))
  exhausts : base + ((pre.map (·.data.length)).sum) = prefixEnd segs base
  flushes : post ≠ [] ↔ beyond segs (prefixEnd segs base) = true
  goInt : ∀ c ∈ post, c.skip < 9223372036854775808
  small : ((post.map fun c => toUInt64 c.skip).sum) < 18446744073709551616

theorem delivers_skip0 (sent : List α) (rest : List (Chunk α)) (d : Nat) (hd : d ≤ sent.length) :
    ∀ (pre : List (SGCall α)) (p : Nat), (∀ c ∈ pre, c.skip = 0) → p ≤ d →
      (pre.map (·.data)).flatten = (sent.drop p).take (d - p) →
      Delivers sent d rest → Delivers sent p (pre.map (fun c => (c.skip, c.data)) ++ rest) := by
  intro pre
  induction pre with
  | nil =>
    intro p _ hp hfl hdel
    have := congrArg List.length hfl
    simp at this
    have : p = d := by omega
    subst this
    simpa using hdel
  | cons c pre ih =>
    intro p hsk hp hfl hdel
    have hc0 : c.skip = 0 := hsk c (by simp)
    simp only [List.map_cons, List.flatten_cons] at hfl
    have hlen := congrArg List.length hfl
    simp only [List.length_append, List.length_take, List.length_drop] at hlen
    have hn : c.data.length ≤ d - p := by omega
    have h1 : c.data = (sent.drop p).take c.data.length := by
      have := congrArg (List.take c.data.length) hfl
      rw [List.take_left, List.take_take, Nat.min_eq_left hn] at this
      exact this
    have h2 : (pre.map (·.data)).flatten = (sent.drop (p + c.data.length)).take (d - (p + c.data.length)) := by
      have := congrArg (List.drop c.data.length) hfl
      rw [List.drop_left, List.drop_take, List.drop_drop] at this
      rw [this, Nat.sub_sub]
    simp only [List.map_cons, List.cons_append, Delivers, hc0]
    refine ⟨by omega, ?_, ?_, ?_⟩
    · simpa using h1
    · simp; omega
    · simp only [Int.lt_irrefl, if_false, gt_iff_lt]
      exact ih _ (fun c' hc' => hsk c' (by simp [hc'])) (by omega) h2 hdel

theorem sum_len (pre : List (SGCall α)) :
    (pre.map (·.data.length)).sum = ((pre.map (·.data)).flatten).length := by
  rw [List.length_flatten, List.map_map]; rfl

theorem sum_toUInt64 (post : List (SGCall α)) (h : ∀ c ∈ post, 0 < c.skip ∧ c.skip < 4294967296) :
    (post.map fun c => toUInt64 c.skip).sum = ((post.filter (fun c => c.skip > 0)).map (fun c => c.skip.toNat)).sum := by
  have hf : post.filter (fun c => c.skip > 0) = post :=
    List.filter_eq_self.mpr (fun c hc => by simp [(h c hc).1])
  rw [hf]
  congr 1
  apply List.map_congr_left
  intro c hc
  have := h c hc
  unfold toUInt64
  omega

theorem iface_core {sent : List α} {s0 lo hi : Int} (w : Proofs.C19Gp.Win sent s0 lo hi) (s2c : Bool)
    (segs : List (Seg α)) (pre : List (SGCall α)) (h : Half α) (d : Nat) (hd : d ≤ sent.length)
    (sk : ∀ c ∈ pre, c.skip = 0) (dat : (pre.map (·.data)).flatten = sent.take d)
    (hpe : prefixEnd segs 0 = d) (hbe : beyond segs d = true ↔ (h.closed = false ∧ h.pages ≠ []))
    (hs : Proofs.C19Gp.SortedPages h.pages) (hok : Proofs.C19Gp.PagesOK sent s0 h.pages)
    (hcase : (h.closed = false ∧ h.nextSeq = s0 + d ∧ ∀ p ∈ h.pages, s0 + d < p.seq) ∨ h.closed = true) :
    Iface sent segs 0 pre (flushHalf s2c h).2 := by
  have h1 : 1 ≤ s0 := w.s0_pos
  have hsum : (pre.map (·.data.length)).sum = d := by
    rw [sum_len, dat, List.length_take]; omega
  have hpreD : ∀ rest, Delivers sent d rest → Delivers sent 0 (pre.map (fun c => (c.skip, c.data)) ++ rest) :=
    fun rest hr => delivers_skip0 sent rest d hd pre 0 sk (Nat.zero_le _) (by simpa using dat) hr
  have hpre0 : ∀ c ∈ pre.map (fun c => (c.skip, c.data)), c.1 = 0 ∨ c.1 = -1 := by
    intro c hc
    obtain ⟨c', hc', rfl⟩ := List.mem_map.mp hc
    exact Or.inl (sk c' hc')
  rcases hcase with ⟨hc, hns, hpg⟩ | hc
  · have hn : h.nextSeq = -1 ∨ (s0 ≤ h.nextSeq ∧ h.nextSeq ≤ s0 + sent.length ∧ ∀ p ∈ h.pages, h.nextSeq < p.seq) :=
      Or.inr ⟨by omega, by omega, by rw [hns]; exact hpg⟩
    have hne : h.nextSeq ≠ -1 := by omega
    have hpos := Proofs.C19GpFlush.flush_skip_pos s2c h w.nw w.lo_le w.le_hi hc hs hok hn hne
    have hlt := Proofs.C19GpFlush.flush_skip_lt s2c h w.nw w.lo_le w.le_hi hc hs hok hn
    have hnil := Proofs.C19GpFlush.flush_nil_iff s2c h w.nw w.lo_le w.le_hi hc hs hok hn
    have hdel := Proofs.C19GpFlush.flush_delivers s2c h w.nw w.lo_le w.le_hi hc hs hok hn
    have hss := Proofs.C19GpFlush.flush_skip_sum s2c h w.nw w.lo_le w.le_hi hc hs hok hn
    refine ⟨?_, ⟨hpre0, ?_⟩, ?_, ?_, ?_, ?_⟩
    · rw [List.map_append]
      by_cases hp : h.pages = []
      · rw [hnil.mpr hp]; exact hpreD _ (by simp [Delivers])
      · apply hpreD
        have : Proofs.C19GpFlush.pos0 s0 h = d := by
          unfold Proofs.C19GpFlush.pos0 Proofs.C19GpFlush.startPos
          cases hpp : h.pages with
          | nil => exact absurd hpp hp
          | cons p rest => simp only [if_neg hne]; omega
        rw [← this]; exact hdel
    · intro c hc
      obtain ⟨c', hc', rfl⟩ := List.mem_map.mp hc
      exact hpos c' hc'
    · rw [hpe, hsum]; omega
    · rw [hpe, hbe, Ne, hnil]
      exact ⟨fun hp => ⟨hc, hp⟩, fun hp => hp.2⟩
    · intro c hc; have := hlt c hc; omega
    · rw [sum_toUInt64 _ (fun c hc => ⟨hpos c hc, hlt c hc⟩)]
      have := w.le_hi; have := w.nw.2.2.1
      omega
  · have hfl : flushHalf s2c h = (h, []) := Proofs.C19GpFlush.flushLoop_closed s2c _ h hc
    rw [hfl]
    refine ⟨?_, ⟨hpre0, by simp⟩, ?_, ?_, by simp, by simp⟩
    · rw [List.map_append]; exact hpreD _ (by simp [Delivers])
    · rw [hpe, hsum]; omega
    · rw [hpe]
      constructor
      · intro hx; exact absurd rfl hx
      · intro hx; have := (hbe.mp hx).1; rw [hc] at this; cases this

/-- SYN case: with an accepted SYN in the direction, the calls made while the packets arrive (`pre`) and the
    calls of the final flush (`post`) satisfy the interface fq relies on, with `base = 0` and the captured
    segments `segsOf s0 pkts`. -/
theorem iface_syn {sent : List α} {s0 lo hi : Int} (w : Proofs.C19Gp.Win sent s0 lo hi) (s2c : Bool)
    (pkts : List (Bool × Pkt α)) (hgood : ∀ x ∈ pkts, Proofs.C19Gp.GoodPkt sent s0 x.2)
    (hsyn : Proofs.C19Gp.synSeen pkts = true) :
    Iface sent (Proofs.C19Gp.segsOf s0 pkts) 0 (traceOf s2c pkts).1 (traceOf s2c pkts).2 := by
  obtain ⟨d, hd, st, sk, dat, _⟩ :=
    Proofs.C19Gp.gopacket_delivers_in_order Proofs.C19Gp.checkOverlap_spec w s2c pkts hgood
  rw [hsyn] at st
  have hpe := Proofs.C19Gp.prefixEnd_of_St pkts hgood st
  have hbe := Proofs.C19Gp.beyond_of_St pkts hgood st
  have hpost : (traceOf s2c pkts).2 = (flushHalf s2c (runHalf s2c {} pkts).1).2 := rfl
  rw [hpost]
  obtain ⟨_, hs, hok, _, f⟩ := st
  refine iface_core w s2c _ _ _ d hd sk dat hpe hbe hs hok ?_
  rcases f with ⟨f1, _⟩ | ⟨_, f2, f3, f4, _⟩ | ⟨_, f2, _, _⟩
  · cases f1
  · exact Or.inl ⟨f2, f3, f4⟩
  · exact Or.inr f2

theorem iface_nosyn_core {sent : List α} {s0 lo hi : Int} (w : Proofs.C19Gp.Win sent s0 lo hi) (s2c : Bool)
    (segs : List (Seg α)) (h : Half α)
    (hcl : h.closed = false) (hns : h.nextSeq = -1)
    (hs : Proofs.C19Gp.SortedPages h.pages) (hok : Proofs.C19Gp.PagesOK sent s0 h.pages)
    (hcov : ∀ i : Nat, covered segs i = true ↔ Proofs.C19Gp.covP h.pages (s0 + i)) :
    (h.pages = [] → (flushHalf s2c h).2 = [] ∧ ∀ base, Iface sent segs base [] []) ∧
    (∀ p rest, h.pages = p :: rest → ∃ c0 post, (flushHalf s2c h).2 = c0 :: post ∧ c0.skip = -1 ∧
      covered segs (p.seq - s0).toNat = true ∧ (∀ i, i < (p.seq - s0).toNat → covered segs i = false) ∧
      Iface sent segs (p.seq - s0).toNat [c0] post) := by
  have h1 : 1 ≤ s0 := w.s0_pos
  have hn : h.nextSeq = -1 ∨ (s0 ≤ h.nextSeq ∧ h.nextSeq ≤ s0 + sent.length ∧ ∀ p ∈ h.pages, h.nextSeq < p.seq) :=
    Or.inl hns
  have hlt := Proofs.C19GpFlush.flush_skip_lt s2c h w.nw w.lo_le w.le_hi hcl hs hok hn
  have hnil := Proofs.C19GpFlush.flush_nil_iff s2c h w.nw w.lo_le w.le_hi hcl hs hok hn
  have hdel := Proofs.C19GpFlush.flush_delivers s2c h w.nw w.lo_le w.le_hi hcl hs hok hn
  have hss := Proofs.C19GpFlush.flush_skip_sum s2c h w.nw w.lo_le w.le_hi hcl hs hok hn
  have hfc := Proofs.C19GpFlush.flush_cov s2c h w.nw w.lo_le w.le_hi hcl hs hok hn
  have hff := (Proofs.C19GpFlush.flush_flushed s2c h w.nw w.lo_le w.le_hi hcl hs hok hn).2
  constructor
  · intro hp
    refine ⟨hnil.mpr hp, fun base => ?_⟩
    have hnc : ∀ i, covered segs i = false := by
      intro i
      rw [← Bool.not_eq_true, hcov, hp]
      rintro ⟨q, hq, _⟩; cases hq
    have hpe : prefixEnd segs base = base :=
      Proofs.C19.prefixEnd_eq segs base base (Nat.le_refl _) (fun i a b => by omega) (hnc _)
    refine ⟨by simp [Delivers], ⟨by simp, by simp⟩, by simp [hpe], ?_, by simp, by simp⟩
    constructor
    · intro hx; exact absurd rfl hx
    · intro hx
      obtain ⟨i, _, hi⟩ := (Proofs.C19Gp.beyond_iff_covered _ _).mp hx
      rw [hnc] at hi; cases hi
  · intro p rest hp
    obtain ⟨c0, post, e1, e2, e3, e4, e5, e6⟩ :=
      Proofs.C19GpFlush.flush_first s2c h w.nw w.lo_le w.le_hi hcl hs hok hn p rest hp
    obtain ⟨k0, kpos⟩ := Proofs.C19GpFlush.flush_skip_first s2c h w.nw w.lo_le w.le_hi hcl hs hok hn hns c0 post e1
    have gp := (hok p (by simp [hp])).1.1
    have hbase : s0 + (((p.seq - s0).toNat : Nat) : Int) = p.seq := by omega
    have hpos0 : Proofs.C19GpFlush.pos0 s0 h = (p.seq - s0).toNat := by
      simp [Proofs.C19GpFlush.pos0, Proofs.C19GpFlush.startPos, hp, hns]
    rw [hpos0, e1] at hdel
    rw [hpos0, e1, hbase] at hfc
    rw [e1] at hlt hss hff
    rw [hp] at hff
    refine ⟨c0, post, e1, k0, ?_, ?_, ?_⟩
    · rw [hcov, hbase]; exact e4 _ (Int.le_refl _) (by omega)
    · intro i hi
      rw [← Bool.not_eq_true, hcov]
      exact e6 _ (by omega)
    · have hpe : prefixEnd segs (p.seq - s0).toNat = (p.seq - s0).toNat + c0.data.length := by
        apply Proofs.C19.prefixEnd_eq _ _ _ (by omega)
        · intro i hi1 hi2
          rw [hcov]; exact e4 _ (by omega) (by omega)
        · rw [← Bool.not_eq_true, hcov]
          have : s0 + (((p.seq - s0).toNat + c0.data.length : Nat) : Int) = p.seq + c0.data.length := by omega
          rw [this]; exact e5
      refine ⟨by simpa using hdel, ⟨?_, ?_⟩, ?_, ?_, ?_, ?_⟩
      · intro c hc; simp at hc; rw [hc]; exact Or.inr k0
      · intro c hc
        obtain ⟨c', hc', rfl⟩ := List.mem_map.mp hc
        exact kpos c' hc'
      · rw [hpe]; simp
      · rw [hpe, Proofs.C19Gp.beyond_iff_covered]
        simp only [List.map_cons, Proofs.C19GpFlush.covC, k0] at hfc
        have hif : (if (-1 : Int) > 0 then p.seq + -1 else p.seq) = p.seq := by simp
        rw [hif] at hfc
        constructor
        · intro hne
          cases hff with
          | @step _ _ _ _ n' left _ so tl =>
            cases tl with
            | nil => exact absurd rfl hne
            | @step _ p' rest' c1 n'' left' cs' so' tl' =>
              have hk := kpos c1 (by simp)
              have g2 := so'.lt
              have hl' := so'.len
              have hl := so.len
              have hab := so.above p' (by simp)
              have hsk := so'.skip
              have : n' ≠ -1 := by have := so.lt; omega
              rw [if_neg this] at hsk
              refine ⟨(p'.seq - s0).toNat, by omega, ?_⟩
              rw [hcov, hfc]
              right
              simp only [List.map_cons, Proofs.C19GpFlush.covC]
              left
              rw [if_pos hk]
              constructor <;> omega
        · rintro ⟨i, hi, hc⟩
          rw [hcov, hfc] at hc
          rcases hc with hc | hc
          · omega
          · intro hnil'; rw [hnil'] at hc; simp [Proofs.C19GpFlush.covC] at hc
      · intro c hc; have := hlt c (by simp [hc]); omega
      · rw [sum_toUInt64 _ (fun c hc => ⟨kpos c hc, hlt c (by simp [hc])⟩)]
        have hf : (c0 :: post).filter (fun c => c.skip > 0) = post.filter (fun c => c.skip > 0) := by
          simp [k0]
        rw [hf] at hss
        have := w.le_hi; have := w.nw.2.2.1
        omega

/-- no-SYN case: without an accepted SYN nothing is delivered while the packets arrive; the flush makes no call
    when nothing was queued, and otherwise its first call (skip -1) is `pre`, the others `post`, with `base` = the
    least captured stream offset (the first queued page). -/
theorem iface_nosyn {sent : List α} {s0 lo hi : Int} (w : Proofs.C19Gp.Win sent s0 lo hi) (s2c : Bool)
    (pkts : List (Bool × Pkt α)) (hgood : ∀ x ∈ pkts, Proofs.C19Gp.GoodPkt sent s0 x.2)
    (hsyn : Proofs.C19Gp.synSeen pkts = false) :
    (traceOf s2c pkts).1 = [] ∧
    (((runHalf s2c {} pkts).1.pages = [] ∧ (traceOf s2c pkts).2 = [] ∧
        ∀ base, Iface sent (Proofs.C19Gp.segsOf s0 pkts) base [] []) ∨
     ∃ base c0 post, (traceOf s2c pkts).2 = c0 :: post ∧ c0.skip = -1 ∧
        covered (Proofs.C19Gp.segsOf s0 pkts) base = true ∧
        (∀ i, i < base → covered (Proofs.C19Gp.segsOf s0 pkts) i = false) ∧
        Iface sent (Proofs.C19Gp.segsOf s0 pkts) base [c0] post) := by
  obtain ⟨d, hd, st, sk, dat, hno⟩ :=
    Proofs.C19Gp.gopacket_delivers_in_order Proofs.C19Gp.checkOverlap_spec w s2c pkts hgood
  rw [hsyn] at st
  refine ⟨hno hsyn, ?_⟩
  have hpost : (traceOf s2c pkts).2 = (flushHalf s2c (runHalf s2c {} pkts).1).2 := rfl
  rw [hpost]
  obtain ⟨_, hs, hok, _, f⟩ := st
  rcases f with ⟨_, _, f3, f4, f5⟩ | ⟨f1, _⟩ | ⟨f1, _⟩
  · have hcov : ∀ i : Nat, covered (Proofs.C19Gp.segsOf s0 pkts) i = true ↔
        Proofs.C19Gp.covP (runHalf s2c {} pkts).1.pages (s0 + i) := by
      intro i; rw [Proofs.C19Gp.covered_segsOf pkts hgood, f5]
    obtain ⟨c1, c2⟩ := iface_nosyn_core w s2c _ _ f4 f3 hs hok hcov
    cases hp : (runHalf s2c {} pkts).1.pages with
    | nil => exact Or.inl ⟨rfl, (c1 hp).1, (c1 hp).2⟩
    | cons p rest =>
      obtain ⟨c0, post, e1, e0, e2, e3, e4⟩ := c2 p rest hp
      exact Or.inr ⟨_, c0, post, e1, e0, e2, e3, e4⟩
  · cases f1
  · cases f1

end Proofs.C19GpIface
