import Proofs.C19GpDefs
/-! C19 — `checkOverlap` of the transliterated gopacket assembler meets `CheckOverlapSpec` (Proofs/C19GpDefs.lean):
    loop lemma `coLoop_spec`, page splitting `toPagesAux_spec`, assembly `checkOverlap_spec`. -/
namespace Proofs.C19Gp
open FqModel.Reasm FqModel.Gopacket
variable {α : Type}

theorem covP_cons (p : Page α) (l : List (Page α)) (i : Int) :
    covP (p :: l) i ↔ ((p.seq ≤ i ∧ i < pEnd p) ∨ covP l i) := by simp [covP]
theorem covP_append (a b : List (Page α)) (i : Int) : covP (a ++ b) i ↔ (covP a i ∨ covP b i) := by
  simp [covP, or_and_right, exists_or]
theorem covP_reverse (a : List (Page α)) (i : Int) : covP a.reverse i ↔ covP a i := by simp [covP]
theorem covP_mid (X R : List (Page α)) (c : Page α) (i : Int) :
    covP (X ++ c :: R) i ↔ (covP (X ++ R) i ∨ (c.seq ≤ i ∧ i < pEnd c)) := by
  rw [covP_append, covP_cons, covP_append]
  constructor
  · rintro (h | h | h)
    · exact Or.inl (Or.inl h)
    · exact Or.inr h
    · exact Or.inl (Or.inr h)
  · rintro ((h | h) | h)
    · exact Or.inl h
    · exact Or.inr (Or.inr h)
    · exact Or.inr (Or.inl h)

theorem sorted_mid (X R : List (Page α)) (c : Page α) :
    SortedPages (X ++ c :: R) ↔ (SortedPages (X ++ R) ∧ (∀ p ∈ X, pEnd p ≤ c.seq) ∧ (∀ q ∈ R, pEnd c ≤ q.seq)) := by
  simp only [SortedPages, List.pairwise_append, List.pairwise_cons, List.mem_cons]
  constructor
  · rintro ⟨h1, ⟨h2, h3⟩, h4⟩
    exact ⟨⟨h1, h3, fun a ha b hb => h4 a ha b (Or.inr hb)⟩, fun p hp => h4 p hp c (Or.inl rfl), h2⟩
  · rintro ⟨⟨h1, h3, h4⟩, h5, h2⟩
    refine ⟨h1, ⟨h2, h3⟩, ?_⟩
    intro a ha b hb
    rcases hb with rfl | hb
    · exact h5 a ha
    · exact h4 a ha b hb

theorem covP_outside {A B : List (Page α)} {s t i : Int} (hA : ∀ p ∈ A, pEnd p ≤ s) (hB : ∀ p ∈ B, t ≤ p.seq)
    (h : covP (A ++ B) i) : ¬ (s ≤ i ∧ i < t) := by
  rw [covP_append] at h
  rcases h with ⟨p, hp, h1, h2⟩ | ⟨p, hp, h1, h2⟩
  · have := hA p hp; omega
  · have := hB p hp; omega

theorem slice_eq {l b : List α} {D : List α} {a n : Nat} (hl : l = D.take l.length) (hb : b = (D.drop a).take n)
    (hn : b.length = n) (hlen : a + n ≤ l.length) : l.take a ++ b ++ l.drop (a + n) = l := by
  have hb' : b = (l.drop a).take n := by
    rw [hb, hl, List.drop_take, List.take_take]
    congr 1
    have : (D.take l.length).length = l.length := by rw [← hl]
    omega
  rw [hb', List.append_assoc, ← List.drop_drop, List.take_append_drop, List.take_append_drop]

theorem goodPage_take {sent : List α} {s0 : Int} {p : Page α} (hg : GoodPage sent s0 p) {k : Nat} (hk : 0 < k)
    (hk2 : k ≤ p.bytes.length) : GoodPage sent s0 { p with bytes := p.bytes.take k } := by
  obtain ⟨h1, h2, h3, h4⟩ := hg
  have hl : (p.bytes.take k).length = k := by rw [List.length_take]; omega
  refine ⟨h1, ?_, ?_, ?_⟩
  · intro h; have h : p.bytes.take k = [] := h; rw [h] at hl; simp at hl; omega
  · show p.seq - s0 + ((p.bytes.take k).length : Nat) ≤ _
    rw [hl]; omega
  · show p.bytes.take k = _
    apply List.prefix_iff_eq_take.mp
    exact (List.take_prefix k p.bytes).trans (List.prefix_iff_eq_take.mpr h4)

theorem goodPage_drop {sent : List α} {s0 : Int} {p : Page α} (hg : GoodPage sent s0 p) {k : Int} (hk : 0 ≤ k)
    (hk2 : k < p.bytes.length) :
    GoodPage sent s0 { p with bytes := p.bytes.drop k.toNat, seq := p.seq + k } := by
  obtain ⟨h1, h2, h3, h4⟩ := hg
  have hl : (p.bytes.drop k.toNat).length = p.bytes.length - k.toNat := List.length_drop
  refine ⟨?_, ?_, ?_, ?_⟩
  · show s0 ≤ p.seq + k; omega
  · intro h; have h : p.bytes.drop k.toNat = [] := h; rw [h] at hl; simp at hl; omega
  · show p.seq + k - s0 + ((p.bytes.drop k.toNat).length : Nat) ≤ _
    rw [hl]; omega
  · show p.bytes.drop k.toNat = (sent.drop (p.seq + k - s0).toNat).take (p.bytes.drop k.toNat).length
    rw [hl]
    have e : (p.seq + k - s0).toNat = (p.seq - s0).toNat + k.toNat := by omega
    rw [e, ← List.drop_drop, ← List.drop_take, ← h4]

theorem coLoop_stop {sent : List α} {s0 lo hi s t : Int} (hw : NoWrap lo hi) (hlo : lo ≤ s0)
    (hhi : s0 + sent.length ≤ hi) (hst : s ≤ t) (ht : t ≤ s0 + sent.length)
    (curs right : List (Page α)) (bytes : List α) (fault : Bool)
    (hok : ∀ p ∈ curs, GoodPage sent s0 p) (hend : ∀ p ∈ curs, pEnd p ≤ s) :
    coLoop s t curs right bytes fault = ⟨curs, right, bytes, fault⟩ := by
  cases curs with
  | nil => rfl
  | cons cur prev =>
    obtain ⟨g1, g2, g3, g4⟩ := hok cur (by simp)
    have he := hend cur (by simp)
    have hpos : 0 < cur.bytes.length := List.length_pos_iff.mpr g2
    unfold pEnd at he
    have hd1 : seqDifference t cur.seq = cur.seq - t := seqDifference_exact hw (by omega) (by omega)
    have ha : seqAdd cur.seq cur.bytes.length = cur.seq + cur.bytes.length := seqAdd_exact hw (by omega)
    have hd2 : seqDifference s (cur.seq + cur.bytes.length) = cur.seq + cur.bytes.length - s :=
      seqDifference_exact hw (by omega) (by omega)
    unfold coLoop
    simp only [hd1, ha, hd2]
    rw [if_neg (by omega), if_pos (by omega)]


theorem helper3 {P A N : Prop} (h : A → N) : (P ∧ ¬N) ↔ ((P ∨ A) ∧ ¬N) := by
  constructor
  · rintro ⟨h1, h2⟩; exact ⟨Or.inl h1, h2⟩
  · rintro ⟨h1 | h1, h2⟩
    · exact ⟨h1, h2⟩
    · exact absurd (h h1) h2

theorem helper2 {P A' A N : Prop} (hP : P → ¬N) (h : A' ↔ (A ∧ ¬N)) : (P ∨ A') ↔ ((P ∨ A) ∧ ¬N) := by
  constructor
  · rintro (h1 | h1)
    · exact ⟨Or.inl h1, hP h1⟩
    · exact ⟨Or.inr (h.mp h1).1, (h.mp h1).2⟩
  · rintro ⟨h1 | h1, h2⟩
    · exact Or.inl h1
    · exact Or.inr (h.mpr ⟨h1, h2⟩)

theorem helper4 {P A B N : Prop} (h : ¬N → (A ↔ B)) : ((P ∨ A) ∧ ¬N) ↔ ((P ∨ B) ∧ ¬N) := by
  constructor
  · rintro ⟨h1 | h1, h2⟩
    · exact ⟨Or.inl h1, h2⟩
    · exact ⟨Or.inr ((h h2).mp h1), h2⟩
  · rintro ⟨h1 | h1, h2⟩
    · exact ⟨Or.inl h1, h2⟩
    · exact ⟨Or.inr ((h h2).mpr h1), h2⟩

def LoopPost (sent : List α) (s0 s t : Int) (bytes : List α) (O curs : List (Page α)) (r : CoState α) : Prop :=
  r.fault = false ∧
  ((r.bytes = bytes ∧ SortedPages (r.left.reverse ++ r.right) ∧ PagesOK sent s0 (r.left.reverse ++ r.right) ∧
     (∀ p ∈ r.left, pEnd p ≤ s) ∧ (∀ p ∈ r.right, t ≤ p.seq) ∧
     ∀ i, covP (r.left.reverse ++ r.right) i ↔ (covP O i ∧ ¬ (s ≤ i ∧ i < t)))
   ∨ (r.bytes = [] ∧ r.left.reverse ++ r.right = O ∧ ∃ p ∈ curs, p.seq ≤ s ∧ t ≤ pEnd p))

theorem loopPost_mono {sent : List α} {s0 s t : Int} {bytes : List α} {O prev : List (Page α)} {cur : Page α}
    {r : CoState α} (h : LoopPost sent s0 s t bytes O prev r) : LoopPost sent s0 s t bytes O (cur :: prev) r := by
  obtain ⟨hf, hB | ⟨c1, c2, p, hp, c3⟩⟩ := h
  · exact ⟨hf, Or.inl hB⟩
  · exact ⟨hf, Or.inr ⟨c1, c2, p, List.mem_cons_of_mem _ hp, c3⟩⟩

theorem pagesOK_mid {sent : List α} {s0 : Int} {X R : List (Page α)} {c : Page α}
    (h : PagesOK sent s0 (X ++ R)) (hc : GoodPage sent s0 c ∧ StopOK sent s0 c) : PagesOK sent s0 (X ++ c :: R) := by
  intro p hp
  rcases List.mem_append.mp hp with h1 | h1
  · exact h p (List.mem_append_left _ h1)
  · rcases List.mem_cons.mp h1 with rfl | h1
    · exact hc
    · exact h p (List.mem_append_right _ h1)

theorem coLoop_spec {sent : List α} {s0 lo hi s t : Int} {bytes : List α} (hw : NoWrap lo hi) (hlo : lo ≤ s0)
    (hhi : s0 + sent.length ≤ hi) (hs : s0 ≤ s) (ht : t = s + bytes.length)
    (hlen : s - s0 + bytes.length ≤ sent.length)
    (hb : bytes = (sent.drop (s - s0).toNat).take bytes.length) :
    ∀ (curs right : List (Page α)), SortedPages (curs.reverse ++ right) → PagesOK sent s0 (curs.reverse ++ right) →
      (∀ p ∈ right, t ≤ p.seq) →
      LoopPost sent s0 s t bytes (curs.reverse ++ right) curs (coLoop s t curs right bytes false) := by
  intro curs
  induction curs with
  | nil =>
    intro right hS hO hR
    refine ⟨rfl, Or.inl ⟨rfl, hS, hO, by simp [coLoop], hR, ?_⟩⟩
    intro i
    constructor
    · intro h; exact ⟨h, covP_outside (A := []) (by simp) hR h⟩
    · exact fun h => h.1
  | cons cur prev ih =>
    intro right hS hO hR
    have eO : (cur :: prev).reverse ++ right = prev.reverse ++ cur :: right := by simp
    rw [eO] at hS hO ⊢
    obtain ⟨hS', hX, hRc⟩ := (sorted_mid _ _ _).mp hS
    obtain ⟨⟨g1, g2, g3, g4⟩, gstop⟩ := hO cur (by simp)
    have hO' : PagesOK sent s0 (prev.reverse ++ right) := fun p hp => hO p (by
      rcases List.mem_append.mp hp with h | h
      · exact List.mem_append_left _ h
      · exact List.mem_append_right _ (List.mem_cons_of_mem _ h))
    have hpos : 0 < cur.bytes.length := List.length_pos_iff.mpr g2
    have hprev : ∀ p ∈ prev, pEnd p ≤ cur.seq := fun p hp => hX p (List.mem_reverse.mpr hp)
    have hd1 : seqDifference t cur.seq = cur.seq - t := seqDifference_exact hw (by omega) (by omega)
    have ha : seqAdd cur.seq cur.bytes.length = cur.seq + cur.bytes.length := seqAdd_exact hw (by omega)
    have hd2 : seqDifference s (cur.seq + cur.bytes.length) = cur.seq + cur.bytes.length - s :=
      seqDifference_exact hw (by omega) (by omega)
    have hd3 : seqDifference s cur.seq = cur.seq - s := seqDifference_exact hw (by omega) (by omega)
    have hd4 : seqDifference t (cur.seq + cur.bytes.length) = cur.seq + cur.bytes.length - t :=
      seqDifference_exact hw (by omega) (by omega)
    unfold coLoop
    simp only [hd1, ha, hd2, hd3, hd4, Bool.and_eq_true, decide_eq_true_eq, Bool.false_or]
    by_cases c5 : cur.seq - t > 0
    · rw [if_pos c5]
      refine loopPost_mono (ih (cur :: right) hS hO ?_)
      intro p hp
      rcases List.mem_cons.mp hp with rfl | hp
      · omega
      · exact hR p hp
    rw [if_neg c5]
    by_cases c1 : cur.seq + cur.bytes.length - s ≤ 0
    · rw [if_pos c1]
      have hL : ∀ p ∈ cur :: prev, pEnd p ≤ s := by
        intro p hp
        rcases List.mem_cons.mp hp with rfl | hp
        · unfold pEnd; omega
        · have := hprev p hp; omega
      refine ⟨rfl, Or.inl ⟨rfl, ?_, ?_, hL, hR, ?_⟩⟩
      · show SortedPages ((cur :: prev).reverse ++ right)
        rw [eO]; exact hS
      · show PagesOK sent s0 ((cur :: prev).reverse ++ right)
        rw [eO]; exact hO
      · intro i
        show covP ((cur :: prev).reverse ++ right) i ↔ _
        constructor
        · intro h; exact ⟨eO ▸ h, covP_outside (fun p hp => hL p (List.mem_reverse.mp hp)) hR h⟩
        · intro h; rw [eO]; exact h.1
    rw [if_neg c1]
    by_cases c3 : cur.seq + cur.bytes.length - t ≤ 0 ∧ cur.seq - s ≥ 0
    · rw [if_pos c3]
      obtain ⟨hf, ⟨b1, b2, b3, b4, b5, b6⟩ | ⟨_, _, p, hp, _, h⟩⟩ := ih right hS' hO' hR
      · refine ⟨hf, Or.inl ⟨b1, b2, b3, b4, b5, ?_⟩⟩
        intro i
        rw [b6 i, covP_mid]
        apply helper3
        unfold pEnd; omega
      · have := hprev p hp; omega
    rw [if_neg c3]
    by_cases c2 : cur.seq + cur.bytes.length - t < 0 ∧ cur.seq + cur.bytes.length - s > 0
    · rw [if_pos c2]
      have hbad : (decide (-(cur.seq - s) < 0) || decide ((cur.bytes.length : Int) < -(cur.seq - s))) = false := by
        rw [Bool.or_eq_false_iff, decide_eq_false_iff_not, decide_eq_false_iff_not]; omega
      simp only [sliceTo, hbad]
      have hk : (cur.bytes.take (-(cur.seq - s)).toNat).length = (-(cur.seq - s)).toNat := by
        rw [List.length_take]; omega
      have gp := goodPage_take ⟨g1, g2, g3, g4⟩ (k := (-(cur.seq - s)).toNat) (by omega) (by omega)
      have hL : ∀ p ∈ ({ cur with bytes := cur.bytes.take (-(cur.seq - s)).toNat } : Page α) :: prev, pEnd p ≤ s := by
        intro p hp
        rcases List.mem_cons.mp hp with rfl | hp
        · simp only [pEnd, hk]; omega
        · have := hprev p hp; omega
      refine ⟨rfl, Or.inl ⟨rfl, ?_, ?_, hL, hR, ?_⟩⟩
      · show SortedPages ((_ :: prev).reverse ++ right)
        rw [List.reverse_cons, List.append_assoc]
        refine (sorted_mid _ _ _).mpr ⟨hS', hX, ?_⟩
        intro q hq
        have := hRc q hq
        simp only [pEnd, hk] at this ⊢; omega
      · show PagesOK sent s0 ((_ :: prev).reverse ++ right)
        rw [List.reverse_cons, List.append_assoc]
        refine pagesOK_mid hO' ⟨gp, ?_⟩
        intro hstop
        have := gstop hstop
        unfold pEnd at this; omega
      · intro i
        show covP ((_ :: prev).reverse ++ right) i ↔ _
        rw [List.reverse_cons, List.append_assoc]
        show covP (prev.reverse ++ _ :: right) i ↔ _
        rw [covP_mid, covP_mid]
        apply helper2
        · exact covP_outside (fun p hp => by have := hprev p (List.mem_reverse.mp hp); omega) hR
        · simp only [pEnd, hk]; omega
    rw [if_neg c2]
    by_cases c4 : cur.seq - s > 0 ∧ cur.seq - t < 0
    · rw [if_pos c4]
      have hbad : (decide (-(cur.seq - t) < 0) || decide ((cur.bytes.length : Int) < -(cur.seq - t))) = false := by
        rw [Bool.or_eq_false_iff, decide_eq_false_iff_not, decide_eq_false_iff_not]; omega
      have hak : seqAdd cur.seq (-(cur.seq - t)) = t := by
        rw [seqAdd_exact hw (by omega)]; omega
      simp only [sliceFrom, hbad, hak]
      have hk : (cur.bytes.drop (-(cur.seq - t)).toNat).length = cur.bytes.length - (-(cur.seq - t)).toNat :=
        List.length_drop
      have gp := goodPage_drop ⟨g1, g2, g3, g4⟩ (k := -(cur.seq - t)) (by omega) (by omega)
      have e : cur.seq + -(cur.seq - t) = t := by omega
      rw [e] at gp
      have hS2 : SortedPages (prev.reverse ++
          ({ cur with bytes := cur.bytes.drop (-(cur.seq - t)).toNat, seq := t } : Page α) :: right) := by
        refine (sorted_mid _ _ _).mpr ⟨hS', ?_, ?_⟩
        · intro p hp; have := hX p hp; show pEnd p ≤ t; omega
        · intro q hq
          have := hRc q hq
          simp only [pEnd, hk] at this ⊢; omega
      have hO2 : PagesOK sent s0 (prev.reverse ++
          ({ cur with bytes := cur.bytes.drop (-(cur.seq - t)).toNat, seq := t } : Page α) :: right) := by
        refine pagesOK_mid hO' ⟨gp, ?_⟩
        intro hstop
        have := gstop hstop
        simp only [pEnd, hk] at this ⊢; omega
      obtain ⟨hf, ⟨b1, b2, b3, b4, b5, b6⟩ | ⟨_, _, p, hp, _, h⟩⟩ := ih _ hS2 hO2 (by
        intro p hp
        rcases List.mem_cons.mp hp with rfl | hp
        · exact Int.le_refl _
        · exact hR p hp)
      · refine ⟨hf, Or.inl ⟨b1, b2, b3, b4, b5, ?_⟩⟩
        intro i
        rw [b6 i, covP_mid, covP_mid]
        apply helper4
        intro hN
        simp only [pEnd, hk]; omega
      · have := hprev p hp; omega
    rw [if_neg c4]
    by_cases c6 : cur.seq + cur.bytes.length - t ≥ 0 ∧ cur.seq - s ≤ 0
    · rw [if_pos c6]
      have hbad : (decide (-(cur.seq - s) < 0) ||
          decide ((cur.bytes.length : Int) < -(cur.seq - s) + bytes.length)) = false := by
        rw [Bool.or_eq_false_iff, decide_eq_false_iff_not, decide_eq_false_iff_not]; omega
      simp only [hbad, Bool.false_eq_true, if_false]
      have hsl : cur.bytes.take (-(cur.seq - s)).toNat ++ bytes ++
          cur.bytes.drop ((-(cur.seq - s)).toNat + bytes.length) = cur.bytes := by
        refine slice_eq (D := sent.drop (cur.seq - s0).toNat) g4 ?_ rfl (by omega)
        rw [List.drop_drop]
        have : (cur.seq - s0).toNat + (-(cur.seq - s)).toNat = (s - s0).toNat := by omega
        rw [this]; exact hb
      rw [hsl]
      have e : (⟨cur.seq, cur.bytes, cur.stop⟩ : Page α) = cur := rfl
      rw [e, coLoop_stop hw hlo hhi (by omega) (by omega) prev (cur :: right) [] false
        (fun p hp => (hO' p (List.mem_append_left _ (List.mem_reverse.mpr hp))).1)
        (fun p hp => by have := hprev p hp; omega)]
      exact ⟨rfl, Or.inr ⟨rfl, rfl, cur, by simp, by omega, by unfold pEnd; omega⟩⟩
    rw [if_neg c6]
    refine loopPost_mono (ih (cur :: right) hS hO ?_)
    intro p hp
    rcases List.mem_cons.mp hp with rfl | hp
    · omega
    · exact hR p hp

theorem single_spec {sent : List α} {s0 : Int} (stop : Bool) (seq : Int) (bytes : List α) (h1 : bytes ≠ [])
    (h2 : s0 ≤ seq) (h3 : seq - s0 + bytes.length ≤ sent.length)
    (h4 : bytes = (sent.drop (seq - s0).toNat).take bytes.length)
    (h5 : stop = true → seq + bytes.length = s0 + sent.length) :
    PagesOK sent s0 [⟨seq, bytes, stop⟩] ∧ SortedPages [(⟨seq, bytes, stop⟩ : Page α)] ∧
    (∀ p ∈ [(⟨seq, bytes, stop⟩ : Page α)], seq ≤ p.seq ∧ pEnd p ≤ seq + bytes.length) ∧
    (∀ i, covP [(⟨seq, bytes, stop⟩ : Page α)] i ↔ (seq ≤ i ∧ i < seq + bytes.length)) := by
  refine ⟨?_, List.pairwise_singleton _ _, ?_, ?_⟩
  · intro p hp; rw [List.mem_singleton] at hp; subst hp; exact ⟨⟨h2, h1, h3, h4⟩, fun hs => h5 hs⟩
  · intro p hp; rw [List.mem_singleton] at hp; subst hp; exact ⟨Int.le_refl _, Int.le_refl _⟩
  · intro i; simp [covP, pEnd]

theorem toPagesAux_spec {sent : List α} {s0 lo hi : Int} (hw : NoWrap lo hi) (hlo : lo ≤ s0)
    (hhi : s0 + sent.length ≤ hi) (stop : Bool) :
    ∀ (fuel : Nat) (seq : Int) (bytes : List α), bytes ≠ [] → s0 ≤ seq → seq - s0 + bytes.length ≤ sent.length →
      bytes = (sent.drop (seq - s0).toNat).take bytes.length →
      (stop = true → seq + bytes.length = s0 + sent.length) →
      PagesOK sent s0 (toPagesAux fuel seq bytes stop) ∧ SortedPages (toPagesAux fuel seq bytes stop) ∧
      (∀ p ∈ toPagesAux fuel seq bytes stop, seq ≤ p.seq ∧ pEnd p ≤ seq + bytes.length) ∧
      (∀ i, covP (toPagesAux fuel seq bytes stop) i ↔ (seq ≤ i ∧ i < seq + bytes.length)) := by
  intro fuel
  induction fuel with
  | zero =>
    intro seq bytes h1 h2 h3 h4 h5
    exact single_spec stop seq bytes h1 h2 h3 h4 h5
  | succ fuel ih =>
    intro seq bytes h1 h2 h3 h4 h5
    have hpos : 0 < bytes.length := List.length_pos_iff.mpr h1
    unfold toPagesAux
    by_cases hE : (bytes.drop (min bytes.length pageBytes)).isEmpty = true
    · simp only [hE, if_true]
      have hle : bytes.length ≤ min bytes.length pageBytes := by
        rw [List.isEmpty_iff, List.drop_eq_nil_iff] at hE; exact hE
      rw [List.take_of_length_le hle]
      exact single_spec stop seq bytes h1 h2 h3 h4 h5
    · simp only [hE, Bool.false_eq_true, if_false]
      have hgt : ¬ bytes.length ≤ min bytes.length pageBytes := by
        intro h; apply hE; rw [List.isEmpty_iff, List.drop_eq_nil_iff]; exact h
      have hmin : min bytes.length pageBytes = 1900 := by unfold pageBytes at *; omega
      have hlen : 1900 < bytes.length := by unfold pageBytes at *; omega
      have hadd : seqAdd seq ((1900 : Nat) : Int) = seq + 1900 := seqAdd_exact hw (by omega)
      simp only [hmin, hadd]
      have gt := goodPage_take (p := ⟨seq, bytes, false⟩) ⟨h2, h1, h3, h4⟩ (k := 1900) (by omega) (by show 1900 ≤ bytes.length; omega)
      have gd : GoodPage sent s0 ⟨seq + 1900, bytes.drop 1900, stop⟩ :=
        goodPage_drop (p := ⟨seq, bytes, stop⟩) ⟨h2, h1, h3, h4⟩ (k := 1900) (by omega)
          (by show (1900 : Int) < bytes.length; omega)
      have hdl : (bytes.drop 1900).length = bytes.length - 1900 := List.length_drop
      have htl : (bytes.take 1900).length = 1900 := by rw [List.length_take]; omega
      obtain ⟨i1, i2, i3, i4⟩ := ih (seq + 1900) (bytes.drop 1900) gd.2.1 gd.1 gd.2.2.1 gd.2.2.2
        (by intro hs; have := h5 hs; rw [hdl]; omega)
      refine ⟨?_, ?_, ?_, ?_⟩
      · intro p hp
        rcases List.mem_cons.mp hp with rfl | hp
        · refine ⟨gt, ?_⟩
          show (false = true) → _
          intro h; cases h
        · exact i1 p hp
      · refine List.pairwise_cons.mpr ⟨?_, i2⟩
        intro q hq
        have := (i3 q hq).1
        simp only [pEnd, htl]; omega
      · intro p hp
        rcases List.mem_cons.mp hp with rfl | hp
        · simp only [pEnd, htl]; omega
        · have := i3 p hp; rw [hdl] at this; omega
      · intro i
        rw [covP_cons, i4 i, hdl]
        simp only [pEnd, htl]; omega

theorem sorted_three {A T R : List (Page α)} {s t : Int} (hAR : SortedPages (A ++ R))
    (hT : SortedPages T) (hA : ∀ p ∈ A, pEnd p ≤ s) (hTb : ∀ p ∈ T, s ≤ p.seq ∧ pEnd p ≤ t)
    (hR : ∀ p ∈ R, t ≤ p.seq) : SortedPages (A ++ T ++ R) := by
  unfold SortedPages at *
  rw [List.pairwise_append] at hAR ⊢
  rw [List.pairwise_append]
  refine ⟨⟨hAR.1, hT, ?_⟩, hAR.2.1, ?_⟩
  · intro a ha b hb; have := hA a ha; have := (hTb b hb).1; omega
  · intro a ha b hb
    rcases List.mem_append.mp ha with ha | ha
    · exact hAR.2.2 a ha b hb
    · have := (hTb a ha).2; have := hR b hb; omega

theorem helper5 {a r o N : Prop} (h : (a ∨ r) ↔ (o ∧ ¬N)) : ((a ∨ N) ∨ r) ↔ (o ∨ N) := by
  by_cases hN : N
  · exact ⟨fun _ => Or.inr hN, fun _ => Or.inl (Or.inr hN)⟩
  · constructor
    · rintro ((h1 | h1) | h1)
      · exact Or.inl (h.mp (Or.inl h1)).1
      · exact Or.inr h1
      · exact Or.inl (h.mp (Or.inr h1)).1
    · rintro (h1 | h1)
      · rcases h.mpr ⟨h1, hN⟩ with h2 | h2
        · exact Or.inl (Or.inl h2)
        · exact Or.inr h2
      · exact absurd h1 hN

theorem helper6 {o N : Prop} (hN : ¬N) : (o ∧ ¬N) ↔ (o ∨ N) :=
  ⟨fun h => Or.inl h.1, fun h => h.elim (fun h => ⟨h, hN⟩) (fun h => absurd h hN)⟩

theorem checkOverlap_spec {α : Type} : CheckOverlapSpec α := by
  intro sent s0 lo hi h lp queue hw hlo hhi hfault hS hO gl hq
  obtain ⟨l1, l2, l3, l4⟩ := gl
  have hst : seqAdd lp.seq lp.bytes.length = lp.seq + lp.bytes.length := seqAdd_exact hw (by omega)
  have L := coLoop_spec hw hlo hhi l1 rfl l2 l3 h.pages.reverse []
    (by rw [List.reverse_reverse, List.append_nil]; exact hS)
    (by rw [List.reverse_reverse, List.append_nil]; exact hO) (by simp)
  rw [List.reverse_reverse, List.append_nil] at L
  unfold checkOverlap
  simp only [hst, hfault]
  generalize coLoop lp.seq (lp.seq + lp.bytes.length) h.pages.reverse [] lp.bytes false = r at L ⊢
  obtain ⟨hf, ⟨b1, b2, b3, b4, b5, b6⟩ | ⟨c1, c2, p, hp, c3, c4⟩⟩ := L
  · by_cases hc : (!r.bytes.isEmpty && queue) = true
    · rw [if_pos hc]
      rw [b1] at hc ⊢
      have hne : lp.bytes ≠ [] := by
        intro h0; rw [h0] at hc; simp at hc
      have hqt : queue = true := by
        rw [Bool.and_eq_true] at hc; exact hc.2
      obtain ⟨t1, t2, t3, t4⟩ := toPagesAux_spec hw hlo hhi lp.stop lp.bytes.length lp.seq lp.bytes hne l1 l2 l3 l4
      have hA : ∀ p ∈ r.left.reverse, pEnd p ≤ lp.seq := fun p hp => b4 p (List.mem_reverse.mp hp)
      refine ⟨hf, rfl, rfl, sorted_three b2 t2 hA t3 b5, ?_, rfl, rfl, rfl, ?_, ?_⟩
      · intro p hp
        rcases List.mem_append.mp hp with hp | hp
        · rcases List.mem_append.mp hp with hp | hp
          · exact b3 p (List.mem_append_left _ hp)
          · exact t1 p hp
        · exact b3 p (List.mem_append_right _ hp)
      · intro _ i
        show covP (r.left.reverse ++ toPagesAux lp.bytes.length lp.seq lp.bytes lp.stop ++ r.right) i ↔ _
        rw [covP_append, covP_append, t4 i]
        apply helper5
        rw [← covP_append]; exact b6 i
      · intro hqf; rw [hqt] at hqf; cases hqf
    · rw [if_neg hc]
      refine ⟨hf, rfl, rfl, b2, b3, rfl, rfl, rfl, ?_, ?_⟩
      · intro hqt i
        show covP (r.left.reverse ++ r.right) i ↔ _
        rw [b6 i]
        apply helper6
        have h0 : lp.bytes = [] := by
          rw [hqt, b1] at hc
          cases hb : lp.bytes with
          | nil => rfl
          | cons x xs => rw [hb] at hc; simp at hc
        rw [h0]; simp
      · intro _
        exact ⟨b1, b6⟩
  · have hc : ¬ (!r.bytes.isEmpty && queue) = true := by rw [c1]; simp
    rw [if_neg hc, c2]
    have hp' : p ∈ h.pages := List.mem_reverse.mp hp
    refine ⟨hf, rfl, rfl, hS, hO, rfl, rfl, rfl, ?_, ?_⟩
    · intro _ i
      show covP h.pages i ↔ _
      constructor
      · exact Or.inl
      · rintro (h1 | h1)
        · exact h1
        · exact ⟨p, hp', by omega, by omega⟩
    · intro hqf
      have h0 : lp.bytes = [] := by
        cases hb : lp.bytes with
        | nil => rfl
        | cons x xs =>
          have := (hq hqf p hp').2 (by rw [hb]; simp)
          omega
      refine ⟨by show r.bytes = lp.bytes; rw [c1, h0], ?_⟩
      intro i
      show covP h.pages i ↔ _
      rw [h0]
      constructor
      · intro h1; exact ⟨h1, by simp⟩
      · exact fun h1 => h1.1

end Proofs.C19Gp
