import Proofs.C19GpDefs
import Proofs.C19Reasm
/-! C19 — run-level theorems about the transliterated gopacket assembler (FqModel/Gopacket.lean), under the
    explicit hypothesis `CheckOverlapSpec α` (proved in Proofs/C19GpOverlap.lean). -/
namespace Proofs.C19Gp
open FqModel.Reasm FqModel.Gopacket
variable {α : Type}

theorem sl_append (sent : List α) (a n m : Nat) :
    (sent.drop a).take n ++ (sent.drop (a+n)).take m = (sent.drop a).take (n+m) := by
  rw [List.take_add, List.drop_drop]

/-- the window hypothesis of the run theorems -/
structure Win (sent : List α) (s0 lo hi : Int) : Prop where
  nw : NoWrap lo hi
  lo_le : lo ≤ s0 - 1
  le_hi : s0 + sent.length + 1 ≤ hi

theorem Win.sd {sent : List α} {s0 lo hi : Int} (w : Win sent s0 lo hi) {x y : Int}
    (hx : s0 - 1 ≤ x ∧ x ≤ s0 + sent.length + 1) (hy : s0 - 1 ≤ y ∧ y ≤ s0 + sent.length + 1) :
    seqDifference x y = y - x :=
  seqDifference_exact w.nw ⟨by have := w.lo_le; omega, by have := w.le_hi; omega⟩
    ⟨by have := w.lo_le; omega, by have := w.le_hi; omega⟩

theorem Win.sa {sent : List α} {s0 lo hi : Int} (w : Win sent s0 lo hi) {x n : Int}
    (hx : s0 - 1 ≤ x + n ∧ x + n ≤ s0 + sent.length + 1) : seqAdd x n = x + n :=
  seqAdd_exact w.nw ⟨by have := w.lo_le; omega, by have := w.le_hi; omega⟩

theorem Win.s0_pos {sent : List α} {s0 lo hi : Int} (w : Win sent s0 lo hi) : 1 ≤ s0 := by
  have := w.lo_le; have := w.nw.1; omega

theorem addContiguous_cons_eq (p : Page α) (rest : List (Page α)) (last : Int)
    (h : seqDifference last p.seq = 0) :
    addContiguous (p :: rest) last =
      (p :: (addContiguous rest (seqAdd last p.bytes.length)).1,
       (addContiguous rest (seqAdd last p.bytes.length)).2.1,
       (addContiguous rest (seqAdd last p.bytes.length)).2.2) := by
  simp [addContiguous, h]

theorem addContiguous_cons_ne (p : Page α) (rest : List (Page α)) (last : Int)
    (h : seqDifference last p.seq ≠ 0) :
    addContiguous (p :: rest) last = ([], p :: rest, last) := by
  simp [addContiguous, h]

theorem addContiguous_spec {sent : List α} {s0 lo hi : Int} (w : Win sent s0 lo hi) :
    ∀ (ps : List (Page α)) (last : Int), SortedPages ps → PagesOK sent s0 ps → s0 ≤ last →
      last ≤ s0 + sent.length → (∀ p ∈ ps, last ≤ p.seq) →
      ps = (addContiguous ps last).1 ++ (addContiguous ps last).2.1 ∧
      last ≤ (addContiguous ps last).2.2 ∧ (addContiguous ps last).2.2 ≤ s0 + sent.length ∧
      ((addContiguous ps last).1.map (·.bytes)).flatten =
        (sent.drop (last - s0).toNat).take ((addContiguous ps last).2.2 - last).toNat ∧
      (∀ p ∈ (addContiguous ps last).2.1, (addContiguous ps last).2.2 < p.seq) ∧
      (∀ p ∈ (addContiguous ps last).1, pEnd p ≤ (addContiguous ps last).2.2) ∧
      (∀ i, last ≤ i → i < (addContiguous ps last).2.2 → covP ps i) ∧
      (∀ p, (addContiguous ps last).1.getLast? = some p → p.stop = true →
        (addContiguous ps last).2.2 = s0 + sent.length) := by
  intro ps
  induction ps with
  | nil =>
    intro last _ _ h1 h2 _
    refine ⟨by simp [addContiguous], by simp [addContiguous], by simpa [addContiguous] using h2,
      by simp [addContiguous], by simp [addContiguous], by simp [addContiguous], ?_, by simp [addContiguous]⟩
    intro i hi1 hi2
    simp only [addContiguous] at hi2
    omega
  | cons p rest ih =>
    intro last hs hok h1 h2 hge
    have hp := hok p (by simp)
    obtain ⟨⟨g1, g2, g3, g4⟩, gstop⟩ := hp
    have hpl := hge p (by simp)
    have hlen : 0 < p.bytes.length := List.length_pos_iff.mpr g2
    have hd : seqDifference last p.seq = p.seq - last := w.sd (by omega) (by omega)
    by_cases he : p.seq = last
    · have h0 : seqDifference last p.seq = 0 := by rw [hd]; omega
      have hadd : seqAdd last p.bytes.length = last + p.bytes.length := w.sa (by omega)
      rw [addContiguous_cons_eq p rest last h0, hadd]
      dsimp only
      rw [he] at g4
      have hs' : SortedPages rest := (List.pairwise_cons.mp hs).2
      have hrel := (List.pairwise_cons.mp hs).1
      have hok' : PagesOK sent s0 rest := fun q hq => hok q (by simp [hq])
      obtain ⟨i1, i2, i3, i4, i5, i6, i7, i8⟩ := ih (last + p.bytes.length) hs' hok' (by omega) (by omega)
        (fun q hq => by have := hrel q hq; unfold pEnd at this; omega)
      refine ⟨?_, by omega, i3, ?_, i5, ?_, ?_, ?_⟩
      · simp only [List.cons_append]; rw [← i1]
      · simp only [List.map_cons, List.flatten_cons]
        rw [i4]
        have e1 : (last + ↑p.bytes.length - s0).toNat = (last - s0).toNat + p.bytes.length := by omega
        have e2 : ((addContiguous rest (last + ↑p.bytes.length)).2.2 - last).toNat =
            p.bytes.length + ((addContiguous rest (last + ↑p.bytes.length)).2.2 - (last + ↑p.bytes.length)).toNat := by
          omega
        rw [e1, e2, ← sl_append]
        congr 1
      · intro q hq
        rcases List.mem_cons.mp hq with rfl | hq
        · unfold pEnd; omega
        · exact i6 q hq
      · intro i hi1 hi2
        by_cases hlt : i < last + p.bytes.length
        · exact ⟨p, by simp, by omega, by unfold pEnd; omega⟩
        · obtain ⟨q, hq, hq1, hq2⟩ := i7 i (by omega) hi2
          exact ⟨q, by simp [hq], hq1, hq2⟩
      · intro q hq hstop
        cases hr : (addContiguous rest (last + ↑p.bytes.length)).1 with
        | nil =>
          rw [hr] at hq
          simp at hq
          subst hq
          have := gstop hstop
          unfold pEnd at this
          omega
        | cons x xs =>
          rw [hr] at hq
          rw [List.getLast?_cons_cons] at hq
          rw [hr] at i8
          exact i8 q hq hstop
    · have h0 : seqDifference last p.seq ≠ 0 := by rw [hd]; omega
      rw [addContiguous_cons_ne p rest last h0]
      dsimp only
      have hrel := (List.pairwise_cons.mp hs).1
      refine ⟨by simp, by omega, h2, by simp, ?_, by simp, ?_, by simp⟩
      · intro q hq
        rcases List.mem_cons.mp hq with rfl | hq
        · omega
        · have := hrel q hq; unfold pEnd at this; omega
      · intro i hi1 hi2; omega

theorem overlapExisting_spec {sent : List α} {s0 lo hi : Int} (w : Win sent s0 lo hi) (h : Half α) (seq : Int)
    (bytes : List α) (n : Int) (hn : h.nextSeq = n) (h1 : s0 ≤ n) (h2 : n ≤ s0 + sent.length)
    (h3 : s0 - 1 ≤ seq) (h4 : seq ≤ n) :
    overlapExisting h seq bytes = (bytes.drop (min (n - seq) bytes.length).toNat, n, false) := by
  have hne : (h.nextSeq == invalidSequence) = false := by
    rw [hn]; have := w.s0_pos; simp [invalidSequence]; omega
  have hd : seqDifference seq n = n - seq := w.sd (by omega) (by omega)
  unfold overlapExisting
  rw [hne, hn, hd]
  simp only [Bool.false_eq_true, if_false]
  by_cases h0 : n - seq = 0
  · have : seq = n := by omega
    have e : (min 0 (bytes.length : Int)).toNat = 0 := by omega
    simp [this, e]
  · simp only [beq_iff_eq, h0, if_false]
    unfold sliceFrom
    by_cases hge : n - seq ≥ bytes.length
    · have e : min (n - seq) (bytes.length : Int) = bytes.length := by omega
      simp [hge, e]
    · have e : min (n - seq) (bytes.length : Int) = n - seq := by omega
      simp only [hge, if_false, e]
      have : (decide (n - seq < 0) || decide ((bytes.length : Int) < n - seq)) = false := by
        simp; omega
      rw [this]

theorem addContiguousTop_eq (ps : List (Page α)) (last : Int) (h : last ≠ -1) :
    addContiguousTop ps last = addContiguous ps last := by
  cases ps with
  | nil => simp [addContiguousTop, addContiguous]
  | cons p rest => simp [addContiguousTop, invalidSequence, h]

/-- a good non-empty page is covered at its first sequence number -/
theorem covP_seq {sent : List α} {s0 : Int} {ps : List (Page α)} (hok : PagesOK sent s0 ps) {p : Page α}
    (hp : p ∈ ps) : covP ps p.seq := by
  have := (hok p hp).1.2.1
  have : 0 < p.bytes.length := List.length_pos_iff.mpr this
  exact ⟨p, hp, by omega, by unfold pEnd; omega⟩

structure SendOut (sent : List α) (s0 : Int) (h : Half α) (fSeq : Int) (fLen : Nat) (fStop : Bool)
    (s : Half α × SGCall α × Int) : Prop where
  stopNil : h.pages = [] → s.2.1.stop = fStop
  le1 : fSeq + fLen ≤ s.2.2
  le2 : s.2.2 ≤ s0 + sent.length
  data : s.2.1.data = (sent.drop (fSeq - s0).toNat).take (s.2.2 - fSeq).toNat
  skip : s.2.1.skip = if h.nextSeq != invalidSequence then seqDifference h.nextSeq fSeq else -1
  split : ∃ taken, h.pages = taken ++ s.1.pages
  above : ∀ p ∈ s.1.pages, s.2.2 < p.seq
  cov : ∀ i, covP s.1.pages i ↔ covP h.pages i ∧ s.2.2 ≤ i
  filled : ∀ i, fSeq + fLen ≤ i → i < s.2.2 → covP h.pages i
  closed : s.1.closed = (h.closed || s.2.1.stop)
  stop : s.2.1.stop = true → s.2.2 = s0 + sent.length
  fault : s.1.fault = h.fault
  next : s.1.nextSeq = h.nextSeq

theorem sendToConnection_spec {sent : List α} {s0 lo hi : Int} (w : Win sent s0 lo hi) (s2c : Bool) (h : Half α)
    (fSeq : Int) (fBytes : List α) (fStart fStop : Bool)
    (hs : SortedPages h.pages) (hok : PagesOK sent s0 h.pages) (g1 : s0 ≤ fSeq)
    (g2 : fSeq + fBytes.length ≤ s0 + sent.length)
    (g3 : fBytes = (sent.drop (fSeq - s0).toNat).take fBytes.length)
    (g4 : fStop = true → fSeq + fBytes.length = s0 + sent.length)
    (g5 : ∀ p ∈ h.pages, fSeq + fBytes.length ≤ p.seq) :
    SendOut sent s0 h fSeq fBytes.length fStop (sendToConnection s2c h fSeq fBytes fStart fStop) := by
  have hadd : seqAdd fSeq fBytes.length = fSeq + fBytes.length := w.sa (by omega)
  have hne : fSeq + (fBytes.length : Int) ≠ -1 := by have := w.s0_pos; omega
  obtain ⟨a1, a2, a3, a4, a5, a6, a7, a8⟩ :=
    addContiguous_spec w h.pages (fSeq + fBytes.length) hs hok (by omega) g2 g5
  unfold sendToConnection
  simp only [hadd, addContiguousTop_eq _ _ hne]
  refine ⟨?_, a2, a3, ?_, rfl, ⟨_, a1⟩, a5, ?_, a7, rfl, ?_, rfl, rfl⟩
  · intro hnil
    simp [hnil, addContiguous]
  · rw [a4]
    have e1 : (fSeq + ↑fBytes.length - s0).toNat = (fSeq - s0).toNat + fBytes.length := by omega
    have e2 : ((addContiguous h.pages (fSeq + ↑fBytes.length)).2.2 - fSeq).toNat =
        fBytes.length + ((addContiguous h.pages (fSeq + ↑fBytes.length)).2.2 - (fSeq + ↑fBytes.length)).toNat := by
      omega
    rw [e1, e2, ← sl_append, ← g3]
  · intro i
    dsimp only
    constructor
    · rintro ⟨p, hp, hp1, hp2⟩
      have := a5 p hp
      refine ⟨⟨p, ?_, hp1, hp2⟩, by omega⟩
      rw [a1]; simp [hp]
    · rintro ⟨⟨p, hp, hp1, hp2⟩, hi⟩
      rw [a1] at hp
      rcases List.mem_append.mp hp with hp | hp
      · have := a6 p hp; omega
      · exact ⟨p, hp, hp1, hp2⟩
  · dsimp only
    cases hr : (addContiguous h.pages (fSeq + ↑fBytes.length)).1.getLast? with
    | none =>
      dsimp only
      intro hst
      have hnil : (addContiguous h.pages (fSeq + ↑fBytes.length)).1 = [] := by
        simpa using hr
      have := g4 hst
      have hfl := a4
      rw [hnil] at hfl
      -- nothing taken: new lastSeq ≥ last and all of the stream is used
      omega
    | some p =>
      dsimp only
      intro hst
      exact a8 p hr hst


def GoodPkt (sent : List α) (s0 : Int) (t : Pkt α) : Prop :=
  (t.syn = true → t.seq = s0 - 1 ∧ t.payload = []) ∧
  (t.syn = false → s0 ≤ t.seq ∧ t.seq - s0 + t.payload.length ≤ sent.length ∧
      t.payload = (sent.drop (t.seq - s0).toNat).take t.payload.length) ∧
  ((t.fin = true ∨ t.rst = true) → t.syn = false ∧ t.seq + t.payload.length = s0 + sent.length)

/-- the non-queueing tail of `assemble` (:978-735) -/
def deliverTail (s2c : Bool) (h : Half α) (t : Pkt α) (seq : Int) : Half α × Option (SGCall α) :=
  let stop := t.rst || t.fin
  let oe := overlapExisting h seq t.payload
  let h := { h with fault := h.fault || oe.2.2 }
  let r := checkOverlap h ⟨oe.1, t.syn, stop, oe.2.1⟩ false
  let h := r.1
  let lp := r.2
  if !lp.bytes.isEmpty || stop || t.syn then
    let s := sendToConnection s2c h lp.seq lp.bytes lp.start lp.stop
    let h := s.1
    let h := if s.2.2 != invalidSequence then { h with nextSeq := if t.fin then seqAdd s.2.2 1 else s.2.2 } else h
    (h, some s.2.1)
  else (h, none)

theorem assemble_reject (s2c : Bool) (h : Half α) (t : Pkt α) : assemble s2c h false t = (h, none) := by
  simp [assemble]

theorem assemble_closed (s2c : Bool) (h : Half α) (acc : Bool) (t : Pkt α) (hc : h.closed = true) :
    assemble s2c h acc t = (h, none) := by
  simp [assemble, hc]

theorem assemble_firstSyn (s2c : Bool) (h : Half α) (t : Pkt α) (hc : h.closed = false) (hn : h.nextSeq = -1)
    (hs : t.syn = true) :
    assemble s2c h true t = deliverTail s2c { h with nextSeq := seqAdd t.seq 1 } t (seqAdd t.seq 1) := by
  simp [assemble, deliverTail, hc, hn, hs, invalidSequence]

theorem assemble_queueNoSyn (s2c : Bool) (h : Half α) (t : Pkt α) (hc : h.closed = false) (hn : h.nextSeq = -1)
    (hs : t.syn = false) :
    assemble s2c h true t = ((checkOverlap h ⟨t.payload, t.syn, t.rst || t.fin, t.seq⟩ true).1, none) := by
  simp [assemble, hc, hn, hs, invalidSequence]

theorem assemble_queueAhead (s2c : Bool) (h : Half α) (t : Pkt α) (hc : h.closed = false) (hn : h.nextSeq ≠ -1)
    (hd : seqDifference h.nextSeq t.seq > 0) :
    assemble s2c h true t = ((checkOverlap h ⟨t.payload, t.syn, t.rst || t.fin, t.seq⟩ true).1, none) := by
  simp [assemble, hc, hn, hd, invalidSequence]

theorem assemble_deliver (s2c : Bool) (h : Half α) (t : Pkt α) (hc : h.closed = false) (hn : h.nextSeq ≠ -1)
    (hd : ¬ seqDifference h.nextSeq t.seq > 0) :
    assemble s2c h true t = deliverTail s2c h t t.seq := by
  simp [assemble, deliverTail, hc, hn, hd, invalidSequence]


theorem drop_slice (sent : List α) (a L k : Nat) :
    ((sent.drop a).take L).drop k = (sent.drop (a + k)).take (L - k) := by
  rw [List.drop_take, List.drop_drop]

def deliverCore (s2c : Bool) (t : Pkt α) (r : Half α × Live α) : Half α × Option (SGCall α) :=
  if !r.2.bytes.isEmpty || (t.rst || t.fin) || t.syn then
    let s := sendToConnection s2c r.1 r.2.seq r.2.bytes r.2.start r.2.stop
    let h := s.1
    let h := if s.2.2 != invalidSequence then { h with nextSeq := if t.fin then seqAdd s.2.2 1 else s.2.2 } else h
    (h, some s.2.1)
  else (r.1, none)

structure DeliverOut (sent : List α) (s0 : Int) (h : Half α) (n seq : Int) (len : Nat)
    (res : Half α × Option (SGCall α)) (n' : Int) : Prop where
  le1 : n ≤ n'
  le2 : n' ≤ s0 + sent.length
  le3 : seq + len ≤ n'
  fault : res.1.fault = false
  sorted : SortedPages res.1.pages
  ok : PagesOK sent s0 res.1.pages
  above : ∀ p ∈ res.1.pages, n' < p.seq
  cov : ∀ i, covP res.1.pages i ↔ covP h.pages i ∧ n' ≤ i
  filled : ∀ i, n ≤ i → i < n' → covP h.pages i ∨ (seq ≤ i ∧ i < seq + len)
  open_ : res.1.closed = false → res.1.nextSeq = n'
  closed_ : res.1.closed = true → n' = s0 + sent.length
  call : match res.2 with
    | none => n' = n
    | some c => c.skip = 0 ∧ c.data = (sent.drop (n - s0).toNat).take (n' - n).toNat

theorem deliverTail_spec (hco : CheckOverlapSpec α) {sent : List α} {s0 lo hi : Int} (w : Win sent s0 lo hi)
    (s2c : Bool) (h : Half α) (t : Pkt α) (seq n : Int)
    (hf : h.fault = false) (hs : SortedPages h.pages) (hok : PagesOK sent s0 h.pages) (hc : h.closed = false)
    (hn : h.nextSeq = n) (h1 : s0 ≤ n) (h2 : n ≤ s0 + sent.length) (h3 : s0 - 1 ≤ seq) (h4 : seq ≤ n)
    (hpay : t.payload = [] ∨ (s0 ≤ seq ∧ seq - s0 + t.payload.length ≤ sent.length ∧
      t.payload = (sent.drop (seq - s0).toNat).take t.payload.length))
    (hstop : (t.rst || t.fin) = true → seq + t.payload.length = s0 + sent.length)
    (hsynp : t.syn = true → t.payload = [])
    (hpg : ∀ p ∈ h.pages, n ≤ p.seq) (hstrict : t.syn = false → ∀ p ∈ h.pages, n < p.seq) :
    ∃ n', DeliverOut sent s0 h n seq t.payload.length (deliverTail s2c h t seq) n' := by
  have hoe := overlapExisting_spec w h seq t.payload n hn h1 h2 h3 h4
  have hpos := w.s0_pos
  obtain ⟨k, hk⟩ : ∃ k : Nat, k = (min (n - seq) t.payload.length).toNat := ⟨_, rfl⟩
  rw [← hk] at hoe
  have hk' : (k : Int) = min (n - seq) t.payload.length := by omega
  obtain ⟨b, hb⟩ : ∃ b, b = t.payload.drop k := ⟨_, rfl⟩
  rw [← hb] at hoe
  have hbl : (b.length : Int) = t.payload.length - k := by
    rw [hb, List.length_drop]; omega
  have hbnil : b ≠ [] → t.payload ≠ [] := by
    intro h hp; rw [hp] at hb; simp at hb; exact h hb
  have hgl : GoodLive sent s0 ⟨b, t.syn, t.rst || t.fin, n⟩ := by
    refine ⟨h1, ?_, ?_, ?_⟩
    · dsimp only
      rcases hpay with hp | ⟨p1, p2, p3⟩
      · rw [hp] at hbl; simp at hbl; omega
      · omega
    · dsimp only
      rcases hpay with hp | ⟨p1, p2, p3⟩
      · rw [hp] at hb; simp at hb; simp [hb]
      · by_cases hkk : (k : Int) = n - seq
        · rw [hb, p3, drop_slice]
          have e1 : (seq - s0).toNat + k = (n - s0).toNat := by omega
          rw [e1, List.length_take]
          congr 1
          rw [List.length_drop]
          omega
        · have : b.length = 0 := by omega
          have : b = [] := List.length_eq_zero_iff.mp this
          simp [this]
    · dsimp only
      intro hst
      have := hstop hst
      omega
  have hco' := hco sent s0 lo hi { h with fault := h.fault || false } ⟨b, t.syn, t.rst || t.fin, n⟩ false w.nw
    (by have := w.lo_le; omega) (by have := w.le_hi; omega) (by simp [hf]) hs hok hgl
    (fun _ p hp => ⟨hpg p hp, fun hne => hstrict (by
      cases hsy : t.syn with
      | false => rfl
      | true => exact absurd (hsynp hsy) (hbnil hne)) p hp⟩)
  have e : deliverTail s2c h t seq = deliverCore s2c t
      (checkOverlap { h with fault := h.fault || false } ⟨b, t.syn, t.rst || t.fin, n⟩ false) := by
    unfold deliverTail deliverCore
    rw [hoe]
  rw [e]
  clear e hoe
  generalize checkOverlap { h with fault := h.fault || false } ⟨b, t.syn, t.rst || t.fin, n⟩ false = r at *
  dsimp only at hco'
  obtain ⟨c1, c2, c3, c4, c5, c6, c7, c8, _, c10⟩ := hco'
  obtain ⟨c10a, c10b⟩ := c10 rfl
  rw [hn] at c2
  have hlow : ∀ i, covP h.pages i → n ≤ i := by
    rintro i ⟨p, hp, hp1, _⟩; have := hpg p hp; omega
  have hge : ∀ p ∈ r.1.pages, n + (b.length : Int) ≤ p.seq := by
    intro p hp
    have hcv := (c10b p.seq).mp (covP_seq c5 hp)
    have := hlow _ hcv.1
    have := hcv.2
    omega
  unfold deliverCore
  by_cases hcond : (!r.2.bytes.isEmpty || (t.rst || t.fin) || t.syn) = true
  · rw [if_pos hcond]
    have so := sendToConnection_spec w s2c r.1 r.2.seq r.2.bytes r.2.start r.2.stop c4 c5 (by rw [c6]; exact h1)
      (by rw [c6, c10a]; have := hgl.2.1; dsimp only at this; omega)
      (by rw [c6, c10a]; exact hgl.2.2.1)
      (by rw [c6, c10a, c8]; exact hgl.2.2.2)
      (by rw [c6, c10a]; exact hge)
    generalize sendToConnection s2c r.1 r.2.seq r.2.bytes r.2.start r.2.stop = s at *
    rw [c6, c10a] at so
    have hne : (s.2.2 != invalidSequence) = true := by
      have := so.le1; simp [invalidSequence]; omega
    dsimp only
    rw [if_pos hne]
    refine ⟨s.2.2, ?_⟩
    have hfinclosed : t.fin = true → s.1.closed = true := by
      intro hfin
      have hst : (t.rst || t.fin) = true := by simp [hfin]
      have := hstop hst
      have hnil : r.1.pages = [] := by
        apply List.eq_nil_iff_forall_not_mem.mpr
        intro p hp
        have := hge p hp
        have g := (c5 p hp).1
        have : 0 < p.bytes.length := List.length_pos_iff.mpr g.2.1
        have := g.2.2.1
        omega
      rw [so.closed, so.stopNil hnil, c8, hst]; simp
    refine ⟨by have := so.le1; omega, so.le2, by have := so.le1; omega, ?_, ?_, ?_, so.above, ?_, ?_, ?_, ?_, ?_⟩
    · dsimp only; rw [so.fault]; exact c1
    · dsimp only
      obtain ⟨tk, htk⟩ := so.split
      unfold SortedPages at c4 ⊢
      rw [htk] at c4
      exact (List.pairwise_append.mp c4).2.1
    · dsimp only
      obtain ⟨tk, htk⟩ := so.split
      intro p hp
      exact c5 p (by rw [htk]; simp [hp])
    · intro i
      dsimp only
      rw [so.cov, c10b]
      have := so.le1
      constructor
      · rintro ⟨⟨x, _⟩, y⟩; exact ⟨x, y⟩
      · rintro ⟨x, y⟩; exact ⟨⟨x, by omega⟩, y⟩
    · intro i hi1 hi2
      by_cases hlt : i < n + b.length
      · right; omega
      · left
        exact ((c10b i).mp (so.filled i (by omega) hi2)).1
    · dsimp only
      intro hcl
      cases hfin : t.fin with
      | true => rw [hfinclosed hfin] at hcl; exact absurd hcl (by simp)
      | false => simp
    · dsimp only
      intro hcl
      rw [so.closed, c3] at hcl
      have : h.closed = false := hc
      simp only [this, Bool.false_or] at hcl
      exact so.stop hcl
    · dsimp only
      refine ⟨?_, so.data⟩
      rw [so.skip]
      have hnn : (r.1.nextSeq != invalidSequence) = true := by
        rw [c2]; simp [invalidSequence]; omega
      rw [if_pos hnn, c2]
      rw [w.sd (by omega) (by omega)]; omega
  · rw [if_neg hcond]
    simp only [Bool.not_eq_true, Bool.or_eq_false_iff, Bool.not_eq_false', List.isEmpty_iff] at hcond
    obtain ⟨⟨hb0, hst0⟩, hsy0⟩ := hcond
    rw [c10a] at hb0
    have hb0' : (b.length : Int) = 0 := by rw [hb0]; rfl
    refine ⟨n, by omega, h2, by omega, c1, c4, c5, ?_, ?_, ?_, ?_, ?_, rfl⟩
    · intro p hp
      have hcv := (c10b p.seq).mp (covP_seq c5 hp)
      obtain ⟨q, hq, hq1, _⟩ := hcv.1
      have := hstrict hsy0 q hq
      omega
    · intro i
      rw [c10b]
      constructor
      · rintro ⟨x, _⟩; exact ⟨x, hlow i x⟩
      · rintro ⟨x, y⟩; exact ⟨x, by omega⟩
    · intro i hi1 hi2; omega
    · intro _; exact c2
    · intro hcl; rw [c3, hc] at hcl; exact absurd hcl (by simp)

/-- sequence numbers covered by the payload of an accepted packet -/
def covPk (x : Bool × Pkt α) (i : Int) : Prop :=
  x.1 = true ∧ x.2.seq ≤ i ∧ i < x.2.seq + x.2.payload.length

theorem covPk_range {sent : List α} {s0 : Int} {t : Pkt α} (hg : GoodPkt sent s0 t) (acc : Bool) (i : Int)
    (h : covPk (acc, t) i) : s0 ≤ i ∧ i < s0 + sent.length := by
  obtain ⟨_, h1, h2⟩ := h
  dsimp only at h1 h2
  cases hs : t.syn with
  | true => have := (hg.1 hs).2; rw [this] at h2; simp at h2; omega
  | false => have := hg.2.1 hs; omega

theorem covP_range {sent : List α} {s0 : Int} {ps : List (Page α)} (hok : PagesOK sent s0 ps) (i : Int)
    (h : covP ps i) : s0 ≤ i ∧ i < s0 + sent.length := by
  obtain ⟨p, hp, h1, h2⟩ := h
  have g := (hok p hp).1
  unfold pEnd at h2
  have := g.1; have := g.2.2.1
  omega

/-- the state of one direction after some packets: `C` = sequence numbers covered by accepted payloads,
    `syn` = an accepted SYN was handled, `d` = number of stream bytes delivered so far -/
def St (sent : List α) (s0 : Int) (C : Int → Prop) (syn : Bool) (d : Nat) (h : Half α) : Prop :=
  h.fault = false ∧ SortedPages h.pages ∧ PagesOK sent s0 h.pages ∧ d ≤ sent.length ∧
  ((syn = false ∧ d = 0 ∧ h.nextSeq = -1 ∧ h.closed = false ∧ ∀ i, C i ↔ covP h.pages i) ∨
   (syn = true ∧ h.closed = false ∧ h.nextSeq = s0 + d ∧ (∀ p ∈ h.pages, s0 + d < p.seq) ∧
      ∀ i, C i ↔ ((s0 ≤ i ∧ i < s0 + d) ∨ covP h.pages i)) ∨
   (syn = true ∧ h.closed = true ∧ d = sent.length ∧ ∀ i, C i ↔ (s0 ≤ i ∧ i < s0 + sent.length)))

theorem St_of_deliver {sent : List α} {s0 : Int} {C P : Int → Prop} {h : Half α} {d : Nat} {seq : Int} {len : Nat}
    {res : Half α × Option (SGCall α)} {n n' : Int} (hd : d ≤ sent.length)
    (o : DeliverOut sent s0 h n seq len res n') (hn : n = s0 + d) (hok : PagesOK sent s0 h.pages)
    (hC : ∀ i, C i ↔ ((s0 ≤ i ∧ i < s0 + d) ∨ covP h.pages i))
    (hP : ∀ i, P i ↔ (seq ≤ i ∧ i < seq + len)) (hPr : ∀ i, P i → s0 ≤ i) :
    d ≤ (n' - s0).toNat ∧ St sent s0 (fun i => C i ∨ P i) true (n' - s0).toNat res.1 ∧
    match res.2 with
    | none => (n' - s0).toNat = d
    | some c => c.skip = 0 ∧ c.data = (sent.drop d).take ((n' - s0).toNat - d) := by
  subst hn
  have l1 := o.le1; have l2 := o.le2; have l3 := o.le3
  refine ⟨by omega, ⟨o.fault, o.sorted, o.ok, by omega, ?_⟩, ?_⟩
  · have hback : ∀ i, s0 ≤ i → i < n' → C i ∨ P i := by
      intro i hi1 hi2
      by_cases hlt : i < s0 + d
      · left; exact (hC i).mpr (Or.inl ⟨hi1, hlt⟩)
      · rcases o.filled i (by omega) hi2 with hc | hp
        · left; exact (hC i).mpr (Or.inr hc)
        · right; exact (hP i).mpr hp
    cases hcl : res.1.closed with
    | false =>
      right; left
      have e : s0 + ((n' - s0).toNat : Int) = n' := by omega
      refine ⟨rfl, rfl, by rw [o.open_ hcl, e], by rw [e]; exact o.above, ?_⟩
      intro i
      rw [e, o.cov]
      constructor
      · rintro (hc | hp)
        · rcases (hC i).mp hc with ⟨a, b⟩ | hcv
          · left; omega
          · by_cases hlt : i < n'
            · left; exact ⟨(covP_range hok i hcv).1, hlt⟩
            · right; exact ⟨hcv, by omega⟩
        · have := (hP i).mp hp
          left; exact ⟨hPr i hp, by omega⟩
      · rintro (⟨a, b⟩ | ⟨hcv, _⟩)
        · exact hback i a b
        · left; exact (hC i).mpr (Or.inr hcv)
    | true =>
      right; right
      have e := o.closed_ hcl
      refine ⟨rfl, rfl, by omega, ?_⟩
      intro i
      constructor
      · rintro (hc | hp)
        · rcases (hC i).mp hc with ⟨a, b⟩ | hcv
          · omega
          · exact covP_range hok i hcv
        · have := (hP i).mp hp
          exact ⟨hPr i hp, by omega⟩
      · rintro ⟨a, b⟩
        exact hback i a (by omega)
  · have hc := o.call
    cases hr : res.2 with
    | none => rw [hr] at hc; dsimp only at hc ⊢; omega
    | some c =>
      rw [hr] at hc; dsimp only at hc ⊢
      refine ⟨hc.1, ?_⟩
      rw [hc.2]
      have e1 : (s0 + (d : Int) - s0).toNat = d := by omega
      have e2 : (n' - (s0 + (d : Int))).toNat = (n' - s0).toNat - d := by omega
      rw [e1, e2]

theorem queue_spec (hco : CheckOverlapSpec α) {sent : List α} {s0 lo hi : Int} (w : Win sent s0 lo hi)
    (h : Half α) (t : Pkt α) (hf : h.fault = false) (hs : SortedPages h.pages) (hok : PagesOK sent s0 h.pages)
    (hg : GoodPkt sent s0 t) (hsyn : t.syn = false) :
    (checkOverlap h ⟨t.payload, t.syn, t.rst || t.fin, t.seq⟩ true).1.fault = false ∧
    (checkOverlap h ⟨t.payload, t.syn, t.rst || t.fin, t.seq⟩ true).1.nextSeq = h.nextSeq ∧
    (checkOverlap h ⟨t.payload, t.syn, t.rst || t.fin, t.seq⟩ true).1.closed = h.closed ∧
    SortedPages (checkOverlap h ⟨t.payload, t.syn, t.rst || t.fin, t.seq⟩ true).1.pages ∧
    PagesOK sent s0 (checkOverlap h ⟨t.payload, t.syn, t.rst || t.fin, t.seq⟩ true).1.pages ∧
    (∀ i, covP (checkOverlap h ⟨t.payload, t.syn, t.rst || t.fin, t.seq⟩ true).1.pages i ↔
        (covP h.pages i ∨ covPk (true, t) i)) := by
  obtain ⟨g1, g2, g3⟩ := hg.2.1 hsyn
  have hgl : GoodLive sent s0 ⟨t.payload, t.syn, t.rst || t.fin, t.seq⟩ := by
    refine ⟨g1, g2, g3, ?_⟩
    intro hst
    dsimp only at hst ⊢
    have : t.fin = true ∨ t.rst = true := by
      cases hr : t.rst <;> cases hf : t.fin <;> simp [hr, hf] at hst ⊢
    exact (hg.2.2 this).2
  obtain ⟨c1, c2, c3, c4, c5, _, _, _, c9, _⟩ := hco sent s0 lo hi h _ true w.nw
    (by have := w.lo_le; omega) (by have := w.le_hi; omega) hf hs hok hgl (fun hq => by cases hq)
  refine ⟨c1, c2, c3, c4, c5, ?_⟩
  intro i
  rw [c9 rfl]
  simp [covPk]

theorem St_congr {sent : List α} {s0 : Int} {C C' : Int → Prop} {syn : Bool} {d : Nat} {h : Half α}
    (hC : ∀ i, C' i ↔ C i) (hst : St sent s0 C syn d h) : St sent s0 C' syn d h := by
  obtain ⟨a, b, c, e, f⟩ := hst
  refine ⟨a, b, c, e, ?_⟩
  rcases f with ⟨f1, f2, f3, f4, f5⟩ | ⟨f1, f2, f3, f4, f5⟩ | ⟨f1, f2, f3, f5⟩
  · exact Or.inl ⟨f1, f2, f3, f4, fun i => (hC i).trans (f5 i)⟩
  · exact Or.inr (Or.inl ⟨f1, f2, f3, f4, fun i => (hC i).trans (f5 i)⟩)
  · exact Or.inr (Or.inr ⟨f1, f2, f3, fun i => (hC i).trans (f5 i)⟩)

/-- one packet: the state invariant is kept, and a call (if any) carries the next stream bytes with skip 0 -/
theorem assemble_step (hco : CheckOverlapSpec α) {sent : List α} {s0 lo hi : Int} (w : Win sent s0 lo hi)
    (s2c : Bool) (C : Int → Prop) (syn : Bool) (d : Nat) (h : Half α) (acc : Bool) (t : Pkt α)
    (hst : St sent s0 C syn d h) (hg : GoodPkt sent s0 t) :
    ∃ d', d ≤ d' ∧
      St sent s0 (fun i => C i ∨ covPk (acc, t) i) (syn || (acc && t.syn)) d' (assemble s2c h acc t).1 ∧
      match (assemble s2c h acc t).2 with
      | none => d' = d
      | some c => (syn || (acc && t.syn)) = true ∧ c.skip = 0 ∧ c.data = (sent.drop d).take (d' - d) := by
  have hpos := w.s0_pos
  cases acc with
  | false =>
    rw [assemble_reject]
    refine ⟨d, Nat.le_refl _, ?_, rfl⟩
    simp only [Bool.false_and, Bool.or_false]
    exact St_congr (fun i => by simp [covPk]) hst
  | true =>
    obtain ⟨hf, hs, hok, hd, hcase⟩ := hst
    have hstopE : (t.rst || t.fin) = true → t.syn = false ∧ t.seq + t.payload.length = s0 + sent.length := by
      intro hst
      have : t.fin = true ∨ t.rst = true := by
        cases hr : t.rst <;> cases hf : t.fin <;> simp [hr, hf] at hst ⊢
      exact hg.2.2 this
    have hPk : ∀ i, covPk (true, t) i ↔ (t.seq ≤ i ∧ i < t.seq + t.payload.length) := fun i => by simp [covPk]
    rcases hcase with ⟨f1, f2, f3, f4, f5⟩ | ⟨f1, f2, f3, f4, f5⟩ | ⟨f1, f2, f3, f5⟩
    · -- no SYN yet
      subst f1 f2
      cases hsy : t.syn with
      | true =>
        obtain ⟨q1, q2⟩ := hg.1 hsy
        have hadd : seqAdd t.seq 1 = s0 := by rw [w.sa (by omega)]; omega
        rw [assemble_firstSyn s2c h t f4 f3 hsy, hadd]
        obtain ⟨n', o⟩ := deliverTail_spec hco w s2c { h with nextSeq := s0 } t s0 s0 hf hs hok f4 rfl
          (Int.le_refl _) (by omega) (by omega) (Int.le_refl _) (Or.inl q2)
          (fun hst => by have := (hstopE hst).1; rw [hsy] at this; cases this)
          (fun _ => q2) (fun p hp => (hok p hp).1.1) (fun hh => by rw [hsy] at hh; cases hh)
        obtain ⟨r1, r2, r3⟩ := St_of_deliver (C := C) (P := covPk (true, t)) (Nat.zero_le _) o (by simp) hok
          (fun i => by rw [f5 i]; simp; intro a b; omega) (fun i => by rw [hPk, q1, q2]; simp; omega)
          (fun i hi => (covPk_range hg true i hi).1)
        refine ⟨_, r1, by simpa using r2, ?_⟩
        cases hr : (deliverTail s2c { h with nextSeq := s0 } t s0).2 with
        | none => rw [hr] at r3; exact r3
        | some c => rw [hr] at r3; exact ⟨by simp, r3⟩
      | false =>
        rw [assemble_queueNoSyn s2c h t f4 f3 hsy]
        obtain ⟨c1, c2, c3, c4, c5, c6⟩ := queue_spec hco w h t hf hs hok hg hsy
        refine ⟨0, Nat.le_refl _, ⟨c1, c4, c5, hd, Or.inl ⟨by simp, rfl, by rw [c2, f3], by rw [c3, f4], ?_⟩⟩, rfl⟩
        intro i
        dsimp only
        rw [c6 i, f5 i]
    · -- SYN handled, open
      subst f1
      have hnn : h.nextSeq ≠ -1 := by rw [f3]; omega
      have hseq : s0 - 1 ≤ t.seq ∧ t.seq + t.payload.length ≤ s0 + sent.length := by
        cases hsy : t.syn with
        | true => obtain ⟨q1, q2⟩ := hg.1 hsy; rw [q1, q2]; simp; omega
        | false => have := hg.2.1 hsy; omega
      have hdiff : seqDifference h.nextSeq t.seq = t.seq - (s0 + d) := by
        rw [f3]; exact w.sd (by omega) (by omega)
      by_cases hahead : t.seq > s0 + d
      · have hsy : t.syn = false := by
          cases hsy : t.syn with
          | true => have := (hg.1 hsy).1; omega
          | false => rfl
        rw [assemble_queueAhead s2c h t f2 hnn (by rw [hdiff]; omega)]
        obtain ⟨c1, c2, c3, c4, c5, c6⟩ := queue_spec hco w h t hf hs hok hg hsy
        refine ⟨d, Nat.le_refl _, ⟨c1, c4, c5, hd, Or.inr (Or.inl ⟨by simp, by rw [c3, f2], by rw [c2, f3], ?_, ?_⟩)⟩, rfl⟩
        · intro p hp
          rcases (c6 p.seq).mp (covP_seq c5 hp) with ⟨q, hq, hq1, _⟩ | hk
          · have := f4 q hq; omega
          · have := (hPk _).mp hk; omega
        · intro i
          dsimp only
          rw [c6 i, f5 i, or_assoc]
      · rw [assemble_deliver s2c h t f2 hnn (by rw [hdiff]; omega)]
        obtain ⟨n', o⟩ := deliverTail_spec hco w s2c h t t.seq (s0 + d) hf hs hok f2 f3
          (by omega) (by omega) hseq.1 (by omega)
          (by
            cases hsy : t.syn with
            | true => exact Or.inl (hg.1 hsy).2
            | false => exact Or.inr (hg.2.1 hsy))
          (fun hst => (hstopE hst).2) (fun hsy => (hg.1 hsy).2)
          (fun p hp => by have := f4 p hp; omega) (fun _ => f4)
        obtain ⟨r1, r2, r3⟩ := St_of_deliver (C := C) (P := covPk (true, t)) hd o rfl hok f5 hPk
          (fun i hi => (covPk_range hg true i hi).1)
        refine ⟨_, r1, by simpa using r2, ?_⟩
        cases hr : (deliverTail s2c h t t.seq).2 with
        | none => rw [hr] at r3; exact r3
        | some c => rw [hr] at r3; exact ⟨by simp, r3⟩
    · -- closed
      subst f1
      rw [assemble_closed s2c h true t f2]
      refine ⟨d, Nat.le_refl _, ⟨hf, hs, hok, hd, Or.inr (Or.inr ⟨by simp, f2, f3, ?_⟩)⟩, rfl⟩
      intro i
      constructor
      · rintro (hc | hk)
        · exact (f5 i).mp hc
        · exact covPk_range hg true i hk
      · intro hi; exact Or.inl ((f5 i).mpr hi)

/-- sequence numbers covered by the payload of some accepted packet of the list -/
def CovBy (pkts : List (Bool × Pkt α)) (i : Int) : Prop := ∃ x ∈ pkts, covPk x i

/-- some accepted packet carries SYN -/
def synSeen (pkts : List (Bool × Pkt α)) : Bool := pkts.any fun x => x.1 && x.2.syn

theorem runHalf_cons (s2c : Bool) (h : Half α) (x : Bool × Pkt α) (rest : List (Bool × Pkt α)) :
    runHalf s2c h (x :: rest) =
      ((runHalf s2c (assemble s2c h x.1 x.2).1 rest).1,
       (match (assemble s2c h x.1 x.2).2 with | some c => [c] | none => []) ++
         (runHalf s2c (assemble s2c h x.1 x.2).1 rest).2) := by
  obtain ⟨acc, t⟩ := x
  rfl

/-- the run of one direction from a state satisfying `St` -/
theorem runHalf_spec (hco : CheckOverlapSpec α) {sent : List α} {s0 lo hi : Int} (w : Win sent s0 lo hi)
    (s2c : Bool) : ∀ (pkts : List (Bool × Pkt α)) (C : Int → Prop) (syn : Bool) (d : Nat) (h : Half α),
    St sent s0 C syn d h → (∀ x ∈ pkts, GoodPkt sent s0 x.2) →
    ∃ d', d ≤ d' ∧
      St sent s0 (fun i => C i ∨ CovBy pkts i) (syn || synSeen pkts) d' (runHalf s2c h pkts).1 ∧
      (∀ c ∈ (runHalf s2c h pkts).2, c.skip = 0) ∧
      (((runHalf s2c h pkts).2.map (·.data)).flatten = (sent.drop d).take (d' - d)) ∧
      ((syn || synSeen pkts) = false → (runHalf s2c h pkts).2 = []) := by
  intro pkts
  induction pkts with
  | nil =>
    intro C syn d h hst _
    refine ⟨d, Nat.le_refl _, ?_, by simp [runHalf], by simp [runHalf], by simp [runHalf]⟩
    simp only [synSeen, List.any_nil, Bool.or_false, runHalf]
    exact St_congr (fun i => by simp [CovBy]) hst
  | cons x rest ih =>
    intro C syn d h hst hgood
    obtain ⟨d1, hd1, st1, call1⟩ := assemble_step hco w s2c C syn d h x.1 x.2 hst (hgood x (by simp))
    obtain ⟨d2, hd2, st2, sk2, dat2, no2⟩ := ih _ _ d1 _ st1 (fun y hy => hgood y (by simp [hy]))
    rw [runHalf_cons]
    have hsyn : ((syn || (x.1 && x.2.syn)) || synSeen rest) = (syn || synSeen (x :: rest)) := by
      simp [synSeen, Bool.or_assoc]
    rw [hsyn] at st2 no2
    refine ⟨d2, by omega, ?_, ?_, ?_, ?_⟩
    · refine St_congr (fun i => ?_) st2
      simp only [CovBy, List.mem_cons, exists_eq_or_imp, or_assoc]
    · intro c hc
      rcases List.mem_append.mp hc with hc | hc
      · cases hr : (assemble s2c h x.1 x.2).2 with
        | none => rw [hr] at hc; simp at hc
        | some c' =>
          rw [hr] at hc call1
          simp at hc
          rw [hc]; exact call1.2.1
      · exact sk2 c hc
    · dsimp only
      rw [List.map_append, List.flatten_append, dat2]
      cases hr : (assemble s2c h x.1 x.2).2 with
      | none =>
        rw [hr] at call1
        dsimp only at call1
        rw [call1]; simp
      | some c' =>
        rw [hr] at call1
        dsimp only at call1
        simp only [List.map_cons, List.map_nil, List.flatten_cons, List.flatten_nil, List.append_nil]
        rw [call1.2.2]
        have e1 : d1 = d + (d1 - d) := by omega
        have e2 : d2 - d = (d1 - d) + (d2 - d1) := by omega
        rw [e2, ← sl_append, ← e1]
    · intro hno
      dsimp only
      rw [no2 hno]
      cases hr : (assemble s2c h x.1 x.2).2 with
      | none => rfl
      | some c' =>
        rw [hr] at call1
        have := call1.1
        rw [← hsyn] at hno
        simp only [Bool.or_eq_false_iff] at hno
        rw [hno.1.1, hno.1.2] at this
        exact absurd this (by simp)

theorem St_init (sent : List α) (s0 : Int) : St sent s0 (fun _ => False) false 0 ({} : Half α) := by
  refine ⟨rfl, List.Pairwise.nil, (fun p hp => by cases hp), Nat.zero_le _, Or.inl ⟨rfl, rfl, rfl, rfl, ?_⟩⟩
  intro i
  simp [covP]

/-- MAIN (targets 2+3): packets of one direction in any order, with duplicates and overlaps.  The calls made
    before the flush all have skip 0 and their data, concatenated, is the prefix `sent.take d` of the stream;
    without an accepted SYN there is no call at all; the final state satisfies `St` for the set `CovBy pkts` of
    sequence numbers covered by accepted payloads. -/
theorem gopacket_delivers_in_order (hco : CheckOverlapSpec α) {sent : List α} {s0 lo hi : Int}
    (w : Win sent s0 lo hi) (s2c : Bool) (pkts : List (Bool × Pkt α))
    (hgood : ∀ x ∈ pkts, GoodPkt sent s0 x.2) :
    ∃ d, d ≤ sent.length ∧
      St sent s0 (CovBy pkts) (synSeen pkts) d (runHalf s2c {} pkts).1 ∧
      (∀ c ∈ (traceOf s2c pkts).1, c.skip = 0) ∧
      (((traceOf s2c pkts).1.map (·.data)).flatten = sent.take d) ∧
      (synSeen pkts = false → (traceOf s2c pkts).1 = []) := by
  obtain ⟨d, _, st, sk, dat, no⟩ := runHalf_spec hco w s2c pkts _ false 0 _ (St_init sent s0) hgood
  have ht : (traceOf s2c pkts).1 = (runHalf s2c {} pkts).2 := rfl
  rw [ht]
  refine ⟨d, st.2.2.2.1, ?_, sk, ?_, ?_⟩
  · simp only [Bool.false_or] at st
    exact St_congr (fun i => by simp) st
  · simpa using dat
  · simpa using no

/-- the half-connection invariant (the `St` invariant without the ghost coverage) -/
def HalfInv (sent : List α) (s0 : Int) (h : Half α) : Prop :=
  h.fault = false ∧ SortedPages h.pages ∧ PagesOK sent s0 h.pages ∧
  (h.closed = true ∨ h.nextSeq = -1 ∨
    (s0 ≤ h.nextSeq ∧ h.nextSeq ≤ s0 + sent.length ∧ ∀ p ∈ h.pages, h.nextSeq < p.seq))

theorem St.halfInv {sent : List α} {s0 : Int} {C : Int → Prop} {syn : Bool} {d : Nat} {h : Half α}
    (hst : St sent s0 C syn d h) : HalfInv sent s0 h := by
  obtain ⟨a, b, c, e, f⟩ := hst
  refine ⟨a, b, c, ?_⟩
  rcases f with ⟨_, _, f3, _, _⟩ | ⟨_, _, f3, f4, _⟩ | ⟨_, f2, _, _⟩
  · exact Or.inr (Or.inl f3)
  · exact Or.inr (Or.inr ⟨by omega, by omega, by rw [f3]; exact f4⟩)
  · exact Or.inl f2

/-- the captured segments of the direction: accepted packets with payload, as offsets into the stream -/
def segsOf (s0 : Int) (pkts : List (Bool × Pkt α)) : List (Seg α) :=
  (pkts.filter fun x => x.1 && !x.2.payload.isEmpty).map fun x => Seg.mk' (x.2.seq - s0).toNat x.2.payload

theorem covered_segsOf {sent : List α} {s0 : Int} (pkts : List (Bool × Pkt α))
    (hgood : ∀ x ∈ pkts, GoodPkt sent s0 x.2) (i : Nat) :
    covered (segsOf s0 pkts) i = true ↔ CovBy pkts (s0 + i) := by
  rw [Proofs.C19.covered_iff]
  unfold segsOf CovBy covPk Seg.mk'
  constructor
  · rintro ⟨g, hg, h1, h2⟩
    obtain ⟨x, hx, rfl⟩ := List.mem_map.mp hg
    obtain ⟨hx1, hx2⟩ := List.mem_filter.mp hx
    simp only [Bool.and_eq_true, Bool.not_eq_true', List.isEmpty_eq_false_iff] at hx2
    dsimp only at h1 h2
    have hsy : x.2.syn = false := by
      cases hs : x.2.syn with
      | true => exact absurd ((hgood x hx1).1 hs).2 hx2.2
      | false => rfl
    have := (hgood x hx1).2.1 hsy
    exact ⟨x, hx1, hx2.1, by omega, by omega⟩
  · rintro ⟨x, hx, h0, h1, h2⟩
    have hne : x.2.payload ≠ [] := by
      intro hnil; rw [hnil] at h2; simp at h2; omega
    have hsy : x.2.syn = false := by
      cases hs : x.2.syn with
      | true => exact absurd ((hgood x hx).1 hs).2 hne
      | false => rfl
    have := (hgood x hx).2.1 hsy
    refine ⟨_, List.mem_map.mpr ⟨x, List.mem_filter.mpr ⟨hx, by simp [h0, hne]⟩, rfl⟩, ?_, ?_⟩
    · dsimp only; omega
    · dsimp only; omega

/-- with an accepted SYN: what was delivered before the flush is exactly the contiguous captured prefix -/
theorem prefixEnd_of_St {sent : List α} {s0 : Int} (pkts : List (Bool × Pkt α))
    (hgood : ∀ x ∈ pkts, GoodPkt sent s0 x.2) {d : Nat} {h : Half α}
    (hst : St sent s0 (CovBy pkts) true d h) : prefixEnd (segsOf s0 pkts) 0 = d := by
  obtain ⟨_, _, hok, hd, f⟩ := hst
  apply Proofs.C19.prefixEnd_eq _ _ _ (Nat.zero_le _)
  · intro i _ hi
    rw [covered_segsOf pkts hgood]
    rcases f with ⟨f1, _⟩ | ⟨_, _, _, _, f5⟩ | ⟨_, _, f3, f5⟩
    · cases f1
    · exact (f5 _).mpr (Or.inl ⟨by omega, by omega⟩)
    · exact (f5 _).mpr ⟨by omega, by omega⟩
  · rw [← Bool.not_eq_true, covered_segsOf pkts hgood]
    rcases f with ⟨f1, _⟩ | ⟨_, _, _, f4, f5⟩ | ⟨_, _, f3, f5⟩
    · cases f1
    · rw [f5]
      rintro (⟨_, hh⟩ | ⟨p, hp, hp1, _⟩)
      · omega
      · have := f4 p hp; omega
    · rw [f5]; omega

theorem beyond_iff_covered (segs : List (Seg α)) (e : Nat) :
    beyond segs e = true ↔ ∃ i, e ≤ i ∧ covered segs i = true := by
  rw [Proofs.C19.beyond_iff]
  constructor
  · rintro ⟨g, hg, h1, h2⟩
    exact ⟨g.off + g.len - 1, by omega, (Proofs.C19.covered_iff _ _).mpr ⟨g, hg, by omega, by omega⟩⟩
  · rintro ⟨i, hi, hc⟩
    obtain ⟨g, hg, h1, h2⟩ := (Proofs.C19.covered_iff _ _).mp hc
    exact ⟨g, hg, by omega, by omega⟩

/-- with an accepted SYN: segments behind the first hole were captured iff the direction is still open with
    queued pages (which is when the final flush delivers something) -/
theorem beyond_of_St {sent : List α} {s0 : Int} (pkts : List (Bool × Pkt α))
    (hgood : ∀ x ∈ pkts, GoodPkt sent s0 x.2) {d : Nat} {h : Half α}
    (hst : St sent s0 (CovBy pkts) true d h) :
    beyond (segsOf s0 pkts) d = true ↔ (h.closed = false ∧ h.pages ≠ []) := by
  rw [beyond_iff_covered]
  obtain ⟨_, _, hok, hd, f⟩ := hst
  rcases f with ⟨f1, _⟩ | ⟨_, f2, _, f4, f5⟩ | ⟨_, f2, f3, f5⟩
  · cases f1
  · constructor
    · rintro ⟨i, hi, hc⟩
      rw [covered_segsOf pkts hgood, f5] at hc
      rcases hc with hc | ⟨p, hp, _⟩
      · omega
      · exact ⟨f2, fun hnil => by rw [hnil] at hp; cases hp⟩
    · rintro ⟨_, hne⟩
      obtain ⟨p, hp⟩ := List.exists_mem_of_ne_nil _ hne
      have := f4 p hp
      refine ⟨(p.seq - s0).toNat, by omega, ?_⟩
      rw [covered_segsOf pkts hgood, f5]
      right
      have e : s0 + ((p.seq - s0).toNat : Int) = p.seq := by omega
      rw [e]
      exact covP_seq hok hp
  · constructor
    · rintro ⟨i, hi, hc⟩
      rw [covered_segsOf pkts hgood, f5] at hc
      omega
    · rintro ⟨hcl, _⟩; rw [f2] at hcl; cases hcl

end Proofs.C19Gp
