import Proofs.C19GpDefs
/-! C19 — unconditional lemmas about the transliterated gopacket assembler (FqModel/Gopacket.lean): the calls made while
    packets arrive never carry a skip (for EVERY state and packet, wrap-around included). -/
namespace Proofs.C19Gp
open FqModel.Reasm FqModel.Gopacket
variable {α : Type}
theorem seqDifference_eq (s t : Int) : seqDifference s t =
    if s > 3221225472 ∧ t < 1073741823 then t + 4294967295 - s
    else if t > 3221225472 ∧ s < 1073741823 then t - (s + 4294967295) else t - s := by
  unfold seqDifference uint32Max
  have e1 : (0xFFFFFFFF : Int) - 0xFFFFFFFF / 4 = 3221225472 := by decide
  have e2 : (0xFFFFFFFF : Int) / 4 = 1073741823 := by decide
  rw [e1, e2]
  simp only [Bool.and_eq_true, decide_eq_true_eq]
theorem seqDifference_self (n : Int) : seqDifference n n = 0 := by
  rw [seqDifference_eq]
  repeat' split
  all_goals omega
theorem seqDifference_zero_symm (s t : Int) (h : seqDifference s t = 0) : seqDifference t s = 0 := by
  rw [seqDifference_eq] at h ⊢
  split at h
  · repeat' split
    all_goals omega
  · split at h
    · repeat' split
      all_goals omega
    · repeat' split
      all_goals omega
theorem checkOverlap_seq (h : Half α) (lp : Live α) (q : Bool) : (checkOverlap h lp q).2.seq = lp.seq := by
  unfold checkOverlap; simp only; split <;> rfl
theorem checkOverlap_nextSeq (h : Half α) (lp : Live α) (q : Bool) : (checkOverlap h lp q).1.nextSeq = h.nextSeq := by
  unfold checkOverlap; simp only; split <;> rfl
theorem seqAdd_nonneg (s t : Int) : 0 ≤ seqAdd s t := by
  unfold seqAdd; exact Int.emod_nonneg _ (by decide)
/-- the sequence number `overlapExisting` hands on is at distance 0 from a valid `nextSeq` -/
theorem overlapExisting_seq (h : Half α) (start : Int) (bytes : List α) (hv : h.nextSeq ≠ invalidSequence) :
    seqDifference h.nextSeq (overlapExisting h start bytes).2.1 = 0 := by
  unfold overlapExisting
  have : (h.nextSeq == invalidSequence) = false := by simpa using hv
  simp only [this, Bool.false_eq_true, if_false]
  by_cases d : seqDifference start h.nextSeq = 0
  · simp only [d, beq_self_eq_true, if_true]
    exact seqDifference_zero_symm _ _ d
  · have : (seqDifference start h.nextSeq == 0) = false := by simpa using d
    simp only [this, Bool.false_eq_true, if_false]
    exact seqDifference_self _
theorem sendToConnection_skip (s2c : Bool) (h : Half α) (fSeq : Int) (fBytes : List α) (a b : Bool) :
    (sendToConnection s2c h fSeq fBytes a b).2.1.skip =
      if h.nextSeq != invalidSequence then seqDifference h.nextSeq fSeq else -1 := by
  unfold sendToConnection; rfl
theorem assemble_skip (s2c : Bool) (h : Half α) (acc : Bool) (t : Pkt α) (c : SGCall α)
    (hc : (assemble s2c h acc t).2 = some c) : c.skip = 0 := by
  unfold assemble at hc
  cases acc with
  | false => simp at hc
  | true =>
  have ha : true = true := rfl
  by_cases hcl : h.closed = true
  · simp [hcl] at hc
  simp only [hcl, Bool.not_true, Bool.false_eq_true, if_false] at hc
  by_cases hn : (h.nextSeq == invalidSequence) = true
  · by_cases hs : t.syn = true
    · simp only [hn, hs, if_true, Bool.false_eq_true, if_false, Bool.or_true] at hc
      injection hc with hc
      rw [← hc, sendToConnection_skip, checkOverlap_seq, checkOverlap_nextSeq]
      have hv : ({ h with nextSeq := seqAdd t.seq 1 } : Half α).nextSeq ≠ invalidSequence := by
        have := seqAdd_nonneg t.seq 1
        simp only [invalidSequence]; omega
      have := overlapExisting_seq { h with nextSeq := seqAdd t.seq 1 } (seqAdd t.seq 1) t.payload hv
      simp only at this ⊢
      have hv' : (seqAdd t.seq 1 != invalidSequence) = true := by simpa using hv
      simp only [hv', if_true]
      exact this
    · simp only [hn, hs, if_true, Bool.false_eq_true, if_false] at hc
      cases hc
  · by_cases hd : seqDifference h.nextSeq t.seq > 0
    · simp only [hn, hd, Bool.false_eq_true, if_false] at hc
      cases hc
    · simp only [hn, hd, Bool.false_eq_true, if_false] at hc
      split at hc
      · injection hc with hc
        rw [← hc, sendToConnection_skip, checkOverlap_seq, checkOverlap_nextSeq]
        have hv : h.nextSeq ≠ invalidSequence := by simpa using hn
        have := overlapExisting_seq h t.seq t.payload hv
        have hv' : (h.nextSeq != invalidSequence) = true := by simpa using hv
        simp only [hv', if_true]
        exact this
      · cases hc
end Proofs.C19Gp
