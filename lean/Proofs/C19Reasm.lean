import FqModel.Reasm
/-! helper lemmas for Props/C19.lean (reference reassembler) -/
namespace Proofs.C19
open FqModel.Reasm

variable {α : Type}

/-- segment `g` carries bytes of the stream `s` at its offset (and its cached length is right) -/
def IsSlice (s : List α) (g : Seg α) : Prop :=
  g.WF ∧ ∀ j, j < g.len → s[g.off + j]? = g.data[j]?

theorem coversB_iff (g : Seg α) (i : Nat) : coversB g i = true ↔ g.off ≤ i ∧ i < g.off + g.len := by
  unfold coversB Seg.stop
  rw [Bool.and_eq_true, decide_eq_true_iff, decide_eq_true_iff]

theorem covered_iff (segs : List (Seg α)) (i : Nat) :
    covered segs i = true ↔ ∃ g ∈ segs, g.off ≤ i ∧ i < g.off + g.len := by
  simp [covered, List.any_eq_true, coversB_iff]

theorem covered_false_iff (segs : List (Seg α)) (i : Nat) :
    covered segs i = false ↔ ∀ g ∈ segs, ¬ (g.off ≤ i ∧ i < g.off + g.len) := by
  rw [← Bool.not_eq_true, covered_iff]
  constructor
  · intro h g hg hc; exact h ⟨g, hg, hc⟩
  · rintro h ⟨g, hg, hc⟩; exact h g hg hc

theorem covered_perm {l₁ l₂ : List (Seg α)} (h : l₁.Perm l₂) (i : Nat) : covered l₁ i = covered l₂ i := by
  cases h1 : covered l₁ i <;> cases h2 : covered l₂ i <;> try rfl
  · rw [covered_iff] at h2; rw [covered_false_iff] at h1
    obtain ⟨g, hg, hc⟩ := h2; exact absurd hc (h1 g (h.mem_iff.mpr hg))
  · rw [covered_iff] at h1; rw [covered_false_iff] at h2
    obtain ⟨g, hg, hc⟩ := h1; exact absurd hc (h2 g (h.mem_iff.mp hg))

theorem maxStop_cons (g : Seg α) (t : List (Seg α)) : maxStop (g :: t) = max g.stop (maxStop t) := rfl

theorem le_maxStop {segs : List (Seg α)} {g : Seg α} (h : g ∈ segs) : g.stop ≤ maxStop segs := by
  induction segs with
  | nil => cases h
  | cons a t ih =>
    rw [maxStop_cons]
    rcases List.mem_cons.mp h with rfl | h
    · exact Nat.le_max_left _ _
    · exact Nat.le_trans (ih h) (Nat.le_max_right _ _)

theorem not_covered_of_maxStop_le (segs : List (Seg α)) (i : Nat) (h : maxStop segs ≤ i) :
    covered segs i = false := by
  rw [covered_false_iff]
  intro g hg ⟨_, h2⟩
  have := le_maxStop hg
  simp only [Seg.stop] at this
  omega

theorem scan_spec (segs : List (Seg α)) : ∀ fuel pos,
    pos ≤ scan segs fuel pos ∧ scan segs fuel pos ≤ pos + fuel ∧
    (∀ i, pos ≤ i → i < scan segs fuel pos → covered segs i = true) ∧
    (scan segs fuel pos < pos + fuel → covered segs (scan segs fuel pos) = false) := by
  intro fuel
  induction fuel with
  | zero =>
    intro pos
    refine ⟨Nat.le_refl _, Nat.le_refl _, ?_, ?_⟩
    · intro i h1 h2; simp only [scan] at h2; omega
    · intro h; simp only [scan] at h; omega
  | succ n ih =>
    intro pos
    cases hc : covered segs pos
    · simp only [scan, hc, Bool.false_eq_true, ↓reduceIte]
      refine ⟨Nat.le_refl _, by omega, ?_, ?_⟩
      · intro i hi1 hi2; omega
      · intro _; trivial
    · simp only [scan, hc, ↓reduceIte]
      obtain ⟨h1, h2, h3, h4⟩ := ih (pos + 1)
      refine ⟨by omega, by omega, ?_, ?_⟩
      · intro i hi1 hi2
        by_cases hip : i = pos
        · subst hip; exact hc
        · exact h3 i (by omega) hi2
      · intro hlt; exact h4 (by omega)

theorem prefixEnd_spec (segs : List (Seg α)) (base : Nat) :
    base ≤ prefixEnd segs base ∧
    (∀ i, base ≤ i → i < prefixEnd segs base → covered segs i = true) ∧
    covered segs (prefixEnd segs base) = false := by
  obtain ⟨h1, h2, h3, h4⟩ := scan_spec segs (maxStop segs + 1 - base) base
  refine ⟨h1, h3, ?_⟩
  by_cases hlt : scan segs (maxStop segs + 1 - base) base < base + (maxStop segs + 1 - base)
  · exact h4 hlt
  · apply not_covered_of_maxStop_le
    simp only [prefixEnd]
    omega

/-- the first uncovered position at or after `base` is unique -/
theorem prefixEnd_eq (segs : List (Seg α)) (base x : Nat) (hb : base ≤ x)
    (hcov : ∀ i, base ≤ i → i < x → covered segs i = true) (hx : covered segs x = false) :
    prefixEnd segs base = x := by
  obtain ⟨h1, h2, h3⟩ := prefixEnd_spec segs base
  rcases Nat.lt_trichotomy (prefixEnd segs base) x with h | h | h
  · have := hcov _ h1 h; rw [h3] at this; cases this
  · exact h
  · have := h2 x hb h; rw [hx] at this; cases this

theorem prefixEnd_perm {l₁ l₂ : List (Seg α)} (h : l₁.Perm l₂) (base : Nat) :
    prefixEnd l₁ base = prefixEnd l₂ base := by
  obtain ⟨h1, h2, h3⟩ := prefixEnd_spec l₂ base
  apply prefixEnd_eq l₁ base _ h1
  · intro i hi1 hi2; rw [covered_perm h]; exact h2 i hi1 hi2
  · rw [covered_perm h]; exact h3

theorem byteAt_eq (s : List α) (segs : List (Seg α)) (hs : ∀ g ∈ segs, IsSlice s g) (i : Nat)
    (hc : covered segs i = true) : byteAt segs i = s[i]? := by
  induction segs with
  | nil => simp [covered] at hc
  | cons g t ih =>
    simp only [byteAt, List.findSome?_cons]
    by_cases hg : coversB g i = true
    · obtain ⟨hwf, hsl⟩ := hs g (List.mem_cons_self ..)
      obtain ⟨h1, h2⟩ := (coversB_iff g i).mp hg
      have hj : i - g.off < g.len := by omega
      have hd := hsl (i - g.off) hj
      have hidx : g.off + (i - g.off) = i := by omega
      rw [hidx] at hd
      have hlt : i - g.off < g.data.length := by rw [← hwf]; exact hj
      simp only [hg, if_true]
      rw [List.getElem?_eq_getElem hlt] at hd ⊢
      simp only [hd]
    · have hg' : coversB g i = false := by simpa using hg
      simp only [hg']
      have : covered t i = true := by
        simp only [covered, List.any_cons, hg', Bool.false_or] at hc
        exact hc
      have := ih (fun g hg => hs g (List.mem_cons_of_mem _ hg)) this
      simpa [byteAt] using this

theorem filterMap_congr' {β : Type} {f g : Nat → Option β} : ∀ (l : List Nat), (∀ x ∈ l, f x = g x) →
    l.filterMap f = l.filterMap g := by
  intro l
  induction l with
  | nil => intro _; rfl
  | cons a t ih =>
    intro h
    rw [List.filterMap_cons, List.filterMap_cons, h a (List.mem_cons_self ..),
      ih (fun x hx => h x (List.mem_cons_of_mem _ hx))]

theorem filterMap_getElem?_range' (s : List α) : ∀ n base, base + n ≤ s.length →
    (List.range' base n).filterMap (fun i => s[i]?) = (s.drop base).take n := by
  intro n
  induction n with
  | zero => intro base _; simp
  | succ n ih =>
    intro base h
    have hb : base < s.length := by omega
    rw [List.range'_succ, List.filterMap_cons]
    simp only [List.getElem?_eq_getElem hb]
    rw [ih (base + 1) (by omega)]
    rw [List.drop_eq_getElem_cons hb, List.take_succ_cons]

/-- the reference on slices of `s`: if `e` is the first position from `base` on that no segment covers -/
theorem reasmFrom_slices (s : List α) (segs : List (Seg α)) (base e : Nat)
    (hs : ∀ g ∈ segs, IsSlice s g) (hb : base ≤ e) (he : e ≤ s.length)
    (hcov : ∀ i, base ≤ i → i < e → covered segs i = true) (hend : covered segs e = false) :
    reasmFrom segs base = ((s.drop base).take (e - base), beyond segs e) := by
  have hpe := prefixEnd_eq segs base e hb hcov hend
  simp only [reasmFrom, hpe]
  congr 1
  rw [← filterMap_getElem?_range' s (e - base) base (by omega)]
  apply filterMap_congr'
  intro i hi
  have := List.mem_range'_1.mp hi
  exact byteAt_eq s segs hs i (hcov i this.1 (by omega))

/-- a non-empty slice of `s` ends inside `s` -/
theorem slice_stop_le (s : List α) (g : Seg α) (hs : IsSlice s g) (hne : g.len ≠ 0) :
    g.off + g.len ≤ s.length := by
  obtain ⟨hwf, hsl⟩ := hs
  have := hsl (g.len - 1) (by omega)
  have hlt : g.len - 1 < g.data.length := by rw [← hwf]; omega
  rw [List.getElem?_eq_getElem hlt] at this
  have := (List.getElem?_eq_some_iff.mp this).1
  omega

theorem not_covered_length (s : List α) (segs : List (Seg α)) (hs : ∀ g ∈ segs, IsSlice s g) :
    covered segs s.length = false := by
  rw [covered_false_iff]
  intro g hg ⟨h1, h2⟩
  have := slice_stop_le s g (hs g hg) (by omega)
  omega

theorem beyond_false_of_slices (s : List α) (segs : List (Seg α)) (hs : ∀ g ∈ segs, IsSlice s g) :
    beyond segs s.length = false := by
  simp only [beyond, List.any_eq_false, Bool.and_eq_true, decide_eq_true_eq, bne_iff_ne, ne_eq, not_and,
    Decidable.not_not]
  intro g hg hlt
  by_cases h0 : g.len = 0
  · exact h0
  · have := slice_stop_le s g (hs g hg) h0
    simp only [Seg.stop] at hlt
    omega

theorem beyond_iff (segs : List (Seg α)) (e : Nat) :
    beyond segs e = true ↔ ∃ g ∈ segs, e < g.off + g.len ∧ g.len ≠ 0 := by
  unfold beyond Seg.stop
  rw [List.any_eq_true]
  constructor
  · rintro ⟨g, hg, h⟩
    rw [Bool.and_eq_true, decide_eq_true_iff, bne_iff_ne] at h
    exact ⟨g, hg, h⟩
  · rintro ⟨g, hg, h⟩
    refine ⟨g, hg, ?_⟩
    rw [Bool.and_eq_true, decide_eq_true_iff, bne_iff_ne]
    exact h

/-! ### truncated segments -/

theorem truncSeg_isSlice (s : List α) (g : Seg α) (k : Nat) (h : IsSlice s g) : IsSlice s (truncSeg k g) := by
  obtain ⟨hwf, hsl⟩ := h
  refine ⟨?_, ?_⟩
  · simp only [Seg.WF, truncSeg, List.length_take]
    rw [hwf]
  · intro j hj
    simp only [truncSeg] at hj ⊢
    rw [List.getElem?_take_of_lt (by omega)]
    exact hsl j (by omega)

/-- a truncated segment covers exactly the captured part of the original -/
theorem coversB_truncSeg (g : Seg α) (k i : Nat) :
    coversB (truncSeg k g) i = true ↔ g.off ≤ i ∧ i < g.off + min k g.len := by
  rw [coversB_iff]
  simp only [truncSeg]

/-! ### segmentations -/

theorem isSlice_mk' (s t : List α) (off : Nat) (hst : s.drop off = t) (k : Nat) :
    IsSlice s (Seg.mk' off (t.take k)) := by
  refine ⟨rfl, ?_⟩
  intro j hj
  simp only [Seg.mk', List.length_take] at hj
  simp only [Seg.mk']
  rw [List.getElem?_take_of_lt (by omega), ← hst, List.getElem?_drop]

theorem segmentation_spec (s : List α) : ∀ (cuts : List Nat) (off : Nat) (t : List α), s.drop off = t →
    (∀ g ∈ segmentation cuts off t, IsSlice s g) ∧
    (∀ i, off ≤ i → i < off + t.length → covered (segmentation cuts off t) i = true) := by
  intro cuts
  induction cuts with
  | nil =>
    intro off t hst
    by_cases ht : t.isEmpty = true
    · have : t = [] := List.isEmpty_iff.mp ht
      subst this
      refine ⟨by simp [segmentation], ?_⟩
      intro i h1 h2
      simp only [List.length_nil] at h2
      omega
    · simp only [segmentation, ht]
      constructor
      · intro g hg
        simp only [Bool.false_eq_true, ↓reduceIte, List.mem_singleton] at hg
        subst hg
        have := isSlice_mk' s t off hst t.length
        simpa using this
      · intro i h1 h2
        simp [covered, coversB, Seg.mk', Seg.stop, h1, h2]
  | cons n cuts ih =>
    intro off t hst
    by_cases ht : t.isEmpty = true
    · have : t = [] := List.isEmpty_iff.mp ht
      subst this
      refine ⟨by simp [segmentation], ?_⟩
      intro i h1 h2
      simp only [List.length_nil] at h2
      omega
    · simp only [segmentation, ht]
      have hst' : s.drop (off + (n + 1)) = t.drop (n + 1) := by
        rw [← hst, List.drop_drop]
      obtain ⟨ih1, ih2⟩ := ih (off + (n + 1)) (t.drop (n + 1)) hst'
      constructor
      · intro g hg
        simp only [Bool.false_eq_true, ↓reduceIte, List.mem_cons] at hg
        rcases hg with rfl | hg
        · exact isSlice_mk' s t off hst (n + 1)
        · exact ih1 g hg
      · intro i h1 h2
        simp only [Bool.false_eq_true, ↓reduceIte, covered, List.any_cons, Bool.or_eq_true]
        by_cases hi : i < off + (n + 1)
        · left
          simp only [coversB, Seg.mk', Seg.stop, List.length_take, Bool.and_eq_true, decide_eq_true_eq]
          omega
        · right
          have := ih2 i (by omega) (by simp only [List.length_drop]; omega)
          simpa [covered] using this

/-! ### fq's accounting -/

def dirOf (s2c : Bool) (t : Conn α) : Dir α := if s2c then t.server else t.client

def callsOf (s2c : Bool) (cs : List (SGCall α)) : List (SGCall α) := cs.filter fun c => c.serverToClient == s2c

/-- a call whose data fq appends -/
def kept (c : SGCall α) : Bool := c.skip == 0 || c.skip == -1

theorem dirOf_reassembledSG (s2c : Bool) (t : Conn α) (c : SGCall α) :
    dirOf s2c (reassembledSG t c) = if c.serverToClient == s2c then sgDir (dirOf s2c t) c else dirOf s2c t := by
  cases s2c <;> cases h : c.serverToClient <;> simp [dirOf, reassembledSG, h]

theorem dirOf_runSG (s2c : Bool) (cs : List (SGCall α)) : ∀ t : Conn α,
    dirOf s2c (runSG t cs) = (callsOf s2c cs).foldl sgDir (dirOf s2c t) := by
  induction cs with
  | nil => intro t; rfl
  | cons c cs ih =>
    intro t
    simp only [runSG, List.foldl_cons] at ih ⊢
    rw [ih (reassembledSG t c), dirOf_reassembledSG]
    by_cases h : (c.serverToClient == s2c) = true
    · simp [callsOf, h]
    · simp [callsOf, h]

theorem sgDir_kept (d : Dir α) (c : SGCall α) (h : kept c = true) :
    (sgDir d c).buffer = d.buffer ++ c.data ∧ (sgDir d c).skippedBytes = d.skippedBytes := by
  simp only [kept, Bool.or_eq_true, beq_iff_eq] at h
  rcases h with h | h
  · simp [sgDir, h]
  · simp [sgDir, h]

theorem sgDir_dropped (d : Dir α) (c : SGCall α) (h : kept c = false) :
    (sgDir d c).buffer = d.buffer ∧
    (sgDir d c).skippedBytes = (d.skippedBytes + toUInt64 c.skip) % 18446744073709551616 := by
  simp only [kept, Bool.or_eq_false_iff, beq_eq_false_iff_ne, ne_eq] at h
  obtain ⟨h0, h1⟩ := h
  have h1' : (c.skip == -1) = false := by simpa using h1
  have h0' : (c.skip != 0) = true := by simpa using h0
  simp [sgDir, h1', h0']

theorem foldl_sgDir (cs : List (SGCall α)) : ∀ d : Dir α,
    (cs.foldl sgDir d).buffer = d.buffer ++ ((cs.filter kept).map (·.data)).flatten ∧
    (cs.foldl sgDir d).skippedBytes % 18446744073709551616 =
      (d.skippedBytes + ((cs.filter (fun c => !kept c)).map (fun c => toUInt64 c.skip)).sum) % 18446744073709551616 := by
  induction cs with
  | nil => intro d; simp
  | cons c cs ih =>
    intro d
    simp only [List.foldl_cons]
    obtain ⟨ih1, ih2⟩ := ih (sgDir d c)
    cases hk : kept c
    · obtain ⟨hb, hsk⟩ := sgDir_dropped d c hk
      simp only [List.filter_cons, hk, Bool.false_eq_true, ↓reduceIte, Bool.not_false, List.map_cons, List.sum_cons]
      refine ⟨by rw [ih1, hb], ?_⟩
      rw [ih2, hsk]
      omega
    · obtain ⟨hb, hsk⟩ := sgDir_kept d c hk
      simp only [List.filter_cons, hk, ↓reduceIte, Bool.not_true, Bool.false_eq_true, List.map_cons, List.flatten_cons]
      refine ⟨by rw [ih1, hb, List.append_assoc], ?_⟩
      rw [ih2, hsk]

/-- in-order delivery without skips: the kept chunks spell out the sent bytes -/
theorem delivers_pre (sent : List α) : ∀ (pre : List (Chunk α)) (pos : Nat) (rest : List (Chunk α)),
    Delivers sent pos (pre ++ rest) → (∀ c ∈ pre, c.1 = 0 ∨ c.1 = -1) →
    (pre.map (·.2)).flatten = (sent.drop pos).take ((pre.map (·.2.length)).sum) ∧
    Delivers sent (pos + (pre.map (·.2.length)).sum) rest := by
  intro pre
  induction pre with
  | nil => intro pos rest h _; simpa using h
  | cons c pre ih =>
    intro pos rest h hk
    obtain ⟨skip, data⟩ := c
    have hsk : ¬ (skip > 0) := by
      have := hk (skip, data) (List.mem_cons_self ..)
      simp only at this
      omega
    simp only [List.cons_append, Delivers, hsk, if_false] at h
    obtain ⟨_, hd, hlen, hrest⟩ := h
    obtain ⟨ih1, ih3⟩ := ih (pos + data.length) rest hrest (fun c hc => hk c (List.mem_cons_of_mem _ hc))
    simp only [List.map_cons, List.flatten_cons, List.sum_cons]
    refine ⟨?_, by rw [← Nat.add_assoc]; exact ih3⟩
    rw [ih1, List.take_add, List.drop_drop, ← hd]

theorem kept_of_flushOnly_pre (pre post : List (SGCall α))
    (h : FlushOnlyAtEnd (pre.map fun c => (c.skip, c.data)) (post.map fun c => (c.skip, c.data))) :
    pre.filter kept = pre ∧ post.filter kept = [] ∧ post.filter (fun c => !kept c) = post ∧
    pre.filter (fun c => !kept c) = [] := by
  obtain ⟨h1, h2⟩ := h
  have hpre : ∀ c ∈ pre, kept c = true := by
    intro c hc
    have := h1 (c.skip, c.data) (List.mem_map.mpr ⟨c, hc, rfl⟩)
    simp only at this
    rcases this with h | h <;> simp [kept, h]
  have hpost : ∀ c ∈ post, kept c = false := by
    intro c hc
    have := h2 (c.skip, c.data) (List.mem_map.mpr ⟨c, hc, rfl⟩)
    simp only at this
    simp only [kept, Bool.or_eq_false_iff, beq_eq_false_iff_ne, ne_eq]
    omega
  refine ⟨List.filter_eq_self.mpr hpre, List.filter_eq_nil_iff.mpr (fun c hc => by simp [hpost c hc]),
    List.filter_eq_self.mpr (fun c hc => by simp [hpost c hc]),
    List.filter_eq_nil_iff.mpr (fun c hc => by simp [hpre c hc])⟩

end Proofs.C19

/-! ### order of connections and of reassembled datagrams -/
namespace Proofs.C19
open FqModel.Reasm

variable {α κ δ : Type}

theorem firstSeen_cons [BEq κ] (k : κ) (d : δ) (rest : List (κ × δ)) :
    firstSeen ((k, d) :: rest) = (k, d) :: (firstSeen rest).filter fun p => !(p.1 == k) := rfl

theorem firstSeen_sublist [BEq κ] : ∀ l : List (κ × δ), (firstSeen l).Sublist l := by
  intro l
  induction l with
  | nil => exact List.Sublist.slnil
  | cons p rest ih =>
    obtain ⟨k, d⟩ := p
    rw [firstSeen_cons]
    exact List.Sublist.cons_cons _ ((List.filter_sublist).trans ih)

theorem mem_firstSeen_keys [BEq κ] [LawfulBEq κ] (k : κ) : ∀ l : List (κ × δ),
    k ∈ (firstSeen l).map (·.1) ↔ k ∈ l.map (·.1) := by
  intro l
  induction l with
  | nil => simp [firstSeen]
  | cons p rest ih =>
    obtain ⟨k', d⟩ := p
    rw [firstSeen_cons]
    simp only [List.map_cons, List.mem_cons]
    constructor
    · rintro (h | h)
      · exact Or.inl h
      · right
        rw [← ih]
        obtain ⟨q, hq, rfl⟩ := List.mem_map.mp h
        exact List.mem_map.mpr ⟨q, (List.mem_filter.mp hq).1, rfl⟩
    · rintro (h | h)
      · exact Or.inl h
      · by_cases hk : k = k'
        · exact Or.inl hk
        · right
          obtain ⟨q, hq, rfl⟩ := List.mem_map.mp (ih.mpr h)
          refine List.mem_map.mpr ⟨q, List.mem_filter.mpr ⟨hq, ?_⟩, rfl⟩
          simpa using hk

theorem firstSeen_keys_nodup [BEq κ] [LawfulBEq κ] : ∀ l : List (κ × δ), ((firstSeen l).map (·.1)).Nodup := by
  intro l
  induction l with
  | nil => simp [firstSeen]
  | cons p rest ih =>
    obtain ⟨k, d⟩ := p
    rw [firstSeen_cons, List.map_cons, List.nodup_cons]
    constructor
    · intro h
      obtain ⟨q, hq, hk⟩ := List.mem_map.mp h
      have := (List.mem_filter.mp hq).2
      simp only [Bool.not_eq_eq_eq_not, Bool.not_true, beq_eq_false_iff_ne, ne_eq] at this
      exact this hk
    · exact (ih.sublist ((List.filter_sublist).map _))

/-- the recorded sender is the sender of the connection's FIRST packet -/
theorem firstSeen_find [BEq κ] [LawfulBEq κ] (k : κ) (d : δ) : ∀ l : List (κ × δ),
    (k, d) ∈ firstSeen l → l.find? (fun p => p.1 == k) = some (k, d) := by
  intro l
  induction l with
  | nil => intro h; simp [firstSeen] at h
  | cons p rest ih =>
    obtain ⟨k', d'⟩ := p
    rw [firstSeen_cons]
    intro h
    rcases List.mem_cons.mp h with h | h
    · cases h; simp
    · obtain ⟨h1, h2⟩ := List.mem_filter.mp h
      have hne : ¬ (k = k') := by simpa using h2
      have hne' : (k' == k) = false := by
        simp only [beq_eq_false_iff_ne, ne_eq]
        exact fun e => hne e.symm
      rw [List.find?_cons]
      simp only [hne']
      exact ih h1

theorem filter_firstSeen_filter [BEq κ] [LawfulBEq κ] (q : κ → Bool) : ∀ l : List (κ × δ),
    (firstSeen l).filter (fun p => q p.1) = firstSeen (l.filter fun p => q p.1) := by
  intro l
  induction l with
  | nil => rfl
  | cons p rest ih =>
    obtain ⟨k, d⟩ := p
    rw [firstSeen_cons, List.filter_cons, List.filter_cons]
    cases hq : q k
    · simp only [Bool.false_eq_true, ↓reduceIte]
      rw [← ih, List.filter_filter]
      apply List.filter_congr
      intro x _
      by_cases hx : x.1 = k
      · simp [hx, hq]
      · simp [hx]
    · simp only [↓reduceIte]
      rw [firstSeen_cons, ← ih, List.filter_filter, List.filter_filter]
      congr 1
      apply List.filter_congr
      intro x _
      exact Bool.and_comm _ _

/-- first appearance order is stable under more packets: the connections of a longer capture are those of
    the shorter one, in the same order, followed by the new ones -/
theorem firstSeen_append [BEq κ] [LawfulBEq κ] : ∀ (l m : List (κ × δ)),
    firstSeen (l ++ m) = firstSeen l ++ (firstSeen m).filter fun p => !(l.map (·.1)).contains p.1 := by
  intro l
  induction l with
  | nil =>
    intro m
    simp only [List.nil_append, firstSeen, List.map_nil, List.contains_nil, Bool.not_false]
    exact (List.filter_eq_self.mpr (fun _ _ => rfl)).symm
  | cons p rest ih =>
    intro m
    obtain ⟨k, d⟩ := p
    rw [List.cons_append, firstSeen_cons, firstSeen_cons, ih, List.filter_append, List.cons_append, List.filter_filter]
    congr 2
    apply List.filter_congr
    intro x _
    by_cases hx : x.1 = k
    · simp [hx]
    · have : (k == x.1) = false := by simpa using fun e : k = x.1 => hx e.symm
      simp [hx]

theorem defragRun_append [BEq κ] : ∀ (l m : List (κ × Frag α)) (st : FragGroups κ α),
    defragRun st (l ++ m) = defragRun st l ++ defragRun (defragState st l) m := by
  intro l
  induction l with
  | nil => intro m st; rfl
  | cons p rest ih =>
    intro m st
    obtain ⟨key, f⟩ := p
    simp only [List.cons_append, defragRun, defragState]
    cases h : defragStep st key f with
    | mk st' out =>
      cases out with
      | none => simp only [ih]
      | some d => simp only [ih, List.cons_append]

theorem defragStep_out [BEq κ] (st : FragGroups κ α) (key : κ) (f : Frag α) (o : κ × List α × Frag α)
    (h : (defragStep st key f).2 = some o) : o.1 = key ∧ o.2.2 = f := by
  unfold defragStep at h
  simp only at h
  cases hg : defragGroup ((List.lookup key st).getD [] ++ [f]) with
  | none => rw [hg] at h; cases h
  | some payload =>
    rw [hg] at h
    simp only [Option.some.injEq] at h
    subst h
    exact ⟨rfl, rfl⟩

/-- the completed datagrams come in the order in which their completing fragments arrived -/
theorem defragRun_sublist [BEq κ] : ∀ (l : List (κ × Frag α)) (st : FragGroups κ α),
    ((defragRun st l).map fun o => (o.1, o.2.2)).Sublist l := by
  intro l
  induction l with
  | nil => intro st; exact List.Sublist.slnil
  | cons p rest ih =>
    intro st
    obtain ⟨key, f⟩ := p
    simp only [defragRun]
    cases h : defragStep st key f with
    | mk st' out =>
      cases out with
      | none => exact List.Sublist.cons _ (ih st')
      | some d =>
        have := defragStep_out st key f d (by rw [h])
        simp only [List.map_cons]
        rw [this.1, this.2]
        exact List.Sublist.cons_cons _ (ih st')

end Proofs.C19
