import FqModel.CtxStack
import Proofs.C20Seq
/-!
  C20 — the locked two-thread machine (`Cfg.current`) is linearizable: every interleaving is
  equivalent to a sequential run of `Variant.fixed`, operations taking effect in the order in which
  their critical sections acquire the mutex.

  Method: `absC c` = the shared state with the critical section of the current mutex holder run to
  its end (`finE` / `finT`, written out per program counter). Steps inside a critical section do not
  change `absC`; the `Lock` step of an operation changes it by exactly the sequential `step`.
-/
namespace Proofs.C20
open FqModel.CtxStack

/-! ### the rest of a critical section, per program counter -/

/-- `close(s.stopCh)` (ctxstack.go:58) -/
def closeEffect (s : St) : St :=
  if s.stopped then { s with doubleClose := true } else { s with stopped := true }

def fPops (ctx idx cell : Nat) (s : St) : St := { s with pops := s.pops ++ [⟨idx, cell, ctx⟩] }
def fAppC (ctx idx cell : Nat) (s : St) : St := fPops ctx idx cell { s with cancelled := s.cancelled.append cell }
def fAppF (ctx idx cell : Nat) (s : St) : St := fAppC ctx idx cell { s with cancelFns := s.cancelFns.append ctx }
def fCell (ctx idx : Nat) (s : St) : St := fAppF ctx idx s.cells.length { s with cells := s.cells ++ [false] }
def fLen (ctx : Nat) (s : St) : St := fCell ctx s.cancelFns.len s
def fWC (p : Option Nat) (s : St) : St := fLen s.ctxs.size { s with ctxs := s.ctxs.withCancel p }

def gResC (p : PopFn) (s : St) : St :=
  match s.cancelled.reslice0 p.stackIdx with
  | some b => { s with cancelled := b }
  | none => panicSt s

def gResF (p : PopFn) (s : St) : St :=
  match s.cancelFns.reslice0 p.stackIdx with
  | some a => gResC p { s with cancelFns := a }
  | none => panicSt s

/-- the pop loop with `n` iterations left, then the reslices -/
def gLoopN (p : PopFn) : Nat → St → St
  | 0, s => gResF p s
  | n + 1, s =>
    match s.cancelled.index (p.stackIdx + n) with
    | some (some c) =>
      let s1 := { s with cells := s.cells.set c true }
      match s1.cancelFns.index (p.stackIdx + n) with
      | some (some f) => gLoopN p n { s1 with ctxs := s1.ctxs.cancel f }
      | _ => panicSt s1
    | _ => panicSt s

def gCall (p : PopFn) (k : Nat) (s : St) : St :=
  match s.cancelFns.index (k - 1) with
  | some (some f) => gLoopN p (k - 1 - p.stackIdx) { s with ctxs := s.ctxs.cancel f }
  | _ => panicSt s

def gFlag (p : PopFn) (k : Nat) (s : St) : St :=
  match s.cancelled.index (k - 1) with
  | some (some c) => gCall p k { s with cells := s.cells.set c true }
  | _ => panicSt s

/-- the Stop loop with `k` iterations left, then Unlock and close -/
def hLoopN : Nat → St → St
  | 0, s => closeEffect s
  | k + 1, s =>
    match s.cancelFns.index k with
    | some (some f) => hLoopN k { s with ctxs := s.ctxs.cancel f }
    | _ => panicSt s

def hCall (k : Nat) (s : St) : St :=
  match s.cancelFns.index (k - 1) with
  | some (some f) => hLoopN (k - 1) { s with ctxs := s.ctxs.cancel f }
  | _ => panicSt s

/-- what the evaluator's operation in progress will have done to the shared state when it is over;
    identity before the `Lock` -/
def finE : EPc → St → St
  | .idle, s | .pushLock _, s | .popLock _, s | .stopLock, s => s
  | .pushWithCancel p, s => fWC p s
  | .pushLen ctx, s => fLen ctx s
  | .pushNewCell ctx idx, s => fCell ctx idx s
  | .pushAppendFns ctx idx cell, s => fAppF ctx idx cell s
  | .pushAppendCancelled ctx idx cell, s => fAppC ctx idx cell s
  | .pushUnlock ctx idx cell, s => fPops ctx idx cell s
  | .popTest p, s => if s.cells.getD p.cell false then s else gLoopN p (s.cancelFns.len - p.stackIdx) s
  | .popSetOwn p, s => gLoopN p (s.cancelFns.len - p.stackIdx) { s with cells := s.cells.set p.cell true }
  | .popLoopInit p, s => gLoopN p (s.cancelFns.len - p.stackIdx) s
  | .popLoop p k, s => gLoopN p (k - p.stackIdx) s
  | .popSetFlag p k, s => gFlag p k s
  | .popCall p k, s => gCall p k s
  | .popResliceFns p, s => gResF p s
  | .popResliceCancelled p, s => gResC p s
  | .popOwnCancel p, s => { s with ctxs := s.ctxs.cancel p.ctx }
  | .popUnlock, s => s
  | .stopLoopInit, s => hLoopN s.cancelFns.len s
  | .stopLoop k, s => hLoopN k s
  | .stopCall k, s => hCall k s
  | .stopUnlock, s => closeEffect s
  | .stopClose, s => closeEffect s

def loadEff : Option Nat → St → St
  | none, s => panicSt s
  | some i, s =>
    match s.cancelFns.index i with
    | some (some f) => { s with ctxs := s.ctxs.cancel f }
    | _ => panicSt s

def idxEff (s : St) : St := loadEff (if s.cancelFns.len = 0 then none else some (s.cancelFns.len - 1)) s

/-- the same for the trigger goroutine -/
def finT : TPc → St → St
  | .wait, s | .sel, s | .lock, s | .unlock, s | .exited, s => s
  | .lenTest, s => if s.cancelFns.len > 0 then idxEff s else s
  | .lenIdx, s => idxEff s
  | .load idx, s => loadEff idx s

/-- the abstraction: finish the critical section that is in progress (at most one is) -/
def absC (c : Conc) : St :=
  if c.sh.rtPanic then c.sh else finT c.tpc (finE c.epc c.sh)

/-- program counters inside a critical section -/
def tIn : TPc → Bool
  | .lenTest | .lenIdx | .load _ | .unlock => true
  | _ => false

def eIn : EPc → Bool
  | .idle | .pushLock _ | .popLock _ | .stopLock | .stopClose => false
  | _ => true

/-- mutual exclusion -/
def MI (c : Conc) : Prop :=
  c.mu = (if tIn c.tpc then some .trig else if eIn c.epc then some .eval else none) ∧
  ¬ (tIn c.tpc = true ∧ eIn c.epc = true)


/-! ### the completed critical sections are the sequential operations -/

theorem fWC_eq_push (p : Option Nat) (s : St) : fWC p s = push .fixed s p := rfl

theorem panicSt_rtPanic (s : St) : (panicSt s).rtPanic = true := rfl

theorem gLoopN_eq (p : PopFn) : ∀ (n : Nat) (s : St), s.rtPanic = false →
    gLoopN p n s = (let s1 := popLoopFixed p.stackIdx n s; if s1.rtPanic then s1 else gResF p s1) := by
  intro n
  induction n with
  | zero => intro s h; simp [gLoopN, popLoopFixed, h]
  | succ n ih =>
    intro s h
    unfold gLoopN popLoopFixed
    simp only
    cases h1 : s.cancelled.index (p.stackIdx + n) with
    | none => simp [panicSt]
    | some o1 =>
      cases o1 with
      | none => simp [panicSt]
      | some c =>
        simp only
        cases h2 : s.cancelFns.index (p.stackIdx + n) with
        | none => simp [panicSt]
        | some o2 =>
          cases o2 with
          | none => simp [panicSt]
          | some f => simp only; exact ih _ h

theorem finE_popTest_eq (p : PopFn) (s : St) (h : s.rtPanic = false) :
    finE (.popTest p) s = finishFixed s p := by
  show (if s.cells.getD p.cell false then s else gLoopN p (s.cancelFns.len - p.stackIdx) s) = _
  unfold finishFixed
  split
  · rfl
  · rw [gLoopN_eq p _ s h]
    simp only
    split
    · rfl
    · unfold gResF gResC panicSt
      cases (popLoopFixed p.stackIdx (s.cancelFns.len - p.stackIdx) s).cancelFns.reslice0 p.stackIdx with
      | none => rfl
      | some a =>
        simp only
        cases (popLoopFixed p.stackIdx (s.cancelFns.len - p.stackIdx) s).cancelled.reslice0 p.stackIdx <;> rfl

theorem hLoopN_eq : ∀ (k : Nat) (s : St), s.rtPanic = false →
    hLoopN k s = (let s1 := stopLoop k s; if s1.rtPanic then s1 else closeEffect s1) := by
  intro k
  induction k with
  | zero => intro s h; simp [hLoopN, stopLoop, h]
  | succ k ih =>
    intro s h
    unfold hLoopN stopLoop
    simp only
    cases h1 : s.cancelFns.index k with
    | none => simp [panicSt]
    | some o1 =>
      cases o1 with
      | none => simp [panicSt]
      | some f => simp only; exact ih _ h

theorem finE_stopLoopInit_eq (s : St) (h : s.rtPanic = false) : finE .stopLoopInit s = stop s := by
  show hLoopN s.cancelFns.len s = _
  unfold stop
  rw [hLoopN_eq _ s h]
  simp only [closeEffect]

theorem interrupt_not_stopped (s : St) (h : s.stopped = false) :
    interrupt s = (if s.cancelFns.len > 0 then
        (match s.cancelFns.index (s.cancelFns.len - 1) with
          | some (some f) => { s with ctxs := s.ctxs.cancel f }
          | _ => { s with rtPanic := true })
      else s) := by
  unfold interrupt
  rw [if_neg (by rw [h]; simp)]
  split
  · cases s.cancelFns.index (s.cancelFns.len - 1) with
    | none => rfl
    | some o => cases o <;> rfl
  · rfl

theorem finT_lenTest_eq (s : St) (h : s.stopped = false) : finT .lenTest s = interrupt s := by
  rw [interrupt_not_stopped s h]
  show (if s.cancelFns.len > 0 then idxEff s else s) = _
  unfold idxEff loadEff
  split
  · rename_i hpos
    have : ¬ s.cancelFns.len = 0 := by omega
    simp only [this, if_false]
    cases s.cancelFns.index (s.cancelFns.len - 1) with
    | none => rfl
    | some o => cases o <;> rfl
  · rfl


/-! ### steps of the evaluator -/

def isLockPc : EPc → Bool
  | .pushLock _ | .popLock _ | .stopLock => true
  | _ => false

@[simp] theorem acquire_current (t : Tid) (c : Conc) :
    acquire .current t c = if c.mu = none then some { c with mu := some t } else none := rfl

@[simp] theorem release_current (c : Conc) : release .current c = { c with mu := none } := rfl

/-- the evaluator's part of `absC` -/
def absE (c : Conc) : St := if c.sh.rtPanic then c.sh else finE c.epc c.sh

theorem gLoopN_succ (p : PopFn) (k : Nat) (s : St) (h : k > p.stackIdx) :
    gLoopN p (k - p.stackIdx) s = gFlag p k s := by
  have : k - p.stackIdx = (k - 1 - p.stackIdx) + 1 := by omega
  rw [this]
  unfold gLoopN gFlag gCall
  have e : p.stackIdx + (k - 1 - p.stackIdx) = k - 1 := by omega
  rw [e]

theorem hLoopN_succ (k : Nat) (s : St) (h : k > 0) : hLoopN k s = hCall k s := by
  have : k = (k - 1) + 1 := by omega
  rw [this]
  unfold hLoopN hCall
  simp

/-- a step of the evaluator that is not a `Lock` leaves "the state after the operation in progress"
    unchanged (or is a panic that the completed operation hits as well) -/
theorem estep_absE (c c' : Conc) (hnp : c.sh.rtPanic = false) (h : estep .current c = some c')
    (hl : isLockPc c.epc = false) : absE c' = finE c.epc c.sh ∧ c'.tpc = c.tpc := by
  unfold estep at h
  cases hpc : c.epc <;> simp only [hpc] at h hl ⊢
  case idle =>
    cases hprog : c.prog with
    | nil => simp [hprog] at h
    | cons op rest =>
      cases op with
      | push p => simp [hprog] at h; subst h; simp [absE, finE, hnp]
      | finish i =>
        simp only [hprog] at h
        cases hp : c.sh.pops[i]? <;> simp [hp] at h <;> subst h <;> simp [absE, finE, hnp]
      | interrupt => simp [hprog] at h; subst h; simp [absE, finE, hnp, hpc]
      | stop => simp [hprog] at h; subst h; simp [absE, finE, hnp]
  case pushLock => simp [isLockPc] at hl
  case popLock => simp [isLockPc] at hl
  case stopLock => simp [isLockPc] at hl
  case popTest p =>
    injection h with h; subst h
    by_cases hf : c.sh.cells.getD p.cell false = true
    · simp only [hf, if_true]; simp only [absE, finE, hnp, hf, if_true]; simp
    · simp only [hf, if_false]; simp only [absE, finE, hnp, hf, if_false, Cfg.current]; simp
  case popLoop p k =>
    injection h with h; subst h
    by_cases hk : k > p.stackIdx
    · simp [absE, finE, hnp, hk, Cfg.current, gLoopN_succ p k _ hk]
    · have : k - p.stackIdx = 0 := by omega
      simp [absE, finE, hnp, hk, this, gLoopN]
  case popSetFlag p k =>
    split at h <;> (injection h with h; subst h) <;> simp_all [absE, finE, gFlag, panicSt]
  case popCall p k =>
    split at h <;> (injection h with h; subst h) <;> simp_all [absE, finE, gCall, panicSt]
  case popResliceFns p =>
    split at h <;> (injection h with h; subst h) <;> simp_all [absE, finE, gResF, panicSt, Cfg.current]
  case popResliceCancelled p =>
    split at h <;> (injection h with h; subst h) <;> simp_all [absE, finE, gResC, panicSt]
  case stopLoop k =>
    injection h with h; subst h
    by_cases hk : k > 0
    · simp [absE, finE, hnp, hk, hLoopN_succ k _ hk]
    · have : k = 0 := by omega
      subst this
      simp [absE, finE, hnp, hLoopN]
  case stopCall k =>
    split at h <;> (injection h with h; subst h) <;> simp_all [absE, finE, hCall, panicSt]
  all_goals first
    | (injection h with h; subst h
       simp [absE, finE, hnp, fWC, fLen, fCell, fAppF, fAppC, fPops, closeEffect, Cfg.current, release]; done)
    | skip

/-! ### steps of the goroutine -/

theorem finE_out (epc : EPc) (h : eIn epc = false) (s : St) :
    finE epc s = s ∨ finE epc s = closeEffect s := by
  cases epc <;> simp [eIn] at h <;> simp [finE]

theorem closeEffect_fns (s : St) : (closeEffect s).cancelFns = s.cancelFns := by
  unfold closeEffect; split <;> rfl

theorem closeEffect_ctxs (s : St) (x : Ctxs) :
    closeEffect { s with ctxs := x } = { closeEffect s with ctxs := x } := by
  unfold closeEffect; split <;> rfl

theorem closeEffect_panic (s : St) : (closeEffect s).rtPanic = s.rtPanic := by
  unfold closeEffect; split <;> rfl

/-- the two shapes of the evaluator's pending effect while it is outside its critical section -/
structure Outer (φ : St → St) : Prop where
  fns : ∀ s, (φ s).cancelFns = s.cancelFns
  panic : ∀ s, (φ s).rtPanic = s.rtPanic
  ctxs : ∀ s x, φ { s with ctxs := x } = { φ s with ctxs := x }
  ctxs' : ∀ s, (φ s).ctxs = s.ctxs

theorem outer_id : Outer (fun s => s) := ⟨fun _ => rfl, fun _ => rfl, fun _ _ => rfl, fun _ => rfl⟩
theorem outer_close : Outer closeEffect :=
  ⟨closeEffect_fns, closeEffect_panic, closeEffect_ctxs, fun s => by unfold closeEffect; split <;> rfl⟩

@[simp] theorem finT_wait (s : St) : finT .wait s = s := rfl
@[simp] theorem finT_sel (s : St) : finT .sel s = s := rfl
@[simp] theorem finT_lock (s : St) : finT .lock s = s := rfl
@[simp] theorem finT_unlock (s : St) : finT .unlock s = s := rfl
@[simp] theorem finT_exited (s : St) : finT .exited s = s := rfl
theorem finT_lenTest (s : St) : finT .lenTest s = if s.cancelFns.len > 0 then idxEff s else s := rfl
theorem finT_lenIdx (s : St) : finT .lenIdx s = idxEff s := rfl
theorem finT_load (i : Option Nat) (s : St) : finT (.load i) s = loadEff i s := rfl

theorem loadEff_some (i : Nat) (s : St) : loadEff (some i) s =
    (match s.cancelFns.index i with
     | some (some f) => { s with ctxs := s.ctxs.cancel f }
     | _ => panicSt s) := rfl

/-- a step of the goroutine other than `Lock`; `φ` = the evaluator's pending effect -/
theorem tstep_abs (c c' : Conc) (φ : St → St) (hφ : Outer φ) (hnp : c.sh.rtPanic = false)
    (h : tstep .current c = some c') (hl : c.tpc ≠ .lock) :
    c'.epc = c.epc ∧
    (c'.sh.rtPanic = true → (finT c.tpc (φ c.sh)).rtPanic = true) ∧
    (c'.sh.rtPanic = false → finT c'.tpc (φ c'.sh) = finT c.tpc (φ c.sh)) := by
  unfold tstep at h
  cases hpc : c.tpc <;> simp only [hpc] at h hl ⊢
  case wait =>
    split at h
    · injection h with h; subst h; simp [hnp]
    · split at h
      · injection h with h; subst h; simp [hnp]
      · cases h
  case sel =>
    injection h with h; subst h
    refine ⟨rfl, by simp [hnp], ?_⟩
    intro _
    by_cases hs : c.sh.stopped = true <;> simp [hs]
  case lock => exact absurd rfl hl
  case lenTest =>
    injection h with h; subst h
    refine ⟨rfl, by simp [hnp], ?_⟩
    intro _
    rw [finT_lenTest, hφ.fns]
    by_cases hp : c.sh.cancelFns.len > 0
    · simp only [hp, if_true]; rfl
    · simp only [hp, if_false]; rfl
  case lenIdx =>
    injection h with h; subst h
    refine ⟨rfl, by simp [hnp], ?_⟩
    intro _
    rw [finT_lenIdx, finT_load]
    unfold idxEff
    rw [hφ.fns]
  case load idx =>
    cases idx with
    | none =>
      injection h with h; subst h
      refine ⟨rfl, ?_, by simp [panicSt]⟩
      intro _
      rw [finT_load]; rfl
    | some i =>
      simp only at h
      rw [finT_load, loadEff_some, hφ.fns]
      split at h <;> (injection h with h; subst h)
      · rename_i f hf
        simp only [hf]
        refine ⟨by simp, by simp [hnp], ?_⟩
        intro _
        rw [finT_unlock, hφ.ctxs, hφ.ctxs']
        simp only [hφ.fns]
      · rename_i hne
        refine ⟨rfl, ?_, by simp [panicSt]⟩
        intro _
        split
        · rename_i f hf; exact absurd hf (hne f)
        · rfl
  case unlock =>
    injection h with h; subst h
    simp [hnp]
  case exited => cases h

/-! ### mutual exclusion is preserved -/

theorem finT_out (tpc : TPc) (h : tIn tpc = false) (s : St) : finT tpc s = s := by
  cases tpc <;> simp [tIn] at h <;> rfl

theorem mi_estep (c c' : Conc) (h : estep .current c = some c') (hm : MI c) : MI c' := by
  unfold estep at h
  unfold MI at hm ⊢
  cases hpc : c.epc <;> simp only [hpc] at h hm
  all_goals first
    | (injection h with h; subst h; simp_all [eIn, tIn, Cfg.current, release]; done)
    | skip
  case idle =>
    cases hprog : c.prog with
    | nil => simp [hprog] at h
    | cons op rest =>
      cases op with
      | push p => simp [hprog] at h; subst h; simp_all [eIn, tIn]
      | finish i =>
        simp only [hprog] at h
        cases hp : c.sh.pops[i]? <;> simp [hp] at h <;> subst h <;> simp_all [eIn, tIn]
      | interrupt => simp [hprog] at h; subst h; simp_all [eIn, tIn]
      | stop => simp [hprog] at h; subst h; simp_all [eIn, tIn]
  case pushLock p =>
    simp only [acquire_current] at h
    split at h
    · simp at h; subst h; rename_i hmu; simp_all [eIn, tIn]
    · simp at h
  case popLock p =>
    simp only [acquire_current] at h
    split at h
    · simp at h; subst h; rename_i hmu; simp_all [eIn, tIn]
    · simp at h
  case stopLock =>
    simp only [acquire_current] at h
    split at h
    · simp at h; subst h; rename_i hmu; simp_all [eIn, tIn]
    · simp at h
  case popTest p =>
    by_cases hf : c.sh.cells.getD p.cell false = true
    · simp only [hf, if_true] at h; injection h with h; subst h; simp_all [eIn, tIn]
    · simp only [hf, if_false, Cfg.current] at h; injection h with h; subst h; simp_all [eIn, tIn]
  case popLoop p k =>
    by_cases hk : k > p.stackIdx
    · simp only [hk, if_true, Cfg.current] at h; injection h with h; subst h; simp_all [eIn, tIn]
    · simp only [hk, if_false] at h; injection h with h; subst h; simp_all [eIn, tIn]
  case stopLoop k =>
    by_cases hk : k > 0
    · simp only [hk, if_true] at h; injection h with h; subst h; simp_all [eIn, tIn]
    · simp only [hk, if_false] at h; injection h with h; subst h; simp_all [eIn, tIn]
  all_goals first
    | (split at h <;> (injection h with h; subst h) <;> simp_all [eIn, tIn, Cfg.current, panicSt]; done)
    | skip

theorem mi_tstep (c c' : Conc) (h : tstep .current c = some c') (hm : MI c) : MI c' := by
  unfold tstep at h
  unfold MI at hm ⊢
  cases hpc : c.tpc <;> simp only [hpc] at h hm
  case wait =>
    split at h
    · injection h with h; subst h; simp_all [eIn, tIn]
    · split at h
      · injection h with h; subst h; simp_all [eIn, tIn]
      · cases h
  case sel =>
    by_cases hs : c.sh.stopped = true
    · simp only [hs, if_true] at h; injection h with h; subst h; simp_all [eIn, tIn]
    · simp only [hs, if_false] at h; injection h with h; subst h; simp_all [eIn, tIn]
  case lock =>
    simp only [acquire_current] at h
    split at h
    · rename_i hmu
      simp at h; subst h
      have he : eIn c.epc = false := by
        cases he : eIn c.epc
        · rfl
        · simp [tIn, he, hmu] at hm
      simp [tIn, he]
    · simp at h
  case lenTest =>
    by_cases hp : c.sh.cancelFns.len > 0
    · simp only [hp, if_true] at h; injection h with h; subst h; simp_all [eIn, tIn]
    · simp only [hp, if_false] at h; injection h with h; subst h; simp_all [eIn, tIn]
  case lenIdx => injection h with h; subst h; simp_all [eIn, tIn]
  case load idx =>
    cases idx with
    | none => injection h with h; subst h; simp_all [eIn, tIn, panicSt]
    | some i =>
      simp only at h
      split at h <;> (injection h with h; subst h) <;> simp_all [eIn, tIn, panicSt]
  case unlock => injection h with h; subst h; simp_all [eIn, tIn, release, Cfg.current]
  case exited => cases h


/-! ### bookkeeping, frame and Lock steps -/

def stopPhase : EPc → Bool
  | .stopLock | .stopLoopInit | .stopLoop _ | .stopCall _ | .stopUnlock | .stopClose => true
  | _ => false

/-- Stop, if it occurs in the evaluator's program, is its last operation -/
def StopLast (prog : List Op) : Prop := ∀ pre post, prog = pre ++ .stop :: post → post = []

theorem stopLast_tail {op : Op} {rest : List Op} (h : StopLast (op :: rest)) : StopLast rest := by
  intro pre post he
  exact h (op :: pre) post (by rw [he]; rfl)

theorem stopLast_stop {rest : List Op} (h : StopLast (.stop :: rest)) : rest = [] :=
  h [] rest rfl

/-- after the evaluator's cleanup phase: idle, or somewhere in Stop after its `Lock` -/
def afterStop (epc : EPc) : Prop := epc = .idle ∨ (stopPhase epc = true ∧ epc ≠ .stopLock)

/-- bookkeeping facts about a step of the evaluator -/
theorem estep_book (c c' : Conc) (cur : Nat) (h : estep .current c = some c')
    (pl : ∀ p, c.epc = .popLock p → c.sh.pops[cur]? = some p) (sl : StopLast c.prog)
    (s1 : stopPhase c.epc = true → c.prog = []) :
    (∀ p, c'.epc = .popLock p →
      c'.sh.pops[(match c.epc, c.prog with | .idle, .finish i :: _ => i | _, _ => cur)]? = some p) ∧
    StopLast c'.prog ∧ (stopPhase c'.epc = true → c'.prog = []) ∧
    (afterStop c.epc → c.prog = [] → afterStop c'.epc ∧ c'.prog = []) ∧
    (c.epc = .stopLock → c'.epc = .stopLoopInit) := by
  unfold estep at h
  cases hpc : c.epc <;> simp only [hpc] at h pl s1 ⊢
  case idle =>
    cases hprog : c.prog with
    | nil => simp [hprog] at h
    | cons op rest =>
      rw [hprog] at sl
      have sl' := stopLast_tail sl
      cases op with
      | push p => simp [hprog] at h; subst h; simp_all [stopPhase, afterStop]
      | finish i =>
        simp only [hprog] at h
        cases hp : c.sh.pops[i]? <;> simp [hp] at h <;> subst h <;> simp_all [stopPhase, afterStop]
      | interrupt => simp [hprog] at h; subst h; simp_all [stopPhase, afterStop]
      | stop =>
        have := stopLast_stop sl
        simp [hprog] at h; subst h; simp_all [stopPhase, afterStop]
  case pushLock p =>
    simp only [acquire_current] at h
    split at h
    · simp at h; subst h; simp_all [stopPhase, afterStop]
    · simp at h
  case popLock p =>
    simp only [acquire_current] at h
    split at h
    · simp at h; subst h; simp_all [stopPhase, afterStop]
    · simp at h
  case stopLock =>
    simp only [acquire_current] at h
    split at h
    · simp at h; subst h; simp_all [stopPhase, afterStop]
    · simp at h
  case popTest p =>
    by_cases hf : c.sh.cells.getD p.cell false = true
    · simp only [hf, if_true] at h; injection h with h; subst h; simp_all [stopPhase, afterStop]
    · simp only [hf, if_false, Cfg.current] at h; injection h with h; subst h; simp_all [stopPhase, afterStop]
  case popLoop p k =>
    by_cases hk : k > p.stackIdx
    · simp only [hk, if_true, Cfg.current] at h; injection h with h; subst h; simp_all [stopPhase, afterStop]
    · simp only [hk, if_false] at h; injection h with h; subst h; simp_all [stopPhase, afterStop]
  case stopLoop k =>
    by_cases hk : k > 0
    · simp only [hk, if_true] at h; injection h with h; subst h; simp_all [stopPhase, afterStop]
    · simp only [hk, if_false] at h; injection h with h; subst h; simp_all [stopPhase, afterStop]
  all_goals first
    | (injection h with h; subst h; simp_all [stopPhase, afterStop, Cfg.current, release]; done)
    | (split at h <;> (injection h with h; subst h) <;> simp_all [stopPhase, afterStop, Cfg.current, panicSt]; done)
    | skip

/-- the goroutine never touches the program, the evaluator's pc or the closures -/
theorem tstep_frame (c c' : Conc) (h : tstep .current c = some c') :
    c'.epc = c.epc ∧ c'.prog = c.prog ∧ c'.sh.pops = c.sh.pops := by
  unfold tstep at h
  cases hpc : c.tpc <;> simp only [hpc] at h
  case wait =>
    split at h
    · injection h with h; subst h; simp
    · split at h
      · injection h with h; subst h; simp
      · cases h
  case lock =>
    simp only [acquire_current] at h
    split at h
    · simp at h; subst h; simp
    · simp at h
  case load idx =>
    cases idx with
    | none => injection h with h; subst h; simp [panicSt]
    | some i =>
      simp only at h
      split at h <;> (injection h with h; subst h) <;> simp [panicSt]
  case exited => cases h
  all_goals (injection h with h; subst h; simp [release, Cfg.current])

/-- outside its critical section the goroutine does not write the shared state -/
theorem tstep_out (c c' : Conc) (h : tstep .current c = some c') (ht : tIn c.tpc = false) (hl : c.tpc ≠ .lock) :
    c'.sh = c.sh ∧ tIn c'.tpc = false := by
  unfold tstep at h
  cases hpc : c.tpc <;> simp only [hpc] at h ht hl
  case wait =>
    split at h
    · injection h with h; subst h; simp [tIn]
    · split at h
      · injection h with h; subst h; simp [tIn]
      · cases h
  case sel =>
    injection h with h; subst h
    refine ⟨rfl, ?_⟩
    by_cases hs : c.sh.stopped = true <;> simp [hs, tIn]
  case lock => exact absurd rfl hl
  case exited => cases h
  all_goals simp [tIn] at ht

/-- the `Lock` step of the goroutine -/
theorem tstep_lock (c c' : Conc) (h : tstep .current c = some c') (hpc : c.tpc = .lock) (hm : MI c) :
    c'.sh = c.sh ∧ c'.tpc = .lenTest ∧ eIn c.epc = false := by
  unfold tstep at h
  simp only [hpc, acquire_current] at h
  split at h
  · rename_i hmu
    simp at h; subst h
    refine ⟨rfl, rfl, ?_⟩
    cases he : eIn c.epc
    · rfl
    · unfold MI at hm; simp [hpc, tIn, he, hmu] at hm
  · simp at h

def nextOfLock : EPc → EPc
  | .pushLock p => .pushWithCancel p
  | .popLock p => .popTest p
  | .stopLock => .stopLoopInit
  | e => e

/-- the `Lock` step of the evaluator -/
theorem estep_lock (c c' : Conc) (h : estep .current c = some c') (hl : isLockPc c.epc = true) (hm : MI c) :
    c'.sh = c.sh ∧ c'.tpc = c.tpc ∧ c'.epc = nextOfLock c.epc ∧ tIn c.tpc = false ∧ c'.prog = c.prog := by
  unfold estep at h
  have key : c.mu = none → tIn c.tpc = false := by
    intro hmu
    cases ht : tIn c.tpc
    · rfl
    · unfold MI at hm; simp [ht, hmu] at hm
  cases hpc : c.epc <;> simp only [hpc, isLockPc] at h hl ⊢
  all_goals first
    | (simp only [acquire_current] at h
       split at h
       · rename_i hmu; simp at h; subst h; exact ⟨rfl, rfl, rfl, key hmu, rfl⟩
       · simp at h)
    | (simp at hl)

/-! ### after Stop the top of the stack is cancelled -/

/-- the top of the stack, if there is one, is already cancelled -/
def TopC (s : St) : Prop :=
  s.cancelFns.len > 0 →
    ∃ f, s.cancelFns.index (s.cancelFns.len - 1) = some (some f) ∧ s.ctxs.cancel f = s.ctxs

theorem finT_lenTest_topC (s : St) (h : TopC s) : finT .lenTest s = s := by
  rw [finT_lenTest]
  split
  · rename_i hp
    obtain ⟨f, hf, hc⟩ := h hp
    unfold idxEff
    have : ¬ s.cancelFns.len = 0 := by omega
    simp only [this, if_false]
    rw [loadEff_some, hf]
    simp only [hc]
  · rfl

theorem stop_eq {m : St} (h : SInv m) :
    stop m = closeEffect { m with ctxs := { m.ctxs with self := setAll (fun j => decide (j ∈ ids m.cells)) m.ctxs.self } } := by
  have hlen := len_eq_ids h
  have hloop := stopLoop_spec (ids m.cells) m.cancelFns.len m h.wfF h.liveF (by omega)
  have htake : (ids m.cells).take m.cancelFns.len = ids m.cells := by
    rw [hlen]; exact List.take_length
  rw [htake] at hloop
  unfold stop
  rw [hloop]
  simp only [h.noPanic, Bool.false_eq_true, if_false]
  rfl

theorem topC_stop {m : St} (h : SInv m) : TopC (stop m) := by
  rw [stop_eq h]
  intro hp
  rw [closeEffect_fns] at hp ⊢
  simp only at hp ⊢
  have hlen := len_eq_ids h
  have hi : m.cancelFns.len - 1 < (ids m.cells).length := by omega
  refine ⟨(ids m.cells)[m.cancelFns.len - 1], index_of_live h.wfF h.liveF hi, ?_⟩
  have hmem : (ids m.cells)[m.cancelFns.len - 1] ∈ ids m.cells := List.getElem_mem _
  have hlt : (ids m.cells)[m.cancelFns.len - 1] < m.ctxs.self.length := by
    rw [h.slen]; exact R_lt (mem_ids.mp hmem)
  rw [outer_close.ctxs']
  simp only [Ctxs.cancel]
  congr 1
  apply List.ext_getElem
  · simp
  · intro j h1 h2
    simp only [List.getElem_set, setAll, List.getElem_mapIdx]
    split
    · rename_i hj; subst hj; simp [hmem]
    · rfl


/-! ### the instrumented run -/

/-- machine state + the linearization built so far (ghost) + the index of the closure the evaluator
    is about to call (ghost) -/
structure G where
  c : Conc
  lin : List Op
  cur : Nat

def G.init (prog : List Op) : G := ⟨.init prog, [], 0⟩

/-- operations enter `lin` when their critical section takes the mutex; a `finish i` for which no
    closure exists (not an operation of the stack) enters when the evaluator skips it -/
def linE (g : G) : List Op :=
  match g.c.epc with
  | .pushLock p => g.lin ++ [.push p]
  | .popLock _ => g.lin ++ [.finish g.cur]
  | .stopLock => g.lin ++ [.stop]
  | .idle => (match g.c.prog with
      | .finish i :: _ => if g.c.sh.pops[i]? = none then g.lin ++ [.finish i] else g.lin
      | _ => g.lin)
  | _ => g.lin

def curE (g : G) : Nat :=
  match g.c.epc, g.c.prog with
  | .idle, .finish i :: _ => i
  | _, _ => g.cur

def gstep (t : Tid) (g : G) : G :=
  match cstep .current t g.c with
  | none => g
  | some c' =>
    match t with
    | .trig => ⟨c', if g.c.tpc = .lock then g.lin ++ [.interrupt] else g.lin, g.cur⟩
    | .eval => ⟨c', linE g, curE g⟩

def grun (sched : List Tid) (g : G) : G := sched.foldl (fun g t => gstep t g) g

theorem grun_c (sched : List Tid) : ∀ g : G, (grun sched g).c = crun .current sched g.c := by
  induction sched with
  | nil => intro g; rfl
  | cons t rest ih =>
    intro g
    simp only [grun, crun, List.foldl_cons] at ih ⊢
    rw [ih]
    congr 1
    unfold gstep
    cases cstep Cfg.current t g.c with
    | none => rfl
    | some c' => cases t <;> rfl

structure GI (g : G) : Prop where
  mi : MI g.c
  ab : absC g.c = run .fixed g.lin
  pl : ∀ p, g.c.epc = .popLock p → g.c.sh.pops[g.cur]? = some p
  sl : StopLast g.c.prog
  s1 : stopPhase g.c.epc = true → g.c.prog = []
  s2 : (absC g.c).stopped = true → g.c.prog = [] ∧ afterStop g.c.epc ∧ TopC (absC g.c)

theorem gi_np {g : G} (h : GI g) : g.c.sh.rtPanic = false := by
  cases hp : g.c.sh.rtPanic
  · rfl
  · have := (run_sim g.lin).1.noPanic
    rw [← h.ab] at this
    unfold absC at this
    rw [if_pos hp] at this
    rw [hp] at this; cases this

theorem gi_sinv {g : G} (h : GI g) : SInv (absC g.c) := h.ab ▸ (run_sim g.lin).1

theorem gi_init (prog : List Op) (hs : StopLast prog) : GI (G.init prog) := by
  refine ⟨?_, rfl, ?_, hs, ?_, ?_⟩
  · unfold MI G.init Conc.init; simp [tIn, eIn]
  · intro p hp; simp [G.init, Conc.init] at hp
  · intro hp; simp [G.init, Conc.init, stopPhase] at hp
  · intro hp; simp [G.init, Conc.init, absC, St.init, finT, finE] at hp

theorem run_snoc (lin : List Op) (op : Op) : run .fixed (lin ++ [op]) = step .fixed (run .fixed lin) op := by
  simp [run, List.foldl_append]

theorem finT_pops (tpc : TPc) (s : St) : (finT tpc s).pops = s.pops := by
  cases tpc with
  | lenTest =>
    rw [finT_lenTest]; split
    · unfold idxEff loadEff; split
      · rfl
      · split <;> rfl
    · rfl
  | lenIdx =>
    rw [finT_lenIdx]; unfold idxEff loadEff; split
    · rfl
    · split <;> rfl
  | load idx =>
    rw [finT_load]; unfold loadEff; split
    · rfl
    · split <;> rfl
  | _ => rfl

theorem finE_out' (epc : EPc) (h : eIn epc = false) : Outer (finE epc) := by
  cases epc <;> simp [eIn] at h
  case stopClose => exact outer_close
  all_goals exact outer_id

theorem estep_out_panic (c c' : Conc) (h : estep .current c = some c') (ho : eIn c.epc = false)
    (hl : isLockPc c.epc = false) : c'.sh.rtPanic = c.sh.rtPanic := by
  unfold estep at h
  cases hpc : c.epc <;> simp only [hpc, eIn, isLockPc] at h ho hl
  case idle =>
    cases hprog : c.prog with
    | nil => simp [hprog] at h
    | cons op rest =>
      cases op with
      | push p => simp [hprog] at h; subst h; rfl
      | finish i =>
        simp only [hprog] at h
        cases hp : c.sh.pops[i]? <;> simp [hp] at h <;> subst h <;> rfl
      | interrupt => simp [hprog] at h; subst h; rfl
      | stop => simp [hprog] at h; subst h; rfl
  case stopClose =>
    injection h with h; subst h
    simp only
    split <;> rfl
  all_goals simp at ho hl


/-! ### the invariant is preserved -/

theorem cstep_eq (t : Tid) (c : Conc) (hnp : c.sh.rtPanic = false) :
    cstep .current t c = (match t with | .trig => tstep .current c | .eval => estep .current c) := by
  unfold cstep; rw [if_neg (by rw [hnp]; simp)]; cases t <;> rfl

theorem absC_eq (c : Conc) (hnp : c.sh.rtPanic = false) : absC c = finT c.tpc (finE c.epc c.sh) := by
  unfold absC; rw [if_neg (by rw [hnp]; simp)]

theorem step_fixed_eq (s : St) (op : Op) (h : s.rtPanic = false) :
    step .fixed s op = (match op with
      | .push p => push .fixed s p
      | .finish i => finish .fixed s i
      | .interrupt => interrupt s
      | .stop => stop s) := by
  unfold step; rw [if_neg (by rw [h]; simp)]; cases op <;> rfl

/-- goroutine steps preserve the invariant -/
theorem gi_tstep (g : G) (h : GI g) (c' : Conc) (ht : tstep .current g.c = some c') :
    GI ⟨c', if g.c.tpc = .lock then g.lin ++ [.interrupt] else g.lin, g.cur⟩ := by
  have hnp := gi_np h
  have hσ := gi_sinv h
  obtain ⟨fe, fp, fpops⟩ := tstep_frame g.c c' ht
  have hmi := mi_tstep g.c c' ht h.mi
  have hab0 := absC_eq g.c hnp
  by_cases hlock : g.c.tpc = .lock
  · -- the goroutine takes the mutex: the interrupt is linearized here
    simp only [hlock, if_true]
    obtain ⟨hsh, htpc, hein⟩ := tstep_lock g.c c' ht hlock h.mi
    have hnp' : c'.sh.rtPanic = false := by rw [hsh]; exact hnp
    have hσeq : absC g.c = finE g.c.epc g.c.sh := by rw [hab0, hlock]; rfl
    have hab' : absC c' = finT .lenTest (absC g.c) := by
      rw [absC_eq c' hnp', htpc, fe, hsh, hσeq]
    have hstep : run .fixed (g.lin ++ [.interrupt]) = interrupt (absC g.c) := by
      rw [run_snoc, ← h.ab, step_fixed_eq _ _ hσ.noPanic]
    have key : absC c' = interrupt (absC g.c) ∧ ((absC g.c).stopped = true → absC c' = absC g.c) := by
      cases hst : (absC g.c).stopped
      · exact ⟨by rw [hab', finT_lenTest_eq _ hst], by intro hc; cases hc⟩
      · obtain ⟨_, _, htop⟩ := h.s2 hst
        have e1 : absC c' = absC g.c := by rw [hab', finT_lenTest_topC _ htop]
        refine ⟨?_, fun _ => e1⟩
        rw [e1]; unfold interrupt; rw [if_pos hst]
    refine ⟨hmi, by rw [key.1, hstep], ?_, by rw [fp]; exact h.sl, by rw [fe, fp]; exact h.s1, ?_⟩
    · intro p hp; show c'.sh.pops[g.cur]? = some p; rw [fpops]; exact h.pl p (by rw [← fe]; exact hp)
    · intro hst
      show c'.prog = [] ∧ afterStop c'.epc ∧ TopC (absC c')
      have hst0 : (absC g.c).stopped = true := by
        rw [key.1] at hst
        rw [← (interrupt_frame hσ).2.2.2.2.2]; exact hst
      obtain ⟨a, b, d⟩ := h.s2 hst0
      rw [fp, fe, key.2 hst0]; exact ⟨a, b, d⟩
  · simp only [hlock, if_false]
    have hab' : absC c' = absC g.c := by
      cases htin : tIn g.c.tpc
      · obtain ⟨hsh, htin'⟩ := tstep_out g.c c' ht htin hlock
        have hnp' : c'.sh.rtPanic = false := by rw [hsh]; exact hnp
        rw [absC_eq c' hnp', hab0, finT_out _ htin', finT_out _ htin, fe, hsh]
      · have hein : eIn g.c.epc = false := by
          cases he : eIn g.c.epc
          · rfl
          · have := h.mi.2; simp [htin, he] at this
        obtain ⟨_, ha, hb⟩ := tstep_abs g.c c' (finE g.c.epc) (finE_out' _ hein) hnp ht hlock
        have hnp' : c'.sh.rtPanic = false := by
          cases hp : c'.sh.rtPanic
          · rfl
          · have := ha hp
            rw [← hab0, hσ.noPanic] at this; cases this
        rw [absC_eq c' hnp', fe, hb hnp', hab0]
    refine ⟨hmi, by rw [hab']; exact h.ab, ?_, by rw [fp]; exact h.sl, by rw [fe, fp]; exact h.s1, ?_⟩
    · intro p hp; show c'.sh.pops[g.cur]? = some p; rw [fpops]; exact h.pl p (by rw [← fe]; exact hp)
    · intro hst
      show c'.prog = [] ∧ afterStop c'.epc ∧ TopC (absC c')
      rw [hab'] at hst ⊢
      rw [fp, fe]; exact h.s2 hst


theorem finE_lockpc (epc : EPc) (h : isLockPc epc = true) (s : St) : finE epc s = s := by
  cases epc <;> simp [isLockPc] at h <;> rfl

theorem push_stopped (s : St) (p : Option Nat) : (push .fixed s p).stopped = s.stopped := rfl

theorem finish_stopped {m : St} (h : SInv m) (i : Nat) : (finish .fixed m i).stopped = m.stopped := by
  have := (finish_sim h i).2
  have h1 : (abs (finish .fixed m i)).stopped = ((abs m).step (.finish i)).stopped := by rw [this]
  have h2 : ((abs m).step (.finish i)).stopped = (abs m).stopped := by
    cases hr : (abs m).running.getD i false
    · rw [spec_finish_noop _ _ hr]
    · rw [spec_finish_run _ _ hr]
  exact h1.trans h2

theorem stop_stopped {m : St} (h : SInv m) : (stop m).stopped = true := by
  have := (stop_sim h).2
  have h1 : (abs (stop m)).stopped = ((abs m).step .stop).stopped := by rw [this]
  exact h1

/-- evaluator steps preserve the invariant -/
theorem gi_estep (g : G) (h : GI g) (c' : Conc) (he : estep .current g.c = some c') :
    GI ⟨c', linE g, curE g⟩ := by
  have hnp := gi_np h
  have hσ := gi_sinv h
  obtain ⟨bpl, bsl, bs1, bafter, bstop⟩ := estep_book g.c c' g.cur he h.pl h.sl h.s1
  have hmi := mi_estep g.c c' he h.mi
  have hab0 := absC_eq g.c hnp
  cases hl : isLockPc g.c.epc
  · -- not a Lock step: the abstraction does not move
    obtain ⟨hE, htpc⟩ := estep_absE g.c c' hnp he hl
    have hab' : absC c' = absC g.c := by
      cases hein : eIn g.c.epc
      · have hp := estep_out_panic g.c c' he hein hl
        rw [hnp] at hp
        have : finE c'.epc c'.sh = finE g.c.epc g.c.sh := by
          unfold absE at hE; rw [if_neg (by rw [hp]; simp)] at hE; exact hE
        rw [absC_eq c' hp, htpc, this, hab0]
      · have htin : tIn g.c.tpc = false := by
          cases ht : tIn g.c.tpc
          · rfl
          · have := h.mi.2; simp [ht, hein] at this
        rw [hab0, finT_out _ htin, ← hE]
        unfold absC absE
        rw [htpc, finT_out _ htin]
    have hlin : run .fixed (linE g) = run .fixed g.lin := by
      unfold linE
      cases hpc : g.c.epc <;> simp only [hpc, isLockPc] at hl ⊢
      case idle =>
        cases hprog : g.c.prog with
        | nil => rfl
        | cons op rest =>
          cases op with
          | finish i =>
            simp only
            split
            · rename_i hnone
              rw [run_snoc, ← h.ab, step_fixed_eq _ _ hσ.noPanic]
              simp only
              unfold finish
              have : (absC g.c).pops[i]? = none := by
                rw [hab0, finT_pops, hpc]; exact hnone
              rw [this, h.ab]
            · rfl
          | _ => rfl
      all_goals first | rfl | (simp at hl)
    refine ⟨hmi, by rw [hab', hlin]; exact h.ab, ?_, bsl, bs1, ?_⟩
    · intro p hp; exact bpl p hp
    · intro hst
      show c'.prog = [] ∧ afterStop c'.epc ∧ TopC (absC c')
      rw [hab'] at hst ⊢
      obtain ⟨a, b, d⟩ := h.s2 hst
      obtain ⟨b', a'⟩ := bafter b a
      exact ⟨a', b', d⟩
  · -- a Lock step: the operation is linearized here
    obtain ⟨hsh, htpc, hepc, htin, hprog⟩ := estep_lock g.c c' he hl h.mi
    have hσeq : absC g.c = g.c.sh := by rw [hab0, finT_out _ htin, finE_lockpc _ hl]
    have hnp' : c'.sh.rtPanic = false := by rw [hsh]; exact hnp
    have hab' : absC c' = finE (nextOfLock g.c.epc) g.c.sh := by
      rw [absC_eq c' hnp', htpc, finT_out _ htin, hepc, hsh]
    have hσ' : SInv g.c.sh := hσeq ▸ hσ
    cases hpc : g.c.epc <;> simp only [hpc, isLockPc] at hl
    case pushLock p =>
      have hlinE : linE g = g.lin ++ [.push p] := by unfold linE; simp only [hpc]
      have hval : absC c' = push .fixed g.c.sh p := by rw [hab', hpc]; rfl
      refine ⟨hmi, ?_, bpl, bsl, bs1, ?_⟩
      · show absC c' = run .fixed (linE g)
        rw [hlinE, run_snoc, ← h.ab, step_fixed_eq _ _ hσ.noPanic, hσeq, hval]
      · intro hst
        exfalso
        have hst' : (absC c').stopped = true := hst
        rw [hval, push_stopped, ← hσeq] at hst'
        obtain ⟨_, b, _⟩ := h.s2 hst'
        unfold afterStop at b; simp [hpc, stopPhase] at b
    case popLock p =>
      have hlinE : linE g = g.lin ++ [.finish g.cur] := by unfold linE; simp only [hpc]
      have hpops := h.pl p hpc
      have hfin : finish .fixed g.c.sh g.cur = finishFixed g.c.sh p := by
        unfold finish; rw [hpops]
      have hval : absC c' = finishFixed g.c.sh p := by
        rw [hab', hpc]; exact finE_popTest_eq p _ hnp
      refine ⟨hmi, ?_, bpl, bsl, bs1, ?_⟩
      · show absC c' = run .fixed (linE g)
        rw [hlinE, run_snoc, ← h.ab, step_fixed_eq _ _ hσ.noPanic, hσeq, hval]
        exact hfin.symm
      · intro hst
        exfalso
        have hst' : (absC c').stopped = true := hst
        rw [hval, ← hfin, finish_stopped hσ', ← hσeq] at hst'
        obtain ⟨_, b, _⟩ := h.s2 hst'
        unfold afterStop at b; simp [hpc, stopPhase] at b
    case stopLock =>
      have hlinE : linE g = g.lin ++ [.stop] := by unfold linE; simp only [hpc]
      have hval : absC c' = stop g.c.sh := by
        rw [hab', hpc]; exact finE_stopLoopInit_eq _ hnp
      refine ⟨hmi, ?_, bpl, bsl, bs1, ?_⟩
      · show absC c' = run .fixed (linE g)
        rw [hlinE, run_snoc, ← h.ab, step_fixed_eq _ _ hσ.noPanic, hσeq, hval]
      · intro _
        show c'.prog = [] ∧ afterStop c'.epc ∧ TopC (absC c')
        refine ⟨?_, ?_, ?_⟩
        · rw [hprog]; exact h.s1 (by rw [hpc]; rfl)
        · rw [bstop hpc]; right; exact ⟨rfl, by simp⟩
        · rw [hval]; exact topC_stop hσ'
    all_goals simp at hl

theorem gi_step (t : Tid) (g : G) (h : GI g) : GI (gstep t g) := by
  unfold gstep
  have hnp := gi_np h
  rw [cstep_eq t g.c hnp]
  cases t with
  | trig =>
    simp only
    cases ht : tstep Cfg.current g.c with
    | none => exact h
    | some c' => exact gi_tstep g h c' ht
  | eval =>
    simp only
    cases he : estep Cfg.current g.c with
    | none => exact h
    | some c' => exact gi_estep g h c' he

theorem gi_run (sched : List Tid) : ∀ g : G, GI g → GI (grun sched g) := by
  induction sched with
  | nil => intro g h; exact h
  | cons t rest ih => intro g h; exact ih _ (gi_step t g h)


/-! ### what the linearization consists of -/

/-- the evaluator's own operations (an `.interrupt` in its program is the arrival of an interrupt) -/
def evalOps (l : List Op) : List Op := l.filter (fun o => o != .interrupt)

/-- the operation the evaluator has fetched and not yet linearized -/
def inflight (epc : EPc) (cur : Nat) : List Op :=
  match epc with
  | .pushLock p => [.push p]
  | .popLock _ => [.finish cur]
  | .stopLock => [.stop]
  | _ => []

/-- an interrupt the goroutine has taken and not yet linearized -/
def tok (c : Conc) : Nat :=
  if c.tpc = .lock ∨ (c.tpc = .sel ∧ c.sh.stopped = false) then 1 else 0

def ints (l : List Op) : Nat := l.count .interrupt

theorem evalOps_snoc_int (l : List Op) : evalOps (l ++ [.interrupt]) = evalOps l := by
  simp [evalOps]

theorem evalOps_snoc (l : List Op) (o : Op) (h : o ≠ .interrupt) : evalOps (l ++ [o]) = evalOps l ++ [o] := by
  simp [evalOps, h]

theorem estep_acc (g : G) (c' : Conc) (he : estep .current g.c = some c') :
    evalOps (linE g) ++ inflight c'.epc (curE g) ++ evalOps c'.prog =
      evalOps g.lin ++ inflight g.c.epc g.cur ++ evalOps g.c.prog ∧
    ints (linE g) = ints g.lin ∧
    c'.pending + ints c'.prog = g.c.pending + ints g.c.prog ∧
    c'.tpc = g.c.tpc ∧ (c'.sh.stopped = false → g.c.sh.stopped = false) := by
  unfold estep at he
  unfold linE curE
  cases hpc : g.c.epc <;> simp only [hpc] at he ⊢
  case idle =>
    cases hprog : g.c.prog with
    | nil => simp [hprog] at he
    | cons op rest =>
      cases op with
      | push p => simp [hprog] at he; subst he; simp [inflight, evalOps, ints]
      | finish i =>
        simp only [hprog] at he
        cases hp : g.c.sh.pops[i]? <;> simp [hp] at he <;> subst he <;> simp [inflight, evalOps, ints, hp]
      | interrupt => simp [hprog] at he; subst he; simp [inflight, evalOps, ints]; omega
      | stop => simp [hprog] at he; subst he; simp [inflight, evalOps, ints]
  case pushLock p =>
    simp only [acquire_current] at he
    split at he
    · simp at he; subst he; simp [inflight, evalOps, ints]
    · simp at he
  case popLock p =>
    simp only [acquire_current] at he
    split at he
    · simp at he; subst he; simp [inflight, evalOps, ints]
    · simp at he
  case stopLock =>
    simp only [acquire_current] at he
    split at he
    · simp at he; subst he; simp [inflight, evalOps, ints]
    · simp at he
  case popTest p =>
    by_cases hf : g.c.sh.cells.getD p.cell false = true
    · simp only [hf, if_true] at he; injection he with he; subst he; simp [inflight]
    · simp only [hf, if_false, Cfg.current] at he; injection he with he; subst he; simp [inflight]
  case popLoop p k =>
    by_cases hk : k > p.stackIdx
    · simp only [hk, if_true, Cfg.current] at he; injection he with he; subst he; simp [inflight]
    · simp only [hk, if_false] at he; injection he with he; subst he; simp [inflight]
  case stopLoop k =>
    by_cases hk : k > 0
    · simp only [hk, if_true] at he; injection he with he; subst he; simp [inflight]
    · simp only [hk, if_false] at he; injection he with he; subst he; simp [inflight]
  case stopClose =>
    injection he with he; subst he
    simp [inflight]
    split <;> simp_all
  all_goals first
    | (injection he with he; subst he; simp [inflight, Cfg.current, release]; done)
    | (split at he <;> (injection he with he; subst he) <;> simp [inflight, Cfg.current, panicSt]; done)
    | skip

theorem tstep_acc (c c' : Conc) (lin : List Op) (ht : tstep .current c = some c') :
    evalOps (if c.tpc = .lock then lin ++ [.interrupt] else lin) = evalOps lin ∧
    ints (if c.tpc = .lock then lin ++ [.interrupt] else lin) + c'.pending + tok c' ≤ ints lin + c.pending + tok c := by
  unfold tstep at ht
  cases hpc : c.tpc <;> simp only [hpc] at ht ⊢
  case wait =>
    split at ht
    · rename_i hs; injection ht with ht; subst ht; simp [tok, hpc, hs]
    · split at ht
      · rename_i hs hp; injection ht with ht; subst ht; simp [tok, hpc, hs]; omega
      · cases ht
  case sel =>
    injection ht with ht; subst ht
    by_cases hs : c.sh.stopped = true <;> simp [tok, hpc, hs]
  case lock =>
    simp only [acquire_current] at ht
    split at ht
    · simp at ht; subst ht; simp [tok, hpc, evalOps, ints]; omega
    · simp at ht
  case lenTest =>
    injection ht with ht; subst ht
    by_cases hp : c.sh.cancelFns.len > 0 <;> simp [tok, hpc, hp]
  case lenIdx => injection ht with ht; subst ht; simp [tok, hpc]
  case load idx =>
    cases idx with
    | none => injection ht with ht; subst ht; simp [tok, hpc, panicSt]
    | some i =>
      simp only at ht
      split at ht <;> (injection ht with ht; subst ht) <;> simp [tok, hpc, panicSt]
  case unlock => injection ht with ht; subst ht; simp [tok, hpc, release, Cfg.current]
  case exited => cases ht

/-- the linearization is the evaluator's program so far, in program order, with interrupts
    inserted — never more interrupts than have arrived -/
structure Acc (prog0 : List Op) (g : G) : Prop where
  ord : evalOps g.lin ++ inflight g.c.epc g.cur ++ evalOps g.c.prog = evalOps prog0
  cnt : ints g.lin + g.c.pending + tok g.c + ints g.c.prog ≤ ints prog0

theorem acc_init (prog : List Op) : Acc prog (G.init prog) := by
  refine ⟨?_, ?_⟩
  · simp [G.init, Conc.init, evalOps, inflight]
  · simp [G.init, Conc.init, ints, tok]

theorem tok_mono (c c' : Conc) (h1 : c'.tpc = c.tpc) (h2 : c'.sh.stopped = false → c.sh.stopped = false) :
    tok c' ≤ tok c := by
  unfold tok
  rw [h1]
  by_cases hl : c.tpc = .lock
  · simp [hl]
  · by_cases hs : c.tpc = .sel
    · cases h3 : c'.sh.stopped
      · simp [hs, h2 h3]
      · simp [hs]
    · simp [hl, hs]

theorem acc_step (prog0 : List Op) (t : Tid) (g : G) (hg : GI g) (h : Acc prog0 g) : Acc prog0 (gstep t g) := by
  unfold gstep
  rw [cstep_eq t g.c (gi_np hg)]
  cases t with
  | trig =>
    simp only
    cases ht : tstep Cfg.current g.c with
    | none => exact h
    | some c' =>
      obtain ⟨fe, fp, _⟩ := tstep_frame g.c c' ht
      obtain ⟨a, b⟩ := tstep_acc g.c c' g.lin ht
      refine ⟨?_, ?_⟩
      · show evalOps (if g.c.tpc = .lock then g.lin ++ [.interrupt] else g.lin) ++ inflight c'.epc g.cur ++ evalOps c'.prog = _
        rw [a, fe, fp]; exact h.ord
      · show ints (if g.c.tpc = .lock then g.lin ++ [.interrupt] else g.lin) + c'.pending + tok c' + ints c'.prog ≤ _
        rw [fp]; have := h.cnt; omega
  | eval =>
    simp only
    cases he : estep Cfg.current g.c with
    | none => exact h
    | some c' =>
      obtain ⟨a, b, d, e, f⟩ := estep_acc g c' he
      have := tok_mono g.c c' e f
      refine ⟨?_, ?_⟩
      · show evalOps (linE g) ++ inflight c'.epc (curE g) ++ evalOps c'.prog = _
        rw [a]; exact h.ord
      · show ints (linE g) + c'.pending + tok c' + ints c'.prog ≤ _
        rw [b]; have := h.cnt; omega

theorem acc_run (prog0 : List Op) (sched : List Tid) : ∀ g : G, GI g → Acc prog0 g → Acc prog0 (grun sched g) := by
  induction sched with
  | nil => intro g _ h; exact h
  | cons t rest ih => intro g hg h; exact ih _ (gi_step t g hg) (acc_step prog0 t g hg h)


/-! ### progress -/

theorem tstep_in_enabled (c : Conc) (h : tIn c.tpc = true) : (tstep .current c).isSome = true := by
  unfold tstep
  cases hpc : c.tpc <;> simp only [hpc, tIn] at h ⊢
  case load idx =>
    cases idx with
    | none => rfl
    | some i => simp only; split <;> rfl
  all_goals first | rfl | (simp at h)

theorem estep_in_enabled (c : Conc) (h : eIn c.epc = true) : (estep .current c).isSome = true := by
  unfold estep
  cases hpc : c.epc <;> simp only [hpc, eIn] at h ⊢
  all_goals first | rfl | (split <;> rfl) | (simp at h)

/-- progress: if the evaluator has anything left to do, a thread is enabled -/
theorem progress (c : Conc) (hmi : MI c) (hwork : c.prog ≠ [] ∨ c.epc ≠ .idle) :
    (estep .current c).isSome = true ∨ (tstep .current c).isSome = true := by
  cases hin : eIn c.epc
  · cases htin : tIn c.tpc
    · -- the mutex is free
      have hmu : c.mu = none := by have := hmi.1; simp [htin, hin] at this; exact this
      left
      unfold estep
      cases hpc : c.epc <;> simp only [hpc, eIn] at hin ⊢
      case idle =>
        cases hprog : c.prog with
        | nil => rcases hwork with hw | hw <;> simp_all
        | cons op rest =>
          cases op with
          | finish i => simp only; split <;> rfl
          | _ => rfl
      case stopClose => rfl
      all_goals first | (simp [acquire_current, hmu]; done) | (simp at hin)
    · right; exact tstep_in_enabled c htin
  · left; exact estep_in_enabled c hin


/-- executable form of `StopLast` -/
def stopLastB : List Op → Bool
  | [] => true
  | .stop :: rest => rest.isEmpty
  | _ :: rest => stopLastB rest

theorem stopLast_of_b : ∀ (l : List Op), stopLastB l = true → StopLast l := by
  intro l
  induction l with
  | nil => intro _ pre post h; cases pre <;> simp at h
  | cons op rest ih =>
    intro hb pre post h
    cases pre with
    | nil =>
      simp at h
      obtain ⟨h1, h2⟩ := h
      subst h1
      simp [stopLastB] at hb
      rw [← h2]; exact hb
    | cons x pre' =>
      simp at h
      obtain ⟨h1, h2⟩ := h
      have hb' : stopLastB rest = true := by
        cases op <;> simp [stopLastB] at hb ⊢
        · exact hb
        · exact hb
        · exact hb
        · subst hb; cases pre' <;> simp at h2
      exact ih hb' pre' post h2


end Proofs.C20
