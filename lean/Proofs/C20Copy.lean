import FqModel.CtxStack
/-!
  C20 — `io.Copy` into the modelled `iox.CtxWriter` (FqModel/CtxStack.lean §5b): lemmas over
  the copy loop from an arbitrary chunk number and accumulator; the property theorems are in
  Props/C20.lean.
-/
namespace Proofs.C20
open FqModel.CtxStack

/-- cancellation is monotone along a copy: once a `Write` is refused every later one is -/
theorem passAt_mono (cB cA : Ctxs) (w : Writer) (ca : Option Nat)
    (hmono : w.passes cB = false → w.passes cA = false) {j j' : Nat} (hj : j ≤ j')
    (h : w.passes (ctxAt cB cA ca j) = false) : w.passes (ctxAt cB cA ca j') = false := by
  cases ca with
  | none => simpa [ctxAt] using h
  | some k =>
    simp only [ctxAt] at h ⊢
    by_cases h1 : k ≤ j
    · have h2 : k ≤ j' := by omega
      simpa [h1, h2] using h
    · simp only [h1, if_false] at h
      by_cases h2 : k ≤ j'
      · simpa [h2] using hmono h
      · simpa [h2] using h

/-- after a refused `Write`, handing over further chunks changes nothing -/
theorem writeAll_refused (cB cA : Ctxs) (w : Writer) (ca : Option Nat)
    (hmono : w.passes cB = false → w.passes cA = false) (chunks : List (List UInt8)) :
    ∀ (j j0 : Nat) (s : List UInt8), j0 ≤ j → w.passes (ctxAt cB cA ca j0) = false →
      writeAll cB cA w ca j chunks s = s := by
  induction chunks with
  | nil => intro j j0 s _ _; rfl
  | cons p rest ih =>
    intro j j0 s hj h
    have hp := passAt_mono cB cA w ca hmono hj h
    simp only [writeAll, Writer.write, hp]
    exact ih (j + 1) j0 s (by omega) h

theorem copyLoop_eq_writeAll (cB cA : Ctxs) (w : Writer) (ca : Option Nat)
    (hmono : w.passes cB = false → w.passes cA = false) (chunks : List (List UInt8)) :
    ∀ (j : Nat) (r : CopyRes),
      (copyLoop cB cA w ca j chunks r).sink = writeAll cB cA w ca j chunks r.sink := by
  induction chunks with
  | nil => intro j r; rfl
  | cons p rest ih =>
    intro j r
    by_cases hp : p.length > 0
    · by_cases hw : w.passes (ctxAt cB cA ca j) = true
      · simp only [copyLoop, hp, if_true, Writer.write, hw, writeAll]
        simpa using ih (j + 1) _
      · have hw' : w.passes (ctxAt cB cA ca j) = false := by simpa using hw
        simp only [copyLoop, hp, if_true, Writer.write, hw', writeAll]
        simp only [Bool.not_false, if_true, Bool.false_eq_true, if_false]
        exact (writeAll_refused cB cA w ca hmono rest (j + 1) j r.sink (by omega) hw').symm
    · have hnil : p = [] := by
        cases p with
        | nil => rfl
        | cons a t => simp at hp
      subst hnil
      simp only [copyLoop, List.length_nil, Nat.lt_irrefl, if_false, writeAll, Writer.write]
      simpa using ih (j + 1) r

/-- the loop, in closed form: exactly the chunks before the cancellation point reach the sink -/
theorem copyLoop_take (cB cA : Ctxs) (w : Writer) (k : Nat)
    (hB : w.passes cB = true) (hA : w.passes cA = false) (chunks : List (List UInt8)) :
    ∀ (j : Nat) (r : CopyRes),
      (copyLoop cB cA w (some k) j chunks r).sink = r.sink ++ (chunks.take (k - j)).flatten ∧
      (copyLoop cB cA w (some k) j chunks r).written = r.written + ((chunks.take (k - j)).flatten).length := by
  induction chunks with
  | nil => intro j r; simp [copyLoop]
  | cons p rest ih =>
    intro j r
    by_cases hp : p.length > 0
    · by_cases hk : k ≤ j
      · have h0 : k - j = 0 := by omega
        simp [copyLoop, hp, ctxAt, hk, hA, Writer.write, h0]
      · have hs : k - j = (k - (j + 1)) + 1 := by omega
        have := ih (j + 1) ⟨r.sink ++ p, r.written + p.length, r.err⟩
        simp only [copyLoop, hp, if_true, ctxAt, hk, if_false, hB, Writer.write]
        simp only [Bool.not_true, Bool.false_eq_true, if_false, ne_eq, not_true_eq_false]
        rw [hs, List.take_succ_cons, List.flatten_cons]
        simp only [this, List.append_assoc, List.length_append, Nat.add_assoc, and_self]
    · have hnil : p = [] := by
        cases p with
        | nil => rfl
        | cons a t => simp at hp
      subst hnil
      have := ih (j + 1) r
      simp only [copyLoop, List.length_nil, Nat.lt_irrefl, if_false]
      by_cases hk : k ≤ j
      · have h0 : k - j = 0 := by omega
        have h1 : k - (j + 1) = 0 := by omega
        rw [h1] at this
        simpa [h0] using this
      · have hs : k - j = (k - (j + 1)) + 1 := by omega
        rw [hs, List.take_succ_cons, List.flatten_cons]
        simpa using this

/-- never cancelled: everything arrives and no error -/
theorem copyLoop_all (cB cA : Ctxs) (w : Writer) (hB : w.passes cB = true) (chunks : List (List UInt8)) :
    ∀ (j : Nat) (r : CopyRes),
      copyLoop cB cA w none j chunks r =
        ⟨r.sink ++ chunks.flatten, r.written + chunks.flatten.length, r.err⟩ := by
  induction chunks with
  | nil => intro j r; simp [copyLoop]
  | cons p rest ih =>
    intro j r
    by_cases hp : p.length > 0
    · simp only [copyLoop, hp, if_true, ctxAt, hB, Writer.write]
      simp only [Bool.not_true, Bool.false_eq_true, if_false, ne_eq, not_true_eq_false]
      rw [ih]
      simp [Nat.add_assoc]
    · have hnil : p = [] := by
        cases p with
        | nil => rfl
        | cons a t => simp at hp
      subst hnil
      simp only [copyLoop, List.length_nil, Nat.lt_irrefl, if_false]
      rw [ih]; simp

/-- the length-only loop the driver evaluates computes the byte-level model's `written` and `err` -/
theorem copyLoop_len (cB cA : Ctxs) (w : Writer) (ca : Option Nat) (chunks : List (List UInt8)) :
    ∀ (j : Nat) (r : CopyRes), r.err = false →
      ((copyLoop cB cA w ca j chunks r).written, (copyLoop cB cA w ca j chunks r).err) =
        copyLen (fun j => w.passes (ctxAt cB cA ca j)) j (chunks.map List.length) r.written ∧
      (copyLoop cB cA w ca j chunks r).sink.length + r.written =
        r.sink.length + (copyLoop cB cA w ca j chunks r).written := by
  induction chunks with
  | nil => intro j r hr; simp [copyLoop, copyLen, hr]
  | cons p rest ih =>
    intro j r hr
    by_cases hp : p.length > 0
    · by_cases hw : w.passes (ctxAt cB cA ca j) = true
      · have := ih (j + 1) ⟨r.sink ++ p, r.written + p.length, r.err⟩ hr
        simp only [copyLoop, hp, if_true, Writer.write, hw, List.map_cons, copyLen]
        simp only [Bool.not_true, Bool.false_eq_true, if_false, ne_eq, not_true_eq_false]
        refine ⟨this.1, ?_⟩
        have h2 := this.2
        simp only [List.length_append] at h2
        omega
      · have hw' : w.passes (ctxAt cB cA ca j) = false := by simpa using hw
        simp [copyLoop, hp, Writer.write, hw', copyLen]
    · have hnil : p = [] := by
        cases p with
        | nil => rfl
        | cons a t => simp at hp
      subst hnil
      simpa [copyLoop, copyLen] using ih (j + 1) r hr

end Proofs.C20
