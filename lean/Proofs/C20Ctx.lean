import FqModel.CtxStack
/-!
  C20 — lemmas about the context table (`Ctxs.errs`): cancellation is monotone, additive
  (the effect of cancelling a set of contexts is the union of the effects of cancelling each) and
  only flows from older to newer contexts.
-/
namespace Proofs.C20
open FqModel.CtxStack

theorem errsAux_length : ∀ (ps : List (Option Nat)) (ss acc : List Bool),
    (Ctxs.errsAux ps ss acc).length = acc.length + min ps.length ss.length := by
  intro ps
  induction ps with
  | nil => intro ss acc; simp [Ctxs.errsAux]
  | cons p ps ih =>
    intro ss acc
    cases ss with
    | nil => simp [Ctxs.errsAux]
    | cons s ss =>
      simp only [Ctxs.errsAux, ih, List.length_append, List.length_cons, List.length_nil]
      omega

/-- entries already computed are never changed -/
theorem errsAux_prefix : ∀ (ps : List (Option Nat)) (ss acc : List Bool) (j : Nat), j < acc.length →
    (Ctxs.errsAux ps ss acc)[j]? = acc[j]? := by
  intro ps
  induction ps with
  | nil => intro ss acc j _; simp [Ctxs.errsAux]
  | cons p ps ih =>
    intro ss acc j hj
    cases ss with
    | nil => simp [Ctxs.errsAux]
    | cons s ss =>
      simp only [Ctxs.errsAux]
      rw [ih _ _ j (by simp; omega), List.getElem?_append_left hj]

/-- a context whose own cancel function was called has Err() ≠ nil -/
theorem errsAux_self : ∀ (ps : List (Option Nat)) (ss acc : List Bool) (k : Nat),
    ss[k]? = some true → k < ps.length → (Ctxs.errsAux ps ss acc)[acc.length + k]? = some true := by
  intro ps
  induction ps with
  | nil => intro ss acc k _ hk; simp at hk
  | cons p ps ih =>
    intro ss acc k hs hk
    cases ss with
    | nil => simp at hs
    | cons s ss =>
      simp only [Ctxs.errsAux]
      cases k with
      | zero =>
        simp at hs
        subst hs
        rw [errsAux_prefix _ _ _ _ (by simp)]
        simp
      | succ k =>
        have hk' : k < ps.length := by simpa using hk
        clear hk
        have := ih ss (acc ++ [s || (match p with | some j => acc.getD j false | none => false)]) k
          (by simpa using hs) hk'
        simp only [List.length_append, List.length_singleton] at this
        have e : acc.length + (k + 1) = acc.length + 1 + k := by omega
        rw [e]; exact this

theorem err_of_self (c : Ctxs) (j : Nat) (hs : c.self[j]? = some true) (hj : j < c.parent.length) :
    c.err j = true := by
  unfold Ctxs.err Ctxs.errs
  have := errsAux_self c.parent c.self [] j hs hj
  simp at this
  simp [List.getD_eq_getElem?_getD, this]

/-- contexts created before every cancelled one are live: cancellation never flows to older contexts -/
theorem errsAux_before : ∀ (ps : List (Option Nat)) (ss acc : List Bool) (d : Nat),
    (∀ x ∈ acc, x = false) → (∀ k, k < d → ss[k]?.getD false = false) →
    ∀ j, j < acc.length + d → (Ctxs.errsAux ps ss acc)[j]?.getD false = false := by
  intro ps
  induction ps with
  | nil =>
    intro ss acc d hacc _ j _
    simp only [Ctxs.errsAux]
    cases h : acc[j]? with
    | none => rfl
    | some x => exact hacc x (List.mem_of_getElem? h)
  | cons p ps ih =>
    intro ss acc d hacc hss j hj
    cases ss with
    | nil =>
      simp only [Ctxs.errsAux]
      cases h : acc[j]? with
      | none => rfl
      | some x => exact hacc x (List.mem_of_getElem? h)
    | cons s ss =>
      simp only [Ctxs.errsAux]
      cases d with
      | zero =>
        rw [errsAux_prefix _ _ _ _ (by simp; omega), List.getElem?_append_left (by omega)]
        cases h : acc[j]? with
        | none => rfl
        | some x => exact hacc x (List.mem_of_getElem? h)
      | succ d =>
        have hs0 : s = false := by simpa using hss 0 (by omega)
        apply ih ss _ d
        · intro x hx
          simp only [List.mem_append, List.mem_singleton] at hx
          rcases hx with hx | hx
          · exact hacc x hx
          · subst hx; subst hs0
            cases p with
            | none => rfl
            | some q =>
              simp only [Bool.false_or, List.getD_eq_getElem?_getD]
              cases h : acc[q]? with
              | none => rfl
              | some x => exact hacc x (List.mem_of_getElem? h)
        · intro k hk
          have := hss (k + 1) (by omega)
          simpa using this
        · simp; omega

theorem getD_zipWith_or (a b : List Bool) (h : a.length = b.length) (j : Nat) :
    (List.zipWith (· || ·) a b).getD j false = (a.getD j false || b.getD j false) := by
  simp only [List.getD_eq_getElem?_getD, List.getElem?_zipWith]
  by_cases hj : j < a.length
  · rw [List.getElem?_eq_getElem hj, List.getElem?_eq_getElem (h ▸ hj)]; simp
  · have h1 := List.getElem?_eq_none (Nat.le_of_not_lt hj)
    have h2 : b[j]? = none := List.getElem?_eq_none (by omega)
    simp [h1, h2]

/-- cancellation is additive: the contexts with Err() ≠ nil when the union of two sets of cancel
    functions has been called are the union of those for each set -/
theorem errsAux_or : ∀ (ps : List (Option Nat)) (s1 s2 a1 a2 : List Bool),
    s1.length = s2.length → a1.length = a2.length →
    Ctxs.errsAux ps (List.zipWith (· || ·) s1 s2) (List.zipWith (· || ·) a1 a2) =
      List.zipWith (· || ·) (Ctxs.errsAux ps s1 a1) (Ctxs.errsAux ps s2 a2) := by
  intro ps
  induction ps with
  | nil => intro s1 s2 a1 a2 _ _; simp [Ctxs.errsAux]
  | cons p ps ih =>
    intro s1 s2 a1 a2 hs ha
    cases s1 with
    | nil =>
      cases s2 with
      | nil => simp [Ctxs.errsAux]
      | cons y s2 => simp at hs
    | cons x s1 =>
      cases s2 with
      | nil => simp at hs
      | cons y s2 =>
        have key : ∀ (l1 l2 : Bool),
            Ctxs.errsAux ps (List.zipWith (· || ·) s1 s2) (List.zipWith (· || ·) a1 a2 ++ [x || y || (l1 || l2)]) =
            List.zipWith (· || ·) (Ctxs.errsAux ps s1 (a1 ++ [x || l1])) (Ctxs.errsAux ps s2 (a2 ++ [y || l2])) := by
          intro l1 l2
          have := ih s1 s2 (a1 ++ [x || l1]) (a2 ++ [y || l2]) (by simpa using hs) (by simp [ha])
          rw [← this]
          congr 1
          rw [List.zipWith_append (by exact ha)]
          simp only [List.zipWith_cons_cons, List.zipWith_nil_right]
          congr 2
          cases x <;> cases y <;> cases l1 <;> cases l2 <;> rfl
        cases p with
        | none =>
          simp only [List.zipWith_cons_cons, Ctxs.errsAux]
          have := key false false
          simpa using this
        | some q =>
          simp only [List.zipWith_cons_cons, Ctxs.errsAux]
          rw [getD_zipWith_or a1 a2 ha q]
          exact key _ _

/-- the table in which only context `i` has been cancelled -/
def only (parent : List (Option Nat)) (i : Nat) : Ctxs :=
  ⟨parent, (List.replicate parent.length false).set i true⟩

theorem set_eq_zipWith_or (s : List Bool) (i : Nat) :
    s.set i true = List.zipWith (· || ·) s ((List.replicate s.length false).set i true) := by
  apply List.ext_getElem
  · simp
  · intro j h1 h2
    simp only [List.getElem_set, List.getElem_zipWith, List.getElem_replicate]
    by_cases hij : i = j <;> simp [hij]

/-- calling the cancel function of context `i` makes Err() non-nil for exactly the contexts that are
    cancelled when only `i` is (itself and everything derived from it), on top of what was cancelled -/
theorem errs_cancel (c : Ctxs) (i : Nat) (hl : c.self.length = c.parent.length) :
    (c.cancel i).errs = List.zipWith (· || ·) c.errs (only c.parent i).errs := by
  unfold Ctxs.errs Ctxs.cancel only
  simp only
  rw [set_eq_zipWith_or, hl]
  have := errsAux_or c.parent c.self ((List.replicate c.parent.length false).set i true) [] []
    (by simp [hl]) rfl
  simpa using this

/-- … and those are all newer than `i` or `i` itself -/
theorem only_before (parent : List (Option Nat)) (i j : Nat) (hj : j < i) : (only parent i).err j = false := by
  unfold Ctxs.err Ctxs.errs only
  simp only [List.getD_eq_getElem?_getD]
  apply errsAux_before parent _ [] i (by simp)
  · intro k hk
    simp only [List.getElem?_set, List.getElem?_replicate]
    have : ¬ i = k := by omega
    simp only [this, if_false]
    split <;> rfl
  · simpa using hj

end Proofs.C20
