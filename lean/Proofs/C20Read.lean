import FqModel.CtxStack
import Proofs.C20Seq
import Proofs.C20Spec
import Proofs.C20Ctx
/-!
  C20 — an evaluation blocked in a Read/Seek/Close of its input (FqModel/CtxStack.lean §7):
  an interrupt gets a context-aware reader of the innermost evaluation out of the blocked state.
-/
namespace Proofs.C20
open FqModel.CtxStack

theorem wake_st (s : RSt) : (wake s).st = s.st := by
  unfold wake; split
  · split <;> rfl
  · rfl

theorem rstep_inv (s : RSt) (op : ROp) (h : SInv s.st) : SInv (rstep s op).st := by
  cases op with
  | read k c =>
    simp only [rstep]; split
    · exact h
    · split
      · rw [wake_st]; exact h
      · exact h
  | data => simp only [rstep]; split <;> exact h
  | ev o =>
    cases o with
    | interrupt => simp only [rstep]; rw [wake_st]; exact (step_sim h .interrupt).1
    | push p => simp only [rstep]; split; exact h; exact (step_sim h (.push p)).1
    | finish i => simp only [rstep]; split; exact h; exact (step_sim h (.finish i)).1
    | stop => simp only [rstep]; split; exact h; exact (step_sim h (.stop)).1

theorem rrun_inv (ops : List ROp) : SInv (rrun ops).st := by
  unfold rrun
  have : ∀ s : RSt, SInv s.st → SInv (ops.foldl rstep s).st := by
    induction ops with
    | nil => intro s h; exact h
    | cons op rest ih => intro s h; exact ih _ (rstep_inv s op h)
  exact this _ inv_init

/-- the top of the stack is the specification's innermost running evaluation -/
theorem top_innermost {m : St} (h : SInv m) (c : Nat) (ht : top m = some c) :
    (abs m).innermost = some c ∧ c < m.cells.length := by
  have hlen := len_eq_ids h
  unfold top at ht
  split at ht
  · rename_i hp
    have hi : m.cancelFns.len - 1 < (ids m.cells).length := by omega
    rw [index_of_live h.wfF h.liveF hi] at ht
    simp only [Option.some.injEq] at ht
    subst ht
    refine ⟨?_, ?_⟩
    · unfold Spec.innermost
      rw [runningIds_abs, List.getLast?_eq_getElem?, ← hlen, List.getElem?_eq_getElem hi]
    · exact R_lt (mem_ids.mp (List.getElem_mem _))
  · cases ht

/-- an interrupt on a machine that is not stopped: the context of the evaluation on top of the
    stack gets Err() ≠ nil, every older context keeps its Err() -/
theorem interrupt_top {m : St} (h : SInv m) (hs : m.stopped = false) (c : Nat) (ht : top m = some c) :
    (step .fixed m .interrupt).ctxs.err c = true ∧
    ∀ j, j < c → (step .fixed m .interrupt).ctxs.err j = m.ctxs.err j := by
  obtain ⟨hin, hcl⟩ := top_innermost h c ht
  rw [step_interrupt_eq h]
  obtain ⟨_, _, _, _, hp, _⟩ := interrupt_frame h
  have h2 : abs (interrupt m) = (abs m).step .interrupt := (interrupt_sim h).2
  rw [spec_interrupt_some _ c (by simpa [abs] using hs) hin] at h2
  have hself : (interrupt m).ctxs.self = m.ctxs.self.set c true := by
    have : (abs (interrupt m)).cancelled = m.ctxs.self.set c true := by rw [h2]; rfl
    exact this
  have hc : (interrupt m).ctxs = m.ctxs.cancel c := by
    show (interrupt m).ctxs = ⟨m.ctxs.parent, m.ctxs.self.set c true⟩
    rw [← hp, ← hself]
  have hl : m.ctxs.self.length = m.ctxs.parent.length := by rw [h.slen, h.plen]
  have herrs := errs_cancel m.ctxs c hl
  refine ⟨?_, ?_⟩
  · rw [hc]
    apply err_of_self
    · simp [Ctxs.cancel, List.getElem?_set, h.slen, hcl]
    · show c < m.ctxs.parent.length
      rw [h.plen]; exact hcl
  · intro j hj
    unfold Ctxs.err
    rw [hc, herrs, getD_zipWith_or]
    · have := only_before m.ctxs.parent c j hj
      unfold Ctxs.err at this
      rw [this]; simp
    · unfold Ctxs.errs only
      rw [errsAux_length, errsAux_length]; simp [hl]

end Proofs.C20
