import FqModel.CtxReadSeeker
/-!
  C20 — ctxreadseeker protocol (FqModel/CtxReadSeeker.lean): the invariant behind
  `underlying_ops_exclusive`, by induction over schedules.
-/
namespace Proofs.C20Rs
open FqModel.CtxRS

def loopBusy : Loop → Nat
  | .inOp _ => 1 | .closing => 1 | _ => 0

def loopCl : Loop → Nat
  | .closing => 1 | .exited => 1 | _ => 0

def pendClose (c : Caller) (l : Loop) : Nat :=
  (if c = .sel1 .close then 1 else 0) + (if l = .got .close then 1 else 0)

/-- on the code as it is, every operation on the underlying reader belongs to the loop goroutine, so
    the number in progress is a function of the loop goroutine's program counter -/
structure Inv (s : St) : Prop where
  busy : s.mon.busy = loopBusy s.loop
  ov : s.mon.overlap = false
  bad : s.mon.bad = false
  cops : s.callerOps = 0
  late : s.late = false
  ccl : s.cclose ≤ loopCl s.loop
  closes : s.mon.closes + pendClose s.caller s.loop ≤ s.mon.callsClose + s.cclose

theorem inv_init (c : Bool) : Inv (init c) := by
  constructor <;> simp [init, loopBusy, loopCl, pendClose]

set_option hygiene false in
local macro "fin" : tactic => `(tactic|
  (simp only [Option.some.injEq, Prod.mk.injEq] at hs; obtain ⟨rfl, _⟩ := hs;
   constructor <;> simp_all [Mon.step, pendClose, beginU, loopBusy, loopCl] <;> omega))

theorem step_inv {s s' : St} {a : Act} {oe : Option Ev} (h : Inv s)
    (hs : step .fixed s a = some (s', oe)) : Inv s' := by
  obtain ⟨h1, h2, h3, h4, h5, h6, h7⟩ := h
  cases a
  case call k =>
    cases k <;> cases hc : s.caller <;> simp only [step, hc, emit] at hs <;> (try (cases hs; done)) <;> fin
  case cancel => simp only [step, emit] at hs; fin
  case cSel1Cancel =>
    cases hc : s.caller <;> simp only [step, hc, silent] at hs <;> (try (cases hs; done))
    rename_i k
    cases k <;> split at hs <;> (try (cases hs; done)) <;> fin
  case send =>
    cases hc : s.caller <;> cases hl : s.loop <;> simp only [step, hc, hl, silent] at hs <;>
      (try (cases hs; done))
    rename_i k
    cases k <;> fin
  case opBegin =>
    cases hl : s.loop <;> simp only [step, hl, emit] at hs <;> (try (cases hs; done))
    rename_i k
    cases k <;> cases hcl : s.closer <;> simp [hcl] at hs <;>
      (obtain ⟨rfl, _⟩ := hs; constructor <;> simp_all [Mon.step, pendClose, beginU, loopBusy, loopCl] <;> omega)
  case opSkip =>
    cases hl : s.loop <;> simp only [step, hl, silent] at hs <;> (try (cases hs; done))
    rename_i k
    cases k <;> cases hcl : s.closer <;> simp [hcl] at hs <;>
      (obtain ⟨rfl, _⟩ := hs; constructor <;> simp_all [Mon.step, pendClose, beginU, loopBusy, loopCl] <;> omega)
  case opEnd =>
    cases hl : s.loop <;> simp only [step, hl, emit] at hs <;> (try (cases hs; done))
    fin
  case recv =>
    cases hc : s.caller <;> cases hl : s.loop <;> simp only [step, hc, hl, silent] at hs <;>
      (try (cases hs; done))
    fin
  case cSel2Cancel =>
    cases hc : s.caller <;> simp only [step, hc, silent] at hs <;> (try (cases hs; done))
    split at hs <;> (try (cases hs; done)) <;> fin
  case ret =>
    cases hc : s.caller <;> simp only [step, hc, emit] at hs <;> (try (cases hs; done))
    fin
  case lCancel =>
    cases hl : s.loop <;> simp only [step, hl, silent] at hs <;> (try (cases hs; done))
    split at hs <;> (try (cases hs; done))
    split at hs <;> fin
  case lClBegin =>
    cases hl : s.loop <;> simp only [step, hl, emit] at hs <;> (try (cases hs; done))
    fin
  case lClEnd =>
    cases hl : s.loop <;> simp only [step, hl, emit] at hs <;> (try (cases hs; done))
    fin
  case lSendCancel => simp only [step] at hs; cases hs
  case cClBegin => simp only [step] at hs; cases hs
  case cClEnd => simp only [step] at hs; cases hs
  case cOnceDone => simp only [step] at hs; cases hs
  case lOnceDone => simp only [step] at hs; cases hs

theorem run_inv {sched : List Act} : ∀ {s s' : St} {es : List Ev}, Inv s →
    run .fixed sched s = some (s', es) → Inv s' := by
  induction sched with
  | nil => intro s s' es h hr; simp only [run, Option.some.injEq, Prod.mk.injEq] at hr; obtain ⟨rfl, _⟩ := hr; exact h
  | cons a r ih =>
    intro s s' es h hr
    simp only [run] at hr
    split at hr
    · cases hr
    · rename_i s1 oe hst
      split at hr
      · cases hr
      · rename_i s2 es2 hr2
        simp only [Option.some.injEq, Prod.mk.injEq] at hr
        obtain ⟨rfl, _⟩ := hr
        exact ih (step_inv h hst) hr2

/-- the monitor inside the state is the monitor run over the emitted events (any variant) -/
theorem step_mon {v : Variant} {s s' : St} {a : Act} {oe : Option Ev}
    (hs : step v s a = some (s', oe)) : s'.mon = oe.toList.foldl Mon.step s.mon := by
  cases a <;> simp only [step] at hs <;> (repeat' (split at hs)) <;>
    simp_all [emit, silent, beginU] <;>
    (obtain ⟨rfl, rfl⟩ := hs; simp)

theorem run_mon {v : Variant} {sched : List Act} : ∀ {s s' : St} {es : List Ev},
    run v sched s = some (s', es) → s'.mon = es.foldl Mon.step s.mon := by
  induction sched with
  | nil => intro s s' es hr; simp only [run, Option.some.injEq, Prod.mk.injEq] at hr; obtain ⟨rfl, rfl⟩ := hr; rfl
  | cons a r ih =>
    intro s s' es hr
    simp only [run] at hr
    split at hr
    · cases hr
    · rename_i s1 oe hst
      split at hr
      · cases hr
      · rename_i s2 es2 hr2
        simp only [Option.some.injEq, Prod.mk.injEq] at hr
        obtain ⟨rfl, rfl⟩ := hr
        rw [List.foldl_append, ← step_mon hst]
        exact ih hr2

end Proofs.C20Rs
