import FqModel.CtxStack
import Proofs.C20Spec
/-!
  C20 — helper lemmas for the sequential refinement `Variant.fixed ⊑ Spec`.
-/
namespace Proofs.C20
open FqModel.CtxStack

/-! ### Go slices -/

variable {α : Type}

def WF (s : GoSlice α) : Prop := s.len ≤ s.arr.length

theorem wf_empty : WF (GoSlice.empty : GoSlice α) := Nat.le_refl _

theorem live_empty : (GoSlice.empty : GoSlice α).live = [] := rfl

theorem live_length {s : GoSlice α} (h : WF s) : s.live.length = s.len := by
  unfold WF at h
  unfold GoSlice.live; simp [h]

theorem len_append (s : GoSlice α) (x : α) : (s.append x).len = s.len + 1 := by
  unfold GoSlice.append; split <;> rfl

theorem wf_append {s : GoSlice α} (x : α) (h : WF s) : WF (s.append x) := by
  unfold WF GoSlice.append at *
  split
  · simp; omega
  · simp [GoSlice.growCap]; split <;> omega

theorem live_append {s : GoSlice α} (x : α) (h : WF s) : (s.append x).live = s.live ++ [some x] := by
  unfold WF at h
  unfold GoSlice.append GoSlice.live
  split
  · rename_i hlt
    simp only
    rw [List.take_add_one]
    simp [List.take_set, hlt]
    exact List.set_eq_of_length_le (by simp; omega)
  · rename_i hge
    have he : s.len = s.arr.length := by omega
    simp only
    rw [List.take_append_of_le_length (by simp; omega)]
    exact List.take_of_length_le (by simp; omega)

theorem index_live {s : GoSlice α} (h : WF s) (i : Nat) : s.index i = s.live[i]? := by
  unfold WF at h
  unfold GoSlice.index GoSlice.live
  split
  · rename_i hi
    rw [List.getElem?_take_of_lt hi]
    have : i < s.arr.length := by omega
    simp [List.getD_eq_getElem?_getD, List.getElem?_eq_getElem this]
  · rename_i hi
    rw [List.getElem?_eq_none (by simp [List.length_take]; omega)]

theorem reslice0_live {s : GoSlice α} (h : WF s) {k : Nat} (hk : k ≤ s.len) :
    ∃ t, s.reslice0 k = some t ∧ t.live = s.live.take k ∧ WF t ∧ t.len = k := by
  unfold WF at h
  refine ⟨⟨s.arr, k⟩, ?_, ?_, ?_, rfl⟩
  · unfold GoSlice.reslice0; rw [if_pos (by omega)]
  · unfold GoSlice.live; simp [List.take_take]; omega
  · unfold WF; simp; omega


/-! ### `setAll`: set `true` at every index satisfying `P` -/

def setAll (P : Nat → Bool) (l : List Bool) : List Bool := l.mapIdx (fun j b => b || P j)

@[simp] theorem setAll_length (P : Nat → Bool) (l : List Bool) : (setAll P l).length = l.length := by
  simp [setAll]

theorem setAll_getD (P : Nat → Bool) (l : List Bool) (j : Nat) (d : Bool) (h : j < l.length) :
    (setAll P l).getD j d = (l.getD j d || P j) := by
  simp [setAll, List.getD_eq_getElem?_getD, List.getElem?_mapIdx, List.getElem?_eq_getElem h]

theorem setAll_getD_ge (P : Nat → Bool) (l : List Bool) (j : Nat) (d : Bool) (h : l.length ≤ j) :
    (setAll P l).getD j d = d := by
  simp [setAll, List.getD_eq_getElem?_getD, List.getElem?_mapIdx, List.getElem?_eq_none h]

theorem set_true_eq_setAll (l : List Bool) (c : Nat) : l.set c true = setAll (fun j => j == c) l := by
  apply List.ext_getElem
  · simp
  · intro j h1 h2
    simp [setAll, List.getElem_set]
    by_cases hc : c = j
    · subst hc; simp
    · have : (j == c) = false := by simp; omega
      simp [hc, this]

theorem setAll_setAll (P Q : Nat → Bool) (l : List Bool) :
    setAll P (setAll Q l) = setAll (fun j => Q j || P j) l := by
  apply List.ext_getElem
  · simp
  · intro j h1 h2
    simp [setAll, Bool.or_assoc]

theorem setAll_congr {P Q : Nat → Bool} {l : List Bool} (h : ∀ j, j < l.length → P j = Q j) :
    setAll P l = setAll Q l := by
  apply List.ext_getElem
  · simp
  · intro j h1 h2
    simp at h1
    simp [setAll, h j h1]

/-! ### running evaluations -/

/-- evaluation `i` is running: its flag cell exists and is false -/
def R (cells : List Bool) (i : Nat) : Bool := !cells.getD i true

/-- the running evaluations, oldest first -/
def ids (cells : List Bool) : List Nat := (List.range cells.length).filter (R cells)

theorem R_lt {cells : List Bool} {i : Nat} (h : R cells i = true) : i < cells.length := by
  unfold R at h
  by_cases hi : i < cells.length
  · exact hi
  · simp [List.getD_eq_getElem?_getD, List.getElem?_eq_none (Nat.le_of_not_lt hi)] at h

theorem R_append_lt (cells : List Bool) (b : Bool) {i : Nat} (h : i < cells.length) :
    R (cells ++ [b]) i = R cells i := by
  simp [R, List.getD_eq_getElem?_getD, List.getElem?_append_left h]

theorem R_append_self (cells : List Bool) : R (cells ++ [false]) cells.length = true := by
  simp [R, List.getD_eq_getElem?_getD]

theorem filter_R_append (cells : List Bool) (b : Bool) (k : Nat) (hk : k ≤ cells.length) :
    (List.range k).filter (R (cells ++ [b])) = (List.range k).filter (R cells) := by
  apply List.filter_congr
  intro x hx
  exact R_append_lt cells b (by have := List.mem_range.mp hx; omega)

theorem ids_push (cells : List Bool) : ids (cells ++ [false]) = ids cells ++ [cells.length] := by
  unfold ids
  simp only [List.length_append, List.length_singleton, List.range_succ, List.filter_append]
  rw [filter_R_append cells false _ (Nat.le_refl _)]
  simp [R_append_self]

theorem mem_ids {cells : List Bool} {j : Nat} : j ∈ ids cells ↔ R cells j = true := by
  unfold ids
  simp only [List.mem_filter, List.mem_range]
  exact ⟨fun h => h.2, fun h => ⟨R_lt h, h⟩⟩

/-- the running evaluations split at any `i`: those below `i`, then those from `i` on -/
theorem ids_split (cells : List Bool) (i : Nat) (hi : i ≤ cells.length) :
    ids cells = (List.range i).filter (R cells) ++ (List.range' i (cells.length - i)).filter (R cells) := by
  unfold ids
  rw [← List.filter_append, List.range_eq_range', List.range_eq_range']
  congr 1
  have : cells.length = i + (cells.length - i) := by omega
  conv => lhs; rw [this]
  rw [← List.range'_append_1]
  simp

theorem ids_take (cells : List Bool) (i : Nat) (hi : i ≤ cells.length) :
    (ids cells).take ((List.range i).filter (R cells)).length = (List.range i).filter (R cells) := by
  rw [ids_split cells i hi]; simp

theorem ids_drop (cells : List Bool) (i : Nat) (hi : i ≤ cells.length) :
    (ids cells).drop ((List.range i).filter (R cells)).length = (List.range' i (cells.length - i)).filter (R cells) := by
  rw [ids_split cells i hi]; simp

theorem mem_ids_drop {cells : List Bool} {i j : Nat} (hi : i ≤ cells.length) :
    j ∈ (ids cells).drop ((List.range i).filter (R cells)).length ↔ (R cells j = true ∧ i ≤ j) := by
  rw [ids_drop cells i hi]
  simp only [List.mem_filter, List.mem_range'_1]
  constructor
  · intro h; exact ⟨h.2, h.1.1⟩
  · intro h; exact ⟨⟨h.2, by have := R_lt h.1; omega⟩, h.1⟩


/-! ### the loops -/

theorem setAll_false (l : List Bool) : setAll (fun _ => false) l = l := by
  apply List.ext_getElem
  · simp
  · intro j h1 h2; simp [setAll]

theorem index_of_live {s : GoSlice Nat} {is : List Nat} (wf : WF s) (hl : s.live = is.map some)
    {i : Nat} (hi : i < is.length) : s.index i = some (some is[i]) := by
  rw [index_live wf, hl]; simp [hi]

theorem take_succ_drop (is : List Nat) (idx k : Nat) (h : idx + k < is.length) :
    (is.drop idx).take (k + 1) = (is.drop idx).take k ++ [is[idx + k]] := by
  rw [List.take_add_one]
  simp [List.getElem?_drop, List.getElem?_eq_getElem h]

theorem popLoopFixed_spec (is : List Nat) (idx : Nat) :
    ∀ (count : Nat) (m : St), WF m.cancelFns → WF m.cancelled →
      m.cancelFns.live = is.map some → m.cancelled.live = is.map some → idx + count ≤ is.length →
      popLoopFixed idx count m =
        { m with cells := setAll (fun j => decide (j ∈ (is.drop idx).take count)) m.cells,
                 ctxs := { m.ctxs with self := setAll (fun j => decide (j ∈ (is.drop idx).take count)) m.ctxs.self } } := by
  intro count
  induction count with
  | zero =>
    intro m _ _ _ _ _
    simp [popLoopFixed, setAll_false]
  | succ k ih =>
    intro m wfF wfC hF hC hle
    have hi : idx + k < is.length := by omega
    unfold popLoopFixed
    simp only [index_of_live wfC hC hi, index_of_live wfF hF hi]
    have ih' := ih { m with cells := m.cells.set is[idx + k] true, ctxs := m.ctxs.cancel is[idx + k] }
      wfF wfC hF hC (by omega)
    refine ih'.trans ?_
    simp only [Ctxs.cancel, set_true_eq_setAll, setAll_setAll, take_succ_drop is idx k hi]
    congr 1
    · congr 1
      apply setAll_congr; intro j _
      by_cases hj : j = is[idx + k] <;> simp [hj]
    · apply setAll_congr; intro j _
      by_cases hj : j = is[idx + k] <;> simp [hj]

theorem mem_take_succ_bool (is : List Nat) (k j : Nat) (hi : k < is.length) :
    (j == is[k] || decide (j ∈ List.take k is)) = decide (j ∈ List.take (k + 1) is) := by
  have ht : is.take (k + 1) = is.take k ++ [is[k]] := by
    rw [List.take_add_one]; simp [List.getElem?_eq_getElem hi]
  rw [Bool.eq_iff_iff]
  simp only [Bool.or_eq_true, beq_iff_eq, decide_eq_true_eq, ht, List.mem_append, List.mem_singleton]
  exact or_comm

theorem stopLoop_spec (is : List Nat) :
    ∀ (count : Nat) (m : St), WF m.cancelFns → m.cancelFns.live = is.map some → count ≤ is.length →
      stopLoop count m =
        { m with ctxs := { m.ctxs with self := setAll (fun j => decide (j ∈ is.take count)) m.ctxs.self } } := by
  intro count
  induction count with
  | zero =>
    intro m _ _ _
    simp [stopLoop, setAll_false]
  | succ k ih =>
    intro m wfF hF hle
    have hi : k < is.length := by omega
    unfold stopLoop
    simp only [index_of_live wfF hF hi]
    have ih' := ih { m with ctxs := m.ctxs.cancel is[k] } wfF hF (by omega)
    refine ih'.trans ?_
    simp only [Ctxs.cancel, set_true_eq_setAll, setAll_setAll]
    congr 2
    apply setAll_congr; intro j _
    exact mem_take_succ_bool is k j hi


/-! ### abstraction and invariant -/

/-- what the machine state means in terms of the specification -/
def abs (m : St) : Spec :=
  { parent := m.ctxs.parent, running := m.cells.map not, cancelled := m.ctxs.self,
    stopped := m.stopped, misuse := m.doubleClose }

/-- frames on the stack are exactly the non-popped pushes in order; flag `i` is set iff frame `i`
    was popped; the closure of a frame that is still on the stack knows its position -/
structure SInv (m : St) : Prop where
  plen : m.ctxs.parent.length = m.cells.length
  slen : m.ctxs.self.length = m.cells.length
  poplen : m.pops.length = m.cells.length
  wfF : WF m.cancelFns
  wfC : WF m.cancelled
  liveF : m.cancelFns.live = (ids m.cells).map some
  liveC : m.cancelled.live = (ids m.cells).map some
  pops : ∀ i q, m.pops[i]? = some q → q.cell = i ∧ q.ctx = i ∧
    (R m.cells i = true → q.stackIdx = ((List.range i).filter (R m.cells)).length)
  noPanic : m.rtPanic = false

theorem inv_init : SInv St.init := by
  refine ⟨rfl, rfl, rfl, wf_empty, wf_empty, rfl, rfl, ?_, rfl⟩
  intro i q h; simp [St.init] at h

theorem map_not_getD (cells : List Bool) (i : Nat) : (cells.map not).getD i false = R cells i := by
  unfold R
  simp only [List.getD_eq_getElem?_getD, List.getElem?_map]
  cases cells[i]? <;> simp

theorem runningIds_abs (m : St) : (abs m).runningIds = ids m.cells := by
  unfold Spec.runningIds ids abs
  simp only [List.length_map]
  apply List.filter_congr
  intro x _
  exact map_not_getD m.cells x

theorem len_eq_ids {m : St} (h : SInv m) : m.cancelFns.len = (ids m.cells).length := by
  rw [← live_length h.wfF, h.liveF]; simp

theorem ids_length_eq (cells : List Bool) :
    (ids cells).length = ((List.range cells.length).filter (R cells)).length := rfl

/-! ### Push -/

theorem push_abs (m : St) (p : Option Nat) : abs (push .fixed m p) = (abs m).step (.push p) := by
  simp [push, abs, Spec.step, Ctxs.withCancel]

theorem push_inv {m : St} (h : SInv m) (p : Option Nat) : SInv (push .fixed m p) := by
  have hsz : m.ctxs.size = m.cells.length := h.plen
  refine ⟨?_, ?_, ?_, ?_, ?_, ?_, ?_, ?_, ?_⟩
  · simp [push, Ctxs.withCancel, h.plen]
  · simp [push, Ctxs.withCancel, h.slen]
  · simp [push, h.poplen]
  · exact wf_append _ h.wfF
  · exact wf_append _ h.wfC
  · show (m.cancelFns.append m.ctxs.size).live = (ids (m.cells ++ [false])).map some
    rw [live_append _ h.wfF, h.liveF, ids_push, hsz]; simp
  · show (m.cancelled.append m.cells.length).live = (ids (m.cells ++ [false])).map some
    rw [live_append _ h.wfC, h.liveC, ids_push]; simp
  · intro i q hq
    have hq' : (m.pops ++ [⟨m.cancelFns.len, m.cells.length, m.ctxs.size⟩])[i]? = some q := hq
    show q.cell = i ∧ q.ctx = i ∧ (R (m.cells ++ [false]) i = true →
      q.stackIdx = ((List.range i).filter (R (m.cells ++ [false]))).length)
    by_cases hlt : i < m.pops.length
    · rw [List.getElem?_append_left hlt] at hq'
      have hic : i < m.cells.length := h.poplen ▸ hlt
      obtain ⟨h1, h2, h3⟩ := h.pops i q hq'
      refine ⟨h1, h2, ?_⟩
      intro hr
      rw [filter_R_append m.cells false i (Nat.le_of_lt hic)]
      exact h3 (by rwa [R_append_lt m.cells false hic] at hr)
    · rw [List.getElem?_append_right (Nat.le_of_not_lt hlt)] at hq'
      have hie : i = m.pops.length := by
        by_cases h0 : i - m.pops.length = 0
        · omega
        · have : 1 ≤ i - m.pops.length := by omega
          rw [List.getElem?_eq_none (by simpa using this)] at hq'
          cases hq'
      subst hie
      simp at hq'
      subst hq'
      refine ⟨h.poplen.symm, by rw [hsz, h.poplen], ?_⟩
      intro _
      show _ = ((List.range m.pops.length).filter (R (m.cells ++ [false]))).length
      rw [h.poplen, filter_R_append m.cells false _ (Nat.le_refl _)]
      exact len_eq_ids h
  · exact h.noPanic


/-! ### updates of `ctxs.self` only -/

theorem inv_self {m : St} (h : SInv m) (self' : List Bool) (hl : self'.length = m.ctxs.self.length) :
    SInv { m with ctxs := { m.ctxs with self := self' } } :=
  ⟨h.plen, by show self'.length = _; rw [hl, h.slen], h.poplen, h.wfF, h.wfC, h.liveF, h.liveC, h.pops, h.noPanic⟩

/-! ### interrupt -/

theorem interrupt_sim {m : St} (h : SInv m) :
    SInv (interrupt m) ∧ abs (interrupt m) = (abs m).step .interrupt := by
  have hlen := len_eq_ids h
  unfold interrupt
  split
  · rename_i hs
    exact ⟨h, by simp [Spec.step, abs, hs]⟩
  · rename_i hs
    have hs' : (abs m).stopped = false := by simpa [abs] using hs
    split
    · rename_i h0
      have hi : m.cancelFns.len - 1 < (ids m.cells).length := by omega
      have hidx := index_of_live h.wfF h.liveF hi
      have hin : (abs m).innermost = some (ids m.cells)[m.cancelFns.len - 1] := by
        unfold Spec.innermost
        rw [runningIds_abs, List.getLast?_eq_getElem?, ← hlen, List.getElem?_eq_getElem hi]
      split
      · rename_i f hf
        rw [hidx] at hf
        injection hf with hf; injection hf with hf
        subst hf
        refine ⟨inv_self h _ (by simp), ?_⟩
        simp only [Spec.step, hs', Bool.false_eq_true, if_false, hin]
        simp [abs, Ctxs.cancel]
        simpa using hs
      · rename_i hne
        exact absurd hidx (by intro hc; exact hne _ hc)
    · rename_i h0
      refine ⟨h, ?_⟩
      have hnil : ids m.cells = [] := by
        apply List.eq_nil_of_length_eq_zero; omega
      have hin : (abs m).innermost = none := by
        unfold Spec.innermost; rw [runningIds_abs, hnil]; rfl
      simp [Spec.step, hs', hin]

/-! ### Stop -/

theorem stop_sim {m : St} (h : SInv m) :
    SInv (stop m) ∧ abs (stop m) = (abs m).step .stop := by
  have hlen := len_eq_ids h
  have hloop := stopLoop_spec (ids m.cells) m.cancelFns.len m h.wfF h.liveF (by omega)
  have htake : (ids m.cells).take m.cancelFns.len = ids m.cells := by
    rw [hlen]; exact List.take_length
  rw [htake] at hloop
  have hinv1 : SInv (stopLoop m.cancelFns.len m) := by
    rw [hloop]; exact inv_self h _ (by simp)
  have hself : setAll (fun j => decide (j ∈ ids m.cells)) m.ctxs.self =
      m.ctxs.self.mapIdx (fun j c => c || (m.cells.map not).getD j false) := by
    unfold setAll
    congr 1
    funext j c
    rw [map_not_getD]
    congr 1
    by_cases hr : R m.cells j = true
    · simp [mem_ids, hr]
    · simp [mem_ids, hr]
  unfold stop
  simp only [hinv1.noPanic, Bool.false_eq_true, if_false]
  by_cases hs : m.stopped = true
  · have : (stopLoop m.cancelFns.len m).stopped = true := by rw [hloop]; exact hs
    simp only [this, if_true]
    constructor
    · have := hinv1
      exact ⟨this.plen, this.slen, this.poplen, this.wfF, this.wfC, this.liveF, this.liveC, this.pops, rfl⟩
    · rw [hloop]
      simp [abs, Spec.step, hself, hs]
  · have hs' : m.stopped = false := by simpa using hs
    have : (stopLoop m.cancelFns.len m).stopped = false := by rw [hloop]; exact hs'
    simp only [this, Bool.false_eq_true, if_false]
    constructor
    · have := hinv1
      exact ⟨this.plen, this.slen, this.poplen, this.wfF, this.wfC, this.liveF, this.liveC, this.pops, rfl⟩
    · rw [hloop]
      simp [abs, Spec.step, hself, hs']


/-! ### the closure returned by Push -/

theorem R_setAll (P : Nat → Bool) (cells : List Bool) (j : Nat) :
    R (setAll P cells) j = (R cells j && !P j) := by
  unfold R
  by_cases hj : j < cells.length
  · rw [setAll_getD P cells j true hj]; simp [Bool.not_or]
  · have hj' : cells.length ≤ j := Nat.le_of_not_lt hj
    rw [setAll_getD_ge P cells j true hj']
    simp [List.getD_eq_getElem?_getD, List.getElem?_eq_none hj']

theorem filter_lt (cells : List Bool) (i n : Nat) (hi : i ≤ n) :
    (List.range n).filter (fun j => R cells j && decide (j < i)) = (List.range i).filter (R cells) := by
  have hn : n = i + (n - i) := by omega
  rw [hn, List.range_eq_range', ← List.range'_append_1, List.filter_append, ← List.range_eq_range']
  have h1 : (List.range i).filter (fun j => R cells j && decide (j < i)) = (List.range i).filter (R cells) := by
    apply List.filter_congr
    intro x hx
    have := List.mem_range.mp hx
    simp [this]
  have h2 : (List.range' (0 + i) (n - i)).filter (fun j => R cells j && decide (j < i)) = [] := by
    rw [List.filter_eq_nil_iff]
    intro x hx
    have := (List.mem_range'_1.mp hx).1
    simp; omega
  rw [h1, h2]; simp

/-- the evaluations ended by finishing `i`: running and started at or after `i` -/
def ended (cells : List Bool) (i j : Nat) : Bool := R cells j && decide (i ≤ j)

theorem ids_after_finish (cells : List Bool) (i : Nat) (hi : i ≤ cells.length) :
    ids (setAll (ended cells i) cells) = (List.range i).filter (R cells) := by
  unfold ids
  rw [setAll_length, ← filter_lt cells i cells.length hi]
  apply List.filter_congr
  intro x _
  rw [R_setAll]
  unfold ended
  cases R cells x
  · simp
  · by_cases hx : i ≤ x <;> simp [hx] <;> omega

theorem finish_sim {m : St} (h : SInv m) (i : Nat) :
    SInv (finish .fixed m i) ∧ abs (finish .fixed m i) = (abs m).step (.finish i) := by
  have hrun : (abs m).running.getD i false = R m.cells i := map_not_getD m.cells i
  unfold finish
  split
  · -- no such closure
    rename_i hnone
    refine ⟨h, ?_⟩
    have : R m.cells i = false := by
      cases hr : R m.cells i
      · rfl
      · have := R_lt hr
        rw [← h.poplen] at this
        rw [List.getElem?_eq_getElem this] at hnone
        cases hnone
    exact (spec_finish_noop _ _ (by rw [hrun, this])).symm
  · rename_i p hp
    obtain ⟨hcell, hctx, hidx⟩ := h.pops i p hp
    have hil : i < m.cells.length := by
      rw [← h.poplen]
      by_cases hlt : i < m.pops.length
      · exact hlt
      · rw [List.getElem?_eq_none (Nat.le_of_not_lt hlt)] at hp; cases hp
    show SInv (finishFixed m p) ∧ abs (finishFixed m p) = _
    unfold finishFixed
    rw [hcell]
    split
    · -- already popped
      rename_i hflag
      refine ⟨h, ?_⟩
      have : R m.cells i = false := by
        unfold R
        rw [List.getD_eq_getElem?_getD, List.getElem?_eq_getElem hil] at hflag ⊢
        simpa using hflag
      exact (spec_finish_noop _ _ (by rw [hrun, this])).symm
    · rename_i hflag
      have hr : R m.cells i = true := by
        unfold R
        rw [List.getD_eq_getElem?_getD, List.getElem?_eq_getElem hil] at hflag ⊢
        simpa using hflag
      have hsi := hidx hr
      have hlen := len_eq_ids h
      have hle : p.stackIdx ≤ m.cancelFns.len := by
        rw [hlen, hsi, ids_split m.cells i (Nat.le_of_lt hil)]; simp
      -- the loop
      have hloop := popLoopFixed_spec (ids m.cells) p.stackIdx (m.cancelFns.len - p.stackIdx) m
        h.wfF h.wfC h.liveF h.liveC (by omega)
      have htake : ((ids m.cells).drop p.stackIdx).take (m.cancelFns.len - p.stackIdx) = (ids m.cells).drop p.stackIdx := by
        apply List.take_of_length_le; simp; omega
      have hP : ∀ l : List Bool, setAll (fun j => decide (j ∈ ((ids m.cells).drop p.stackIdx).take (m.cancelFns.len - p.stackIdx))) l
          = setAll (ended m.cells i) l := by
        intro l
        apply setAll_congr
        intro j _
        rw [htake, hsi]
        unfold ended
        rw [Bool.eq_iff_iff]
        simp only [decide_eq_true_eq, Bool.and_eq_true]
        exact mem_ids_drop (Nat.le_of_lt hil)
      rw [hP, hP] at hloop
      rw [hloop]
      simp only [h.noPanic, Bool.false_eq_true, if_false]
      obtain ⟨a, ha, hal, hawf, _⟩ := reslice0_live h.wfF hle
      have hle2 : p.stackIdx ≤ m.cancelled.len := by
        have : m.cancelled.len = (ids m.cells).length := by rw [← live_length h.wfC, h.liveC]; simp
        omega
      obtain ⟨b, hb, hbl, hbwf, _⟩ := reslice0_live h.wfC hle2
      simp only [ha, hb]
      have hidsn := ids_after_finish m.cells i (Nat.le_of_lt hil)
      have hlive : ∀ l : List (Option Nat), l = (ids m.cells).map some →
          l.take p.stackIdx = (ids (setAll (ended m.cells i) m.cells)).map some := by
        intro l hl
        rw [hl, hidsn, ← List.map_take, hsi, ids_take m.cells i (Nat.le_of_lt hil)]
      constructor
      · refine ⟨?_, ?_, ?_, hawf, hbwf, ?_, ?_, ?_, rfl⟩
        · simp [h.plen]
        · simp [h.slen]
        · simp [h.poplen]
        · show a.live = _; rw [hal]; exact hlive _ h.liveF
        · show b.live = _; rw [hbl]; exact hlive _ h.liveC
        · intro j q hq
          obtain ⟨h1, h2, h3⟩ := h.pops j q hq
          refine ⟨h1, h2, ?_⟩
          intro hrj
          show q.stackIdx = ((List.range j).filter (R (setAll (ended m.cells i) m.cells))).length
          have hrj' : R (setAll (ended m.cells i) m.cells) j = true := hrj
          rw [R_setAll] at hrj'
          have hj1 : R m.cells j = true := by
            cases hh : R m.cells j
            · rw [hh] at hrj'; simp at hrj'
            · rfl
          have hj2 : j < i := by
            unfold ended at hrj'; rw [hj1] at hrj'; simp at hrj'; exact hrj'
          rw [h3 hj1]
          congr 1
          apply List.filter_congr
          intro x hx
          have hxj := List.mem_range.mp hx
          rw [R_setAll]
          unfold ended
          have : ¬ i ≤ x := by omega
          simp [this]
      · rw [spec_finish_run _ _ (by rw [hrun, hr])]
        show Spec.mk _ _ _ _ _ = Spec.mk _ _ _ _ _
        congr 1
        · -- running
          show (setAll (ended m.cells i) m.cells).map not = (m.cells.map not).mapIdx _
          apply List.ext_getElem
          · simp
          · intro j h1 h2
            simp only [List.getElem_map, List.getElem_mapIdx, setAll]
            simp at h1
            have hRj : R m.cells j = !m.cells[j] := by
              unfold R; rw [List.getD_eq_getElem?_getD, List.getElem?_eq_getElem h1]; rfl
            unfold ended
            rw [hRj]
            cases m.cells[j]
            · by_cases hx : i ≤ j <;> simp [hx] <;> omega
            · simp
        · -- cancelled
          show setAll (ended m.cells i) m.ctxs.self = m.ctxs.self.mapIdx _
          unfold setAll
          congr 1
          funext j c
          unfold ended
          rw [show (abs m).running.getD j false = R m.cells j from map_not_getD m.cells j]


/-! ### the refinement -/

theorem step_sim {m : St} (h : SInv m) (op : Op) :
    SInv (step .fixed m op) ∧ abs (step .fixed m op) = (abs m).step op := by
  unfold step
  rw [if_neg (by rw [h.noPanic]; simp)]
  cases op with
  | push p => exact ⟨push_inv h p, push_abs m p⟩
  | finish i => exact finish_sim h i
  | interrupt => exact interrupt_sim h
  | stop => exact stop_sim h

theorem foldl_sim (ops : List Op) : ∀ (m : St), SInv m →
    SInv (ops.foldl (step .fixed) m) ∧ abs (ops.foldl (step .fixed) m) = ops.foldl Spec.step (abs m) := by
  induction ops with
  | nil => intro m h; exact ⟨h, rfl⟩
  | cons op rest ih =>
    intro m h
    obtain ⟨h1, h2⟩ := step_sim h op
    have := ih _ h1
    rw [h2] at this
    exact this

theorem abs_init : abs St.init = Spec.init := rfl

theorem run_sim (ops : List Op) : SInv (run .fixed ops) ∧ abs (run .fixed ops) = Spec.run ops := by
  have := foldl_sim ops St.init inv_init
  rwa [abs_init] at this

theorem obs_abs {m : St} (h : SInv m) : m.obs = (abs m).obs := by
  unfold St.obs Spec.obs abs Spec.ctxs
  simp [h.noPanic]

theorem trace_sim (ops : List Op) : ∀ (m : St), SInv m →
    trace .fixed m ops = Spec.trace (abs m) ops := by
  induction ops with
  | nil => intro m _; rfl
  | cons op rest ih =>
    intro m h
    obtain ⟨h1, h2⟩ := step_sim h op
    unfold trace Spec.trace
    simp only
    rw [ih _ h1, h2, obs_abs h1, h2]

/-- finishing an evaluation that is not running does nothing at all -/
theorem finish_noop {m : St} (h : SInv m) (i : Nat) (hr : R m.cells i = false) : finish .fixed m i = m := by
  unfold finish
  split
  · rfl
  · rename_i p hp
    obtain ⟨hcell, _, _⟩ := h.pops i p hp
    have hil : i < m.cells.length := by
      rw [← h.poplen]
      by_cases hlt : i < m.pops.length
      · exact hlt
      · rw [List.getElem?_eq_none (Nat.le_of_not_lt hlt)] at hp; cases hp
    show finishFixed m p = m
    unfold finishFixed
    rw [hcell]
    have : m.cells.getD i false = true := by
      unfold R at hr
      rw [List.getD_eq_getElem?_getD, List.getElem?_eq_getElem hil] at hr ⊢
      simpa using hr
    rw [if_pos this]

/-- after `finish i`, evaluation `i` is not running -/
theorem not_running_after_finish {m : St} (h : SInv m) (i : Nat) : R (finish .fixed m i).cells i = false := by
  obtain ⟨_, h2⟩ := finish_sim h i
  have h3 : (abs (finish .fixed m i)).running.getD i false = R (finish .fixed m i).cells i := map_not_getD _ i
  rw [← h3, h2]
  by_cases hr : (abs m).running.getD i false = true
  · rw [spec_finish_run _ _ hr]
    simp only [List.getD_eq_getElem?_getD, List.getElem?_mapIdx]
    cases (abs m).running[i]? <;> simp
  · have hr' : (abs m).running.getD i false = false := by simpa using hr
    rw [spec_finish_noop _ _ hr']; exact hr'


theorem step_finish_eq {m : St} (h : SInv m) (i : Nat) : step .fixed m (.finish i) = finish .fixed m i := by
  unfold step; rw [if_neg (by rw [h.noPanic]; simp)]

theorem step_interrupt_eq {m : St} (h : SInv m) : step .fixed m .interrupt = interrupt m := by
  unfold step; rw [if_neg (by rw [h.noPanic]; simp)]

theorem run_append (v : Variant) (a b : List Op) : run v (a ++ b) = b.foldl (step v) (run v a) := by
  simp [run, List.foldl_append]

theorem spec_interrupt (s : Spec) : s.step .interrupt =
    (if s.stopped then s else match s.innermost with
      | some i => { s with cancelled := s.cancelled.set i true }
      | none => s) := rfl

/-- an interrupt touches nothing but cancel bits -/
theorem interrupt_frame {m : St} (h : SInv m) :
    (interrupt m).cancelFns = m.cancelFns ∧ (interrupt m).cancelled = m.cancelled ∧
    (interrupt m).cells = m.cells ∧ (interrupt m).pops = m.pops ∧
    (interrupt m).ctxs.parent = m.ctxs.parent ∧ (interrupt m).stopped = m.stopped := by
  unfold interrupt
  split
  · exact ⟨rfl, rfl, rfl, rfl, rfl, rfl⟩
  · split
    · split
      · exact ⟨rfl, rfl, rfl, rfl, rfl, rfl⟩
      · exact ⟨rfl, rfl, rfl, rfl, rfl, rfl⟩
    · exact ⟨rfl, rfl, rfl, rfl, rfl, rfl⟩

end Proofs.C20
