import FqModel.CtxStack
/-!
  C20 — lemmas about the abstract specification `Spec` itself: `innermost` is the innermost,
  evaluations that are not running are never touched, everything that is not running is cancelled.
-/
namespace Proofs.C20
open FqModel.CtxStack

theorem filter_range_getLast (P : Nat → Bool) : ∀ (n i : Nat),
    ((List.range n).filter P).getLast? = some i ↔
      (P i = true ∧ i < n ∧ ∀ j, i < j → j < n → P j = false) := by
  intro n
  induction n with
  | zero => intro i; simp
  | succ n ih =>
    intro i
    rw [List.range_succ, List.filter_append]
    cases hP : P n
    · simp only [List.filter_cons, List.filter_nil, hP, Bool.false_eq_true, if_false, List.append_nil]
      rw [ih i]
      constructor
      · rintro ⟨h1, h2, h3⟩
        refine ⟨h1, by omega, ?_⟩
        intro j hj hjn
        by_cases hjn' : j < n
        · exact h3 j hj hjn'
        · have : j = n := by omega
          subst this; exact hP
      · rintro ⟨h1, h2, h3⟩
        have hin : i ≠ n := by
          intro hc; subst hc; rw [hP] at h1; cases h1
        exact ⟨h1, by omega, fun j hj hjn => h3 j hj (by omega)⟩
    · simp only [List.filter_cons, List.filter_nil, hP, if_true]
      rw [List.getLast?_append]
      simp only [List.getLast?_singleton, Option.some_or]
      constructor
      · intro h
        injection h with h
        subst h
        exact ⟨hP, by omega, fun j hj hjn => by omega⟩
      · rintro ⟨h1, h2, h3⟩
        by_cases hin : i = n
        · rw [hin]
        · have := h3 n (by omega) (by omega)
          rw [hP] at this; cases this

/-- `Spec.innermost` is the most recently started evaluation that is still running -/
theorem innermost_iff (s : Spec) (i : Nat) :
    s.innermost = some i ↔
      (s.running.getD i false = true ∧ ∀ j, i < j → s.running.getD j false = false) := by
  unfold Spec.innermost Spec.runningIds
  rw [filter_range_getLast]
  constructor
  · rintro ⟨h1, _, h3⟩
    refine ⟨h1, ?_⟩
    intro j hj
    by_cases hjn : j < s.running.length
    · exact h3 j hj hjn
    · simp [List.getD_eq_getElem?_getD, List.getElem?_eq_none (Nat.le_of_not_lt hjn)]
  · rintro ⟨h1, h3⟩
    refine ⟨h1, ?_, fun j hj _ => h3 j hj⟩
    by_cases hin : i < s.running.length
    · exact hin
    · simp [List.getD_eq_getElem?_getD, List.getElem?_eq_none (Nat.le_of_not_lt hin)] at h1

theorem getD_mapIdx (l : List Bool) (f : Nat → Bool → Bool) (j : Nat) :
    (l.mapIdx f).getD j false = match l[j]? with | some b => f j b | none => false := by
  simp only [List.getD_eq_getElem?_getD, List.getElem?_mapIdx]
  cases l[j]? <;> rfl

theorem getD_set_ne (l : List Bool) (i j : Nat) (h : i ≠ j) : (l.set i true).getD j false = l.getD j false := by
  simp [List.getD_eq_getElem?_getD, List.getElem?_set, h]

theorem spec_finish_noop (s : Spec) (i : Nat) (h : s.running.getD i false = false) :
    s.step (.finish i) = s := by
  show (if s.running.getD i false = true then _ else _) = _
  rw [if_neg (by rw [h]; simp)]

theorem spec_finish_run (s : Spec) (i : Nat) (h : s.running.getD i false = true) :
    s.step (.finish i) = { s with
        running := s.running.mapIdx (fun j r => r && decide (j < i))
        cancelled := s.cancelled.mapIdx (fun j c => c || (s.running.getD j false && decide (i ≤ j))) } := by
  show (if s.running.getD i false = true then _ else _) = _
  rw [if_pos h]

theorem spec_interrupt_stopped (s : Spec) (h : s.stopped = true) : s.step .interrupt = s := by
  show (if s.stopped = true then _ else _) = _
  rw [if_pos h]

theorem spec_interrupt_none (s : Spec) (h : s.innermost = none) : s.step .interrupt = s := by
  show (if s.stopped = true then _ else _) = _
  split
  · rfl
  · rw [h]

theorem spec_interrupt_some (s : Spec) (i : Nat) (hs : s.stopped = false) (h : s.innermost = some i) :
    s.step .interrupt = { s with cancelled := s.cancelled.set i true } := by
  show (if s.stopped = true then _ else _) = _
  rw [if_neg (by rw [hs]; simp), h]

/-- an evaluation that is not running stays not running and its cancel bit is never written again -/
theorem not_running_untouched (s : Spec) (op : Op) (j : Nat) (hj : j < s.running.length)
    (hr : s.running.getD j false = false) :
    (s.step op).running.getD j false = false ∧
    (s.step op).cancelled.getD j false = s.cancelled.getD j false := by
  cases op with
  | push p =>
    simp only [Spec.step]
    constructor
    · rw [List.getD_eq_getElem?_getD, List.getElem?_append_left hj, ← List.getD_eq_getElem?_getD]; exact hr
    · simp only [List.getD_eq_getElem?_getD]
      by_cases hc : j < s.cancelled.length
      · rw [List.getElem?_append_left hc]
      · rw [List.getElem?_eq_none (Nat.le_of_not_lt hc)]
        by_cases he : j = s.cancelled.length
        · subst he; simp
        · rw [List.getElem?_eq_none (by simp; omega)]
  | finish i =>
    cases hi : s.running.getD i false
    · rw [spec_finish_noop s i hi]; exact ⟨hr, rfl⟩
    · rw [spec_finish_run s i hi]
      simp only
      constructor
      · rw [getD_mapIdx]
        simp only [List.getD_eq_getElem?_getD] at hr
        cases h : s.running[j]? with
        | none => rfl
        | some b => rw [h] at hr; simp at hr; subst hr; simp
      · rw [getD_mapIdx, hr]
        simp only [List.getD_eq_getElem?_getD]
        cases s.cancelled[j]? <;> simp
  | interrupt =>
    cases hst : s.stopped
    · cases hin : s.innermost with
      | none => rw [spec_interrupt_none s hin]; exact ⟨hr, rfl⟩
      | some i =>
        rw [spec_interrupt_some s i hst hin]
        refine ⟨hr, ?_⟩
        have := ((innermost_iff s i).mp hin).1
        have hne : i ≠ j := by intro hc; subst hc; rw [hr] at this; cases this
        exact getD_set_ne _ _ _ hne
    · rw [spec_interrupt_stopped s hst]; exact ⟨hr, rfl⟩
  | stop =>
    simp only [Spec.step]
    refine ⟨hr, ?_⟩
    rw [getD_mapIdx, hr]
    simp only [List.getD_eq_getElem?_getD]
    cases s.cancelled[j]? <;> simp

/-- well-formedness of specification states: every evaluation that is not running has been cancelled -/
structure SpecInv (s : Spec) : Prop where
  lp : s.parent.length = s.running.length
  lc : s.cancelled.length = s.running.length
  fin : ∀ j, j < s.running.length → s.running.getD j false = false → s.cancelled.getD j false = true

theorem specInv_init : SpecInv Spec.init := ⟨rfl, rfl, by intro j hj; simp [Spec.init] at hj⟩

theorem getD_lt {l : List Bool} {j : Nat} (h : j < l.length) : l.getD j false = l[j] := by
  simp [List.getD_eq_getElem?_getD, List.getElem?_eq_getElem h]

theorem specInv_step {s : Spec} (h : SpecInv s) (op : Op) : SpecInv (s.step op) := by
  cases op with
  | push p =>
    refine ⟨by simp [Spec.step, h.lp], by simp [Spec.step, h.lc], ?_⟩
    intro j hj hr
    simp only [Spec.step, List.length_append, List.length_singleton] at hj hr ⊢
    by_cases hjn : j < s.running.length
    · rw [List.getD_eq_getElem?_getD, List.getElem?_append_left hjn, ← List.getD_eq_getElem?_getD] at hr
      rw [List.getD_eq_getElem?_getD, List.getElem?_append_left (by rw [h.lc]; exact hjn), ← List.getD_eq_getElem?_getD]
      exact h.fin j hjn hr
    · have : j = s.running.length := by omega
      subst this
      simp [List.getD_eq_getElem?_getD] at hr
  | finish i =>
    cases hi : s.running.getD i false
    · rw [spec_finish_noop s i hi]; exact h
    · rw [spec_finish_run s i hi]
      refine ⟨by simp [h.lp], by simp [h.lc], ?_⟩
      intro j hj hr
      simp only [List.length_mapIdx] at hj
      simp only [getD_mapIdx] at hr ⊢
      have hjc : j < s.cancelled.length := by rw [h.lc]; exact hj
      rw [List.getElem?_eq_getElem hj] at hr
      rw [List.getElem?_eq_getElem hjc]
      simp only [getD_lt hj]
      simp only at hr
      cases hb : s.running[j] with
      | false =>
        have := h.fin j hj (by rw [getD_lt hj]; exact hb)
        rw [getD_lt hjc] at this
        simp [this]
      | true =>
        rw [hb] at hr
        have : ¬ j < i := by simpa using hr
        simp; right; omega
  | interrupt =>
    cases hst : s.stopped
    · cases hin : s.innermost with
      | none => rw [spec_interrupt_none s hin]; exact h
      | some i =>
        rw [spec_interrupt_some s i hst hin]
        refine ⟨h.lp, by simp [h.lc], ?_⟩
        intro j hj hr
        have := h.fin j hj hr
        show (s.cancelled.set i true).getD j false = true
        by_cases hij : i = j
        · subst hij
          have hjc : i < s.cancelled.length := by rw [h.lc]; exact hj
          simp [List.getD_eq_getElem?_getD, hjc]
        · rw [getD_set_ne _ _ _ hij]; exact this
    · rw [spec_interrupt_stopped s hst]; exact h
  | stop =>
    refine ⟨by simp [Spec.step, h.lp], by simp [Spec.step, h.lc], ?_⟩
    intro j hj hr
    simp only [Spec.step, List.length_mapIdx] at hj hr ⊢
    have := h.fin j hj hr
    have hjc : j < s.cancelled.length := by rw [h.lc]; exact hj
    rw [getD_mapIdx, List.getElem?_eq_getElem hjc]
    rw [getD_lt hjc] at this
    simp [this]

theorem specInv_run (ops : List Op) : SpecInv (Spec.run ops) := by
  unfold Spec.run
  have : ∀ (s : Spec), SpecInv s → SpecInv (ops.foldl Spec.step s) := by
    induction ops with
    | nil => intro s h; exact h
    | cons op rest ih => intro s h; exact ih _ (specInv_step h op)
  exact this _ specInv_init

/-- after Stop every evaluation ever started has been cancelled directly -/
theorem stop_all (s : Spec) (h : SpecInv s) (j : Nat) (hj : j < s.running.length) :
    (s.step .stop).cancelled[j]? = some true := by
  simp only [Spec.step]
  have hjc : j < s.cancelled.length := by rw [h.lc]; exact hj
  rw [List.getElem?_mapIdx, List.getElem?_eq_getElem hjc]
  simp only [Option.map_some, Option.some.injEq, Bool.or_eq_true]
  cases hb : s.running.getD j false
  · left
    have := h.fin j hj hb
    rwa [getD_lt hjc] at this
  · right; rfl

end Proofs.C20
