import FqModel.Gaps
/-!
  C04 — helper lemmas about the model of `ranges.Gaps` (FqModel/Gaps.lean).  Core Lean only.

  Plan:  `gapsWith one total rs = complement total (mergeLoop one none (sortByStart rs))`
   * `sortByStart` returns a sorted permutation                      (`sortByStart_perm`, `sortByStart_sorted`)
   * `mergeLoop` (the i/j/madded loop) — invariants, by induction over the remaining slice,
     simultaneously for the state "top of the outer loop" (`none`) and "inside the inner
     loop with hull m" (`some m`):
       - every bit of the hull in progress / of a remaining range is in an output hull   (`merge_covers`)
       - every bit of an output hull is in the hull in progress, in a remaining range, or is
         a one-bit hole (only when `one = 1`)                                           (`merge_sound`)
       - hull starts are range starts, hull stops are bounded by the range stops         (`merge_starts`, `merge_stops_le`)
       - the output hulls are non-empty, in increasing order, separated by > `one` bits  (`merge_sep`)
   * `complement` of a separated list of hulls is disjoint from the hulls and covers every
     other bit of the buffer                                         (`complement_disjoint`, `complement_covers`)
   * `mergeLoop` does not depend on the order of equal starts        (`mergeLoop_sorted_perm`)
-/
namespace Proofs.Gaps
open FqModel.Gaps

/-! ### coverage as a proposition -/

/-- bit `b` lies in one of the ranges -/
def Cov (rs : List Range) (b : Int) : Prop := ∃ r ∈ rs, r.start ≤ b ∧ b < r.stop

theorem contains_iff (r : Range) (b : Int) : r.contains b = true ↔ r.start ≤ b ∧ b < r.stop := by
  simp [Range.contains]

theorem covered_iff (rs : List Range) (b : Int) : covered rs b = true ↔ Cov rs b := by
  simp [covered, Cov, List.any_eq_true, contains_iff]

theorem covered_false_iff (rs : List Range) (b : Int) : covered rs b = false ↔ ¬ Cov rs b := by
  rw [← covered_iff]; simp

theorem Cov_nil (b : Int) : ¬ Cov [] b := by simp [Cov]

theorem Cov_cons (r : Range) (rs : List Range) (b : Int) :
    Cov (r :: rs) b ↔ (r.start ≤ b ∧ b < r.stop) ∨ Cov rs b := by
  simp [Cov]

theorem Cov_append (xs ys : List Range) (b : Int) : Cov (xs ++ ys) b ↔ Cov xs b ∨ Cov ys b := by
  simp only [Cov, List.mem_append]
  constructor
  · rintro ⟨r, hr | hr, h⟩
    · exact Or.inl ⟨r, hr, h⟩
    · exact Or.inr ⟨r, hr, h⟩
  · rintro (⟨r, hr, h⟩ | ⟨r, hr, h⟩)
    · exact ⟨r, Or.inl hr, h⟩
    · exact ⟨r, Or.inr hr, h⟩

theorem Cov_perm {xs ys : List Range} (h : xs.Perm ys) (b : Int) : Cov xs b ↔ Cov ys b := by
  simp only [Cov]
  constructor
  · rintro ⟨r, hr, hb⟩; exact ⟨r, h.mem_iff.mp hr, hb⟩
  · rintro ⟨r, hr, hb⟩; exact ⟨r, h.mem_iff.mpr hr, hb⟩

/-! ### the sort -/

/-- sorted by start (what `slices.SortFunc(… cmp.Compare(a.Start, b.Start))` establishes) -/
def Sorted (l : List Range) : Prop := l.Pairwise (fun a b => a.start ≤ b.start)

theorem insertByStart_perm (x : Range) (l : List Range) : (insertByStart x l).Perm (x :: l) := by
  induction l with
  | nil => exact List.Perm.refl _
  | cons y ys ih =>
    simp only [insertByStart]
    split
    · exact ((List.Perm.cons y ih).trans (List.Perm.swap x y ys))
    · exact List.Perm.refl _

theorem sortByStart_perm (l : List Range) : (sortByStart l).Perm l := by
  induction l with
  | nil => exact List.Perm.refl _
  | cons x xs ih =>
    simp only [sortByStart]
    exact (insertByStart_perm x _).trans (List.Perm.cons x ih)

theorem insertByStart_sorted (x : Range) (l : List Range) (h : Sorted l) : Sorted (insertByStart x l) := by
  induction l with
  | nil => simp [insertByStart, Sorted]
  | cons y ys ih =>
    simp only [insertByStart]
    have hy := List.pairwise_cons.mp h
    split
    · rename_i hle
      refine List.pairwise_cons.mpr ⟨?_, ih hy.2⟩
      intro z hz
      have hz' := (insertByStart_perm x ys).mem_iff.mp hz
      simp only [List.mem_cons] at hz'
      rcases hz' with hz' | hz'
      · subst hz'; exact hle
      · exact hy.1 z hz'
    · rename_i hlt
      refine List.pairwise_cons.mpr ⟨?_, h⟩
      intro z hz
      simp only [List.mem_cons] at hz
      rcases hz with hz | hz
      · cases hz; omega
      · have := hy.1 z hz; omega

theorem sortByStart_sorted (l : List Range) : Sorted (sortByStart l) := by
  induction l with
  | nil => simp [sortByStart, Sorted]
  | cons x xs ih => exact insertByStart_sorted x _ ih

/-! ### `extend` -/

theorem extend_start (m r : Range) : (extend m r).start = m.start := by
  unfold extend; split <;> rfl

theorem extend_stop (m r : Range) : (extend m r).stop = if r.stop > m.stop then r.stop else m.stop := by
  unfold extend; split
  · simp only [Range.stop]; omega
  · rfl

theorem extend_len (m r : Range) : (extend m r).len = (extend m r).stop - m.start := by
  have := extend_start m r
  simp only [Range.stop] at *; omega

theorem mergeCond_iff (one : Int) (m r : Range) :
    mergeCond one m r = true ↔ m.start ≤ r.start ∧ r.start ≤ m.stop + one := by
  simp [mergeCond]

/-! ### `mergeLoop`: the loop invariants -/

theorem mergeLoop_none_cons (one : Int) (r : Range) (rest : List Range) :
    mergeLoop one none (r :: rest) =
      if r.len = 0 then mergeLoop one none rest else mergeLoop one (some r) rest := rfl

theorem mergeLoop_some_cons (one : Int) (m r : Range) (rest : List Range) :
    mergeLoop one (some m) (r :: rest) =
      if mergeCond one m r then mergeLoop one (some (extend m r)) rest
      else m :: mergeLoop one none (r :: rest) := rfl

/-- every bit of the hull in progress and of every remaining range ends up in an output hull
    ("every non-empty range lies in some hull") -/
theorem merge_covers (one : Int) (b : Int) (l : List Range) :
    (Cov l b → Cov (mergeLoop one none l) b) ∧
    (∀ m : Range, (m.start ≤ b ∧ b < m.stop) ∨ Cov l b → Cov (mergeLoop one (some m) l) b) := by
  induction l with
  | nil =>
    refine ⟨fun h => absurd h (Cov_nil b), fun m h => ?_⟩
    rcases h with h | h
    · simp only [mergeLoop]; exact (Cov_cons _ _ _).mpr (Or.inl h)
    · exact absurd h (Cov_nil b)
  | cons r rest ih =>
    have hnone : Cov (r :: rest) b → Cov (mergeLoop one none (r :: rest)) b := by
      intro h
      rw [mergeLoop_none_cons]
      rcases (Cov_cons _ _ _).mp h with h | h
      · split
        · simp only [Range.stop] at h; omega
        · exact ih.2 r (Or.inl h)
      · split
        · exact ih.1 h
        · exact ih.2 r (Or.inr h)
    refine ⟨hnone, fun m h => ?_⟩
    rw [mergeLoop_some_cons]
    split
    · rename_i hc
      have hc := (mergeCond_iff one m r).mp hc
      apply ih.2
      have hs := extend_start m r
      have he := extend_stop m r
      rcases h with h | h
      · left; split at he <;> omega
      · rcases (Cov_cons _ _ _).mp h with h | h
        · left; split at he <;> omega
        · exact Or.inr h
    · rcases h with h | h
      · exact (Cov_cons _ _ _).mpr (Or.inl h)
      · exact (Cov_cons _ _ _).mpr (Or.inr (hnone h))

/-- the one-bit-hole condition on a slice: some range stops at `b` (or the hull in progress
    does) and some range starts at `b+1` -/
def StopsAt (l : List Range) (b : Int) : Prop := ∃ r ∈ l, r.stop = b
def StartsAt (l : List Range) (b : Int) : Prop := ∃ r ∈ l, r.start = b

theorem StopsAt_cons (r : Range) (l : List Range) (b : Int) : StopsAt (r :: l) b ↔ r.stop = b ∨ StopsAt l b := by
  simp [StopsAt]
theorem StartsAt_cons (r : Range) (l : List Range) (b : Int) : StartsAt (r :: l) b ↔ r.start = b ∨ StartsAt l b := by
  simp [StartsAt]

/-- every bit of an output hull is in the hull in progress, in a remaining range, or — only
    when `one = 1` — is a one-bit hole between a stop at `b` and a start at `b+1` -/
theorem merge_sound (one : Int) (h01 : one = 0 ∨ one = 1) (b : Int) (l : List Range) :
    (Cov (mergeLoop one none l) b → Cov l b ∨ (one = 1 ∧ StopsAt l b ∧ StartsAt l (b + 1))) ∧
    (∀ m : Range, Cov (mergeLoop one (some m) l) b →
      (m.start ≤ b ∧ b < m.stop) ∨ Cov l b ∨
        (one = 1 ∧ (m.stop = b ∨ StopsAt l b) ∧ StartsAt l (b + 1))) := by
  induction l with
  | nil =>
    refine ⟨fun h => ?_, fun m h => ?_⟩
    · simp only [mergeLoop] at h; exact absurd h (Cov_nil b)
    · simp only [mergeLoop] at h
      rcases (Cov_cons _ _ _).mp h with h | h
      · exact Or.inl h
      · exact absurd h (Cov_nil b)
  | cons r rest ih =>
    have hnone : Cov (mergeLoop one none (r :: rest)) b →
        Cov (r :: rest) b ∨ (one = 1 ∧ StopsAt (r :: rest) b ∧ StartsAt (r :: rest) (b + 1)) := by
      intro h
      rw [mergeLoop_none_cons] at h
      split at h
      · rcases ih.1 h with h | ⟨h1, h2, h3⟩
        · exact Or.inl ((Cov_cons _ _ _).mpr (Or.inr h))
        · exact Or.inr ⟨h1, (StopsAt_cons _ _ _).mpr (Or.inr h2), (StartsAt_cons _ _ _).mpr (Or.inr h3)⟩
      · rcases ih.2 r h with h | h | ⟨h1, h2, h3⟩
        · exact Or.inl ((Cov_cons _ _ _).mpr (Or.inl h))
        · exact Or.inl ((Cov_cons _ _ _).mpr (Or.inr h))
        · refine Or.inr ⟨h1, (StopsAt_cons _ _ _).mpr ?_, (StartsAt_cons _ _ _).mpr (Or.inr h3)⟩
          rcases h2 with h2 | h2
          · exact Or.inl h2
          · exact Or.inr h2
    refine ⟨hnone, fun m h => ?_⟩
    rw [mergeLoop_some_cons] at h
    split at h
    · rename_i hc
      have hc := (mergeCond_iff one m r).mp hc
      have hs := extend_start m r
      have he := extend_stop m r
      rcases ih.2 _ h with h | h | ⟨h1, h2, h3⟩
      · -- b in the extended hull
        by_cases hb : b < m.stop
        · exact Or.inl ⟨by omega, hb⟩
        · by_cases hr : r.start ≤ b
          · refine Or.inr (Or.inl ((Cov_cons _ _ _).mpr (Or.inl ⟨hr, ?_⟩)))
            split at he <;> omega
          · -- m.stop ≤ b < r.start ≤ m.stop + one : the lost bit
            have h1 : one = 1 := by omega
            refine Or.inr (Or.inr ⟨h1, Or.inl (by omega), (StartsAt_cons _ _ _).mpr (Or.inl (by omega))⟩)
      · exact Or.inr (Or.inl ((Cov_cons _ _ _).mpr (Or.inr h)))
      · refine Or.inr (Or.inr ⟨h1, ?_, (StartsAt_cons _ _ _).mpr (Or.inr h3)⟩)
        rcases h2 with h2 | h2
        · split at he
          · exact Or.inr ((StopsAt_cons _ _ _).mpr (Or.inl (by omega)))
          · exact Or.inl (by omega)
        · exact Or.inr ((StopsAt_cons _ _ _).mpr (Or.inr h2))
    · rcases (Cov_cons _ _ _).mp h with h | h
      · exact Or.inl h
      · rcases hnone h with h | ⟨h1, h2, h3⟩
        · exact Or.inr (Or.inl h)
        · exact Or.inr (Or.inr ⟨h1, Or.inr h2, h3⟩)

/-- hull starts are starts of ranges (or of the hull in progress) -/
theorem merge_starts (one : Int) (l : List Range) :
    (∀ h ∈ mergeLoop one none l, ∃ r ∈ l, h.start = r.start) ∧
    (∀ m : Range, ∀ h ∈ mergeLoop one (some m) l, h.start = m.start ∨ ∃ r ∈ l, h.start = r.start) := by
  induction l with
  | nil =>
    refine ⟨fun h hh => ?_, fun m h hh => ?_⟩
    · simp [mergeLoop] at hh
    · simp only [mergeLoop, List.mem_singleton] at hh; subst hh; exact Or.inl rfl
  | cons r rest ih =>
    have hnone : ∀ h ∈ mergeLoop one none (r :: rest), ∃ x ∈ r :: rest, h.start = x.start := by
      intro h hh
      rw [mergeLoop_none_cons] at hh
      split at hh
      · obtain ⟨x, hx, e⟩ := ih.1 h hh
        exact ⟨x, List.mem_cons_of_mem _ hx, e⟩
      · rcases ih.2 r h hh with e | ⟨x, hx, e⟩
        · exact ⟨r, List.mem_cons_self, e⟩
        · exact ⟨x, List.mem_cons_of_mem _ hx, e⟩
    refine ⟨hnone, fun m h hh => ?_⟩
    rw [mergeLoop_some_cons] at hh
    split at hh
    · rcases ih.2 _ h hh with e | ⟨x, hx, e⟩
      · exact Or.inl (e.trans (extend_start m r))
      · exact Or.inr ⟨x, List.mem_cons_of_mem _ hx, e⟩
    · simp only [List.mem_cons] at hh
      rcases hh with hh | hh
      · subst hh; exact Or.inl rfl
      · exact Or.inr (hnone h hh)

/-- hull stops are bounded by whatever bounds the range stops -/
theorem merge_stops_le (one : Int) (T : Int) (l : List Range) (hl : ∀ r ∈ l, r.stop ≤ T) :
    (∀ h ∈ mergeLoop one none l, h.stop ≤ T) ∧
    (∀ m : Range, m.stop ≤ T → ∀ h ∈ mergeLoop one (some m) l, h.stop ≤ T) := by
  induction l with
  | nil =>
    refine ⟨fun h hh => ?_, fun m hm h hh => ?_⟩
    · simp [mergeLoop] at hh
    · simp only [mergeLoop, List.mem_singleton] at hh; subst hh; exact hm
  | cons r rest ih =>
    have ih := ih (fun x hx => hl x (List.mem_cons_of_mem _ hx))
    have hr := hl r List.mem_cons_self
    have hnone : ∀ h ∈ mergeLoop one none (r :: rest), h.stop ≤ T := by
      intro h hh
      rw [mergeLoop_none_cons] at hh
      split at hh
      · exact ih.1 h hh
      · exact ih.2 r hr h hh
    refine ⟨hnone, fun m hm h hh => ?_⟩
    rw [mergeLoop_some_cons] at hh
    split at hh
    · refine ih.2 _ ?_ h hh
      rw [extend_stop]; split <;> assumption
    · simp only [List.mem_cons] at hh
      rcases hh with hh | hh
      · subst hh; exact hm
      · exact hnone h hh

/-- non-empty hulls in increasing order, separated by more than `one` bits -/
def Sep (one : Int) (M : List Range) : Prop :=
  M.Pairwise (fun a b => a.stop + one < b.start) ∧ ∀ h ∈ M, 0 < h.len

theorem Sep_nil (one : Int) : Sep one [] := ⟨List.Pairwise.nil, fun _ h => by simp at h⟩

theorem Sep_cons (one : Int) (a : Range) (M : List Range) :
    Sep one (a :: M) ↔ (∀ x ∈ M, a.stop + one < x.start) ∧ 0 < a.len ∧ Sep one M := by
  simp only [Sep, List.pairwise_cons, List.mem_cons, forall_eq_or_imp]
  constructor
  · rintro ⟨⟨h1, h2⟩, h3, h4⟩; exact ⟨h1, h3, h2, h4⟩
  · rintro ⟨h1, h3, h2, h4⟩; exact ⟨⟨h1, h2⟩, h3, h4⟩

theorem merge_sep (one : Int) (l : List Range) (hs : Sorted l) (hl : ∀ r ∈ l, 0 ≤ r.len) :
    Sep one (mergeLoop one none l) ∧
    (∀ m : Range, 0 < m.len → (∀ r ∈ l, m.start ≤ r.start) → Sep one (mergeLoop one (some m) l)) := by
  induction l with
  | nil =>
    refine ⟨by simp only [mergeLoop]; exact Sep_nil one, fun m hm _ => ?_⟩
    simp only [mergeLoop]
    exact (Sep_cons one m []).mpr ⟨fun _ h => by simp at h, hm, Sep_nil one⟩
  | cons r rest ih =>
    have hs' := List.pairwise_cons.mp hs
    have ih := ih hs'.2 (fun x hx => hl x (List.mem_cons_of_mem _ hx))
    have hr := hl r List.mem_cons_self
    have hnone : Sep one (mergeLoop one none (r :: rest)) := by
      rw [mergeLoop_none_cons]
      split
      · exact ih.1
      · exact ih.2 r (by omega) hs'.1
    refine ⟨hnone, fun m hm hle => ?_⟩
    rw [mergeLoop_some_cons]
    split
    · apply ih.2
      · have he := extend_stop m r
        have hlen := extend_len m r
        split at he <;> simp only [Range.stop] at * <;> omega
      · intro x hx
        rw [extend_start]
        exact hle x (List.mem_cons_of_mem _ hx)
    · rename_i hc
      have hc : ¬ (m.start ≤ r.start ∧ r.start ≤ m.stop + one) := fun h => hc ((mergeCond_iff one m r).mpr h)
      have hmr := hle r List.mem_cons_self
      refine (Sep_cons one m _).mpr ⟨fun x hx => ?_, hm, hnone⟩
      obtain ⟨y, hy, e⟩ := (merge_starts one (r :: rest)).1 x hx
      have : r.start ≤ y.start := by
        simp only [List.mem_cons] at hy
        rcases hy with hy | hy
        · subst hy; exact Int.le_refl _
        · exact hs'.1 y hy
      omega

/-! ### `complement` -/

/-- last element, structurally (`(a :: t).getLast!`) -/
def lastOf : Range → List Range → Range
  | a, [] => a
  | _, b :: t => lastOf b t

theorem getLastD_eq_lastOf (a : Range) (t : List Range) : t.getLastD a = lastOf a t := by
  induction t generalizing a with
  | nil => rfl
  | cons b t ih => rw [List.getLastD_cons, ih b]; rfl

theorem getLast!_cons (a : Range) (t : List Range) : (a :: t).getLast! = lastOf a t := by
  rw [List.getLast!_cons_eq_getLastD, getLastD_eq_lastOf]

theorem lastOf_mem (a : Range) (t : List Range) : lastOf a t ∈ a :: t := by
  induction t generalizing a with
  | nil => simp [lastOf]
  | cons b t ih => simp only [lastOf]; exact List.mem_cons_of_mem _ (ih b)

/-- in a separated list every hull stops no later than the last one -/
theorem Sep_stop_le_last (one : Int) (h0 : 0 ≤ one) (a : Range) (t : List Range) (hs : Sep one (a :: t)) :
    ∀ x ∈ a :: t, x.stop ≤ (lastOf a t).stop := by
  induction t generalizing a with
  | nil => intro x hx; simp only [List.mem_singleton] at hx; subst hx; exact Int.le_refl _
  | cons b t ih =>
    obtain ⟨h1, h2, h3⟩ := (Sep_cons one a _).mp hs
    intro x hx
    simp only [lastOf]
    rcases List.mem_cons.mp hx with hx | hx
    · subst hx
      have hb := h1 b List.mem_cons_self
      have hb2 := ih b h3 b List.mem_cons_self
      have := ((Sep_cons one b _).mp h3).2.1
      simp only [Range.stop] at *; omega
    · exact ih b h3 x hx

theorem complement_cons (total a : Range) (t : List Range) :
    complement total (a :: t) =
      (if a.start ≠ total.start then [{ start := 0, len := a.start : Range }] else []) ++ inner (a :: t) ++
      (if (lastOf a t).stop ≠ total.stop then
        [{ start := (lastOf a t).stop, len := total.stop - (lastOf a t).stop : Range }] else []) := by
  simp only [complement, getLast!_cons]

/-- an inner gap lies between two hulls -/
theorem mem_inner (one : Int) (M : List Range) (hs : Sep one M) :
    ∀ g ∈ inner M, ∃ a ∈ M, ∃ c ∈ M, g.start = a.stop ∧ g.len = c.start - a.stop ∧ a.stop + one < c.start := by
  induction M with
  | nil => intro g hg; simp [inner] at hg
  | cons a t ih =>
    cases t with
    | nil => intro g hg; simp [inner] at hg
    | cons c rest =>
      obtain ⟨h1, _, h3⟩ := (Sep_cons one a _).mp hs
      intro g hg
      simp only [inner, List.mem_cons] at hg
      rcases hg with hg | hg
      · subst hg
        exact ⟨a, List.mem_cons_self, c, List.mem_cons_of_mem _ List.mem_cons_self, rfl, rfl,
          h1 c List.mem_cons_self⟩
      · obtain ⟨x, hx, y, hy, e⟩ := ih h3 g hg
        exact ⟨x, List.mem_cons_of_mem _ hx, y, List.mem_cons_of_mem _ hy, e⟩

/-- bits of inner gaps lie after the first hull -/
theorem inner_lb (one : Int) (h0 : 0 ≤ one) (b : Int) (a : Range) (t : List Range) (hs : Sep one (a :: t)) :
    Cov (inner (a :: t)) b → a.stop ≤ b := by
  induction t generalizing a with
  | nil => intro h; simp only [inner] at h; exact absurd h (Cov_nil b)
  | cons c rest ih =>
    obtain ⟨h1, _, h3⟩ := (Sep_cons one a _).mp hs
    intro h
    simp only [inner] at h
    rcases (Cov_cons _ _ _).mp h with h | h
    · exact h.1
    · have := ih c h3 h
      have hc := h1 c List.mem_cons_self
      have := ((Sep_cons one c _).mp h3).2.1
      simp only [Range.stop] at *; omega

theorem inner_disjoint (one : Int) (h0 : 0 ≤ one) (b : Int) (M : List Range) (hs : Sep one M) :
    Cov (inner M) b → ¬ Cov M b := by
  induction M with
  | nil => intro h; simp only [inner] at h; exact absurd h (Cov_nil b)
  | cons a t ih =>
    cases t with
    | nil => intro h; simp only [inner] at h; exact absurd h (Cov_nil b)
    | cons c rest =>
      obtain ⟨h1, ha, h3⟩ := (Sep_cons one a _).mp hs
      obtain ⟨h1c, hc, _⟩ := (Sep_cons one c _).mp h3
      intro h
      have hlb := inner_lb one h0 b a _ hs h
      simp only [inner] at h
      rcases (Cov_cons _ _ _).mp h with h | h
      · -- b in the gap between a and c
        rintro ⟨x, hx, hxb⟩
        simp only [List.mem_cons] at hx
        rcases hx with hx | hx | hx
        · subst hx; omega
        · subst hx; simp only [Range.stop] at *; omega
        · have := h1c x hx; simp only [Range.stop] at *; omega
      · intro hcov
        rcases (Cov_cons _ _ _).mp hcov with hcov | hcov
        · omega
        · exact ih h3 h hcov

/-- every uncovered bit between the first start and the last stop is in an inner gap -/
theorem inner_covers (b : Int) (a : Range) (t : List Range) :
    a.start ≤ b → b < (lastOf a t).stop → ¬ Cov (a :: t) b → Cov (inner (a :: t)) b := by
  induction t generalizing a with
  | nil =>
    intro h1 h2 h3
    exact absurd ((Cov_cons _ _ _).mpr (Or.inl ⟨h1, h2⟩)) h3
  | cons c rest ih =>
    intro h1 h2 h3
    simp only [lastOf] at h2
    simp only [inner]
    have ha : ¬ (a.start ≤ b ∧ b < a.stop) := fun h => h3 ((Cov_cons _ _ _).mpr (Or.inl h))
    have hc : ¬ Cov (c :: rest) b := fun h => h3 ((Cov_cons _ _ _).mpr (Or.inr h))
    by_cases hb : b < c.start
    · exact (Cov_cons _ _ _).mpr (Or.inl ⟨by simp only []; omega, by simp only [Range.stop]; omega⟩)
    · exact (Cov_cons _ _ _).mpr (Or.inr (ih c (by omega) h2 hc))

theorem complement_disjoint (one : Int) (h0 : 0 ≤ one) (total : Range) (b : Int) (M : List Range)
    (hs : Sep one M) : Cov (complement total M) b → ¬ Cov M b := by
  cases M with
  | nil => intro _; exact Cov_nil b
  | cons a t =>
    rw [complement_cons]
    obtain ⟨h1, ha, _⟩ := (Sep_cons one a _).mp hs
    intro h
    rcases (Cov_append _ _ _).mp h with h | h
    · rcases (Cov_append _ _ _).mp h with h | h
      · -- leading gap
        split at h
        · rcases (Cov_cons _ _ _).mp h with h | h
          · rintro ⟨x, hx, hxb⟩
            simp only [List.mem_cons] at hx
            rcases hx with hx | hx
            · subst hx; simp only [Range.stop] at *; omega
            · have := h1 x hx; simp only [Range.stop] at *; omega
          · exact absurd h (Cov_nil b)
        · exact absurd h (Cov_nil b)
      · exact inner_disjoint one h0 b _ hs h
    · -- trailing gap
      split at h
      · rcases (Cov_cons _ _ _).mp h with h | h
        · rintro ⟨x, hx, hxb⟩
          have := Sep_stop_le_last one h0 a t hs x hx
          simp only [Range.stop] at *; omega
        · exact absurd h (Cov_nil b)
      · exact absurd h (Cov_nil b)

theorem complement_covers (total : Range) (ht : total.start = 0) (b : Int) (M : List Range)
    (hb0 : 0 ≤ b) (hb1 : b < total.len) : ¬ Cov M b → Cov (complement total M) b := by
  cases M with
  | nil =>
    intro _
    simp only [complement]
    exact (Cov_cons _ _ _).mpr (Or.inl ⟨by omega, by simp only [Range.stop]; omega⟩)
  | cons a t =>
    intro hn
    rw [complement_cons]
    by_cases h1 : b < a.start
    · refine (Cov_append _ _ _).mpr (Or.inl ((Cov_append _ _ _).mpr (Or.inl ?_)))
      rw [if_pos (by omega)]
      exact (Cov_cons _ _ _).mpr (Or.inl ⟨hb0, by simp only [Range.stop]; omega⟩)
    · by_cases h2 : b < (lastOf a t).stop
      · exact (Cov_append _ _ _).mpr (Or.inl ((Cov_append _ _ _).mpr (Or.inr
          (inner_covers b a t (by omega) h2 hn))))
      · refine (Cov_append _ _ _).mpr (Or.inr ?_)
        rw [if_pos (by simp only [Range.stop] at *; omega)]
        exact (Cov_cons _ _ _).mpr (Or.inl ⟨by simp only []; omega, by simp only [Range.stop] at *; omega⟩)

/-! ### `gapsWith` assembled -/

/-- the hypotheses under which `D.FillGaps` calls `ranges.Gaps`: the buffer starts at bit 0
    and every field range is a (possibly empty) range inside it -/
def Within (total : Range) (rs : List Range) : Prop :=
  total.start = 0 ∧ ∀ r ∈ rs, 0 ≤ r.start ∧ 0 ≤ r.len ∧ r.stop ≤ total.len

theorem isEmpty_false_of_ne_nil {rs : List Range} (h : rs ≠ []) : rs.isEmpty = false := by
  cases rs with
  | nil => exact absurd rfl h
  | cons _ _ => rfl

theorem gapsWith_nil (one : Int) (total : Range) : gapsWith one total [] = [total] := rfl

theorem gapsWith_ne_nil (one : Int) (total : Range) {rs : List Range} (h : rs ≠ []) :
    gapsWith one total rs = complement total (mergeLoop one none (sortByStart rs)) := by
  simp [gapsWith, isEmpty_false_of_ne_nil h]

theorem merged_sep (one : Int) (total : Range) (rs : List Range) (H : Within total rs) :
    Sep one (mergeLoop one none (sortByStart rs)) :=
  (merge_sep one _ (sortByStart_sorted rs)
    (fun r hr => (H.2 r ((sortByStart_perm rs).mem_iff.mp hr)).2.1)).1

theorem gapsWith_disjoint (one : Int) (h0 : 0 ≤ one) (total : Range) (rs : List Range)
    (H : Within total rs) (b : Int) : Cov (gapsWith one total rs) b → ¬ Cov rs b := by
  by_cases hrs : rs = []
  · subst hrs; intro _; exact Cov_nil b
  · rw [gapsWith_ne_nil one total hrs]
    intro hg hc
    have hM := complement_disjoint one h0 total b _ (merged_sep one total rs H) hg
    exact hM ((merge_covers one b _).1 ((Cov_perm (sortByStart_perm rs) b).mpr hc))

theorem gapsWith_within (one : Int) (h0 : 0 ≤ one) (total : Range) (rs : List Range)
    (H : Within total rs) (hlen : 0 ≤ total.len) :
    ∀ g ∈ gapsWith one total rs, 0 ≤ g.start ∧ 0 ≤ g.len ∧ g.stop ≤ total.len := by
  have ht := H.1
  by_cases hrs : rs = []
  · subst hrs
    intro g hg
    simp only [gapsWith_nil, List.mem_singleton] at hg
    subst hg
    simp only [Range.stop]; omega
  · rw [gapsWith_ne_nil one total hrs]
    have hsep := merged_sep one total rs H
    have hperm := sortByStart_perm rs
    have hstart : ∀ h ∈ mergeLoop one none (sortByStart rs), 0 ≤ h.start := by
      intro h hh
      obtain ⟨r, hr, e⟩ := (merge_starts one _).1 h hh
      have := (H.2 r (hperm.mem_iff.mp hr)).1
      omega
    have hstop : ∀ h ∈ mergeLoop one none (sortByStart rs), h.stop ≤ total.len :=
      (merge_stops_le one total.len _ (fun r hr => (H.2 r (hperm.mem_iff.mp hr)).2.2)).1
    generalize mergeLoop one none (sortByStart rs) = M at hsep hstart hstop
    cases M with
    | nil =>
      intro g hg
      simp only [complement, List.mem_singleton] at hg
      subst hg
      simp only [Range.stop]; omega
    | cons a t =>
      rw [complement_cons]
      have hlast := lastOf_mem a t
      have hl0 := hstart _ hlast
      have hl1 := hstop _ hlast
      have hlpos := hsep.2 _ hlast
      have ha0 := hstart a List.mem_cons_self
      have ha1 := hstop a List.mem_cons_self
      have hapos := hsep.2 a List.mem_cons_self
      intro g hg
      simp only [List.mem_append] at hg
      rcases hg with (hg | hg) | hg
      · split at hg
        · simp only [List.mem_singleton] at hg
          subst hg
          simp only [Range.stop] at *; omega
        · simp at hg
      · obtain ⟨x, hx, y, hy, e1, e2, e3⟩ := mem_inner one _ hsep g hg
        have := hstart x hx
        have := hsep.2 x hx
        have := hstop y hy
        have := hsep.2 y hy
        simp only [Range.stop] at *; omega
      · split at hg
        · simp only [List.mem_singleton] at hg
          subst hg
          simp only [Range.stop] at *; omega
        · simp at hg

/-- coverage: an uncovered bit of the buffer is in a gap — or, for the algorithm as it is
    (`one = 1`), is a one-bit hole between a range that stops at `b` and one that starts at `b+1` -/
theorem gapsWith_cover (one : Int) (h01 : one = 0 ∨ one = 1) (total : Range) (rs : List Range)
    (H : Within total rs) (b : Int) (hb0 : 0 ≤ b) (hb1 : b < total.len) (hc : ¬ Cov rs b) :
    Cov (gapsWith one total rs) b ∨ (one = 1 ∧ StopsAt rs b ∧ StartsAt rs (b + 1)) := by
  by_cases hrs : rs = []
  · subst hrs
    left
    rw [gapsWith_nil]
    exact (Cov_cons _ _ _).mpr (Or.inl ⟨by have := H.1; omega, by have := H.1; simp only [Range.stop]; omega⟩)
  · rw [gapsWith_ne_nil one total hrs]
    have hperm := sortByStart_perm rs
    by_cases hM : Cov (mergeLoop one none (sortByStart rs)) b
    · rcases (merge_sound one h01 b _).1 hM with h | ⟨h1, ⟨r, hr, e⟩, ⟨r', hr', e'⟩⟩
      · exact absurd ((Cov_perm hperm b).mp h) hc
      · exact Or.inr ⟨h1, ⟨r, hperm.mem_iff.mp hr, e⟩, ⟨r', hperm.mem_iff.mp hr', e'⟩⟩
    · exact Or.inl (complement_covers total H.1 b _ hb0 hb1 hM)

theorem oneBitHole_iff (rs : List Range) (b : Int) :
    oneBitHole rs b = true ↔ ¬ Cov rs b ∧ StopsAt rs b ∧ StartsAt rs (b + 1) := by
  simp only [oneBitHole, Bool.and_eq_true, Bool.not_eq_true', covered_false_iff, List.any_eq_true,
    beq_iff_eq, StopsAt, StartsAt, and_assoc]

/-! ### order independence (the Go code sorts with an unstable sort) -/

/-- two slices on which the loop behaves identically from every state -/
def MEq (one : Int) (l l' : List Range) : Prop := ∀ cur, mergeLoop one cur l = mergeLoop one cur l'

theorem MEq.cons {one : Int} {l l' : List Range} (a : Range) (h : MEq one l l') : MEq one (a :: l) (a :: l') := by
  have hnone : mergeLoop one none (a :: l) = mergeLoop one none (a :: l') := by
    rw [mergeLoop_none_cons, mergeLoop_none_cons, h none, h (some a)]
  intro cur
  cases cur with
  | none => exact hnone
  | some m => rw [mergeLoop_some_cons, mergeLoop_some_cons, h (some (extend m a)), hnone]

theorem range_ext {x y : Range} (h1 : x.start = y.start) (h2 : x.len = y.len) : x = y := by
  cases x; cases y; simp only [Range.mk.injEq]; exact ⟨h1, h2⟩

theorem extend_extend_comm (m x y : Range) : extend (extend m x) y = extend (extend m y) x := by
  apply range_ext
  · simp only [extend_start]
  · have h1 := extend_len (extend m x) y
    have h2 := extend_len (extend m y) x
    have e1 := extend_stop (extend m x) y
    have e2 := extend_stop (extend m y) x
    have e3 := extend_stop m x
    have e4 := extend_stop m y
    have s1 := extend_start m x
    have s2 := extend_start m y
    rw [h1, h2, s1, s2, e1, e2, e3, e4]
    (repeat' split) <;> omega

/-- swapping two neighbours with the same start does not change the loop -/
theorem MEq_swap (one : Int) (h0 : 0 ≤ one) (x y : Range) (q : List Range) (hxy : x.start = y.start)
    (hx : 0 ≤ x.len) (hy : 0 ≤ y.len) : MEq one (x :: y :: q) (y :: x :: q) := by
  have key : ∀ u v : Range, u.start = v.start → 0 ≤ u.len → 0 ≤ v.len → u.len = 0 → v.len ≠ 0 →
      mergeLoop one (some v) (u :: q) = mergeLoop one (some v) q := by
    intro u v huv _ hv hu0 _
    rw [mergeLoop_some_cons, if_pos ((mergeCond_iff one v u).mpr ⟨by omega, by simp only [Range.stop]; omega⟩)]
    congr 2
    unfold extend
    rw [if_neg (by simp only [Range.stop]; omega)]
  have hnone : mergeLoop one none (x :: y :: q) = mergeLoop one none (y :: x :: q) := by
    rw [mergeLoop_none_cons one x (y :: q), mergeLoop_none_cons one y (x :: q)]
    by_cases hx0 : x.len = 0 <;> by_cases hy0 : y.len = 0
    · rw [if_pos hx0, if_pos hy0, mergeLoop_none_cons one y q, mergeLoop_none_cons one x q, if_pos hx0, if_pos hy0]
    · rw [if_pos hx0, if_neg hy0, mergeLoop_none_cons one y q, if_neg hy0, key x y hxy hx hy hx0 hy0]
    · rw [if_neg hx0, if_pos hy0, mergeLoop_none_cons one x q, if_neg hx0, key y x hxy.symm hy hx hy0 hx0]
    · rw [if_neg hx0, if_neg hy0, mergeLoop_some_cons one x y q, mergeLoop_some_cons one y x q,
        if_pos ((mergeCond_iff one x y).mpr ⟨by omega, by simp only [Range.stop]; omega⟩),
        if_pos ((mergeCond_iff one y x).mpr ⟨by omega, by simp only [Range.stop]; omega⟩)]
      congr 2
      apply range_ext
      · simp only [extend_start, hxy]
      · have h1 := extend_len x y
        have h2 := extend_len y x
        have e1 := extend_stop x y
        have e2 := extend_stop y x
        rw [h1, h2, e1, e2]
        split <;> split <;> simp only [Range.stop] at * <;> omega
  intro cur
  cases cur with
  | none => exact hnone
  | some m =>
    rw [mergeLoop_some_cons one m x (y :: q), mergeLoop_some_cons one m y (x :: q)]
    have hcxy : mergeCond one m x = mergeCond one m y := by simp only [mergeCond, hxy]
    by_cases hc : mergeCond one m x = true
    · have hc' : mergeCond one m y = true := hcxy ▸ hc
      rw [if_pos hc, if_pos hc', mergeLoop_some_cons one (extend m x) y q, mergeLoop_some_cons one (extend m y) x q]
      have hmx := (mergeCond_iff one m x).mp hc
      have c1 : mergeCond one (extend m x) y = true := by
        refine (mergeCond_iff one _ _).mpr ⟨by rw [extend_start]; omega, ?_⟩
        have := extend_stop m x
        split at this <;> omega
      have c2 : mergeCond one (extend m y) x = true := by
        refine (mergeCond_iff one _ _).mpr ⟨by rw [extend_start]; omega, ?_⟩
        have := extend_stop m y
        split at this <;> omega
      rw [if_pos c1, if_pos c2, extend_extend_comm]
    · have hc' : ¬ mergeCond one m y = true := hcxy ▸ hc
      rw [if_neg hc, if_neg hc', hnone]

theorem MEq_move (one : Int) (h0 : 0 ≤ one) (a : Range) (ha : 0 ≤ a.len) (p q : List Range)
    (hp : ∀ x ∈ p, x.start = a.start ∧ 0 ≤ x.len) : MEq one (p ++ a :: q) (a :: (p ++ q)) := by
  induction p with
  | nil => intro cur; rfl
  | cons x p ih =>
    have hx := hp x List.mem_cons_self
    have ih := ih (fun y hy => hp y (List.mem_cons_of_mem _ hy))
    intro cur
    have h1 := (MEq.cons x ih) cur
    have h2 := MEq_swap one h0 x a (p ++ q) hx.1 hx.2 ha cur
    simp only [List.cons_append] at *
    rw [h1, h2]

/-- the loop gives the same hulls on any two sorted arrangements of the same ranges -/
theorem mergeLoop_sorted_perm (one : Int) (h0 : 0 ≤ one) (S : List Range) :
    ∀ S' : List Range, Sorted S → Sorted S' → S.Perm S' → (∀ r ∈ S, 0 ≤ r.len) → MEq one S S' := by
  induction S with
  | nil =>
    intro S' _ _ hp _
    have := hp.symm.eq_nil
    subst this
    intro cur; rfl
  | cons a S1 ih =>
    intro S' hs hs' hp hlen
    have haS' : a ∈ S' := hp.mem_iff.mp List.mem_cons_self
    obtain ⟨p, q, e⟩ := List.append_of_mem haS'
    subst e
    have hsa := List.pairwise_cons.mp hs
    have hp2 : S1.Perm (p ++ q) := (hp.trans List.perm_middle).cons_inv
    have hsp := List.pairwise_append.mp hs'
    have hpa : ∀ x ∈ p, x.start = a.start ∧ 0 ≤ x.len := by
      intro x hx
      have h1 : x.start ≤ a.start := hsp.2.2 x hx a List.mem_cons_self
      have hxS : x ∈ a :: S1 := hp.mem_iff.mpr (List.mem_append_left _ hx)
      have h2 : a.start ≤ x.start := by
        rcases List.mem_cons.mp hxS with h | h
        · subst h; exact Int.le_refl _
        · exact hsa.1 x h
      exact ⟨by omega, hlen x hxS⟩
    have hsorted : Sorted (p ++ q) := by
      refine List.Pairwise.sublist ?_ hs'
      exact List.Sublist.append (List.Sublist.refl p) (List.sublist_cons_self a q)
    have h1 := ih (p ++ q) hsa.2 hsorted hp2 (fun r hr => hlen r (List.mem_cons_of_mem _ hr))
    have h2 := MEq_move one h0 a (hlen a List.mem_cons_self) p q hpa
    intro cur
    rw [h2 cur, (MEq.cons a h1) cur]

theorem gapsWith_perm (one : Int) (h0 : 0 ≤ one) (total : Range) (rs rs' : List Range)
    (hlen : ∀ r ∈ rs, 0 ≤ r.len) (hp : rs.Perm rs') : gapsWith one total rs = gapsWith one total rs' := by
  by_cases hrs : rs = []
  · subst hrs
    have := hp.symm.eq_nil
    subst this; rfl
  · have hrs' : rs' ≠ [] := fun h => hrs (by subst h; exact hp.eq_nil)
    rw [gapsWith_ne_nil one total hrs, gapsWith_ne_nil one total hrs']
    have hS := sortByStart_perm rs
    have hS' := sortByStart_perm rs'
    have := mergeLoop_sorted_perm one h0 (sortByStart rs) (sortByStart rs') (sortByStart_sorted rs)
      (sortByStart_sorted rs') ((hS.trans hp).trans hS'.symm) (fun r hr => hlen r (hS.mem_iff.mp hr)) none
    rw [this]

end Proofs.Gaps
