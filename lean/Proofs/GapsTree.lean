import FqModel.GapsTree
import Proofs.Gaps
import Proofs.TreeExec
/-!
  Helper lemmas for C04 at the TREE level: `D.FillGaps` as modelled in FqModel/Tree.lean (`finishDecode`, `addGaps`,
  decode.go:149-151 and :327-370) on top of `ranges.Gaps` (FqModel/Gaps.lean).

  * part A: the gaps `ranges.Gaps` returns are strictly increasing and not adjacent (flat lemma)
  * part B: `leafRanges` (what FillGaps' walk collects) under setIndex / rebase / postProcess / sort
  * part C: no decoder program makes a direct child with FlagGap (kind `.gap`) — only FillGaps does
  * part D: the leaf ranges FillGaps collects satisfy the hypothesis `Within` of the flat theorems
  * part E: `covered` / `oneBitHole` under shift and permutation
  * part F: the decomposition of the value a gap-filling `decode()` call returns, and its consequences
-/
namespace Proofs.GapsTree
open FqModel FqModel.Tree FqModel.Gaps FqModel.GapsTree Proofs.Gaps Proofs.Tree

/-! ## part A: the result of `ranges.Gaps` is strictly increasing, consecutive gaps are not adjacent -/

/-- `g` ends strictly before `h` starts (at least one bit in between) -/
def Before (g h : Range) : Prop := g.stop < h.start

theorem inner_pairwise (one : Int) (h0 : 0 ≤ one) (M : List Range) (hs : Sep one M) : (inner M).Pairwise Before := by
  induction M with
  | nil => simp [inner]
  | cons a t ih =>
    cases t with
    | nil => simp [inner]
    | cons c rest =>
      obtain ⟨h1, _, h3⟩ := (Sep_cons one a _).mp hs
      obtain ⟨h1c, hc, _⟩ := (Sep_cons one c _).mp h3
      simp only [inner]
      refine List.pairwise_cons.mpr ⟨?_, ih h3⟩
      intro h hh
      obtain ⟨x, hx, _, _, e1, _, _⟩ := mem_inner one _ h3 h hh
      simp only [Before, Range.stop]
      rcases List.mem_cons.mp hx with hx | hx
      · subst hx; simp only [Range.stop] at e1; omega
      · have := h1c x hx
        have := h3.2 x (List.mem_cons_of_mem _ hx)
        simp only [Range.stop] at *; omega

theorem complement_pairwise (one : Int) (h0 : 0 ≤ one) (total : Range) (M : List Range) (hs : Sep one M) :
    (complement total M).Pairwise Before := by
  cases M with
  | nil => simp [complement]
  | cons a t =>
    rw [complement_cons]
    obtain ⟨h1, ha, _⟩ := (Sep_cons one a _).mp hs
    have hlast := Sep_stop_le_last one h0 a t hs
    -- an inner gap starts at the stop of a hull and stops at the start of a hull
    have hin : ∀ g ∈ inner (a :: t), a.start < g.start ∧ g.stop < (lastOf a t).stop := by
      intro g hg
      obtain ⟨x, hx, y, hy, e1, e2, _⟩ := mem_inner one _ hs g hg
      have hy1 := hlast y hy
      have hy2 := hs.2 y hy
      have hx2 := hs.2 x hx
      refine ⟨?_, by simp only [Range.stop] at *; omega⟩
      rcases List.mem_cons.mp hx with hx | hx
      · subst hx; simp only [Range.stop] at *; omega
      · have := h1 x hx; simp only [Range.stop] at *; omega
    refine List.pairwise_append.mpr ⟨List.pairwise_append.mpr ⟨?_, inner_pairwise one h0 _ hs, ?_⟩, ?_, ?_⟩
    · split <;> simp
    · intro g hg h hh
      split at hg
      · simp only [List.mem_singleton] at hg; subst hg
        have := (hin h hh).1
        simp only [Before, Range.stop]; omega
      · simp at hg
    · split <;> simp
    · intro g hg h hh
      split at hh
      · simp only [List.mem_singleton] at hh; subst hh
        simp only [Before]
        rcases List.mem_append.mp hg with hg | hg
        · split at hg
          · simp only [List.mem_singleton] at hg; subst hg
            have := hlast a List.mem_cons_self
            simp only [Range.stop] at *; omega
          · simp at hg
        · exact (hin g hg).2
      · simp at hh

theorem gapsWith_pairwise (one : Int) (h0 : 0 ≤ one) (total : Range) (rs : List Range) (H : Within total rs) :
    (gapsWith one total rs).Pairwise Before := by
  by_cases hrs : rs = []
  · subst hrs; simp [gapsWith_nil]
  · rw [gapsWith_ne_nil one total hrs]
    exact complement_pairwise one h0 total _ (merged_sep one total rs H)

/-! ## part B: what FillGaps' walk collects, under the tree transformations of `decode()` -/

theorem leafRangesL_eq (X : List T) : leafRangesL X = X.flatMap (fun k => if k.isRoot then [] else leafRanges k) := by
  induction X with
  | nil => rfl
  | cons k ks ih => simp only [leafRangesL, List.flatMap_cons, ih]

theorem leafRangesL_append (X Y : List T) : leafRangesL (X ++ Y) = leafRangesL X ++ leafRangesL Y := by
  simp only [leafRangesL_eq, List.flatMap_append]

theorem leafRanges_comp (t : T) (h : t.i.kind.isComp = true) : leafRanges t = leafRangesL t.kids := by
  cases t with
  | mk i kids => simp only [T.i] at h; simp only [leafRanges, h, if_true, T.kids]

theorem leafRanges_setIndex (ix : Int) (t : T) : leafRanges (setIndex ix t) = leafRanges t := by
  cases t with
  | mk i kids => simp only [setIndex, leafRanges]

theorem kidGap_setIndex (ix : Int) (t : T) : kidGap (setIndex ix t) = kidGap t := by
  simp only [kidGap, setIndex_kind, setIndex_isRoot, setIndex_start, setIndex_len]

theorem kidLeaves_setIndex (ix : Int) (t : T) : kidLeaves (setIndex ix t) = kidLeaves t := by
  simp only [kidLeaves, setIndex_kind, setIndex_isRoot, leafRanges_setIndex]

theorem flatMap_assignIdx {β} (h : T → List β) (hh : ∀ ix k, h (setIndex ix k) = h k) (arr : Bool) :
    ∀ (n : Nat) (X : List T), (assignIdx arr n X).flatMap h = X.flatMap h
  | _, [] => rfl
  | n, k :: ks => by simp only [assignIdx, List.flatMap_cons, hh, flatMap_assignIdx h hh arr (n + 1) ks]

theorem flatMap_sort {β} (h : T → List β) (X : List T) : ((Tree.sortByStart X).flatMap h).Perm (X.flatMap h) :=
  List.Perm.flatMap_right h (Proofs.Tree.sortByStart_perm X)

/-- the children of a post-processed compound: re-indexed, and (struct) stably sorted, post-processed children -/
theorem postProcess_kids_comp (i : Info) (K : List T) (hc : i.kind.isComp = true) :
    (postProcess (.mk i K)).kids =
      assignIdx (i.kind == .array) 0 (if i.kind == .array then ppKids K else Tree.sortByStart (ppKids K)) := by
  simp only [postProcess, hc, if_true, T.kids]

theorem postProcess_noncomp (i : Info) (K : List T) (hc : i.kind.isComp = false) : postProcess (.mk i K) = .mk i K := by
  simp only [postProcess, hc, Bool.false_eq_true, if_false]

theorem pp_kids_flat {β} (h : T → List β) (hh : ∀ ix k, h (setIndex ix k) = h k) (i : Info) (K : List T)
    (hc : i.kind.isComp = true) : ((postProcess (.mk i K)).kids.flatMap h).Perm ((ppKids K).flatMap h) := by
  rw [postProcess_kids_comp i K hc, flatMap_assignIdx h hh]
  split
  · exact List.Perm.refl _
  · exact flatMap_sort h _

mutual
/-- postProcess permutes the leaves of a buffer (it sorts struct fields), it neither adds nor drops nor moves one -/
theorem leafRanges_pp : ∀ t, (leafRanges (postProcess t)).Perm (leafRanges t)
  | .mk i kids => by
    by_cases hc : i.kind.isComp = true
    · have hk : (postProcess (.mk i kids)).i.kind.isComp = true := by rw [(postProcess_i _).2.1]; exact hc
      rw [leafRanges_comp _ hk, leafRanges_comp (.mk i kids) hc, leafRangesL_eq, leafRangesL_eq]
      refine (pp_kids_flat _ (fun ix k => by simp only [setIndex_isRoot, leafRanges_setIndex]) i kids hc).trans ?_
      rw [← leafRangesL_eq, ← leafRangesL_eq]
      exact leafRangesL_pp kids
    · rw [postProcess_noncomp i kids (by simpa using hc)]
theorem leafRangesL_pp : ∀ X, (leafRangesL (ppKids X)).Perm (leafRangesL X)
  | [] => List.Perm.refl _
  | k :: ks => by
    simp only [ppKids, leafRangesL]
    refine List.Perm.append ?_ (leafRangesL_pp ks)
    by_cases hr : k.isRoot = true
    · simp only [hr, if_true]; exact List.Perm.refl _
    · simp only [hr, Bool.false_eq_true, if_false, postProcess_isRoot]
      exact leafRanges_pp k
end

theorem postProcess_kind (t : T) : (postProcess t).i.kind = t.i.kind := (postProcess_i t).2.1

theorem postProcess_of_gap (t : T) (h : t.i.kind = .gap) : postProcess t = t := by
  cases t with
  | mk i kids => simp only [T.i] at h; exact postProcess_noncomp i kids (by rw [h]; rfl)

theorem ppKids_flat_gap : ∀ X : List T, (ppKids X).flatMap kidGap = X.flatMap kidGap
  | [] => rfl
  | k :: ks => by
    simp only [ppKids, List.flatMap_cons, ppKids_flat_gap ks]
    congr 1
    by_cases hr : k.isRoot = true
    · simp only [hr, if_true]
    · simp only [hr, Bool.false_eq_true, if_false]
      simp only [kidGap, postProcess_kind, postProcess_isRoot]
      by_cases hg : k.i.kind = .gap
      · rw [postProcess_of_gap k hg]
      · have : (k.i.kind == Kind.gap) = false := by simpa using hg
        simp only [this, Bool.false_and, Bool.false_eq_true, if_false]

theorem ppKids_flat_leaves : ∀ X : List T, ((ppKids X).flatMap kidLeaves).Perm (X.flatMap kidLeaves)
  | [] => List.Perm.refl _
  | k :: ks => by
    simp only [ppKids, List.flatMap_cons]
    refine List.Perm.append ?_ (ppKids_flat_leaves ks)
    by_cases hr : k.isRoot = true
    · simp only [hr, if_true]; exact List.Perm.refl _
    · simp only [hr, Bool.false_eq_true, if_false]
      simp only [kidLeaves, postProcess_kind, postProcess_isRoot]
      split
      · exact List.Perm.refl _
      · exact leafRanges_pp k

mutual
theorem leafRanges_rebase (d : Int) : ∀ t, leafRanges (rebase d t) = (leafRanges t).map (shift d)
  | .mk i kids => by
    simp only [rebase, leafRanges]
    split
    · exact leafRangesL_rebase d kids
    · simp only [List.map_cons, List.map_nil, shift]
theorem leafRangesL_rebase (d : Int) : ∀ X, leafRangesL (rebaseL d X) = (leafRangesL X).map (shift d)
  | [] => rfl
  | k :: ks => by
    simp only [rebaseL, leafRangesL, List.map_append, leafRangesL_rebase d ks]
    congr 1
    by_cases hr : k.isRoot = true
    · simp only [hr, if_true, List.map_nil]
    · have hr' : (rebase d k).isRoot = false := by
        simp only [T.isRoot, (rebase_i d k).2.1]; simpa [T.isRoot] using hr
      simp only [hr, Bool.false_eq_true, if_false, hr', leafRanges_rebase d k]
end

theorem rebase_start_len (d : Int) (t : T) : (rebase d t).start = t.start + d ∧ (rebase d t).len = t.len := by
  cases t; simp [rebase, T.start, T.len, T.i]

theorem rebaseL_flat_gap (d : Int) : ∀ X : List T, (rebaseL d X).flatMap kidGap = (X.flatMap kidGap).map (shift d)
  | [] => rfl
  | k :: ks => by
    simp only [rebaseL, List.flatMap_cons, List.map_append, rebaseL_flat_gap d ks]
    congr 1
    by_cases hr : k.isRoot = true
    · simp only [hr, if_true, kidGap, Bool.not_true, Bool.and_false, Bool.false_eq_true, if_false, List.map_nil]
    · have hr0 : k.isRoot = false := by simpa using hr
      have hr' : (rebase d k).isRoot = false := by
        simp only [T.isRoot, (rebase_i d k).2.1]; simpa [T.isRoot] using hr
      simp only [hr, Bool.false_eq_true, if_false, kidGap, hr', hr0, (rebase_i d k).2.2, (rebase_start_len d k).1,
        (rebase_start_len d k).2]
      split <;> simp [shift]

theorem rebaseL_flat_leaves (d : Int) : ∀ X : List T, (rebaseL d X).flatMap kidLeaves = (X.flatMap kidLeaves).map (shift d)
  | [] => rfl
  | k :: ks => by
    simp only [rebaseL, List.flatMap_cons, List.map_append, rebaseL_flat_leaves d ks]
    congr 1
    by_cases hr : k.isRoot = true
    · simp only [hr, if_true, kidLeaves, Bool.true_or, List.map_nil]
    · have hr0 : k.isRoot = false := by simpa using hr
      have hr' : (rebase d k).isRoot = false := by
        simp only [T.isRoot, (rebase_i d k).2.1]; simpa [T.isRoot] using hr
      simp only [hr, Bool.false_eq_true, if_false, kidLeaves, hr', hr0, (rebase_i d k).2.2, leafRanges_rebase d k]
      split <;> simp

/-! ### the gap fields FillGaps appends -/

/-- the values `D.FillGaps` makes for the gaps `gs`, the first one named `gap<n>` (decode.go:351-368) -/
def gapLeaves : Nat → List Range → List T
  | _, [] => []
  | n, g :: gs => leaf (.gap n) .gap g.start g.len :: gapLeaves (n + 1) gs

theorem addGaps_eq (arr : Bool) (l : Int) : ∀ (gs : List Range) (n : Nat) (kids kids' : List T),
    addGaps arr l n gs kids = .ok kids' → kids' = kids ++ gapLeaves n gs
  | [], n, kids, kids', e => by simp only [addGaps] at e; cases e; simp [gapLeaves]
  | g :: gs, n, kids, kids', e => by
    simp only [addGaps] at e
    split at e
    · cases e
    · split at e
      · cases e
      · rw [addGaps_eq arr l gs (n + 1) _ kids' e]
        simp [gapLeaves]

/-- `bitiox.Range` never fails for a gap inside the buffer: FillGaps can only panic with the duplicate-name Fatalf -/
theorem addGaps_no_io (arr : Bool) (l : Int) : ∀ (gs : List Range) (n : Nat) (kids : List T),
    (∀ g ∈ gs, 0 ≤ g.len ∧ g.stop ≤ l) → addGaps arr l n gs kids ≠ .error .io
  | [], n, kids, _ => by simp [addGaps]
  | g :: gs, n, kids, hg => by
    simp only [addGaps]
    have := hg g (by simp)
    split
    · rename_i hb; simp only [Range.stop] at this; omega
    · split
      · simp
      · exact addGaps_no_io arr l gs (n + 1) _ (fun g' h' => hg g' (by simp [h']))

theorem gapLeaves_flat_gap : ∀ (n : Nat) (gs : List Range), (gapLeaves n gs).flatMap kidGap = gs
  | _, [] => rfl
  | n, g :: gs => by
    simp only [gapLeaves, List.flatMap_cons, gapLeaves_flat_gap (n + 1) gs]
    simp [kidGap, leaf, T.isRoot, T.i, T.start, T.len]

theorem gapLeaves_flat_leaves : ∀ (n : Nat) (gs : List Range), (gapLeaves n gs).flatMap kidLeaves = []
  | _, [] => rfl
  | n, g :: gs => by
    simp only [gapLeaves, List.flatMap_cons, gapLeaves_flat_leaves (n + 1) gs]
    simp [kidLeaves, leaf, T.isRoot, T.i]

/-! ## part C: only FillGaps makes gap fields -/

/-- no direct child carries FlagGap -/
def NoGapTop (kids : List T) : Prop := ∀ k ∈ kids, k.i.kind ≠ .gap

theorem noGap_flat_gap (X : List T) (h : NoGapTop X) : X.flatMap kidGap = [] := by
  induction X with
  | nil => rfl
  | cons k ks ih =>
    have hk : (k.i.kind == Kind.gap) = false := by simpa using h k (by simp)
    simp only [List.flatMap_cons, ih (fun k' h' => h k' (by simp [h'])), kidGap, hk, Bool.false_and,
      Bool.false_eq_true, if_false, List.append_nil]

theorem noGap_flat_leaves (X : List T) (h : NoGapTop X) : X.flatMap kidLeaves = leafRangesL X := by
  induction X with
  | nil => rfl
  | cons k ks ih =>
    have hk : (k.i.kind == Kind.gap) = false := by simpa using h k (by simp)
    simp only [List.flatMap_cons, ih (fun k' h' => h k' (by simp [h'])), kidLeaves, hk, Bool.or_false, leafRangesL]

/-- the value a `decode()` call returns, as far as FillGaps is concerned -/
theorem finishDecode_shape (name : FName) (arr : Bool) (s l : Int) (isRoot fill : Bool) (bufLen : Int) (r : St) (t : T)
    (h : finishDecode name arr s l isRoot fill bufLen r = .value t) :
    ∃ kids1 i1, (if fill then addGaps arr l 0 (gaps ⟨0, l⟩ (leafRangesL r.kids)) r.kids else .ok r.kids) = .ok kids1 ∧
      i1.kind = (if arr then Kind.array else Kind.struct) ∧
      t = (if isRoot then postProcess (.mk i1 (rebaseL s kids1)) else .mk i1 (rebaseL s kids1)) := by
  simp only [finishDecode] at h
  split at h
  · cases h
  · rename_i kids1 he
    simp only [rebase] at h
    injection h with h
    exact ⟨kids1, _, he, rfl, h.symm⟩

theorem finishDecode_kind {name : FName} {arr : Bool} {s l : Int} {isRoot fill : Bool} {bufLen : Int} {r : St} {t : T}
    (h : finishDecode name arr s l isRoot fill bufLen r = .value t) : t.i.kind.isComp = true := by
  obtain ⟨kids1, i1, _, hk, e⟩ := finishDecode_shape _ _ _ _ _ _ _ _ _ h
  subst e
  split
  · rw [postProcess_kind]; simp only [T.i, hk]; exact kind_isComp_ite arr
  · simp only [T.i, hk]; exact kind_isComp_ite arr

theorem comp_ne_gap {k : Kind} (h : k.isComp = true) : k ≠ .gap := by
  intro e; subst e; exact absurd h (by decide)

def BodyNG (body : Body) : Prop := ∀ (c : Ctx) (st : St), NoGapTop st.kids → NoGapTop (body c st).kids

theorem ng_append {X : List T} {v : T} (h : NoGapTop X) (hv : v.i.kind ≠ .gap) : NoGapTop (X ++ [v]) := by
  intro k hk
  rcases List.mem_append.mp hk with hk | hk
  · exact h k hk
  · simp only [List.mem_singleton] at hk; subst hk; exact hv

theorem ng_addChild {c : Ctx} {st : St} {v : T} (h : NoGapTop st.kids) (hv : v.i.kind ≠ .gap) :
    NoGapTop (addChild c st v).kids := by
  simp only [addChild]
  split
  · exact h
  · exact ng_append h hv

theorem ng_doRaw (c : Ctx) (st : St) (name : FName) (n : Int) (h : NoGapTop st.kids) : NoGapTop (doRaw c st name n).kids := by
  simp only [doRaw]
  split
  · exact h
  · exact ng_addChild (st := { st with pos := st.pos + n }) h (by simp [leaf, T.i])

theorem ng_doU (c : Ctx) (st : St) (name : FName) (n : Nat) (h : NoGapTop st.kids) : NoGapTop (doU name n c st).kids := by
  simp only [doU]
  split
  · exact ng_addChild (st := { st with pos := st.pos + n }) h (by simp [leaf, T.i])
  · exact h

theorem ng_doComp (c : Ctx) (st : St) (arr : Bool) (name : FName) (body : Body) (h : NoGapTop st.kids) :
    NoGapTop (doComp arr name body c st).kids := by
  simp only [doComp]
  split
  · exact h
  · exact ng_append h (by simp only [T.i]; exact comp_ne_gap (kind_isComp_ite arr))

theorem ng_doSub (c : Ctx) (st : St) (k : SubKind) (n : Int) (body : Body) (hb : BodyNG body) (h : NoGapTop st.kids) :
    NoGapTop (doSub k n body c st).kids := by
  simp only [doSub]
  split
  · exact h
  · split
    · exact h
    · have hr := hb { c with buf := c.buf.take (k.first st.pos + n).toNat }
        { st with pos := k.first st.pos, over := st.over || decide (k.first st.pos > k.first st.pos + n) } h
      split
      · exact hr
      · cases k with
        | range off => exact hr
        | framed => exact hr
        | limited => simp only [SubKind.finish]; split <;> exact hr

theorem ng_doSeek (c : Ctx) (st : St) (abs : Bool) (x : Int) (restore : Bool) (body : Body) (hb : BodyNG body)
    (h : NoGapTop st.kids) : NoGapTop (doSeek abs x restore body c st).kids := by
  simp only [doSeek]
  generalize (if abs then x else st.pos + x) = target
  split
  · exact h
  · split
    · have hr := hb c { st with pos := target } h
      split
      · exact hr
      · exact hr
    · exact h

theorem ng_iter (f : St → St) (hf : ∀ st, NoGapTop st.kids → NoGapTop (f st).kids) :
    ∀ (n : Nat) (st : St), NoGapTop st.kids → NoGapTop (iter f n st).kids
  | 0, _, h => h
  | n + 1, st, h => by
    simp only [iter]
    split
    · exact ng_iter f hf n (f st) (hf st h)
    · exact hf st h

theorem ng_doLoop (c : Ctx) (st : St) (nbits mod : Nat) (body : Body) (hb : BodyNG body) (h : NoGapTop st.kids) :
    NoGapTop (doLoop nbits mod body c st).kids := by
  simp only [doLoop]
  split
  · exact ng_iter (body c) (fun st => hb c st) _ _ h
  · exact h

theorem ng_fmtFailed (c : Ctx) (st : St) (m : FMode) (name : FName) (h : NoGapTop st.kids) :
    NoGapTop (fmtFailed m name c st).kids := by
  simp only [fmtFailed]
  split
  · exact ng_doRaw _ _ _ _ h
  · exact ng_doRaw _ _ _ _ h
  · exact h

theorem ng_doFmt (c : Ctx) (st : St) (m : FMode) (name : FName) (arr : Bool) (body : Body) (h : NoGapTop st.kids) :
    NoGapTop (doFmt m name arr body c st).kids := by
  simp only [doFmt]
  generalize m.sl0 st.pos c.buf.length = sl0
  generalize (if sl0.1 = 0 ∧ sl0.2 = 0 then ((0 : Int), (c.buf.length : Int)) else sl0) = sl
  generalize body { buf := slice c.buf sl.1.toNat sl.2.toNat, arr := arr, force := c.force } {} = r
  split
  · exact ng_fmtFailed _ _ _ _ h
  · split
    · exact h
    · rename_i t ht
      split
      · exact ng_fmtFailed _ _ _ _ h
      · have h1 : NoGapTop (addChild c { st with over := st.over || r.over } t).kids :=
          ng_addChild (st := { st with over := _ }) h (comp_ne_gap (finishDecode_kind ht))
        split
        · exact h1
        · cases m <;> exact h1

theorem ng_addChildren (c : Ctx) : ∀ (vs : List T) (st : St), NoGapTop st.kids → NoGapTop vs →
    NoGapTop (addChildren c st vs).kids
  | [], _, h, _ => h
  | v :: vs, st, h, hv => by
    simp only [addChildren]
    have h1 := ng_addChild (c := c) h (hv v (by simp))
    split
    · exact ng_addChildren c vs _ h1 (fun k hk => hv k (by simp [hk]))
    · exact h1

theorem ng_rebaseL (d : Int) (X : List T) (h : NoGapTop X) : NoGapTop (rebaseL d X) := by
  induction X with
  | nil => exact h
  | cons k ks ih =>
    intro k' hk'
    simp only [rebaseL, List.mem_cons] at hk'
    rcases hk' with e | hk'
    · subst e
      split
      · exact h k (by simp)
      · rw [(rebase_i d k).2.2]; exact h k (by simp)
    · exact ih (fun k hk => h k (by simp [hk])) k' hk'

theorem ng_doInline (c : Ctx) (st : St) (arr : Bool) (body : Body) (hb : BodyNG body) (h : NoGapTop st.kids) :
    NoGapTop (doInline arr body c st).kids := by
  simp only [doInline]
  generalize (if st.pos = 0 ∧ (c.buf.length : Int) - st.pos = 0 then ((0 : Int), (c.buf.length : Int)) else (st.pos, (c.buf.length : Int) - st.pos)) = sl
  generalize hr : body { buf := slice c.buf sl.1.toNat sl.2.toNat, arr := arr, force := c.force } {} = r
  split
  · exact h
  · split
    · exact h
    · rename_i t ht
      split
      · exact h
      · obtain ⟨kids1, i1, he, _, e⟩ := finishDecode_shape _ _ _ _ _ _ _ _ _ ht
        simp only [Bool.false_eq_true, if_false, Except.ok.injEq] at he e
        have hk : NoGapTop t.kids := by
          rw [e, ← he, ← hr]
          exact ng_rebaseL _ _ (hb _ {} (fun _ hk => by simp at hk))
        have h1 := ng_addChildren c t.kids { st with over := st.over || r.over } h hk
        split
        · exact h1
        · exact h1

theorem setStart_kind (s : Int) (t : T) : (setStart s t).i.kind = t.i.kind := by cases t; rfl

theorem ng_doFmtBuf (c : Ctx) (st : St) (name : FName) (nbits : Nat) (arr : Bool) (body : Body) (h : NoGapTop st.kids) :
    NoGapTop (doFmtBuf name nbits arr body c st).kids := by
  simp only [doFmtBuf]
  split
  · exact h
  · rename_i t ht
    split
    · exact h
    · exact ng_addChild (st := { st with over := _ }) h (by rw [setStart_kind]; exact comp_ne_gap (finishDecode_kind ht))

theorem ng_doRootFn (c : Ctx) (st : St) (arr : Bool) (name : FName) (nbits : Nat) (body : Body) (h : NoGapTop st.kids) :
    NoGapTop (doRootFn arr name nbits body c st).kids := by
  simp only [doRootFn]
  split
  · exact h
  · exact ng_append h (by rw [postProcess_kind]; simp only [T.i]; exact comp_ne_gap (kind_isComp_ite arr))

theorem ng_doRootBuf (c : Ctx) (st : St) (name : FName) (nbits : Nat) (h : NoGapTop st.kids) :
    NoGapTop (doRootBuf name nbits c st).kids := by
  simp only [doRootBuf]
  exact ng_addChild h (by simp [T.i])

theorem ng_doFail (c : Ctx) (st : St) (a : Bool) (h : NoGapTop st.kids) : NoGapTop (doFail a c st).kids := by
  simp only [doFail]; split <;> exact h

mutual
/-- no API call of a decoder program makes a direct child with FlagGap -/
theorem exec_ng : ∀ (p : Prog), BodyNG (exec p)
  | .u name n => fun c st => ng_doU c st name n
  | .raw name n => fun c st => ng_doRaw c st name n
  | .syn name => fun c st h => ng_addChild h (by simp [leaf, T.i])
  | .comp arr name body => fun c st => ng_doComp c st arr name _
  | .sub k n body => fun c st => ng_doSub c st k n _ (execList_ng body)
  | .seek abs x restore body => fun c st => ng_doSeek c st abs x restore _ (execList_ng body)
  | .fmt m name arr body => fun c st => ng_doFmt c st m name arr _
  | .inl arr body => fun c st => ng_doInline c st arr _ (execList_ng body)
  | .fmtBuf name nbits arr body => fun c st => ng_doFmtBuf c st name nbits arr _
  | .rootFn arr name nbits body => fun c st => ng_doRootFn c st arr name nbits _
  | .rootBuf name nbits => fun c st => ng_doRootBuf c st name nbits
  | .fail always => fun c st => ng_doFail c st always
  | .loop nbits mod body => fun c st => ng_doLoop c st nbits mod _ (execList_ng body)
theorem execList_ng : ∀ (ps : List Prog), BodyNG (execList ps)
  | [] => fun _ _ h => h
  | p :: ps => fun c st h => by
    simp only [execList]
    split
    · exact execList_ng ps c _ (exec_ng p c st h)
    · exact exec_ng p c st h
end

/-! ## part D: the leaf ranges FillGaps collects lie inside the decode range -/

mutual
theorem leafRanges_within {l : Int} : ∀ t, preIn l t = true → ∀ r ∈ leafRanges t, 0 ≤ r.start ∧ 0 ≤ r.len ∧ r.stop ≤ l
  | .mk i kids => by
    intro hp r hr
    simp only [preIn, Bool.and_eq_true, decide_eq_true_eq, Bool.not_eq_true'] at hp
    obtain ⟨⟨⟨⟨⟨h1, h2⟩, h3⟩, h4⟩, h5⟩, h6⟩ := hp
    simp only [leafRanges] at hr
    split at hr
    · rename_i hc
      simp only [hc, if_true, Bool.and_eq_true] at h6
      exact leafRangesL_within kids h6.2 r hr
    · simp only [List.mem_singleton] at hr; subst hr; exact ⟨h1, h2, h3⟩
theorem leafRangesL_within {l : Int} : ∀ kids, preKids l kids = true →
    ∀ r ∈ leafRangesL kids, 0 ≤ r.start ∧ 0 ≤ r.len ∧ r.stop ≤ l
  | [] => by intro _ r hr; simp [leafRangesL] at hr
  | k :: ks => by
    intro hp r hr
    simp only [preKids, Bool.and_eq_true] at hp
    simp only [leafRangesL, List.mem_append] at hr
    rcases hr with hr | hr
    · split at hr
      · simp at hr
      · rename_i hroot
        simp only [hroot, Bool.false_eq_true, if_false] at hp
        exact leafRanges_within k hp.1 r hr
    · exact leafRangesL_within ks hp.2 r hr
end

/-! ## part E: coverage under shift and permutation -/

theorem shift_shift (a b : Int) (r : Range) : shift a (shift b r) = shift (b + a) r := by
  simp only [shift]; congr 1; omega

theorem map_shift_neg (s : Int) (X : List Range) : (X.map (shift s)).map (shift (-s)) = X := by
  rw [List.map_map]
  have : (shift (-s) ∘ shift s) = id := by
    funext r; cases r; simp only [Function.comp, shift, id]; congr 1; omega
  rw [this, List.map_id]

theorem Cov_shift (s : Int) (X : List Range) (b : Int) : Cov (X.map (shift s)) b ↔ Cov X (b - s) := by
  simp only [Cov, List.mem_map]
  constructor
  · rintro ⟨_, ⟨r, hr, rfl⟩, h1, h2⟩
    exact ⟨r, hr, by simp only [shift, Range.stop] at *; omega, by simp only [shift, Range.stop] at *; omega⟩
  · rintro ⟨r, hr, h1, h2⟩
    exact ⟨_, ⟨r, hr, rfl⟩, by simp only [shift, Range.stop] at *; omega, by simp only [shift, Range.stop] at *; omega⟩

theorem StopsAt_shift (s : Int) (X : List Range) (b : Int) : StopsAt (X.map (shift s)) b ↔ StopsAt X (b - s) := by
  simp only [StopsAt, List.mem_map]
  constructor
  · rintro ⟨_, ⟨r, hr, rfl⟩, h1⟩
    exact ⟨r, hr, by simp only [shift, Range.stop] at *; omega⟩
  · rintro ⟨r, hr, h1⟩
    exact ⟨_, ⟨r, hr, rfl⟩, by simp only [shift, Range.stop] at *; omega⟩

theorem StartsAt_shift (s : Int) (X : List Range) (b : Int) : StartsAt (X.map (shift s)) b ↔ StartsAt X (b - s) := by
  simp only [StartsAt, List.mem_map]
  constructor
  · rintro ⟨_, ⟨r, hr, rfl⟩, h1⟩
    exact ⟨r, hr, by simp only [shift] at *; omega⟩
  · rintro ⟨r, hr, h1⟩
    exact ⟨_, ⟨r, hr, rfl⟩, by simp only [shift] at *; omega⟩

theorem pairwise_tri {L : List Range} (h : L.Pairwise Before) :
    ∀ x ∈ L, ∀ y ∈ L, x = y ∨ Before x y ∨ Before y x := by
  induction L with
  | nil => intro x hx; simp at hx
  | cons a t ih =>
    obtain ⟨h1, h2⟩ := List.pairwise_cons.mp h
    intro x hx y hy
    rcases List.mem_cons.mp hx with hx | hx <;> rcases List.mem_cons.mp hy with hy | hy
    · left; rw [hx, hy]
    · rw [hx]; exact Or.inr (Or.inl (h1 y hy))
    · rw [hy]; exact Or.inr (Or.inr (h1 x hx))
    · exact ih h2 x hx y hy

/-! ## part F: the value of a gap-filling `decode()` -/

/-- `t` is the value of a `decode()` call with `FillGaps` over the range `s:l` of its buffer: its gap fields are —
    as a multiset — exactly `ranges.Gaps(0:l, leaves)` moved to `s`, and the leaves lie inside the range -/
def Filled (s l : Int) (t : T) : Prop :=
  0 ≤ l ∧ Within ⟨0, l⟩ (localLeaves s t) ∧
    (gapFields t).Perm ((gaps ⟨0, l⟩ (localLeaves s t)).map (shift s))

theorem fill_decomp (name : FName) (arr : Bool) (s l : Int) (isRoot : Bool) (bufLen : Int) (r : St) (t : T)
    (hng : NoGapTop r.kids) (h : finishDecode name arr s l isRoot true bufLen r = .value t) :
    (gapFields t).Perm ((gaps ⟨0, l⟩ (leafRangesL r.kids)).map (shift s)) ∧
    (fieldLeaves t).Perm ((leafRangesL r.kids).map (shift s)) := by
  obtain ⟨kids1, i1, he, hk, e⟩ := finishDecode_shape _ _ _ _ _ _ _ _ _ h
  simp only [if_true] at he
  have hk1 := addGaps_eq arr l _ 0 r.kids kids1 he
  have hc : i1.kind.isComp = true := by rw [hk]; exact kind_isComp_ite arr
  have eG : (rebaseL s kids1).flatMap kidGap = (gaps ⟨0, l⟩ (leafRangesL r.kids)).map (shift s) := by
    rw [rebaseL_flat_gap, hk1, List.flatMap_append, noGap_flat_gap _ hng, gapLeaves_flat_gap, List.nil_append]
  have eL : (rebaseL s kids1).flatMap kidLeaves = (leafRangesL r.kids).map (shift s) := by
    rw [rebaseL_flat_leaves, hk1, List.flatMap_append, noGap_flat_leaves _ hng, gapLeaves_flat_leaves, List.append_nil]
  subst e
  cases isRoot with
  | false =>
    simp only [Bool.false_eq_true, if_false, gapFields, fieldLeaves, T.kids, eG, eL]
    exact ⟨List.Perm.refl _, List.Perm.refl _⟩
  | true =>
    simp only [if_true, gapFields, fieldLeaves]
    refine ⟨?_, ?_⟩
    · refine (pp_kids_flat kidGap kidGap_setIndex i1 _ hc).trans ?_
      rw [ppKids_flat_gap, eG]
    · refine (pp_kids_flat kidLeaves kidLeaves_setIndex i1 _ hc).trans ?_
      rw [← eL]
      exact ppKids_flat_leaves _

theorem within_perm {total : Range} {X Y : List Range} (p : X.Perm Y) (h : Within total Y) : Within total X :=
  ⟨h.1, fun r hr => h.2 r (p.mem_iff.mp hr)⟩

/-- every `decode()` call with FillGaps, given the invariant of the state in which DecodeFn ended -/
theorem decode_filled (name : FName) (arr : Bool) (s l : Int) (isRoot : Bool) (bufLen : Int) (r : St) (t : T)
    (hl : 0 ≤ l) (hk : preKids l r.kids = true) (hng : NoGapTop r.kids)
    (h : finishDecode name arr s l isRoot true bufLen r = .value t) : Filled s l t := by
  obtain ⟨hG, hL⟩ := fill_decomp name arr s l isRoot bufLen r t hng h
  have hW : Within ⟨0, l⟩ (leafRangesL r.kids) := ⟨rfl, leafRangesL_within r.kids hk⟩
  have hp : (localLeaves s t).Perm (leafRangesL r.kids) := by
    have := hL.map (shift (-s))
    rw [map_shift_neg] at this
    exact this
  have hW' := within_perm hp hW
  refine ⟨hl, hW', ?_⟩
  have : gaps ⟨0, l⟩ (localLeaves s t) = gaps ⟨0, l⟩ (leafRangesL r.kids) :=
    gapsWith_perm 1 (by decide) _ _ _ (fun r hr => (hW'.2 r hr).2.1) hp
  rw [this]
  exact hG

/-- … in particular every such call the interpreter makes: DecodeFn = a decoder program run on a fresh decoder over a
    section of `l` bits (`doFmt` for FieldFormatLen/Range, `doFmtBuf` for FieldFormatBitBuf, `run` for the top level) -/
theorem exec_decode_filled (name : FName) (arr : Bool) (s l : Int) (isRoot : Bool) (bufLen : Int) (ps : List Prog)
    (B : Bits) (force : Bool) (t : T) (hB : (B.length : Int) = l)
    (h : finishDecode name arr s l isRoot true bufLen (execList ps { buf := B, arr := arr, force := force } {}) = .value t) :
    Filled s l t := by
  have hl : 0 ≤ l := by omega
  have gr := execList_inv ps l { buf := B, arr := arr, force := force } {}
    ⟨by simp, by simp only [hB]; exact hl, by simp only [hB]; omega, rfl, Or.inr rfl, rfl⟩
  exact decode_filled name arr s l isRoot bufLen _ t hl gr.kids
    (execList_ng ps _ {} (fun _ hk => by simp at hk)) h

/-- what `run` did when it produced an outcome other than "no value" -/
theorem run_unfold (cfg : Cfg) (input : Bits) (h : (run cfg input).out ≠ .noValue) :
    0 ≤ (decodeRange cfg input).1 ∧ 0 ≤ (decodeRange cfg input).2 ∧
    (decodeRange cfg input).1 + (decodeRange cfg input).2 ≤ input.length ∧
    (run cfg input).out =
      match finishDecode rootName cfg.arr (decodeRange cfg input).1 (decodeRange cfg input).2 true cfg.fillGaps input.length
        (execList cfg.body { buf := slice input (decodeRange cfg input).1.toNat (decodeRange cfg input).2.toNat,
                             arr := cfg.arr, force := cfg.force } {}) with
      | .panic e => .panic e
      | .value t => .tree t := by
  simp only [run] at h ⊢
  simp only [decodeRange]
  generalize hsl : (if cfg.off = 0 ∧ cfg.len = 0 then ((0 : Int), (input.length : Int)) else ((cfg.off : Int), (cfg.len : Int))) = sl at *
  have hs0 : 0 ≤ sl.1 := by rw [← hsl]; split <;> simp
  have hl0 : 0 ≤ sl.2 := by rw [← hsl]; split <;> simp
  split
  · rename_i hrange; simp [hrange] at h
  · rename_i hrange
    refine ⟨hs0, hl0, Int.not_lt.mp hrange, ?_⟩
    split <;> rename_i he <;> simp only [he]

theorem run_tree_unfold (cfg : Cfg) (input : Bits) (t : T) (ht : (run cfg input).out = .tree t) :
    0 ≤ (decodeRange cfg input).1 ∧ 0 ≤ (decodeRange cfg input).2 ∧
    (decodeRange cfg input).1 + (decodeRange cfg input).2 ≤ input.length ∧
    finishDecode rootName cfg.arr (decodeRange cfg input).1 (decodeRange cfg input).2 true cfg.fillGaps input.length
        (execList cfg.body { buf := slice input (decodeRange cfg input).1.toNat (decodeRange cfg input).2.toNat,
                             arr := cfg.arr, force := cfg.force } {}) = .value t := by
  obtain ⟨h0, h1, h2, e⟩ := run_unfold cfg input (by rw [ht]; simp)
  refine ⟨h0, h1, h2, ?_⟩
  rw [ht] at e
  split at e
  · cases e
  · rename_i t' he; cases e; exact he

/-- the top-level decode with FillGaps -/
theorem run_filled (cfg : Cfg) (input : Bits) (t : T) (hf : cfg.fillGaps = true) (ht : (run cfg input).out = .tree t) :
    Filled (decodeRange cfg input).1 (decodeRange cfg input).2 t := by
  obtain ⟨h0, h1, h2, e⟩ := run_tree_unfold cfg input t ht
  rw [hf] at e
  exact exec_decode_filled _ _ _ _ _ _ _ _ _ _ (slice_len_int input _ _ h0 h1 h2) e

/-- without FillGaps a `decode()` call attaches no gap field to its value -/
theorem nofill_no_gaps (name : FName) (arr : Bool) (s l : Int) (isRoot : Bool) (bufLen : Int) (r : St) (t : T)
    (hng : NoGapTop r.kids) (h : finishDecode name arr s l isRoot false bufLen r = .value t) : gapFields t = [] := by
  obtain ⟨kids1, i1, he, hk, e⟩ := finishDecode_shape _ _ _ _ _ _ _ _ _ h
  simp only [Bool.false_eq_true, if_false, Except.ok.injEq] at he
  subst he
  have hc : i1.kind.isComp = true := by rw [hk]; exact kind_isComp_ite arr
  have eG : (rebaseL s r.kids).flatMap kidGap = [] := by rw [rebaseL_flat_gap, noGap_flat_gap _ hng]; rfl
  subst e
  cases isRoot with
  | false => simp only [Bool.false_eq_true, if_false, gapFields, T.kids, eG]
  | true =>
    simp only [if_true, gapFields]
    have := pp_kids_flat kidGap kidGap_setIndex i1 (rebaseL s r.kids) hc
    rw [ppKids_flat_gap, eG] at this
    exact this.eq_nil

theorem run_nofill (cfg : Cfg) (input : Bits) (t : T) (hf : cfg.fillGaps = false) (ht : (run cfg input).out = .tree t) :
    gapFields t = [] := by
  obtain ⟨_, _, _, e⟩ := run_tree_unfold cfg input t ht
  rw [hf] at e
  exact nofill_no_gaps _ _ _ _ _ _ _ _ (execList_ng cfg.body _ {} (fun _ hk => by simp at hk)) e

/-! ### consequences of `Filled` -/

section consequences
variable {s l : Int} {t : T}

theorem filled_cov_leaves (b : Int) : Cov (localLeaves s t) (b - s) ↔ Cov (fieldLeaves t) b := by
  unfold localLeaves
  rw [Cov_shift]
  have : b - s - -s = b := by omega
  rw [this]

theorem filled_cov_gaps (h : Filled s l t) (b : Int) :
    Cov (gapFields t) b ↔ Cov (gaps ⟨0, l⟩ (localLeaves s t)) (b - s) := by
  rw [Cov_perm h.2.2 b, Cov_shift]

theorem filled_leaf_len {r : Range} (h : Filled s l t) (hr : r ∈ fieldLeaves t) : 0 ≤ r.len ∧ s ≤ r.start ∧ r.stop ≤ s + l := by
  have hm : shift (-s) r ∈ localLeaves s t := List.mem_map_of_mem hr
  have := h.2.1.2 _ hm
  simp only [shift, Range.stop] at *
  omega

/-- (1) an uncovered bit of the decode range is in a gap field or is a one-bit hole -/
theorem filled_cover (h : Filled s l t) (b : Int) (hb0 : s ≤ b) (hb1 : b < s + l)
    (hc : covered (fieldLeaves t) b = false) :
    covered (gapFields t) b = true ∨ oneBitHole (fieldLeaves t) b = true := by
  have hcc := (covered_false_iff _ _).mp hc
  have hc' : ¬ Cov (localLeaves s t) (b - s) := by rw [filled_cov_leaves]; exact hcc
  have hb1' : b - s < (⟨0, l⟩ : Range).len := by show b - s < l; omega
  rcases gapsWith_cover 1 (Or.inr rfl) ⟨0, l⟩ _ h.2.1 (b - s) (by omega) hb1' hc' with hg | ⟨_, h2, h3⟩
  · left; exact (covered_iff _ _).mpr ((filled_cov_gaps h b).mpr hg)
  · right
    rw [oneBitHole_iff]
    refine ⟨hcc, ?_, ?_⟩
    · unfold localLeaves at h2
      rw [StopsAt_shift] at h2
      have : b - s - -s = b := by omega
      rw [this] at h2; exact h2
    · unfold localLeaves at h3
      rw [StartsAt_shift] at h3
      have : b - s + 1 - -s = b + 1 := by omega
      rw [this] at h3; exact h3

/-- (1) in full for the one-character repair of `ranges.Gaps`, applied to the leaves as they are -/
theorem filled_cover_fixed (h : Filled s l t) (b : Int) (hb0 : s ≤ b) (hb1 : b < s + l)
    (hc : covered (fieldLeaves t) b = false) :
    covered ((gapsFixed ⟨0, l⟩ (localLeaves s t)).map (shift s)) b = true := by
  have hcc := (covered_false_iff _ _).mp hc
  have hc' : ¬ Cov (localLeaves s t) (b - s) := by rw [filled_cov_leaves]; exact hcc
  have hb1' : b - s < (⟨0, l⟩ : Range).len := by show b - s < l; omega
  rcases gapsWith_cover 0 (Or.inl rfl) ⟨0, l⟩ _ h.2.1 (b - s) (by omega) hb1' hc' with hg | ⟨h1, _⟩
  · exact (covered_iff _ _).mpr ((Cov_shift s _ b).mpr hg)
  · exact absurd h1 (by decide)

/-- (2a) no gap field overlaps a leaf -/
theorem filled_disjoint (h : Filled s l t) (b : Int) (hg : covered (gapFields t) b = true) :
    covered (fieldLeaves t) b = false := by
  rw [covered_false_iff, ← filled_cov_leaves (s := s)]
  exact gapsWith_disjoint 1 (by decide) ⟨0, l⟩ _ h.2.1 (b - s) ((filled_cov_gaps h b).mp ((covered_iff _ _).mp hg))

/-- two ranges with at least one bit between them -/
def Apart (g h : Range) : Prop := g.stop < h.start ∨ h.stop < g.start

/-- (2b) no gap field overlaps or touches another gap field -/
theorem filled_gaps_apart (h : Filled s l t) : (gapFields t).Pairwise Apart := by
  have h1 : (gaps ⟨0, l⟩ (localLeaves s t)).Pairwise Before := gapsWith_pairwise 1 (by decide) ⟨0, l⟩ _ h.2.1
  have h2 : ((gaps ⟨0, l⟩ (localLeaves s t)).map (shift s)).Pairwise Apart := by
    rw [List.pairwise_map]
    exact h1.imp (fun {a b} hab => Or.inl (by simp only [Before, shift, Range.stop] at *; omega))
  exact (h.2.2.pairwise_iff (fun {x y} hxy => hxy.symm)).mpr h2

theorem filled_gaps_tri (h : Filled s l t) : ∀ x ∈ gapFields t, ∀ y ∈ gapFields t, x = y ∨ Apart x y := by
  have h1 : (gaps ⟨0, l⟩ (localLeaves s t)).Pairwise Before := gapsWith_pairwise 1 (by decide) ⟨0, l⟩ _ h.2.1
  intro x hx y hy
  obtain ⟨x0, hx0, ex⟩ := List.mem_map.mp (h.2.2.mem_iff.mp hx)
  obtain ⟨y0, hy0, ey⟩ := List.mem_map.mp (h.2.2.mem_iff.mp hy)
  subst ex; subst ey
  rcases pairwise_tri h1 x0 hx0 y0 hy0 with e | e | e
  · left; rw [e]
  · right; left; simp only [Before, shift, Range.stop] at *; omega
  · right; right; simp only [Before, shift, Range.stop] at *; omega

/-- (3) gap fields lie inside the decode range -/
theorem filled_within (h : Filled s l t) : ∀ g ∈ gapFields t, s ≤ g.start ∧ 0 ≤ g.len ∧ g.stop ≤ s + l := by
  intro g hg
  obtain ⟨g0, hg0, e⟩ := List.mem_map.mp (h.2.2.mem_iff.mp hg)
  have := gapsWith_within 1 (by decide) ⟨0, l⟩ _ h.2.1 h.1 g0 hg0
  subst e
  simp only [shift, Range.stop] at *
  omega

/-- (5) the tail: every bit of the decode range at or after the last leaf stop is in a gap field (no exception: a
    one-bit hole needs a leaf that starts after it) -/
theorem filled_tail (h : Filled s l t) (e : Int) (he : ∀ r ∈ fieldLeaves t, r.stop ≤ e) (b : Int) (hb : e ≤ b)
    (hb0 : s ≤ b) (hb1 : b < s + l) : covered (gapFields t) b = true := by
  have hc : covered (fieldLeaves t) b = false := by
    rw [covered_false_iff]
    rintro ⟨r, hr, _, h2⟩
    have := he r hr
    omega
  rcases filled_cover h b hb0 hb1 hc with hg | hh
  · exact hg
  · obtain ⟨_, _, ⟨r, hr, e1⟩⟩ := (oneBitHole_iff _ _).mp hh
    have := he r hr
    have := (filled_leaf_len h hr).1
    simp only [Range.stop] at *
    omega

/-- (5') … and it is ONE gap field that reaches from at or before `e` to the end of the decode range -/
theorem filled_tail_one_gap (h : Filled s l t) (e : Int) (he : ∀ r ∈ fieldLeaves t, r.stop ≤ e)
    (he0 : s ≤ e) (he1 : e < s + l) : ∃ g ∈ gapFields t, g.start ≤ e ∧ g.stop = s + l := by
  obtain ⟨g, hg, g1, g2⟩ := (covered_iff _ _).mp (filled_tail h e he e (Int.le_refl _) he0 he1)
  refine ⟨g, hg, g1, ?_⟩
  have gw := filled_within h g hg
  by_cases hlt : g.stop < s + l
  · exfalso
    obtain ⟨k, hk, k1, k2⟩ := (covered_iff _ _).mp (filled_tail h e he g.stop (by omega) (by omega) hlt)
    rcases filled_gaps_tri h g hg k hk with e' | e' | e'
    · subst e'; omega
    · omega
    · omega
  · omega

end consequences

/-! ### FillGaps never fails to read a gap -/

theorem addGaps_err (arr : Bool) (l : Int) : ∀ (gs : List Range) (n : Nat) (kids : List T) (e : ErrK),
    addGaps arr l n gs kids = .error e → e = .io ∨ e = .de
  | [], n, kids, e, h => by simp [addGaps] at h
  | g :: gs, n, kids, e, h => by
    simp only [addGaps] at h
    split at h
    · cases h; exact Or.inl rfl
    · split at h
      · cases h; exact Or.inr rfl
      · exact addGaps_err arr l gs (n + 1) _ e h

/-- a panic that escapes the top-level `decode()` can only be FillGaps' duplicate-name Fatalf (a struct root that
    already has a field called `gap<i>`): `bitiox.Range` on a gap never fails, the gaps lie inside the section -/
theorem run_panic (cfg : Cfg) (input : Bits) (e : ErrK) (h : (run cfg input).out = .panic e) :
    e = .de ∧ cfg.fillGaps = true := by
  obtain ⟨h0, h1, h2, eq⟩ := run_unfold cfg input (by rw [h]; simp)
  rw [h] at eq
  generalize hr : execList cfg.body { buf := slice input (decodeRange cfg input).1.toNat (decodeRange cfg input).2.toNat, arr := cfg.arr, force := cfg.force } {} = r at eq
  have hlen := slice_len_int input _ _ h0 h1 h2
  have gr := execList_inv cfg.body (decodeRange cfg input).2
    { buf := slice input (decodeRange cfg input).1.toNat (decodeRange cfg input).2.toNat, arr := cfg.arr, force := cfg.force } {}
    ⟨by simp, by simp only [hlen]; exact h1, by simp only [hlen]; omega, rfl, Or.inr rfl, rfl⟩
  rw [hr] at gr
  split at eq
  · rename_i e' he
    cases eq
    simp only [finishDecode] at he
    cases hf : cfg.fillGaps with
    | false => simp [hf, rebase] at he
    | true =>
      simp only [hf, if_true] at he
      refine ⟨?_, rfl⟩
      split at he
      · rename_i e'' hadd
        cases he
        have hW : Within ⟨0, (decodeRange cfg input).2⟩ (leafRangesL r.kids) := ⟨rfl, leafRangesL_within r.kids gr.kids⟩
        have hin := gapsWith_within 1 (by decide) _ _ hW h1
        rcases addGaps_err _ _ _ _ _ _ hadd with e1 | e1
        · subst e1
          exact absurd hadd (addGaps_no_io _ _ _ _ _ (fun g hg => ⟨(hin g hg).2.1, (hin g hg).2.2⟩))
        · exact e1
      · simp only [rebase] at he
        cases he
  · cases eq

end Proofs.GapsTree
