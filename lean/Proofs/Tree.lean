import FqModel.Tree
/-!
  Helper lemmas for C03, part 1: the stable sort, index assignment, the hull loop and what
  `postProcess` establishes (FqModel/Tree.lean).  Core Lean only.
-/
namespace Proofs.Tree
open FqModel FqModel.Tree

/-! ### setIndex / assignIdx -/

@[simp] theorem setIndex_start (ix : Int) (t : T) : (setIndex ix t).start = t.start := by cases t; rfl
@[simp] theorem setIndex_len (ix : Int) (t : T) : (setIndex ix t).len = t.len := by cases t; rfl
@[simp] theorem setIndex_stop (ix : Int) (t : T) : (setIndex ix t).stop = t.stop := by cases t; rfl
@[simp] theorem setIndex_name (ix : Int) (t : T) : (setIndex ix t).name = t.name := by cases t; rfl
@[simp] theorem setIndex_isRoot (ix : Int) (t : T) : (setIndex ix t).isRoot = t.isRoot := by cases t; rfl
@[simp] theorem setIndex_index (ix : Int) (t : T) : (setIndex ix t).index = ix := by cases t; rfl
@[simp] theorem setIndex_i_index (ix : Int) (t : T) : (setIndex ix t).i.index = ix := by cases t; rfl
@[simp] theorem setIndex_kids (ix : Int) (t : T) : (setIndex ix t).kids = t.kids := by cases t; rfl
@[simp] theorem setIndex_kind (ix : Int) (t : T) : (setIndex ix t).i.kind = t.i.kind := by cases t; rfl
@[simp] theorem setIndex_bufLen (ix : Int) (t : T) : (setIndex ix t).i.bufLen = t.i.bufLen := by cases t; rfl
@[simp] theorem setIndex_link (ix : Int) (t : T) : (setIndex ix t).i.link = t.i.link := by cases t; rfl
@[simp] theorem setIndex_eligible (ix : Int) (t : T) : eligible (setIndex ix t) = eligible t := by cases t; rfl
@[simp] theorem setIndex_setIndex (a b : Int) (t : T) : setIndex a (setIndex b t) = setIndex a t := by cases t; rfl

theorem mem_assignIdx {arr : Bool} {n : Nat} {l : List T} {k' : T} (h : k' ∈ assignIdx arr n l) :
    ∃ k ∈ l, ∃ ix, k' = setIndex ix k := by
  induction l generalizing n with
  | nil => simp [assignIdx] at h
  | cons x xs ih =>
    simp only [assignIdx, List.mem_cons] at h
    rcases h with h | h
    · exact ⟨x, by simp, _, h⟩
    · obtain ⟨k, hk, ix, e⟩ := ih h
      exact ⟨k, by simp [hk], ix, e⟩

theorem mem_assignIdx_of_mem {arr : Bool} {n : Nat} {l : List T} {k : T} (h : k ∈ l) :
    ∃ ix, setIndex ix k ∈ assignIdx arr n l := by
  induction l generalizing n with
  | nil => simp at h
  | cons x xs ih =>
    simp only [List.mem_cons] at h
    rcases h with h | h
    · subst h; exact ⟨if arr then (n : Int) else -1, by simp [assignIdx]⟩
    · obtain ⟨ix, hix⟩ := ih (n := n + 1) h
      exact ⟨ix, by simp [assignIdx, hix]⟩

theorem idxFrom_assignIdx (arr : Bool) (n : Nat) (l : List T) : idxFrom arr n (assignIdx arr n l) = true := by
  induction l generalizing n with
  | nil => rfl
  | cons x xs ih => simp [assignIdx, idxFrom, ih, T.index]

theorem sortedStarts_assignIdx (arr : Bool) (n : Nat) (l : List T) :
    sortedStarts (assignIdx arr n l) = sortedStarts l := by
  induction l generalizing n with
  | nil => rfl
  | cons x xs ih =>
    cases xs with
    | nil => simp [assignIdx, sortedStarts]
    | cons y ys =>
      have := ih (n + 1)
      simp only [assignIdx] at this ⊢
      simp only [sortedStarts, setIndex_start, this]

theorem hasName_assignIdx (arr : Bool) (n : Nat) (l : List T) (nm : FName) :
    hasName (assignIdx arr n l) nm = hasName l nm := by
  induction l generalizing n with
  | nil => rfl
  | cons x xs ih =>
    have := ih (n + 1)
    simp only [hasName] at this ⊢
    simp [assignIdx, this]

theorem namesNodup_assignIdx (arr : Bool) (n : Nat) (l : List T) :
    namesNodup (assignIdx arr n l) = namesNodup l := by
  induction l generalizing n with
  | nil => rfl
  | cons x xs ih => simp [assignIdx, namesNodup, ih, hasName_assignIdx]

/-! ### names -/

theorem hasName_iff {l : List T} {nm : FName} : hasName l nm = true ↔ ∃ k ∈ l, k.name = nm := by
  simp [hasName, List.any_eq_true]

theorem namesNodup_iff (l : List T) : namesNodup l = true ↔ (l.map T.name).Nodup := by
  induction l with
  | nil => simp [namesNodup]
  | cons x xs ih =>
    simp only [namesNodup, Bool.and_eq_true, Bool.not_eq_true', List.map_cons, List.nodup_cons, ih]
    constructor
    · rintro ⟨h1, h2⟩
      refine ⟨?_, h2⟩
      intro hm
      have : hasName xs x.name = true := by
        rw [hasName_iff]
        obtain ⟨k, hk, e⟩ := List.mem_map.mp hm
        exact ⟨k, hk, e⟩
      simp [this] at h1
    · rintro ⟨h1, h2⟩
      refine ⟨?_, h2⟩
      cases hh : hasName xs x.name with
      | false => rfl
      | true =>
        obtain ⟨k, hk, e⟩ := hasName_iff.mp hh
        exact absurd (List.mem_map.mpr ⟨k, hk, e⟩) h1

/-! ### the stable insertion sort -/

theorem insertByStart_perm (x : T) (l : List T) : (insertByStart x l).Perm (x :: l) := by
  induction l with
  | nil => exact List.Perm.refl _
  | cons y ys ih =>
    simp only [insertByStart]
    split
    · exact (List.Perm.cons y ih).trans (List.Perm.swap x y ys)
    · exact List.Perm.refl _

theorem sortByStart_perm (l : List T) : (sortByStart l).Perm l := by
  induction l with
  | nil => exact List.Perm.refl _
  | cons x xs ih => exact (insertByStart_perm x _).trans (List.Perm.cons x ih)

theorem mem_sortByStart {l : List T} {k : T} : k ∈ sortByStart l ↔ k ∈ l := (sortByStart_perm l).mem_iff

theorem sortedStarts_cons (a : T) (l : List T) :
    sortedStarts (a :: l) = true ↔ (∀ b, l.head? = some b → a.start ≤ b.start) ∧ sortedStarts l = true := by
  cases l with
  | nil => simp [sortedStarts]
  | cons b bs => simp [sortedStarts]

theorem head_insertByStart (x : T) (l : List T) (b : T) (h : (insertByStart x l).head? = some b) :
    b = x ∨ l.head? = some b := by
  cases l with
  | nil => simp [insertByStart] at h; exact Or.inl h.symm
  | cons y ys =>
    simp only [insertByStart] at h
    split at h
    · simp at h; right; simp [h]
    · simp at h; left; exact h.symm

theorem sortedStarts_insert (x : T) (l : List T) (h : sortedStarts l = true) :
    sortedStarts (insertByStart x l) = true := by
  induction l with
  | nil => simp [insertByStart, sortedStarts]
  | cons y ys ih =>
    rw [sortedStarts_cons] at h
    simp only [insertByStart]
    split
    · rename_i hlt
      rw [sortedStarts_cons]
      refine ⟨?_, ih h.2⟩
      intro b hb
      rcases head_insertByStart x ys b hb with e | e
      · subst e; omega
      · exact h.1 b e
    · rename_i hge
      rw [sortedStarts_cons]
      refine ⟨?_, ?_⟩
      · intro b hb; simp at hb; subst hb; omega
      · rw [sortedStarts_cons]; exact h

theorem sortedStarts_sort (l : List T) : sortedStarts (sortByStart l) = true := by
  induction l with
  | nil => rfl
  | cons x xs ih => exact sortedStarts_insert x _ ih

/-- stability: the elements with any given start keep their relative order -/
theorem filter_insertByStart (x : T) (l : List T) (v : Int) :
    (insertByStart x l).filter (fun k => k.start == v) = (x :: l).filter (fun k => k.start == v) := by
  induction l with
  | nil => rfl
  | cons y ys ih =>
    simp only [insertByStart]
    split
    · rename_i hlt
      simp only [List.filter_cons, ih]
      by_cases hx : x.start = v
      · have hy : ¬ y.start = v := by omega
        simp [hx, hy]
      · simp [hx]
    · rfl

theorem filter_sortByStart (l : List T) (v : Int) :
    (sortByStart l).filter (fun k => k.start == v) = l.filter (fun k => k.start == v) := by
  induction l with
  | nil => rfl
  | cons x xs ih =>
    simp only [sortByStart, filter_insertByStart]
    simp only [List.filter_cons, ih]

theorem insertByStart_of_le_head (x : T) (l : List T) (h : ∀ b, l.head? = some b → x.start ≤ b.start) :
    insertByStart x l = x :: l := by
  cases l with
  | nil => rfl
  | cons y ys =>
    have := h y rfl
    simp only [insertByStart]
    split
    · omega
    · rfl

/-- sorting a sorted list changes nothing -/
theorem sortByStart_of_sorted (l : List T) (h : sortedStarts l = true) : sortByStart l = l := by
  induction l with
  | nil => rfl
  | cons x xs ih =>
    rw [sortedStarts_cons] at h
    simp only [sortByStart, ih h.2]
    exact insertByStart_of_le_head x xs h.1

theorem namesNodup_perm {l l' : List T} (p : l.Perm l') : namesNodup l = namesNodup l' := by
  rw [Bool.eq_iff_iff, namesNodup_iff, namesNodup_iff]
  exact (p.map T.name).nodup_iff

/-! ### the hull loop -/

/-- what the `first`/`MinMax` loop returns, declaratively -/
def IsHull (s l : Int) (kids : List T) : Prop :=
  (∀ k ∈ kids, eligible k = true → s ≤ k.start ∧ k.stop ≤ s + l) ∧
  (∃ k ∈ kids, eligible k = true ∧ k.start = s) ∧ (∃ k ∈ kids, eligible k = true ∧ k.stop = s + l)

theorem hullLoop_some (s l : Int) (kids : List T) :
    ∃ s' l', hullLoop (some (s, l)) kids = some (s', l') ∧
      s' ≤ s ∧ s + l ≤ s' + l' ∧
      (∀ k ∈ kids, eligible k = true → s' ≤ k.start ∧ k.stop ≤ s' + l') ∧
      (s' = s ∨ ∃ k ∈ kids, eligible k = true ∧ k.start = s') ∧
      (s' + l' = s + l ∨ ∃ k ∈ kids, eligible k = true ∧ k.stop = s' + l') := by
  induction kids generalizing s l with
  | nil => exact ⟨s, l, rfl, by omega, by omega, by simp, Or.inl rfl, Or.inl rfl⟩
  | cons k ks ih =>
    simp only [hullLoop]
    by_cases he : eligible k = true
    · simp only [he, if_true]
      obtain ⟨s', l', e, h1, h2, h3, h4, h5⟩ := ih (min s k.start) (max (s + l) k.stop - min s k.start)
      have m1 : min s k.start ≤ s := Int.min_le_left _ _
      have m2 : min s k.start ≤ k.start := Int.min_le_right _ _
      have m3 : s + l ≤ max (s + l) k.stop := Int.le_max_left _ _
      have m4 : k.stop ≤ max (s + l) k.stop := Int.le_max_right _ _
      have hA : s' ≤ s := by clear h3 h4 h5 ih; omega
      have hB : s + l ≤ s' + l' := by clear h3 h4 h5 ih; omega
      refine ⟨s', l', e, hA, hB, ?_, ?_, ?_⟩
      · intro k' hk' hel
        simp only [List.mem_cons] at hk'
        rcases hk' with rfl | hk'
        · clear h3 h4 h5 ih; omega
        · exact h3 k' hk' hel
      · rcases h4 with h4 | ⟨k', hk', hel, e'⟩
        · by_cases hs : s ≤ k.start
          · left; rw [Int.min_eq_left hs] at h4; exact h4
          · right; refine ⟨k, by simp, he, ?_⟩
            rw [Int.min_eq_right (by omega)] at h4; exact h4.symm
        · right; exact ⟨k', by simp [hk'], hel, e'⟩
      · rcases h5 with h5 | ⟨k', hk', hel, e'⟩
        · by_cases hs : k.stop ≤ s + l
          · left; rw [Int.max_eq_left hs] at h5; clear h3 h4 ih; omega
          · right; refine ⟨k, by simp, he, ?_⟩
            rw [Int.max_eq_right (by omega)] at h5; clear h3 h4 ih; omega
        · right; exact ⟨k', by simp [hk'], hel, e'⟩
    · simp only [he]
      obtain ⟨s', l', e, h1, h2, h3, h4, h5⟩ := ih s l
      refine ⟨s', l', by simpa using e, h1, h2, ?_, ?_, ?_⟩
      · intro k' hk' hel
        simp only [List.mem_cons] at hk'
        rcases hk' with rfl | hk'
        · exact absurd hel he
        · exact h3 k' hk' hel
      · rcases h4 with h4 | ⟨k', hk', hel, e'⟩
        · exact Or.inl h4
        · exact Or.inr ⟨k', by simp [hk'], hel, e'⟩
      · rcases h5 with h5 | ⟨k', hk', hel, e'⟩
        · exact Or.inl h5
        · exact Or.inr ⟨k', by simp [hk'], hel, e'⟩

theorem hullLoop_none (kids : List T) :
    (hullLoop none kids = none ∧ ∀ k ∈ kids, eligible k = false) ∨
    (∃ s l, hullLoop none kids = some (s, l) ∧ IsHull s l kids) := by
  induction kids with
  | nil => left; simp [hullLoop]
  | cons k ks ih =>
    simp only [hullLoop]
    by_cases he : eligible k = true
    · right
      simp only [he, if_true]
      obtain ⟨s', l', e, h1, h2, h3, h4, h5⟩ := hullLoop_some k.start k.len ks
      have hk0 : k.stop = k.start + k.len := rfl
      refine ⟨s', l', e, ?_, ?_, ?_⟩
      · intro k' hk' hel
        simp only [List.mem_cons] at hk'
        rcases hk' with rfl | hk'
        · clear h3 h4 h5; omega
        · exact h3 k' hk' hel
      · rcases h4 with h4 | ⟨k', hk', hel, e'⟩
        · exact ⟨k, by simp, he, h4.symm⟩
        · exact ⟨k', by simp [hk'], hel, e'⟩
      · rcases h5 with h5 | ⟨k', hk', hel, e'⟩
        · exact ⟨k, by simp, he, by clear h3 h4; omega⟩
        · exact ⟨k', by simp [hk'], hel, e'⟩
    · simp only [he]
      rcases ih with ⟨e, h⟩ | ⟨s, l, e, h1, h2, h3⟩
      · left
        refine ⟨by simpa using e, ?_⟩
        intro k' hk'
        simp only [List.mem_cons] at hk'
        rcases hk' with rfl | hk'
        · simpa using he
        · exact h k' hk'
      · right
        refine ⟨s, l, by simpa using e, ?_, ?_, ?_⟩
        · intro k' hk' hel
          simp only [List.mem_cons] at hk'
          rcases hk' with rfl | hk'
          · exact absurd hel he
          · exact h1 k' hk' hel
        · obtain ⟨k', hk', x⟩ := h2; exact ⟨k', by simp [hk'], x⟩
        · obtain ⟨k', hk', x⟩ := h3; exact ⟨k', by simp [hk'], x⟩

/-- a hull is unique -/
theorem IsHull_unique {s l s' l' : Int} {kids : List T}
    (h : IsHull s l kids) (h' : IsHull s' l' kids) : s = s' ∧ l = l' := by
  obtain ⟨a1, ⟨ka, hka, ea, sa⟩, ⟨kb, hkb, eb, sb⟩⟩ := h
  obtain ⟨a2, ⟨ka', hka', ea', sa'⟩, ⟨kb', hkb', eb', sb'⟩⟩ := h'
  have := a1 ka' hka' ea'
  have := a1 kb' hkb' eb'
  have := a2 ka hka ea
  have := a2 kb hkb eb
  clear a1 a2
  omega

theorem hullOK_of_IsHull {s l : Int} {kids : List T} (exact : Bool) (h : IsHull s l kids) :
    hullOK exact s l kids = true := by
  obtain ⟨a, ⟨ka, hka, ea, sa⟩, ⟨kb, hkb, eb, sb⟩⟩ := h
  simp only [hullOK, Bool.or_eq_true]
  right
  cases exact
  · simp only [Bool.false_eq_true, if_false, List.any_eq_true, List.all_eq_true, Bool.and_eq_true, decide_eq_true_eq,
      List.mem_filter, beq_iff_eq]
    refine ⟨ka, ⟨hka, ea⟩, kb, ⟨hkb, eb⟩, by omega, ?_⟩
    intro k ⟨hk, ek⟩
    have := a k hk ek
    omega
  · simp only [if_true, List.any_eq_true, List.all_eq_true, Bool.and_eq_true, decide_eq_true_eq,
      List.mem_filter, beq_iff_eq]
    exact ⟨⟨fun k ⟨hk, ek⟩ => a k hk ek, ka, ⟨hka, ea⟩, sa⟩, kb, ⟨hkb, eb⟩, sb⟩

theorem hullOK_of_none {s l : Int} {kids : List T} (exact : Bool) (h : ∀ k ∈ kids, eligible k = false) :
    hullOK exact s l kids = true := by
  simp only [hullOK, Bool.or_eq_true]
  left
  simp only [List.isEmpty_iff, List.filter_eq_nil_iff]
  intro k hk
  simp [h k hk]

/-- the hull property only looks at membership, start/len and eligibility -/
theorem IsHull_congr {s l : Int} {kids kids' : List T}
    (h1 : ∀ k' ∈ kids', ∃ k ∈ kids, k'.start = k.start ∧ k'.stop = k.stop ∧ eligible k' = eligible k)
    (h2 : ∀ k ∈ kids, ∃ k' ∈ kids', k'.start = k.start ∧ k'.stop = k.stop ∧ eligible k' = eligible k)
    (h : IsHull s l kids) : IsHull s l kids' := by
  obtain ⟨a, ⟨ka, hka, ea, sa⟩, ⟨kb, hkb, eb, sb⟩⟩ := h
  refine ⟨?_, ?_, ?_⟩
  · intro k' hk' ek'
    obtain ⟨k, hk, e1, e2, e3⟩ := h1 k' hk'
    have := a k hk (by rw [← e3]; exact ek')
    omega
  · obtain ⟨k', hk', e1, e2, e3⟩ := h2 ka hka
    exact ⟨k', hk', by rw [e3]; exact ea, by omega⟩
  · obtain ⟨k', hk', e1, e2, e3⟩ := h2 kb hkb
    exact ⟨k', hk', by rw [e3]; exact eb, by omega⟩

end Proofs.Tree
