import Proofs.TreeWF
/-!
  Helper lemmas for C03, part 6: in the tree `run` returns, the range of every unsigned field — after all
  rebasing of nested format decodes and after postProcess — denotes exactly the bits of the buffer root that the
  field read: `val = ofBitsBE (slice rootBuffer start len)`.  Holds for EVERY run (also over-seeking / failing).
-/
namespace Proofs.Tree
open FqModel FqModel.Tree FqModel.Gaps

/-! ### slices -/

theorem slice_zero {α} (l : List α) (p : Nat) : slice l p 0 = [] := by simp [slice]

theorem slice_take {α} (B : List α) (m p n : Nat) (h : p + n ≤ m) : slice (B.take m) p n = slice B p n := by
  simp only [slice, List.drop_take, List.take_take]
  congr 1
  omega

theorem slice_slice {α} (X : List α) (s l p n : Nat) (h : p + n ≤ l) : slice (slice X s l) p n = slice X (s + p) n := by
  simp only [slice, List.drop_take, List.take_take, List.drop_drop]
  congr 1
  omega

/-! ### the predicate -/

/-- an unsigned field's value is the value of the bits its range denotes in `buf` -/
def leafOK (buf : Bits) (i : Info) : Bool :=
  i.kind != .uint ||
    (decide (0 ≤ i.start) && decide (0 ≤ i.len) && (i.len == 0 || decide (i.start + i.len ≤ buf.length)) &&
      i.val == ofBitsBE (slice buf i.start.toNat i.len.toNat))

mutual
def exactIn (buf : Bits) : T → Bool
  | .mk i kids => leafOK buf i && exactKids buf kids
/-- a nested buffer root is checked against its own buffer (the model's fresh buffers are all zero) -/
def exactKids (buf : Bits) : List T → Bool
  | [] => true
  | k :: ks => (if k.isRoot then exactIn (zeros k.i.bufLen.toNat) k else exactIn buf k) && exactKids buf ks
end

def exactKid (buf : Bits) (k : T) : Bool := if k.isRoot then exactIn (zeros k.i.bufLen.toNat) k else exactIn buf k

theorem exactKids_iff (buf : Bits) (kids : List T) : exactKids buf kids = true ↔ ∀ k ∈ kids, exactKid buf k = true := by
  induction kids with
  | nil => simp [exactKids]
  | cons k ks ih => simp only [exactKids, Bool.and_eq_true, ih, List.mem_cons, forall_eq_or_imp, exactKid]

theorem exactKids_append (buf : Bits) (a b : List T) :
    exactKids buf (a ++ b) = true ↔ exactKids buf a = true ∧ exactKids buf b = true := by
  simp only [exactKids_iff, List.mem_append]
  constructor
  · intro h; exact ⟨fun k hk => h k (Or.inl hk), fun k hk => h k (Or.inr hk)⟩
  · rintro ⟨h1, h2⟩ k (hk | hk)
    · exact h1 k hk
    · exact h2 k hk

theorem exactKids_single (buf : Bits) (k : T) : exactKids buf [k] = true ↔ exactKid buf k = true := by
  simp [exactKids_iff]

theorem exactIn_setIndex (buf : Bits) (ix : Int) (t : T) : exactIn buf (setIndex ix t) = exactIn buf t := by
  cases t; simp [setIndex, exactIn, leafOK]

theorem exactKid_setIndex (buf : Bits) (ix : Int) (t : T) : exactKid buf (setIndex ix t) = exactKid buf t := by
  simp only [exactKid, setIndex_isRoot, setIndex_bufLen, exactIn_setIndex]

theorem exactIn_setStart_comp (buf : Bits) (s : Int) (t : T) (h : t.i.kind ≠ .uint) : exactIn buf (setStart s t) = exactIn buf t := by
  cases t with
  | mk i kids =>
    simp only [T.i] at h
    have hb : (i.kind != Kind.uint) = true := by simpa using h
    simp [setStart, exactIn, leafOK, hb]

theorem setStart_isRoot' (s : Int) (t : T) : (setStart s t).isRoot = t.isRoot := by cases t; rfl
theorem setStart_bufLen (s : Int) (t : T) : (setStart s t).i.bufLen = t.i.bufLen := by cases t; rfl

/-! ### postProcess keeps it -/

theorem leafOK_of_kind {buf : Bits} {i : Info} (h : i.kind ≠ .uint) : leafOK buf i = true := by
  simp [leafOK, h]

theorem comp_ne_uint {k : Kind} (h : k.isComp = true) : k ≠ .uint := by
  cases k <;> simp_all [Kind.isComp]

theorem sortq_mem' (arr : Bool) (l : List T) (k : T) : k ∈ (if arr = true then l else sortByStart l) ↔ k ∈ l := by
  split
  · exact Iff.rfl
  · exact mem_sortByStart

theorem rebase_i' (d : Int) (t : T) : (rebase d t).i.isRoot = t.i.isRoot := by cases t; simp [rebase, T.i]

mutual
theorem pp_exact (buf : Bits) : ∀ t, exactIn buf t = true → exactIn buf (postProcess t) = true
  | .mk i kids => by
    intro h
    simp only [exactIn, Bool.and_eq_true] at h
    simp only [postProcess]
    split
    · rename_i hc
      simp only [exactIn, Bool.and_eq_true]
      refine ⟨leafOK_of_kind (comp_ne_uint hc), ?_⟩
      rw [exactKids_iff]
      intro k' hk'
      obtain ⟨k, hk, ix, e⟩ := mem_assignIdx hk'
      rw [e, exactKid_setIndex]
      have hk1 : k ∈ ppKids kids := (sortq_mem' _ _ _).mp hk
      exact (exactKids_iff _ _).mp (ppKids_exact buf kids h.2) k hk1
    · simp only [exactIn, Bool.and_eq_true]; exact h
theorem ppKids_exact (buf : Bits) : ∀ kids, exactKids buf kids = true → exactKids buf (ppKids kids) = true
  | [] => by intro _; rfl
  | k :: ks => by
    intro h
    simp only [exactKids, Bool.and_eq_true] at h
    simp only [ppKids, exactKids, Bool.and_eq_true]
    refine ⟨?_, ppKids_exact buf ks h.2⟩
    by_cases hr : k.isRoot = true
    · simp only [hr, if_true] at h ⊢; exact h.1
    · have hr' : k.isRoot = false := by simpa using hr
      simp only [hr', Bool.false_eq_true, if_false, postProcess_isRoot] at h ⊢
      exact pp_exact buf k h.1
end

/-- postProcess of a buffer root, seen from its parent -/
theorem pp_exactKid_root (buf : Bits) (i : Info) (kids : List T) (hr : i.isRoot = true)
    (h : exactIn (zeros i.bufLen.toNat) (.mk i kids) = true) : exactKid buf (postProcess (.mk i kids)) = true := by
  have h1 : (postProcess (.mk i kids)).isRoot = true := by rw [postProcess_isRoot]; exact hr
  have h2 : (postProcess (.mk i kids)).i.bufLen = i.bufLen := (postProcess_i _).2.2.2.2.1
  simp only [exactKid, h1, if_true, h2]
  exact pp_exact _ _ h

/-! ### rebasing: from the section to the buffer it was cut from -/

/-- `B'` is the section of `B` that starts at bit `s` -/
def IsSection (B B' : Bits) (s : Nat) : Prop :=
  ∀ p n : Nat, p + n ≤ B'.length → slice B (s + p) n = slice B' p n ∧ s + p + n ≤ B.length

mutual
theorem rebase_exact {B B' : Bits} {s : Nat} (hsec : IsSection B B' s) : ∀ t, exactIn B' t = true → exactIn B (rebase s t) = true
  | .mk i kids => by
    intro h
    simp only [exactIn, Bool.and_eq_true] at h
    simp only [rebase, exactIn, Bool.and_eq_true]
    refine ⟨?_, rebaseL_exact hsec kids h.2⟩
    have hl := h.1
    simp only [leafOK, Bool.or_eq_true, Bool.and_eq_true, decide_eq_true_eq, bne_iff_ne, beq_iff_eq] at hl ⊢
    rcases hl with hl | ⟨⟨⟨h0, h1⟩, h2⟩, hv⟩
    · exact Or.inl hl
    · right
      have e1 : (i.start + (s : Int)).toNat = s + i.start.toNat := by omega
      rcases h2 with h2 | h2
      · refine ⟨⟨⟨by omega, h1⟩, Or.inl h2⟩, ?_⟩
        rw [hv, h2]; simp [slice_zero]
      · have hs := hsec i.start.toNat i.len.toNat (by omega)
        refine ⟨⟨⟨by omega, h1⟩, Or.inr ?_⟩, ?_⟩
        · have := hs.2; omega
        · rw [hv, e1, hs.1]
theorem rebaseL_exact {B B' : Bits} {s : Nat} (hsec : IsSection B B' s) : ∀ kids, exactKids B' kids = true → exactKids B (rebaseL s kids) = true
  | [] => by intro _; rfl
  | k :: ks => by
    intro h
    simp only [exactKids, Bool.and_eq_true] at h
    simp only [rebaseL, exactKids, Bool.and_eq_true]
    refine ⟨?_, rebaseL_exact hsec ks h.2⟩
    by_cases hr : k.isRoot = true
    · simp only [hr, if_true] at h ⊢; exact h.1
    · have hr' : k.isRoot = false := by simpa using hr
      have : (rebase s k).isRoot = false := by simp [T.isRoot, (rebase_i' s k)]; simpa [T.isRoot] using hr'
      simp only [hr', Bool.false_eq_true, if_false, this] at h ⊢
      exact rebase_exact hsec k h.1
end

theorem isSection_refl (B : Bits) : IsSection B B 0 := by
  intro p n h
  exact ⟨by simp, by omega⟩

theorem isSection_slice (X : Bits) (s l : Nat) (h : s + l ≤ X.length) : IsSection X (slice X s l) s := by
  intro p n hp
  rw [slice_length X s l h] at hp
  exact ⟨(slice_slice X s l p n hp).symm, by omega⟩

/-- a section of a prefix of `B` is a section of `B` -/
theorem isSection_take (B : Bits) (m s l : Nat) (h : s + l ≤ (B.take m).length) : IsSection B (slice (B.take m) s l) s := by
  intro p n hp
  rw [slice_length _ s l h] at hp
  have hm : s + l ≤ m := by simp only [List.length_take] at h; omega
  have hB : s + l ≤ B.length := by simp only [List.length_take] at h; omega
  refine ⟨?_, by omega⟩
  rw [slice_slice _ s l p n hp, slice_take B m (s + p) n (by omega)]

/-! ### gap fields, min/max -/

theorem addGaps_exact (buf : Bits) (arr : Bool) (l : Int) : ∀ (gs : List Range) (n : Nat) (kids kids' : List T),
    exactKids buf kids = true → addGaps arr l n gs kids = .ok kids' → exactKids buf kids' = true
  | [], n, kids, kids', hk, e => by simp only [addGaps] at e; cases e; exact hk
  | g :: gs, n, kids, kids', hk, e => by
    simp only [addGaps] at e
    split at e
    · cases e
    · split at e
      · cases e
      · refine addGaps_exact buf arr l gs (n + 1) _ kids' ?_ e
        rw [exactKids_append, exactKids_single]
        exact ⟨hk, by simp [exactKid, leaf, T.isRoot, T.i, exactIn, leafOK, exactKids]⟩

theorem minMax_len_nonneg (a b : Range) (h : 0 ≤ a.len) : 0 ≤ (minMax a b).len := by
  simp only [minMax, Range.stop]
  have := Int.min_le_left a.start b.start
  have := Int.le_max_left (a.start + a.len) (b.start + b.len)
  omega

mutual
theorem mmFold_len_nonneg : ∀ (t : T) (acc : Range), 0 ≤ acc.len → 0 ≤ (mmFold acc t).len
  | .mk i kids, acc, h => by
    simp only [mmFold]
    exact mmFoldL_len_nonneg kids _ (minMax_len_nonneg _ _ h)
theorem mmFoldL_len_nonneg : ∀ (kids : List T) (acc : Range), 0 ≤ acc.len → 0 ≤ (mmFoldL acc kids).len
  | [], _, h => h
  | k :: ks, acc, h => by
    simp only [mmFoldL]
    split
    · exact mmFoldL_len_nonneg ks acc h
    · exact mmFoldL_len_nonneg ks _ (mmFold_len_nonneg k acc h)
end

/-! ### one `decode()` call -/

theorem kind_ite_ne_uint (arr : Bool) : (if arr then Kind.array else Kind.struct) ≠ Kind.uint := by
  cases arr <;> simp

/-- what `finishDecode` returns is exact w.r.t. the buffer the section was cut from -/
theorem finishDecode_exact (B B' : Bits) (name : FName) (arr : Bool) (s : Nat) (l : Int) (isRoot fill : Bool) (bufLen : Int)
    (r : St) (hsec : IsSection B B' s) (hk : exactKids B' r.kids = true) (t : T)
    (h : finishDecode name arr s l isRoot fill bufLen r = .value t) :
    exactIn B t = true ∧ t.i.kind ≠ .uint ∧ t.isRoot = isRoot ∧ (isRoot = false → 0 ≤ t.len) ∧
      (isRoot = true → t.i.bufLen = bufLen) := by
  simp only [finishDecode] at h
  split at h
  · cases h
  · rename_i kids hkids
    have hk' : exactKids B' kids = true := by
      cases fill with
      | false => simp only [Bool.false_eq_true, if_false, Except.ok.injEq] at hkids; rw [← hkids]; exact hk
      | true => simp only [if_true] at hkids; exact addGaps_exact B' arr l _ 0 r.kids kids hk hkids
    simp only [mmFold, rebase] at h
    have hlen : 0 ≤ (mmFoldL (minMax ⟨0, 0⟩ ⟨0, 0⟩) kids).len :=
      mmFoldL_len_nonneg kids _ (by decide)
    have hroot1 : exactIn B (.mk { name, kind := if arr then Kind.array else Kind.struct, start := (s : Int), len := (mmFoldL (minMax ⟨0, 0⟩ ⟨0, 0⟩) kids).len, isRoot := isRoot, err := r.err, bufLen := if isRoot then bufLen else 0 } (rebaseL s kids)) = true := by
      simp only [exactIn, Bool.and_eq_true]
      exact ⟨leafOK_of_kind (kind_ite_ne_uint arr), rebaseL_exact hsec kids hk'⟩
    cases isRoot with
    | false =>
      simp only [Bool.false_eq_true, if_false, DecRes.value.injEq] at h
      subst h
      exact ⟨hroot1, kind_ite_ne_uint arr, rfl, fun _ => hlen, by simp⟩
    | true =>
      simp only [if_true, DecRes.value.injEq] at h
      subst h
      refine ⟨pp_exact B _ hroot1, ?_, ?_, by simp, fun _ => ?_⟩
      · rw [(postProcess_i _).2.1]; exact kind_ite_ne_uint arr
      · rw [postProcess_isRoot]; rfl
      · exact (postProcess_i _).2.2.2.2.1

/-! ### the interpreter keeps it -/

/-- the section the decoder reads is a prefix of `B`, the buffer its values' ranges refer to -/
structure Ex (B : Bits) (c : Ctx) (st : St) : Prop where
  pre : ∃ m, c.buf = B.take m
  pos0 : 0 ≤ st.pos
  kids : exactKids B st.kids = true

def BodyEx (body : Body) : Prop := ∀ (B : Bits) (c : Ctx) (st : St), Ex B c st → Ex B c (body c st)

theorem ex_fail {B : Bits} {c : Ctx} {st : St} (e : ErrK) (h : Ex B c st) : Ex B c (st.fail e) :=
  ⟨h.pre, h.pos0, h.kids⟩

theorem ex_addChild {B : Bits} {c : Ctx} {st : St} {v : T} (h : Ex B c st) (hv : exactKid B v = true) :
    Ex B c (addChild c st v) := by
  simp only [addChild]
  split
  · exact ex_fail _ h
  · refine ⟨h.pre, h.pos0, ?_⟩
    simp only []
    rw [exactKids_append, exactKids_single]
    exact ⟨h.kids, hv⟩

theorem exactKid_nonuint {B : Bits} {name : FName} {kind : Kind} {s l : Int} (hk : kind ≠ .uint) :
    exactKid B (leaf name kind s l) = true := by
  simp [exactKid, leaf, T.isRoot, T.i, exactIn, leafOK, hk, exactKids]

theorem ex_doRaw {B : Bits} {c : Ctx} {st : St} (name : FName) (n : Int) (h : Ex B c st) : Ex B c (doRaw c st name n) := by
  simp only [doRaw]
  split
  · exact ex_fail _ h
  · rename_i hn
    simp only [not_or, Int.not_lt] at hn
    exact ex_addChild ⟨h.pre, by simp only; have := h.pos0; omega, h.kids⟩ (exactKid_nonuint (by decide))

theorem ex_doU {B : Bits} {c : Ctx} {st : St} (name : FName) (n : Nat) (h : Ex B c st) : Ex B c (doU name n c st) := by
  simp only [doU]
  split
  · rename_i hr
    refine ex_addChild ⟨h.pre, by simp only; have := h.pos0; omega, h.kids⟩ ?_
    obtain ⟨m, hm⟩ := h.pre
    have h0 := h.pos0
    simp only [canRead, Bool.and_eq_true, Bool.or_eq_true, decide_eq_true_eq, beq_iff_eq] at hr
    simp only [exactKid, leaf, T.isRoot, T.i, Bool.false_eq_true, if_false, exactIn, exactKids, Bool.and_true, leafOK,
      Bool.or_eq_true, Bool.and_eq_true, decide_eq_true_eq, beq_iff_eq, readVal]
    right
    rcases hr.2 with e | e
    · subst e
      refine ⟨⟨⟨h0, by simp⟩, Or.inl (by simp)⟩, ?_⟩
      simp [slice_zero]
    · have hlen : ((B.take m).length : Int) ≤ B.length := by simp only [List.length_take]; omega
      rw [hm] at e
      refine ⟨⟨⟨h0, by omega⟩, Or.inr (by omega)⟩, ?_⟩
      rw [hm]
      simp only [Int.toNat_natCast]
      rw [slice_take B m st.pos.toNat n (by simp only [List.length_take] at e; omega)]
  · exact ex_fail _ h

theorem ex_doComp {B : Bits} {c : Ctx} {st : St} (arr : Bool) (name : FName) (body : Body) (hb : BodyEx body)
    (h : Ex B c st) : Ex B c (doComp arr name body c st) := by
  simp only [doComp]
  split
  · exact ex_fail _ h
  · have ih := hb B { c with arr := arr } { st with kids := [] } ⟨h.pre, h.pos0, rfl⟩
    refine ⟨h.pre, ih.pos0, ?_⟩
    simp only []
    rw [exactKids_append, exactKids_single]
    refine ⟨h.kids, ?_⟩
    simp only [exactKid, T.isRoot, T.i, Bool.false_eq_true, if_false, exactIn, Bool.and_eq_true]
    exact ⟨leafOK_of_kind (kind_ite_ne_uint arr), ih.kids⟩

theorem ex_doSub {B : Bits} {c : Ctx} {st : St} (k : SubKind) (n : Int) (body : Body) (hb : BodyEx body)
    (h : Ex B c st) : Ex B c (doSub k n body c st) := by
  simp only [doSub]
  split
  · exact ex_fail _ h
  · rename_i hneg
    generalize hfirst : k.first st.pos = first
    split
    · exact ex_fail _ h
    · rename_i hrange
      simp only [not_or, Int.not_lt] at hrange
      obtain ⟨m, hm⟩ := h.pre
      have ih := hb B { c with buf := c.buf.take (first + n).toNat }
        { st with pos := first, over := st.over || decide (first > first + n) }
        ⟨⟨min (first + n).toNat m, by simp only [hm, List.take_take]⟩, hrange.2.2, h.kids⟩
      split
      · exact ⟨h.pre, ih.pos0, ih.kids⟩
      · cases k with
        | range off => exact ⟨h.pre, h.pos0, ih.kids⟩
        | framed =>
          have hn : 0 ≤ n := by simpa [SubKind.negFatal] using hneg
          exact ⟨h.pre, by simp only [SubKind.finish]; have := h.pos0; omega, ih.kids⟩
        | limited =>
          simp only [SubKind.finish]
          split
          · exact ⟨h.pre, ih.pos0, ih.kids⟩
          · exact ⟨h.pre, ih.pos0, ih.kids⟩

theorem ex_doSeek {B : Bits} {c : Ctx} {st : St} (abs : Bool) (x : Int) (restore : Bool) (body : Body) (hb : BodyEx body)
    (h : Ex B c st) : Ex B c (doSeek abs x restore body c st) := by
  simp only [doSeek]
  generalize (if abs then x else st.pos + x) = target
  split
  · exact ex_fail _ h
  · rename_i h0
    simp only [not_or, Int.not_lt] at h0
    split
    · have ih := hb B c { st with pos := target } ⟨h.pre, h0.1, h.kids⟩
      split
      · exact ih
      · exact ⟨h.pre, h.pos0, ih.kids⟩
    · exact ⟨h.pre, h0.1, h.kids⟩

theorem ex_iter {B : Bits} {c : Ctx} (f : St → St) (hf : ∀ st, Ex B c st → Ex B c (f st)) :
    ∀ (n : Nat) (st : St), Ex B c st → Ex B c (iter f n st)
  | 0, _, h => h
  | n + 1, st, h => by
    simp only [iter]
    split
    · exact ex_iter f hf n _ (hf st h)
    · exact hf st h

theorem ex_doLoop {B : Bits} {c : Ctx} {st : St} (nbits mod : Nat) (body : Body) (hb : BodyEx body)
    (h : Ex B c st) : Ex B c (doLoop nbits mod body c st) := by
  simp only [doLoop]
  split
  · exact ex_iter (body c) (fun st hs => hb B c st hs) _ _ ⟨h.pre, by simp only; have := h.pos0; omega, h.kids⟩
  · exact ex_fail _ h

theorem ex_fmtFailed {B : Bits} {c : Ctx} {st : St} (m : FMode) (name : FName) (h : Ex B c st) : Ex B c (fmtFailed m name c st) := by
  simp only [fmtFailed]
  split
  · exact ex_doRaw _ _ h
  · exact ex_doRaw _ _ h
  · exact ex_fail _ h

theorem exactKid_of_exactIn {B : Bits} {t : T} (hr : t.isRoot = false) (h : exactIn B t = true) : exactKid B t = true := by
  simp only [exactKid, hr, Bool.false_eq_true, if_false]; exact h

theorem ex_doFmt {B : Bits} {c : Ctx} {st : St} (m : FMode) (name : FName) (arr : Bool) (body : Body) (hb : BodyEx body)
    (h : Ex B c st) : Ex B c (doFmt m name arr body c st) := by
  simp only [doFmt]
  generalize hsl0 : m.sl0 st.pos c.buf.length = sl0
  generalize hsl : (if sl0.1 = 0 ∧ sl0.2 = 0 then ((0 : Int), (c.buf.length : Int)) else sl0) = sl
  split
  · exact ex_fmtFailed _ _ h
  · rename_i hrange
    simp only [not_or, Int.not_lt] at hrange
    obtain ⟨hl0, hl1⟩ := hrange
    have hs0 : 0 ≤ sl.1 := by
      rw [← hsl]
      split
      · simp
      · rw [← hsl0]; cases m <;> simp [FMode.sl0] <;> exact h.pos0
    generalize hr : body { buf := slice c.buf sl.1.toNat sl.2.toNat, arr := arr, force := c.force } {} = r
    have ih := hb (slice c.buf sl.1.toNat sl.2.toNat) { buf := slice c.buf sl.1.toNat sl.2.toNat, arr := arr, force := c.force } {}
      ⟨⟨(slice c.buf sl.1.toNat sl.2.toNat).length, by simp⟩, by simp, rfl⟩
    rw [hr] at ih
    obtain ⟨mm, hm⟩ := h.pre
    have hsec : IsSection B (slice c.buf sl.1.toNat sl.2.toNat) sl.1.toNat := by
      rw [hm]
      apply isSection_take
      rw [← hm]; omega
    split
    · exact ex_fail _ h
    · rename_i t ht
      have hsnat : ((sl.1.toNat : Nat) : Int) = sl.1 := by omega
      rw [← hsnat] at ht
      have hx := finishDecode_exact B _ name arr sl.1.toNat sl.2 false m.fill 0 r hsec ih.kids t ht
      split
      · exact ex_fmtFailed _ _ h
      · have h1 : Ex B c (addChild c { st with over := st.over || r.over } t) :=
          ex_addChild ⟨h.pre, h.pos0, h.kids⟩ (exactKid_of_exactIn hx.2.2.1 hx.1)
        have hp1 : (addChild c { st with over := st.over || r.over } t).pos = st.pos := by
          simp only [addChild]; split <;> rfl
        split
        · exact h1
        · cases m with
          | rest o =>
            have := hx.2.2.2.1 rfl
            exact ⟨h.pre, by simp only [FMode.advance]; have := h.pos0; omega, h1.kids⟩
          | len n o =>
            refine ⟨h.pre, ?_, h1.kids⟩
            simp only [FMode.advance]
            simp only [FMode.sl0] at hsl0
            subst hsl0
            have := h.pos0
            by_cases hz : st.pos = 0 ∧ n = 0
            · simp only; omega
            · simp only [hz, if_false] at hsl; subst hsl; simp only at hl0 ⊢; omega
          | range off n => exact h1

theorem ex_addChildren {B : Bits} {c : Ctx} : ∀ (vs : List T) (st : St), Ex B c st → (∀ v ∈ vs, exactKid B v = true) →
    Ex B c (addChildren c st vs)
  | [], _, h, _ => h
  | v :: vs, st, h, hv => by
    simp only [addChildren]
    have h1 := ex_addChild h (hv v (by simp))
    split
    · exact ex_addChildren vs _ h1 (fun v' h' => hv v' (by simp [h']))
    · exact h1

theorem exactKids_of_exactIn {B : Bits} {t : T} (h : exactIn B t = true) : exactKids B t.kids = true := by
  cases t with
  | mk i kids => simp only [exactIn, Bool.and_eq_true] at h; exact h.2

theorem ex_doInline {B : Bits} {c : Ctx} {st : St} (arr : Bool) (body : Body) (hb : BodyEx body)
    (h : Ex B c st) : Ex B c (doInline arr body c st) := by
  simp only [doInline]
  generalize hsl : (if st.pos = 0 ∧ (c.buf.length : Int) - st.pos = 0 then ((0 : Int), (c.buf.length : Int)) else (st.pos, (c.buf.length : Int) - st.pos)) = sl
  split
  · exact ex_fail _ h
  · rename_i hrange
    simp only [not_or, Int.not_lt] at hrange
    obtain ⟨hl0, hl1⟩ := hrange
    have hs0 : 0 ≤ sl.1 := by
      rw [← hsl]
      split
      · simp
      · exact h.pos0
    generalize hr : body { buf := slice c.buf sl.1.toNat sl.2.toNat, arr := arr, force := c.force } {} = r
    have ih := hb (slice c.buf sl.1.toNat sl.2.toNat) { buf := slice c.buf sl.1.toNat sl.2.toNat, arr := arr, force := c.force } {}
      ⟨⟨(slice c.buf sl.1.toNat sl.2.toNat).length, by simp⟩, by simp, rfl⟩
    rw [hr] at ih
    obtain ⟨mm, hm⟩ := h.pre
    have hsec : IsSection B (slice c.buf sl.1.toNat sl.2.toNat) sl.1.toNat := by
      rw [hm]
      apply isSection_take
      rw [← hm]; omega
    split
    · exact ex_fail _ h
    · rename_i t ht
      have hsnat : ((sl.1.toNat : Nat) : Int) = sl.1 := by omega
      rw [← hsnat] at ht
      have hx := finishDecode_exact B _ (.f 0) arr sl.1.toNat sl.2 false false 0 r hsec ih.kids t ht
      split
      · exact ex_fail _ h
      · have h1 := ex_addChildren (c := c) t.kids { st with over := st.over || r.over } ⟨h.pre, h.pos0, h.kids⟩
          ((exactKids_iff _ _).mp (exactKids_of_exactIn hx.1))
        split
        · exact h1
        · have := hx.2.2.2.1 rfl
          exact ⟨h.pre, by simp only; have := h.pos0; omega, h1.kids⟩

theorem zeros_toNat (nbits : Nat) : zeros ((nbits : Int)).toNat = zeros nbits := by simp

theorem ex_doFmtBuf {B : Bits} {c : Ctx} {st : St} (name : FName) (nbits : Nat) (arr : Bool) (body : Body) (hb : BodyEx body)
    (h : Ex B c st) : Ex B c (doFmtBuf name nbits arr body c st) := by
  simp only [doFmtBuf]
  generalize hr : body { buf := zeros nbits, arr := arr, force := c.force } {} = r
  have ih := hb (zeros nbits) { buf := zeros nbits, arr := arr, force := c.force } {}
    ⟨⟨(zeros nbits).length, by simp⟩, by simp, rfl⟩
  rw [hr] at ih
  split
  · exact ex_fail _ h
  · rename_i t ht
    have hx := finishDecode_exact (zeros nbits) (zeros nbits) name arr 0 nbits true true nbits r (isSection_refl _) ih.kids t
      (by simpa using ht)
    split
    · exact ex_fail _ h
    · refine ex_addChild ⟨h.pre, h.pos0, h.kids⟩ ?_
      have hb' := hx.2.2.2.2 rfl
      simp only [exactKid, setStart_isRoot', hx.2.2.1, if_true, setStart_bufLen, hb', zeros_toNat]
      rw [exactIn_setStart_comp _ _ _ hx.2.1]
      exact hx.1

theorem ex_doRootFn {B : Bits} {c : Ctx} {st : St} (arr : Bool) (name : FName) (nbits : Nat) (body : Body) (hb : BodyEx body)
    (h : Ex B c st) : Ex B c (doRootFn arr name nbits body c st) := by
  simp only [doRootFn]
  split
  · exact ex_fail _ h
  · generalize hr : body { buf := zeros nbits, arr := arr, force := c.force } {} = r
    have ih := hb (zeros nbits) { buf := zeros nbits, arr := arr, force := c.force } {}
      ⟨⟨(zeros nbits).length, by simp⟩, by simp, rfl⟩
    rw [hr] at ih
    have hnode : exactIn (zeros ((nbits : Int)).toNat) (.mk { name, kind := if arr then Kind.array else Kind.struct, start := st.pos, len := 0, isRoot := true, bufLen := (nbits : Int) } r.kids) = true := by
      simp only [exactIn, Bool.and_eq_true, zeros_toNat]
      exact ⟨leafOK_of_kind (kind_ite_ne_uint arr), ih.kids⟩
    refine ⟨h.pre, h.pos0, ?_⟩
    simp only []
    rw [exactKids_append, exactKids_single]
    exact ⟨h.kids, pp_exactKid_root B _ _ rfl hnode⟩

theorem ex_doRootBuf {B : Bits} {c : Ctx} {st : St} (name : FName) (nbits : Nat) (h : Ex B c st) :
    Ex B c (doRootBuf name nbits c st) := by
  simp only [doRootBuf]
  exact ex_addChild h (by simp [exactKid, T.isRoot, T.i, exactIn, leafOK, exactKids])

theorem ex_doFail {B : Bits} {c : Ctx} {st : St} (a : Bool) (h : Ex B c st) : Ex B c (doFail a c st) := by
  simp only [doFail]; split
  · exact ex_fail _ h
  · exact h

mutual
theorem exec_ex : ∀ (p : Prog), BodyEx (exec p)
  | .u name n => fun _ _ _ h => ex_doU name n h
  | .raw name n => fun _ _ _ h => ex_doRaw name n h
  | .syn name => fun _ _ _ h => ex_addChild h (exactKid_nonuint (by decide))
  | .comp arr name body => fun _ _ _ h => ex_doComp arr name _ (execList_ex body) h
  | .sub k n body => fun _ _ _ h => ex_doSub k n _ (execList_ex body) h
  | .seek abs x restore body => fun _ _ _ h => ex_doSeek abs x restore _ (execList_ex body) h
  | .fmt m name arr body => fun _ _ _ h => ex_doFmt m name arr _ (execList_ex body) h
  | .inl arr body => fun _ _ _ h => ex_doInline arr _ (execList_ex body) h
  | .fmtBuf name nbits arr body => fun _ _ _ h => ex_doFmtBuf name nbits arr _ (execList_ex body) h
  | .rootFn arr name nbits body => fun _ _ _ h => ex_doRootFn arr name nbits _ (execList_ex body) h
  | .rootBuf name nbits => fun _ _ _ h => ex_doRootBuf name nbits h
  | .fail always => fun _ _ _ h => ex_doFail always h
  | .loop nbits mod body => fun _ _ _ h => ex_doLoop nbits mod _ (execList_ex body) h
theorem execList_ex : ∀ (ps : List Prog), BodyEx (execList ps)
  | [] => fun _ _ _ h => h
  | p :: ps => fun B c st h => by
    simp only [execList]
    split
    · exact execList_ex ps B c _ (exec_ex p B c st h)
    · exact exec_ex p B c st h
end

/-- in the tree a run returns every unsigned field's range denotes, in the input buffer (for values of a nested
    buffer: in that buffer), exactly the bits whose value the field holds -/
theorem run_exact (cfg : Cfg) (input : Bits) (t : T) (ht : (run cfg input).out = .tree t) : exactIn input t = true := by
  simp only [run] at ht
  generalize hsl : (if cfg.off = 0 ∧ cfg.len = 0 then ((0 : Int), (input.length : Int)) else ((cfg.off : Int), (cfg.len : Int))) = sl at *
  have hs0 : 0 ≤ sl.1 := by rw [← hsl]; split <;> simp
  have hl0 : 0 ≤ sl.2 := by rw [← hsl]; split <;> simp
  split at ht
  · simp at ht
  · rename_i hrange
    have hl1 : sl.1 + sl.2 ≤ input.length := Int.not_lt.mp hrange
    generalize hr : execList cfg.body { buf := slice input sl.1.toNat sl.2.toNat, arr := cfg.arr, force := cfg.force } {} = r at *
    have ih := execList_ex cfg.body (slice input sl.1.toNat sl.2.toNat)
      { buf := slice input sl.1.toNat sl.2.toNat, arr := cfg.arr, force := cfg.force } {}
      ⟨⟨(slice input sl.1.toNat sl.2.toNat).length, by simp⟩, by simp, rfl⟩
    rw [hr] at ih
    have hsec : IsSection input (slice input sl.1.toNat sl.2.toNat) sl.1.toNat := isSection_slice _ _ _ (by omega)
    have hsnat : ((sl.1.toNat : Nat) : Int) = sl.1 := by omega
    rw [← hsnat] at ht
    split at ht
    · simp at ht
    · rename_i t' ht'
      simp only [Outcome.tree.injEq] at ht
      subst ht
      exact (finishDecode_exact input _ rootName cfg.arr sl.1.toNat sl.2 true cfg.fillGaps input.length r hsec ih.kids _ ht').1

end Proofs.Tree
