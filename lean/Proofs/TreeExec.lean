import Proofs.TreeRun
/-!
  Helper lemmas for C03, part 4: the interpreter keeps the pre-invariant for every program (and the cursor never
  leaves a section), hence `run` yields WF trees — also for failing programs (partial trees).
-/
namespace Proofs.Tree
open FqModel FqModel.Tree FqModel.Gaps

/-- the state of a decoder whose section is `c.buf` and whose values live in a buffer section of `Lk` bits -/
structure Good (Lk : Int) (c : Ctx) (st : St) : Prop where
  pos0 : 0 ≤ st.pos
  posL : st.pos ≤ c.buf.length
  bufL : (c.buf.length : Int) ≤ Lk
  kids : preKids Lk st.kids = true
  names : c.arr = true ∨ namesNodup st.kids = true
  clean : st.over = false

/-- one step keeps the invariant -/
def Inv (Lk : Int) (c : Ctx) (st st' : St) : Prop := Good Lk c st → Good Lk c st'

def BodyInv (body : Body) : Prop := ∀ (Lk : Int) (c : Ctx) (st : St), Inv Lk c st (body c st)

theorem inv_refl (Lk : Int) (c : Ctx) (st : St) : Inv Lk c st st := id

theorem inv_fail (Lk : Int) (c : Ctx) (st : St) (e : ErrK) : Inv Lk c st (st.fail e) :=
  fun g => ⟨g.pos0, g.posL, g.bufL, g.kids, g.names, g.clean⟩

theorem names_append {c : Ctx} {kids : List T} {v : T} {nm : FName} (hv : v.name = nm)
    (hn : c.arr = true ∨ namesNodup kids = true) (hd : ¬ ((!c.arr && hasName kids nm) = true)) :
    c.arr = true ∨ namesNodup (kids ++ [v]) = true := by
  by_cases hc : c.arr = true
  · exact Or.inl hc
  · right
    have hc' : c.arr = false := by simpa using hc
    have hn' : namesNodup kids = true := by
      rcases hn with h | h
      · exact absurd h hc
      · exact h
    have hv' : hasName kids v.name = false := by rw [hv]; simpa [hc'] using hd
    exact namesNodup_append_single _ _ hn' hv'

theorem good_addChild {Lk : Int} {c : Ctx} {st : St} {v : T} (g : Good Lk c st) (hv : preKid Lk v = true) :
    Good Lk c (addChild c st v) := by
  simp only [addChild]
  split
  · exact ⟨g.pos0, g.posL, g.bufL, g.kids, g.names, g.clean⟩
  · rename_i hd
    refine ⟨g.pos0, g.posL, g.bufL, ?_, names_append rfl g.names hd, g.clean⟩
    simp only []
    rw [preKids_append, preKids_single]
    exact ⟨g.kids, hv⟩

theorem preKid_leaf {Lk : Int} {name : FName} {kind : Kind} {s l : Int} {v : Nat}
    (hk : kind.isComp = false) (h0 : 0 ≤ s) (h1 : 0 ≤ l) (h2 : s + l ≤ Lk) :
    preKid Lk (leaf name kind s l v) = true := by
  simp [preKid, leaf, T.isRoot, T.i, preIn, hk, h0, h1, h2]

theorem inv_doRaw (Lk : Int) (c : Ctx) (st : St) (name : FName) (n : Int) : Inv Lk c st (doRaw c st name n) := by
  simp only [doRaw]
  split
  · exact inv_fail _ _ _ _
  · rename_i h
    simp only [not_or, Int.not_lt] at h
    intro g
    have := g.pos0; have := g.posL; have := g.bufL
    exact good_addChild ⟨by simp only; omega, by simp only; omega, g.bufL, g.kids, g.names, g.clean⟩
      (preKid_leaf rfl g.pos0 h.1 (by omega))

theorem canRead_le {c : Ctx} {st : St} {n : Nat} (h : canRead c st n = true) (g0 : st.pos ≤ c.buf.length) :
    st.pos + n ≤ c.buf.length := by
  simp only [canRead, Bool.and_eq_true, Bool.or_eq_true, decide_eq_true_eq, beq_iff_eq] at h
  rcases h.2 with h | h
  · subst h; simpa using g0
  · exact h

theorem inv_doU (Lk : Int) (c : Ctx) (st : St) (name : FName) (n : Nat) : Inv Lk c st (doU name n c st) := by
  simp only [doU]
  split
  · rename_i h
    intro g
    have := canRead_le h g.posL
    have := g.pos0; have := g.bufL
    exact good_addChild ⟨by simp only; omega, by simp only; omega, g.bufL, g.kids, g.names, g.clean⟩
      (preKid_leaf rfl g.pos0 (by omega) (by omega))
  · exact inv_fail _ _ _ _

theorem inv_syn (Lk : Int) (c : Ctx) (st : St) (name : FName) :
    Inv Lk c st (addChild c st (leaf name .synth st.pos 0)) := by
  intro g
  have := g.pos0; have := g.posL; have := g.bufL
  exact good_addChild g (preKid_leaf rfl g.pos0 (by omega) (by omega))

theorem inv_doFail (Lk : Int) (c : Ctx) (st : St) (a : Bool) : Inv Lk c st (doFail a c st) := by
  simp only [doFail]; split
  · exact inv_fail _ _ _ _
  · exact inv_refl _ _ _

theorem kind_isComp_ite (arr : Bool) : (if arr then Kind.array else Kind.struct).isComp = true := by
  cases arr <;> rfl

theorem kind_array_ite (arr : Bool) : ((if arr then Kind.array else Kind.struct) == Kind.array) = arr := by
  cases arr <;> rfl

theorem preKid_comp {Lk : Int} {name : FName} {arr : Bool} {pos : Int} {kids : List T}
    (h0 : 0 ≤ pos) (h1 : pos ≤ Lk) (hn : arr = true ∨ namesNodup kids = true) (hk : preKids Lk kids = true) :
    preKid Lk (.mk { name, kind := if arr then Kind.array else Kind.struct, start := pos, len := 0 } kids) = true := by
  simp only [preKid, T.isRoot, T.i, Bool.false_eq_true, if_false, preIn, kind_isComp_ite, if_true, kind_array_ite,
    Bool.and_eq_true, decide_eq_true_eq, Bool.not_eq_true', Bool.or_eq_true]
  exact ⟨⟨⟨⟨⟨h0, by omega⟩, by omega⟩, trivial⟩, trivial⟩, hn, hk⟩

theorem inv_doComp (Lk : Int) (c : Ctx) (st : St) (arr : Bool) (name : FName) (body : Body) (hb : BodyInv body) :
    Inv Lk c st (doComp arr name body c st) := by
  simp only [doComp]
  split
  · exact inv_fail _ _ _ _
  · rename_i hd
    intro g
    have g' := hb Lk { c with arr := arr } { st with kids := [] } ⟨g.pos0, g.posL, g.bufL, rfl, Or.inr rfl, g.clean⟩
    have := g.pos0; have := g.posL; have := g.bufL
    refine ⟨g'.pos0, g'.posL, g'.bufL, ?_, names_append rfl g.names hd, g'.clean⟩
    simp only []
    rw [preKids_append, preKids_single]
    exact ⟨g.kids, preKid_comp g.pos0 (by omega) g'.names g'.kids⟩

theorem length_take_toNat (buf : Bits) (tot : Int) (h0 : 0 ≤ tot) (h1 : tot ≤ buf.length) :
    ((buf.take tot.toNat).length : Int) = tot := by
  simp only [List.length_take]
  omega

theorem inv_doSub (Lk : Int) (c : Ctx) (st : St) (k : SubKind) (n : Int) (body : Body) (hb : BodyInv body) :
    Inv Lk c st (doSub k n body c st) := by
  simp only [doSub]
  split
  · exact inv_fail _ _ _ _
  · rename_i hneg
    generalize hfirst : k.first st.pos = first
    split
    · exact inv_fail _ _ _ _
    · rename_i hrange
      simp only [not_or, Int.not_lt] at hrange
      obtain ⟨h0, h1, h2⟩ := hrange
      have hn : 0 ≤ n := by simpa [SubKind.negFatal] using hneg
      have hlen := length_take_toNat c.buf (first + n) h0 h1
      intro g
      have hov : (st.over || decide (first > first + n)) = false := by
        simp only [g.clean, Bool.false_or, decide_eq_false_iff_not]; omega
      have g' := hb Lk { c with buf := c.buf.take (first + n).toNat }
        { st with pos := first, over := st.over || decide (first > first + n) }
        ⟨h2, by simp only [hlen]; omega, by simp only [hlen]; have := g.bufL; omega, g.kids, g.names, hov⟩
      have hp := g'.posL; simp only [hlen] at hp
      split
      · exact ⟨g'.pos0, by omega, g.bufL, g'.kids, g'.names, g'.clean⟩
      · cases k with
        | range off => exact ⟨g.pos0, g.posL, g.bufL, g'.kids, g'.names, g'.clean⟩
        | framed =>
          simp only [SubKind.first] at hfirst
          subst hfirst
          exact ⟨by simp only [SubKind.finish]; have := g.pos0; omega, by simp only [SubKind.finish]; omega, g.bufL, g'.kids,
            g'.names, g'.clean⟩
        | limited =>
          simp only [SubKind.finish]
          split
          · exact ⟨g'.pos0, by simp only [St.fail]; omega, g.bufL, g'.kids, g'.names, g'.clean⟩
          · exact ⟨g'.pos0, by omega, g.bufL, g'.kids, g'.names, g'.clean⟩

theorem inv_doSeek (Lk : Int) (c : Ctx) (st : St) (abs : Bool) (x : Int) (restore : Bool) (body : Body)
    (hb : BodyInv body) : Inv Lk c st (doSeek abs x restore body c st) := by
  simp only [doSeek]
  generalize (if abs then x else st.pos + x) = target
  split
  · exact inv_fail _ _ _ _
  · rename_i h0
    simp only [not_or, Int.not_lt] at h0
    intro g
    have g1 : Good Lk c { st with pos := target } := ⟨h0.1, h0.2, g.bufL, g.kids, g.names, g.clean⟩
    split
    · have g' := hb Lk c _ g1
      split
      · exact g'
      · exact ⟨g.pos0, g.posL, g.bufL, g'.kids, g'.names, g'.clean⟩
    · exact g1

theorem iter_inv (Lk : Int) (c : Ctx) (f : St → St) (hf : ∀ st, Inv Lk c st (f st)) :
    ∀ (n : Nat) (st : St), Inv Lk c st (iter f n st)
  | 0, st => inv_refl _ _ _
  | n + 1, st => by
    simp only [iter]
    split
    · exact fun g => iter_inv Lk c f hf n (f st) (hf st g)
    · exact hf st

theorem inv_doLoop (Lk : Int) (c : Ctx) (st : St) (nbits mod : Nat) (body : Body) (hb : BodyInv body) :
    Inv Lk c st (doLoop nbits mod body c st) := by
  simp only [doLoop]
  split
  · rename_i h
    intro g
    have := canRead_le h g.posL
    have := g.pos0
    exact iter_inv Lk c (body c) (fun st => hb Lk c st) _ _
      ⟨by simp only; omega, by simp only; omega, g.bufL, g.kids, g.names, g.clean⟩
  · exact inv_fail _ _ _ _

theorem preKid_rootBuf {Lk : Int} {name : FName} {pos : Int} {nbits : Nat} (h0 : 0 ≤ pos) (h1 : pos ≤ Lk) :
    preKid Lk (.mk { name, kind := .raw, start := pos, len := nbits, isRoot := true, bufLen := nbits } []) = true := by
  simp [preKid, T.isRoot, T.i, rootKidOK, T.start, T.len, wfAt, Kind.isComp, h0, h1]

theorem inv_doRootBuf (Lk : Int) (c : Ctx) (st : St) (name : FName) (nbits : Nat) :
    Inv Lk c st (doRootBuf name nbits c st) := by
  simp only [doRootBuf]
  intro g
  have := g.pos0; have := g.posL; have := g.bufL
  exact good_addChild g (preKid_rootBuf g.pos0 (by omega))

/-! ### one `decode()` call -/

theorem minMax_zero : minMax ⟨0, 0⟩ ⟨0, 0⟩ = ⟨0, 0⟩ := by decide

/-- shape of what `finishDecode` returns, given the invariant of the state in which DecodeFn ended -/
theorem finishDecode_form (name : FName) (arr : Bool) (s l : Int) (isRoot fill : Bool) (bufLen : Int) (r : St)
    (hl : 0 ≤ l) (hk : preKids l r.kids = true) (hn : arr = true ∨ namesNodup r.kids = true) :
    (∃ e, finishDecode name arr s l isRoot fill bufLen r = .panic e) ∨
    (∃ kids a, preKids l kids = true ∧ (arr = true ∨ namesNodup kids = true) ∧ 0 ≤ a ∧ a ≤ l ∧
      finishDecode name arr s l isRoot fill bufLen r = .value
        (let root1 : T := .mk { name, kind := if arr then Kind.array else Kind.struct, start := s, len := a, isRoot := isRoot, err := r.err, bufLen := if isRoot then bufLen else 0 } (rebaseL s kids)
         if isRoot then postProcess root1 else root1)) := by
  simp only [finishDecode]
  -- the children after FillGaps
  have hkids : ∀ x, x = (if fill then addGaps arr l 0 (gaps ⟨0, l⟩ (leafRangesL r.kids)) r.kids else .ok r.kids) →
      (∃ e, x = .error e) ∨ ∃ kids, x = .ok kids ∧ preKids l kids = true ∧ (arr = true ∨ namesNodup kids = true) := by
    intro x hx
    cases fill with
    | false => right; exact ⟨r.kids, by simpa using hx, hk, hn⟩
    | true =>
      simp only [if_true] at hx
      cases hx' : x with
      | error e => left; exact ⟨e, rfl⟩
      | ok kids =>
        right
        have hg : ∀ g ∈ gaps ⟨0, l⟩ (leafRangesL r.kids), 0 ≤ g.start :=
          gaps_start_nonneg l _ hl (leafRangesL_ok r.kids hk)
        have := addGaps_ok arr l _ 0 r.kids kids hg hk hn (by rw [← hx, hx'])
        exact ⟨kids, rfl, this.1, this.2⟩
  rcases hkids _ rfl with ⟨e, he⟩ | ⟨kids, he, hk', hn'⟩
  · left; rw [he]; exact ⟨e, rfl⟩
  · right
    rw [he]
    simp only [mmFold, minMax_zero]
    obtain ⟨a, ea, h0, h1⟩ := mmFoldL_bounds kids 0 (by omega) hl hk'
    refine ⟨kids, a, hk', hn', h0, h1, ?_⟩
    simp only [rebase, ea]

theorem setStart_isRoot (s : Int) (t : T) : (setStart s t).isRoot = t.isRoot := by cases t; rfl
theorem setStart_name (s : Int) (t : T) : (setStart s t).name = t.name := by cases t; rfl
theorem setStart_start (s : Int) (t : T) : (setStart s t).start = s := by cases t; rfl

theorem wfAt_nested_setStart (s : Int) (t : T) : wfAt .nested (setStart s t) = wfAt .nested t := by
  cases t with
  | mk i kids => simp [setStart, wfAt, hullOK]

theorem slice_len_int (buf : Bits) (s l : Int) (h0 : 0 ≤ s) (h1 : 0 ≤ l) (h2 : s + l ≤ buf.length) :
    ((slice buf s.toNat l.toNat).length : Int) = l := by
  rw [slice_length _ _ _ (by omega)]
  omega

theorem preKid_fmtNode {Lk : Int} {name : FName} {arr : Bool} {s a : Int} {e : ErrK} {kids : List T}
    (h0 : 0 ≤ s) (h1 : 0 ≤ a) (h2 : s + a ≤ Lk) (hn : arr = true ∨ namesNodup kids = true) (hk : preKids Lk kids = true) :
    preKid Lk (.mk { name, kind := if arr then Kind.array else Kind.struct, start := s, len := a, isRoot := false, err := e, bufLen := 0 } kids) = true := by
  simp only [preKid, T.isRoot, T.i, Bool.false_eq_true, if_false, preIn, kind_isComp_ite, if_true, kind_array_ite,
    Bool.and_eq_true, decide_eq_true_eq, Bool.not_eq_true', Bool.or_eq_true]
  exact ⟨⟨⟨⟨⟨h0, h1⟩, h2⟩, trivial⟩, trivial⟩, hn, hk⟩

theorem inv_fmtFailed (Lk : Int) (c : Ctx) (st : St) (m : FMode) (name : FName) : Inv Lk c st (fmtFailed m name c st) := by
  simp only [fmtFailed]
  split
  · exact inv_doRaw _ _ _ _ _
  · exact inv_doRaw _ _ _ _ _
  · exact inv_fail _ _ _ _

theorem inv_doFmt (Lk : Int) (c : Ctx) (st : St) (m : FMode) (name : FName) (arr : Bool) (body : Body)
    (hb : BodyInv body) : Inv Lk c st (doFmt m name arr body c st) := by
  simp only [doFmt]
  generalize hsl0 : m.sl0 st.pos c.buf.length = sl0
  generalize hsl : (if sl0.1 = 0 ∧ sl0.2 = 0 then ((0 : Int), (c.buf.length : Int)) else sl0) = sl
  split
  · exact inv_fmtFailed _ _ _ _ _
  · rename_i hrange
    simp only [not_or, Int.not_lt] at hrange
    obtain ⟨hl0, hl1⟩ := hrange
    generalize hr : body { buf := slice c.buf sl.1.toNat sl.2.toNat, arr := arr, force := c.force } {} = r
    split
    · exact inv_fail _ _ _ _
    · rename_i t ht
      split
      · exact inv_fmtFailed _ _ _ _ _
      · intro g
        have hs0 : 0 ≤ sl.1 := by
          rw [← hsl]
          split
          · simp
          · rw [← hsl0]; cases m <;> simp [FMode.sl0] <;> exact g.pos0
        have hlen := slice_len_int c.buf sl.1 sl.2 hs0 hl0 hl1
        have gr := hb sl.2 { buf := slice c.buf sl.1.toNat sl.2.toNat, arr := arr, force := c.force } {}
          ⟨by simp, by simp only [hlen]; exact hl0, by simp only [hlen]; omega, rfl, Or.inr rfl, rfl⟩
        rw [hr] at gr
        have key : preKid Lk t = true ∧ 0 ≤ t.len ∧ t.len ≤ sl.2 := by
          rcases finishDecode_form name arr sl.1 sl.2 false m.fill 0 r hl0
            gr.kids gr.names with ⟨e, he⟩ | ⟨kids, a, hk, hn, ha0, ha1, he⟩
          · rw [he] at ht; cases ht
          · rw [he] at ht
            simp only [Bool.false_eq_true, if_false, DecRes.value.injEq] at ht
            subst ht
            have := g.bufL
            refine ⟨?_, ha0, ha1⟩
            refine preKid_fmtNode hs0 ha0 (by omega) ?_ (rebaseL_pre hs0 (by omega) kids hk)
            rcases hn with h | h
            · exact Or.inl h
            · exact Or.inr (by rw [namesNodup_rebaseL]; exact h)
        have g2 : Good Lk c { st with over := st.over || r.over } :=
          ⟨g.pos0, g.posL, g.bufL, g.kids, g.names, by simp [g.clean, gr.clean]⟩
        have g1 := good_addChild g2 key.1
        generalize hst1 : addChild c { st with over := st.over || r.over } t = st1 at g1
        split
        · exact g1
        · cases m with
          | rest o =>
            simp only [FMode.advance]
            have := g.pos0; have := g.posL
            simp only [FMode.sl0] at hsl0
            subst hsl0
            have hle : st.pos + t.len ≤ c.buf.length := by
              by_cases hz : st.pos = 0 ∧ (c.buf.length : Int) - st.pos = 0
              · rw [if_pos hz] at hsl; subst hsl; simp only at key; omega
              · rw [if_neg hz] at hsl; subst hsl; simp only at key; omega
            refine ⟨by simp only; omega, by simp only; exact hle, g.bufL, g1.kids, g1.names, ?_⟩
            simp only [g1.clean, Bool.false_or, decide_eq_false_iff_not]; omega
          | len n o =>
            simp only [FMode.advance]
            have := g.pos0; have := g.posL
            simp only [FMode.sl0] at hsl0
            subst hsl0
            refine ⟨?_, ?_, g.bufL, g1.kids, g1.names, g1.clean⟩
            · simp only
              by_cases hz : st.pos = 0 ∧ n = 0
              · omega
              · simp only [hz, if_false] at hsl; subst hsl; simp only at hl0; omega
            · simp only
              by_cases hz : st.pos = 0 ∧ n = 0
              · omega
              · simp only [hz, if_false] at hsl; subst hsl; simp only at hl1; omega
          | range off n =>
            simp only [FMode.advance]
            exact g1

theorem preKid_root {Lk : Int} {t : T} (hr : t.isRoot = true) (h0 : 0 ≤ t.start)
    (h1 : t.start ≤ Lk ∨ t.start + t.len ≤ t.i.bufLen) (hw : wfAt .nested t = true) : preKid Lk t = true := by
  simp only [preKid, hr, if_true, rootKidOK, Bool.and_eq_true, Bool.or_eq_true, decide_eq_true_eq]
  exact ⟨⟨h0, h1⟩, hw⟩

theorem inv_doFmtBuf (Lk : Int) (c : Ctx) (st : St) (name : FName) (nbits : Nat) (arr : Bool) (body : Body)
    (hb : BodyInv body) : Inv Lk c st (doFmtBuf name nbits arr body c st) := by
  simp only [doFmtBuf]
  generalize hr : body { buf := zeros nbits, arr := arr, force := c.force } {} = r
  split
  · exact inv_fail _ _ _ _
  · rename_i t ht
    split
    · exact inv_fail _ _ _ _
    · intro g
      have hz : ((zeros nbits).length : Int) = nbits := by simp [zeros]
      have gr := hb nbits { buf := zeros nbits, arr := arr, force := c.force } {}
        ⟨by simp, by simp only [hz]; omega, by simp only [hz]; omega, rfl, Or.inr rfl, rfl⟩
      rw [hr] at gr
      have g2 : Good Lk c { st with over := st.over || r.over } :=
        ⟨g.pos0, g.posL, g.bufL, g.kids, g.names, by simp [g.clean, gr.clean]⟩
      apply good_addChild g2
      rcases finishDecode_form name arr 0 nbits true true nbits r (by omega) gr.kids gr.names with
        ⟨e, he⟩ | ⟨kids, a, hk, hn, ha0, ha1, he⟩
      · rw [he] at ht; cases ht
      · rw [he] at ht
        simp only [if_true, DecRes.value.injEq] at ht
        subst ht
        have hk0 : preKids (nbits : Int) (rebaseL 0 kids) = true := rebaseL_pre (by omega) (by omega) kids hk
        have hn0 : ((if arr then Kind.array else Kind.struct) == Kind.array) = true ∨ namesNodup (rebaseL 0 kids) = true := by
          rw [kind_array_ite]
          rcases hn with h | h
          · exact Or.inl h
          · exact Or.inr (by rw [namesNodup_rebaseL]; exact h)
        have pr := pp_root_nested { name, kind := if arr then Kind.array else Kind.struct, start := 0, len := a, isRoot := true, err := r.err, bufLen := (nbits : Int) } (rebaseL 0 kids) rfl rfl (kind_isComp_ite arr) ⟨ha0, ha1⟩ hn0 hk0
        have := g.pos0; have := g.posL; have := g.bufL
        refine preKid_root ?_ ?_ ?_ ?_
        · rw [setStart_isRoot, postProcess_isRoot]; rfl
        · rw [setStart_start]; exact g.pos0
        · left; rw [setStart_start]; omega
        · rw [wfAt_nested_setStart]; exact pr.1

theorem inv_doRootFn (Lk : Int) (c : Ctx) (st : St) (arr : Bool) (name : FName) (nbits : Nat) (body : Body)
    (hb : BodyInv body) : Inv Lk c st (doRootFn arr name nbits body c st) := by
  simp only [doRootFn]
  split
  · exact inv_fail _ _ _ _
  · rename_i hdup
    generalize hr : body { buf := zeros nbits, arr := arr, force := c.force } {} = r
    intro g
    have hz : ((zeros nbits).length : Int) = nbits := by simp [zeros]
    have gr := hb nbits { buf := zeros nbits, arr := arr, force := c.force } {}
      ⟨by simp, by simp only [hz]; omega, by simp only [hz]; omega, rfl, Or.inr rfl, rfl⟩
    rw [hr] at gr
    have hn0 : ((if arr then Kind.array else Kind.struct) == Kind.array) = true ∨ namesNodup r.kids = true := by
      rw [kind_array_ite]; exact gr.names
    have pr := pp_root_nested { name, kind := if arr then Kind.array else Kind.struct, start := st.pos, len := 0, isRoot := true, bufLen := (nbits : Int) } r.kids rfl rfl (kind_isComp_ite arr) ⟨by simp, by simp⟩ hn0 gr.kids
    generalize hnode : postProcess (T.mk { name, kind := if arr then Kind.array else Kind.struct, start := st.pos, len := 0, isRoot := true, bufLen := (nbits : Int) } r.kids) = node at pr
    have hnr : node.isRoot = true := by rw [← hnode, postProcess_isRoot]; rfl
    have hnn : node.name = name := by rw [← hnode, postProcess_name]; rfl
    have hnb : node.i.bufLen = (nbits : Int) := by rw [← hnode]; exact (postProcess_i _).2.2.2.2.1
    refine ⟨g.pos0, g.posL, g.bufL, ?_, names_append hnn g.names hdup, by simp [g.clean, gr.clean]⟩
    simp only []
    rw [preKids_append, preKids_single]
    refine ⟨g.kids, ?_⟩
    have := g.pos0; have := g.posL; have := g.bufL
    rcases pr.2 with e | e
    · simp only [T.i] at e
      exact preKid_root hnr (by rw [e]; exact g.pos0) (Or.inl (by rw [e]; omega)) pr.1
    · simp only [T.i] at e
      exact preKid_root hnr e.1 (Or.inr (by rw [hnb]; exact e.2)) pr.1

theorem good_addChildren {Lk : Int} {c : Ctx} : ∀ (vs : List T) (st : St), Good Lk c st → (∀ v ∈ vs, preKid Lk v = true) →
    Good Lk c (addChildren c st vs)
  | [], _, g, _ => g
  | v :: vs, st, g, hv => by
    simp only [addChildren]
    have g1 := good_addChild g (hv v (by simp))
    split
    · exact good_addChildren vs _ g1 (fun v' h' => hv v' (by simp [h']))
    · exact g1

theorem addChildren_pos (c : Ctx) : ∀ (vs : List T) (st : St), (addChildren c st vs).pos = st.pos
  | [], _ => rfl
  | v :: vs, st => by
    have h1 : (addChild c st v).pos = st.pos := by simp only [addChild]; split <;> rfl
    simp only [addChildren]
    split
    · rw [addChildren_pos c vs, h1]
    · exact h1

theorem inv_doInline (Lk : Int) (c : Ctx) (st : St) (arr : Bool) (body : Body) (hb : BodyInv body) :
    Inv Lk c st (doInline arr body c st) := by
  simp only [doInline]
  generalize hsl : (if st.pos = 0 ∧ (c.buf.length : Int) - st.pos = 0 then ((0 : Int), (c.buf.length : Int)) else (st.pos, (c.buf.length : Int) - st.pos)) = sl
  split
  · exact inv_fail _ _ _ _
  · rename_i hrange
    simp only [not_or, Int.not_lt] at hrange
    obtain ⟨hl0, hl1⟩ := hrange
    generalize hr : body { buf := slice c.buf sl.1.toNat sl.2.toNat, arr := arr, force := c.force } {} = r
    split
    · exact inv_fail _ _ _ _
    · rename_i t ht
      split
      · exact inv_fail _ _ _ _
      · intro g
        have hs0 : 0 ≤ sl.1 := by
          rw [← hsl]
          split
          · simp
          · exact g.pos0
        have hlen := slice_len_int c.buf sl.1 sl.2 hs0 hl0 hl1
        have gr := hb sl.2 { buf := slice c.buf sl.1.toNat sl.2.toNat, arr := arr, force := c.force } {}
          ⟨by simp, by simp only [hlen]; exact hl0, by simp only [hlen]; omega, rfl, Or.inr rfl, rfl⟩
        rw [hr] at gr
        have key : preKids Lk t.kids = true ∧ 0 ≤ t.len ∧ t.len ≤ sl.2 := by
          rcases finishDecode_form (.f 0) arr sl.1 sl.2 false false 0 r hl0
            gr.kids gr.names with ⟨e, he⟩ | ⟨kids, a, hk, hn, ha0, ha1, he⟩
          · rw [he] at ht; cases ht
          · rw [he] at ht
            simp only [Bool.false_eq_true, if_false, DecRes.value.injEq] at ht
            subst ht
            have := g.bufL
            exact ⟨rebaseL_pre hs0 (by omega) kids hk, ha0, ha1⟩
        have g2 : Good Lk c { st with over := st.over || r.over } :=
          ⟨g.pos0, g.posL, g.bufL, g.kids, g.names, by simp [g.clean, gr.clean]⟩
        have g1 := good_addChildren t.kids _ g2 ((preKids_iff _ _).mp key.1)
        split
        · exact g1
        · have := g.pos0; have := g.posL
          have hle : st.pos + t.len ≤ c.buf.length := by
            by_cases hz : st.pos = 0 ∧ (c.buf.length : Int) - st.pos = 0
            · rw [if_pos hz] at hsl; subst hsl; simp only at key; omega
            · rw [if_neg hz] at hsl; subst hsl; simp only at key; omega
          refine ⟨by simp only; omega, by simp only; exact hle, g.bufL, g1.kids, g1.names, ?_⟩
          simp only [g1.clean, Bool.false_or, decide_eq_false_iff_not]; omega

/-! ### the interpreter -/

mutual
theorem exec_inv : ∀ (p : Prog), BodyInv (exec p)
  | .u name n => fun Lk c st => inv_doU Lk c st name n
  | .raw name n => fun Lk c st => inv_doRaw Lk c st name n
  | .syn name => fun Lk c st => inv_syn Lk c st name
  | .comp arr name body => fun Lk c st => inv_doComp Lk c st arr name _ (execList_inv body)
  | .sub k n body => fun Lk c st => inv_doSub Lk c st k n _ (execList_inv body)
  | .seek abs x restore body => fun Lk c st => inv_doSeek Lk c st abs x restore _ (execList_inv body)
  | .fmt m name arr body => fun Lk c st => inv_doFmt Lk c st m name arr _ (execList_inv body)
  | .inl arr body => fun Lk c st => inv_doInline Lk c st arr _ (execList_inv body)
  | .fmtBuf name nbits arr body => fun Lk c st => inv_doFmtBuf Lk c st name nbits arr _ (execList_inv body)
  | .rootFn arr name nbits body => fun Lk c st => inv_doRootFn Lk c st arr name nbits _ (execList_inv body)
  | .rootBuf name nbits => fun Lk c st => inv_doRootBuf Lk c st name nbits
  | .fail always => fun Lk c st => inv_doFail Lk c st always
  | .loop nbits mod body => fun Lk c st => inv_doLoop Lk c st nbits mod _ (execList_inv body)
theorem execList_inv : ∀ (ps : List Prog), BodyInv (execList ps)
  | [] => fun Lk c st => inv_refl Lk c st
  | p :: ps => fun Lk c st => by
    simp only [execList]
    split
    · exact fun g => execList_inv ps Lk c _ (exec_inv p Lk c st g)
    · exact exec_inv p Lk c st
end

/-- the top-level decode yields a WF tree, also when the program fails (partial tree) -/
theorem run_wf_tree (cfg : Cfg) (input : Bits) (t : T)
    (ht : (run cfg input).out = .tree t) : WF t = true := by
  simp only [run] at ht
  generalize hsl : (if cfg.off = 0 ∧ cfg.len = 0 then ((0 : Int), (input.length : Int)) else ((cfg.off : Int), (cfg.len : Int))) = sl at *
  have hs0 : 0 ≤ sl.1 := by rw [← hsl]; split <;> simp
  have hl0 : 0 ≤ sl.2 := by rw [← hsl]; split <;> simp
  split at ht
  · simp at ht
  · rename_i hrange
    have hl1 : sl.1 + sl.2 ≤ input.length := Int.not_lt.mp hrange
    generalize hr : execList cfg.body { buf := slice input sl.1.toNat sl.2.toNat, arr := cfg.arr, force := cfg.force } {} = r at *
    have hlen := slice_len_int input sl.1 sl.2 hs0 hl0 hl1
    have gr := execList_inv cfg.body sl.2 { buf := slice input sl.1.toNat sl.2.toNat, arr := cfg.arr, force := cfg.force } {}
      ⟨by simp, by simp only [hlen]; exact hl0, by simp only [hlen]; omega, rfl, Or.inr rfl, rfl⟩
    rw [hr] at gr
    rcases finishDecode_form rootName cfg.arr sl.1 sl.2 true cfg.fillGaps input.length r hl0 gr.kids gr.names with
      ⟨e, he⟩ | ⟨kids, a, hk, hn, ha0, ha1, he⟩
    · rw [he] at ht; simp at ht
    · rw [he] at ht
      simp only [if_true, Outcome.tree.injEq] at ht
      subst ht
      have hk0 : preKids (input.length : Int) (rebaseL sl.1 kids) = true := rebaseL_pre hs0 hl1 kids hk
      have hn0 : ((if cfg.arr then Kind.array else Kind.struct) == Kind.array) = true ∨ namesNodup (rebaseL sl.1 kids) = true := by
        rw [kind_array_ite]
        rcases hn with h | h
        · exact Or.inl h
        · exact Or.inr (by rw [namesNodup_rebaseL]; exact h)
      exact pp_root_top { name := rootName, kind := if cfg.arr then Kind.array else Kind.struct, start := sl.1, len := a, isRoot := true, err := r.err, bufLen := (input.length : Int) } (rebaseL sl.1 kids) rfl rfl (kind_isComp_ite _)
          ⟨hs0, ha0, by simp only; omega⟩ hn0 hk0

/-- … and the cursor never left a section -/
theorem run_over_false (cfg : Cfg) (input : Bits) : (run cfg input).over = false := by
  simp only [run]
  generalize hsl : (if cfg.off = 0 ∧ cfg.len = 0 then ((0 : Int), (input.length : Int)) else ((cfg.off : Int), (cfg.len : Int))) = sl at *
  have hs0 : 0 ≤ sl.1 := by rw [← hsl]; split <;> simp
  have hl0 : 0 ≤ sl.2 := by rw [← hsl]; split <;> simp
  split
  · rfl
  · rename_i hrange
    have hl1 : sl.1 + sl.2 ≤ input.length := Int.not_lt.mp hrange
    have hlen := slice_len_int input sl.1 sl.2 hs0 hl0 hl1
    have gr := execList_inv cfg.body sl.2 { buf := slice input sl.1.toNat sl.2.toNat, arr := cfg.arr, force := cfg.force } {}
      ⟨by simp, by simp only [hlen]; exact hl0, by simp only [hlen]; omega, rfl, Or.inr rfl, rfl⟩
    split <;> exact gr.clean

end Proofs.Tree
