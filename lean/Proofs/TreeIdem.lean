import Proofs.TreeWF
/-!
  Helper lemmas for C03, part 5: `postProcess` is idempotent.
-/
namespace Proofs.Tree
open FqModel FqModel.Tree

/-- forget the index -/
abbrev e0 (t : T) : T := setIndex 0 t

theorem setIndex_eq_of_e0 {a b : T} (h : e0 a = e0 b) (ix : Int) : setIndex ix a = setIndex ix b := by
  have := congrArg (setIndex ix) h
  simpa [e0] using this

theorem start_of_e0 {a b : T} (h : e0 a = e0 b) : a.start = b.start := by
  have := congrArg T.start h; simpa [e0] using this
theorem len_of_e0 {a b : T} (h : e0 a = e0 b) : a.len = b.len := by
  have := congrArg T.len h; simpa [e0] using this
theorem stop_of_e0 {a b : T} (h : e0 a = e0 b) : a.stop = b.stop := by
  have := congrArg T.stop h; simpa [e0] using this
theorem eligible_of_e0 {a b : T} (h : e0 a = e0 b) : eligible a = eligible b := by
  have := congrArg eligible h; simpa [e0] using this

/-! ### functions that do not look at indices -/

theorem hullLoop_congr : ∀ (l l' : List T) (acc : Option (Int × Int)), l.map e0 = l'.map e0 → hullLoop acc l = hullLoop acc l'
  | [], [], _, _ => rfl
  | [], _ :: _, _, h => by simp at h
  | _ :: _, [], _, h => by simp at h
  | a :: as, b :: bs, acc, h => by
    simp only [List.map_cons, List.cons.injEq] at h
    have ih := fun acc => hullLoop_congr as bs acc h.2
    simp only [hullLoop, eligible_of_e0 h.1, start_of_e0 h.1, len_of_e0 h.1, stop_of_e0 h.1]
    split
    · cases acc with
      | none => exact ih _
      | some p => exact ih _
    · exact ih _

theorem sortedStarts_congr : ∀ (l l' : List T), l.map e0 = l'.map e0 → sortedStarts l = sortedStarts l'
  | [], [], _ => rfl
  | [], _ :: _, h => by simp at h
  | _ :: _, [], h => by simp at h
  | [a], [b], _ => rfl
  | [_], _ :: _ :: _, h => by simp at h
  | _ :: _ :: _, [_], h => by simp at h
  | a :: a' :: as, b :: b' :: bs, h => by
    simp only [List.map_cons, List.cons.injEq] at h
    have ih := sortedStarts_congr (a' :: as) (b' :: bs) (by simp [h.2.1, h.2.2])
    simp only [sortedStarts, start_of_e0 h.1, start_of_e0 h.2.1] at ih ⊢
    rw [ih]

theorem assignIdx_congr (arr : Bool) : ∀ (l l' : List T) (n : Nat), l.map e0 = l'.map e0 → assignIdx arr n l = assignIdx arr n l'
  | [], [], _, _ => rfl
  | [], _ :: _, _, h => by simp at h
  | _ :: _, [], _, h => by simp at h
  | a :: as, b :: bs, n, h => by
    simp only [List.map_cons, List.cons.injEq] at h
    simp only [assignIdx, setIndex_eq_of_e0 h.1, assignIdx_congr arr as bs (n + 1) h.2]

theorem map_e0_assignIdx (arr : Bool) : ∀ (l : List T) (n : Nat), (assignIdx arr n l).map e0 = l.map e0
  | [], _ => rfl
  | a :: as, n => by simp [assignIdx, e0, map_e0_assignIdx arr as (n + 1)]

theorem assignIdx_idem (arr : Bool) (l : List T) (n : Nat) : assignIdx arr n (assignIdx arr n l) = assignIdx arr n l :=
  assignIdx_congr arr _ _ n (map_e0_assignIdx arr l n)

/-! ### the hull does not depend on the order -/

theorem hullLoop_none_mem {l l' : List T} (h : ∀ k, k ∈ l ↔ k ∈ l') : hullLoop none l = hullLoop none l' := by
  rcases hullLoop_none l with ⟨e1, n1⟩ | ⟨s1, l1, e1, h1⟩ <;> rcases hullLoop_none l' with ⟨e2, n2⟩ | ⟨s2, l2, e2, h2⟩
  · rw [e1, e2]
  · obtain ⟨_, ⟨k, hk, ek, _⟩, _⟩ := h2
    have := n1 k ((h k).mpr hk)
    simp [ek] at this
  · obtain ⟨_, ⟨k, hk, ek, _⟩, _⟩ := h1
    have := n2 k ((h k).mp hk)
    simp [ek] at this
  · have h1' : IsHull s1 l1 l' :=
      IsHull_congr (fun k' hk' => ⟨k', (h k').mpr hk', rfl, rfl, rfl⟩) (fun k hk => ⟨k, (h k).mp hk, rfl, rfl, rfl⟩) h1
    obtain ⟨ea, eb⟩ := IsHull_unique h1' h2
    rw [e1, e2, ea, eb]

/-! ### postProcess and indices -/

theorem pp_setIndex (ix : Int) (t : T) :
    postProcess (setIndex ix t) = if t.i.kind.isComp then postProcess t else setIndex ix t := by
  cases t with
  | mk i kids =>
    simp only [setIndex, postProcess, T.i]
    split <;> rfl

theorem ppKids_eq_map (kids : List T) : ppKids kids = kids.map (fun k => if k.isRoot then k else postProcess k) := by
  induction kids with
  | nil => rfl
  | cons k ks ih => simp [ppKids, ih]

theorem sortq_mem (arr : Bool) (l : List T) (k : T) : k ∈ (if arr = true then l else sortByStart l) ↔ k ∈ l := by
  split
  · exact Iff.rfl
  · exact mem_sortByStart

theorem kids_fix_lift (K1 : List T)
    (hfix : ∀ k ∈ K1, ∀ ix, e0 (if (setIndex ix k).isRoot then setIndex ix k else postProcess (setIndex ix k)) = e0 k)
    (arr : Bool) (n : Nat) (K2 : List T) (hsub : ∀ k ∈ K2, k ∈ K1) :
    (ppKids (assignIdx arr n K2)).map e0 = (assignIdx arr n K2).map e0 := by
  induction K2 generalizing n with
  | nil => rfl
  | cons k ks ih =>
    simp only [assignIdx, ppKids, List.map_cons]
    rw [ih (n + 1) (fun k' hk' => hsub k' (by simp [hk']))]
    congr 1
    rw [hfix k (hsub k (by simp))]
    simp [e0]

mutual
theorem pp_idem : ∀ t, postProcess (postProcess t) = postProcess t
  | .mk i kids => by
    by_cases hc : i.kind.isComp = true
    · have hfix := ppKids_fix kids
      -- first pass
      have e1 : postProcess (.mk i kids) = .mk { i with
            start := ((hullLoop none (ppKids kids)).getD (i.start, i.len)).1,
            len := ((hullLoop none (ppKids kids)).getD (i.start, i.len)).2, index := -1 }
          (assignIdx (i.kind == Kind.array) 0 (if (i.kind == Kind.array) = true then ppKids kids else sortByStart (ppKids kids))) := by
        simp only [postProcess, hc, if_true]
      rw [e1]
      generalize hK1 : ppKids kids = K1 at *
      generalize harr : (i.kind == Kind.array) = arr at *
      generalize hK2 : (if arr = true then K1 else sortByStart K1) = K2
      have hsub : ∀ k ∈ K2, k ∈ K1 := fun k hk => (by rw [← hK2] at hk; exact (sortq_mem arr K1 k).mp hk)
      have hmem : ∀ k, k ∈ K2 ↔ k ∈ K1 := fun k => by rw [← hK2]; exact sortq_mem arr K1 k
      -- second pass: the children change at most in their index
      have hk3 : (ppKids (assignIdx arr 0 K2)).map e0 = (assignIdx arr 0 K2).map e0 := kids_fix_lift K1 hfix arr 0 K2 hsub
      have hk3' : (ppKids (assignIdx arr 0 K2)).map e0 = K2.map e0 := by rw [hk3, map_e0_assignIdx]
      -- the hull is the same
      have hhull : hullLoop none (ppKids (assignIdx arr 0 K2)) = hullLoop none K1 := by
        rw [hullLoop_congr _ _ none hk3']
        exact hullLoop_none_mem hmem
      -- sorting again changes nothing
      have hsorted : arr = false → sortedStarts K2 = true := by
        intro ha; rw [← hK2]; simp only [ha, Bool.false_eq_true, if_false]; exact sortedStarts_sort _
      have hsort : (if arr = true then ppKids (assignIdx arr 0 K2) else sortByStart (ppKids (assignIdx arr 0 K2))) =
          ppKids (assignIdx arr 0 K2) := by
        cases arr with
        | true => rfl
        | false =>
          simp only [Bool.false_eq_true, if_false]
          apply sortByStart_of_sorted
          rw [sortedStarts_congr _ _ hk3']
          exact hsorted rfl
      simp only [postProcess, hc, if_true, harr, hsort, hhull]
      congr 1
      · -- the range: second-pass default is the first-pass result, which equals the hull if there is one
        cases hh : hullLoop none K1 <;> simp
      · rw [assignIdx_congr arr _ _ 0 hk3]
        exact assignIdx_idem arr K2 0
    · simp only [postProcess, hc, Bool.false_eq_true, if_false]
theorem ppKids_fix : ∀ kids, ∀ k ∈ ppKids kids, ∀ ix,
    e0 (if (setIndex ix k).isRoot then setIndex ix k else postProcess (setIndex ix k)) = e0 k
  | [] => by intro k hk; simp [ppKids] at hk
  | k0 :: ks => by
    intro k hk ix
    simp only [ppKids, List.mem_cons] at hk
    rcases hk with e | hk
    · subst e
      by_cases hr : k0.isRoot = true
      · simp [hr, e0]
      · have hr' : k0.isRoot = false := by simpa using hr
        simp only [hr', Bool.false_eq_true, if_false, setIndex_isRoot, postProcess_isRoot]
        rw [pp_setIndex]
        split
        · rw [pp_idem k0]
        · simp [e0]
    · exact ppKids_fix ks k hk ix
end

theorem postProcess_idempotent (t : T) : postProcess (postProcess t) = postProcess t := pp_idem t

end Proofs.Tree
