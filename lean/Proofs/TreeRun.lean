import Proofs.TreeWF
/-!
  Helper lemmas for C03, part 3: what `finishDecode` (FillGaps, rebasing walk, root range) keeps of the
  pre-invariant; facts about `ranges.Gaps` needed for the gap fields.
-/
namespace Proofs.Tree
open FqModel FqModel.Tree FqModel.Gaps

/-! ### lists of kids -/

theorem preKids_append (L : Int) (a b : List T) :
    preKids L (a ++ b) = true ↔ preKids L a = true ∧ preKids L b = true := by
  simp only [preKids_iff, List.mem_append]
  constructor
  · intro h; exact ⟨fun k hk => h k (Or.inl hk), fun k hk => h k (Or.inr hk)⟩
  · rintro ⟨h1, h2⟩ k (hk | hk)
    · exact h1 k hk
    · exact h2 k hk

theorem preKids_single (L : Int) (k : T) : preKids L [k] = true ↔ preKid L k = true := by
  simp [preKids_iff]

theorem namesNodup_append_single (kids : List T) (v : T)
    (h : namesNodup kids = true) (hv : hasName kids v.name = false) : namesNodup (kids ++ [v]) = true := by
  rw [namesNodup_iff] at h ⊢
  simp only [List.map_append, List.map_cons, List.map_nil]
  rw [List.nodup_append]
  refine ⟨h, by simp, ?_⟩
  intro a ha b hb
  simp only [List.mem_singleton] at hb
  subst hb
  intro e
  subst e
  obtain ⟨k, hk, e⟩ := List.mem_map.mp ha
  have : hasName kids v.name = true := hasName_iff.mpr ⟨k, hk, e⟩
  simp [this] at hv

/-! ### monotonicity in the buffer length -/

theorem rootKidOK_mono {L L' : Int} (h : L ≤ L') (k : T) (hk : rootKidOK L k = true) : rootKidOK L' k = true := by
  simp only [rootKidOK, Bool.and_eq_true, Bool.or_eq_true, decide_eq_true_eq] at hk ⊢
  refine ⟨⟨hk.1.1, ?_⟩, hk.2⟩
  rcases hk.1.2 with h' | h'
  · left; omega
  · right; exact h'

mutual
theorem preIn_mono {L L' : Int} (h : L ≤ L') : ∀ t, preIn L t = true → preIn L' t = true
  | .mk i kids => by
    intro hp
    simp only [preIn, Bool.and_eq_true, decide_eq_true_eq, Bool.not_eq_true'] at hp ⊢
    obtain ⟨⟨⟨⟨⟨h1, h2⟩, h3⟩, h4⟩, h5⟩, h6⟩ := hp
    refine ⟨⟨⟨⟨⟨h1, h2⟩, by omega⟩, h4⟩, h5⟩, ?_⟩
    split
    · rename_i hc
      simp only [hc, if_true, Bool.and_eq_true] at h6 ⊢
      exact ⟨h6.1, preKids_mono h kids h6.2⟩
    · rename_i hc
      simpa [hc] using h6
theorem preKids_mono {L L' : Int} (h : L ≤ L') : ∀ kids, preKids L kids = true → preKids L' kids = true
  | [] => by intro _; rfl
  | k :: ks => by
    intro hp
    simp only [preKids, Bool.and_eq_true] at hp ⊢
    refine ⟨?_, preKids_mono h ks hp.2⟩
    split
    · rename_i hr; simp only [hr, if_true] at hp; exact rootKidOK_mono h k hp.1
    · rename_i hr; simp only [hr, Bool.false_eq_true, if_false] at hp; exact preIn_mono h k hp.1
end

/-! ### rebasing -/

theorem rebase_i (d : Int) (t : T) :
    (rebase d t).i.name = t.i.name ∧ (rebase d t).i.isRoot = t.i.isRoot ∧ (rebase d t).i.kind = t.i.kind := by
  cases t; simp [rebase, T.i]

theorem map_name_rebaseL (d : Int) (kids : List T) : (rebaseL d kids).map T.name = kids.map T.name := by
  induction kids with
  | nil => rfl
  | cons k ks ih =>
    simp only [rebaseL, List.map_cons, ih]
    split
    · rfl
    · simp [T.name, (rebase_i d k).1]

theorem namesNodup_rebaseL (d : Int) (kids : List T) : namesNodup (rebaseL d kids) = namesNodup kids := by
  rw [Bool.eq_iff_iff, namesNodup_iff, namesNodup_iff, map_name_rebaseL]

mutual
theorem rebase_pre {l Lk s : Int} (hs : 0 ≤ s) (hl : s + l ≤ Lk) : ∀ t, preIn l t = true → preIn Lk (rebase s t) = true
  | .mk i kids => by
    intro hp
    simp only [rebase, preIn, Bool.and_eq_true, decide_eq_true_eq, Bool.not_eq_true'] at hp ⊢
    obtain ⟨⟨⟨⟨⟨h1, h2⟩, h3⟩, h4⟩, h5⟩, h6⟩ := hp
    refine ⟨⟨⟨⟨⟨by omega, h2⟩, by omega⟩, h4⟩, h5⟩, ?_⟩
    split
    · rename_i hc
      simp only [hc, if_true, Bool.and_eq_true, Bool.or_eq_true] at h6 ⊢
      refine ⟨?_, rebaseL_pre hs hl kids h6.2⟩
      rcases h6.1 with h | h
      · exact Or.inl h
      · exact Or.inr (by rw [namesNodup_rebaseL]; exact h)
    · rename_i hc
      simp only [hc, Bool.false_eq_true, if_false] at h6
      cases kids with
      | nil => rfl
      | cons _ _ => simp at h6
theorem rebaseL_pre {l Lk s : Int} (hs : 0 ≤ s) (hl : s + l ≤ Lk) : ∀ kids, preKids l kids = true → preKids Lk (rebaseL s kids) = true
  | [] => by intro _; rfl
  | k :: ks => by
    intro hp
    simp only [preKids, Bool.and_eq_true] at hp
    simp only [rebaseL, preKids, Bool.and_eq_true]
    refine ⟨?_, rebaseL_pre hs hl ks hp.2⟩
    by_cases hr : k.isRoot = true
    · simp only [hr, if_true] at hp ⊢
      exact rootKidOK_mono (by omega) k hp.1
    · simp only [hr, Bool.false_eq_true, if_false] at hp ⊢
      have : (rebase s k).isRoot = false := by simp [T.isRoot, (rebase_i s k).2.1]; simpa [T.isRoot] using hr
      simp only [this, Bool.false_eq_true, if_false]
      exact rebase_pre hs hl k hp.1
end

/-! ### the min/max walk -/

mutual
theorem mmFold_bounds {l : Int} : ∀ (t : T) (a : Int), 0 ≤ a → a ≤ l → preIn l t = true →
    ∃ a', mmFold ⟨0, a⟩ t = ⟨0, a'⟩ ∧ a ≤ a' ∧ a' ≤ l
  | .mk i kids, a, h0, hl, hp => by
    simp only [preIn, Bool.and_eq_true, decide_eq_true_eq, Bool.not_eq_true'] at hp
    obtain ⟨⟨⟨⟨⟨h1, h2⟩, h3⟩, h4⟩, h5⟩, h6⟩ := hp
    simp only [mmFold]
    have e : minMax ⟨0, a⟩ ⟨i.start, i.len⟩ = ⟨0, max a (i.start + i.len)⟩ := by
      simp only [minMax, Range.stop]
      rw [Int.min_eq_left h1]
      simp
    rw [e]
    have hk : preKids l kids = true := by
      by_cases hc : i.kind.isComp = true
      · simp only [hc, if_true, Bool.and_eq_true] at h6; exact h6.2
      · simp only [hc, Bool.false_eq_true, if_false] at h6
        cases kids with
        | nil => rfl
        | cons _ _ => simp at h6
    have m1 : a ≤ max a (i.start + i.len) := Int.le_max_left _ _
    have m2 : max a (i.start + i.len) ≤ l := Int.max_le.mpr ⟨hl, h3⟩
    obtain ⟨a', e', h1', h2'⟩ := mmFoldL_bounds kids (max a (i.start + i.len)) (by omega) m2 hk
    exact ⟨a', e', by omega, h2'⟩
theorem mmFoldL_bounds {l : Int} : ∀ (kids : List T) (a : Int), 0 ≤ a → a ≤ l → preKids l kids = true →
    ∃ a', mmFoldL ⟨0, a⟩ kids = ⟨0, a'⟩ ∧ a ≤ a' ∧ a' ≤ l
  | [], a, _, hl, _ => ⟨a, rfl, by omega, hl⟩
  | k :: ks, a, h0, hl, hp => by
    simp only [preKids, Bool.and_eq_true] at hp
    simp only [mmFoldL]
    by_cases hr : k.isRoot = true
    · simp only [hr, if_true]
      exact mmFoldL_bounds ks a h0 hl hp.2
    · simp only [hr, Bool.false_eq_true, if_false] at hp ⊢
      obtain ⟨a1, e1, h1, h2⟩ := mmFold_bounds k a h0 hl hp.1
      rw [e1]
      obtain ⟨a2, e2, h3, h4⟩ := mmFoldL_bounds ks a1 (by omega) h2 hp.2
      exact ⟨a2, e2, by omega, h4⟩
end

/-! ### ranges.Gaps: gap starts are not negative -/

def RangeOK (r : Range) : Prop := 0 ≤ r.start ∧ 0 ≤ r.len

theorem mem_insertByStartG {x y : Range} {l : List Range} (h : y ∈ Gaps.insertByStart x l) : y = x ∨ y ∈ l := by
  induction l with
  | nil => simp [Gaps.insertByStart] at h; exact Or.inl h
  | cons z zs ih =>
    simp only [Gaps.insertByStart] at h
    split at h
    · simp only [List.mem_cons] at h ⊢
      rcases h with h | h
      · exact Or.inr (Or.inl h)
      · rcases ih h with h | h
        · exact Or.inl h
        · exact Or.inr (Or.inr h)
    · simp only [List.mem_cons] at h ⊢
      exact h

theorem mem_sortByStartG {y : Range} {l : List Range} (h : y ∈ Gaps.sortByStart l) : y ∈ l := by
  induction l with
  | nil => simp [Gaps.sortByStart] at h
  | cons x xs ih =>
    simp only [Gaps.sortByStart] at h
    rcases mem_insertByStartG h with h | h
    · simp [h]
    · simp [ih h]

theorem extend_ok {m r : Range} (hm : RangeOK m) (hr : RangeOK r) : RangeOK (extend m r) := by
  simp only [extend]
  split
  · simp only [RangeOK, Range.stop] at *; omega
  · exact hm

theorem mergeLoop_ok (one : Int) : ∀ (rs : List Range) (cur : Option Range),
    (∀ r ∈ rs, RangeOK r) → (∀ m, cur = some m → RangeOK m) → ∀ y ∈ mergeLoop one cur rs, RangeOK y
  | [], none, _, _ => by simp [mergeLoop]
  | [], some m, _, hc => by
    intro y hy; simp only [mergeLoop, List.mem_singleton] at hy; subst hy; exact hc _ rfl
  | r :: rest, none, hr, _ => by
    intro y hy
    simp only [mergeLoop] at hy
    split at hy
    · exact mergeLoop_ok one rest none (fun r' h' => hr r' (by simp [h'])) (by simp) y hy
    · exact mergeLoop_ok one rest (some r) (fun r' h' => hr r' (by simp [h']))
        (by intro m e; cases e; exact hr r (by simp)) y hy
  | r :: rest, some m, hr, hc => by
    intro y hy
    simp only [mergeLoop] at hy
    have hrest : ∀ r' ∈ rest, RangeOK r' := fun r' h' => hr r' (by simp [h'])
    split at hy
    · exact mergeLoop_ok one rest (some (extend m r)) hrest
        (by intro m' e; cases e; exact extend_ok (hc _ rfl) (hr r (by simp))) y hy
    · simp only [List.mem_cons] at hy
      rcases hy with e | hy
      · subst e; exact hc _ rfl
      · split at hy
        · exact mergeLoop_ok one rest none hrest (by simp) y hy
        · exact mergeLoop_ok one rest (some r) hrest (by intro m' e; cases e; exact hr r (by simp)) y hy

theorem inner_start_nonneg : ∀ (ms : List Range), (∀ m ∈ ms, RangeOK m) → ∀ g ∈ inner ms, 0 ≤ g.start
  | [], _ => by simp [inner]
  | [_], _ => by simp [inner]
  | a :: b :: rest, h => by
    intro g hg
    simp only [inner, List.mem_cons] at hg
    rcases hg with e | hg
    · subst e
      have := h a (by simp)
      simp only [RangeOK, Range.stop] at *; omega
    · exact inner_start_nonneg (b :: rest) (fun m hm => h m (by simp [hm])) g hg

theorem getLast!_mem {l : List Range} (h : l ≠ []) : l.getLast! ∈ l := by
  cases l with
  | nil => exact absurd rfl h
  | cons x xs =>
    rw [List.getLast!_eq_getLast?_getD]
    simp only [List.getLast?_eq_some_getLast h, Option.getD_some]
    exact List.getLast_mem h

theorem gaps_start_nonneg (l : Int) (rs : List Range) (hl : 0 ≤ l) (h : ∀ r ∈ rs, RangeOK r) :
    ∀ g ∈ gaps ⟨0, l⟩ rs, 0 ≤ g.start := by
  intro g hg
  simp only [gaps, gapsWith] at hg
  split at hg
  · simp only [List.mem_singleton] at hg; subst hg; simp
  · have hm : ∀ m ∈ mergeLoop 1 none (Gaps.sortByStart rs), RangeOK m :=
      mergeLoop_ok 1 _ none (fun r hr => h r (mem_sortByStartG hr)) (by simp)
    revert hg
    generalize mergeLoop 1 none (Gaps.sortByStart rs) = ms at hm
    intro hg
    simp only [complement] at hg
    cases ms with
    | nil => simp only [List.mem_singleton] at hg; subst hg; simp
    | cons m0 ms' =>
      simp only [List.mem_append] at hg
      rcases hg with (hg | hg) | hg
      · split at hg
        · simp only [List.mem_singleton] at hg; subst hg; simp
        · simp at hg
      · exact inner_start_nonneg _ hm g hg
      · split at hg
        · simp only [List.mem_singleton] at hg; subst hg
          have := hm _ (getLast!_mem (l := m0 :: ms') (by simp))
          simp only [RangeOK, Range.stop] at *; omega
        · simp at hg

/-! ### leaves and gap fields -/

mutual
theorem leafRanges_ok {l : Int} : ∀ t, preIn l t = true → ∀ r ∈ leafRanges t, RangeOK r
  | .mk i kids => by
    intro hp r hr
    simp only [preIn, Bool.and_eq_true, decide_eq_true_eq, Bool.not_eq_true'] at hp
    obtain ⟨⟨⟨⟨⟨h1, h2⟩, h3⟩, h4⟩, h5⟩, h6⟩ := hp
    simp only [leafRanges] at hr
    split at hr
    · rename_i hc
      simp only [hc, if_true, Bool.and_eq_true] at h6
      exact leafRangesL_ok kids h6.2 r hr
    · simp only [List.mem_singleton] at hr; subst hr; exact ⟨h1, h2⟩
theorem leafRangesL_ok {l : Int} : ∀ kids, preKids l kids = true → ∀ r ∈ leafRangesL kids, RangeOK r
  | [] => by intro _ r hr; simp [leafRangesL] at hr
  | k :: ks => by
    intro hp r hr
    simp only [preKids, Bool.and_eq_true] at hp
    simp only [leafRangesL, List.mem_append] at hr
    rcases hr with hr | hr
    · split at hr
      · simp at hr
      · rename_i hroot
        simp only [hroot, Bool.false_eq_true, if_false] at hp
        exact leafRanges_ok k hp.1 r hr
    · exact leafRangesL_ok ks hp.2 r hr
end

theorem addGaps_ok (arr : Bool) (l : Int) : ∀ (gs : List Range) (n : Nat) (kids kids' : List T),
    (∀ g ∈ gs, 0 ≤ g.start) → preKids l kids = true → (arr = true ∨ namesNodup kids = true) →
    addGaps arr l n gs kids = .ok kids' → preKids l kids' = true ∧ (arr = true ∨ namesNodup kids' = true)
  | [], n, kids, kids', _, hk, hn, e => by
    simp only [addGaps] at e; cases e; exact ⟨hk, hn⟩
  | g :: gs, n, kids, kids', hg, hk, hn, e => by
    simp only [addGaps] at e
    split at e
    · cases e
    · rename_i hb
      split at e
      · cases e
      · rename_i hd
        have g0 := hg g (by simp)
        refine addGaps_ok arr l gs (n + 1) _ kids' (fun g' h' => hg g' (by simp [h'])) ?_ ?_ e
        · rw [preKids_append]
          refine ⟨hk, ?_⟩
          rw [preKids_single]
          simp only [not_or, Int.not_lt] at hb
          simp only [preKid, leaf, T.isRoot, T.i, Bool.false_eq_true, if_false, preIn, Bool.and_eq_true,
            decide_eq_true_eq, Bool.not_eq_true', Kind.isComp]
          simp
          omega
        · cases arr with
          | true => exact Or.inl rfl
          | false =>
            right
            have hn' : namesNodup kids = true := by simpa using hn
            apply namesNodup_append_single _ _ hn'
            simpa [leaf, T.name, T.i] using hd

end Proofs.Tree
