import Proofs.Tree
/-!
  Helper lemmas for C03, part 2: `postProcess` turns a tree that satisfies the "pre" invariant
  (ranges inside the buffer, unique struct names, links, well-formed nested roots) into a `WF` tree.
-/
namespace Proofs.Tree
open FqModel FqModel.Tree

/-! ### membership forms of `wfKids` -/

/-- the condition `wfKids` imposes on a nested buffer root seen from its parent buffer of `L` bits -/
def rootKidOK (L : Int) (k : T) : Bool :=
  decide (0 ≤ k.start) && (decide (k.start ≤ L) || decide (k.start + k.len ≤ k.i.bufLen)) && wfAt .nested k

def wfKid (L : Int) (k : T) : Bool := if k.isRoot then rootKidOK L k else wfAt (.inBuf L) k

theorem wfKids_iff (L : Int) (kids : List T) : wfKids L kids = true ↔ ∀ k ∈ kids, wfKid L k = true := by
  induction kids with
  | nil => simp [wfKids]
  | cons k ks ih =>
    simp only [wfKids, Bool.and_eq_true, ih, List.mem_cons, forall_eq_or_imp]
    constructor
    · rintro ⟨h1, h2⟩
      refine ⟨?_, h2⟩
      simp only [wfKid, rootKidOK]
      split <;> simp_all
    · rintro ⟨h1, h2⟩
      refine ⟨?_, h2⟩
      simp only [wfKid, rootKidOK] at h1
      split <;> simp_all

/-! ### the invariant before postProcess -/

mutual
/-- a non-root value inside a buffer of `L` bits, before postProcess: everything `WF` asks except hull,
    order and indices -/
def preIn (L : Int) : T → Bool
  | .mk i kids =>
    decide (0 ≤ i.start) && decide (0 ≤ i.len) && decide (i.start + i.len ≤ L) && !i.isRoot && i.link &&
      (if i.kind.isComp then (i.kind == .array || namesNodup kids) && preKids L kids else kids.isEmpty)
def preKids : Int → List T → Bool
  | _, [] => true
  | L, k :: ks => (if k.isRoot then rootKidOK L k else preIn L k) && preKids L ks
end

def preKid (L : Int) (k : T) : Bool := if k.isRoot then rootKidOK L k else preIn L k

theorem preKids_iff (L : Int) (kids : List T) : preKids L kids = true ↔ ∀ k ∈ kids, preKid L k = true := by
  induction kids with
  | nil => simp [preKids]
  | cons k ks ih => simp only [preKids, Bool.and_eq_true, ih, List.mem_cons, forall_eq_or_imp, preKid]

/-! ### what postProcess keeps -/

theorem postProcess_i (t : T) :
    (postProcess t).i.name = t.i.name ∧ (postProcess t).i.kind = t.i.kind ∧ (postProcess t).i.isRoot = t.i.isRoot ∧
    (postProcess t).i.link = t.i.link ∧ (postProcess t).i.bufLen = t.i.bufLen ∧ (postProcess t).i.err = t.i.err := by
  cases t with
  | mk i kids =>
    simp only [postProcess]
    split
    · simp [T.i]
    · simp [T.i]

@[simp] theorem postProcess_name (t : T) : (postProcess t).name = t.name := (postProcess_i t).1
@[simp] theorem postProcess_isRoot (t : T) : (postProcess t).isRoot = t.isRoot := (postProcess_i t).2.2.1

theorem map_name_ppKids (kids : List T) : (ppKids kids).map T.name = kids.map T.name := by
  induction kids with
  | nil => rfl
  | cons k ks ih =>
    simp only [ppKids, List.map_cons, ih]
    split <;> simp

theorem namesNodup_ppKids (kids : List T) : namesNodup (ppKids kids) = namesNodup kids := by
  rw [Bool.eq_iff_iff, namesNodup_iff, namesNodup_iff, map_name_ppKids]

/-! ### index does not matter below the top -/

theorem wfAt_setIndex_inBuf (L : Int) (ix : Int) (t : T) : wfAt (.inBuf L) (setIndex ix t) = wfAt (.inBuf L) t := by
  cases t with
  | mk i kids => simp [setIndex, wfAt]

theorem wfAt_setIndex_nested (ix : Int) (t : T) : wfAt .nested (setIndex ix t) = wfAt .nested t := by
  cases t with
  | mk i kids => simp [setIndex, wfAt]

theorem wfKid_setIndex (L : Int) (ix : Int) (t : T) : wfKid L (setIndex ix t) = wfKid L t := by
  simp only [wfKid, rootKidOK, setIndex_isRoot, setIndex_start, setIndex_len, setIndex_bufLen,
    wfAt_setIndex_inBuf, wfAt_setIndex_nested]

/-- bounds of a kid that is eligible for the hull (hence not a root) -/
theorem wfKid_bounds {L : Int} {k : T} (h : wfKid L k = true) (he : eligible k = true) :
    0 ≤ k.start ∧ 0 ≤ k.len ∧ k.stop ≤ L := by
  cases k with
  | mk i kids =>
    have hr : i.isRoot = false := by
      simp only [eligible, T.i, Bool.and_eq_true, Bool.not_eq_true'] at he
      exact he.1
    have h' : wfAt (.inBuf L) (.mk i kids) = true := by
      simpa [wfKid, T.isRoot, T.i, hr] using h
    simp only [wfAt, Bool.and_eq_true, decide_eq_true_eq] at h'
    simp only [T.start, T.len, T.stop, T.i]
    omega

/-! ### the shape a compound gets from one postProcess step -/

theorem shape_step (arr : Bool) (s0 l0 Lk : Int) (kids1 : List T)
    (hk : ∀ k ∈ kids1, wfKid Lk k = true)
    (hn : arr = true ∨ namesNodup kids1 = true) :
    let sl := (hullLoop none kids1).getD (s0, l0)
    let kids3 := assignIdx arr 0 (if arr then kids1 else sortByStart kids1)
    (0 ≤ l0 ∧ l0 ≤ Lk → 0 ≤ sl.2 ∧ sl.2 ≤ Lk) ∧
    (sl = (s0, l0) ∨ (0 ≤ sl.1 ∧ sl.1 + sl.2 ≤ Lk)) ∧
    (∀ exact, hullOK exact sl.1 sl.2 kids3 = true) ∧
    (arr = true ∨ (sortedStarts kids3 = true ∧ namesNodup kids3 = true)) ∧
    idxFrom arr 0 kids3 = true ∧ wfKids Lk kids3 = true := by
  intro sl kids3
  -- kids2 and kids1 have the same members
  have mem2 : ∀ k, k ∈ (if arr then kids1 else sortByStart kids1) ↔ k ∈ kids1 := by
    intro k; split
    · exact Iff.rfl
    · exact mem_sortByStart
  have wf3 : wfKids Lk kids3 = true := by
    rw [wfKids_iff]
    intro k' hk'
    obtain ⟨k, hk2, ix, e⟩ := mem_assignIdx hk'
    rw [e, wfKid_setIndex]
    exact hk k ((mem2 k).mp hk2)
  have hull3 : ∀ s l, IsHull s l kids1 → IsHull s l kids3 := by
    intro s l h
    refine IsHull_congr ?_ ?_ h
    · intro k' hk'
      obtain ⟨k, hk2, ix, e⟩ := mem_assignIdx hk'
      exact ⟨k, (mem2 k).mp hk2, by simp [e]⟩
    · intro k hk1
      obtain ⟨ix, h⟩ := mem_assignIdx_of_mem (arr := arr) (n := 0) ((mem2 k).mpr hk1)
      exact ⟨_, h, by simp⟩
  have none3 : (∀ k ∈ kids1, eligible k = false) → ∀ k ∈ kids3, eligible k = false := by
    intro h k' hk'
    obtain ⟨k, hk2, ix, e⟩ := mem_assignIdx hk'
    rw [e, setIndex_eligible]
    exact h k ((mem2 k).mp hk2)
  refine ⟨?_, ?_, ?_, ?_, idxFrom_assignIdx _ _ _, wf3⟩
  all_goals rcases hullLoop_none kids1 with ⟨e, hnone⟩ | ⟨s, l, e, hh⟩
  · simp only [sl, e, Option.getD_none]; exact id
  · simp only [sl, e, Option.getD_some]
    intro _
    obtain ⟨a, ⟨ka, hka, ea, sa⟩, ⟨kb, hkb, eb, sb⟩⟩ := hh
    have := a kb hkb eb
    have := wfKid_bounds (hk kb hkb) eb
    have := wfKid_bounds (hk ka hka) ea
    have : kb.stop = kb.start + kb.len := rfl
    omega
  · left; simp only [sl, e, Option.getD_none]
  · right
    simp only [sl, e, Option.getD_some]
    obtain ⟨a, ⟨ka, hka, ea, sa⟩, ⟨kb, hkb, eb, sb⟩⟩ := hh
    have := wfKid_bounds (hk kb hkb) eb
    have := wfKid_bounds (hk ka hka) ea
    omega
  · intro exact
    simp only [sl, e, Option.getD_none]
    exact hullOK_of_none exact (none3 hnone)
  · intro exact
    simp only [sl, e, Option.getD_some]
    exact hullOK_of_IsHull exact (hull3 s l hh)
  all_goals
    cases arr with
    | true => exact Or.inl rfl
    | false =>
      right
      have hn' : namesNodup kids1 = true := by simpa using hn
      simp only [kids3, Bool.false_eq_true, if_false, sortedStarts_assignIdx, namesNodup_assignIdx]
      exact ⟨sortedStarts_sort _, by rw [namesNodup_perm (sortByStart_perm kids1)]; exact hn'⟩

/-! ### postProcess establishes WF -/

theorem kind_eq_array_of (k : Kind) (h : k.isComp = true) : (k == Kind.array) = false → k = .struct := by
  cases k <;> simp_all [Kind.isComp]

mutual
theorem pp_in (L : Int) : ∀ t, preIn L t = true → wfAt (.inBuf L) (postProcess t) = true
  | .mk i kids => by
    intro h
    simp only [preIn, Bool.and_eq_true, decide_eq_true_eq, Bool.not_eq_true'] at h
    obtain ⟨⟨⟨⟨⟨h1, h2⟩, h3⟩, h4⟩, h5⟩, h6⟩ := h
    simp only [postProcess]
    by_cases hc : i.kind.isComp = true
    · simp only [hc, if_true, Bool.and_eq_true, Bool.or_eq_true] at h6 ⊢
      have hk := ppKids_ok L kids h6.2
      have hn : (i.kind == Kind.array) = true ∨ namesNodup (ppKids kids) = true := by
        rcases h6.1 with h | h
        · exact Or.inl h
        · exact Or.inr (by rw [namesNodup_ppKids]; exact h)
      obtain ⟨b2, bd, hh, hs, hi, hw⟩ := shape_step (i.kind == Kind.array) i.start i.len L (ppKids kids) hk hn
      have b2' := b2 ⟨h2, by omega⟩
      simp only [wfAt, hc, if_true, Bool.and_eq_true, decide_eq_true_eq, Bool.not_eq_true', Bool.or_eq_true]
      refine ⟨⟨⟨⟨⟨?_, b2'.1⟩, ?_⟩, h4⟩, h5⟩, ⟨⟨hh true, hs⟩, hi⟩, hw⟩
      · rcases bd with e | e
        · rw [e]; exact h1
        · exact e.1
      · rcases bd with e | e
        · rw [e]; exact h3
        · exact e.2
    · simp only [hc, Bool.false_eq_true, if_false] at h6 ⊢
      simp only [wfAt, hc, Bool.false_eq_true, if_false, Bool.and_eq_true, decide_eq_true_eq, Bool.not_eq_true']
      exact ⟨⟨⟨⟨⟨h1, h2⟩, h3⟩, h4⟩, h5⟩, h6⟩
theorem ppKids_ok (L : Int) : ∀ kids, preKids L kids = true → ∀ k ∈ ppKids kids, wfKid L k = true
  | [] => by intro _ k hk; simp [ppKids] at hk
  | k :: ks => by
    intro h k' hk'
    simp only [preKids, Bool.and_eq_true] at h
    simp only [ppKids, List.mem_cons] at hk'
    rcases hk' with e | hk'
    · subst e
      by_cases hr : k.isRoot = true
      · simp only [hr, if_true] at h ⊢
        simp only [wfKid, hr, if_true]; exact h.1
      · simp only [hr, Bool.false_eq_true, if_false] at h ⊢
        simp only [wfKid, postProcess_isRoot, hr, Bool.false_eq_true, if_false]
        exact pp_in L k h.1
    · exact ppKids_ok L ks h.2 k' hk'
end

/-- a top buffer root whose children satisfy the pre-invariant in its own buffer is WF after postProcess -/
theorem pp_root_top (i : Info) (kids : List T)
    (hroot : i.isRoot = true) (hlink : i.link = true) (hcomp : i.kind.isComp = true)
    (hb : 0 ≤ i.start ∧ 0 ≤ i.len ∧ i.start + i.len ≤ i.bufLen)
    (hn : (i.kind == Kind.array) = true ∨ namesNodup kids = true)
    (hk : preKids i.bufLen kids = true) :
    wfAt .top (postProcess (.mk i kids)) = true := by
  have hk' := ppKids_ok i.bufLen kids hk
  have hn' : (i.kind == Kind.array) = true ∨ namesNodup (ppKids kids) = true := by
    rcases hn with h | h
    · exact Or.inl h
    · exact Or.inr (by rw [namesNodup_ppKids]; exact h)
  obtain ⟨b2, bd, hh, hs, hi, hw⟩ := shape_step (i.kind == Kind.array) i.start i.len i.bufLen (ppKids kids) hk' hn'
  have b2' := b2 ⟨hb.2.1, by omega⟩
  simp only [postProcess, hcomp, if_true]
  simp only [wfAt, hcomp, if_true, Bool.and_eq_true, decide_eq_true_eq, Bool.or_eq_true, Bool.not_eq_true']
  refine ⟨⟨⟨⟨⟨⟨?_, b2'.1⟩, ?_⟩, hroot⟩, Or.inr (by decide)⟩, hlink⟩, ⟨⟨hh true, hs⟩, hi⟩, hw⟩
  · rcases bd with e | e
    · rw [e]; exact hb.1
    · exact e.1
  · rcases bd with e | e
    · rw [e]; exact hb.2.2
    · exact e.2

/-- a nested buffer root: WF as a nested root, and its Start is either unchanged or an own-buffer position -/
theorem pp_root_nested (i : Info) (kids : List T)
    (hroot : i.isRoot = true) (hlink : i.link = true) (hcomp : i.kind.isComp = true)
    (hb : 0 ≤ i.len ∧ i.len ≤ i.bufLen)
    (hn : (i.kind == Kind.array) = true ∨ namesNodup kids = true)
    (hk : preKids i.bufLen kids = true) :
    wfAt .nested (postProcess (.mk i kids)) = true ∧
    ((postProcess (.mk i kids)).start = i.start ∨
      (0 ≤ (postProcess (.mk i kids)).start ∧
        (postProcess (.mk i kids)).start + (postProcess (.mk i kids)).len ≤ i.bufLen)) := by
  have hk' := ppKids_ok i.bufLen kids hk
  have hn' : (i.kind == Kind.array) = true ∨ namesNodup (ppKids kids) = true := by
    rcases hn with h | h
    · exact Or.inl h
    · exact Or.inr (by rw [namesNodup_ppKids]; exact h)
  obtain ⟨b2, bd, hh, hs, hi, hw⟩ := shape_step (i.kind == Kind.array) i.start i.len i.bufLen (ppKids kids) hk' hn'
  have b2' := b2 hb
  simp only [postProcess, hcomp, if_true]
  refine ⟨?_, ?_⟩
  · simp only [wfAt, hcomp, if_true, Bool.and_eq_true, decide_eq_true_eq, Bool.or_eq_true]
    exact ⟨⟨⟨⟨b2'.1, b2'.2⟩, hroot⟩, hlink⟩, ⟨⟨hh false, hs⟩, hi⟩, hw⟩
  · simp only [T.start, T.len, T.i]
    rcases bd with e | e
    · left; rw [e]
    · right; exact e

end Proofs.Tree
