import FqModel.Bitio
import FqModel.C01Readers
import FqModel.C01Spec
import Proofs.C01Bits
import Proofs.C01Read64
import Proofs.C01Write64
import Proofs.C01Ahead
import Proofs.C01ReadAt
import Proofs.C01Overhang
import Proofs.C01Buffer
import Proofs.C01IOReader
import Proofs.C01History
import Proofs.C01Bytes
import Proofs.C01Open
import Proofs.C01ReadFull
import Proofs.C01Limit
import Proofs.C01Alias
import Proofs.C01Clone
import FqModel.C01Adapter
import Proofs.C01Adapter
/-!
  C01 — bit-exact reads through any composition of bit and file readers: property theorems about the
  model (FqModel/Bitio.lean: Read64/Write64/copyBufBits/Buffer; FqModel/C01Readers.lean: the readers;
  FqModel/C01Spec.lean: denotation).  Helper lemmas: Proofs/C01*.lean.
-/
namespace Props.C01
open FqModel FqModel.Bitio Outcome Proofs.C01

/-! ### Read64 -/

/-- Read64 returns the big-endian value of bits [off, off+n) of the buffer — every buffer, every bit
    offset (aligned or not), every length 0..64; in particular no slice index is out of range. -/
theorem read64_spec (buf : List UInt8) (off n : Nat) (h : off + n ≤ 8 * buf.length) (hn : n ≤ 64) :
    read64 buf off n = ok (ofBitsBE (slice (bytesToBits buf) off n)) :=
  read64_spec' buf off n h hn

/-- side lemma for the unbounded-`Nat` model of Go's uint64 arithmetic: the value returned (and, by the
    loop invariant `read64Loop_spec`, every intermediate accumulator: `acc < 2^(64 - bitsLeft)`) fits
    nBits ≤ 64 bits, so `n<<k | x` never drops a bit in Go -/
theorem read64_lt (buf : List UInt8) (off n v : Nat) (h : off + n ≤ 8 * buf.length) (hn : n ≤ 64)
    (hv : read64 buf off n = ok v) : v < 2 ^ n := by
  rw [read64_spec buf off n h hn] at hv
  injection hv with hv
  subst hv
  have := ofBitsBE_lt (slice (bytesToBits buf) off n)
  rwa [slice_length _ _ _ (by rw [bytesToBits_length]; exact h)] at this

/-- non-vacuity: an unaligned 13-bit read crossing two byte boundaries -/
example : read64 [0x12, 0x34, 0x56] 5 13 = ok 0x8d1 ∧ 5 + 13 ≤ 8 * [0x12, 0x34, 0x56].length := by decide

/-- outside the hypothesis the Go code panics (index out of range), and the model says so -/
example : read64 [0xaa, 0x55, 0xaa] 8 24 = fault "slice bounds out of range" := by decide

/-! ### Write64 -/

/-- Write64 replaces exactly bits [off, off+n) of the buffer by the n-bit big-endian representation of v
    (every buffer, bit offset, length 0..64); all other bits and the length are unchanged.
    Hypothesis `v < 2^n`: Write64 does not mask v — see `write64_unmasked_witness`; every caller inside
    pkg/bitio (copyBufBits, readFull) passes a value that Read64 returned for the same n, or 0. -/
theorem write64_spec (v n : Nat) (buf : List UInt8) (off : Nat) (h : off + n ≤ 8 * buf.length) (hn : n ≤ 64)
    (hv : v < 2 ^ n) :
    ∃ buf', write64 v n buf off = ok buf' ∧ buf'.length = buf.length ∧
      bytesToBits buf' = (bytesToBits buf).take off ++ toBitsBE n v ++ (bytesToBits buf).drop (off + n) :=
  write64_spec' v n buf off h hn hv

/-- what was written is read back -/
theorem read64_write64 (v n : Nat) (buf : List UInt8) (off : Nat) (h : off + n ≤ 8 * buf.length) (hn : n ≤ 64)
    (hv : v < 2 ^ n) :
    ∃ buf', write64 v n buf off = ok buf' ∧ read64 buf' off n = ok v := by
  obtain ⟨buf', h1, h2, h3⟩ := write64_spec v n buf off h hn hv
  refine ⟨buf', h1, ?_⟩
  rw [read64_spec buf' off n (by omega) hn, h3]
  have hl : ((bytesToBits buf).take off).length = off := by
    rw [List.length_take, bytesToBits_length]; omega
  have : slice ((bytesToBits buf).take off ++ toBitsBE n v ++ (bytesToBits buf).drop (off + n)) off n = toBitsBE n v := by
    simp only [slice]
    rw [List.append_assoc, List.drop_left' hl, List.take_left' (toBitsBE_length n v)]
  rw [this, ofBitsBE_toBitsBE, Nat.mod_eq_of_lt hv]

/-- the hypothesis `v < 2^n` of `write64_spec` is needed: at an unaligned position Write64 ORs the excess
    bits of v into the bits before firstBit (Write64(0xffff, 4, buf, 4) turns the first nibble of 0x00 into f) -/
theorem write64_unmasked_witness : write64 0xffff 4 [0x00] 4 = ok [0xff] := by decide

/-- non-vacuity: an unaligned 13-bit write into the middle of three bytes -/
example : write64 0x1abc 13 [0xff, 0x00, 0xff] 5 = ok [0xfe, 0xaf, 0x3f] ∧ 0x1abc < 2 ^ 13 ∧ 5 + 13 ≤ 8 * 3 := by decide

/-! ### ReadBitsAt / ReadBits of byte buffers, sections, multi readers, zero readers, limit readers -/

/-- C01 core.  For every well-formed composition (any nesting depth ≤ d) of NewIOBitReadSeeker over a
    bytes.Reader or file — directly or through any stack of aheadreadseeker / progressreadseeker / ctxreadseeker
    wrappers (`ByteWF`) —, SectionReader (inside its source), MultiReader and ZeroReadAtSeeker — in particular
    NewBitReader(buf, nBits) and everything bitiox.Range / Binary.toReader build — every ReadBitsAt(p, n, off)
    with off ≥ 0 succeeds (no Go panic, no hang) and satisfies `SoundAt (den r) off n`:
      * the k ≤ n bits returned are exactly bits [off, off+k) of the denoted bit string, MSB first,
      * never beyond the logical end, EOF only when the read ends at / starts beyond the logical end,
      * without an error a non-empty request inside the data returns at least one bit,
    and the reader that remains is again well formed and denotes the same bits (so this holds after any
    history of such calls). -/
theorem readBitsAt_sound (d : Nat) (r : Rd) (h : WFd d r) (n off : Nat) :
    ∃ r' res, step d r (.readAt n (off : Int)) = ok (r', res) ∧ SoundAt (den r) off n res ∧ WFd d r' ∧ den r' = den r :=
  readAt_sound' d r h n off

/-- ReadBits: the same at the reader's own position, which advances by exactly the number of bits returned -/
theorem readBits_sound (d : Nat) (r : Rd) (h : WFd d r) (hr : isReader r = true) (n : Nat) :
    ∃ r' res, step d r (.read n) = ok (r', res) ∧ SoundAt (den r) (posOf r) n res ∧ WFd d r' ∧ den r' = den r ∧
      isReader r' = true ∧ posOf r' = posOf r + res.bits.length :=
  read_sound' d r h hr n

/-- LimitReader over such a reader: the bits of the inner reader at its position, never more than the
    remaining budget m; EOF when the budget is used up or the inner reader is at its end -/
theorem limit_read_sound (d : Nat) (r : Rd) (m : Nat) (hr : WFd d r) (hrd : isReader r = true) (n : Nat) :
    ∃ r' res, step (d + 1) (.limit r m) (.read n) = ok (.limit r' (m - res.bits.length), res) ∧
      SoundAt ((den r).take (posOf r + m)) (posOf r) n res ∧ WFd d r' ∧ isReader r' = true ∧ den r' = den r ∧
      posOf r' = posOf r + res.bits.length ∧ res.bits.length ≤ m :=
  limit_read_sound' d r m hr hrd n

/-- bitio.NewBitReader(data, nBits) (nBits = -1 or ≤ 8*len) is well formed and denotes the first nBits bits -/
theorem newBitReader_wf (data : List UInt8) (nBits : Option Nat) (h : ∀ nb, nBits = some nb → nb ≤ 8 * data.length)
    (d : Nat) : WFd (d + 3) (newBitReader data nBits) ∧
      den (newBitReader data nBits) = (bytesToBits data).take (nBits.getD (data.length * 8)) :=
  ⟨wf_newBitReader data nBits h d, den_newBitReader data nBits⟩

/-- non-vacuity: NewMultiReader(13 bits of a buffer, 3 zero bits, a whole buffer) and a section of it -/
def exMulti : Rd :=
  .multi [newBitReader [0xab, 0xcd] (some 13), .zero 0 3, newBitReader [0x12] none] [13, 16, 24] 0

/-- the constructor model (endPos on every sub-reader) yields exactly this state … -/
example : newMulti [newBitReader [0xab, 0xcd] (some 13), .zero 0 3, newBitReader [0x12] none] = ok exMulti := by rfl

/-- … a section of it is well formed (hypothesis of `readBitsAt_sound` / `readBits_sound`) … -/
example : WFd 8 (newSect exMulti 10 12) ∧ isReader (newSect exMulti 10 12) = true := by
  simp [WFd, exMulti, newSect, newBitReader, newIOBits, den, denList, denBy, cumEnds, slice, bytesToBits,
    byteToBits, toBitsBE, isReader, ByteWF]

/-- … and an unaligned read across both internal boundaries returns 3 bits (MultiReader reads from one
    sub-reader per call) without error, a read at the end reports EOF -/
example :
    den (newSect exMulti 10 12) = [false, false, true, false, false, false, false, false, false, true, false, false] ∧
    (match step 8 (newSect exMulti 10 12) (.readAt 11 0) with
      | .ok (_, res) => (res.n, res.bits, res.err) | _ => (0, [], none)) = (3, [false, false, true], none) ∧
    (match step 8 (newSect exMulti 10 12) (.readAt 11 7) with
      | .ok (_, res) => (res.n, res.bits, res.err) | _ => (0, [], none)) = (5, [false, false, true, false, false], none) ∧
    (match step 8 (newSect exMulti 10 12) (.readAt 1 12) with
      | .ok (_, res) => (res.n, res.bits, res.err) | _ => (0, [], none)) = (0, [], some .eof) := by
  decide

/-! ### ReadFull / ReadAtFull (bitio.go:196-238) -/

/-- `readFull_exact` (ReadAtFull): when the n bits at off exist, bitio.ReadAtFull over any well-formed reader
    returns (n, nil) and exactly those bits — whatever short reads (MultiReader boundaries) and unaligned heads
    the loop has to stitch together through its one-byte buffer and Write64 -/
theorem readAtFull_exact (d : Nat) (r : Rd) (h : WFd d r) (n off : Nat) (hin : off + n ≤ (den r).length) :
    ∃ r' res, readAtFull d r n (off : Int) = ok (r', res) ∧ res.n = n ∧ res.bits = slice (den r) off n ∧
      res.err = none ∧ WFd d r' ∧ den r' = den r := by
  obtain ⟨r', res, h1, h2⟩ := readAtFull_spec d r h n off (by omega)
  rcases h2 with ⟨_, a, b, c, _, e1, e2⟩ | ⟨hlt, _⟩
  · exact ⟨r', res, h1, a, b, c, e1, e2⟩
  · omega

/-- `readFull_eof` (ReadAtFull): when fewer than n bits are left after off (off inside the data), it returns the
    bits that are left, io.EOF, and — bitio's convention — the number of bits NOT read -/
theorem readAtFull_eof (d : Nat) (r : Rd) (h : WFd d r) (n off : Nat) (hoff : off ≤ (den r).length)
    (hout : (den r).length < off + n) :
    ∃ r' res, readAtFull d r n (off : Int) = ok (r', res) ∧ res.n = (n : Int) - (((den r).length - off : Nat) : Int) ∧
      res.bits = slice (den r) off ((den r).length - off) ∧ res.err = some .eof ∧ WFd d r' ∧ den r' = den r := by
  obtain ⟨r', res, h1, h2⟩ := readAtFull_spec d r h n off hoff
  rcases h2 with ⟨hle, _⟩ | ⟨_, a, b, c, _, e1, e2⟩
  · omega
  · exact ⟨r', res, h1, a, b, c, e1, e2⟩

/-- `readFull_exact` / `readFull_eof` (ReadFull, from the reader's own position, which advances by the bits read) -/
theorem readFull_exact (d : Nat) (r : Rd) (h : WFd d r) (hrd : isReader r = true) (n : Nat)
    (hin : posOf r + n ≤ (den r).length) :
    ∃ r' res, readFull d r n = ok (r', res) ∧ res.n = n ∧ res.bits = slice (den r) (posOf r) n ∧ res.err = none ∧
      WFAt d (den r) r' (posOf r + n) := by
  obtain ⟨r', res, h1, h2⟩ := readFull_spec d r h hrd n (by omega)
  rcases h2 with ⟨_, a, b, c, _, e⟩ | ⟨hlt, _⟩
  · exact ⟨r', res, h1, a, b, c, e⟩
  · omega

theorem readFull_eof (d : Nat) (r : Rd) (h : WFd d r) (hrd : isReader r = true) (n : Nat)
    (hpos : posOf r ≤ (den r).length) (hout : (den r).length < posOf r + n) :
    ∃ r' res, readFull d r n = ok (r', res) ∧ res.n = (n : Int) - (((den r).length - posOf r : Nat) : Int) ∧
      res.bits = slice (den r) (posOf r) ((den r).length - posOf r) ∧ res.err = some .eof ∧
      WFAt d (den r) r' (den r).length := by
  obtain ⟨r', res, h1, h2⟩ := readFull_spec d r h hrd n hpos
  rcases h2 with ⟨hle, _⟩ | ⟨_, a, b, c, _, e⟩
  · omega
  · refine ⟨r', res, h1, a, b, c, ?_⟩
    rwa [show posOf r + ((den r).length - posOf r) = (den r).length by omega] at e

/-- non-vacuity: ReadAtFull of 11 bits across both internal boundaries of `exMulti` (three calls, two of them
    through the one-byte buffer), and 11 bits of which only 5 are left -/
example :
    (match readAtFull 8 (newSect exMulti 10 12) 11 0 with
      | .ok (_, res) => (res.n, res.bits, res.err) | _ => (0, [], none))
      = (11, [false, false, true, false, false, false, false, false, false, true, false], none) ∧
    (match readAtFull 8 (newSect exMulti 10 12) 11 7 with
      | .ok (_, res) => (res.n, res.bits, res.err) | _ => (0, [], none))
      = (6, [false, false, true, false, false], some .eof) := by
  decide

/-! ### the byte-side wrappers and the reader stack of interp._open -/

/-- every well-formed stack of ctxreadseeker (live context) / progressreadseeker / aheadreadseeker (minRead > 0,
    cache invariant) over a bytes.Reader or file behaves like a bytes.Reader over the same data: Read answers
    1..n bytes of the data at the position or EOF at the end, Seek answers what bytes.Reader answers -/
theorem byte_wrappers_transparent (d : Nat) (data : List UInt8) : ByteOK (step d) data (ByteAt d data) :=
  byteOK_wf d data

/-- the model's open stack is built with the constants REGENERATED from pkg/interp/binary.go, in the order and
    with the data flow of the constructor calls found there (rs → ctxreadseeker → progressreadseeker →
    aheadreadseeker → NewIOBitReadSeeker) -/
theorem open_stack_consts (data : List UInt8) :
    openStack data = newIOBits (.ahead (newProgress (.ctx (.raw data 0 true)) Gen.C01Consts.progressPrecision data.length)
      Gen.C01Consts.cacheReadAheadSize 0 [] 0) ∧
    Gen.C01Consts.openCalls.map (fun c => c.2.1) =
      ["ctxreadseeker.New", "progressreadseeker.New", "aheadreadseeker.New", "bitio.NewIOBitReadSeeker"] ∧
    (match Gen.C01Consts.openCalls with
      | [(v1, _, a1), (v2, _, a2), (v3, _, a3), (_, _, a4)] =>
        a1.contains "rs" && a2.contains v1 && a2.contains "progressPrecision" && a3.contains v2 &&
          a3.contains "cacheReadAheadSize" && a4.contains v3
      | _ => false) = true ∧
    0 < Gen.C01Consts.progressPrecision ∧ 0 < Gen.C01Consts.cacheReadAheadSize := by
  refine ⟨rfl, by decide, by decide, by decide, by decide⟩

/-- `open_stack_refines`: for EVERY file content and EVERY history of ReadBitsAt / ReadBits / SeekBits / clone the
    reader interp._open hands out (IOBitReadSeeker over aheadreadseeker(512 KiB) over progressreadseeker over
    ctxreadseeker over the file) makes exactly the observations of the specification machine `runBitsSpec` over
    the plain byte string: cache, progress partitions and context hand-off are invisible -/
theorem open_stack_refines (data : List UInt8) (ops : List HOp) :
    runH depthFuel (openStack data) ops = runBitsSpec data ops :=
  open_stack_refines' data ops

/-- … and so does the plain NewIOBitReadSeeker(bytes.NewReader(data)) -/
theorem plain_bitreader_refines (data : List UInt8) (ops : List HOp) :
    runH depthFuel (newIOBits (.raw data 0 false)) ops = runBitsSpec data ops :=
  plain_refines' data ops

/-- the open stack is a well-formed reader denoting the bits of the file, so `readBitsAt_sound`, `readBits_sound`,
    `readAtFull_exact` … apply to it and, through `history_refines`, to every section (bitiox.Range) of it -/
theorem open_stack_wf (data : List UInt8) :
    WFd depthFuel (openStack data) ∧ den (openStack data) = bytesToBits data :=
  openStack_wf' data 27

theorem open_stack_range_history (data : List UInt8) (off n : Nat) (h : off + n ≤ 8 * data.length) (ops : List HOp) :
    HistOK (slice (bytesToBits data) off n) 0 (runH (depthFuel + 1) (newSect (openStack data) off n) ops) := by
  have hw := openStack_wf' data 27
  have hwf : WFd (depthFuel + 1) (newSect (openStack data) off n) := by
    simp only [newSect, WFd]
    exact ⟨hw.1, Nat.le_refl _, by omega, by rw [hw.2, bytesToBits_length]; omega⟩
  have := history_refines' (depthFuel + 1) _ ops (newSect (openStack data) off n) ⟨hwf, rfl, rfl⟩
  simpa [newSect, den_sect, hw.2, posOf] using this

/-- non-vacuity: a history on the open stack over a 5-byte file -/
example :
    (runH depthFuel (openStack [0x12, 0x34, 0x56, 0x78, 0x9a]) [.read 3, .seek 2 .current, .read 8, .seek (-13) .end_,
        .readAt 20 27]).map (fun x => match x.2 with | .ok res => (res.n, res.bits.length, res.err) | _ => (-1, 0, none))
      = [(3, 3, none), (5, 0, none), (8, 8, none), (27, 0, none), (13, 13, some .eof)] := by
  decide

/-! ### LimitReader histories -/

/-- every history of ReadBits / CloneReader on NewLimitReader(r, m) over a well-formed section or multi reader:
    each read returns the bits at the inner reader's cursor, never more than the remaining budget, and the budget
    is charged with the bits actually RETURNED (a short read at a MultiReader boundary must not cost the bits
    requested); CloneReader restarts at 0 with the remaining — not the original — budget -/
theorem limit_history (d : Nat) (r : Rd) (m : Nat) (h : WFd d r) (ht : topSM r = true) (ops : List LOp) :
    LimitOK (den r) (posOf r) m (runL (d + 1) (.limit r m) ops) :=
  limit_history' d (den r) ops r m ⟨h, rfl, ht⟩

/-- never more than the budget in total (histories without CloneReader) -/
theorem limit_budget (d : Nat) (r : Rd) (m : Nat) (h : WFd d r) (ht : topSM r = true) (ops : List LOp)
    (hnc : ∀ op ∈ ops, op ≠ .clone) : bitsReturned (runL (d + 1) (.limit r m) ops) ≤ m := by
  refine limitOK_budget (den r) _ _ _ (limit_history d r m h ht ops) ?_
  intro x hx
  have : ∀ (l : List LOp) (s : Rd), (∀ op ∈ l, op ≠ .clone) → ∀ y ∈ runL (d + 1) s l, y.1 ≠ .clone := by
    intro l
    induction l with
    | nil => intro s _ y hy; simp [runL] at hy
    | cons o os ih =>
      intro s hl y hy
      simp only [runL] at hy
      cases hst : step (d + 1) s o.toOp with
      | ok a =>
        rw [hst] at hy
        rcases List.mem_cons.mp hy with rfl | hy
        · exact hl o (by simp)
        · exact ih a.1 (fun op hop => hl op (by simp [hop])) y hy
      | fault w => rw [hst] at hy; simp at hy; subst hy; exact hl o (by simp)
      | hang => rw [hst] at hy; simp at hy; subst hy; exact hl o (by simp)
      | unsupported w => rw [hst] at hy; simp at hy; subst hy; exact hl o (by simp)
  exact this ops _ hnc x hx

/-- the budget under short reads: a 20-bit limit over NewMultiReader(13 bits, 3 zero bits, 8 bits): reads of 11
    bits return 11, 2, 3, 4 bits (short at both boundaries) and then EOF — 20 bits in total, not fewer -/
example :
    (runL 9 (.limit exMulti 20) [.read 11, .read 11, .read 11, .read 11, .read 11]).map
      (fun x => match x.2 with | .ok res => (res.n, res.err) | _ => (-1, none))
      = [(11, none), (2, none), (3, none), (4, none), (0, some .eof)] := by
  decide

/-- the CloneReader quirk (limitreader.go:35 `&LimitReader{r: rc, n: r.n}`): after 8 of 12 bits the clone delivers
    only the remaining 4 bits — from position 0 again -/
theorem limit_clone_budget_witness :
    (runL 9 (.limit (newBitReader [0xab, 0xcd] none) 12) [.read 8, .clone, .read 12, .read 1]).map
      (fun x => match x.2 with | .ok res => (res.n, res.bits, res.err) | _ => (-1, [], none))
      = [(8, [true, false, true, false, true, false, true, true], none), (0, [], none),
         (4, [true, false, true, false], none), (0, [], some .eof)] := by
  decide

/-! ### bitio.Buffer and the writer → reader round trip -/

/-- bitio.Buffer is a FIFO of bits for EVERY interleaving of WriteBits(p, n) (n ≤ 8·len(p)) and ReadBits(k): each
    read returns the first min(k, len) unread bits (EOF, or nil for k = 0, when empty); in particular no
    copyBufBits / Read64 / Write64 index is ever out of range (`no_oob` for Buffer: all outcomes are `ok`) -/
theorem buffer_fifo (ops : List BufOp) (h : ∀ p n, BufOp.write p n ∈ ops → n ≤ 8 * p.length) :
    runBuf {} ops = bufSpec [] ops := by
  have := buffer_fifo' ops {} ⟨by simp, by simp⟩ h
  simpa [Buffer.content, slice_zero_len] using this

/-- round trip: the bytes an IOBitWriter wrote (see `ioBitWriter_flush`: `bitsToBytesPadR X`, never a fault for
    any chunking) read back through NewBitReader(bytes, len X) are the bits X -/
theorem writer_reader_roundtrip (X : Bits) :
    WFd 3 (newBitReader (bitsToBytesPadR X) (some X.length)) ∧
    den (newBitReader (bitsToBytesPadR X) (some X.length)) = X := by
  have hl : X.length ≤ 8 * (bitsToBytesPadR X).length := by
    rw [← packR_eq_bitsToBytesPadR, packR_length]; exact (bitsByteCount_bounds _).1
  refine ⟨(newBitReader_wf _ _ (by intro nb h; injection h with h; subst h; exact hl) 0).1, ?_⟩
  rw [den_newBitReader, ← packR_eq_bitsToBytesPadR, bytesToBits_packR]
  simp

/-- non-vacuity of `buffer_fifo`: interleaved writes and reads -/
example :
    runBuf {} [.write [0xab, 0xc0] 11, .read 3, .write [0xff] 2, .read 20, .read 1, .read 0]
      = [ok ([], none), ok ([true, false, true], none), ok ([], none),
         ok ([false, true, false, true, true, true, true, false, true, true], none), ok ([], some .eof), ok ([], none)] := by
  decide

/-! ### aliasing: the reader handed to a constructor is still the caller's object -/

/-- `constructors_preserve_argument_cursor`.  Go readers are shared objects; the model keeps the state of an argument
    inside the state of the composition (`stepAt` operates on it in place).  What each constructor does to the
    cursor of its argument, transliterated from the code:
      * NewMultiReader (multireader.go:36-48) calls endPos on every part — SeekBits(0, current), SeekBits(0, end),
        SeekBits(c, start) — and so leaves every part exactly where it stood, with the same bits; readerEnds are
        the cumulative lengths (every list of well-formed section / multi / zero parts standing inside their data);
      * NewSectionReader, NewLimitReader, NewIOBitReadSeeker, NewIOReader / NewIOReadSeeker store the argument
        untouched (they do not call it at all). -/
theorem constructors_preserve_argument_cursor (d : Nat) (rs : List Rd) (h : ∀ r ∈ rs, PartOK d r) :
    (∃ rs', newMultiLoop (step d) rs [] [] 0 = ok (.multi rs' (cumEnds rs' 0) 0) ∧ PartsKept d rs rs') ∧
    (∀ (r : Rd) (off n : Nat), newSect r off n = .sect r off off (off + n)) ∧
    (∀ b : Rd, newIOBits b = .ioBits b 0 []) := by
  refine ⟨?_, fun _ _ _ => rfl, fun _ => rfl⟩
  obtain ⟨rs', h1, h2⟩ := newMultiLoop_spec d rs [] [] 0 h
  exact ⟨rs', by simpa using h1, h2⟩

/-- non-vacuity + the demonstration of seeded change S2-C01-2 on the model: a reader that was read for 4 bits, then
    used as a part of NewMultiReader, still stands at bit 4 and delivers its second nibble; an untouched part is
    still readable from 0; reading the parts directly does not disturb the composition -/
example :
    (match newMulti [match step 8 (newBitReader [0x12, 0x34] none) (.read 4) with | .ok (r, _) => r | _ => .zero 0 0,
                     newBitReader [0x56] none] with
      | .ok m =>
        [stepAt 9 [0] m (.seek 0 .current), stepAt 9 [0] m (.read 4), stepAt 9 [1] m (.read 8)].map
          (fun o => match o with | .ok (_, res) => (res.n, res.bits.length, res.err) | _ => (-1, 0, none))
      | _ => []) = [(4, 0, none), (4, 4, none), (8, 8, none)] := by
  decide

/-- `clone_independent`.  An IOBitReadSeeker and its clones (CloneReader / CloneReadSeeker / CloneReadAtSeeker /
    CloneReaderAtSeeker: new instances over the SAME io.ReadSeeker, iobitreadseeker.go:101) over any well-formed
    byte stack — a bytes.Reader, a file, the ahead/progress/ctx stack of interp._open — are independent cursors:
    for EVERY interleaving of ReadBitsAt / ReadBits / SeekBits / clone operations on the members of the family the
    observations are those of `famSpec`, in which every cursor is a specification machine of its own over the byte
    string and nothing is shared — whatever the other members did to the shared reader in between (each
    ReadBitsAt seeks the shared reader itself; nothing about its position is remembered between calls). -/
theorem clone_independent (d : Nat) (data : List UInt8) (b : Rd) (pos : Nat) (hb : ByteAt d data b pos)
    (sts : List (Int × List UInt8)) (ops : List (Nat × HOp)) :
    famRun (d + 1) (sts.map (fun st => Rd.ioBits b st.1 st.2)) ops = famSpec data sts ops :=
  clone_independent' d data ops sts b pos hb

/-- … in particular the reader interp._open hands out, and its clones -/
theorem open_stack_clones_independent (data : List UInt8) (ops : List (Nat × HOp)) :
    famRun depthFuel [openStack data] ops = famSpec data [(0, [])] ops := by
  have := clone_independent' 31 data ops [(0, [])] _ 0 (openStack_byteAt data true data.length 27)
  exact this

/-- non-vacuity, and the history of seeded change S4-C01-1 on the model: original reads a byte, its clone reads
    three bytes (moving the shared reader), the original's next sequential read still delivers byte 1 -/
example :
    (famRun depthFuel [newIOBits (.raw [0x11, 0x22, 0x33, 0x44] 0 false)]
        [(0, .read 8), (0, .clone), (1, .read 24), (0, .read 8), (1, .seek 0 .current), (0, .seek 0 .current)]).map
      (fun x => match x.2.2 with | .ok res => (res.n, res.bits.length, res.err) | _ => (-1, 0, none))
    = [(8, 8, none), (0, 0, none), (24, 24, none), (8, 8, none), (24, 0, none), (16, 0, none)] ∧
    (match step depthFuel (.ioBits (.raw [0x11, 0x22, 0x33, 0x44] 3 false) 8 []) (.read 8) with
      | .ok (_, res) => res.bits | _ => []) = byteToBits 0x22 := by
  decide

/-! ### histories -/

/-- C01 (stretch `history_refines`).  ANY sequence of ReadBitsAt (offset ≥ 0) / ReadBits / SeekBits(start |
    current | end) / clone operations on a well-formed SectionReader or MultiReader (over any well-formed
    nesting of byte buffers, sections, multi and zero readers) behaves as a cursor over the denoted bit string:
    every read returns exactly the bits at the offset / at the cursor (`SoundAt`), the cursor advances by the
    bits returned, a seek lands exactly on start/current/end + offset and is rejected only for a target outside
    [0, len] (never accepted for a negative one), a clone starts at 0 — whatever happened before. -/
theorem history_refines (d : Nat) (r : Rd) (h : WFd d r) (ht : topSM r = true) (ops : List HOp) :
    HistOK (den r) (posOf r) (runH d r ops) :=
  history_refines' d (den r) ops r ⟨h, rfl, ht⟩

/-- C01 (stretch `no_oob`): in such a history no modelled Go slice index / slice bound is out of range (no
    `fault` outcome), no loop runs for ever (`hang`): every operation returns -/
theorem no_oob (d : Nat) (r : Rd) (h : WFd d r) (ht : topSM r = true) (ops : List HOp) :
    ∀ x ∈ runH d r ops, ∃ res, x.2 = ok res := by
  have hh := history_refines d r h ht ops
  generalize runH d r ops = l at hh
  generalize posOf r = pos at hh
  induction l generalizing pos with
  | nil => intro x hx; simp at hx
  | cons y ys ih =>
    intro x hx
    obtain ⟨op, o⟩ := y
    cases o with
    | ok res =>
      simp only [HistOK] at hh
      obtain ⟨pos', _, hrest⟩ := hh
      rcases List.mem_cons.mp hx with rfl | hx
      · exact ⟨res, rfl⟩
      · exact ih pos' hrest x hx
    | fault w => simp [HistOK] at hh
    | hang => simp [HistOK] at hh
    | unsupported w => simp [HistOK] at hh

/-- non-vacuity: a history on the section of `exMulti` with short reads at the internal boundaries, seeks from
    all three origins (one rejected), and a clone; its observations -/
example :
    (runH 8 (newSect exMulti 10 12) [.read 11, .read 11, .seek (-4) .end_, .read 11, .seek (-1) .start,
        .seek 2 .current, .read 1, .clone, .readAt 2 3]).map
      (fun x => match x.2 with | .ok res => (res.n, res.bits, res.err) | _ => (-1, [], none))
    = [(3, [false, false, true], none), (3, [false, false, false], none), (8, [], none),
       (4, [false, true, false, false], none), (0, [], some .offset), (14, [], none), (0, [], some .eof),
       (0, [], none), (2, [false, false], none)] := by
  decide

/-! ### byte-oriented view: IOReader / IOReadSeeker -/

/-- C01 core.  bitio.NewIOReader(r) / NewIOReadSeeker(r) on a fresh well-formed bit reader r (byte buffer,
    section, multi reader — aligned or not, any nesting): for EVERY chunking (sequence of len(p) > 0) the bytes
    delivered by Read are a prefix of `bitsToBytesPadR (den r)` — the bits unchanged, the trailing partial byte
    padded with zero bits —, they are ALL of it as soon as EOF is reported, no other error is reported, and EOF
    is reported after at most len+1 reads (no hang, no Go panic: every `copyBufBits`/`Read64`/`Write64` index
    in IOReader.Read and bitio.Buffer is in range). -/
theorem ioReader_bytes (d : Nat) (r : Rd) (seekable : Bool) (hr : WFAt d (den r) r 0) (chunks : List Nat)
    (hpos : ∀ n ∈ chunks, 0 < n) :
    let out := readAll (d + 1) (.ioBytes r seekable none {} 0) chunks
    out.1 = (bitsToBytesPadR (den r)).take out.1.length ∧
    (out.2 = some .eof → out.1 = bitsToBytesPadR (den r)) ∧
    (out.2 = none ∨ out.2 = some .eof) ∧
    ((bitsToBytesPadR (den r)).length < chunks.length → out.2 = some .eof) :=
  ioReader_bytes' d r seekable hr chunks hpos

/-- copyBufBits(dst, dstStart, src, srcStart, n, zero=true) moves the n bits unchanged and zero fills the
    rest of the last byte; nothing else changes -/
theorem copyBufBits_zero_spec (dst : List UInt8) (dstStart : Nat) (src : List UInt8) (srcStart n : Nat)
    (hs : srcStart + n ≤ 8 * src.length) (hd : dstStart + n ≤ 8 * dst.length) :
    ∃ dst', copyBufBits dst dstStart src srcStart n true = ok dst' ∧ dst'.length = dst.length ∧
      bytesToBits dst' = splice (bytesToBits dst) dstStart
        (slice (bytesToBits src) srcStart n ++ List.replicate (padTo8 (dstStart + n)) false) :=
  copyBufBits_spec dst dstStart src srcStart n hs hd

/-- non-vacuity: the byte view of a 13-bit reader, read 1 byte at a time: 0xab, then 0xc8 (5 bits + 3 zero
    bits) together with EOF -/
example :
    WFAt 3 (den (newBitReader [0xab, 0xcd] (some 13))) (newBitReader [0xab, 0xcd] (some 13)) 0 ∧
    readAll 4 (.ioBytes (newBitReader [0xab, 0xcd] (some 13)) false none {} 0) [1, 1, 1] = ([0xab, 0xc8], some .eof) := by
  refine ⟨⟨?_, rfl, rfl, rfl⟩, by decide⟩
  exact (newBitReader_wf [0xab, 0xcd] (some 13) (by intro nb h; injection h with h; subst h; decide) 0).1

/-! ### bit writer: IOBitWriter -/

/-- bitio.NewIOBitWriter(w): after any sequence of WriteBits(p_i, n_i) (n_i ≤ 8·len(p_i); the drain loop's
    32 KiB scratch buffer is not modelled) and Flush, the bytes written to w are exactly the concatenated
    bits packed into bytes, the trailing partial byte padded with zero bits — for every chunking. -/
theorem ioBitWriter_flush (chunks : List (Nat × List UInt8)) (h : ∀ c ∈ chunks, c.1 ≤ 8 * c.2.length) :
    ∃ w, (chunks.foldlM (fun w c => w.writeBits c.2 c.1) ({} : BitWriter) >>= BitWriter.flush) = ok w ∧
      w.out = bitsToBytesPadR (chunkBits chunks) := by
  have h0 : WInv ({} : BitWriter) [] := ⟨⟨by simp, by simp⟩, by simp [Buffer.content, slice_zero_len, bytesToBits_nil], by simp [Buffer.content, slice_zero_len]⟩
  obtain ⟨w1, e1, h1⟩ := bitWriter_chunks chunks {} [] h0 h
  obtain ⟨w2, e2, h2⟩ := bitWriter_flush_spec w1 _ h1
  refine ⟨w2, ?_, ?_⟩
  · rw [e1]; exact e2
  · rw [h2, List.nil_append, packR_eq_bitsToBytesPadR]

/-- non-vacuity: 3 bits, 13 bits, 1 bit → 17 bits → three bytes, the last one padded -/
example :
    (([(3, [0xe0]), (13, [0xab, 0xc8]), (1, [0x80])] : List (Nat × List UInt8)).foldlM
        (fun w c => w.writeBits c.2 c.1) ({} : BitWriter) >>= BitWriter.flush).bind (fun w => ok w.out)
      = ok [0xf5, 0x79, 0x80] := by decide

/-! ### aheadreadseeker -/

/-- aheadreadseeker (with the fix 328451e9) is observationally a bytes.Reader: for EVERY data, minRead ≥ 1
    and history of io.ReadFull / Seek(start|current|end) operations the (n, bytes, error class)
    observations coincide.  Proof: invariant `AheadInv` (cacheUsed > 0 → underlyingPos = cacheOffset +
    cacheUsed ∧ cache = data[cacheOffset, +cacheUsed)) preserved by every operation (Proofs/C01Ahead.lean). -/
theorem ahead_refines (data : List UInt8) (isFile : Bool) (m : Nat) (hm : 0 < m) (ops : List BOp) :
    runAhead data isFile m ops = runBytesReader data ops :=
  ahead_refines' data isFile m hm ops

/-- a plain Read(p) may return fewer bytes than bytes.Reader would (only what the cache holds), but never
    nothing: in a state satisfying the invariant at logical offset `pos` it answers EOF exactly at the end of
    the data and otherwise 1..len(p) bytes of the data at `pos`, and the invariant is kept -/
theorem ahead_read_prefix (data : List UInt8) (isFile : Bool) (m : Nat) (hm : 0 < m) :
    ReadsAt (step depthFuel) data (AheadAt data isFile m) :=
  readsAt_ahead 30 data isFile m hm

/-- the invariant holds initially -/
theorem ahead_init_inv (data : List UInt8) (isFile : Bool) (m : Nat) : AheadAt data isFile m (initAhead data isFile m) 0 :=
  ⟨.raw data 0 isFile, 0, [], 0, rfl, rfl, ⟨fun h => absurd rfl h, fun _ => rfl⟩⟩

/-- non-vacuity: the history of the fixed finding `ahead-seekend-cached` (read 4; seek(-28,end) on 32 bytes
    with minRead 8; read 4; read 4) delivers bytes 0-3, 4-7, 8-11 -/
example :
    runAhead ((List.range 32).map (fun i => UInt8.ofNat (48 + i))) false 8
      [.readFull 4, .seek (-28) .end_, .readFull 4, .readFull 4]
    = [ok (4, [48, 49, 50, 51], none), ok (4, [], none), ok (4, [52, 53, 54, 55], none), ok (4, [56, 57, 58, 59], none)] := by
  decide

/-! ### bit → byte → bit adapter nestings (IOReadSeeker over a bit reader, IOBitReadSeeker over that, towers) -/

/-- `ioReadSeeker_refines` (adapter core).  `bitio.NewIOReadSeeker(r)` over ANY bit source that is byte regular
    (`RegSrc`: denotes whole bytes; a ReadBits of 8·m bits at a byte aligned position returns a multiple of 8 bits;
    SeekBits(8·o, w) lands on start/current/end + 8·o or is rejected leaving the cursor alone) is an io.ReadSeeker
    over the zero padded packing of the bits: in every reachable state (`IOSeekAt`: bit buffer empty, source at bit
    8·j; NOTHING is assumed about `sPos`) Read(p) answers 1..len(p) bytes of `bitsToBytesPadR D` at byte j (EOF at /
    beyond the end, never together with data) and Seek(o, start|current|end) reports and reaches exactly the
    target byte, rejected exactly when the source rejects the bit target 8·T (policy `bytePolOf p`).
    The three parts of the side condition are each NECESSARY: see the three witnesses below. -/
theorem ioReadSeeker_refines (d : Nat) (p : SeekPol) (D : Bits) (I : Rd → Nat → Prop) (hsrc : RegSrc p (step d) D I) :
    ByteOKP (bytePolOf p) (step (d + 1)) (bitsToBytesPadR D) (IOSeekAt D I) := by
  rw [← packR_eq_bitsToBytesPadR]; exact ioReadSeeker_byteOKP d p D I hsrc

/-- … hence EVERY history of io.ReadFull / Seek(start|current|end) on it is the byte cursor over `bitsToBytesPadR D` -/
theorem ioReadSeeker_history (d : Nat) (p : SeekPol) (D : Bits) (I : Rd → Nat → Prop) (hsrc : RegSrc p (step d) D I)
    (s : Rd) (j : Nat) (hs : IOSeekAt D I s j) (ops : List BOp) :
    runBytes (d + 1) s ops = runByteSpecP (bytePolOf p) (bitsToBytesPadR D) j ops :=
  runBytes_specP (d + 1) _ _ _ (ioReadSeeker_refines d p D I hsrc) ops s j hs

/-- `adapter_history_refines`: EVERY history of ReadBitsAt / ReadBits / SeekBits(start|current|end) / clone on
    `NewIOBitReadSeeker(NewIOReadSeeker(r))`, r byte regular, makes the observations of the specification machine
    of `open_stack_refines` over the byte string `bitsToBytesPadR (den r)` (with the seek policy of r): the two
    adapters and r's own reads, short reads and buffering are invisible -/
theorem adapter_history_refines (d : Nat) (p : SeekPol) (D : Bits) (I : Rd → Nat → Prop) (hsrc : RegSrc p (step d) D I)
    (b : Rd) (j : Nat) (hb : IOSeekAt D I b j) (bp : Int) (buf : List UInt8) (ops : List HOp) :
    runH (d + 2) (.ioBits b bp buf) ops = runBitsSpecFromP (bytePolOf p) (bitsToBytesPadR D) (bp, buf) ops :=
  ioBits_run_specP (d + 1) _ _ _ (ioReadSeeker_refines d p D I hsrc) ops b j bp buf hb

/-- with the policy of bytes.Reader the policy machine IS the machine of `open_stack_refines` -/
theorem spec_machine_std (data : List UInt8) (ops : List HOp) (st : Int × List UInt8) :
    runBitsSpecFromP stdPol data st ops = runBitsSpecFrom data st ops :=
  runBitsSpecFromP_std data ops st

/-- the instance fq builds: a SectionReader of a whole number of bytes (any bit offset `base`) of an
    IOBitReadSeeker over any io.ReadSeeker that accepts non-negative seeks — NewBitReader(buf, -1), a
    `bitiox.Range` / `d.BitBufRange` of 8·k bits of a file — is byte regular: reads are exact there -/
theorem section_byte_regular (d : Nat) (q : SeekPol) (hq : AcceptsNonneg q) (data : List UInt8) (I : Rd → Nat → Prop)
    (hok : ByteOKP q (step d) data I) (base L : Nat) (hL8 : L % 8 = 0) (hfit : base + L ≤ 8 * data.length) :
    RegSrc sectPol (step (d + 2)) (slice (bytesToBits data) base L) (SectOver (IOBitsOver I) base L) :=
  regSrc_sect_ioBits d q hq data I hok base L hL8 hfit

/-- `adapter_tower_refines` (arbitrary depth, by induction over the levels).  Over any well-formed byte stack b0
    (bytes.Reader, file, the ahead/progress/ctx stack of interp._open) standing at 0, the tower
    IOReadSeeker(Section(IOBitReadSeeker(IOReadSeeker(Section(IOBitReadSeeker(… b0 …)))))) of ANY number of levels
    (each section a whole number of bytes inside the bits below, at any bit offset) is an io.ReadSeeker over
    `towerData` — level by level the zero padded packing of the section of the bits below —: every byte history
    on it is the byte cursor, and every bit history on an IOBitReadSeeker on top of it is the specification machine. -/
theorem adapter_tower_refines (d0 : Nat) (data : List UInt8) (b0 : Rd) (h0 : ByteAt d0 data b0 0) (ls : List Level)
    (hfit : towerFits data ls) :
    (∀ bops : List BOp, runBytes (d0 + 3 * ls.length) (towerInit b0 ls) bops =
        runByteSpecP (towerPol ls) (towerData data ls) 0 bops) ∧
    (∀ ops : List HOp, runH (d0 + 3 * ls.length + 1) (newIOBits (towerInit b0 ls)) ops =
        runBitsSpecFromP (towerPol ls) (towerData data ls) (0, []) ops) := by
  have hok := tower_byteOKP d0 (ByteAt d0 data) data (byteOK_wf d0 data) ls hfit
  have hat := towerInit_at (ByteAt d0 data) data b0 h0 ls
  exact ⟨fun bops => runBytes_specP _ _ _ _ hok bops _ 0 hat, fun ops => ioBits_run_specP _ _ _ _ hok ops _ 0 0 [] hat⟩

/-- what a tower delivers: one level over the whole buffer is the buffer again; in general the top level is the
    zero padded packing of its section of the bits of the tower below -/
theorem tower_data (data : List UInt8) (l : Level) (ls : List Level) :
    towerData data [⟨0, 8 * data.length⟩] = data ∧
    towerData data (l :: ls) = bitsToBytesPadR (slice (bytesToBits (towerData data ls)) l.base l.len) :=
  ⟨towerData_whole data, by simp only [towerData, packR_eq_bitsToBytesPadR]⟩

/-- non-vacuity: a two-level tower over 5 bytes (24 bits at bit offset 4, of which the first 16 bits), a bit history on
    top and a byte history on the tower itself, incl. a rejected and a beyond-the-end seek -/
example :
    towerFits [0x12, 0x34, 0x56, 0x78, 0x9a] [⟨0, 16⟩, ⟨4, 24⟩] ∧ ByteAt 1 [0x12, 0x34, 0x56, 0x78, 0x9a] (.raw [0x12, 0x34, 0x56, 0x78, 0x9a] 0 false) 0 ∧
    towerData [0x12, 0x34, 0x56, 0x78, 0x9a] [⟨0, 16⟩, ⟨4, 24⟩] = [0x23, 0x45] ∧
    (runH 8 (newIOBits (towerInit (.raw [0x12, 0x34, 0x56, 0x78, 0x9a] 0 false) [⟨0, 16⟩, ⟨4, 24⟩]))
        [.read 3, .seek 2 .current, .read 8, .seek (-5) .end_, .readAt 20 3, .seek (-8) .start]).map
      (fun x => match x.2 with | .ok res => (res.n, res.bits.length, res.err) | _ => (-1, 0, none))
      = [(3, 3, none), (5, 0, none), (8, 8, none), (11, 0, none), (13, 13, some .eof), (0, 0, some .offset)] := by
  refine ⟨⟨⟨trivial, by decide, by decide⟩, by decide, by decide⟩, ⟨by simp [ByteWF], rfl, rfl⟩, by decide, by decide⟩

/-- the side condition of `ioReadSeeker_refines` is necessary, 1 (`len8`; the recorded instance of the known finding
    `ioreadseeker-unaligned-seek`): over a 13 bit source Seek(-1, end) reports byte 0 instead of 1 and the next Read
    delivers bits 5..12 (0x46) instead of byte 1 of the zero padded view (0x30) -/
theorem ioReadSeeker_unaligned_len_witness :
    (runBytes 5 (.ioBytes (newBitReader [0x12, 0x34, 0x56] (some 13)) true none {} 0) [.seek (-1) .end_, .readFull 1]
      = [ok (0, [], none), ok (1, [0x46], none)]) ∧
    (runByteSpecP (bytePolOf sectPol) (bitsToBytesPadR (den (newBitReader [0x12, 0x34, 0x56] (some 13)))) 0
        [.seek (-1) .end_, .readFull 1] = [ok (1, [], none), ok (1, [0x30], none)]) := by
  rw [← packR_eq_bitsToBytesPadR]; decide

/-- … 2 (`read`: short reads that are not multiples of 8 bits, the total length being 2 whole bytes): over
    NewMultiReader(5 bits, 11 bits) Read(1); Seek(0, current) reports byte 1 correctly but drops the 5 buffered bits:
    the next Read delivers bits 13..15 zero padded (0xe0) instead of byte 1 (0x6f) -/
theorem ioReadSeeker_short_read_witness :
    ∃ m, newMulti [newBitReader [0xab] (some 5), newBitReader [0xcd, 0xe0] (some 11)] = ok m ∧ (den m).length = 16 ∧
      runBytes 6 (.ioBytes m true none {} 0) [.readFull 1, .seek 0 .current, .readFull 1]
        = [ok (1, [0xae], none), ok (1, [], none), ok (1, [0xe0], none)] ∧
      runByteSpecP (bytePolOf (multiPol 16)) (bitsToBytesPadR (den m)) 0 [.readFull 1, .seek 0 .current, .readFull 1]
        = [ok (1, [0xae], none), ok (1, [], none), ok (1, [0x6f], none)] := by
  refine ⟨_, rfl, by decide, by decide, ?_⟩
  rw [← packR_eq_bitsToBytesPadR]; decide

/-- … 3 (the comparison of a bit position with a byte position, ioreadseeker.go:30, also bites a seek from START):
    over NewMultiReader(5 bits, 67 bits) (9 whole bytes) eight Read(1) leave 5 bits buffered and sPos = 8;
    Seek(1, start) yields bit position 8 = sPos, so the buffer is NOT dropped and the next Read delivers the 5 stale
    bits followed by bits 8..10 (0x40) instead of byte 1 (0x08) -/
theorem ioReadSeeker_stale_buffer_witness :
    ∃ m, newMulti [newBitReader [0xab] (some 5), newBitReader [1, 2, 3, 4, 5, 6, 7, 8, 9] (some 67)] = ok m ∧
      (runBytes 6 (.ioBytes m true none {} 0) [.readFull 1, .readFull 1, .readFull 1, .readFull 1, .readFull 1,
          .readFull 1, .readFull 1, .readFull 1, .seek 1 .start, .readFull 1]).drop 8 = [ok (1, [], none), ok (1, [0x40], none)] ∧
      (runByteSpecP (bytePolOf (multiPol 72)) (bitsToBytesPadR (den m)) 0 [.readFull 1, .readFull 1, .readFull 1,
          .readFull 1, .readFull 1, .readFull 1, .readFull 1, .readFull 1, .seek 1 .start, .readFull 1]).drop 8
        = [ok (1, [], none), ok (1, [0x08], none)] := by
  refine ⟨_, rfl, by decide, ?_⟩
  rw [← packR_eq_bitsToBytesPadR]; decide

/-- IOBitWriter → bytes → IOBitReadSeeker round trip: every history on NewIOBitReadSeeker(bytes.NewReader(w)), w the
    bytes an IOBitWriter wrote for the bits X (`ioBitWriter_flush`), is the specification machine over
    `bitsToBytesPadR X`, whose bits are X followed by the zero padding (so reads inside X return X's bits) -/
theorem writer_ioBits_roundtrip (X : Bits) (ops : List HOp) :
    runH depthFuel (newIOBits (.raw (bitsToBytesPadR X) 0 false)) ops = runBitsSpec (bitsToBytesPadR X) ops ∧
    bytesToBits (bitsToBytesPadR X) = X ++ List.replicate (padTo8 X.length) false :=
  ⟨plain_refines' _ ops, by rw [← packR_eq_bitsToBytesPadR]; exact bytesToBits_packR X⟩

/-! ### ill-fitting sections (round 6, after the missed seeded change S6-C01-1)

  `NewSectionReader(r, bitOff, nBits)` checks nothing, so the window may overhang the reader below it.  The old
  theorems assumed `limit ≤ (den r).length` at every section (`WFd`); the theorems below drop that hypothesis. -/

/-- the old well-formedness is a special case of the new one -/
theorem wfd_implies_wfo (d : Nat) (r : Rd) (h : WFd d r) : WFo d r := wfd_wfo d r h

/-- `readBitsAt_sound` WITHOUT the hypothesis that sections fit: for every nest (any depth) of sections with ANY
    windows over a byte stack / zero reader / well-formed MultiReader, ReadBitsAt(p, n, off) succeeds and returns exactly
    bits [off, off+k) of `den r` — where `den (.sect r base _ limit) = slice (den r) base (limit - base)` CLAMPS at
    the end of `den r` — never a bit beyond that end, EOF exactly at / beyond it; and the reader left is of the same kind -/
theorem readBitsAt_sound_overhang (d : Nat) (r : Rd) (h : WFo d r) (n off : Nat) :
    ∃ r' res, step d r (.readAt n (off : Int)) = ok (r', res) ∧ SoundAtO (den r) off n res ∧ WFo d r' ∧ den r' = den r :=
  readAt_soundO' d r h n off

/-- `section_overhang_clamped`.  For EVERY reader r as above (any nesting, any overhang below) and EVERY window
    (off, n) — inside r, reaching past its end by bits or bytes, starting at or beyond its end, empty — the section
    NewSectionReader(r, off, n) is again such a reader, stands for `slice (den r) off n` (clamped at the end of r's
    bits), and every ReadBitsAt(p, k, pos) on it returns exactly bits [pos, pos+j) of that clamped slice:
    in terms of r, bits [off+pos, off+pos+j) of `den r` with off+pos+j ≤ |den r| — never a bit that is not part of
    r's logical content, whatever lies below r. -/
theorem section_overhang_clamped (d : Nat) (r : Rd) (h : WFo d r) (off n : Nat) (k pos : Nat) :
    WFo (d + 1) (newSect r off n) ∧ den (newSect r off n) = slice (den r) off n ∧
    ∃ r' res, step (d + 1) (newSect r off n) (.readAt k (pos : Int)) = ok (r', res) ∧
      SoundAtO (slice (den r) off n) pos k res ∧
      res.bits = slice (den r) (off + pos) res.bits.length ∧
      (off + pos + res.bits.length ≤ (den r).length ∨ res.bits = []) ∧
      WFo (d + 1) r' ∧ den r' = slice (den r) off n := by
  have hw : WFo (d + 1) (newSect r off n) := by
    simp only [newSect, WFo]; exact ⟨h, Nat.le_refl _, Nat.le_add_right _ _⟩
  have hd : den (newSect r off n) = slice (den r) off n := by
    simp only [newSect, den_sect]; congr 1; omega
  refine ⟨hw, hd, ?_⟩
  obtain ⟨r', res, h1, h2, h3, h4⟩ := readAt_soundO' (d + 1) _ hw k pos
  rw [hd] at h2 h4
  refine ⟨r', res, h1, h2, ?_, ?_, h3, h4⟩
  · have hb := h2.bits
    rcases h2.inb with hi | hi
    · rw [slice_len_min] at hi
      rw [slice_slice _ _ _ _ _ (by omega)] at hb; exact hb
    · rw [hi]; simp [slice_zero_len]
  · rcases h2.inb with hi | hi
    · rw [slice_len_min] at hi
      by_cases hz : res.bits.length = 0
      · right; exact List.eq_nil_of_length_eq_zero hz
      · left; omega
    · right; exact hi

/-- ReadBits on such a section (the section's own cursor `o - base`, moved by accepted seeks and earlier reads):
    the same, and the cursor advances by exactly the bits returned -/
theorem section_overhang_readBits (d : Nat) (r : Rd) (base o limit : Nat) (h : WFo (d + 1) (.sect r base o limit)) (n : Nat) :
    ∃ r' res, step (d + 1) (.sect r base o limit) (.read n) = ok (.sect r' base (o + res.bits.length) limit, res) ∧
      SoundAtO (slice (den r) base (limit - base)) (o - base) n res ∧
      WFo (d + 1) (.sect r' base (o + res.bits.length) limit) ∧ den r' = den r :=
  read_soundO' d r base o limit h n

/-- bitio.NewBitReader(data, nBits) for EVERY nBits ≥ 0 or -1 — also nBits > 8·len(data), a section overhanging the
    buffer — is such a reader and stands for the first min(nBits, 8·len) bits -/
theorem newBitReader_overhang (data : List UInt8) (nBits : Option Nat) (d : Nat) :
    WFo (d + 3) (newBitReader data nBits) ∧
      den (newBitReader data nBits) = (bytesToBits data).take (nBits.getD (data.length * 8)) :=
  ⟨by simp [newBitReader, newSect, newIOBits, WFo, ByteWF], den_newBitReader data nBits⟩

/-- non-vacuity: sections of `exMulti` (24 bits) that overhang it by bits, start at its end, start beyond it, and a
    section overhanging an overhanging section of a 12-bit NewBitReader over 3 bytes -/
example : WFo 8 (newSect exMulti 10 100) ∧ WFo 8 (newSect exMulti 24 8) ∧ WFo 8 (newSect exMulti 30 0) ∧
    WFo 8 (newSect (newSect (newBitReader [0x45, 0x67, 0x8f] (some 12)) 4 16) 2 100) := by
  simp [WFo, WFd, exMulti, newSect, newBitReader, newIOBits, den, denList, denBy, cumEnds, slice, bytesToBits,
    byteToBits, toBitsBE, ByteWF]

/-- the code as it is: NewSectionReader(NewBitReader(3 bytes, 12 bits), 0, 16) stands for the 12 bits, a read of 20
    bits returns 12 bits; a sub-section at 8 reaching 100 bits further returns the 4 bits 8..11 and then EOF -/
example :
    (match step 8 (newSect (newBitReader [0x45, 0x67, 0x8f] (some 12)) 0 16) (.readAt 20 0) with
      | .ok (_, res) => (res.n, packR res.bits, res.err) | _ => (0, [], none)) = (12, [0x45, 0x60], none) ∧
    (match step 8 (newSect (newSect (newBitReader [0x45, 0x67, 0x8f] (some 12)) 0 16) 8 100) (.readAt 20 0) with
      | .ok (_, res) => (res.n, packR res.bits, res.err) | _ => (0, [], none)) = (4, [0x60], none) ∧
    (match step 8 (newSect (newSect (newBitReader [0x45, 0x67, 0x8f] (some 12)) 0 16) 8 100) (.readAt 20 4) with
      | .ok (_, res) => (res.n, packR res.bits, res.err) | _ => (0, [], none)) = (0, [], some .eof) := by
  decide

/-- the seeded variant S6-C01-1 (`newSectCollapsed`: a section of a section built on the parent's underlying reader,
    the parent's bitLimit forgotten) violates `section_overhang_clamped`: over NewBitReader(0x45 0x67 0x8f, 12 bits)
    the section (0, 16) returns 16 bits — 4 bits of the buffer that are not part of the 12-bit reader — and the
    oversize sub-section of bytes 1..2 of a 4-byte buffer returns byte 3 -/
theorem collapse_leaks_witness :
    (den (newBitReader [0x45, 0x67, 0x8f] (some 12))).length = 12 ∧
    (match step 8 (newSectCollapsed (newBitReader [0x45, 0x67, 0x8f] (some 12)) 0 16) (.readAt 20 0) with
      | .ok (_, res) => (res.n, packR res.bits, res.err) | _ => (0, [], none)) = (16, [0x45, 0x67], none) ∧
    (match step 8 (newSectCollapsed (newSect (newBitReader [1, 2, 3, 4] none) 8 16) 8 100) (.readAt 16 0) with
      | .ok (_, res) => (res.n, packR res.bits, res.err) | _ => (0, [], none)) = (16, [3, 4], none) ∧
    (match step 8 (newSect (newSect (newBitReader [1, 2, 3, 4] none) 8 16) 8 100) (.readAt 16 0) with
      | .ok (_, res) => (res.n, packR res.bits, res.err) | _ => (0, [], none)) = (8, [3], none) := by
  decide

end Props.C01
