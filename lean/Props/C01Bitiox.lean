import FqModel.C01Bitiox
import Proofs.C01Bitiox
/-!
  C01 — internal/bitiox/bitiox.go: Len, Range, CopyBits / CopyBitsBuffer (the helpers through which fq takes
  sub-ranges of its readers and turns bits into bytes: decode ranges, Binary.toBytesBuffer, tobytes, hashes, dump).
  Model: FqModel/C01Bitiox.lean (transliteration); helper lemmas: Proofs/C01Bitiox.lean.
  "well-formed reader" = `WFd d r`: any nesting (depth ≤ d) of SectionReader inside its source, MultiReader,
  ZeroReadAtSeeker, IOBitReadSeeker over a bytes.Reader / file directly or through the ahead / progress / ctx stack.
-/
namespace Props.C01
open FqModel FqModel.Bitio Outcome Proofs.C01

/-! ### Len -/

/-- bitiox.Len(br) on EVERY well-formed reader — whatever its cursor, also a SectionReader cursor beyond the end —
    returns exactly the number of denoted bits and no error (none of its three SeekBits is rejected); the reader
    left behind has the same cursor, the same bits, is well formed and of the same kind; for a section / multi /
    zero reader the state is restored EXACTLY (for an IOBitReadSeeker the underlying io.ReadSeeker is left at byte
    bitPos/8, which no later call relies upon). -/
theorem len_spec (d : Nat) (r : Rd) (h : WFd d r) :
    ∃ r', bxLen (step d) r = ok (r', { n := ((den r).length : Int) }) ∧ posOf r' = posOf r ∧ den r' = den r ∧ WFd d r' ∧
      topSM r' = topSM r ∧ isReader r' = isReader r ∧ ((topSM r = true ∨ ∃ p n, r = .zero p n) → r' = r) :=
  bxLen_spec d r h

/-- a small reader for the non-vacuity examples: NewMultiReader(13 bits of a buffer, 3 zero bits, a buffer), and a
    section [10, 22) of it whose cursor was moved to 7 -/
def bxM : Rd := .multi [newBitReader [0xab, 0xcd] (some 13), .zero 0 3, newBitReader [0x12] none] [13, 16, 24] 0
def bxS : Rd := .sect bxM 10 17 22

theorem bxS_wf : WFd 8 bxS ∧ isReader bxS = true ∧ posOf bxS = 7 := by
  simp [WFd, bxS, bxM, newSect, newBitReader, newIOBits, den, denList, denBy, cumEnds, slice, bytesToBits,
    byteToBits, toBitsBE, isReader, ByteWF, posOf]

/-- non-vacuity of `len_spec`: Len of the section is 12, its cursor is still 7; Len of an IOBitReadSeeker standing
    at bit 13 of 3 bytes is 24, cursor still 13; Len of a section whose cursor stands BEYOND its end (30 > 12) -/
example :
    (match bxLen (step 8) bxS with | .ok (r', res) => (res.n, res.err, posOf r') | _ => (-1, none, 0)) = (12, none, 7) ∧
    (match bxLen (step 8) (.ioBits (.raw [1, 2, 3] 0 false) 13 []) with
      | .ok (r', res) => (res.n, res.err, posOf r') | _ => (-1, none, 0)) = (24, none, 13) ∧
    (match bxLen (step 8) (.sect bxM 10 40 22) with
      | .ok (r', res) => (res.n, res.err, posOf r') | _ => (-1, none, 0)) = (12, none, 30) := by
  decide

/-! ### Range -/

/-- `range_spec`.  bitiox.Range(br, off, n) with 0 ≤ off, 0 ≤ n on EVERY well-formed reader br:
    if off + n ≤ len it succeeds and returns a SectionReader `s` over the argument object that is well formed (one
    level deeper), stands at 0, has a SectionReader on top and denotes exactly bits [off, off+n) of br; the argument
    keeps its cursor and its bits.  So everything proved about well-formed readers (`readBitsAt_sound`,
    `readBits_sound`, `readAtFull_exact`, `history_refines`, `ioReader_bytes` … of Props/C01.lean) applies to `s`. -/
theorem range_spec (d : Nat) (r : Rd) (h : WFd d r) (off n : Nat) (hin : off + n ≤ (den r).length) :
    ∃ r', bxRange (step d) r (off : Int) (n : Int) = ok (r', .ok (newSect r' off n), 0) ∧
      posOf r' = posOf r ∧ den r' = den r ∧ WFd d r' ∧ ((topSM r = true ∨ ∃ p k, r = .zero p k) → r' = r) ∧
      WFd (d + 1) (newSect r' off n) ∧ den (newSect r' off n) = slice (den r) off n ∧
      posOf (newSect r' off n) = 0 ∧ topSM (newSect r' off n) = true ∧ isReader (newSect r' off n) = true := by
  obtain ⟨r', h1, h2, h3, _, _, h6, h7, _, _, _⟩ := bxRange_spec d r h
  obtain ⟨w1, w2, w3, w4, w5⟩ := newSect_wf d r' h3 off n (by rw [h2]; exact hin)
  exact ⟨r', h7 off n hin, h1, h2, h3, h6, w1, by rw [w2, h2], w3, w4, w5⟩

/-- corollary: EVERY history of ReadBitsAt / ReadBits / SeekBits / clone operations on the reader Range returned is
    a cursor, starting at 0, over `slice (den br) off n` — no Go panic, no hang, never a bit outside the range -/
theorem range_history (d : Nat) (r : Rd) (h : WFd d r) (off n : Nat) (hin : off + n ≤ (den r).length) (ops : List HOp) :
    ∃ r', bxRange (step d) r (off : Int) (n : Int) = ok (r', .ok (newSect r' off n), 0) ∧
      HistOK (slice (den r) off n) 0 (runH (d + 1) (newSect r' off n) ops) := by
  obtain ⟨r', e, _, _, _, _, w1, w2, w3, w4, _⟩ := range_spec d r h off n hin
  refine ⟨r', e, ?_⟩
  have := history_refines' (d + 1) _ ops (newSect r' off n) ⟨w1, rfl, w4⟩
  rwa [w2, w3] at this

/-- off + n > len (off, n ≥ 0): "outside buffer", no reader; the argument keeps cursor and bits -/
theorem range_outside (d : Nat) (r : Rd) (h : WFd d r) (off n : Nat) (hout : (den r).length < off + n) :
    ∃ r', bxRange (step d) r (off : Int) (n : Int) = ok (r', .outsideBuffer, 0) ∧
      posOf r' = posOf r ∧ den r' = den r ∧ WFd d r' := by
  obtain ⟨r', h1, h2, h3, _, _, _, _, h8, _, _⟩ := bxRange_spec d r h
  exact ⟨r', h8 off n hout, h1, h2, h3⟩

/-- n < 0 (any offset): "negative nBits" -/
theorem range_negative_nbits (d : Nat) (r : Rd) (h : WFd d r) (off n : Int) (hn : n < 0) :
    ∃ r', bxRange (step d) r off n = ok (r', .negativeNBits, 0) ∧ posOf r' = posOf r ∧ den r' = den r ∧ WFd d r' := by
  obtain ⟨r', h1, h2, h3, _, _, _, _, _, h9, _⟩ := bxRange_spec d r h
  exact ⟨r', h9 off n hn, h1, h2, h3⟩

/-- `range_range`: a Range of a Range denotes `slice (den br) (off1 + off2) n2` (composition law), and is again
    well formed -/
theorem range_range (d : Nat) (r : Rd) (h : WFd d r) (off1 n1 off2 n2 : Nat) (h1 : off1 + n1 ≤ (den r).length)
    (h2 : off2 + n2 ≤ n1) :
    ∃ r', bxRange (step d) r (off1 : Int) (n1 : Int) = ok (r', .ok (newSect r' off1 n1), 0) ∧
      bxRange (step (d + 1)) (newSect r' off1 n1) (off2 : Int) (n2 : Int)
        = ok (newSect r' off1 n1, .ok (newSect (newSect r' off1 n1) off2 n2), 0) ∧
      WFd (d + 2) (newSect (newSect r' off1 n1) off2 n2) ∧
      den (newSect (newSect r' off1 n1) off2 n2) = slice (den r) (off1 + off2) n2 := by
  obtain ⟨r', e, _, _, _, _, w1, w2, _, w4, _⟩ := range_spec d r h off1 n1 h1
  have hl : (den (newSect r' off1 n1)).length = n1 := by rw [w2]; exact slice_length _ _ _ h1
  obtain ⟨s', e2, _, _, _, heq, v1, v2, _, _, _⟩ := range_spec (d + 1) (newSect r' off1 n1) w1 off2 n2 (by omega)
  have hs : s' = newSect r' off1 n1 := heq (Or.inl w4)
  subst hs
  exact ⟨r', e, e2, v1, by rw [v2, w2, slice_slice _ _ _ _ _ h2]⟩

/-- QUIRK (bitiox.go:41-47): firstBitOffset is not checked for < 0.  A negative offset with off + n ≤ len, n ≥ 0 is
    ACCEPTED on every well-formed reader: Range returns NewSectionReader(br, off, n) with a negative bitBase (a
    reader whose reads at 0 ≤ o < n are forwarded to br at the negative offset off + o) instead of an error. -/
theorem range_negative_offset_accepted (d : Nat) (r : Rd) (h : WFd d r) (off n : Int) (ho : off < 0) (hn : 0 ≤ n)
    (hin : off + n ≤ (den r).length) :
    ∃ r', bxRange (step d) r off n = ok (r', .okNegBase off n.toNat, 0) := by
  obtain ⟨r', _, _, _, _, _, _, _, _, _, h10⟩ := bxRange_spec d r h
  exact ⟨r', h10 off n ho hn hin⟩

/-- … witness: Range(section of 12 bits, -3, 8) -/
theorem range_negative_offset_witness :
    (match bxRange (step 8) bxS (-3) 8 with | .ok (_, .okNegBase o n, _) => some (o, n) | _ => none) = some (-3, 8) := by
  decide

/-- non-vacuity of `range_spec` / `range_outside` / `range_negative_nbits` / `range_range` on `bxS` (12 bits, cursor 7):
    Range(3, 5) denotes bits [3, 8) and the argument still stands at 7; Range(3, 10) is outside; Range(12, 0) is the
    empty range at the end; Range(3, -1) is negative; Range(2, 3) of Range(3, 5) denotes bits [5, 8) -/
example :
    den bxS = [false, false, true, false, false, false, false, false, false, true, false, false] ∧
    (match bxRange (step 8) bxS 3 5 with
      | .ok (r', .ok s, q) => some (den s, posOf s, posOf r', q) | _ => none)
      = some ([false, false, false, false, false], 0, 7, 0) ∧
    (match bxRange (step 8) bxS 3 10 with | .ok (r', .outsideBuffer, _) => some (posOf r') | _ => none) = some 7 ∧
    (match bxRange (step 8) bxS 12 0 with | .ok (_, .ok s, _) => some (den s) | _ => none) = some [] ∧
    (match bxRange (step 8) bxS 3 (-1) with | .ok (r', .negativeNBits, _) => some (posOf r') | _ => none) = some 7 ∧
    (match bxRange (step 8) bxS 3 5 with
      | .ok (_, .ok s, _) => (match bxRange (step 9) s 2 3 with | .ok (_, .ok s2, _) => some (den s2) | _ => none)
      | _ => none) = some [false, false, false] := by
  decide

/-! ### CopyBits / CopyBitsBuffer -/

/-- `copyBits_spec`.  bitiox.CopyBitsBuffer(dst, src, buf) = io.CopyBuffer(dst, bitio.NewIOReader(src), buf) into a
    plain io.Writer that accepts every Write, for EVERY well-formed bit reader src standing at 0 (any nesting, any
    — also unaligned — length) and EVERY buffer length > 0 (`some k`) or nil (`none` = 32 KiB; bitiox.CopyBits):
    the bytes written are exactly `bitsToBytesPadR (den src)` (the bits, the last partial byte zero padded), the
    returned count is their number, the error is nil; no Go panic and no endless loop (`fuel` = any number of loop
    rounds above the byte count: the loop leaves before it is used up). -/
theorem copyBits_spec (d : Nat) (r : Rd) (hr : WFAt d (den r) r 0) (buf : Option Nat) (hb : buf ≠ some 0) (fuel : Nat)
    (hf : bitsByteCount (den r).length < fuel) :
    ∃ s res, copyBitsBuffer (d + 1) r buf fuel = ok (s, res) ∧ res.bytes = bitsToBytesPadR (den r) ∧
      res.n = ((bitsToBytesPadR (den r)).length : Int) ∧ res.err = none := by
  unfold copyBitsBuffer
  rw [if_neg hb]
  apply copy_sizes_spec d r hr
  · intro n hn
    simp only [copySizes, List.mem_replicate] at hn
    obtain ⟨_, rfl⟩ := hn
    cases buf with
    | none => simp
    | some k => simp only [Option.getD_some]; exact Nat.pos_of_ne_zero (fun h0 => hb (by rw [h0]))
  · simp only [copySizes, List.length_replicate]; exact hf

/-- the same when dst has a ReadFrom method (*bytes.Buffer: io.copyBuffer hands the loop over to
    bytes.Buffer.ReadFrom, which reads into whatever spare capacity ≥ 512 its buffer has): for EVERY sequence of
    positive Read sizes (longer than the byte count) the result is the same -/
theorem copyBits_readFrom_spec (d : Nat) (r : Rd) (hr : WFAt d (den r) r 0) (buf : Option Nat) (hb : buf ≠ some 0)
    (sizes : List Nat) (hpos : ∀ n ∈ sizes, 0 < n) (hl : bitsByteCount (den r).length < sizes.length) :
    ∃ s res, copyBitsReadFrom (d + 1) r buf sizes = ok (s, res) ∧ res.bytes = bitsToBytesPadR (den r) ∧
      res.n = ((bitsToBytesPadR (den r)).length : Int) ∧ res.err = none := by
  unfold copyBitsReadFrom
  rw [if_neg hb]
  exact copy_sizes_spec d r hr sizes hpos hl

/-- io.CopyBuffer's panic on a non-nil empty buffer is reachable through CopyBitsBuffer (no fq call site passes one) -/
theorem copyBitsBuffer_empty_buffer_witness (d : Nat) (r : Rd) (fuel : Nat) :
    copyBitsBuffer d r (some 0) fuel = fault "empty buffer in CopyBuffer" := by
  simp [copyBitsBuffer]

/-- `tobytes_spec` (Binary.toBytesBuffer, pkg/interp/binary.go:326-336: Range, then CopyBits into a bytes.Buffer;
    likewise decode.go:615-625): the bytes are `bitsToBytesPadR (slice (den br) off n)` -/
theorem tobytes_spec (d : Nat) (r : Rd) (h : WFd d r) (off n : Nat) (hin : off + n ≤ (den r).length)
    (sizes : List Nat) (hpos : ∀ k ∈ sizes, 0 < k) (hl : bitsByteCount n < sizes.length) :
    ∃ r' s res, bxRange (step d) r (off : Int) (n : Int) = ok (r', .ok (newSect r' off n), 0) ∧
      copyBitsReadFrom (d + 2) (newSect r' off n) none sizes = ok (s, res) ∧
      res.bytes = bitsToBytesPadR (slice (den r) off n) ∧
      res.n = ((bitsToBytesPadR (slice (den r) off n)).length : Int) ∧ res.err = none := by
  obtain ⟨r', e, _, _, _, _, w1, w2, w3, _, w5⟩ := range_spec d r h off n hin
  have hlen : (den (newSect r' off n)).length = n := by rw [w2]; exact slice_length _ _ _ hin
  obtain ⟨s, res, e2, b, c, er⟩ := copyBits_readFrom_spec (d + 1) (newSect r' off n) ⟨w1, w5, rfl, w3⟩ none (by simp)
    sizes hpos (by rw [hlen]; exact hl)
  exact ⟨r', s, res, e, e2, by rw [b, w2], by rw [c, w2], er⟩

/-- non-vacuity of `copyBits_spec` / `copyBits_readFrom_spec` / `tobytes_spec`: the 12 bits 0010 0000 0100 of the
    section (clone of `bxS`, standing at 0) through buffers of 1 byte, nil, and ReadFrom sizes 512, 1024, …: 0x20 0x40;
    Range(3, 5) then CopyBits: 00000 → one byte 0x00; an unaligned 13-bit buffer reader: 0xab 0xc8 -/
example :
    WFAt 8 (den (newSect bxM 10 12)) (newSect bxM 10 12) 0 ∧
    (match copyBitsBuffer 9 (newSect bxM 10 12) (some 1) 4 with
      | .ok (_, res) => some (res.bytes, res.n, res.err) | _ => none) = some ([0x20, 0x40], 2, none) ∧
    (match copyBits 9 (newSect bxM 10 12) 4 with
      | .ok (_, res) => some (res.bytes, res.n, res.err) | _ => none) = some ([0x20, 0x40], 2, none) ∧
    (match copyBitsReadFrom 9 (newSect bxM 10 12) none [512, 1024, 2048] with
      | .ok (_, res) => some (res.bytes, res.n, res.err) | _ => none) = some ([0x20, 0x40], 2, none) ∧
    (match bxRange (step 8) bxS 3 5 with
      | .ok (_, .ok s, _) => (match copyBitsReadFrom 10 s none [512, 512] with
          | .ok (_, res) => some (res.bytes, res.n, res.err) | _ => none)
      | _ => none) = some ([0x00], 1, none) ∧
    (match copyBitsBuffer 4 (newBitReader [0xab, 0xcd] (some 13)) (some 7) 3 with
      | .ok (_, res) => some (res.bytes, res.n, res.err) | _ => none) = some ([0xab, 0xc8], 2, none) := by
  refine ⟨⟨?_, rfl, rfl, rfl⟩, by decide, by decide, by decide, by decide, by decide⟩
  simp [WFd, bxM, newSect, newBitReader, newIOBits, den, denList, denBy, cumEnds, slice, bytesToBits,
    byteToBits, toBitsBE, ByteWF]

end Props.C01
