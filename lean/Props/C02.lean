import FqModel.Scalar
import FqModel.C02Call
import FqModel.Gen.DecodeGen
import Proofs.C02Int
import Proofs.C02Rev
import Proofs.C02Le
import Proofs.C02Leb
import Proofs.C02Sleb
import Proofs.C02Misc
import Proofs.C02F16
import Proofs.C02Float
/-!
  C02 — "Scalar readers return the mathematical value of the bits they consume".
  Property theorems about the model FqModel/Scalar.lean (+ the regenerated table of
  decode_gen.go).  Helper lemmas: Proofs/C02*.lean.

  Conventions: `bs` is the whole input (any length, not only whole bytes), `pos` any bit
  position (any alignment), `ofBitsBE (slice bs pos n)` the big-endian value of the n bits at
  pos, `leValue` = Σ byteᵢ·256^i, `signedOf n u` the n-bit two's complement reading of u.

  What the code does on a failed read (modelled, validated by correspondence, and stated in
  `tryU_short`): the error is returned but the position is NOT restored — the reader has moved to
  the end of the input (bitio.ReadFull reads what is left).  The property only requires the error.
-/
namespace Props.C02
open FqModel FqModel.Scalar FqModel.C02 FqModel.Gen.DecodeGen Proofs.C02

/-! ### regenerated fact: decode_gen.go -/

/-- REGENERATED FACT.  Every method of decode_gen.go whose NAME is a reader name (Try/Field/Scalar
    prefixes + U8, S13LE, F64BE, FP32, UBigIntE, ULEB128, UTF16LENull …) either calls the core
    function that the name stands for with the width, endian and encoding that the name stands for,
    or passes its own parameters unchanged to a method of strictly lower layer whose name stands
    for the same core call.  (By induction on the layer rank every reader method therefore ends in
    the right core call; the Go compiler guarantees that the delegation targets exist.) -/
theorem gen_table_ok : genTable.all entryOk = true := by decide +kernel

/-- the table is not vacuous: 2460 of the 2549 methods are readers (the rest are the typed
    Field…Fn / …Assert / …Validate helpers) -/
theorem gen_table_readers : (genTable.filter isReader).length = 2460 ∧ genTable.length = genCount := by
  decide +kernel

/-- what some names stand for (the parser is not vacuous either) -/
theorem parseName_examples :
    parseName [84,114,121,85,50,52,76,69] = some (.try_, .tryUEndian, [.lit 24, .le])            -- TryU24LE
    ∧ parseName [70,105,101,108,100,83,49,51] = some (.field, .trySEndian, [.lit 13, .curEndian])  -- FieldS13
    ∧ parseName [70,80,51,50,66,69] = some (.plain, .tryFPEndian, [.lit 32, .lit 16, .be])         -- FP32BE
    ∧ parseName [84,114,121,70,105,101,108,100,83,99,97,108,97,114,85,84,70,49,54,76,69,78,117,108,108]
        = some (.tryFieldScalar, .tryTextNull, [.lit 2, .enc .utf16le])                            -- TryFieldScalarUTF16LENull
    ∧ parseName [85,105,110,116,65,115,115,101,114,116] = none := by                               -- UintAssert
  decide +kernel

/-! ### unsigned integers -/

/-- big-endian, every width 0..64, every alignment -/
theorem tryU_be (bs : Bits) (pos n : Nat) (hn : n ≤ 64) (h : pos + n ≤ bs.length) :
    tryUEndian bs pos n .be = .ok (ofBitsBE (slice bs pos n)) (pos + n) :=
  tryUEndian_be bs pos n hn h

/-- little-endian at whole-byte widths, every alignment -/
theorem tryU_le (bs : Bits) (pos n : Nat) (hd : 8 ∣ n) (hn : n ≤ 64) (h : pos + n ≤ bs.length) :
    tryUEndian bs pos n .le = .ok (leValue (slice bs pos n)) (pos + n) :=
  tryUEndian_le bs pos n hd hn h

/-- past the end: error, no value.  The position is `max pos len`, NOT `pos` (see the header). -/
theorem tryU_short (bs : Bits) (pos n : Nat) (e : Endian) (h0 : 0 < n) (hn : n ≤ 64) (h : bs.length < pos + n) :
    tryUEndian bs pos n e = .err .eof (max pos bs.length) :=
  tryUEndian_short bs pos n e h0 hn h

/-- the statement "position unchanged on a failed read" is FALSE of the code: 3 bits left, 8 wanted -/
theorem tryU_short_moves :
    tryUEndian [true, false, true, true] 1 8 .be = .err .eof 4 := by decide +kernel

/-- wider than 64 bits: rejected before anything is read -/
theorem tryU_too_wide (bs : Bits) (pos n : Nat) (e : Endian) (hn : 64 < n) :
    tryUEndian bs pos n e = .err .other pos := by
  simp [tryUEndian, tryUintBits, hn, Res.bind]

/-- ReverseBytes64: for k = ⌈n/8⌉ and u < 2^(8k) the k base-256 digits of u are reversed -/
theorem reverseBytes64_spec (n u : Nat) (hn : n ≤ 64) (hu : u < 2 ^ (8 * ((n + 7) / 8))) :
    (reverseBytes64 n (BitVec.ofNat 64 u)).map BitVec.toNat = some (revDigits ((n + 7) / 8) u) :=
  reverseBytes64_digits n u hn hu

/-- … which on a byte string read big-endian is the little-endian value -/
theorem reverseBytes64_le (sl : Bits) (hd : 8 ∣ sl.length) (h64 : sl.length ≤ 64) :
    (reverseBytes64 sl.length (BitVec.ofNat 64 (ofBitsBE sl))).map BitVec.toNat = some (leValue sl) :=
  rev_ofBitsBE sl hd h64

/-! ### signed integers -/

/-- two's complement on the machine word, every width 1..64 (covers −2^63: n = 64, u = 2^63) -/
theorem twosComplement_eq (n u : Nat) (h1 : 1 ≤ n) (hn : n ≤ 64) (hu : u < 2 ^ n) :
    twosComplement n (BitVec.ofNat 64 u) = signedOf n u :=
  twosComplement_spec n u h1 hn hu

theorem tryS_spec (bs : Bits) (pos n : Nat) (e : Endian) (h1 : 1 ≤ n) (hn : n ≤ 64) (u p : Nat)
    (hU : tryUEndian bs pos n e = .ok u p) (hu : u < 2 ^ n) :
    trySEndian bs pos n e = .ok (signedOf n u) p :=
  trySEndian_of_U bs pos n e h1 hn u p hU hu

theorem tryS_be (bs : Bits) (pos n : Nat) (h1 : 1 ≤ n) (hn : n ≤ 64) (h : pos + n ≤ bs.length) :
    trySEndian bs pos n .be = .ok (signedOf n (ofBitsBE (slice bs pos n))) (pos + n) := by
  apply trySEndian_of_U bs pos n .be h1 hn _ _ (tryUEndian_be bs pos n hn h)
  have := ofBitsBE_lt (slice bs pos n)
  rwa [slice_length bs pos n h] at this

theorem tryS_le (bs : Bits) (pos n : Nat) (hd : 8 ∣ n) (h1 : 1 ≤ n) (hn : n ≤ 64) (h : pos + n ≤ bs.length) :
    trySEndian bs pos n .le = .ok (signedOf n (leValue (slice bs pos n))) (pos + n) := by
  apply trySEndian_of_U bs pos n .le h1 hn _ _ (tryUEndian_le bs pos n hd hn h)
  have hl := slice_length bs pos n h
  have := leValue_lt (slice bs pos n) (by rw [hl]; exact hd)
  rwa [hl] at this

theorem tryS_short (bs : Bits) (pos n : Nat) (e : Endian) (h1 : 1 ≤ n) (hn : n ≤ 64) (h : bs.length < pos + n) :
    trySEndian bs pos n e = .err .eof (max pos bs.length) := by
  have : ¬ n < 1 := by omega
  simp [trySEndian, this, tryUEndian_short bs pos n e (by omega) hn h, Res.map]

/-- the most negative 64-bit number, at bit alignment 3 -/
theorem tryS_min64 :
    trySEndian ([false, true, true] ++ true :: List.replicate 63 false ++ [true]) 3 64 .be = .ok (-9223372036854775808) 67 := by
  decide +kernel

/-! ### LEB128 -/

/-- unsigned LEB128 round trip: every value below 2^63, any alignment, anything after it -/
theorem uleb128_roundtrip (v : Nat) (hv : v < 2 ^ 63) (pre rest : Bits) :
    tryULEB128 (pre ++ bitsOfBytes (ulebEnc 10 v) ++ rest) pre.length
      = .ok v (pre.length + 8 * (ulebEnc 10 v).length) := by
  have hlen := ulebEnc_length_le 10 v
  have h := uleb_loop_enc 10 v pre rest 0 0
    (((pre ++ bitsOfBytes (ulebEnc 10 v) ++ rest).length - pre.length) / 8 + 2)
    (by have : (2:Nat) ^ 63 < 128 ^ 10 := by decide
        omega) (by decide)
    (by have e : (bitsOfBytes (ulebEnc 10 v)).length = 8 * (ulebEnc 10 v).length := by
          generalize ulebEnc 10 v = l
          induction l with
          | nil => simp [bitsOfBytes]
          | cons a l ih => simp only [bitsOfBytes, List.flatMap_cons, List.length_append, toBitsBE_length, List.length_cons] at *; omega
        simp only [List.length_append, e]; omega)
    (by simpa using hv) (by simp)
  simpa [tryULEB128] using h

/-- unsigned LEB128 overflow: nine continuation bytes and a non-zero tenth byte (bit 63 or above
    would be set) is an error, never a wrapped value -/
theorem uleb128_overflow (cs : List Nat) (b : Nat) (hl : cs.length = 9) (hc : ∀ c ∈ cs, 128 ≤ c ∧ c < 256)
    (hb0 : b ≠ 0) (hb : b < 256) (pre rest : Bits) :
    tryULEB128 (pre ++ bitsOfBytes (cs ++ [b]) ++ rest) pre.length = .err .other (pre.length + 80) := by
  have hsplit : pre ++ bitsOfBytes (cs ++ [b]) ++ rest = pre ++ bitsOfBytes cs ++ (toBitsBE 8 b ++ rest) := by
    simp [bitsOfBytes, List.append_assoc]
  have hbl : (bitsOfBytes cs).length = 72 := by
    have : ∀ l : List Nat, (bitsOfBytes l).length = 8 * l.length := by
      intro l; induction l with
      | nil => simp [bitsOfBytes]
      | cons a l ih => simp only [bitsOfBytes, List.flatMap_cons, List.length_append, toBitsBE_length, List.length_cons] at *; omega
    rw [this, hl]
  have hfuel : ((pre ++ bitsOfBytes cs ++ (toBitsBE 8 b ++ rest)).length - pre.length) / 8 + 2 = (rest.length / 8 + 3) + cs.length := by
    simp only [List.length_append, hbl, toBitsBE_length, hl]; omega
  rw [tryULEB128, hsplit, hfuel]
  obtain ⟨r', hr'⟩ := uleb_conts cs pre (toBitsBE 8 b ++ rest) 0 0 (rest.length / 8 + 3) hc (by omega)
  rw [hr', hl]
  have hassoc : pre ++ bitsOfBytes cs ++ (toBitsBE 8 b ++ rest) = (pre ++ bitsOfBytes cs) ++ toBitsBE 8 b ++ rest := by
    simp [List.append_assoc]
  have hplen : (pre ++ bitsOfBytes cs).length = pre.length + 8 * 9 := by simp [hbl]
  rw [hassoc, ← hplen]
  unfold ulebLoop
  rw [u8_at _ rest b hb]
  simp only [Res.bind]
  have : (0 + 7 * 9 ≥ 63 ∧ b ≠ 0) := ⟨by decide, hb0⟩
  rw [if_pos this, hplen]

/-- end of input inside an LEB128 number: d.U8() raises the decode package's IOError (observed by
    the harness as `ioerr:eof`), it does not return a value -/
theorem uleb128_eof (bs : Bits) (pos : Nat) (h : bs.length < pos + 8) :
    tryULEB128 bs pos = .ioerr .eof (max pos bs.length) := by
  simp [tryULEB128, ulebLoop, u8_short bs pos h, Res.bind]

/-- signed LEB128 round trip: every 64-bit value (−2^63 included), any alignment, anything after it -/
theorem sleb128_roundtrip (v : Int) (hlo : -(2 ^ 63 : Int) ≤ v) (hhi : v < (2 ^ 63 : Int)) (pre rest : Bits) :
    trySLEB128 (pre ++ bitsOfBytes (slebEnc 10 v) ++ rest) pre.length
      = .ok v (pre.length + 8 * (slebEnc 10 v).length) :=
  sleb_roundtrip v hlo hhi pre rest

/-- signed LEB128 overflow / end of input: a tenth byte that is neither 0x00 nor 0x7f is an error;
    running out of input raises the IOError -/
theorem sleb128_overflow_witness :
    trySLEB128 (bitsOfBytes [128, 128, 128, 128, 128, 128, 128, 128, 128, 1]) 0 = .err .other 80
    ∧ trySLEB128 (bitsOfBytes [255, 255, 255, 255, 255, 255, 255, 255, 255, 0x7e]) 0 = .err .other 80
    ∧ trySLEB128 (bitsOfBytes [128, 128, 128, 128, 128, 128, 128, 128, 128, 0x7f]) 0 = .ok (-9223372036854775808) 80
    ∧ trySLEB128 (bitsOfBytes [128, 128]) 0 = .ioerr .eof 16 := by
  decide +kernel

/-! ### unary, bool -/

/-- a run of k bits equal to `o` followed by the other bit: value k, k+1 bits consumed — any
    alignment, runs across any number of byte boundaries -/
theorem unary_spec (o : Bool) (k : Nat) (pre rest : Bits) :
    tryUnary (pre ++ List.replicate k o ++ (!o) :: rest) pre.length (bitNat o) = .ok k (pre.length + k + 1) := by
  simp only [tryUnary, List.append_assoc, drop_pre, unaryRun_run]

/-- a run to the end of the input: error, and here the position IS restored (read.go:231) -/
theorem unary_eof (o : Bool) (k : Nat) (pre : Bits) :
    tryUnary (pre ++ List.replicate k o) pre.length (bitNat o) = .err .eof pre.length := by
  simp only [tryUnary, drop_pre, unaryRun_eof]

theorem bool_spec (pre rest : Bits) (b : Bool) :
    tryBool (pre ++ b :: rest) pre.length = .ok b (pre.length + 1) := by
  have h : pre.length + 1 ≤ (pre ++ b :: rest).length := by simp
  have hs : slice (pre ++ b :: rest) pre.length 1 = [b] := by simp [slice]
  simp only [tryBool, tryUintBits_ok _ _ 1 (by decide) h, hs, Res.map]
  cases b <;> simp [ofBitsBE]

/-! ### floats -/

/-- expandF16ToF32 is exact on ALL 65 536 half precision patterns: the binary32 pattern it
    produces denotes the same number (same infinity / NaN stays NaN; ±0 distinguished) -/
theorem f16_expand_exact (h : Nat) (hh : h < 65536) :
    (val32 (expandF16ToF32 h)).same (val16 h) = true :=
  f16_all h hh

/-- Float80.Float64 (as fixed by b01458f9 and 36e2f831) returns, for EVERY 80-bit pattern, the
    binary64 nearest (ties to even, overflow to ±Inf, gradual underflow) to the exact binary80
    value `val80`; NaN for NaNs, ±Inf for infinities.  `f80to64Spec = encode64 ∘ val80`. -/
theorem f80_exact (se m : Nat) (hse : se < 2 ^ 16) : f80to64 se m = f80to64Spec se m :=
  f80to64_eq_spec se m hse

/-- the inputs the code before b01458f9 got wrong: 2^2000 is +Inf, −2^2000 is −Inf, 2^−2000 is 0,
    44100 is 44100, a NaN with only low fraction bits is a NaN -/
theorem f80_range_witness :
    f80to64 0x47CF 0x8000000000000000 = 0x7FF0000000000000
    ∧ f80to64 0xC7CF 0x8000000000000000 = 0xFFF0000000000000
    ∧ f80to64 0x37CF 0x8000000000000000 = 0
    ∧ f80to64 0x400E 0xAC44000000000000 = 0x40E5888000000000
    ∧ isNaN64 (f80to64 0x7FFF 0x8000000000000001) = true := by
  decide +kernel

/-- the input the code before 36e2f831 got wrong (finding f80-subnormal-double-rounding, fixed):
    `math.Ldexp(float64(m), e)` rounded twice in the binary64 subnormal range -/
theorem f80_double_rounding_witness :
    f80to64DoubleRounding 0x3C00 0x8000000000000BFF = 0x0008000000000000
    ∧ f80to64 0x3C00 0x8000000000000BFF = 0x0008000000000001
    ∧ f80to64Spec 0x3C00 0x8000000000000BFF = 0x0008000000000001 := by
  decide +kernel

/-! ### non-vacuity -/

/-- tryU_be / tryU_le / tryS_*: hypotheses hold of a 13-bit read at alignment 5 and a 24-bit
    little-endian read at alignment 3 of a 5-byte input, and the conclusions are the expected numbers -/
example :
    let bs := bytesToBits [0xA1, 0xB2, 0xC3, 0xD4, 0xE5]
    tryUEndian bs 5 13 .be = .ok 0x6CB 18 ∧ tryUEndian bs 3 24 .le = .ok 0x1E960D 27
    ∧ trySEndian bs 0 24 .le = .ok (-3951967) 24 ∧ trySEndian bs 5 13 .be = .ok 1739 18
    ∧ trySEndian bs 0 13 .be = .ok (-3018) 13 := by
  decide +kernel

/-- reverseBytes64_spec: a 40-bit value -/
example : reverseBytes64 40 0x0102030405#64 = some 0x0504030201#64 := by decide

/-- uleb128_roundtrip / overflow: hypotheses are satisfiable -/
example : ulebEnc 10 624485 = [0xE5, 0x8E, 0x26] ∧ ulebEnc 10 (2 ^ 63 - 1) = [255, 255, 255, 255, 255, 255, 255, 255, 127] := by
  decide
example : tryULEB128 (bitsOfBytes [128, 128, 128, 128, 128, 128, 128, 128, 128, 1]) 0 = .err .other 80 := by
  decide +kernel
/-- sleb128_roundtrip: both ends of the range are encodable, −2^63 needs all ten bytes -/
example : slebEnc 10 (-9223372036854775808) = [128, 128, 128, 128, 128, 128, 128, 128, 128, 0x7f]
    ∧ slebEnc 10 (-123456) = [0xC0, 0xBB, 0x78] ∧ slebEnc 10 63 = [63] ∧ slebEnc 10 64 = [0xC0, 0] := by
  decide +kernel

end Props.C02
