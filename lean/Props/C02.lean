import FqModel.Scalar
import FqModel.C02Call
import Proofs.C02Int
import Proofs.C02Rev
import Proofs.C02Le
import Proofs.C02Leb
import Proofs.C02Sleb
import Proofs.C02Misc
import Proofs.C02F16
import Proofs.C02Float
import Proofs.C02Text
import Proofs.C02Big
import Proofs.C02FloatRd
import Proofs.C02Hist
/-!
  C02 — "Scalar readers return the mathematical value of the bits they consume".
  Property theorems about the model FqModel/Scalar.lean (+ the regenerated table of
  decode_gen.go, in Props/C02Gen.lean so that a change of decode_gen.go re-checks only that file).
  Helper lemmas: Proofs/C02*.lean.

  Conventions: `bs` is the whole input (any length, not only whole bytes), `pos` any bit
  position (any alignment), `ofBitsBE (slice bs pos n)` the big-endian value of the n bits at
  pos, `leValue` = Σ byteᵢ·256^i, `signedOf n u` the n-bit two's complement reading of u.

  Sections: unsigned / signed integers, LEB128, position after a failed read (per family), unary
  and bool, floats (both byte orders), fixed point (all n), big integers, text framing, text on
  arbitrary bytes (no fault), UTF-8/16 codecs, non-vacuity examples.

  What the code does on a failed read (modelled, validated by correspondence, and stated in
  `tryU_short`): the error is returned but the position is NOT restored — the reader has moved to
  the end of the input (bitio.ReadFull reads what is left).  The property only requires the error.
-/
namespace Props.C02
open FqModel FqModel.Scalar FqModel.C02 Proofs.C02

/-! ### unsigned integers -/

/-- big-endian, every width 0..64, every alignment -/
theorem tryU_be (bs : Bits) (pos n : Nat) (hn : n ≤ 64) (h : pos + n ≤ bs.length) :
    tryUEndian bs pos n .be = .ok (ofBitsBE (slice bs pos n)) (pos + n) :=
  tryUEndian_be bs pos n hn h

/-- little-endian at whole-byte widths, every alignment -/
theorem tryU_le (bs : Bits) (pos n : Nat) (hd : 8 ∣ n) (hn : n ≤ 64) (h : pos + n ≤ bs.length) :
    tryUEndian bs pos n .le = .ok (leValue (slice bs pos n)) (pos + n) :=
  tryUEndian_le bs pos n hd hn h

/-- past the end: error, no value.  The position is `max pos len`, NOT `pos` (see the header). -/
theorem tryU_short (bs : Bits) (pos n : Nat) (e : Endian) (h0 : 0 < n) (hn : n ≤ 64) (h : bs.length < pos + n) :
    tryUEndian bs pos n e = .err .eof (max pos bs.length) :=
  tryUEndian_short bs pos n e h0 hn h

/-- the statement "position unchanged on a failed read" is FALSE of the code: 3 bits left, 8 wanted -/
theorem tryU_short_moves :
    tryUEndian [true, false, true, true] 1 8 .be = .err .eof 4 := by decide +kernel

/-- wider than 64 bits: rejected before anything is read -/
theorem tryU_too_wide (bs : Bits) (pos n : Nat) (e : Endian) (hn : 64 < n) :
    tryUEndian bs pos n e = .err .other pos := by
  simp [tryUEndian, tryUintBits, hn, Res.bind]

/-- little-endian at ANY width 0..64, exactly what the code returns: the n bits are read as a
    big-endian number u, and the k = ⌈n/8⌉ base-256 digits of u are reversed.  For 8 ∣ n this is the
    little-endian value (`tryU_le`); otherwise it is NOT a little-endian reading of the bit stream. -/
theorem tryU_le_any (bs : Bits) (pos n : Nat) (hn : n ≤ 64) (h : pos + n ≤ bs.length) :
    tryUEndian bs pos n .le = .ok (revDigits ((n + 7) / 8) (ofBitsBE (slice bs pos n))) (pos + n) := by
  have hl : (slice bs pos n).length = n := slice_length bs pos n h
  have hu : ofBitsBE (slice bs pos n) < 2 ^ (8 * ((n + 7) / 8)) := by
    have h1 := ofBitsBE_lt (slice bs pos n)
    rw [hl] at h1
    have h2 : 2 ^ n ≤ 2 ^ (8 * ((n + 7) / 8)) := Nat.pow_le_pow_right (by decide) (by omega)
    omega
  have := reverseBytes64_digits n _ hn hu
  simp only [tryUEndian, tryUintBits_ok bs pos n hn h, Res.bind]
  cases hr : reverseBytes64 n (BitVec.ofNat 64 (ofBitsBE (slice bs pos n))) with
  | none => rw [hr] at this; simp at this
  | some r => rw [hr] at this; simp at this; simp [this]

/-- the boundary of the property made explicit: a 12-bit "little-endian" read of the bits ABC (hex)
    returns 0xBC0A — not even a 12-bit number, and not 0xCAB (low byte first) -/
theorem tryU_le_nonbyte_witness :
    tryUEndian (bytesToBits [0xAB, 0xC0]) 0 12 .le = .ok 0xBC0A 12 ∧ ¬ (0xBC0A < 2 ^ 12)
    ∧ tryUEndian (bytesToBits [0xAB, 0xC0]) 0 12 .be = .ok 0xABC 12 := by
  decide +kernel

/-- ReverseBytes64: for k = ⌈n/8⌉ and u < 2^(8k) the k base-256 digits of u are reversed -/
theorem reverseBytes64_spec (n u : Nat) (hn : n ≤ 64) (hu : u < 2 ^ (8 * ((n + 7) / 8))) :
    (reverseBytes64 n (BitVec.ofNat 64 u)).map BitVec.toNat = some (revDigits ((n + 7) / 8) u) :=
  reverseBytes64_digits n u hn hu

/-- … which on a byte string read big-endian is the little-endian value -/
theorem reverseBytes64_le (sl : Bits) (hd : 8 ∣ sl.length) (h64 : sl.length ≤ 64) :
    (reverseBytes64 sl.length (BitVec.ofNat 64 (ofBitsBE sl))).map BitVec.toNat = some (leValue sl) :=
  rev_ofBitsBE sl hd h64

/-! ### signed integers -/

/-- two's complement on the machine word, every width 1..64 (covers −2^63: n = 64, u = 2^63) -/
theorem twosComplement_eq (n u : Nat) (h1 : 1 ≤ n) (hn : n ≤ 64) (hu : u < 2 ^ n) :
    twosComplement n (BitVec.ofNat 64 u) = signedOf n u :=
  twosComplement_spec n u h1 hn hu

theorem tryS_spec (bs : Bits) (pos n : Nat) (e : Endian) (h1 : 1 ≤ n) (hn : n ≤ 64) (u p : Nat)
    (hU : tryUEndian bs pos n e = .ok u p) (hu : u < 2 ^ n) :
    trySEndian bs pos n e = .ok (signedOf n u) p :=
  trySEndian_of_U bs pos n e h1 hn u p hU hu

theorem tryS_be (bs : Bits) (pos n : Nat) (h1 : 1 ≤ n) (hn : n ≤ 64) (h : pos + n ≤ bs.length) :
    trySEndian bs pos n .be = .ok (signedOf n (ofBitsBE (slice bs pos n))) (pos + n) := by
  apply trySEndian_of_U bs pos n .be h1 hn _ _ (tryUEndian_be bs pos n hn h)
  have := ofBitsBE_lt (slice bs pos n)
  rwa [slice_length bs pos n h] at this

theorem tryS_le (bs : Bits) (pos n : Nat) (hd : 8 ∣ n) (h1 : 1 ≤ n) (hn : n ≤ 64) (h : pos + n ≤ bs.length) :
    trySEndian bs pos n .le = .ok (signedOf n (leValue (slice bs pos n))) (pos + n) := by
  apply trySEndian_of_U bs pos n .le h1 hn _ _ (tryUEndian_le bs pos n hd hn h)
  have hl := slice_length bs pos n h
  have := leValue_lt (slice bs pos n) (by rw [hl]; exact hd)
  rwa [hl] at this

theorem tryS_short (bs : Bits) (pos n : Nat) (e : Endian) (h1 : 1 ≤ n) (hn : n ≤ 64) (h : bs.length < pos + n) :
    trySEndian bs pos n e = .err .eof (max pos bs.length) := by
  have : ¬ n < 1 := by omega
  simp [trySEndian, this, tryUEndian_short bs pos n e (by omega) hn h, Res.map]

/-- the most negative 64-bit number, at bit alignment 3 -/
theorem tryS_min64 :
    trySEndian ([false, true, true] ++ true :: List.replicate 63 false ++ [true]) 3 64 .be = .ok (-9223372036854775808) 67 := by
  decide +kernel

/-! ### LEB128 -/

/-- unsigned LEB128 round trip: every value below 2^63, any alignment, anything after it -/
theorem uleb128_roundtrip (v : Nat) (hv : v < 2 ^ 63) (pre rest : Bits) :
    tryULEB128 (pre ++ bitsOfBytes (ulebEnc 10 v) ++ rest) pre.length
      = .ok v (pre.length + 8 * (ulebEnc 10 v).length) := by
  have hlen := ulebEnc_length_le 10 v
  have h := uleb_loop_enc 10 v pre rest 0 0
    (((pre ++ bitsOfBytes (ulebEnc 10 v) ++ rest).length - pre.length) / 8 + 2)
    (by have : (2:Nat) ^ 63 < 128 ^ 10 := by decide
        omega) (by decide)
    (by have e : (bitsOfBytes (ulebEnc 10 v)).length = 8 * (ulebEnc 10 v).length := by
          generalize ulebEnc 10 v = l
          induction l with
          | nil => simp [bitsOfBytes]
          | cons a l ih => simp only [bitsOfBytes, List.flatMap_cons, List.length_append, toBitsBE_length, List.length_cons] at *; omega
        simp only [List.length_append, e]; omega)
    (by simpa using hv) (by simp)
  simpa [tryULEB128] using h

/-- unsigned LEB128 overflow: nine continuation bytes and a non-zero tenth byte (bit 63 or above
    would be set) is an error, never a wrapped value -/
theorem uleb128_overflow (cs : List Nat) (b : Nat) (hl : cs.length = 9) (hc : ∀ c ∈ cs, 128 ≤ c ∧ c < 256)
    (hb0 : b ≠ 0) (hb : b < 256) (pre rest : Bits) :
    tryULEB128 (pre ++ bitsOfBytes (cs ++ [b]) ++ rest) pre.length = .err .other (pre.length + 80) := by
  have hsplit : pre ++ bitsOfBytes (cs ++ [b]) ++ rest = pre ++ bitsOfBytes cs ++ (toBitsBE 8 b ++ rest) := by
    simp [bitsOfBytes, List.append_assoc]
  have hbl : (bitsOfBytes cs).length = 72 := by
    have : ∀ l : List Nat, (bitsOfBytes l).length = 8 * l.length := by
      intro l; induction l with
      | nil => simp [bitsOfBytes]
      | cons a l ih => simp only [bitsOfBytes, List.flatMap_cons, List.length_append, toBitsBE_length, List.length_cons] at *; omega
    rw [this, hl]
  have hfuel : ((pre ++ bitsOfBytes cs ++ (toBitsBE 8 b ++ rest)).length - pre.length) / 8 + 2 = (rest.length / 8 + 3) + cs.length := by
    simp only [List.length_append, hbl, toBitsBE_length, hl]; omega
  rw [tryULEB128, hsplit, hfuel]
  obtain ⟨r', hr'⟩ := uleb_conts cs pre (toBitsBE 8 b ++ rest) 0 0 (rest.length / 8 + 3) hc (by omega)
  rw [hr', hl]
  have hassoc : pre ++ bitsOfBytes cs ++ (toBitsBE 8 b ++ rest) = (pre ++ bitsOfBytes cs) ++ toBitsBE 8 b ++ rest := by
    simp [List.append_assoc]
  have hplen : (pre ++ bitsOfBytes cs).length = pre.length + 8 * 9 := by simp [hbl]
  rw [hassoc, ← hplen]
  unfold ulebLoop
  rw [u8_at _ rest b hb]
  simp only [Res.bind]
  have : (0 + 7 * 9 ≥ 63 ∧ b ≠ 0) := ⟨by decide, hb0⟩
  rw [if_pos this, hplen]

/-- end of input inside an LEB128 number: d.U8() raises the decode package's IOError (observed by
    the harness as `ioerr:eof`), it does not return a value -/
theorem uleb128_eof (bs : Bits) (pos : Nat) (h : bs.length < pos + 8) :
    tryULEB128 bs pos = .ioerr .eof (max pos bs.length) := by
  simp [tryULEB128, ulebLoop, u8_short bs pos h, Res.bind]

/-- signed LEB128 round trip: every 64-bit value (−2^63 included), any alignment, anything after it -/
theorem sleb128_roundtrip (v : Int) (hlo : -(2 ^ 63 : Int) ≤ v) (hhi : v < (2 ^ 63 : Int)) (pre rest : Bits) :
    trySLEB128 (pre ++ bitsOfBytes (slebEnc 10 v) ++ rest) pre.length
      = .ok v (pre.length + 8 * (slebEnc 10 v).length) :=
  sleb_roundtrip v hlo hhi pre rest

/-- signed LEB128 overflow / end of input: a tenth byte that is neither 0x00 nor 0x7f is an error;
    running out of input raises the IOError -/
theorem sleb128_overflow_witness :
    trySLEB128 (bitsOfBytes [128, 128, 128, 128, 128, 128, 128, 128, 128, 1]) 0 = .err .other 80
    ∧ trySLEB128 (bitsOfBytes [255, 255, 255, 255, 255, 255, 255, 255, 255, 0x7e]) 0 = .err .other 80
    ∧ trySLEB128 (bitsOfBytes [128, 128, 128, 128, 128, 128, 128, 128, 128, 0x7f]) 0 = .ok (-9223372036854775808) 80
    ∧ trySLEB128 (bitsOfBytes [128, 128]) 0 = .ioerr .eof 16 := by
  decide +kernel

/-! ### unary, bool -/

/-- a run of k bits equal to `o` followed by the other bit: value k, k+1 bits consumed — any
    alignment, runs across any number of byte boundaries -/
theorem unary_spec (o : Bool) (k : Nat) (pre rest : Bits) :
    tryUnary (pre ++ List.replicate k o ++ (!o) :: rest) pre.length (bitNat o) = .ok k (pre.length + k + 1) := by
  simp only [tryUnary, List.append_assoc, drop_pre, unaryRun_run]

/-- a run to the end of the input: error, and here the position IS restored (read.go:231) -/
theorem unary_eof (o : Bool) (k : Nat) (pre : Bits) :
    tryUnary (pre ++ List.replicate k o) pre.length (bitNat o) = .err .eof pre.length := by
  simp only [tryUnary, drop_pre, unaryRun_eof]

theorem bool_spec (pre rest : Bits) (b : Bool) :
    tryBool (pre ++ b :: rest) pre.length = .ok b (pre.length + 1) := by
  have h : pre.length + 1 ≤ (pre ++ b :: rest).length := by simp
  have hs : slice (pre ++ b :: rest) pre.length 1 = [b] := by simp [slice]
  simp only [tryBool, tryUintBits_ok _ _ 1 (by decide) h, hs, Res.map]
  cases b <;> simp [ofBitsBE]

/-! ### where the position is after a FAILED read, family by family
    (integers: `tryU_short`, `tryS_short`, `bigInt_short` — at the end of the input;
     unary: `unary_eof` — restored; text: `text_*_total` above) -/

theorem bool_short (bs : Bits) (pos : Nat) (h : bs.length < pos + 1) :
    tryBool bs pos = .err .eof (max pos bs.length) := by
  simp [tryBool, tryUintBits_short bs pos 1 (by decide) (by decide) h, Res.map]

theorem tryF_short (bs : Bits) (pos n : Nat) (e : Endian) (h0 : 0 < n) (h : bs.length < pos + n) :
    tryFEndian bs pos n e = .err .eof (max pos bs.length) := by
  simp [tryFEndian, tryBits_short bs pos n h0 h, Res.bind]

theorem tryFP_short (bs : Bits) (pos n : Nat) (f : Int) (e : Endian) (h0 : 0 < n) (hn : n ≤ 64) (h : bs.length < pos + n) :
    tryFPEndian bs pos n f e = .err .eof (max pos bs.length) := by
  simp [tryFPEndian, tryUEndian_short bs pos n e h0 hn h, Res.bind]

/-- LEB128 running out of input after k ≤ 9 continuation bytes: the IOError of d.U8(), with the
    position at the end of the input (the complete bytes AND the incomplete tail are consumed) -/
theorem uleb128_eof_after (cs : List Nat) (hl : cs.length ≤ 9) (hc : ∀ c ∈ cs, 128 ≤ c ∧ c < 256)
    (pre tail : Bits) (ht : tail.length < 8) :
    tryULEB128 (pre ++ bitsOfBytes cs ++ tail) pre.length = .ioerr .eof (pre.length + 8 * cs.length + tail.length) := by
  have hbl := bitsOfBytes_length cs
  have hfuel : ((pre ++ bitsOfBytes cs ++ tail).length - pre.length) / 8 + 2 = 2 + cs.length := by
    simp only [List.length_append, hbl]; omega
  rw [tryULEB128, hfuel]
  obtain ⟨r', hr'⟩ := uleb_conts cs pre tail 0 0 2 hc (by omega)
  rw [hr']
  unfold ulebLoop
  rw [u8_short _ _ (by simp only [List.length_append, hbl]; omega)]
  simp only [Res.bind, List.length_append, hbl]
  congr 1; omega

theorem sleb128_eof_after (cs : List Nat) (hl : cs.length ≤ 9) (hc : ∀ c ∈ cs, 128 ≤ c ∧ c < 256)
    (pre tail : Bits) (ht : tail.length < 8) :
    trySLEB128 (pre ++ bitsOfBytes cs ++ tail) pre.length = .ioerr .eof (pre.length + 8 * cs.length + tail.length) := by
  have hbl := bitsOfBytes_length cs
  have hfuel : ((pre ++ bitsOfBytes cs ++ tail).length - pre.length) / 8 + 2 = 2 + cs.length := by
    simp only [List.length_append, hbl]; omega
  rw [trySLEB128, hfuel]
  obtain ⟨r', hr'⟩ := sleb_conts cs pre tail 0 0#64 2 hc (by omega)
  rw [hr']
  unfold slebLoop
  rw [u8_short _ _ (by simp only [List.length_append, hbl]; omega)]
  simp only [Res.bind, List.length_append, hbl]
  congr 1; omega

/-- signed LEB128 overflow: nine continuation bytes and a tenth byte other than 0x00 / 0x7f: an
    error, with the position after the tenth byte -/
theorem sleb128_overflow (cs : List Nat) (b : Nat) (hl : cs.length = 9) (hc : ∀ c ∈ cs, 128 ≤ c ∧ c < 256)
    (hb0 : b ≠ 0) (hb7 : b ≠ 0x7f) (hb : b < 256) (pre rest : Bits) :
    trySLEB128 (pre ++ bitsOfBytes (cs ++ [b]) ++ rest) pre.length = .err .other (pre.length + 80) := by
  have hsplit : pre ++ bitsOfBytes (cs ++ [b]) ++ rest = pre ++ bitsOfBytes cs ++ (toBitsBE 8 b ++ rest) := by
    simp [bitsOfBytes, List.append_assoc]
  have hbl : (bitsOfBytes cs).length = 72 := by rw [bitsOfBytes_length, hl]
  have hfuel : ((pre ++ bitsOfBytes cs ++ (toBitsBE 8 b ++ rest)).length - pre.length) / 8 + 2 = (rest.length / 8 + 3) + cs.length := by
    simp only [List.length_append, hbl, toBitsBE_length, hl]; omega
  rw [trySLEB128, hsplit, hfuel]
  obtain ⟨r', hr'⟩ := sleb_conts cs pre (toBitsBE 8 b ++ rest) 0 0#64 (rest.length / 8 + 3) hc (by omega)
  rw [hr', hl]
  have hassoc : pre ++ bitsOfBytes cs ++ (toBitsBE 8 b ++ rest) = (pre ++ bitsOfBytes cs) ++ toBitsBE 8 b ++ rest := by
    simp [List.append_assoc]
  have hplen : (pre ++ bitsOfBytes cs).length = pre.length + 8 * 9 := by simp [hbl]
  rw [hassoc, ← hplen]
  unfold slebLoop
  rw [u8_at _ rest b hb]
  simp only [Res.bind]
  have : (True ∧ b ≠ 0 ∧ b ≠ 127) := ⟨trivial, hb0, hb7⟩
  rw [if_pos this, hplen]

/-! ### floats -/

/-- expandF16ToF32 is exact on ALL 65 536 half precision patterns: the binary32 pattern it
    produces denotes the same number (same infinity / NaN stays NaN; ±0 distinguished) -/
theorem f16_expand_exact (h : Nat) (hh : h < 65536) :
    (val32 (expandF16ToF32 h)).same (val16 h) = true :=
  f16_all h hh

/-- Float80.Float64 (as fixed by b01458f9 and 36e2f831) returns, for EVERY 80-bit pattern, the
    binary64 nearest (ties to even, overflow to ±Inf, gradual underflow) to the exact binary80
    value `val80`; NaN for NaNs, ±Inf for infinities.  `f80to64Spec = encode64 ∘ val80`. -/
theorem f80_exact (se m : Nat) (hse : se < 2 ^ 16) : f80to64 se m = f80to64Spec se m :=
  f80to64_eq_spec se m hse

/-- the inputs the code before b01458f9 got wrong: 2^2000 is +Inf, −2^2000 is −Inf, 2^−2000 is 0,
    44100 is 44100, a NaN with only low fraction bits is a NaN -/
theorem f80_range_witness :
    f80to64 0x47CF 0x8000000000000000 = 0x7FF0000000000000
    ∧ f80to64 0xC7CF 0x8000000000000000 = 0xFFF0000000000000
    ∧ f80to64 0x37CF 0x8000000000000000 = 0
    ∧ f80to64 0x400E 0xAC44000000000000 = 0x40E5888000000000
    ∧ isNaN64 (f80to64 0x7FFF 0x8000000000000001) = true := by
  decide +kernel

/-- the input the code before 36e2f831 got wrong (finding f80-subnormal-double-rounding, fixed):
    `math.Ldexp(float64(m), e)` rounded twice in the binary64 subnormal range -/
theorem f80_double_rounding_witness :
    f80to64DoubleRounding 0x3C00 0x8000000000000BFF = 0x0008000000000000
    ∧ f80to64 0x3C00 0x8000000000000BFF = 0x0008000000000001
    ∧ f80to64Spec 0x3C00 0x8000000000000BFF = 0x0008000000000001 := by
  decide +kernel

/-- the float readers, big-endian, any alignment: 32 bits are widened exactly, 64 bits are the bits,
    80 bits are correctly rounded; position advances by the width.  (Little-endian: the same on the
    byte-reversed slice, `reverseByteOrder` — by definition of `tryFEndian`.) -/
theorem tryF_be (bs : Bits) (pos n : Nat) (hn : n = 32 ∨ n = 64 ∨ n = 80) (h : pos + n ≤ bs.length) :
    ∃ bits, tryFEndian bs pos n .be = .ok bits (pos + n) ∧
      (n = 32 → (val64 bits).same (val32 (ofBitsBE (slice bs pos n))) = true) ∧
      (n = 64 → bits = ofBitsBE (slice bs pos n)) ∧
      (n = 80 → bits = f80to64Spec (ofBitsBE ((slice bs pos n).take 16)) (ofBitsBE ((slice bs pos n).drop 16))) := by
  have hl : (slice bs pos n).length = n := slice_length bs pos n h
  have hpad : (8 - n % 8) % 8 = 0 := by rcases hn with h | h | h <;> omega
  have hflat : (bytesOf (slice bs pos n)).flatten = slice bs pos n := by
    rw [bytesOf_flatten, hl, hpad]; simp
  unfold tryFEndian
  rw [tryBits_ok bs pos n h]
  simp only [Res.bind, show (Endian.be == Endian.le) = false by decide, Bool.false_eq_true, if_false, hflat]
  rcases hn with h32 | h64 | h80
  · subst h32
    exact ⟨_, by simp, fun _ => widen32_exact _, by omega, by omega⟩
  · subst h64
    exact ⟨_, by simp, by omega, fun _ => rfl, by omega⟩
  · subst h80
    refine ⟨f80to64 (ofBitsBE ((slice bs pos 80).take 16)) (ofBitsBE ((slice bs pos 80).drop 16)), by simp, by omega, by omega, fun _ => ?_⟩
    apply f80to64_eq_spec
    have := ofBitsBE_lt ((slice bs pos 80).take 16)
    have hl16 : ((slice bs pos 80).take 16).length = 16 := by simp [hl]
    rwa [hl16] at this

/-- ALL float readers, BOTH byte orders, any alignment: with X the integer value of the n bits
    (big-endian value for BE, Σ byteᵢ·256^i for LE — i.e. the bytes reversed) a 16- or 32-bit read
    denotes the same number as the half / single precision pattern X, a 64-bit read IS X, an 80-bit
    read is the correctly rounded binary64 of (X / 2^64, X % 2^64); the position advances by n -/
theorem tryF_spec (bs : Bits) (pos n : Nat) (e : Endian) (hn : n = 16 ∨ n = 32 ∨ n = 64 ∨ n = 80)
    (h : pos + n ≤ bs.length) :
    ∃ bits, tryFEndian bs pos n e = .ok bits (pos + n) ∧
      floatOk n (match e with | .be => ofBitsBE (slice bs pos n) | .le => leValue (slice bs pos n)) bits :=
  tryFEndian_on bs pos n e hn h

/-- little-endian float reads (the instance of `tryF_spec` the correspondence used to carry alone) -/
theorem tryF_le (bs : Bits) (pos n : Nat) (hn : n = 16 ∨ n = 32 ∨ n = 64 ∨ n = 80) (h : pos + n ≤ bs.length) :
    ∃ bits, tryFEndian bs pos n .le = .ok bits (pos + n) ∧ floatOk n (leValue (slice bs pos n)) bits :=
  tryFEndian_on bs pos n .le hn h

/-- reading a float16 (expand to binary32, widen to binary64) denotes the half precision number -/
theorem f16_read_exact_all (h : Nat) (hh : h < 65536) :
    (val64 (widen32 (expandF16ToF32 h))).same (val16 h) = true := f16_read_exact h hh

/-- "denotes the same number" is transitive (it is equality of m·2^e) -/
theorem same_transitive (x y z : IEEEVal) (h1 : x.same y = true) (h2 : y.same z = true) : x.same z = true :=
  same_trans x y z h1 h2

/-- a float size other than 16/32/64/80: error AFTER the bits were consumed (read.go:92-109) -/
theorem tryF_unsupported (bs : Bits) (pos n : Nat) (e : Endian) (hn : n ≠ 16 ∧ n ≠ 32 ∧ n ≠ 64 ∧ n ≠ 80)
    (h0 : 0 < n) (h : pos + n ≤ bs.length) :
    tryFEndian bs pos n e = .err .other (pos + n) := by
  simp [tryFEndian, tryBits_ok bs pos n h, Res.bind, hn.1, hn.2.1, hn.2.2.1, hn.2.2.2]

/-- Go `float64(x)` of a float32 denotes the same number, for ALL 2^32 patterns -/
theorem f32_widen_exact (b : Nat) : (val64 (widen32 b)).same (val32 b) = true := widen32_exact b

/-- the rounding step is the identity on values that are representable: at most 53 significant bits
    and an exponent in the binary64 normal range -/
theorem roundF64_representable (neg : Bool) (m : Nat) (e : Int) (hm0 : m ≠ 0) (hm : m < 2 ^ 53)
    (hlo : -1022 ≤ e + (m.log2 : Int)) (hhi : e + (m.log2 : Int) ≤ 1023) :
    (val64 (roundF64 neg m e)).same (.fin neg m e) = true := by
  rw [roundF64_exact neg m e hm0 hm hlo hhi]
  exact same_norm53 neg m e (by have := (Nat.log2_lt hm0).mpr hm; omega)

/-! ### fixed point (stretch) -/

/-- fixed point n.f: when the integer has at most 53 significant bits the result denotes exactly
    n / 2^f (for wider integers it is `float64(n)`, rounded to nearest even, divided exactly) -/
theorem fp_exact (u f : Nat) (hu : u < 2 ^ 53) (hf : f < 64) :
    (val64 (fpToF64 u f)).same (.fin false u (-(f : Int))) = true :=
  fpToF64_exact u f hu hf

/-- fixed point for EVERY 64-bit integer: Go computes `float64(n) / float64(1<<f)` — a rounding of n
    to 53 bits followed by an exact division — and that IS the binary64 nearest (ties to even) to the
    exact rational n / 2^f.  No double rounding. -/
theorem fp_correctly_rounded (u f : Nat) (hu : u < 2 ^ 64) (hf : f < 64) :
    fpToF64 u f = roundF64 false u (-(f : Int)) :=
  fpToF64_correctly_rounded u f hu hf

/-- f ≥ 64: the Go shift `1<<f` on a uint64 is 0, the quotient is +Inf (NaN for n = 0) — quirk kept -/
theorem fp_shift_out (u f : Nat) (hf : 64 ≤ f) :
    fpToF64 u f = if u = 0 then 0x7FF8000000000001 else 0x7FF0000000000000 := by
  simp [fpToF64, hf]

theorem tryFP_be (bs : Bits) (pos n : Nat) (f : Nat) (hn : n ≤ 64) (h : pos + n ≤ bs.length) :
    tryFPEndian bs pos n (f : Int) .be = .ok (fpToF64 (ofBitsBE (slice bs pos n)) f) (pos + n) := by
  simp [tryFPEndian, tryUEndian_be bs pos n hn h, Res.bind]

/-! ### big integers (stretch) -/

/-- big-endian integers of ANY width — 1 bit, 65 bits, 512 bits, not only whole bytes — unsigned or
    two's complement, at any alignment -/
theorem bigInt_spec_be (bs : Bits) (pos n : Nat) (sign : Bool) (h : pos + n ≤ bs.length) :
    tryBigIntEndianSign bs pos n .be sign
      = .ok (if sign then signedOf n (ofBitsBE (slice bs pos n)) else (ofBitsBE (slice bs pos n) : Int)) (pos + n) :=
  bigInt_be bs pos n sign h

/-- little-endian integers of any whole-byte width -/
theorem bigInt_spec_le (bs : Bits) (pos n : Nat) (sign : Bool) (hd : 8 ∣ n) (h : pos + n ≤ bs.length) :
    tryBigIntEndianSign bs pos n .le sign
      = .ok (if sign then signedOf n (leValue (slice bs pos n)) else (leValue (slice bs pos n) : Int)) (pos + n) :=
  bigInt_le bs pos n sign hd h

theorem bigInt_short (bs : Bits) (pos n : Nat) (e : Endian) (sign : Bool) (h0 : 0 < n) (h : bs.length < pos + n) :
    tryBigIntEndianSign bs pos n e sign = .err .eof (max pos bs.length) := by
  simp [tryBigIntEndianSign, tryBits_short bs pos n h0 h, Res.bind]

/-! ### text framing (stretch): which bytes reach the text decoder, how far the position moves,
       and where it is after a failure -/

/-- fixed length: n whole bytes from any bit alignment -/
theorem text_fixed_ok (bs : Bits) (pos n : Nat) (h : pos + 8 * n ≤ bs.length) :
    tryTextFrame bs pos (n : Int) = .ok (byteVals (slice bs pos (8 * n))) (pos + 8 * n) :=
  textFrame_ok bs pos n h

/-- length beyond the end: error, position unchanged -/
theorem text_fixed_short (bs : Bits) (pos n : Nat) (hp : pos ≤ bs.length) (h : bs.length < pos + 8 * n) :
    tryTextFrame bs pos (n : Int) = .err .other pos :=
  textFrame_short bs pos n hp h

/-- null terminated (unit = 8·charBytes bits, searched on the grid pos + k·unit): if the first
    all-zero unit is at `off`, the value bytes are those before it and the position is after it -/
theorem text_null_found (bs : Bits) (pos cb off : Nat) (hcb : 1 ≤ cb)
    (hf : findZeroUnit bs (8 * cb) (bs.length + 1) pos = some off) :
    tryTextNullFrame bs pos cb
      = .ok ((byteVals (slice bs pos (8 * ((off - pos) / 8 + cb)))).take ((off - pos) / 8)) (off + 8 * cb) :=
  textNull_found bs pos cb off hcb hf

/-- … where `findZeroUnit` finds the FIRST zero unit on the grid inside the input -/
theorem text_null_search (bs : Bits) (unit : Nat) (hu : 0 < unit) (fuel off r : Nat)
    (h : findZeroUnit bs unit fuel off = some r) :
    off ≤ r ∧ r + unit ≤ bs.length ∧ unit ∣ (r - off) ∧ ofBitsBE (slice bs r unit) = 0 ∧
    ∀ k, off + k * unit < r → ofBitsBE (slice bs (off + k * unit) unit) ≠ 0 :=
  findZeroUnit_spec bs unit hu fuel off r h

/-- NO SCAN LIMIT: a UTF-8 null-terminated string of ANY length n (no zero byte inside), at any
    alignment, with anything after it, is read completely: the frame is exactly the n bytes and the
    position is after the terminator, 8·(n+1) bits on.  (A reader that gives up after 64 KiB and
    returns "" falsifies this at n = 65536.) -/
theorem text_null_unbounded (txt : List Nat) (h : ∀ b ∈ txt, 0 < b ∧ b < 256) (pre rest : Bits) :
    tryTextNullFrame (pre ++ bitsOfBytes (txt ++ [0]) ++ rest) pre.length 1
      = .ok txt (pre.length + 8 * (txt.length + 1)) := by
  have hf := findZeroUnit_text txt pre rest ((pre ++ bitsOfBytes (txt ++ [0]) ++ rest).length + 1) h
    (by simp only [List.length_append, bitsOfBytes_len, List.length_cons, List.length_nil]; omega)
  have hfound := textNull_found (pre ++ bitsOfBytes (txt ++ [0]) ++ rest) pre.length 1 (pre.length + 8 * txt.length) (by decide) hf
  rw [hfound]
  have e1 : pre.length + 8 * txt.length - pre.length = 8 * txt.length := by omega
  have e2 : 8 * txt.length / 8 = txt.length := by omega
  rw [e1, e2]
  have hsl : slice (pre ++ bitsOfBytes (txt ++ [0]) ++ rest) pre.length (8 * (txt.length + 1)) = bitsOfBytes (txt ++ [0]) := by
    have := slice_mid pre (bitsOfBytes (txt ++ [0])) rest
    rwa [bitsOfBytes_len, List.length_append, List.length_cons, List.length_nil] at this
  have hb : ∀ b ∈ txt ++ [0], b < 256 := by
    intro b hb
    rcases List.mem_append.mp hb with h1 | h1
    · exact (h b h1).2
    · simp at h1; omega
  rw [hsl, byteVals_bitsOfBytes _ hb]
  congr 1
  simp

/-- missing terminator: error and the position is restored -/
theorem text_null_missing (bs : Bits) (pos cb : Nat) (hcb : 1 ≤ cb)
    (hf : findZeroUnit bs (8 * cb) (bs.length + 1) pos = none) :
    tryTextNullFrame bs pos cb = .err .eof pos :=
  textNull_missing bs pos cb hcb hf

/-- fixed length with optional null: exactly n bytes consumed, value cut at the first zero byte -/
theorem text_nullfixed_ok (bs : Bits) (pos n : Nat) (h : pos + 8 * n ≤ bs.length) :
    tryTextNullLenFrame bs pos (n : Int)
      = .ok ((byteVals (slice bs pos (8 * n))).takeWhile (· ≠ 0)) (pos + 8 * n) :=
  textNullLen_ok bs pos n h

/-- one-byte length prefix: the `len` bytes after it; 8 + 8·len bits consumed -/
theorem text_short_ok (bs : Bits) (pos : Nat) (h8 : pos + 8 ≤ bs.length)
    (h : pos + 8 + 8 * ofBitsBE (slice bs pos 8) ≤ bs.length) :
    tryTextLenPrefixedFrame bs pos 1 (-1)
      = .ok (byteVals (slice bs (pos + 8) (8 * ofBitsBE (slice bs pos 8)))) (pos + 8 + 8 * ofBitsBE (slice bs pos 8)) :=
  textShort_ok bs pos h8 h

/-- length beyond the end: error and the position is restored to the start of the prefix -/
theorem text_short_restore (bs : Bits) (pos : Nat) (h8 : pos + 8 ≤ bs.length)
    (h : bs.length < pos + 8 + 8 * ofBitsBE (slice bs pos 8)) :
    tryTextLenPrefixedFrame bs pos 1 (-1) = .err .eof pos :=
  textShort_restore bs pos h8 h

/-! ### text readers on ARBITRARY bytes: a string or an error, never a fault; position rule
    (`decodeText` is a total function — golang.org/x/text substitutes U+FFFD, transliterated in
    `utf8Replace` / `utf16Units` and compared with the real decoders on malformed input) -/

/-- fixed length text of any encoding over any bytes: a string and exactly 8·n bits consumed, or an
    error with the position unchanged -/
theorem text_fixed_total (e : Enc) (bs : Bits) (pos : Nat) (n : Int) (hp : pos ≤ bs.length) :
    (∃ s, textVal e (tryTextFrame bs pos n) = .ok (.t s) (pos + 8 * n.toNat))
    ∨ textVal e (tryTextFrame bs pos n) = .err .other pos := by
  rcases textFrame_cases bs pos n hp with ⟨fr, h⟩ | h
  · exact Or.inl ⟨_, by rw [h]; rfl⟩
  · exact Or.inr (by rw [h]; rfl)

/-- fixed length with optional null -/
theorem text_nullfixed_total (e : Enc) (bs : Bits) (pos : Nat) (n : Int) (hp : pos ≤ bs.length) :
    (∃ s, textVal e (tryTextNullLenFrame bs pos n) = .ok (.t s) (pos + 8 * n.toNat))
    ∨ textVal e (tryTextNullLenFrame bs pos n) = .err .other pos := by
  rcases textNullLenFrame_cases bs pos n hp with ⟨fr, h⟩ | h
  · exact Or.inl ⟨_, by rw [h]; rfl⟩
  · exact Or.inr (by rw [h]; rfl)

/-- null terminated: a string and the position just after a terminator inside the input, or an
    error with the position where it was -/
theorem text_null_total (e : Enc) (bs : Bits) (pos cb : Nat) :
    (∃ s off, textVal e (tryTextNullFrame bs pos cb) = .ok (.t s) (off + 8 * cb) ∧ pos ≤ off ∧ off + 8 * cb ≤ bs.length)
    ∨ textVal e (tryTextNullFrame bs pos cb) = .err .eof pos
    ∨ textVal e (tryTextNullFrame bs pos cb) = .err .other pos := by
  rcases textNullFrame_cases bs pos cb with ⟨fr, off, h, h1, h2⟩ | h | h
  · exact Or.inl ⟨_, off, by rw [h]; rfl, h1, h2⟩
  · exact Or.inr (Or.inl (by rw [h]; rfl))
  · exact Or.inr (Or.inr (by rw [h]; rfl))

/-- length prefixed (as the generated readers call it: one length byte, fixed field absent or ≥ 1):
    a string, or an error with the position restored / unchanged, or — when not even the length
    byte is there — an error with the position at the end of the input.  Never a fault.
    (A fixed field of 0 bytes would be one: `make([]byte, -1)`; no caller can reach it, see
    `text_short_fixed0_witness`.) -/
theorem text_short_total (e : Enc) (bs : Bits) (pos : Nat) (fixed : Int) (hp : pos ≤ bs.length)
    (hfx : fixed = -1 ∨ 1 ≤ fixed) :
    (∃ s p, textVal e (tryTextLenPrefixedFrame bs pos 1 fixed) = .ok (.t s) p ∧ pos + 8 ≤ p ∧ p ≤ bs.length)
    ∨ textVal e (tryTextLenPrefixedFrame bs pos 1 fixed) = .err .eof pos
    ∨ textVal e (tryTextLenPrefixedFrame bs pos 1 fixed) = .err .other pos
    ∨ (textVal e (tryTextLenPrefixedFrame bs pos 1 fixed) = .err .eof bs.length ∧ bs.length < pos + 8) := by
  rcases textLenPrefixedFrame_cases bs pos fixed hp hfx with ⟨fr, p, h, h1, h2⟩ | h | h | ⟨h, h1⟩
  · exact Or.inl ⟨_, p, by rw [h]; rfl, h1, h2⟩
  · exact Or.inr (Or.inl (by rw [h]; rfl))
  · exact Or.inr (Or.inr (Or.inl (by rw [h]; rfl)))
  · exact Or.inr (Or.inr (Or.inr ⟨by rw [h]; rfl, h1⟩))

/-- the one argument value for which the length-prefixed reader faults (Go run-time panic
    makeslice): a fixed field of 0 bytes with a readable length byte -/
theorem text_short_fixed0_witness :
    tryTextLenPrefixedFrame (bytesToBits [3, 0x61]) 0 1 0 = .panic "makeslice" 8 := by decide +kernel

/-- ill-formed UTF-8 becomes U+FFFD per maximal ill-formed subpart (not per byte): truncated,
    over-long, surrogate, out of range and stray continuation bytes -/
theorem utf8_replacement_examples :
    decodeText .utf8bom [0x61, 0xE2, 0x82, 0x62] = [0x61, 0xEF, 0xBF, 0xBD, 0x62]
    ∧ decodeText .utf8bom [0xC0, 0x80] = [0xEF, 0xBF, 0xBD, 0xEF, 0xBF, 0xBD]
    ∧ decodeText .utf8bom [0xED, 0xA0, 0x80] = [0xEF, 0xBF, 0xBD, 0xEF, 0xBF, 0xBD, 0xEF, 0xBF, 0xBD]
    ∧ decodeText .utf8bom [0xF4, 0x90, 0x80, 0x80] = [0xEF, 0xBF, 0xBD, 0xEF, 0xBF, 0xBD, 0xEF, 0xBF, 0xBD, 0xEF, 0xBF, 0xBD]
    ∧ decodeText .utf8bom [0xF0, 0x9F, 0x98] = [0xEF, 0xBF, 0xBD]
    ∧ decodeText .utf16le [0x3D, 0xD8, 0x41, 0x00, 0x42] = [0xEF, 0xBF, 0xBD, 0x41, 0xEF, 0xBF, 0xBD] := by
  decide +kernel

/-! ### UTF-8 / UTF-16 codecs on code points (stretch; valid input) -/

/-- UTF-8: decoding the encoding of any list of Unicode scalar values gives the list back -/
theorem utf8_roundtrip (cs : List Nat) (h : ∀ c ∈ cs, isScalar c) :
    utf8Decode (cs.length + 1) (cs.flatMap utf8Encode) = some cs :=
  utf8_roundtrip_list cs h _ (by omega)

/-- the UTF-8 text reader strips a leading BOM and returns valid UTF-8 unchanged -/
theorem utf8_text_bom (cs : List Nat) (h : ∀ c ∈ cs, isScalar c) :
    decodeText .utf8bom (0xEF :: 0xBB :: 0xBF :: cs.flatMap utf8Encode) = cs.flatMap utf8Encode := by
  have hlen : cs.length < (cs.flatMap utf8Encode).length + 1 := by
    have : ∀ l : List Nat, l.length ≤ (l.flatMap utf8Encode).length := by
      intro l; induction l with
      | nil => simp
      | cons a l ih =>
        simp only [List.flatMap_cons, List.length_append, List.length_cons]
        have : 1 ≤ (utf8Encode a).length := by unfold utf8Encode; split <;> (try split) <;> (try split) <;> simp
        omega
    have := this cs; omega
  simp only [decodeText]
  exact utf8Replace_valid cs h _ hlen

/-- UTF-16, fixed byte order: the reader returns the UTF-8 encoding of the same code points
    (surrogate pairs combined) -/
theorem utf16_roundtrip (le : Bool) (cs : List Nat) (h : ∀ c ∈ cs, isScalar c) :
    decodeText (if le then .utf16le else .utf16be) (unitsToBytes le (cs.flatMap utf16Encode))
      = cs.flatMap utf8Encode := by
  have hu : ∀ u ∈ cs.flatMap utf16Encode, u < 65536 := by
    intro u hu
    obtain ⟨c, hc, huc⟩ := List.mem_flatMap.mp hu
    exact utf16Encode_lt c (h c hc) u huc
  cases le <;> simp [decodeText, units16_bytes _ _ hu, utf16_units_roundtrip cs h]

/-- UTF-16 with byte order mark: the BOM selects the byte order and is not part of the text -/
theorem utf16_bom_roundtrip (cs : List Nat) (h : ∀ c ∈ cs, isScalar c) :
    decodeText .utf16bom (0xFE :: 0xFF :: unitsToBytes false (cs.flatMap utf16Encode)) = cs.flatMap utf8Encode
    ∧ decodeText .utf16bom (0xFF :: 0xFE :: unitsToBytes true (cs.flatMap utf16Encode)) = cs.flatMap utf8Encode := by
  have hu : ∀ u ∈ cs.flatMap utf16Encode, u < 65536 := by
    intro u hu
    obtain ⟨c, hc, huc⟩ := List.mem_flatMap.mp hu
    exact utf16Encode_lt c (h c hc) u huc
  constructor <;> simp [decodeText, units16_bytes _ _ hu, utf16_units_roundtrip cs h]

/-! ### read histories on one decoder: no state between reads except the position

  `runHistory den st steps` runs 0..∞ steps (seek + reader, seek + SeekRel(-n) + reader, peeks,
  BitsLeft/Pos, readers inside FieldStruct / FieldArray / FramedFn / LimitedFn / RangeFn /
  SeekAbs(…, fn) children) on ONE decoder, threading the position as the Go methods do; `stepObs den s`
  is the single-read description of step s — a function of the buffer's denotation and the step only.
  So what a read returns cannot depend on what was read before (a stale shared read buffer, a
  "same position and width as last time" cache, a buffer a child or a little-endian reader left
  modified): the harness' `histories` run holds the real decoder to that, step by step. -/

/-- the observation of step i depends only on (den, P_i, M_i): for ALL histories, from any state -/
theorem read_history_stateless (den : Bits) (st : Nat) (steps : List Step) :
    runHistory den st steps = steps.map (stepObs den) :=
  runHistory_map den steps st

/-- the i-th observation of any history is the single-read description of the i-th step -/
theorem read_history_nth (den : Bits) (st : Nat) (steps : List Step) (i : Nat) :
    (runHistory den st steps)[i]? = steps[i]?.map (stepObs den) := by
  rw [read_history_stateless]; simp

/-- plain reads: `runHistory` of (seek P_i, reader M_i) steps inside the input is `readAt den P_i M_i` -/
theorem read_history_reads (den : Bits) (st : Nat) (rs : List (Nat × Reader))
    (h : ∀ r ∈ rs, r.1 ≤ den.length) :
    runHistory den st (rs.map fun r => .read r.1 r.2) = rs.map fun r => .rd (readAt den r.1 r.2) := by
  rw [read_history_stateless, List.map_map]
  apply List.map_congr_left
  intro r hr
  have := h r hr
  simp only [Function.comp, stepObs]
  rw [if_neg (by omega)]

/-- reading again — the same step anywhere later in any history, whatever happened in between
    (other widths, little-endian readers, children) — observes the same -/
theorem reread_same (den : Bits) (st : Nat) (steps : List Step) (i j : Nat)
    (h : steps[i]? = steps[j]?) :
    (runHistory den st steps)[i]? = (runHistory den st steps)[j]? := by
  rw [read_history_nth, read_history_nth, h]

/-- twice at the same position with the same reader: the same value and position both times -/
theorem reread_same_twice (den : Bits) (st p : Nat) (rd : Reader) (mid : List Step) (h : p ≤ den.length) :
    runHistory den st ([.read p rd] ++ mid ++ [.read p rd])
      = [.rd (readAt den p rd)] ++ mid.map (stepObs den) ++ [.rd (readAt den p rd)] := by
  rw [read_history_stateless]
  simp only [List.map_append, List.map_cons, List.map_nil, stepObs]
  rw [if_neg (by omega)]

/-- a peek of n bits followed by a read of n bits at the same position: the peek returns the
    big-endian value of the n bits at P and leaves the position at P, the read returns the same
    value and advances by n -/
theorem peek_then_read (den : Bits) (st p n : Nat) (cur : Endian) (hn : n ≤ 64) (h : p + n ≤ den.length) :
    runHistory den st [.peek p n, .read p ⟨cur, kTryUintBits, [.int n]⟩]
      = [.peek (.ok (ofBitsBE (slice den p n)) p),
         .rd (some ⟨.ok (.u (ofBitsBE (slice den p n))) (if n = 0 then p else p + n), none⟩)] := by
  rw [read_history_stateless]
  have hp : ¬ p > den.length := by omega
  have h64 : ¬ n > 64 := by omega
  have hneg : ¬ ((n : Int) < 0) := by omega
  simp only [List.map_cons, List.map_nil, stepObs, if_neg hp, peekBits, readAt, rawCall, if_neg hneg,
    Int.toNat_natCast, tryUintBits, if_neg h64, tryBits, if_true]
  by_cases h0 : n = 0
  · subst h0; simp [Res.map, Res.withPos, slice]
  · simp [h0, h, Res.map, Res.withPos]

/-- a read inside a child decoder that shares the parent's buffer (FieldStruct / FieldArray), then
    the same read in the parent at the same position: the same observation -/
theorem child_then_parent (den : Bits) (st p : Nat) (rd : Reader) (h : p ≤ den.length) :
    runHistory den st [.child .struct p rd, .read p rd]
      = [.child (readAt den p rd) (posAfter p (readAt den p rd)), .rd (readAt den p rd)] := by
  rw [read_history_stateless]
  have hp : ¬ p > den.length := by omega
  simp only [List.map_cons, List.map_nil, stepObs, if_neg hp]

/-! ### non-vacuity -/

/-- tryU_be / tryU_le / tryS_*: hypotheses hold of a 13-bit read at alignment 5 and a 24-bit
    little-endian read at alignment 3 of a 5-byte input, and the conclusions are the expected numbers -/
example :
    let bs := bytesToBits [0xA1, 0xB2, 0xC3, 0xD4, 0xE5]
    tryUEndian bs 5 13 .be = .ok 0x6CB 18 ∧ tryUEndian bs 3 24 .le = .ok 0x1E960D 27
    ∧ trySEndian bs 0 24 .le = .ok (-3951967) 24 ∧ trySEndian bs 5 13 .be = .ok 1739 18
    ∧ trySEndian bs 0 13 .be = .ok (-3018) 13 := by
  decide +kernel

/-- reverseBytes64_spec: a 40-bit value -/
example : reverseBytes64 40 0x0102030405#64 = some 0x0504030201#64 := by decide

/-- uleb128_roundtrip / overflow: hypotheses are satisfiable -/
example : ulebEnc 10 624485 = [0xE5, 0x8E, 0x26] ∧ ulebEnc 10 (2 ^ 63 - 1) = [255, 255, 255, 255, 255, 255, 255, 255, 127] := by
  decide
example : tryULEB128 (bitsOfBytes [128, 128, 128, 128, 128, 128, 128, 128, 128, 1]) 0 = .err .other 80 := by
  decide +kernel
/-- sleb128_roundtrip: both ends of the range are encodable, −2^63 needs all ten bytes -/
example : slebEnc 10 (-9223372036854775808) = [128, 128, 128, 128, 128, 128, 128, 128, 128, 0x7f]
    ∧ slebEnc 10 (-123456) = [0xC0, 0xBB, 0x78] ∧ slebEnc 10 63 = [63] ∧ slebEnc 10 64 = [0xC0, 0] := by
  decide +kernel

/-- big integers: a 65-bit and a 12-bit two's complement number at odd alignments -/
example :
    tryBigIntEndianSign ([false] ++ List.replicate 65 true ++ [false]) 1 65 .be true = .ok (-1) 66
    ∧ tryBigIntEndianSign (bytesToBits [0x0F, 0xFE, 0x30]) 4 12 .be true = .ok (-2) 16
    ∧ tryBigIntEndianSign (bytesToBits [0x0F, 0xFE, 0x30]) 4 12 .be false = .ok 4094 16
    ∧ tryBigIntEndianSign (bytesToBits [0x01, 0x00, 0x80]) 0 24 .le true = .ok (-8388607) 24 := by
  decide +kernel

/-- fixed point: 1.5 as 16.16, and the 53-bit hypothesis is needed (2^53+1 is rounded) -/
example : fpToF64 0x18000 16 = 0x3FF8000000000000 ∧ fpToF64 (2 ^ 53 + 1) 0 = 0x4340000000000000 := by
  decide +kernel

/-- text: "hé😀" as UTF-16LE with terminator at bit alignment 3; a surrogate pair is one code point -/
example :
    let cs := [0x68, 0xE9, 0x1F600]
    (∀ c ∈ cs, isScalar c) ∧ cs.flatMap utf16Encode = [0x68, 0xE9, 0xD83D, 0xDE00]
    ∧ cs.flatMap utf8Encode = [0x68, 0xC3, 0xA9, 0xF0, 0x9F, 0x98, 0x80]
    ∧ tryTextNullFrame ([true, false, true] ++ bitsOfBytes (unitsToBytes true (cs.flatMap utf16Encode) ++ [0, 0, 7])) 3 2
        = .ok [0x68, 0, 0xE9, 0, 0x3D, 0xD8, 0, 0xDE] 83 := by
  decide +kernel

/-- read histories: TryU16LE then TryU16BE at position 0 (decoder's current endian the opposite), a
    16-bit peek then TryUintBits(16) at position 4, TryU16LE inside a FieldStruct child at position 8
    then TryU16BE in the parent at position 8, and a re-read after SeekRel(-16): every step is the
    value of the bits at its position -/
example :
    runHistory (bytesToBits [0x12, 0x34, 0x56]) 7
      [.read 0 ⟨.be, [84, 114, 121, 85, 49, 54, 76, 69], []⟩,
       .read 0 ⟨.le, [84, 114, 121, 85, 49, 54, 66, 69], []⟩,
       .peek 4 16,
       .read 4 ⟨.be, kTryUintBits, [.int 16]⟩,
       .child .struct 8 ⟨.be, [84, 114, 121, 85, 49, 54, 76, 69], []⟩,
       .read 8 ⟨.le, [84, 114, 121, 85, 49, 54, 66, 69], []⟩,
       .relRead 8 16 ⟨.be, [84, 114, 121, 85, 49, 54, 76, 69], []⟩,
       .child (.limited 8) 0 ⟨.be, [84, 114, 121, 85, 49, 54, 76, 69], []⟩]
    = [.rd (some ⟨.ok (.u 0x3412) 16, none⟩), .rd (some ⟨.ok (.u 0x1234) 16, none⟩),
       .peek (.ok 0x2345 4), .rd (some ⟨.ok (.u 0x2345) 20, none⟩),
       .child (some ⟨.ok (.u 0x5634) 24, none⟩) 24, .rd (some ⟨.ok (.u 0x3456) 24, none⟩),
       .rd (some ⟨.ok (.u 0x5634) 24, none⟩),
       .child (some ⟨.err .eof 8, none⟩) 8] := by
  decide +kernel

end Props.C02
