import FqModel.C02Call
import FqModel.Gen.DecodeGen
import FqModel.Gen.BitFns
/-!
  C02 — the regenerated fact about pkg/decode/decode_gen.go (table written by /verif/extract/c02gen
  on every run into FqModel/Gen/DecodeGen.lean).
-/
namespace Props.C02
open FqModel FqModel.Scalar FqModel.C02 FqModel.Gen.DecodeGen

/-! ### regenerated fact: decode_gen.go -/

/-- REGENERATED FACT.  Every method of decode_gen.go whose NAME is a reader name (Try/Field/Scalar
    prefixes + U8, S13LE, F64BE, FP32, UBigIntE, ULEB128, UTF16LENull …) either calls the core
    function that the name stands for with the width, endian and encoding that the name stands for,
    or passes its own parameters unchanged to a method of strictly lower layer whose name stands
    for the same core call.  (By induction on the layer rank every reader method therefore ends in
    the right core call; the Go compiler guarantees that the delegation targets exist.) -/
theorem gen_table_ok : genTable.all entryOk = true := by decide +kernel

/-- the table is not vacuous: 2460 of the 2549 methods are readers (the rest are the typed
    Field…Fn / …Assert / …Validate helpers) -/
theorem gen_table_readers : (genTable.filter isReader).length = 2460 ∧ genTable.length = genCount := by
  decide +kernel

/-- what some names stand for (the parser is not vacuous either) -/
theorem parseName_examples :
    parseName [84,114,121,85,50,52,76,69] = some (.try_, .tryUEndian, [.lit 24, .le])            -- TryU24LE
    ∧ parseName [70,105,101,108,100,83,49,51] = some (.field, .trySEndian, [.lit 13, .curEndian])  -- FieldS13
    ∧ parseName [70,80,51,50,66,69] = some (.plain, .tryFPEndian, [.lit 32, .lit 16, .be])         -- FP32BE
    ∧ parseName [84,114,121,70,105,101,108,100,83,99,97,108,97,114,85,84,70,49,54,76,69,78,117,108,108]
        = some (.tryFieldScalar, .tryTextNull, [.lit 2, .enc .utf16le])                            -- TryFieldScalarUTF16LENull
    ∧ parseName [85,105,110,116,65,115,115,101,114,116] = none := by                               -- UintAssert
  decide +kernel

/-! ### the translated bit functions (FqModel/Gen/BitFns.lean, extract/c02bits)

  For each function f the generator says `f_translated` (the Go source is in the translatable
  fragment) and `f_same_as_model` (the translation is token for token the model's text).  When
  `f_same_as_model` the theorem below is the REGENERATED tie: Gen.f = Model.f by definitional
  unfolding.  When it is not (the source was rewritten — equivalently or not — or left the fragment)
  the hypothesis is false, the theorem says nothing, and the tie of f is the correspondence run:
  harness/cmd/c02 calls the real function (`fn rev64 / twos / f16 / f80` cases: all widths × boundary
  patterns × random values, all 65 536 float16 patterns) and the driver compares with the model and
  with the specification.  Which tie a run used is in the evidence (harness_stats tie_regenerated_f). -/

open FqModel.Gen.BitFns in
theorem gen_reverseBytes64_ok (hs : reverseBytes64_same_as_model = true) (nBits : Nat) (n : BitVec 64) :
    FqModel.Gen.BitFns.reverseBytes64 nBits n = FqModel.Scalar.reverseBytes64 nBits n := by
  first
  | rfl
  | exact absurd hs (by decide)

open FqModel.Gen.BitFns in
theorem gen_twosComplement_ok (hs : twosComplement_same_as_model = true) (nBits : Nat) (n : BitVec 64) :
    FqModel.Gen.BitFns.twosComplement nBits n = FqModel.Scalar.twosComplement nBits n := by
  first
  | rfl
  | exact absurd hs (by decide)

open FqModel.Gen.BitFns in
theorem gen_expandF16ToF32_loop_ok (hs : expandF16ToF32_same_as_model = true) : ∀ (fuel frac exp : Nat),
    FqModel.Gen.BitFns.expandF16ToF32_loop0 fuel frac exp = FqModel.Scalar.expandF16ToF32_loop0 fuel frac exp := by
  first
  | (intro fuel
     induction fuel with
     | zero => intro frac exp; rfl
     | succ n ih =>
       intro frac exp
       simp only [FqModel.Gen.BitFns.expandF16ToF32_loop0, FqModel.Scalar.expandF16ToF32_loop0, ih])
  | (intro fuel frac exp; rfl)
  | exact absurd hs (by decide)

open FqModel.Gen.BitFns in
theorem gen_expandF16ToF32_ok (hs : expandF16ToF32_same_as_model = true) (h : Nat) :
    FqModel.Gen.BitFns.expandF16ToF32 h = FqModel.Scalar.expandF16ToF32 h := by
  first
  | (simp only [FqModel.Gen.BitFns.expandF16ToF32, FqModel.Scalar.expandF16ToF32, gen_expandF16ToF32_loop_ok hs]
     done)
  | (simp only [FqModel.Gen.BitFns.expandF16ToF32, FqModel.Scalar.expandF16ToF32, gen_expandF16ToF32_loop_ok hs]
     rfl)
  | exact absurd hs (by decide)

open FqModel.Gen.BitFns in
theorem gen_f80to64_ok (hs : f80to64_same_as_model = true) (se m : Nat) :
    FqModel.Gen.BitFns.f80to64 se m = FqModel.Scalar.f80to64 se m := by
  first
  | rfl
  | exact absurd hs (by decide)

end Props.C02
