import FqModel.C02Call
import FqModel.Gen.DecodeGen
import FqModel.Gen.BitFns
/-!
  C02 — the regenerated fact about pkg/decode/decode_gen.go (table written by /verif/extract/c02gen
  on every run into FqModel/Gen/DecodeGen.lean).
-/
namespace Props.C02
open FqModel FqModel.Scalar FqModel.C02 FqModel.Gen.DecodeGen

/-! ### regenerated fact: decode_gen.go -/

/-- REGENERATED FACT.  Every method of decode_gen.go whose NAME is a reader name (Try/Field/Scalar
    prefixes + U8, S13LE, F64BE, FP32, UBigIntE, ULEB128, UTF16LENull …) either calls the core
    function that the name stands for with the width, endian and encoding that the name stands for,
    or passes its own parameters unchanged to a method of strictly lower layer whose name stands
    for the same core call.  (By induction on the layer rank every reader method therefore ends in
    the right core call; the Go compiler guarantees that the delegation targets exist.) -/
theorem gen_table_ok : genTable.all entryOk = true := by decide +kernel

/-- the table is not vacuous: 2460 of the 2549 methods are readers (the rest are the typed
    Field…Fn / …Assert / …Validate helpers) -/
theorem gen_table_readers : (genTable.filter isReader).length = 2460 ∧ genTable.length = genCount := by
  decide +kernel

/-- what some names stand for (the parser is not vacuous either) -/
theorem parseName_examples :
    parseName [84,114,121,85,50,52,76,69] = some (.try_, .tryUEndian, [.lit 24, .le])            -- TryU24LE
    ∧ parseName [70,105,101,108,100,83,49,51] = some (.field, .trySEndian, [.lit 13, .curEndian])  -- FieldS13
    ∧ parseName [70,80,51,50,66,69] = some (.plain, .tryFPEndian, [.lit 32, .lit 16, .be])         -- FP32BE
    ∧ parseName [84,114,121,70,105,101,108,100,83,99,97,108,97,114,85,84,70,49,54,76,69,78,117,108,108]
        = some (.tryFieldScalar, .tryTextNull, [.lit 2, .enc .utf16le])                            -- TryFieldScalarUTF16LENull
    ∧ parseName [85,105,110,116,65,115,115,101,114,116] = none := by                               -- UintAssert
  decide +kernel

/-- REGENERATED FACT.  The model's `reverseBytes64` IS bitio.ReverseBytes64 as it stands in the
    repository (go/ast translation of every case's mask/shift/or expression to `BitVec 64`), by
    definitional unfolding -/
theorem gen_reverseBytes64_ok (nBits : Nat) (n : BitVec 64) :
    FqModel.Gen.BitFns.reverseBytes64 nBits n = FqModel.Scalar.reverseBytes64 nBits n := rfl

/-- REGENERATED FACT.  The model's `twosComplement` IS the sign test and the two's complement
    expression of read.go trySEndian -/
theorem gen_twosComplement_ok (nBits : Nat) (n : BitVec 64) :
    FqModel.Gen.BitFns.twosComplement nBits n = FqModel.Scalar.twosComplement nBits n := rfl

/-- REGENERATED FACT.  The model's `expandF16ToF32` (and its normalisation loop) IS
    mathx.expandF16ToF32 as translated statement by statement from float16.go -/
theorem gen_f16NormLoop_ok : ∀ (fuel frac exp : Nat),
    FqModel.Gen.BitFns.expandF16ToF32_loop0 fuel frac exp = FqModel.Scalar.f16NormLoop fuel frac exp := by
  intro fuel
  induction fuel with
  | zero => intro frac exp; rfl
  | succ n ih =>
    intro frac exp
    simp only [FqModel.Gen.BitFns.expandF16ToF32_loop0, FqModel.Scalar.f16NormLoop, ih,
      FqModel.Gen.BitFns.u32, FqModel.Scalar.u32]

theorem gen_expandF16ToF32_ok (h : Nat) :
    FqModel.Gen.BitFns.expandF16ToF32 h = FqModel.Scalar.expandF16ToF32 h := by
  simp only [FqModel.Gen.BitFns.expandF16ToF32, FqModel.Scalar.expandF16ToF32, gen_f16NormLoop_ok,
    FqModel.Gen.BitFns.u32, FqModel.Scalar.u32]
  rfl

/-- REGENERATED FACT.  The model's `f80to64` IS mathx.Float80.Float64 as translated from float80.go
    (field extraction, the NaN / ±Inf branches, exponent 0 treated as 1, bias 16383 + 63, big.Float of
    precision 64 rounded once, sign applied last) -/
theorem gen_f80to64_ok (se m : Nat) :
    FqModel.Gen.BitFns.f80to64 se m = FqModel.Scalar.f80to64 se m := rfl

end Props.C02
