import Proofs.TreeExec
import Proofs.TreeIdem
import Proofs.TreeExact
/-!
  C03 — every decode tree is structurally sound: property theorems about the model of the decode API
  layer (FqModel/Tree.lean).  Helper lemmas: Proofs/Tree.lean, TreeWF.lean, TreeRun.lean, TreeExec.lean,
  TreeIdem.lean, TreeExact.lean.

  `run cfg input` is what `decode.Decode` (as called by interp `_decode`) does for a decoder program `cfg.body`
  written with FieldU / FieldRawLen / FieldValue* / FieldStruct / FieldArray / FramedFn / LimitedFn / RangeFn /
  SeekAbs / SeekRel (with and without restore) / Format (inlined nested format) / FieldFormat / FieldFormatLen / FieldFormatRange /
  FieldFormatOrRaw(Len) / FieldFormatBitBuf / Field{Struct,Array}RootBitBufFn / FieldRootBitBuf / Fatalf /
  Errorf and data-dependent loops, on the buffer `input`, with Force / FillGaps / Options.Range as in `cfg`;
  failing programs keep their partial tree.  `WF` is the statement of the property.

  `run_wf` is the full, unconditional obligation: every program, failing or not.

  History: three defects that made the statement false (known findings `seek-past-end`, `rootfn-partial`,
  `rangefn-negative-length`) were found by this check and repaired in /repo (b19305f5, 227ce6eb, 2947129a); the
  model follows the repaired code, the former witnesses are regression theorems (`seek_past_end_fixed`,
  `rootfn_partial_fixed`, `rangefn_negative_fixed`, `rangefn_negative_old_rule_witness`) and corpus lines.
-/
namespace Props.C03
open FqModel FqModel.Tree

/-- WF of the tree a run returns (vacuous when `decode.Decode` returns no value or panics) -/
def outWF (r : RunRes) : Bool := match r.out with | .tree t => WF t | _ => true

/-- Every decode tree produced through the modelled API — for every program, every input, Force on or off,
    FillGaps on or off, any Options.Range, INCLUDING the partial trees of failing programs — is WF; and during a
    run the cursor never stands beyond the end of a section. -/
theorem run_wf (cfg : Cfg) (input : Bits) :
    outWF (run cfg input) = true ∧ (run cfg input).over = false := by
  refine ⟨?_, Proofs.Tree.run_over_false cfg input⟩
  unfold outWF
  split
  · rename_i t ht
    exact Proofs.Tree.run_wf_tree cfg input t ht
  · rfl

/-- non-vacuity: `run` returns trees for non-trivial programs: struct, seek with restore, framed, RangeFn,
    nested format with gap filling; by a failing one (partial tree); by one that fails inside a nested root buffer -/
def exProg : Cfg := ⟨false, true, 0, 0, false,
  [.u (.f 1) 3, .comp false (.f 2) [.u (.f 1) 5, .seek true 2 true [.raw (.f 9) 2]], .sub .framed 8 [.u (.f 3) 4],
   .sub (.range 20) 6 [.u (.f 7) 6], .fmt (.len 8 false) (.f 4) true [.u (.f 1) 2, .u (.f 1) 2]]⟩
def exFailing : Cfg := ⟨false, true, 0, 0, false,
  [.u (.f 1) 3, .comp false (.f 2) [.u (.f 1) 5, .comp true (.f 3) [.raw (.f 9) 2, .u (.f 1) 40]]]⟩

example :
    (match (run exProg (List.replicate 40 true)).out with | .tree t => t.i.err == .none && t.kids.length == 7 | _ => false) = true := by
  decide +kernel
example :
    (match (run exFailing (List.replicate 40 true)).out with | .tree t => t.i.err == .io && WF t | _ => false) = true := by
  decide +kernel

/-- regression (former known finding `seek-past-end`, fixed by b19305f5): `u8; SeekAbs(1000); FieldStruct{}` on a
    16-bit buffer now fails at the seek with an IOError and the partial tree is WF. -/
def wOver : Cfg := ⟨false, false, 0, 0, false, [.u (.f 1) 8, .seek true 1000 false [], .comp false (.f 2) []]⟩
theorem seek_past_end_fixed :
    (match (run wOver (List.replicate 16 false)).out with | .tree t => t.i.err == .io && WF t && t.kids.length == 1 | _ => false) = true := by
  decide +kernel

/-- regression (former known finding `rootfn-partial`, fixed by 227ce6eb): a Fatalf inside FieldStructRootBitBufFn
    leaves a POST-PROCESSED nested root in the partial tree, which is WF. -/
def wRoot : Cfg := ⟨false, false, 0, 0, false,
  [.u (.f 1) 8, .rootFn false (.f 2) 32 [.comp true (.f 3) [.u (.f 4) 4, .u (.f 5) 4], .u (.f 6) 8, .fail true]]⟩
theorem rootfn_partial_fixed :
    (match (run wRoot (List.replicate 16 false)).out with | .tree t => t.i.err == .de && WF t && t.kids.length == 2 | _ => false) = true := by
  decide +kernel

/-- regression (former known finding `rangefn-negative-length`, fixed by 2947129a): `u8; RangeFn(100, -90, {FieldStruct{}})`
    on a 16-bit buffer now fails with a DecoderError (Fatalf, also under Force) and the partial tree is WF. -/
def wNeg (force : Bool) : Cfg := ⟨force, false, 0, 0, false, [.u (.f 1) 8, .sub (.range 100) (-90) [.comp false (.f 2) []]]⟩
theorem rangefn_negative_fixed :
    ∀ force, (match (run (wNeg force) (List.replicate 16 false)).out with
      | .tree t => t.i.err == .de && WF t && t.kids.length == 1 | _ => false) = true := by
  decide +kernel

/-- the OLD RangeFn rule (`doSubOld`, the code before 2947129a) on the same call: `fn` starts at bit 100 of a section of
    10 bits, inside a 16-bit buffer, and the empty struct is recorded at 100:0 — outside the buffer. -/
theorem rangefn_negative_old_rule_witness :
    let r := doSubOld (.range 100) (-90) (execList [.comp false (.f 2) []]) ⟨List.replicate 16 false, false, false⟩ { pos := 8 }
    r.ok = true ∧ r.over = true ∧ r.kids.map (fun k => (k.start, k.len)) = [(100, 0)] ∧
    (doSub (.range 100) (-90) (execList [.comp false (.f 2) []]) ⟨List.replicate 16 false, false, false⟩ { pos := 8 }).err = .de := by
  decide +kernel

/-- `d.Format` (inline the root children of a nested format into the current value) into a STRUCT: a nested array root with
    two elements of the same name is refused at the second element with a DecoderError — the struct keeps unique
    names (the first element stays, the partial tree is WF); into an ARRAY both are accepted.  (`run_wf` covers `inl` for
    all programs; this pins the behaviour seeded change S4-C03-1 broke.) -/
def wInl (intoArr : Bool) : Cfg := ⟨false, false, 0, 0, intoArr, [.u (.f 1) 4, .inl true [.u (.f 2) 2, .u (.f 2) 2], .u (.f 3) 1]⟩
theorem inline_into_struct_refuses_duplicates :
    (match (run (wInl false) (List.replicate 16 true)).out with
      | .tree t => t.i.err == .de && WF t && t.kids.length == 2 | _ => false) = true ∧
    (match (run (wInl true) (List.replicate 16 true)).out with
      | .tree t => t.i.err == .none && WF t && t.kids.length == 4 | _ => false) = true := by
  decide +kernel

/-- In the tree a run returns — ANY run, also over-seeking or failing ones — the range of every unsigned field,
    after all rebasing of nested format decodes and after postProcess, denotes in the input buffer (for a value of a
    nested bit buffer: in that buffer) exactly the bits whose big-endian value the field holds. -/
theorem run_exact_ranges (cfg : Cfg) (input : Bits) (t : T) (ht : (run cfg input).out = .tree t) :
    Proofs.Tree.exactIn input t = true := Proofs.Tree.run_exact cfg input t ht

example : (match (run exProg (List.replicate 40 true)).out with | .tree t => Proofs.Tree.exactIn (List.replicate 40 true) t | _ => false) = true := by
  decide +kernel

/-- `FieldU` / `FieldRawLen`: the recorded range is exactly the cursor interval the read consumed, it lies inside
    the section the decoder reads from, and the value of an unsigned field is the big-endian value of exactly
    these bits. -/
theorem field_range_is_cursor_interval_u (name : FName) (n : Nat) (c : Ctx) (st : St) (h : (exec (.u name n) c st).ok = true)
    (h0 : st.ok = true) :
    ∃ v, (exec (.u name n) c st).kids = st.kids ++ [v] ∧ v.i.kind = .uint ∧ v.kids = [] ∧
      v.start = st.pos ∧ v.len = (n : Int) ∧ v.stop = (exec (.u name n) c st).pos ∧
      (n = 0 ∨ v.stop ≤ (c.buf.length : Int)) ∧ v.i.val = ofBitsBE (slice c.buf st.pos.toNat n) := by
  simp only [exec, doU] at h ⊢
  split at h
  · rename_i hr
    simp only [hr, if_true]
    simp only [addChild] at h ⊢
    split at h
    · simp [St.ok, St.fail] at h
    · rename_i hd
      simp only [hd]
      refine ⟨_, rfl, rfl, rfl, rfl, rfl, rfl, ?_, rfl⟩
      simp only [canRead, Bool.and_eq_true, Bool.or_eq_true, decide_eq_true_eq, beq_iff_eq] at hr
      rcases hr.2 with e | e
      · exact Or.inl e
      · exact Or.inr e
  · simp [St.ok, St.fail] at h

theorem field_range_is_cursor_interval_raw (name : FName) (n : Int) (c : Ctx) (st : St) (h : (exec (.raw name n) c st).ok = true)
    (h0 : st.ok = true) :
    ∃ v, (exec (.raw name n) c st).kids = st.kids ++ [v] ∧ v.i.kind = .raw ∧ v.kids = [] ∧
      v.start = st.pos ∧ v.len = n ∧ v.stop = (exec (.raw name n) c st).pos ∧ 0 ≤ n ∧ v.stop ≤ (c.buf.length : Int) := by
  simp only [exec, doRaw] at h ⊢
  split at h
  · simp [St.ok, St.fail] at h
  · rename_i hr
    simp only [hr, if_false]
    simp only [addChild] at h ⊢
    split at h
    · simp [St.ok, St.fail] at h
    · rename_i hd
      simp only [hd]
      simp only [not_or, Int.not_lt] at hr
      exact ⟨_, rfl, rfl, rfl, rfl, rfl, rfl, hr.1, hr.2⟩

example : (exec (.u (.f 1) 5) ⟨List.replicate 16 true, false, false⟩ { pos := 3 }).ok = true := by decide +kernel
example : (exec (.raw (.f 1) 5) ⟨List.replicate 16 true, false, false⟩ { pos := 3 }).ok = true := by decide +kernel

/-- postProcess sorts the fields of a struct by start, STABLY: the result is sorted, it is a permutation of the
    (post-processed) fields, and the fields with any given start keep their insertion order; the children of
    the result are this sorted list with the indices re-assigned. -/
theorem postProcess_sorted_stable (i : Info) (kids : List T) (h : i.kind = .struct) :
    (postProcess (.mk i kids)).kids = assignIdx false 0 (sortByStart (ppKids kids)) ∧
    sortedStarts (postProcess (.mk i kids)).kids = true ∧
    (sortByStart (ppKids kids)).Perm (ppKids kids) ∧
    ∀ v, (sortByStart (ppKids kids)).filter (fun k => k.start == v) = (ppKids kids).filter (fun k => k.start == v) := by
  have e : (postProcess (.mk i kids)).kids = assignIdx false 0 (sortByStart (ppKids kids)) := by
    simp only [postProcess, h, Kind.isComp, T.kids]; rfl
  refine ⟨e, ?_, Proofs.Tree.sortByStart_perm _, Proofs.Tree.filter_sortByStart _⟩
  rw [e, Proofs.Tree.sortedStarts_assignIdx]
  exact Proofs.Tree.sortedStarts_sort _

/-- an array is NOT sorted: its elements keep the insertion order and are numbered 0..k-1 -/
theorem postProcess_array_order (i : Info) (kids : List T) (h : i.kind = .array) :
    (postProcess (.mk i kids)).kids = assignIdx true 0 (ppKids kids) ∧
    idxFrom true 0 (postProcess (.mk i kids)).kids = true := by
  have e : (postProcess (.mk i kids)).kids = assignIdx true 0 (ppKids kids) := by
    simp only [postProcess, h, Kind.isComp, T.kids]; rfl
  exact ⟨e, by rw [e]; exact Proofs.Tree.idxFrom_assignIdx _ _ _⟩

theorem postProcess_idempotent (t : T) : postProcess (postProcess t) = postProcess t :=
  Proofs.Tree.postProcess_idempotent t

/-- whatever the tree, after postProcess every compound of the processed buffer has the hull of its eligible
    children as range, struct fields are sorted, and indices are assigned (the pre-invariant supplies the rest
    of WF: bounds, unique names, links, nested roots) -/
theorem postProcess_establishes_wf (L : Int) (t : T) (h : Proofs.Tree.preIn L t = true) :
    wfAt (.inBuf L) (postProcess t) = true := Proofs.Tree.pp_in L t h

example : Proofs.Tree.preIn 16 (.mk { name := .f 1, kind := .struct, start := 3, len := 0 }
    [leaf (.f 2) .uint 8 4, leaf (.f 3) .uint 0 8]) = true := by decide +kernel

end Props.C03
