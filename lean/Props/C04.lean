import FqModel.Gaps
/-!
  C04 — property theorems about the model of `ranges.Gaps` (FqModel/Gaps.lean).
  Helper lemmas live in Proofs/Gaps.lean.
-/
namespace Props.C04
open FqModel.Gaps

/-- Known finding (DESIGN §1.8 #2): the full coverage statement is FALSE of the current
    algorithm — bit 7 of a 10-bit buffer with fields 1:1 2:5 8:1 is neither in a field nor
    in a gap.  This is the case pinned by the repository's own TestRangeGaps. -/
theorem gaps_hole_witness :
    let rs := [⟨1, 1⟩, ⟨2, 5⟩, ⟨8, 1⟩]
    gaps ⟨0, 10⟩ rs = [⟨0, 1⟩, ⟨9, 1⟩] ∧ covered rs 7 = false ∧ covered (gaps ⟨0, 10⟩ rs) 7 = false
      ∧ oneBitHole rs 7 = true := by
  decide

/-- the hole also opens next to an EMPTY range: fields 0:3 and 4:0 lose bit 3 -/
theorem gaps_hole_witness_empty :
    covered (gaps ⟨0, 10⟩ [⟨0, 3⟩, ⟨4, 0⟩]) 3 = false ∧ oneBitHole [⟨0, 3⟩, ⟨4, 0⟩] 3 = true := by
  decide

/-- the one-character repair closes the witness -/
theorem gapsFixed_witness :
    gapsFixed ⟨0, 10⟩ [⟨1, 1⟩, ⟨2, 5⟩, ⟨8, 1⟩] = [⟨0, 1⟩, ⟨7, 1⟩, ⟨9, 1⟩] := by
  decide

end Props.C04
